(** C10 — ExchangeServer answers any request with bounded work and only true
    store data.

    [handle f st rq] is requestHandler (p2p/server.go) from the decoded request
    on: [st] is the content of the header.Store it serves from (contiguous run
    Tail..Head plus headers stored above a gap), [f] the store's failure mode
    (healthy / every read blocks until the request deadline / every read
    fails), [rq] the request: (origin, amount), (hash, amount), or anything that
    does not decode to one of the two.  The result is the reply (Reset,
    NotFound, Ok headers, Panic) and the log of calls made on the store, each
    GetRange with the heights it touches.

    [wf_store st] is the invariant store.Store maintains (C04): Tail..Head is
    a hash-linked run of consecutive heights from a tail >= 1 (ANY tail: the
    store may be pruned), the header below the tail is gone, hashes and heights
    identify headers.  Origins and amounts range over all of uint64. *)
From GH Require Import Base.Prelude Model.Server Proofs.ServerP.

(** No request, store content or store failure makes the handler panic —
    every store (well-formed or not), every (origin, amount) in N x N. *)
Theorem C10_total : forall (f : fault) (st : store) (rq : req), fst (handle f st rq) <> Panic.
Proof. exact handle_total. Qed.

(** Bounded work, as seen on the header.Store interface: for EVERY store, fault
    and (origin, amount) — including 0, 2^64-1 and sums that wrap — a range
    request makes at most one GetRange(from, to) call, with from = origin,
    to <= origin + amount and to - from <= min(amount, MaxRangeRequestSize). *)
Theorem C10_bounded_calls : forall (f : fault) (st : store) (o a : N), o < two64 -> a < two64 ->
  let cs := range_calls (snd (handle f st (ROrigin o a))) in
  (length cs <= 1)%nat /\
  Forall (fun c => let '(from, to, _, _) := c in
            from = o /\ o < to /\ to <= o + a /\ to - from <= N.min a max_req) cs.
Proof. exact origin_bounded_calls. Qed.

(** Bounded work inside the store: the heights the store touches while serving
    a range request (reading the top by height, then walking down the hash
    links, including the failed look-up below a pruned tail) all lie in the
    requested interval [origin, origin+amount), are pairwise distinct, and are
    at most min(amount, 64) many. *)
Theorem C10_bounded_reads : forall (f : fault) (st : store) (o a : N),
  wf_store st -> o < two64 -> a < two64 ->
  let rd := heights_read (snd (handle f st (ROrigin o a))) in
  (forall n, In n rd -> o <= n /\ n < o + a)
  /\ N.of_nat (length rd) <= N.min a max_req
  /\ NoDup rd.
Proof. exact origin_bounded_reads. Qed.

(** Head, hash and undecodable requests read no height: a hash request makes
    exactly one Get(hash), the others none. *)
Theorem C10_other_requests_read_nothing : forall (f : fault) (st : store) (id a : N),
  range_calls (snd (handle f st (RHash id a))) = [] /\ get_calls (snd (handle f st (RHash id a))) = [id]
  /\ snd (handle f st RInvalid) = []
  /\ (a < two64 -> range_calls (snd (handle f st (ROrigin 0 a))) = []
                   /\ get_calls (snd (handle f st (ROrigin 0 a))) = []).
Proof. exact other_requests_no_range_reads. Qed.

(** Reply shape of a range request (origin >= 1), whatever the store's failure
    mode: NOT_FOUND, a reset, or OK frames l with 1 <= |l| <= amount whose j-th
    header IS the store's header at height origin + j (inside Tail..Head), and
    |l| < amount only when the last one is the store's head. *)
Theorem C10_reply_shape : forall (f : fault) (st : store) (o a : N),
  wf_store st -> 1 <= o -> o < two64 -> a < two64 ->
  let r := fst (handle f st (ROrigin o a)) in
  r = NotFound \/ r = Reset \/
  exists l, r = Ok l
    /\ (1 <= length l)%nat /\ N.of_nat (length l) <= a
    /\ tail_h st <= o /\ o + N.of_nat (length l) - 1 <= head_h st
    /\ (forall j, (j < length l)%nat ->
          exists h, nth_error l j = Some h /\ get_height st (o + N.of_nat j) = Some h
                    /\ h_height h = o + N.of_nat j /\ In h (s_chain st))
    /\ (N.of_nat (length l) < a -> o + N.of_nat (length l) - 1 = head_h st).
Proof. exact origin_reply_shape. Qed.

(** Which of the three, exactly (healthy store): reset iff the request is
    empty, wraps uint64, exceeds MaxRangeRequestSize, or the store is empty;
    NOT_FOUND iff the origin is below the tail or above the head; otherwise the
    min(amount, head - origin + 1) headers from origin on. *)
Theorem C10_range_reply : forall (st : store) (o a : N),
  wf_store st -> 1 <= o -> o < two64 -> a < two64 ->
  fst (handle FNone st (ROrigin o a)) =
    if (a =? 0) || (two64 <=? o + a) || (max_req <? a) then Reset
    else if is_empty st then Reset
    else if (o <? tail_h st) || (head_h st <? o) then NotFound
    else Ok (seg st o (N.to_nat (N.min a (head_h st - o + 1)))).
Proof. exact origin_reply_exact. Qed.

(** A head request (origin 0, any amount >= 1) returns the store's current head
    and touches nothing else; on an empty store the stream is reset. *)
Theorem C10_head_request : forall (st : store) (a : N), 1 <= a -> a < two64 ->
  handle FNone st (ROrigin 0 a) = (match head_of st with Some h => Ok [h] | None => Reset end, [CHead]).
Proof. exact head_request. Qed.

(** amount 0 is not a request for anything: reset, no store call (any origin, including 0) *)
Theorem C10_empty_request : forall (f : fault) (st : store) (o : N), o < two64 ->
  handle f st (ROrigin o 0) = (Reset, []).
Proof. exact empty_request. Qed.

(** A hash request returns the stored header with that hash, NOT_FOUND when there is none. *)
Theorem C10_hash_request : forall (st : store), wf_store st -> forall (id a : N),
  (forall h, In h (all_hdrs st) -> h_id h = id -> handle FNone st (RHash id a) = (Ok [h], [CGet id]))
  /\ ((forall h, In h (all_hdrs st) -> h_id h <> id) -> handle FNone st (RHash id a) = (NotFound, [CGet id])).
Proof. exact hash_request. Qed.

(** Only true store data: whatever the request, the store (even an ill-formed
    one) and the fault, every header in an OK reply is a stored header, and an
    OK reply carries at least one. *)
Theorem C10_only_true_data : forall (f : fault) (st : store) (rq : req) (l : list hdr),
  fst (handle f st rq) = Ok l -> l <> [] /\ forall x, In x l -> In x (all_hdrs st).
Proof. exact only_true_data. Qed.

(** A failing or stuck store is never papered over: the reply is a reset or NOT_FOUND. *)
Theorem C10_store_failure_refused : forall (f : fault) (st : store) (rq : req), f <> FNone ->
  fst (handle f st rq) = Reset \/ fst (handle f st rq) = NotFound.
Proof. exact fault_refuses. Qed.

(** * The store changes while the request is served

    The handler's store calls are separate calls; the syncer may append and the
    pruner may delete between any two of them.  [handle_d f e rq] is the same
    handler where [e : env] gives the store content seen by the next call as a
    function of the kinds of calls that already returned — an arbitrary content
    per call.  The quiescent [handle f st] above is the instance [e = fun _ => st]. *)

Theorem C10_quiescent_is_instance : forall (f : fault) (st : store) (rq : req),
  handle_d f (fun _ => st) rq = handle f st rq.
Proof. exact static_is_instance. Qed.

Theorem C10_changing_store_total : forall (f : fault) (e : env) (rq : req), fst (handle_d f e rq) <> Panic.
Proof. exact handle_d_total. Qed.

(** Bounded work whatever the store does meanwhile (any contents at all): still at
    most one GetRange, from = origin, to <= origin + amount, to - from <=
    min(amount, 64) — in particular a head that advances between HasAt and Head
    can not make the clamp [to = head+1] grow the range. *)
Theorem C10_changing_store_bounded_calls : forall (f : fault) (e : env) (o a : N), o < two64 -> a < two64 ->
  let cs := range_calls (snd (handle_d f e (ROrigin o a))) in
  (length cs <= 1)%nat /\
  Forall (fun c => let '(from, to, _, _) := c in
            from = o /\ o < to /\ to <= o + a /\ to - from <= N.min a max_req) cs.
Proof. exact origin_bounded_calls_d. Qed.

Theorem C10_changing_store_bounded_reads : forall (f : fault) (e : env) (o a : N),
  (forall hist, wf_store (e hist)) -> o < two64 -> a < two64 ->
  let rd := heights_read (snd (handle_d f e (ROrigin o a))) in
  (forall n, In n rd -> o <= n /\ n < o + a)
  /\ N.of_nat (length rd) <= N.min a max_req
  /\ NoDup rd.
Proof. exact origin_bounded_reads_d. Qed.

(** Reply shape: NOT_FOUND, reset, or OK frames l, 1 <= |l| <= amount, that are
    exactly the headers at origin, origin+1, ... of ONE content S the store had
    during the request (the one GetRange saw), and |l| < amount only when l ends
    at the head the store had when the server asked for it. *)
Theorem C10_changing_store_reply_shape : forall (f : fault) (e : env) (o a : N),
  (forall hist, wf_store (e hist)) -> 1 <= o -> o < two64 -> a < two64 ->
  let r := fst (handle_d f e (ROrigin o a)) in
  r = NotFound \/ r = Reset \/
  exists l S, r = Ok l /\ (S = e [KHasAt] \/ S = e [KHasAt; KHead])
    /\ (1 <= length l)%nat /\ N.of_nat (length l) <= a
    /\ (forall j, (j < length l)%nat ->
          exists h, nth_error l j = Some h /\ get_height S (o + N.of_nat j) = Some h
                    /\ h_height h = o + N.of_nat j /\ In h (all_hdrs S))
    /\ (N.of_nat (length l) < a ->
          exists hd, head_of (e [KHasAt]) = Some hd /\ o + N.of_nat (length l) - 1 = h_height hd).
Proof. exact origin_reply_shape_d. Qed.

(** every header of an OK reply was stored in the content one of the calls saw (any contents, any request) *)
Theorem C10_changing_store_only_true_data : forall (f : fault) (e : env) (rq : req) (l : list hdr),
  fst (handle_d f e rq) = Ok l -> l <> [] /\ exists hist, forall x, In x l -> In x (all_hdrs (e hist)).
Proof. exact only_true_data_d. Qed.

(** ** non-vacuity: a pruned store (tail 5, head 8), all reply kinds and the boundary requests *)
Definition ex_h (n : N) : hdr := Hdr false 1 n 0%Z (100 + n) (100 + n - 1) true.
Definition ex_st : store := Store [ex_h 5; ex_h 6; ex_h 7; ex_h 8] [ex_h 11].

Example C10_ex_wf : wf_store ex_st.
Proof. vm_compute. reflexivity. Qed.

Example C10_ex_replies :
  fst (handle FNone ex_st (ROrigin 6 2)) = Ok [ex_h 6; ex_h 7]
  /\ handle FNone ex_st (ROrigin 7 64) = (Ok [ex_h 7; ex_h 8], [CHasAt 70; CHead; CGetRange 7 9 [8; 7] 2])
  /\ handle FNone ex_st (ROrigin 4 1) = (NotFound, [CHasAt 4; CHead])                      (* below the tail: no read *)
  /\ handle FNone ex_st (ROrigin 4 3) = (NotFound, [CHasAt 6; CGetRange 4 7 [6; 5; 4] 0]) (* straddles the tail *)
  /\ handle FNone ex_st (ROrigin 9 1) = (NotFound, [CHasAt 9; CHead])
  /\ handle FNone ex_st (ROrigin 5 65) = (Reset, [])
  /\ handle FNone ex_st (ROrigin 18446744073709551615 1) = (Reset, [])                     (* origin + amount wraps *)
  /\ handle FNone ex_st (ROrigin 6 18446744073709551615) = (Reset, [])
  /\ handle FNone ex_st (ROrigin 0 18446744073709551615) = (Ok [ex_h 8], [CHead])
  /\ handle FNone ex_st (RHash 111 7) = (Ok [ex_h 11], [CGet 111])
  /\ handle FNone ex_st (RHash 104 1) = (NotFound, [CGet 104])
  /\ handle FSlow ex_st (ROrigin 6 2) = (NotFound, [CHasAt 7; CGetRange 6 8 [] 0])
  /\ handle FErr ex_st (ROrigin 6 2) = (Reset, [CHasAt 7; CGetRange 6 8 [] 0]).
Proof. vm_compute. repeat split; reflexivity. Qed.

(** the head advances from 8 to 12 while (origin 8, amount 2) is served: right after HasAt
    (the window of the seeded defect: the answer is NOT_FOUND, never a grown range), or
    right after Head (the clamp stays at the head that was read) *)
Definition ex_st2 : store := Store [ex_h 5; ex_h 6; ex_h 7; ex_h 8; ex_h 9; ex_h 10; ex_h 11; ex_h 12] [].
Definition ex_env (hook : ckind) : env :=
  fun hist => if existsb (fun k => match k, hook with KHasAt, KHasAt | KHead, KHead => true | _, _ => false end) hist
              then ex_st2 else ex_st.
Example C10_ex_changing :
  (forall hook hist, wf_store (ex_env hook hist))
  /\ handle_d FNone (ex_env KHasAt) (ROrigin 8 2) = (NotFound, [CHasAt 9; CHead])
  /\ handle_d FNone (ex_env KHead) (ROrigin 8 2) = (Ok [ex_h 8], [CHasAt 9; CHead; CGetRange 8 9 [8] 1])
  /\ handle_d FNone (ex_env KHasAt) (ROrigin 6 3) = (Ok [ex_h 6; ex_h 7; ex_h 8], [CHasAt 8; CGetRange 6 9 [8; 7; 6] 3]).
Proof.
  split; [|vm_compute; repeat split; reflexivity].
  intros hook hist. unfold ex_env. destruct (existsb _ hist); vm_compute; reflexivity.
Qed.

Print Assumptions C10_total.
Print Assumptions C10_bounded_calls.
Print Assumptions C10_bounded_reads.
Print Assumptions C10_other_requests_read_nothing.
Print Assumptions C10_reply_shape.
Print Assumptions C10_range_reply.
Print Assumptions C10_head_request.
Print Assumptions C10_empty_request.
Print Assumptions C10_hash_request.
Print Assumptions C10_only_true_data.
Print Assumptions C10_store_failure_refused.
Print Assumptions C10_quiescent_is_instance.
Print Assumptions C10_changing_store_total.
Print Assumptions C10_changing_store_bounded_calls.
Print Assumptions C10_changing_store_bounded_reads.
Print Assumptions C10_changing_store_reply_shape.
Print Assumptions C10_changing_store_only_true_data.
