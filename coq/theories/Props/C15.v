(** C15 -- Bifurcation accepts a soft-failing head iff a verifiable path exists; terminates.

    Statements only; proofs are in Proofs/BifurcateP.v. Everywhere: [now], [drift] = any
    clock reading and drift allowance; [tv] = ANY type-level verifier (so: every trust
    predicate, i.e. however far non-adjacent verification succeeds, and every error shape);
    [get i h] = the answer of the getter to its [i]-th request, for height [h]
    ([None] = error; the answer may have ANY height: the getter is not trusted to answer with
    the asked height, the code compares the two and refuses when they differ -- fix F30);
    [subj] = the subjective head, [new] = the candidate; distances are unbounded.
    [syncer_verify] models Syncer.verify (direct Verify; soft failure => verifyBifurcating),
    [incoming] models incomingNetworkHead (verify, then setLocalHead(candidate)).
    [b_calls] = the GetByHeight requests, [b_promoted] = the headers given to setLocalHead. *)
From GH Require Import Base.Prelude Model.Verify Model.Bifurcate Proofs.VerifyP Proofs.BifurcateP.

(** THE PROPERTY IN ONE STATEMENT, for incomingNetworkHead and EVERY getter (no hypothesis on
    its answers): the search terminates within [bound D] getter requests; every header
    promoted to subjective head passed Verify against the previous one; on Accept the
    promoted getter answers followed by the candidate form a verified chain from the
    subjective head and the candidate is the new sync target; otherwise only getter answers
    were promoted and the last verified head does not verify the candidate. *)
Theorem C15_main :
  forall (now drift : Z) (tv : hdr -> hdr -> tvres) (get : nat -> N -> option hdr)
         (new : hdr) (fuel : nat) (subj : hdr),
  h_height new < two64 ->
  (fuel_bound (h_height new - h_height subj) <= fuel)%nat ->
  let r := incoming now drift tv get fuel subj new in
  (b_verdict r = Accept \/ exists f, b_verdict r = Refuse f) /\
  N.of_nat (length (b_calls r)) <= bound (h_height new - h_height subj) /\
  chain_verified now drift tv subj (b_promoted r) /\
  (b_verdict r = Accept ->
   exists cs, Forall (fun c => exists i h, get i h = Some c) cs /\ b_promoted r = cs ++ [new] /\
              chain_verified now drift tv subj (cs ++ [new])) /\
  (b_verdict r <> Accept ->
   Forall (fun c => exists i h, get i h = Some c) (b_promoted r) /\
   Verify now drift tv (head_after subj r) new <> None).
Proof. exact incoming_main. Qed.

(** TERMINATION, bounded requests -- UNCONDITIONAL in the getter: for every getter, whatever
    it answers (errors, headers of any height, zero headers), every trust predicate and every
    distance D = new - subj the search ends within [bound D = (D+1) * (bits D + 1)] loop
    iterations: fuel never runs out, and the number of getter requests is at most [bound D].
    (The only hypothesis is that the candidate's height is a uint64.) Before fix F30 this needed
    "the getter answers with the asked height": see C15_ex_wrong_height_getter_refused. *)
Theorem C15_terminates :
  forall (now drift : Z) (tv : hdr -> hdr -> tvres) (get : nat -> N -> option hdr)
         (new : hdr) (fuel : nat) (subj : hdr),
  h_height new < two64 ->
  (fuel_bound (h_height new - h_height subj) <= fuel)%nat ->
  let r := syncer_verify now drift tv get fuel subj new in
  b_verdict r <> OutOfFuel /\
  N.of_nat (length (b_calls r)) <= bound (h_height new - h_height subj).
Proof. exact sverify_terminates. Qed.

(** the same for verifyBifurcating alone, started at any request number with the initial diff *)
Theorem C15_bifurcate_terminates :
  forall (now drift : Z) (tv : hdr -> hdr -> tvres) (get : nat -> N -> option hdr) (new : hdr),
  h_height new < two64 ->
  forall (i : nat) (subj : hdr) (fuel : nat),
  h_height subj <= h_height new ->
  (fuel_bound (h_height new - h_height subj) <= fuel)%nat ->
  let r := bifurcate now drift tv get fuel i subj new (h_height new - h_height subj) in
  b_verdict r <> OutOfFuel /\
  N.of_nat (length (b_calls r)) <= bound (h_height new - h_height subj).
Proof. exact bif_terminates_bound. Qed.

(** THE IFF at the level of Syncer.verify, for every getter (honest or not): the candidate
    is accepted exactly when the intermediates obtained from the getter and promoted, followed
    by the candidate, form a chain of successful verifications starting at the subjective head
    (direct acceptance = the empty list of intermediates). *)
Theorem C15_accept_iff_verified_chain :
  forall (now drift : Z) (tv : hdr -> hdr -> tvres) (get : nat -> N -> option hdr)
         (new : hdr) (fuel : nat) (subj : hdr),
  let r := syncer_verify now drift tv get fuel subj new in
  b_verdict r <> OutOfFuel ->
  (b_verdict r = Accept <-> chain_verified now drift tv subj (b_promoted r ++ [new])).
Proof. exact sverify_accept_iff. Qed.

(** SOUNDNESS, existential form: Accept => there are getter-supplied c1 ... ck with
    Verify subj c1, Verify c1 c2, ..., Verify ck new all succeeding. *)
Theorem C15_sound :
  forall (now drift : Z) (tv : hdr -> hdr -> tvres) (get : nat -> N -> option hdr)
         (new : hdr) (fuel : nat) (subj : hdr),
  b_verdict (syncer_verify now drift tv get fuel subj new) = Accept ->
  exists cs, Forall (fun c => exists i h, get i h = Some c) cs /\
             chain_verified now drift tv subj (cs ++ [new]).
Proof. exact sverify_sound. Qed.

(** ONLY VERIFIED HEADERS ARE PROMOTED: whatever the verdict, the headers handed to
    setLocalHead form a chain of successful verifications from the old subjective head, and
    each is a getter answer -- or the candidate itself, last, and only when it was accepted. *)
Theorem C15_only_verified_promoted :
  forall (now drift : Z) (tv : hdr -> hdr -> tvres) (get : nat -> N -> option hdr)
         (new : hdr) (fuel : nat) (subj : hdr),
  let r := incoming now drift tv get fuel subj new in
  chain_verified now drift tv subj (b_promoted r) /\
  Forall (fun c => (exists i h, get i h = Some c) \/ (c = new /\ b_verdict r = Accept)) (b_promoted r).
Proof. exact incoming_only_verified. Qed.

(** REFUSED when nothing verifies the candidate: if neither the subjective head nor any
    header the getter hands out verifies [new], the candidate is not accepted. *)
Theorem C15_refuses_unverifiable :
  forall (now drift : Z) (tv : hdr -> hdr -> tvres) (get : nat -> N -> option hdr)
         (new : hdr) (fuel : nat) (subj : hdr),
  Verify now drift tv subj new <> None ->
  (forall c, (exists i h, get i h = Some c) -> Verify now drift tv c new <> None) ->
  b_verdict (syncer_verify now drift tv get fuel subj new) <> Accept.
Proof. exact sverify_refuses_unverifiable. Qed.

(** REFUSED when an intermediate cannot be fetched: if the k-th request of the run was
    answered with an error, the verdict is the getter refusal and that request was the last. *)
Theorem C15_getter_failure_refuses :
  forall (now drift : Z) (tv : hdr -> hdr -> tvres) (get : nat -> N -> option hdr)
         (new : hdr) (fuel : nat) (subj : hdr) (k : nat) (h sid : N),
  let r := syncer_verify now drift tv get fuel subj new in
  nth_error (b_calls r) k = Some (h, sid) -> get k h = None ->
  b_verdict r = Refuse FGetter /\ length (b_calls r) = S k.
Proof. exact sverify_getter_failure. Qed.

(** REFUSED when the getter answers with another height than asked (fix F30): if the k-th request
    of the run was answered with a non-zero header whose height is not the asked one, the verdict
    is the height refusal and that request was the last -- the answer is neither verified nor
    promoted, and the search does not go on. *)
Theorem C15_wrong_height_answer_refuses :
  forall (now drift : Z) (tv : hdr -> hdr -> tvres) (get : nat -> N -> option hdr)
         (new : hdr) (fuel : nat) (subj : hdr) (k : nat) (h sid : N) (x : hdr),
  let r := syncer_verify now drift tv get fuel subj new in
  nth_error (b_calls r) k = Some (h, sid) -> get k h = Some x -> h_nil x = false -> h_height x <> h ->
  b_verdict r = Refuse FHeight /\ length (b_calls r) = S k.
Proof. exact sverify_wrong_height. Qed.

(** SOFT FAILURES ONLY TRIGGER BIFURCATION: direct success accepts without any request;
    a direct failure that is not soft is returned as is, without any request or promotion. *)
Theorem C15_soft_only_bifurcates :
  forall (now drift : Z) (tv : hdr -> hdr -> tvres) (get : nat -> N -> option hdr)
         (new : hdr) (fuel : nat) (subj : hdr),
  let r := syncer_verify now drift tv get fuel subj new in
  match Verify now drift tv subj new with
  | None => r = BRun Accept [] []
  | Some e => ve_soft e = false -> r = BRun (Refuse (FDirect e)) [] []
  end.
Proof. exact sverify_direct. Qed.

(** COMPLETENESS under the honesty hypotheses (named in the trusted base of the check):
    the getter serves one chain [c] on the heights between the heads; adjacent headers of
    that chain verify; verification between two chain headers never fails hard. Then, for
    EVERY trust predicate [tv] and every distance, a candidate which the chain header just
    below it verifies -- in particular the chain's own header -- and which is not rejected
    hard against the subjective head, is accepted. *)
Theorem C15_complete :
  forall (now drift : Z) (tv : hdr -> hdr -> tvres) (get : nat -> N -> option hdr)
         (c : N -> hdr) (s : N) (new : hdr),
  h_height new < two64 -> s < h_height new ->
  (forall a, h_height (c a) = a) ->
  (forall i a, s <= a <= h_height new -> get i a = Some (c a)) ->
  (forall a, s <= a -> a + 1 < h_height new -> Verify now drift tv (c a) (c (a + 1)) = None) ->
  (forall a b e, s <= a -> a < b -> b < h_height new ->
                 Verify now drift tv (c a) (c b) = Some e -> ve_soft e = true) ->
  forall fuel : nat,
  (fuel_bound (h_height new - s) <= fuel)%nat ->
  (forall e, Verify now drift tv (c s) new = Some e -> ve_soft e = true) ->
  Verify now drift tv (c (h_height new - 1)) new = None ->
  b_verdict (syncer_verify now drift tv get fuel (c s) new) = Accept.
Proof. exact honest_complete. Qed.

(** FORGED CANDIDATE, same honesty hypotheses: a candidate that no chain header below it
    verifies is refused ... *)
Theorem C15_refuses_forged :
  forall (now drift : Z) (tv : hdr -> hdr -> tvres) (get : nat -> N -> option hdr)
         (c : N -> hdr) (s : N) (new : hdr),
  h_height new < two64 -> s < h_height new ->
  (forall a, h_height (c a) = a) ->
  (forall i a, s <= a <= h_height new -> get i a = Some (c a)) ->
  (forall a, s <= a -> a + 1 < h_height new -> Verify now drift tv (c a) (c (a + 1)) = None) ->
  (forall a b e, s <= a -> a < b -> b < h_height new ->
                 Verify now drift tv (c a) (c b) = Some e -> ve_soft e = true) ->
  forall fuel : nat,
  (fuel_bound (h_height new - s) <= fuel)%nat ->
  (forall a, s <= a < h_height new -> Verify now drift tv (c a) new <> None) ->
  exists f, b_verdict (syncer_verify now drift tv get fuel (c s) new) = Refuse f.
Proof. exact honest_refuses_forged. Qed.

(** ... and when the search runs (distance >= 2, soft direct failure) it walks up to the chain
    header just below the candidate, promotes it, fails the final (adjacent) verification
    and refuses with exactly that error; Syncer.Head() is then that verified predecessor. *)
Theorem C15_final_adjacent_failure_refuses :
  forall (now drift : Z) (tv : hdr -> hdr -> tvres) (get : nat -> N -> option hdr)
         (c : N -> hdr) (s : N) (new : hdr),
  h_height new < two64 -> s < h_height new ->
  (forall a, h_height (c a) = a) ->
  (forall i a, s <= a <= h_height new -> get i a = Some (c a)) ->
  (forall a, s <= a -> a + 1 < h_height new -> Verify now drift tv (c a) (c (a + 1)) = None) ->
  (forall a b e, s <= a -> a < b -> b < h_height new ->
                 Verify now drift tv (c a) (c b) = Some e -> ve_soft e = true) ->
  forall fuel : nat,
  (fuel_bound (h_height new - s) <= fuel)%nat -> 2 <= h_height new - s ->
  (exists e, Verify now drift tv (c s) new = Some e /\ ve_soft e = true) ->
  (forall a, s <= a < h_height new -> Verify now drift tv (c a) new <> None) ->
  let r := syncer_verify now drift tv get fuel (c s) new in
  exists e, Verify now drift tv (c (h_height new - 1)) new = Some e /\
            b_verdict r = Refuse (FNewHead e) /\
            head_after (c s) r = c (h_height new - 1).
Proof. exact honest_final_adjacent_failure. Qed.

(** THE HEAD-REQUEST PATH. A candidate also enters bifurcation from Syncer.Head()/Start():
    networkHead, when the head request came back with the candidate and a soft *VerifyError
    ([head_soft]). It is then treated exactly like a head delivered by the subscriber (the run
    IS [incoming], so every theorem above applies), the candidate is the answer and the new
    subjective head only if it was accepted, and on refusal the old subjective head is the answer. *)
Theorem C15_head_request_path :
  forall (now drift : Z) (tv : hdr -> hdr -> tvres) (get : nat -> N -> option hdr)
         (new : hdr) (fuel : nat) (subj : hdr),
  let '(r, ans) := head_soft now drift tv get fuel subj new in
  r = incoming now drift tv get fuel subj new /\
  (b_verdict r = Accept -> ans = new /\ head_after subj r = new) /\
  (b_verdict r <> Accept -> ans = subj).
Proof. exact head_soft_spec. Qed.

(** A REFUSED CANDIDATE NEVER BECOMES THE HEAD (every getter): it is
    not the answer of the head request, it is not among the headers given to setLocalHead
    (so it is neither stored nor a sync target), and Syncer.Head() afterwards is not it. *)
Theorem C15_refused_candidate_never_head :
  forall (now drift : Z) (tv : hdr -> hdr -> tvres) (get : nat -> N -> option hdr)
         (new : hdr) (fuel : nat) (subj : hdr),
  h_height new < two64 ->
  subj <> new ->
  let '(r, ans) := head_soft now drift tv get fuel subj new in
  b_verdict r <> Accept ->
  ans <> new /\ ~ In new (b_promoted r) /\ head_after subj r <> new.
Proof. exact head_soft_refused_never_head. Qed.

(** EACH DELIVERY IS JUDGED ON ITS OWN. In a sequence of candidates delivered to one Syncer --
    whatever was delivered before, accepted or refused, for whatever reason (a forged candidate,
    a getter failure), and however the getter behaved then -- the run of the next delivery is
    [incoming] with the CURRENT getter on the subjective head the earlier deliveries left; so all
    theorems above apply to it as they stand. In particular (C15_complete) a candidate that was
    refused only because an intermediate could not be fetched is accepted when it is delivered
    again and the getter now serves the chain. *)
Theorem C15_each_delivery_on_its_own :
  forall (now drift : Z) (tv : hdr -> hdr -> tvres) (subj : hdr) (l1 : list delivery)
         (get : nat -> N -> option hdr) (fuel : nat) (new : hdr) (l2 : list delivery),
  nth_error (deliveries now drift tv subj (l1 ++ (get, fuel, new) :: l2)) (length l1) =
  Some (incoming now drift tv get fuel (head_after_all now drift tv subj l1) new).
Proof. exact delivery_on_its_own. Qed.

(** ** non-vacuity *)

(** [ex_c] = an honest hash-linked chain, [ex_tv tr] = a type that trusts non-adjacent headers up
    to [tr] apart, [ex_get] = the getter serving [ex_c] (defined in Proofs/BifurcateP.v) *)

(** distance 20, trust range 3: accepted after 17 requests; 8 intermediates, then the candidate *)
Example C15_ex_valid :
  let r := incoming 1000 0 (ex_tv 3) ex_get (fuel_bound 20) (ex_c 10) (ex_c 30) in
  b_verdict r = Accept /\
  map fst (b_calls r) = [20; 15; 12; 21; 16; 14; 22; 18; 16; 23; 19; 24; 21; 25; 23; 26; 28] /\
  map h_height (b_promoted r) = [12; 14; 16; 19; 21; 23; 26; 28; 30] /\
  N.of_nat (length (b_calls r)) <= bound 20.
Proof. vm_compute. repeat split; discriminate. Qed.

(** the same distance with a candidate carrying a wrong hash link that the type does not
    trust at a distance either: the search climbs to height 29 and refuses *)
Example C15_ex_forged :
  let forged := Hdr false 1 30 30 999 998 true in
  let tvf t u := if h_id u =? 999 then (if h_height u =? h_height t + 1 then TVPlain 1 else TVPlain 3)
                 else ex_tv 3 t u in
  let r := incoming 1000 0 tvf ex_get (fuel_bound 20) (ex_c 10) forged in
  b_verdict r = Refuse (FNewHead (VErr (RType 1) false)) /\
  map h_height (b_promoted r) = [12; 14; 16; 19; 21; 23; 26; 28; 29] /\
  h_height (head_after (ex_c 10) r) = 29 /\ N.of_nat (length (b_calls r)) <= bound 20.
Proof. vm_compute. repeat split; discriminate. Qed.

(** the getter failing at the 4th request *)
Example C15_ex_getter_failure :
  let g (i : nat) h := if (i <? 3)%nat then ex_get i h else None in
  let r := incoming 1000 0 (ex_tv 3) g (fuel_bound 20) (ex_c 10) (ex_c 30) in
  b_verdict r = Refuse FGetter /\ map fst (b_calls r) = [20; 15; 12; 21] /\
  map h_height (b_promoted r) = [12].
Proof. vm_compute. repeat split. Qed.

(** the witness of finding F30: a getter that answers every request with a far-away header (each
    time rejected softly) kept the loop of the unfixed code spinning at diff = 0 -- every amount of
    fuel was exhausted. With the height check the first answer (height 500 for the asked 20) ends
    the search: one request, nothing promoted, refused -- for every positive amount of fuel *)
Example C15_ex_wrong_height_getter_refused :
  forall fuel, syncer_verify 1000 0 (ex_tv 3) (fun _ _ => Some (ex_c 500)) (S fuel) (ex_c 10) (ex_c 30)
               = BRun (Refuse FHeight) [(20, 10)] [].
Proof. exact refused_example. Qed.

(** why the iff is stated over the intermediates the search obtains and not as "some verified
    path through getter answers exists": the halving search is not exhaustive. With a trust
    relation that is not monotone in the distance (10->12, 12->16 and 11->13 trusted, nothing
    else at a distance) and a candidate whose hash link is wrong, the path 10 -> 12 -> 16
    exists, but the search promotes 11, 13, 14, 15 and refuses. (For a candidate that its
    predecessor verifies this cannot happen: C15_complete.) *)
Example C15_ex_search_not_exhaustive :
  let forged := Hdr false 1 16 16 999 998 true in
  let tvx (t u : hdr) :=
    if h_height u =? h_height t + 1 then (if h_prev u =? h_id t then TVOk else TVPlain 1) else
    match h_height t, h_height u with
    | 10, 12 | 12, 16 | 11, 13 => TVOk
    | _, _ => TVPlain 2
    end in
  let r := syncer_verify 1000 0 tvx ex_get (fuel_bound 6) (ex_c 10) forged in
  chain_verified 1000 0 tvx (ex_c 10) ([ex_c 12] ++ [forged]) /\
  b_verdict r = Refuse (FNewHead (VErr (RType 1) false)) /\
  map h_height (b_promoted r) = [11; 13; 14; 15].
Proof. vm_compute. repeat split. Qed.

(** a candidate refused because the getter failed at its 4th request is accepted when it is
    delivered again and the getter answers (from the head the first attempt left: 12) *)
Example C15_ex_retry_after_getter_failure :
  let g (i : nat) h := if (i <? 3)%nat then ex_get i h else None in
  let rs := deliveries 1000 0 (ex_tv 3) (ex_c 10)
              [(g, fuel_bound 20, ex_c 30); (ex_get, fuel_bound 20, ex_c 30)] in
  map b_verdict rs = [Refuse FGetter; Accept] /\
  map (fun r => map h_height (b_promoted r)) rs = [[12]; [14; 16; 19; 21; 23; 26; 28; 30]].
Proof. vm_compute. split; reflexivity. Qed.

Print Assumptions C15_main.
Print Assumptions C15_terminates.
Print Assumptions C15_bifurcate_terminates.
Print Assumptions C15_accept_iff_verified_chain.
Print Assumptions C15_sound.
Print Assumptions C15_only_verified_promoted.
Print Assumptions C15_refuses_unverifiable.
Print Assumptions C15_getter_failure_refuses.
Print Assumptions C15_wrong_height_answer_refuses.
Print Assumptions C15_soft_only_bifurcates.
Print Assumptions C15_complete.
Print Assumptions C15_refuses_forged.
Print Assumptions C15_final_adjacent_failure_refuses.
Print Assumptions C15_head_request_path.
Print Assumptions C15_refused_candidate_never_head.
Print Assumptions C15_each_delivery_on_its_own.
