(** C18 — With honest peers the Exchange returns the full range however it is split.

    Same model as C05 (Model/Session.v). The peers are honest: at the moment it answers, a
    peer's server holds the heights 1..a of the chain [c] (any a <= top, it may differ from
    answer to answer: stores grow) and answers a request with [honest_answer c a]
    (NOT_FOUND above its head, else the requested headers up to its head); what reaches the
    client is any prefix of that answer (the whole; or cut by a timeout or a disconnect,
    possibly to nothing: [honest_run]). Quantified over every chunk size [per >= 1], peer
    set, availability of every peer at every answer, every order of dispatches and
    answers, every cut. *)
From GH Require Import Base.Prelude Model.Verify Model.Session Proofs.SessionP.

(** any run that returns headers returns exactly the chain's headers from+1 .. to-1, ascending *)
Theorem C18_exact_range :
  forall drift tv maxcap per (from : hdr) (to : N) peers (c : N -> hdr) (top : N)
         (evs : list event) (res : list hdr),
  h_nil from = false -> h_height from + 1 < two64 -> to < two64 -> 1 <= per ->
  (forall n, n <= top -> h_height (c n) = n) ->
  honest_run drift tv maxcap from c top (get_range maxcap per from to peers) evs ->
  GetRangeByHeight drift tv maxcap per from to peers evs = Some (ROk res) ->
  res = map c (seqN (h_height from + 1) (N.to_nat (to - (h_height from + 1)))).
Proof. exact exact_range. Qed.

(** the measure [mu] = sum of the amounts of all queued and in-flight sub-requests is the
    number of headers still missing; while the call has not returned it is at least 1 *)
Theorem C18_measure_counts_missing_headers :
  forall drift tv maxcap per (from : hdr) (to : N) peers,
  h_nil from = false -> h_height from + 1 < two64 -> to < two64 -> 1 <= per ->
  forall evs,
  let s := run drift tv maxcap from (get_range maxcap per from to peers) evs in
  s_res s = None ->
  N.of_nat (length (s_coll s)) + mu s = to - (h_height from + 1) /\ 1 <= mu s.
Proof. exact measure_counts_missing. Qed.

(** progress: in any reachable state, a non-empty honest answer (whole or cut short) from a
    peer that has the request's origin is accepted: the measure drops by the number of
    headers it carried, they are all collected, the peer is idle again.
    [chain_verifies now]: at that clock reading the chain's headers pass Verify against
    [from] and against their predecessors (they would not be servable otherwise). *)
Theorem C18_progress :
  forall drift tv maxcap per (from : hdr) (to : N) peers (c : N -> hdr) (top : N),
  h_nil from = false -> h_height from + 1 < two64 -> to < two64 -> 1 <= per -> top < two64 ->
  (forall n, n <= top -> h_height (c n) = n) -> (forall n, n <= top -> h_ok (c n) = true) ->
  forall evs p now fs r fl a rest,
  let s := run drift tv maxcap from (get_range maxcap per from to peers) evs in
  s_res s = None -> take_flight p (s_flight s) = Some (r, fl) ->
  chain_verifies drift tv from c top now ->
  a <= top -> honest_answer c a r = fs ++ rest -> fs <> [] -> r_origin r <= a ->
  let s' := step drift tv maxcap from s (ERespond p now fs) in
  mu s' + N.of_nat (length fs) = mu s /\
  length (s_coll s') = (length (s_coll s) + length fs)%nat /\
  In p (s_idle s').
Proof. exact progress_from_start. Qed.

(** a rejected answer (of any content) never increases the measure: the same request is queued again *)
Theorem C18_rejected_answer_keeps_measure :
  forall drift tv maxcap (from : hdr) s p now fs r fl e,
  s_res s = None -> take_flight p (s_flight s) = Some (r, fl) ->
  do_request now drift tv from r fs = DErr e ->
  mu (step drift tv maxcap from s (ERespond p now fs)) = mu s.
Proof. exact error_keeps_measure. Qed.

(** no deadlock: with one peer whose answers are never empty (no timeout, no disconnect;
    it may well lack headers and say NOT_FOUND) every state in which the call has not
    returned has an answer pending, or a queued request together with that peer idle
    (so a Dispatch is enabled). *)
Theorem C18_no_deadlock :
  forall drift tv maxcap per (from : hdr) (to : N) peers (c : N -> hdr) (top : N),
  h_nil from = false -> h_height from + 1 < two64 -> to < two64 -> 1 <= per -> top < two64 ->
  (forall n, n <= top -> h_height (c n) = n) -> (forall n, n <= top -> h_ok (c n) = true) ->
  forall evs p,
  In p peers ->
  honest_run drift tv maxcap from c top (get_range maxcap per from to peers) evs ->
  reliable drift tv from c top p evs ->
  let s := run drift tv maxcap from (get_range maxcap per from to peers) evs in
  s_res s = None ->
  s_flight s <> [] \/ (s_queue s <> [] /\ In p (s_idle s)).
Proof. exact no_deadlock. Qed.

(** honest answers never trip the chunk-boundary check: when the chain's headers verify at
    the clock readings of the answers, no run ends with the "not a chain" error *)
Theorem C18_honest_chunks_always_chain :
  forall drift tv maxcap per (from : hdr) (to : N) peers (c : N -> hdr) (top : N) (evs : list event),
  h_nil from = false -> h_height from + 1 < two64 -> to < two64 -> 1 <= per ->
  (forall n, n <= top -> h_height (c n) = n) ->
  honest_run drift tv maxcap from c top (get_range maxcap per from to peers) evs ->
  (forall p now fs, In (ERespond p now fs) evs -> chain_verifies drift tv from c top now) ->
  GetRangeByHeight drift tv maxcap per from to peers evs <> Some (RErr ENotChain).
Proof. exact honest_no_chain_error. Qed.

(** Head / Get / GetByHeight: the client-side processing of a server's one-header answer is
    the identity on the header (the codec round trip itself is observed by the driver) *)
Theorem C18_roundtrip :
  forall (want : option N) (h : hdr) (rest : list frame),
  h_ok h = true -> (match want with Some w => w = h_chain h | None => True end) ->
  request_one want (FHdr h :: rest) = Some h.
Proof. exact request_one_identity. Qed.

(** Get / GetByHeight with several trusted servers that together hold the header: whatever the
    order in which their answers arrive (the header, NOT_FOUND from a server that lacks it,
    nothing from one that timed out), the call returns the header as soon as one holds it *)
Theorem C18_roundtrip_any_arrival_order :
  forall (want : option N) (h : hdr) (answers : list (list frame)),
  h_ok h = true -> (match want with Some w => w = h_chain h | None => True end) ->
  Forall (honest_one h) answers -> In [FHdr h] answers ->
  perform_request want answers = Some h.
Proof. exact perform_request_honest. Qed.

(** non-vacuity: three peers — one holds nothing of the range (NOT_FOUND), one holds a
    prefix (short answer, remainder re-requested), one times out once with nothing — and the
    call still returns exactly 11..17 for chunk size 3 *)
Example C18_partial_peers :
  let c := ex_hdr in
  let avail := fun p => match p with 0 => 5 | 1 => 12 | _ => 40 end in
  let evs :=
    [EDispatch 0 (Req 11 3); ERespond 0 1%Z (honest_answer c (avail 0) (Req 11 3));      (* NOT_FOUND *)
     EDispatch 1 (Req 11 3); ERespond 1 1%Z (honest_answer c (avail 1) (Req 11 3));      (* 11, 12 *)
     EDispatch 2 (Req 14 3); ERespond 2 1%Z [];                                           (* timeout *)
     EDispatch 0 (Req 17 1); ERespond 0 2%Z (honest_answer c (avail 0) (Req 17 1));      (* NOT_FOUND *)
     EDispatch 1 (Req 13 1); ERespond 1 2%Z (honest_answer c (avail 1) (Req 13 1))] in   (* NOT_FOUND *)
  let s := run 0%Z ex_tv 100 (ex_hdr 10) (get_range 100 3 (ex_hdr 10) 18 [0; 1; 2]) evs in
  honest_run 0%Z ex_tv 100 (ex_hdr 10) c 40 (get_range 100 3 (ex_hdr 10) 18 [0; 1; 2]) evs /\
  s_res s = None /\ s_coll s = [ex_hdr 11; ex_hdr 12] /\ mu s = 5 /\ s_idle s = [0; 1].
Proof.
  split; [|vm_compute; repeat split; reflexivity].
  apply honest_evs_b_sound with (avs := [5; 12; 40; 5; 12]). vm_compute. reflexivity.
Qed.

Example C18_full_run :
  let c := ex_hdr in
  let avail := fun p => match p with 0 => 12 | _ => 40 end in
  GetRangeByHeight 0%Z ex_tv 100 3 (ex_hdr 10) 18 [0; 1]
    [EDispatch 0 (Req 11 3); ERespond 0 1%Z (honest_answer c (avail 0) (Req 11 3));
     EDispatch 1 (Req 14 3); ERespond 1 1%Z (honest_answer c (avail 1) (Req 14 3));
     EDispatch 0 (Req 17 1); ERespond 0 2%Z (honest_answer c (avail 0) (Req 17 1));
     EDispatch 1 (Req 13 1); ERespond 1 2%Z (honest_answer c (avail 1) (Req 13 1));
     EDispatch 1 (Req 17 1); ERespond 1 3%Z (honest_answer c (avail 1) (Req 17 1))]
  = Some (ROk (map ex_hdr [11; 12; 13; 14; 15; 16; 17])).
Proof. vm_compute. reflexivity. Qed.

Print Assumptions C18_exact_range.
Print Assumptions C18_measure_counts_missing_headers.
Print Assumptions C18_progress.
Print Assumptions C18_rejected_answer_keeps_measure.
Print Assumptions C18_no_deadlock.
Print Assumptions C18_honest_chunks_always_chain.
Print Assumptions C18_roundtrip.
Print Assumptions C18_roundtrip_any_arrival_order.
