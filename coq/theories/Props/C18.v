(** C18 — With honest peers the Exchange returns the full range however it is split.

    Same model as C05 (Model/Session.v). The peers are honest: at the moment it answers, a
    peer's server holds the heights 1..a of the chain [c] (any a <= top, it may differ from
    answer to answer: stores grow) and answers a request with [honest_answer c a]
    (NOT_FOUND above its head, else the requested headers up to its head); what reaches the
    client is any prefix of that answer (the whole; or cut by a timeout or a disconnect,
    possibly to nothing: [honest_run]). Quantified over every chunk size [per >= 1], peer
    set, availability of every peer at every answer, every order of dispatches and
    answers, every cut. *)
From GH Require Import Base.Prelude Model.Verify Model.Session Proofs.SessionP.

(** any run that returns headers returns exactly the chain's headers from+1 .. to-1, ascending *)
Theorem C18_exact_range :
  forall drift tv maxcap per (from : hdr) (to : N) peers (c : N -> hdr) (top : N)
         (evs : list event) (res : list hdr),
  h_nil from = false -> h_height from + 1 < two64 -> to < two64 -> 1 <= per ->
  (forall n, n <= top -> h_height (c n) = n) ->
  honest_run drift tv maxcap from c top (get_range maxcap per from to peers) evs ->
  GetRangeByHeight drift tv maxcap per from to peers evs = Some (ROk res) ->
  res = map c (seqN (h_height from + 1) (N.to_nat (to - (h_height from + 1)))).
Proof. exact exact_range. Qed.

(** the measure [mu] = sum of the amounts of all queued and in-flight sub-requests is the
    number of headers still missing; while the call has not returned it is at least 1 *)
Theorem C18_measure_counts_missing_headers :
  forall drift tv maxcap per (from : hdr) (to : N) peers,
  h_nil from = false -> h_height from + 1 < two64 -> to < two64 -> 1 <= per ->
  forall evs,
  let s := run drift tv maxcap from (get_range maxcap per from to peers) evs in
  s_res s = None ->
  N.of_nat (length (s_coll s)) + mu s = to - (h_height from + 1) /\ 1 <= mu s.
Proof. exact measure_counts_missing. Qed.

(** progress: in any reachable state, a non-empty honest answer (whole or cut short) from a
    peer that has the request's origin is accepted: the measure drops by the number of
    headers it carried, they are all collected, the peer is idle again.
    [chain_verifies now]: at that clock reading the chain's headers pass Verify against
    [from] and against their predecessors (they would not be servable otherwise). *)
Theorem C18_progress :
  forall drift tv maxcap per (from : hdr) (to : N) peers (c : N -> hdr) (top : N),
  h_nil from = false -> h_height from + 1 < two64 -> to < two64 -> 1 <= per -> top < two64 ->
  (forall n, n <= top -> h_height (c n) = n) -> (forall n, n <= top -> h_ok (c n) = true) ->
  forall evs p now fs r fl a rest,
  let s := run drift tv maxcap from (get_range maxcap per from to peers) evs in
  s_res s = None -> take_flight p (s_flight s) = Some (r, fl) ->
  chain_verifies drift tv from c top now ->
  a <= top -> honest_answer c a r = fs ++ rest -> fs <> [] -> r_origin r <= a ->
  let s' := step drift tv maxcap from s (ERespond p now fs) in
  mu s' + N.of_nat (length fs) = mu s /\
  length (s_coll s') = (length (s_coll s) + length fs)%nat /\
  In p (s_idle s').
Proof. exact progress_from_start. Qed.

(** a rejected answer (of any content) never increases the measure: the same request is queued again *)
Theorem C18_rejected_answer_keeps_measure :
  forall drift tv maxcap (from : hdr) s p now fs r fl e,
  s_res s = None -> take_flight p (s_flight s) = Some (r, fl) ->
  do_request now drift tv from r fs = DErr e ->
  mu (step drift tv maxcap from s (ERespond p now fs)) = mu s.
Proof. exact error_keeps_measure. Qed.

(** no deadlock: with one peer whose answers are never empty (no timeout, no disconnect;
    it may well lack headers and say NOT_FOUND) every state in which the call has not
    returned has an answer pending, or a queued request together with that peer idle
    (so a Dispatch is enabled). *)
Theorem C18_no_deadlock :
  forall drift tv maxcap per (from : hdr) (to : N) peers (c : N -> hdr) (top : N),
  h_nil from = false -> h_height from + 1 < two64 -> to < two64 -> 1 <= per -> top < two64 ->
  (forall n, n <= top -> h_height (c n) = n) -> (forall n, n <= top -> h_ok (c n) = true) ->
  forall evs p,
  In p peers ->
  honest_run drift tv maxcap from c top (get_range maxcap per from to peers) evs ->
  reliable drift tv from c top p evs ->
  let s := run drift tv maxcap from (get_range maxcap per from to peers) evs in
  s_res s = None ->
  s_flight s <> [] \/ (s_queue s <> [] /\ In p (s_idle s)).
Proof. exact no_deadlock. Qed.

(** honest answers never trip the chunk-boundary check: when the chain's headers verify at
    the clock readings of the answers, no run ends with the "not a chain" error *)
Theorem C18_honest_chunks_always_chain :
  forall drift tv maxcap per (from : hdr) (to : N) peers (c : N -> hdr) (top : N) (evs : list event),
  h_nil from = false -> h_height from + 1 < two64 -> to < two64 -> 1 <= per ->
  (forall n, n <= top -> h_height (c n) = n) ->
  honest_run drift tv maxcap from c top (get_range maxcap per from to peers) evs ->
  (forall p now fs, In (ERespond p now fs) evs -> chain_verifies drift tv from c top now) ->
  GetRangeByHeight drift tv maxcap per from to peers evs <> Some (RErr ENotChain).
Proof. exact honest_no_chain_error. Qed.

(** Head / Get / GetByHeight: the client-side processing of a server's one-header answer is
    the identity on the header (the codec round trip itself is observed by the driver) *)
Theorem C18_roundtrip :
  forall (want : option N) (h : hdr) (rest : list frame),
  h_ok h = true -> (match want with Some w => w = h_chain h | None => True end) ->
  request_one want (FHdr h :: rest) = Some h.
Proof. exact request_one_identity. Qed.

(** Get / GetByHeight with several trusted servers that together hold the header: whatever the
    order in which their answers arrive (the header, NOT_FOUND from a server that lacks it,
    nothing from one that timed out), the call returns the header as soon as one holds it *)
Theorem C18_roundtrip_any_arrival_order :
  forall (want : option N) (h : hdr) (answers : list (list frame)),
  h_ok h = true -> (match want with Some w => w = h_chain h | None => True end) ->
  Forall (honest_one h) answers -> In [FHdr h] answers ->
  perform_request want answers = Some h.
Proof. exact perform_request_honest. Qed.

(** non-vacuity: three peers — one holds nothing of the range (NOT_FOUND), one holds a
    prefix (short answer, remainder re-requested), one times out once with nothing — and the
    call still returns exactly 11..17 for chunk size 3 *)
Example C18_partial_peers :
  let c := ex_hdr in
  let avail := fun p => match p with 0 => 5 | 1 => 12 | _ => 40 end in
  let evs :=
    [EDispatch 0 (Req 11 3); ERespond 0 1%Z (honest_answer c (avail 0) (Req 11 3));      (* NOT_FOUND *)
     EDispatch 1 (Req 11 3); ERespond 1 1%Z (honest_answer c (avail 1) (Req 11 3));      (* 11, 12 *)
     EDispatch 2 (Req 14 3); ERespond 2 1%Z [];                                           (* timeout *)
     EDispatch 0 (Req 17 1); ERespond 0 2%Z (honest_answer c (avail 0) (Req 17 1));      (* NOT_FOUND *)
     EDispatch 1 (Req 13 1); ERespond 1 2%Z (honest_answer c (avail 1) (Req 13 1))] in   (* NOT_FOUND *)
  let s := run 0%Z ex_tv 100 (ex_hdr 10) (get_range 100 3 (ex_hdr 10) 18 [0; 1; 2]) evs in
  honest_run 0%Z ex_tv 100 (ex_hdr 10) c 40 (get_range 100 3 (ex_hdr 10) 18 [0; 1; 2]) evs /\
  s_res s = None /\ s_coll s = [ex_hdr 11; ex_hdr 12] /\ mu s = 5 /\ s_idle s = [0; 1].
Proof.
  split; [|vm_compute; repeat split; reflexivity].
  apply honest_evs_b_sound with (avs := [5; 12; 40; 5; 12]). vm_compute. reflexivity.
Qed.

Example C18_full_run :
  let c := ex_hdr in
  let avail := fun p => match p with 0 => 12 | _ => 40 end in
  GetRangeByHeight 0%Z ex_tv 100 3 (ex_hdr 10) 18 [0; 1]
    [EDispatch 0 (Req 11 3); ERespond 0 1%Z (honest_answer c (avail 0) (Req 11 3));
     EDispatch 1 (Req 14 3); ERespond 1 1%Z (honest_answer c (avail 1) (Req 14 3));
     EDispatch 0 (Req 17 1); ERespond 0 2%Z (honest_answer c (avail 0) (Req 17 1));
     EDispatch 1 (Req 13 1); ERespond 1 2%Z (honest_answer c (avail 1) (Req 13 1));
     EDispatch 1 (Req 17 1); ERespond 1 3%Z (honest_answer c (avail 1) (Req 17 1))]
  = Some (ROk (map ex_hdr [11; 12; 13; 14; 15; 16; 17])).
Proof. vm_compute. reflexivity. Qed.

Print Assumptions C18_exact_range.
Print Assumptions C18_measure_counts_missing_headers.
Print Assumptions C18_progress.
Print Assumptions C18_rejected_answer_keeps_measure.
Print Assumptions C18_no_deadlock.
Print Assumptions C18_honest_chunks_always_chain.
Print Assumptions C18_roundtrip.
Print Assumptions C18_roundtrip_any_arrival_order.

(** * The session's peer queue (p2p/peer_stats.go: peerStats as container/heap, peerQueue.push /
    waitPop with the havePeer token channel; p2p/session.go: a peer is popped per request and
    pushed back on success / NOT_FOUND, never on other errors).

    Model/PeerQueue.v: the array heap exactly as container/heap drives it (up / down / Push /
    Pop over a list of (peer id, score)); scores are an ordered type (Z) - the float32
    arithmetic of updateStats / decreaseScore is not modelled, the new score is an input
    wherever the code recomputes it; the queue = heap + token count + capacity; k goroutines
    with waitPop = two atomic steps (token; lock+Pop) and push = two (lock+Push; token),
    schedules = lists of [Thr t choice | Env p s] ([Env]: another session changes the score
    of a peer INSIDE the heap through the shared *peerStat - peerTracker.peers() hands the
    tracker's own pointers to every session, and doRequest calls updateStats / decreaseScore
    on them while other sessions still have the peer in their heaps). *)
From Coq Require Import Permutation.
From GH Require Import Model.PeerQueue Proofs.PeerQueueP.

(** heap.Push keeps the heap invariant (every element <= its parent), for any score of the
    pushed peer - in particular whatever happened to its score while it was out *)
Theorem C18_pq_push_keeps_heap :
  forall (l : list entry) (x : entry), heap_ok l -> heap_ok (heap_push l x).
Proof. exact heap_push_ok. Qed.

(** heap.Pop keeps the heap invariant and returns a peer of maximal score *)
Theorem C18_pq_pop_keeps_heap_returns_best :
  forall (l : list entry) (e : entry) (h : list entry),
  heap_ok l -> heap_pop l = Some (e, h) ->
  heap_ok h /\ forall x, In x l -> (sc x <= sc e)%Z.
Proof. exact pq_pop_keeps. Qed.

(** the multiset of queued peers: Push adds exactly the pushed one, Pop removes exactly the
    returned one - for ANY array, heap-ordered or not *)
Theorem C18_pq_multiset :
  forall (l : list entry),
  (forall x, Permutation (heap_push l x) (x :: l)) /\
  (forall e h, heap_pop l = Some (e, h) -> Permutation l (e :: h)).
Proof. exact pq_multiset. Qed.

(** heap.Pop panics exactly on the empty heap *)
Theorem C18_pq_pop_panics_iff_empty :
  forall (l : list entry), heap_pop l = None <-> l = [].
Proof. exact heap_pop_none. Qed.

(** every sequence of Push / Pop from the heap newPeerQueue builds stays a heap *)
Theorem C18_pq_heap_all_sequences :
  forall (init : list entry) (ops : list hop), heap_ok (hrun (heap_of init) ops).
Proof. exact pq_all_sequences. Qed.

(** the loops of up / down are never cut by the model's fuel: any sufficient fuel gives the same array *)
Theorem C18_pq_fuel_irrelevant :
  (forall f1 f2 l j, (j < f1)%nat -> (j < f2)%nat -> up_f f1 l j = up_f f2 l j) /\
  (forall f1 f2 l i n, (n - i <= f1)%nat -> (n - i <= f2)%nat -> down_f f1 l i n = down_f f2 l i n).
Proof. exact pq_fuel. Qed.

(** token/heap pairing, for EVERY interleaving of the two-step operations of any number of
    goroutines, score changes inside the heap included: tokens + threads between token and
    Pop + threads between heap.Push and token send = heap size; heap, running requests and
    dropped peers are exactly the session's initial peers; nothing panics *)
Theorem C18_pq_token_heap_pairing :
  forall (init : list entry) (k : nat) (sch : list sev),
  let s := crun (c_init init k) sch in
  (c_tok s + cnt is_hastoken (c_pcs s) + cnt is_pushed (c_pcs s) = length (c_heap s))%nat /\
  Permutation (all_peers s) (map e_id init) /\
  c_cap s = length (map e_id init) /\
  c_panic s = false.
Proof. exact reach_inv. Qed.

(** no peer is lost or duplicated by the queue *)
Theorem C18_pq_no_peer_lost_or_duplicated :
  forall (init : list entry) (k : nat) (sch : list sev),
  NoDup (map e_id init) -> NoDup (all_peers (crun (c_init init k) sch)).
Proof. exact no_dup_peers. Qed.

(** a Pop never runs on an empty heap: a thread that took a token finds a peer *)
Theorem C18_pq_pop_never_on_empty_heap :
  forall (init : list entry) (k : nat) (sch : list sev) (t : nat),
  let s := crun (c_init init k) sch in
  nth_error (c_pcs s) t = Some HasToken -> exists e h, heap_pop (c_heap s) = Some (e, h).
Proof. exact pq_pop_never. Qed.

(** a push never blocks (only popped peers are pushed back): when a thread is about to send
    its token the channel has room *)
Theorem C18_pq_push_never_blocks :
  forall (init : list entry) (k : nat) (sch : list sev) (t : nat),
  let s := crun (c_init init k) sch in
  nth_error (c_pcs s) t = Some Pushed -> (c_tok s < c_cap s)%nat.
Proof. exact pq_push_never. Qed.

(** no lost wake-up: with a token in the channel an idle thread's waitPop completes in its own
    next two steps; and when no thread is inside push or waitPop the tokens are exactly the
    queued peers (a waiter is blocked iff the heap is empty) *)
Theorem C18_pq_no_lost_wakeup :
  forall (init : list entry) (k : nat) (sch : list sev),
  let s := crun (c_init init k) sch in
  (forall t c1 c2, nth_error (c_pcs s) t = Some Idle -> (0 < c_tok s)%nat ->
     exists p, nth_error (c_pcs (crun s [Thr t c1; Thr t c2])) t = Some (Holding p)) /\
  (cnt is_hastoken (c_pcs s) = 0%nat -> cnt is_pushed (c_pcs s) = 0%nat -> c_tok s = length (c_heap s)).
Proof. exact pq_no_lost. Qed.

(** as long as no score changes INSIDE the heap (scores of peers that are out may change at
    will: [Thr t (Some v)] pushes with any v), every reachable heap satisfies the heap
    invariant and every Pop hands out a peer of maximal score *)
Theorem C18_pq_pops_best_peer :
  forall (init : list entry) (k : nat) (sch : list sev) (t : nat),
  no_env sch ->
  let s := crun (c_init init k) sch in
  heap_ok (c_heap s) /\
  (nth_error (c_pcs s) t = Some HasToken ->
   exists e h, heap_pop (c_heap s) = Some (e, h) /\ forall x, In x (c_heap s) -> (sc x <= sc e)%Z).
Proof. exact pops_best. Qed.

(** ... and that hypothesis is needed: a score raised inside the heap (another session's
    updateStats on the shared pointer) breaks the heap invariant, and the next waitPop hands
    out peer 0 (score 5) although peer 2 (score 10) is queued.  The theorems above that
    quantify over all schedules (pairing, no panic, no blocked push, no lost wake-up, no
    peer lost) include such steps: only "the best peer" is lost. *)
Theorem C18_pq_inheap_score_change_refuted :
  let init := [(0, 5%Z); (1, 4%Z); (2, 3%Z)] in
  let s := crun (c_init init 1) [Env 2 10%Z] in
  c_heap s = [(0, 5%Z); (1, 4%Z); (2, 10%Z)] /\
  ~ heap_ok (c_heap s) /\
  c_pcs (crun s [Thr 0 None; Thr 0 None]) = [Holding 0] /\
  c_heap (crun s [Thr 0 None; Thr 0 None]) = [(2, 10%Z); (1, 4%Z)].
Proof. exact inheap_witness. Qed.

(** non-vacuity: container/heap's tie order on equal scores, and a two-thread run in which
    both peers are popped, one is dropped, one comes back *)
Example C18_pq_ties :
  heap_of [(0, 1%Z); (1, 1%Z); (2, 1%Z); (3, 7%Z); (4, 7%Z)] = [(3, 7%Z); (4, 7%Z); (2, 1%Z); (1, 1%Z); (0, 1%Z)] /\
  option_map fst (heap_pop (heap_of [(0, 1%Z); (1, 1%Z); (2, 1%Z); (3, 7%Z); (4, 7%Z)])) = Some (3, 7%Z).
Proof. vm_compute. split; reflexivity. Qed.

Example C18_pq_two_threads :
  let s := crun (c_init [(0, 1%Z); (1, 2%Z)] 2)
    [Thr 0 None; Thr 1 None; Thr 1 None; Thr 0 None; Thr 1 None; Thr 0 (Some 9%Z); Thr 0 None] in
  c_heap s = [(0, 9%Z)] /\ c_tok s = 1%nat /\ c_pcs s = [Idle; Idle] /\ c_dropped s = [1] /\ c_panic s = false.
Proof. vm_compute. repeat split; reflexivity. Qed.

Print Assumptions C18_pq_push_keeps_heap.
Print Assumptions C18_pq_pop_keeps_heap_returns_best.
Print Assumptions C18_pq_multiset.
Print Assumptions C18_pq_pop_panics_iff_empty.
Print Assumptions C18_pq_heap_all_sequences.
Print Assumptions C18_pq_fuel_irrelevant.
Print Assumptions C18_pq_token_heap_pairing.
Print Assumptions C18_pq_no_peer_lost_or_duplicated.
Print Assumptions C18_pq_pop_never_on_empty_heap.
Print Assumptions C18_pq_push_never_blocks.
Print Assumptions C18_pq_no_lost_wakeup.
Print Assumptions C18_pq_pops_best_peer.
Print Assumptions C18_pq_inheap_score_change_refuted.
