(** C16 — Tail selection and pruning keep the tail within the chain and never crash.

    Statement (properties.jsonl): whenever the Syncer (re)computes its tail - from
    SyncFromHash, SyncFromHeight, or the pruning window and block time - the Store
    afterwards is still one gap-free chain with 1 <= Tail <= Head, and as long as
    header times are spaced by at most the configured block time no header younger
    than the pruning window is deleted. No parameter set accepted by Validate, and
    no spacing of header times or heights, makes this computation panic, wrap
    around or wedge Head()/Start.

    The model (Model/Tail.v) is the CURRENT code, i.e. after the repairs 4eee3bd
    (no division by an unset block time), 88b6cbe (Validate rejects negative
    durations), bf876d4 (estimate clamped between old tail and head), efa8b16 and
    85f942c (downward walk, also from one above the store's head), 80904e6
    (syncStore.Append accepts the current head again), 6240466 (the window tail is
    looked for at most one above the store's head) and 970b299 (a configured tail
    above everything stored restarts the store from it). For this code EVERY clause
    of the property holds at FULL strength; no finding is open. Statements only;
    proofs are in Proofs/TailP.v.

    Notation: [start_run p times now st] is Start() of a freshly configured
    Syncer with parameters p, on a store st, against a network whose chain has the
    header times [times] (heights 1..n), at clock [now]; it returns the
    observation (outcome, heights requested from the network, store afterwards)
    and the reason. [wf st n]: st is one gap-free chain inside 1..n (or empty)
    with nothing retrievable outside of it. [tmf times h]: time of header h. *)
From GH Require Import Base.Prelude Model.Tail Proofs.TailP Oracle.C16.

(** ** 1. Never panics — FULL: every parameter set (accepted by Validate or not),
    every chain, every clock, every store *)
Theorem C16_no_panic : forall p times now st,
  o_out (fst (start_run p times now st)) <> OPanic.
Proof. exact start_run_no_panic. Qed.

Theorem C16_estimate_no_panic : forall tp b h, estimate_tail tp b h <> TPanic.
Proof. exact estimate_no_panic. Qed.

Theorem C16_find_tail_no_panic : forall w b oldH oldT headH headT storeH time_at,
  find_tail w b oldH oldT headH headT storeH time_at <> TPanic.
Proof. exact find_tail_no_panic. Qed.

(** ** 2. Never wraps around — FULL: any parameters, any spacing of header times *)

(** the first estimate (empty store) is a height of the chain *)
Theorem C16_estimate_in_chain : forall tp b h, 1 <= h ->
  exists x, estimate_tail tp b h = TVal x /\ 1 <= x <= h.
Proof. exact estimate_in_chain. Qed.

(** findTailHeight returns a height between the old tail and the head, at most one
    above the store's head, whatever
    the window, the block time and the header times are (the store answers the
    lookups between its tail and its head; the scans cannot run out of fuel) *)
Theorem C16_no_wrap : forall w b oldH oldT headH headT storeH time_at,
  headH < two64 -> storeH + 1 < two64 -> oldH <= storeH <= headH ->
  (forall h, oldH <= h <= storeH -> exists t, time_at h = Some t) ->
  exists x, find_tail w b oldH oldT headH headT storeH time_at = TVal x /\
            oldH <= x <= headH /\ x <= storeH + 1.
Proof. exact find_tail_in_range. Qed.

(** at the level of Start, window mode: every height asked from the network is a
    height of the chain, and Start fails only when the network's head is itself expired *)
Theorem C16_no_wrap_start : forall p times now st,
  let n := net_head times in
  wf st n -> n + 2 < two64 -> 1 <= n ->
  p_hash p = HNone -> p_from p = 0 ->
  let '(o, w) := start_run p times now st in
  (w = WDone \/ w = WNoCall \/ w = WInvalid \/ w = WInitExpired) /\
  Forall (fun h => 1 <= h <= n) (o_req o) /\
  (o_out o = OOk <-> (w = WDone \/ w = WNoCall)).
Proof. exact start_window_any. Qed.

(** ** 3. Keeps the window — FULL, under less than the property's hypothesis:
    header times only have to be non-decreasing (spacing by at most blockTime
    implies it); any block time, any trusting period, "far" and "close" case alike *)

(** function level: the new tail has only headers older than the window below it *)
Theorem C16_keeps_window_find_tail : forall (t : N -> Z) w b oldH oldT headH headT storeH time_at x,
  oldH <= storeH -> storeH + 1 < two64 ->
  (forall h, oldH <= h < storeH -> (0 <= t (h + 1)%N - t h)%Z) ->
  (forall h, oldH <= h <= storeH -> time_at h = Some (t h)) ->
  find_tail w b oldH oldT headH headT storeH time_at = TVal x ->
  forall h, oldH <= h < x -> (t h < headT + wrapi64 (- w))%Z.
Proof. exact find_tail_keeps_window. Qed.

(** level of Start, window mode: every header Start removes from the store is
    older than the pruning window counted from the network head *)
Theorem C16_keeps_window : forall p times now st,
  let n := net_head times in
  let t := tmf times in
  wf st n -> n + 2 < two64 -> 1 <= n ->
  p_hash p = HNone -> p_from p = 0 -> sane (p_window p) ->
  (forall h, s_tail st <= h < n -> (0 <= t (h + 1)%N - t h)%Z) ->
  forall h, st_has st h = true -> st_has (o_store (fst (start_run p times now st))) h = false ->
  (t h < t n - p_window p)%Z.
Proof. exact start_keeps_window. Qed.

(** ** 4. Still one gap-free chain — FULL: every parameter set, chain, clock,
    every outcome of Start *)
Theorem C16_tail_within_chain : forall p times now st,
  let n := net_head times in
  wf st n -> n + 2 < two64 ->
  let '(o, w) := start_run p times now st in
  wf (o_store o) n /\ (s_tail st <> 0 -> s_tail (o_store o) <> 0) /\ w <> WDelete.
Proof. exact start_run_store. Qed.

(** ** 5. Never wedges — FULL: Start fails only for reasons the environment
    explains: the only head the network offers is itself expired, or the configured
    SyncFromHash / SyncFromHeight names a header the network does not have *)
Theorem C16_never_wedges : forall p times now st,
  wf st (net_head times) -> net_head times + 2 < two64 -> 1 <= net_head times ->
  let '(o, w) := start_run p times now st in
  o_out o = OErr ->
  (w = WInitExpired /\ expired p now (tm0 times (net_head times)) = true) \/
  (w = WFetch /\ ((exists k, p_hash p = HAt k /\ in_chain times k = false) \/
                  (p_hash p = HNone /\ net_head times < p_from p))).
Proof. exact start_err_only_env. Qed.

(** non-vacuity: runs that meet the hypotheses of the theorems and really move the tail:
    the close case, and the far case with fast blocks (tail found by the downward walk) *)
Example C16_positive_theorems_nonvacuous :
  params_valid wok_params = true /\
  spaced_b wok_times 10 45 61 = true /\
  (tmf wok_times 61 - 100 - tmf wok_times 45 < 100)%Z /\
  (tmf wok_times 61 - 100 < tmf wok_times 60)%Z /\
  start_run wok_params wok_times 611 (Store 45 60 []) = (Obs OOk [] (Store 51 61 []), WDone).
Proof. exact wok_run. Qed.

Example C16_far_case_nonvacuous :
  params_valid w9c_params = true /\
  spaced_b w9c_times 10 1 61 = true /\
  start_run w9c_params w9c_times 306 (Store 1 50 []) = (Obs OOk [] (Store 41 61 []), WDone) /\
  (tmf w9c_times 40 < tmf w9c_times 61 - 100)%Z /\ (tmf w9c_times 41 >= tmf w9c_times 61 - 100)%Z.
Proof. exact wok_far_run. Qed.

(** the former finding F9a: a store far behind the chain, also after the local
    head expired, and a configured tail above everything stored *)
Example C16_lagging_store :
  params_valid w9a_params = true /\
  start_run w9a_params w9a_times 2001 (Store 1 50 []) = (Obs OOk [51] (Store 51 200 []), WDone).
Proof. exact w9a_fixed. Qed.

Example C16_expired_restart :
  params_valid w9w_params = true /\
  start_run w9w_params w9w_times w9w_now (Store 1 50 []) = (Obs OOk [51] (Store 51 200 []), WDone).
Proof. exact w9w_fixed. Qed.

Example C16_restart_from_configured_tail :
  start_run (Params (337 * w_hour)%Z 80 HNone w_big w_sec 1) (mk_times 0%Z (repeat w_sec 99)) (99 * w_sec + 1)%Z
            (Store 1 50 []) = (Obs OOk [80] (Store 80 100 []), WDone).
Proof. exact w9a_restart. Qed.

(** the lagging store with fast blocks keeps the window (store [15..23], head 29) *)
Example C16_lagging_store_keeps_window :
  start_run (Params 19 0 HNone w_big 10 1) wlag_times 75 (Store 15 23 []) = (Obs OOk [] (Store 23 29 []), WDone) /\
  (tmf wlag_times 22 < tmf wlag_times 29 - 19)%Z /\ (tmf wlag_times 23 >= tmf wlag_times 29 - 19)%Z.
Proof. exact wlag_keeps_window. Qed.

(** the tail can be moved down from a single-header store (former finding F9f) *)
Example C16_move_down_from_single_header :
  params_valid w9f_params = true /\
  start_run w9f_params (mk_times 0%Z (repeat w_sec 69)) (69 * w_sec + 1)%Z (Store 62 62 []) =
    (Obs OOk [] (Store 61 70 []), WDone).
Proof. exact w9f_fixed. Qed.

(** ** 6. The whole property

    [ok16] (Oracle/C16.v) is the decidable re-statement of EVERY clause of C16 on an
    observation: parameters rejected iff invalid, no panic, no failure of Start that
    the environment does not explain, in window mode only heights of the chain are
    requested, the store afterwards is one gap-free chain with 1 <= Tail <= Head and
    nothing outside of it, and under the spacing hypothesis no removed header is
    younger than the pruning window. For ALL parameters, chains, clocks and every
    store that is one gap-free chain, the run of the model satisfies it. *)
Theorem C16_full : forall p times now st,
  wf st (net_head times) -> net_head times + 2 < two64 -> 1 <= net_head times -> sane (p_window p) ->
  ok16 (Case16 p times now st (start_step p times now st)) = true.
Proof. exact model16_ok. Qed.

Print Assumptions C16_no_panic.
Print Assumptions C16_estimate_no_panic.
Print Assumptions C16_find_tail_no_panic.
Print Assumptions C16_estimate_in_chain.
Print Assumptions C16_no_wrap.
Print Assumptions C16_no_wrap_start.
Print Assumptions C16_keeps_window_find_tail.
Print Assumptions C16_keeps_window.
Print Assumptions C16_tail_within_chain.
Print Assumptions C16_never_wedges.
Print Assumptions C16_full.
