(** C16 — Tail selection and pruning keep the tail within the chain and never crash.

    Statement (properties.jsonl): whenever the Syncer (re)computes its tail - from
    SyncFromHash, SyncFromHeight, or the pruning window and block time - the Store
    afterwards is still one gap-free chain with 1 <= Tail <= Head, and as long as
    header times are spaced by at most the configured block time no header younger
    than the pruning window is deleted. No parameter set accepted by Validate, and
    no spacing of header times or heights, makes this computation panic, wrap
    around or wedge Head()/Start.

    The model (Model/Tail.v) is the CURRENT code, i.e. after the repairs 4eee3bd
    (no division by an unset block time), 88b6cbe (Validate rejects negative
    durations), bf876d4 (estimate clamped between old tail and head), efa8b16 and
    85f942c (downward walk, also from one above the store's head), 80904e6
    (syncStore.Append accepts the current head again). For this code "never
    panics", "never wraps" and "keeps the window" hold at FULL strength; "still one
    gap-free chain" and "never wedges" hold except in ONE region that stays an open
    finding: F9a (new tail above the store's head + 1: orphan, refused DeleteRange,
    Start fails, permanently once the local head is expired). The region is
    characterised exactly and witnessed by [_refuted] theorems. Statements only;
    proofs are in Proofs/TailP.v.

    Notation: [start_run p times now st] is Start() of a freshly configured
    Syncer with parameters p, on a store st, against a network whose chain has the
    header times [times] (heights 1..n), at clock [now]; it returns the
    observation (outcome, heights requested from the network, store afterwards)
    and the reason. [wf st n]: st is one gap-free chain inside 1..n (or empty)
    with nothing retrievable outside of it. [tmf times h]: time of header h. *)
From GH Require Import Base.Prelude Model.Tail Proofs.TailP Oracle.C16.

(** ** 1. Never panics — FULL: every parameter set (accepted by Validate or not),
    every chain, every clock, every store *)
Theorem C16_no_panic : forall p times now st,
  o_out (fst (start_run p times now st)) <> OPanic.
Proof. exact start_run_no_panic. Qed.

Theorem C16_estimate_no_panic : forall tp b h, estimate_tail tp b h <> TPanic.
Proof. exact estimate_no_panic. Qed.

Theorem C16_find_tail_no_panic : forall w b oldH oldT headH headT storeH time_at,
  find_tail w b oldH oldT headH headT storeH time_at <> TPanic.
Proof. exact find_tail_no_panic. Qed.

(** ** 2. Never wraps around — FULL: any parameters, any spacing of header times *)

(** the first estimate (empty store) is a height of the chain *)
Theorem C16_estimate_in_chain : forall tp b h, 1 <= h ->
  exists x, estimate_tail tp b h = TVal x /\ 1 <= x <= h.
Proof. exact estimate_in_chain. Qed.

(** findTailHeight returns a height between the old tail and the head, whatever
    the window, the block time and the header times are (the store answers the
    lookups between its tail and its head; the scans cannot run out of fuel) *)
Theorem C16_no_wrap : forall w b oldH oldT headH headT storeH time_at,
  headH < two64 -> storeH <= headH ->
  (forall h, oldH <= h <= storeH -> exists t, time_at h = Some t) ->
  exists x, find_tail w b oldH oldT headH headT storeH time_at = TVal x /\
            oldH <= x /\ x <= N.max oldH headH.
Proof. exact find_tail_in_range. Qed.

(** at the level of Start, window mode: every height asked from the network is a
    height of the chain, and Start fails only because the network's head is itself
    expired or because the new tail lies above the store's head + 1 (WDelete, F9a) *)
Theorem C16_no_wrap_start : forall p times now st,
  let n := net_head times in
  wf st n -> n + 2 < two64 -> 1 <= n ->
  p_hash p = HNone -> p_from p = 0 ->
  let '(o, w) := start_run p times now st in
  (w = WDone \/ w = WNoCall \/ w = WInvalid \/ w = WInitExpired \/ w = WDelete) /\
  Forall (fun h => 1 <= h <= n) (o_req o) /\
  (o_out o = OOk <-> (w = WDone \/ w = WNoCall)).
Proof. exact start_window_any. Qed.

(** ** 3. Keeps the window — FULL, under less than the property's hypothesis:
    header times only have to be non-decreasing (spacing by at most blockTime
    implies it); any block time, any trusting period, "far" and "close" case alike *)

(** function level: a new tail at most one above the store's head (anything higher
    cannot be moved to) has only headers older than the window below it *)
Theorem C16_keeps_window_find_tail : forall (t : N -> Z) w b oldH oldT headH headT storeH time_at x,
  oldH <= storeH ->
  (forall h, oldH <= h < storeH -> (0 <= t (h + 1)%N - t h)%Z) ->
  (forall h, oldH <= h <= storeH -> time_at h = Some (t h)) ->
  find_tail w b oldH oldT headH headT storeH time_at = TVal x -> x <= storeH + 1 ->
  forall h, oldH <= h < x -> (t h < headT + wrapi64 (- w))%Z.
Proof. exact find_tail_keeps_window. Qed.

(** level of Start, window mode: every header Start removes from the store is
    older than the pruning window counted from the network head *)
Theorem C16_keeps_window : forall p times now st,
  let n := net_head times in
  let t := tmf times in
  wf st n -> n + 2 < two64 -> 1 <= n ->
  p_hash p = HNone -> p_from p = 0 -> sane (p_window p) ->
  (forall h, s_tail st <= h < n -> (0 <= t (h + 1)%N - t h)%Z) ->
  forall h, st_has st h = true -> st_has (o_store (fst (start_run p times now st))) h = false ->
  (t h < t n - p_window p)%Z.
Proof. exact start_keeps_window. Qed.

(** ** 4. Still one gap-free chain — FULL for every run except the reason WDelete,
    which is characterised exactly (all parameters, chains, clocks) *)
Theorem C16_tail_within_chain : forall p times now st,
  let n := net_head times in
  wf st n -> n + 2 < two64 ->
  let '(o, w) := start_run p times now st in
  (w <> WDelete -> wf (o_store o) n /\ (s_tail st <> 0 -> s_tail (o_store o) <> 0)) /\
  (w = WDelete -> o_out o = OErr /\
     exists t h x, o_store o = Store t h [x] /\ 1 <= t <= h /\ h + 1 < x <= n).
Proof. exact start_run_store. Qed.

(** ** 5. Never wedges — PARTIAL: under the property's hypothesis (spacing <=
    blockTime), when the "far" case is not taken and the store's head is younger
    than the pruning window, the new tail is in the store and Start cannot fail
    with WDelete. The full statement is refuted below (F9a). *)
Theorem C16_no_wedge_partial : forall p times now st,
  let n := net_head times in
  let t := tmf times in
  wf st n -> n + 2 < two64 -> 1 <= n ->
  p_hash p = HNone -> p_from p = 0 ->
  (0 < p_block p)%Z -> (0 < p_window p)%Z -> sane (p_window p) ->
  sane (t (s_tail st)) -> sane (t n) ->
  (forall h, s_tail st <= h < n -> (0 <= t (h + 1)%N - t h <= p_block p)%Z) ->
  s_tail st <> 0 -> (t n - p_window p - t (s_tail st) < p_window p)%Z ->
  (t n - p_window p < t (s_head st))%Z ->
  snd (start_run p times now st) <> WDelete.
Proof. exact start_no_wedge_partial. Qed.

(** non-vacuity: runs that meet the hypotheses above and really move the tail:
    the close case, and the far case with fast blocks (tail found by the downward walk) *)
Example C16_positive_theorems_nonvacuous :
  params_valid wok_params = true /\
  spaced_b wok_times 10 45 61 = true /\
  (tmf wok_times 61 - 100 - tmf wok_times 45 < 100)%Z /\
  (tmf wok_times 61 - 100 < tmf wok_times 60)%Z /\
  start_run wok_params wok_times 611 (Store 45 60 []) = (Obs OOk [] (Store 51 61 []), WDone).
Proof. exact wok_run. Qed.

Example C16_far_case_nonvacuous :
  params_valid w9c_params = true /\
  spaced_b w9c_times 10 1 61 = true /\
  start_run w9c_params w9c_times 306 (Store 1 50 []) = (Obs OOk [] (Store 41 61 []), WDone) /\
  (tmf w9c_times 40 < tmf w9c_times 61 - 100)%Z /\ (tmf w9c_times 41 >= tmf w9c_times 61 - 100)%Z.
Proof. exact wok_far_run. Qed.

(** the tail can be moved down from a single-header store (former finding F9f) *)
Example C16_move_down_from_single_header :
  params_valid w9f_params = true /\
  start_run w9f_params (mk_times 0%Z (repeat w_sec 69)) (69 * w_sec + 1)%Z (Store 62 62 []) =
    (Obs OOk [] (Store 61 70 []), WDone).
Proof. exact w9f_fixed. Qed.

(** ** 6. The whole property, outside the region of the open finding

    [ok16] (Oracle/C16.v) is the decidable re-statement of EVERY clause of C16 on an
    observation: parameters rejected iff invalid, no panic, no failure of Start that
    the environment does not explain, in window mode only heights of the chain are
    requested, the store afterwards is one gap-free chain with 1 <= Tail <= Head and
    nothing outside of it, and under the spacing hypothesis no removed header is
    younger than the pruning window. [region16] is 2 for WDelete (F9a), 0
    otherwise. For ALL parameters, chains, clocks and every store that is one
    gap-free chain: a run outside that region satisfies the whole property. *)
Theorem C16_full_outside_known_regions : forall p times now st,
  wf st (net_head times) -> net_head times + 2 < two64 -> 1 <= net_head times -> sane (p_window p) ->
  let c := Case16 p times now st (start_step p times now st) in
  region16 c = 0 -> ok16 c = true.
Proof. exact model16_ok. Qed.

(** ** 7. What is still false of the current code: witnesses
    (each is replayed on the real code by harness/c16 on every run) *)

(** F9a "still one gap-free chain": the new tail above the store's head + 1 is
    force-appended, DeleteRange refuses, Start fails and an orphan stays behind *)
Theorem C16_tail_within_chain_refuted : exists p times now st,
  params_valid p = true /\ wf st (net_head times) /\
  o_out (start_step p times now st) = OErr /\ s_extra (o_store (start_step p times now st)) <> [].
Proof. exact tail_within_chain_refuted. Qed.

(** F9a "never wedges": once the local head is expired, every further Start
    fails in the same way although the network head is not expired *)
Theorem C16_never_wedges_refuted : exists p times now st,
  params_valid p = true /\ wf st (net_head times) /\
  expired p now (tmf times (net_head times)) = false /\
  forall k, o_out (start_step p times now
                     (Nat.iter k (fun s => o_store (start_step p times now s)) st)) = OErr.
Proof. exact never_wedges_refuted. Qed.

Print Assumptions C16_no_panic.
Print Assumptions C16_estimate_no_panic.
Print Assumptions C16_find_tail_no_panic.
Print Assumptions C16_estimate_in_chain.
Print Assumptions C16_no_wrap.
Print Assumptions C16_no_wrap_start.
Print Assumptions C16_keeps_window_find_tail.
Print Assumptions C16_keeps_window.
Print Assumptions C16_tail_within_chain.
Print Assumptions C16_no_wedge_partial.
Print Assumptions C16_full_outside_known_regions.
Print Assumptions C16_tail_within_chain_refuted.
Print Assumptions C16_never_wedges_refuted.
