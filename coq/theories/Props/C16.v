(** C16 — Tail selection and pruning keep the tail within the chain and never crash.

    Statement (properties.jsonl): whenever the Syncer (re)computes its tail - from
    SyncFromHash, SyncFromHeight, or the pruning window and block time - the Store
    afterwards is still one gap-free chain with 1 <= Tail <= Head, and as long as
    header times are spaced by at most the configured block time no header younger
    than the pruning window is deleted. No parameter set accepted by Validate, and
    no spacing of header times or heights, makes this computation panic, wrap
    around or wedge Head()/Start.

    The model (Model/Tail.v) is the CURRENT code, for which the statement is false
    in seven regions (known findings F8, F9a..F9f). Each clause is therefore proved
    under the exact precondition that makes it true ([_partial], or an [_iff]
    that states the boundary), and the excluded region is witnessed by a
    [_refuted] theorem. Statements only; proofs are in Proofs/TailP.v.

    Notation: [start_run p times now st] is Start() of a freshly configured
    Syncer with parameters p, on a store st, against a network whose chain has the
    header times [times] (heights 1..n), at clock [now]; it returns the
    observation (outcome, heights requested from the network, store afterwards)
    and the reason. [wf st n]: st is one gap-free chain inside 1..n (or empty)
    with nothing retrievable outside of it. *)
From GH Require Import Base.Prelude Model.Tail Proofs.TailP Oracle.C16.

(** ** 1. The store stays one gap-free chain (all parameters, all chains, all clocks) *)

(** FULL for every run except the one reason WDelete; that region is exactly
    characterised: DeleteRange refused and left one orphan above head + 1. *)
Theorem C16_tail_within_chain : forall p times now st,
  let n := net_head times in
  wf st n -> n + 2 < two64 ->
  let '(o, w) := start_run p times now st in
  (w <> WDelete -> wf (o_store o) n /\ (s_tail st <> 0 -> s_tail (o_store o) <> 0)) /\
  (w = WDelete -> o_out o = OErr /\
     exists t h x, o_store o = Store t h [x] /\ 1 <= t <= h /\ h + 1 < x <= n).
Proof. exact start_run_store. Qed.

(** ** 2. Never panics *)

(** the exact boundary: Start panics iff the tail is recomputed in window mode
    with blockTime = 0 and a division is reached *)
Theorem C16_panic_iff : forall p times now st,
  wf st (net_head times) -> net_head times + 2 < two64 ->
  (o_out (fst (start_run p times now st)) = OPanic <->
   exists init st1, start_call p times now st = inr (init, st1) /\ panic_cond p times st1).
Proof. exact start_run_panic_iff. Qed.

Theorem C16_estimate_panics_iff : forall tp b h, estimate_tail tp b h = TPanic <-> b = 0%Z.
Proof. exact estimate_panics_iff. Qed.

Theorem C16_find_tail_panics_iff : forall w b oldH oldT headH headT storeH time_at,
  find_tail w b oldH oldT headH headT storeH time_at = TPanic <->
  b = 0%Z /\ (0 < sat64 (headT + wrapi64 (- w) - oldT))%Z.
Proof. exact find_tail_panics_iff. Qed.

(** ** 3. Never wraps around *)

(** the first estimate (empty store) is always a height of the chain *)
Theorem C16_estimate_in_chain : forall tp b h, b <> 0%Z -> 1 <= h ->
  exists x, estimate_tail tp b h = TVal x /\ 1 <= x <= h.
Proof. exact estimate_in_chain. Qed.

(** PARTIAL (spacing of header times <= blockTime, as the property text assumes
    for the window clause; magnitudes below 2^61 ns so that time.Sub does not
    saturate): the new tail lies between the old tail and the head, and unless the
    "far" case is taken every header below it is older than the window.
    The FULL statement (no assumption on the spacing) is refuted below. *)
Theorem C16_no_wrap_keeps_window_partial : forall (t : N -> Z) w b oldH headH storeH time_at,
  (0 < b)%Z -> (0 < w)%Z -> sane w -> sane (t oldH) -> sane (t headH) ->
  oldH <= storeH <= headH -> headH < two64 ->
  (forall h, oldH <= h < headH -> (0 <= t (h + 1)%N - t h <= b)%Z) ->
  (forall h, oldH < h < storeH -> time_at h = Some (t h)) ->
  exists x, find_tail w b oldH (t oldH) headH (t headH) storeH time_at = TVal x /\
    oldH <= x <= headH /\
    ((t headH - w - t oldH < w)%Z -> forall h, oldH <= h < x -> (t h < t headH - w)%Z).
Proof. exact find_tail_spaced. Qed.

(** the exact boundary of the "far" case for ANY spacing: the result is a height
    of the chain iff window/blockTime < head height *)
Theorem C16_far_in_chain_iff : forall w b oldH oldT headH headT storeH time_at,
  (0 < b)%Z -> (0 < w)%Z -> sane w -> sane oldT -> sane headT ->
  storeH <= headH -> headH < two64 ->
  (w <= headT - w - oldT)%Z ->
  (forall h, oldH < h < storeH -> exists t0, time_at h = Some t0) ->
  exists x, find_tail w b oldH oldT headH headT storeH time_at = TVal x /\
    (1 <= x <= headH <-> (w / b < Z.of_N headH)%Z).
Proof. exact find_tail_far_iff. Qed.

(** the "far" case keeps the window when blockTime is a LOWER bound of the spacing *)
Theorem C16_keeps_window_far_partial : forall (t : N -> Z) w b oldH headH storeH time_at,
  (0 < b)%Z -> (0 < w)%Z -> sane w -> sane (t oldH) -> sane (t headH) ->
  oldH <= storeH <= headH -> headH < two64 ->
  (w <= t headH - w - t oldH)%Z ->
  (w / b < Z.of_N headH)%Z ->
  (forall h, oldH <= h < headH -> (0 <= t (h + 1)%N - t h)%Z) ->
  (forall h, oldH <= h < headH -> headH - Z.to_N (w / b) <= h + 1 -> (b <= t (h + 1)%N - t h)%Z) ->
  (forall h, oldH < h < storeH -> time_at h = Some (t h)) ->
  exists x, find_tail w b oldH (t oldH) headH (t headH) storeH time_at = TVal x /\
    forall h, oldH <= h < x -> (t h < t headH - w)%Z.
Proof. exact find_tail_far_min_spacing. Qed.

(** ** 4. The clauses at the level of Start(), under the property's own hypothesis *)

(** window clause, PARTIAL ("far" case excluded; it is refuted below): in window
    mode, header times between the old tail and the network head spaced by at
    most blockTime: every header Start removes from the store is older than the
    pruning window counted from the network head *)
Theorem C16_keeps_window_partial : forall p times now st,
  let n := net_head times in
  let t := tmf times in
  wf st n -> n + 2 < two64 ->
  p_hash p = HNone -> p_from p = 0 ->
  (0 < p_block p)%Z -> (0 < p_window p)%Z -> sane (p_window p) ->
  sane (t (s_tail st)) -> sane (t n) ->
  (forall h, s_tail st <= h < n -> (0 <= t (h + 1)%N - t h <= p_block p)%Z) ->
  (t n - p_window p - t (s_tail st) < p_window p)%Z ->
  forall h, st_has st h = true -> st_has (o_store (fst (start_run p times now st))) h = false ->
  (t h < t n - p_window p)%Z.
Proof. exact start_keeps_window. Qed.

(** no-wrap and no-wedge, PARTIAL (same hypothesis): every height asked from the
    network is a height of the chain; Start succeeds unless the only head the
    network offers is expired or the new tail lies above the store's head + 1
    (WDelete, finding F9a); and that cannot happen when the "far" case is not
    taken and the store's head is younger than the pruning window *)
Theorem C16_no_wrap_no_wedge_partial : forall p times now st,
  let n := net_head times in
  let t := tmf times in
  wf st n -> n + 2 < two64 -> 1 <= n ->
  p_hash p = HNone -> p_from p = 0 ->
  (0 < p_block p)%Z -> (0 < p_window p)%Z -> sane (p_window p) ->
  sane (t (s_tail st)) -> sane (t n) ->
  (forall h, s_tail st <= h < n -> (0 <= t (h + 1)%N - t h <= p_block p)%Z) ->
  let '(o, w) := start_run p times now st in
  (w = WDone \/ w = WNoCall \/ w = WInvalid \/ w = WInitExpired \/ w = WDelete) /\
  Forall (fun h => 1 <= h <= n) (o_req o) /\
  (o_out o = OOk <-> (w = WDone \/ w = WNoCall)) /\
  (s_tail st <> 0 -> (t n - p_window p - t (s_tail st) < p_window p)%Z ->
     (t n - p_window p < t (s_head st))%Z -> w <> WDelete).
Proof. exact start_window_spaced. Qed.

(** non-vacuity: the hypotheses of the two theorems above are met by a run that
    really moves the tail (close case; 61 headers 10ns apart, store [45..60]) *)
Example C16_partial_theorems_nonvacuous :
  params_valid wok_params = true /\
  spaced_b wok_times 10 45 61 = true /\
  (tmf wok_times 61 - 100 - tmf wok_times 45 < 100)%Z /\
  (tmf wok_times 61 - 100 < tmf wok_times 60)%Z /\
  start_run wok_params wok_times 611 (Store 45 60 []) = (Obs OOk [] (Store 51 61 []), WDone).
Proof. exact wok_run. Qed.

(** ** 4b. The whole property, outside the seven regions of the known findings

    [ok16] (Oracle/C16.v) is the decidable re-statement of EVERY clause of C16 on an
    observation: parameters rejected iff invalid, no panic, no failure of Start that
    the environment does not explain, in window mode only heights of the chain are
    requested, the store afterwards is one gap-free chain with 1 <= Tail <= Head and
    nothing outside of it, and under the spacing hypothesis no removed header is
    younger than the pruning window. [region16] numbers the regions of the open
    findings F8 (1), F9a (2), F9b (3), F9c (4), F9d (5), F9e (6), F9f (7) by the
    reason the model gives for the outcome. For ALL parameters, chains, clocks and
    every store that is one gap-free chain: a run outside those regions satisfies
    the whole property. *)
Theorem C16_full_outside_known_regions : forall p times now st,
  wf st (net_head times) -> net_head times + 2 < two64 ->
  let c := Case16 p times now st (start_step p times now st) in
  region16 c = 0 -> ok16 c = true.
Proof. exact model16_ok. Qed.

(** ** 5. The full statement is false of the current code: witnesses
    (each is replayed on the real code by harness/c16 on every run) *)

(** F8 "never panics": default parameters (blockTime unset) on an empty store *)
Theorem C16_no_panic_refuted : exists p times now st,
  params_valid p = true /\ wf st (net_head times) /\
  o_out (start_step p times now st) = OPanic.
Proof. exact no_panic_refuted. Qed.

(** F9b "never wraps": a halted chain makes Start ask the network for a height near 2^64 *)
Theorem C16_no_wrap_refuted : exists p times now st,
  params_valid p = true /\ wf st (net_head times) /\ (0 < p_block p)%Z /\ (0 < p_window p)%Z /\
  exists x, In x (o_req (start_step p times now st)) /\ net_head times < x /\
  o_out (start_step p times now st) = OErr.
Proof. exact no_wrap_refuted. Qed.

(** F9c "keeps the window": blocks faster than blockTime (spacing <= blockTime holds) in the "far" case *)
Theorem C16_keeps_window_refuted : exists p times now st h,
  params_valid p = true /\ wf st (net_head times) /\ p_hash p = HNone /\ p_from p = 0 /\
  (0 < p_block p)%Z /\ (0 < p_window p)%Z /\
  (forall k, 1 <= k < net_head times -> (0 <= tmf times (k + 1)%N - tmf times k <= p_block p)%Z) /\
  o_out (start_step p times now st) = OOk /\
  st_has st h = true /\ st_has (o_store (start_step p times now st)) h = false /\
  (tmf times h > tmf times (net_head times) - p_window p)%Z.
Proof. exact keeps_window_refuted. Qed.

(** F9a "still one gap-free chain": the new tail above the store's head + 1 is
    force-appended, DeleteRange refuses, Start fails and an orphan stays behind *)
Theorem C16_tail_within_chain_refuted : exists p times now st,
  params_valid p = true /\ wf st (net_head times) /\
  o_out (start_step p times now st) = OErr /\ s_extra (o_store (start_step p times now st)) <> [].
Proof. exact tail_within_chain_refuted. Qed.

(** F9a "never wedges": once the local head is expired, every further Start
    fails in the same way although the network head is not expired *)
Theorem C16_never_wedges_refuted : exists p times now st,
  params_valid p = true /\ wf st (net_head times) /\
  expired p now (tmf times (net_head times)) = false /\
  forall k, o_out (start_step p times now
                     (Nat.iter k (fun s => o_store (start_step p times now s)) st)) = OErr.
Proof. exact never_wedges_refuted. Qed.

(** F9d: header times further apart than blockTime in the "close" case: a height above the network head is requested *)
Theorem C16_close_case_refuted : exists p times now st x,
  params_valid p = true /\ wf st (net_head times) /\ (0 < p_block p)%Z /\ (0 < p_window p)%Z /\
  start_step p times now st = Obs OErr [x] (Store 1 3 []) /\ net_head times < x.
Proof. exact close_case_refuted. Qed.

(** F9e: Validate accepts a negative PruningWindow, and Start then fails *)
Theorem C16_validate_negative_refuted : exists p times now st x,
  params_valid p = true /\ (p_window p < 0)%Z /\ wf st (net_head times) /\
  start_step p times now st = Obs OErr [x] (Store 1 21 []) /\ net_head times < x.
Proof. exact validate_negative_refuted. Qed.

(** F9f: moving the tail down from a single-header store fails on the last chunk *)
Theorem C16_move_down_refuted : exists p times now st,
  params_valid p = true /\ wf st (net_head times) /\
  start_run p times now st = (Obs OErr [] (Store 61 62 []), WChunk).
Proof. exact move_down_refuted. Qed.

Print Assumptions C16_tail_within_chain.
Print Assumptions C16_panic_iff.
Print Assumptions C16_estimate_panics_iff.
Print Assumptions C16_find_tail_panics_iff.
Print Assumptions C16_estimate_in_chain.
Print Assumptions C16_no_wrap_keeps_window_partial.
Print Assumptions C16_far_in_chain_iff.
Print Assumptions C16_keeps_window_far_partial.
Print Assumptions C16_keeps_window_partial.
Print Assumptions C16_no_wrap_no_wedge_partial.
Print Assumptions C16_full_outside_known_regions.
Print Assumptions C16_no_panic_refuted.
Print Assumptions C16_no_wrap_refuted.
Print Assumptions C16_keeps_window_refuted.
Print Assumptions C16_tail_within_chain_refuted.
Print Assumptions C16_never_wedges_refuted.
Print Assumptions C16_close_case_refuted.
Print Assumptions C16_validate_negative_refuted.
Print Assumptions C16_move_down_refuted.
