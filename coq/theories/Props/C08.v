(** C08 — DeleteRange removes exactly the requested end of the chain, permanently.

    Setting as in Props/C04.v: a chain [c] over [1, U] with [chain_hyps c U], the state
    [s := run c (st0 b) ops] reached from the empty store with batch size [b] by ANY history
    [ops] (Appends in any order — so any mix of flushed and still pending headers —,
    DeleteRanges with failing handlers, restarts).  [delete_range s (script_of fails) nh from to]
    is DeleteRange(from, to) with [nh] handlers failing at the scripted pairs; it returns the new
    state, the handler log and the outcome ([Ok] = nil, [Fail] = error). *)
From Coq Require Import NArith List Bool.
From stdpp Require Import gmap.
From GH Require Import Base.Prelude Model.Store Model.StoreSpec Oracle.StoreCase.
From GH Require Import Proofs.StoreP Proofs.StoreMainP Proofs.StoreC04P Proofs.StoreC08P.
Import ListNotations.
Open Scope N_scope.

(** [valid_shape T H from to] := (from = T /\ T < to <= H+1) \/ (T < from <= H /\ to = H+1):
    a prefix starting at Tail (the whole chain when to = Head+1) or a suffix ending at Head+1.
    Every other range — and every range on an empty store — is rejected with an error and no
    handler is called; the only thing that happened is the Store.Sync every DeleteRange starts
    with ([sync s]: the pending batch is written out), which changes no read
    ([C08_sync_changes_no_read]). *)
Theorem C08_rejects_other_ranges : forall c U, chain_hyps c U -> forall b ops, Forall (op_ok U) ops ->
  forall from to nh fails,
  let s := run c (st0 b) ops in
  (headp s = None \/
   exists hd tl, headp s = Some hd /\ tailp s = Some tl /\ ~ valid_shape (h_height tl) (h_height hd) from to) ->
  delete_range s (script_of fails) nh from to = (sync s, [], Fail).
Proof. exact @hist_delete_rejects. Qed.

Theorem C08_sync_changes_no_read : forall c U, chain_hyps c U -> forall b ops, Forall (op_ok U) ops ->
  let s := run c (st0 b) ops in
  let s' := sync s in
  headp s' = headp s /\ tailp s' = tailp s /\ hsh s' = hsh s /\
  (forall n, get_by_height s' n = get_by_height s n) /\
  (forall n, inr U n -> get s' (h_id (c n)) = get s (h_id (c n)) /\ has s' (h_id (c n)) = has s (h_id (c n))) /\
  (forall n, has_at s' n = has_at s n) /\
  (forall from to, get_range s' from to = get_range s from to).
Proof. exact @hist_sync_changes_no_read. Qed.

(** an accepted range whose handlers do not fail inside it returns nil *)
Theorem C08_accepts_ends : forall c U, chain_hyps c U -> forall b ops, Forall (op_ok U) ops ->
  forall from to nh fails hd tl,
  let s := run c (st0 b) ops in
  headp s = Some hd -> tailp s = Some tl -> valid_shape (h_height tl) (h_height hd) from to ->
  no_fail_in fails from to ->
  snd (delete_range s (script_of fails) nh from to) = Ok.
Proof. exact @hist_delete_accepts. Qed.

(** after nil no header of the range is retrievable by height or by hash (whether it had been
    flushed or was still in the write batch: every history, every batch size) *)
Theorem C08_success_removes_range : forall c U, chain_hyps c U -> forall b ops, Forall (op_ok U) ops ->
  forall from to nh fails s' log,
  let s := run c (st0 b) ops in
  delete_range s (script_of fails) nh from to = (s', log, Ok) ->
  forall n, from <= n < to ->
  (forall h, get_by_height s' n <> Found h) /\
  (inr U n -> get s' (h_id (c n)) = NotFound /\ has s' (h_id (c n)) = false).
Proof. exact @hist_delete_success_removes. Qed.

(** whatever the outcome (nil, rejected, failed part-way), every header outside the range is untouched *)
Theorem C08_outside_untouched : forall c U, chain_hyps c U -> forall b ops, Forall (op_ok U) ops ->
  forall from to nh fails s' log out,
  let s := run c (st0 b) ops in
  delete_range s (script_of fails) nh from to = (s', log, out) ->
  forall n, inr U n -> ~ (from <= n < to) ->
  get s' (h_id (c n)) = get s (h_id (c n)) /\ has s' (h_id (c n)) = has s (h_id (c n)) /\
  (get_by_height s n = Found (c n) <-> get_by_height s' n = Found (c n)).
Proof. exact @hist_delete_outside_untouched. Qed.

(** after nil, Head and Tail describe the remaining chain *)
Theorem C08_new_ends : forall c U, chain_hyps c U -> forall b ops, Forall (op_ok U) ops ->
  forall from to nh fails s' log hd tl,
  let s := run c (st0 b) ops in
  delete_range s (script_of fails) nh from to = (s', log, Ok) ->
  headp s = Some hd -> tailp s = Some tl ->
  (from = h_height tl /\ to = h_height hd + 1 -> headp s' = None /\ tailp s' = None) /\
  (from = h_height tl /\ to <= h_height hd -> headp s' = Some hd /\ tailp s' = Some (c to)) /\
  (h_height tl < from -> headp s' = Some (c (from - 1)) /\ tailp s' = Some tl).
Proof. exact @hist_delete_new_ends. Qed.

(** ... and after ANY DeleteRange (also a failed one) Tail and Head resolve to stored headers
    with Tail <= Head and every height between them retrievable: the state after the delete is
    the state of the history [ops ++ [IDelete ...]], to which the C04 theorems apply *)
Theorem C08_ends_resolve_after_delete : forall c U, chain_hyps c U -> forall b ops from to nh fails,
  Forall (op_ok U) (ops ++ [IDelete from to nh fails]) ->
  let s' := run c (st0 b) (ops ++ [IDelete from to nh fails]) in
  forall hd tl, headp s' = Some hd -> tailp s' = Some tl ->
  forall n, h_height tl <= n <= h_height hd ->
  get_by_height s' n = Found (c n) /\ h_height (c n) = n /\ get s' (h_id (c n)) = Found (c n) /\
  has s' (h_id (c n)) = true /\ has_at s' n = true.
Proof. exact (fun c U CH b ops from to nh fails => @hist_range_retrievable c U CH b (ops ++ [IDelete from to nh fails])). Qed.

(** permanence: none of the deleted headers reappears after any continuation of Appends of
    other heights, further DeleteRanges, flushes and restarts ([avoids from to o]: an Append
    in the continuation contains no height of [from, to)) *)
Theorem C08_permanent : forall c U, chain_hyps c U -> forall b ops, Forall (op_ok U) ops ->
  forall from to nh fails s' log ops',
  let s := run c (st0 b) ops in
  delete_range s (script_of fails) nh from to = (s', log, Ok) ->
  Forall (op_ok U) ops' -> Forall (avoids from to) ops' ->
  forall n, from <= n < to ->
  let s2 := run c s' ops' in
  (forall h, get_by_height s2 n <> Found h) /\
  (inr U n -> get s2 (h_id (c n)) = NotFound /\ has s2 (h_id (c n)) = false).
Proof. exact @hist_delete_permanent. Qed.

(** a tail-side (or whole-chain) deletion that failed part-way moved Tail to the failing
    height [k], which is still readable; retrying from the new Tail with handlers that do not
    fail completes the deletion: nothing of the original range is left *)
Theorem C08_retry_completes : forall c U, chain_hyps c U -> forall b ops, Forall (op_ok U) ops ->
  forall from to nh fails s1 log1 hd tl,
  let s := run c (st0 b) ops in
  headp s = Some hd -> tailp s = Some tl -> from = h_height tl ->
  valid_shape (h_height tl) (h_height hd) from to ->
  delete_range s (script_of fails) nh from to = (s1, log1, Fail) ->
  exists k, from <= k < to /\ tailp s1 = Some (c k) /\ headp s1 = Some hd /\
            get_by_height s1 k = Found (c k) /\
    forall nh' fails', no_fail_in fails' k to ->
    exists s2 log2, delete_range s1 (script_of fails') nh' k to = (s2, log2, Ok) /\
      forall n, from <= n < to ->
        (forall h, get_by_height s2 n <> Found h) /\
        (inr U n -> get s2 (h_id (c n)) = NotFound /\ has s2 (h_id (c n)) = false).
Proof. exact @hist_delete_retry_completes. Qed.

(** non-vacuity: a store with flushed (1..4) and pending (5..6) headers; a rejected middle
    range, a tail-side delete over both kinds failing at 3, the retry, then re-append of other
    heights and a reopen: 1..4 stay gone *)
Example C08_history :
  let c := simple_chain in
  let s := run c (st0 4) [IAppend [1; 2; 3; 4]; IAppend [5; 6]] in
  size (pend_h s) = 2%nat /\
  delete_range s (script_of []) 1 2 4 = (sync s, [], Fail) /\ size (pend_h (sync s)) = 0%nat /\
  let '(s1, log1, out1) := delete_range s (script_of [(0%nat, 3, false)]) 1 1 5 in
  out1 = Fail /\ option_map h_height (tailp s1) = Some 3 /\ length log1 = 3%nat /\
  let '(s2, lg2, out2) := delete_range s1 (script_of []) 1 3 5 in
  out2 = Ok /\ option_map h_height (tailp s2) = Some 5 /\
  let s3 := run c s2 [IAppend [7]; IReopen; IAppend [8]] in
  get_by_height s3 4 = NotFound /\ get s3 (h_id (c 2)) = NotFound /\ option_map h_height (headp s3) = Some 8.
Proof. vm_compute. repeat split. Qed.

Print Assumptions C08_rejects_other_ranges.
Print Assumptions C08_sync_changes_no_read.
Print Assumptions C08_accepts_ends.
Print Assumptions C08_success_removes_range.
Print Assumptions C08_outside_untouched.
Print Assumptions C08_new_ends.
Print Assumptions C08_ends_resolve_after_delete.
Print Assumptions C08_permanent.
Print Assumptions C08_retry_completes.
