(** C05, audit follow-up — further theorems about Exchange.GetRangeByHeight (Model/Session.v).
    Statements only; proofs are in Proofs/SessionMoreP.v (and Proofs/SessionP.v).

    1. Validate() may PANIC on a header received from a peer ([FValidatePanic] is the answer
       frame carrying such a header). session.processResponses recovers it: the theorems of
       Props/C05.v quantify over ALL frame lists and therefore cover the new frame kind
       ([C05_no_response_can_crash] is restated below for emphasis through
       [C05_validate_panic_never_crashes]); the theorems here say what such a frame does. *)
From GH Require Import Base.Prelude Model.Verify Model.Session Proofs.SessionP Proofs.SessionMoreP.

(** Every panic of Validate is recovered: the whole call - for ALL event lists, verifiers
    (panicking ones included), chunk sizes, peer sets - returns exactly what it returns when
    every frame on which Validate panics is replaced by a frame [sub] that processResponses
    refuses with an ordinary error (a header on which Validate returns an error, an undecodable
    body, an unknown status code, a decode panic). *)
Theorem C05_validate_panics_are_refusals :
  forall drift (tvp : hdr -> hdr -> tvres_p) maxcap per (from : hdr) (to : N) peers (sub : frame) evs,
  process_frames [sub] = inl POther ->
  GetRangeByHeight_p drift tvp maxcap per from to peers (map (calm_event sub) evs) =
  GetRangeByHeight_p drift tvp maxcap per from to peers evs.
Proof. exact validate_panics_are_refusals. Qed.

(** An answer with a Validate panic among the frames that are read (sendMessage reads at most
    Amount frames) is a failed request - never a delivered chunk, never a crash - whatever the
    other frames, the verifier and the clock are. *)
Theorem C05_validate_panic_fails_the_answer :
  forall now drift (tvp : hdr -> hdr -> tvres_p) (from : hdr) (r : req) (fs : list frame),
  In FValidatePanic (takeN (r_amount r) fs) ->
  exists e, do_request_p now drift tvp from r fs = DErr e.
Proof. exact validate_panic_fails_the_answer. Qed.

(** "no peer response can crash the client", for event lists in which Validate panics: the
    instance of C05_no_response_can_crash (which holds for all event lists) *)
Theorem C05_validate_panic_never_crashes :
  forall drift (tvp : hdr -> hdr -> tvres_p) maxcap per (from : hdr) (to : N) peers evs,
  h_nil from = false -> h_height from < two64 -> to < two64 -> 1 <= per ->
  to - (h_height from + 1) <= maxcap ->
  (exists p now fs, In (ERespond p now fs) evs /\ In FValidatePanic fs) ->
  GetRangeByHeight_p drift tvp maxcap per from to peers evs <> Some RPanic.
Proof. exact validate_panic_never_crashes. Qed.

(** non-vacuity: peer 0 answers with a header on which Validate panics in second position; the
    request is asked again and served by peer 1 *)
Example C05_validate_panic_in_chunk_is_recovered :
  GetRangeByHeight_p 0%Z ex_tvp 100 3 (ex_hdr 10) 14 [0; 1]
    [EDispatch 0 (Req 11 3); ERespond 0 5%Z [FHdr (ex_hdr 11); FValidatePanic; FHdr (ex_hdr 13)];
     EDispatch 1 (Req 11 3); ERespond 1 5%Z [FHdr (ex_hdr 11); FHdr (ex_hdr 12); FHdr (ex_hdr 13)]]
  = Some (ROk [ex_hdr 11; ex_hdr 12; ex_hdr 13]).
Proof. vm_compute. reflexivity. Qed.

(** ... and a Validate panic beyond the frames that are read is never seen *)
Example C05_validate_panic_beyond_amount_is_not_read :
  GetRangeByHeight_p 0%Z ex_tvp 100 3 (ex_hdr 10) 14 [0]
    [EDispatch 0 (Req 11 3); ERespond 0 5%Z [FHdr (ex_hdr 11); FHdr (ex_hdr 12); FHdr (ex_hdr 13); FValidatePanic]]
  = Some (ROk [ex_hdr 11; ex_hdr 12; ex_hdr 13]).
Proof. vm_compute. reflexivity. Qed.

Print Assumptions C05_validate_panics_are_refusals.
Print Assumptions C05_validate_panic_fails_the_answer.
Print Assumptions C05_validate_panic_never_crashes.

(** 2. (second follow-up) The end of the caller's context and Exchange.Stop while the call waits
    ([ECtxDone] / [EStop] anywhere in the event list: with requests queued, in flight, answered).
    Proofs: Oracle/C05.v (section "statements about the end events"). The correspondence driver
    harness/c05 TestC05More places both events after the k-th processed answer of the real call. *)
From GH Require Import Oracle.C05.

(** While the call has not returned - whatever was dispatched, answered, re-queued so far, for ALL
    event lists, verifiers, chunk sizes, peer sets - the end of the caller's context makes it
    return the context's error and Exchange.Stop makes it return "exchange is closed". *)
Theorem C05_waiting_call_is_ended_by_ctx_and_by_stop :
  forall drift (tvp : hdr -> hdr -> tvres_p) maxcap per (from : hdr) (to : N) peers evs,
  GetRangeByHeight_p drift tvp maxcap per from to peers evs = None ->
  GetRangeByHeight_p drift tvp maxcap per from to peers (evs ++ [ECtxDone]) = Some (RErr ECtx) /\
  GetRangeByHeight_p drift tvp maxcap per from to peers (evs ++ [EStop]) = Some (RErr EClosed).
Proof. exact waiting_call_ends. Qed.

(** A result is final: no later event (late answers of requests still in flight, the context's
    end, Stop) changes what the call returned. *)
Theorem C05_result_is_final :
  forall drift (tvp : hdr -> hdr -> tvres_p) maxcap per (from : hdr) (to : N) peers evs more r,
  GetRangeByHeight_p drift tvp maxcap per from to peers evs = Some r ->
  GetRangeByHeight_p drift tvp maxcap per from to peers (evs ++ more) = Some r.
Proof. exact result_is_final. Qed.

(** The context's error is returned only if the context ended, "exchange is closed" only if Stop
    was called: no answer of any peer can make the call fail with either of them. *)
Theorem C05_ctx_and_closed_errors_need_their_event :
  forall drift (tvp : hdr -> hdr -> tvres_p) maxcap per (from : hdr) (to : N) peers evs,
  h_height from < two64 -> to < two64 -> 1 <= per ->
  (GetRangeByHeight_p drift tvp maxcap per from to peers evs = Some (RErr ECtx) -> In ECtxDone evs) /\
  (GetRangeByHeight_p drift tvp maxcap per from to peers evs = Some (RErr EClosed) -> In EStop evs).
Proof. exact ctx_error_has_ctx_event. Qed.

(** non-vacuity: Stop with one request answered, one in flight and one queued; the context's end
    before any answer; a late answer after the context's end changes nothing *)
Example C05_stop_mid_flight :
  GetRangeByHeight_p 0%Z ex_tvp 100 1 (ex_hdr 10) 14 [0; 1]
    [EDispatch 0 (Req 11 1); ERespond 0 5%Z [FHdr (ex_hdr 11)]; EDispatch 1 (Req 12 1); EStop]
  = Some (RErr EClosed).
Proof. vm_compute. reflexivity. Qed.

Example C05_ctx_end_then_late_answer :
  GetRangeByHeight_p 0%Z ex_tvp 100 3 (ex_hdr 10) 14 [0]
    [EDispatch 0 (Req 11 3); ECtxDone; ERespond 0 5%Z [FHdr (ex_hdr 11); FHdr (ex_hdr 12); FHdr (ex_hdr 13)]]
  = Some (RErr ECtx).
Proof. vm_compute. reflexivity. Qed.

(** 3. Consecutive calls on one Exchange. Whatever happens during a call, only peers of the set its
    session was created with are ever idle or in flight (a request is handed to idle peers only);
    the next call's session is created without the peers an earlier call blocked ([unblocked],
    Oracle/C05.v: the peers whose answer doRequest refused with an error other than NOT_FOUND /
    empty) - so a blocked peer is never asked again, for ALL event lists of the later call. *)
Theorem C05_session_uses_only_its_peers :
  forall drift (tvp : hdr -> hdr -> tvres_p) maxcap per (from : hdr) (to : N) peers evs x,
  In x (known (run_p drift tvp maxcap from (get_range maxcap per from to peers) evs)) -> In x peers.
Proof. exact session_uses_its_peers. Qed.

Theorem C05_blocked_peer_is_not_asked_again :
  forall (earlier : case05) drift (tvp : hdr -> hdr -> tvres_p) maxcap per (from : hdr) (to : N) peers evs x,
  In x (blocked_by earlier) ->
  ~ In x (known (run_p drift tvp maxcap from (get_range maxcap per from to (unblocked earlier peers)) evs)).
Proof. exact blocked_peer_is_not_used_again. Qed.

(** non-vacuity: no peer at all - the call waits (no result) until its context ends *)
Example C05_zero_peers_waits :
  GetRangeByHeight_p 0%Z ex_tvp 100 3 (ex_hdr 10) 14 nil nil = None.
Proof. vm_compute. reflexivity. Qed.

Example C05_zero_peers_waits_for_the_context :
  GetRangeByHeight_p 0%Z ex_tvp 100 3 (ex_hdr 10) 14 nil [ECtxDone] = Some (RErr ECtx).
Proof. vm_compute. reflexivity. Qed.

Print Assumptions C05_waiting_call_is_ended_by_ctx_and_by_stop.
Print Assumptions C05_result_is_final.
Print Assumptions C05_ctx_and_closed_errors_need_their_event.
Print Assumptions chk05m_sound.
Print Assumptions C05_session_uses_only_its_peers.
Print Assumptions C05_blocked_peer_is_not_asked_again.
