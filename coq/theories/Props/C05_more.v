(** C05, audit follow-up — further theorems about Exchange.GetRangeByHeight (Model/Session.v).
    Statements only; proofs are in Proofs/SessionMoreP.v (and Proofs/SessionP.v).

    1. Validate() may PANIC on a header received from a peer ([FValidatePanic] is the answer
       frame carrying such a header). session.processResponses recovers it: the theorems of
       Props/C05.v quantify over ALL frame lists and therefore cover the new frame kind
       ([C05_no_response_can_crash] is restated below for emphasis through
       [C05_validate_panic_never_crashes]); the theorems here say what such a frame does. *)
From GH Require Import Base.Prelude Model.Verify Model.Session Proofs.SessionP Proofs.SessionMoreP.

(** Every panic of Validate is recovered: the whole call - for ALL event lists, verifiers
    (panicking ones included), chunk sizes, peer sets - returns exactly what it returns when
    every frame on which Validate panics is replaced by a frame [sub] that processResponses
    refuses with an ordinary error (a header on which Validate returns an error, an undecodable
    body, an unknown status code, a decode panic). *)
Theorem C05_validate_panics_are_refusals :
  forall drift (tvp : hdr -> hdr -> tvres_p) maxcap per (from : hdr) (to : N) peers (sub : frame) evs,
  process_frames [sub] = inl POther ->
  GetRangeByHeight_p drift tvp maxcap per from to peers (map (calm_event sub) evs) =
  GetRangeByHeight_p drift tvp maxcap per from to peers evs.
Proof. exact validate_panics_are_refusals. Qed.

(** An answer with a Validate panic among the frames that are read (sendMessage reads at most
    Amount frames) is a failed request - never a delivered chunk, never a crash - whatever the
    other frames, the verifier and the clock are. *)
Theorem C05_validate_panic_fails_the_answer :
  forall now drift (tvp : hdr -> hdr -> tvres_p) (from : hdr) (r : req) (fs : list frame),
  In FValidatePanic (takeN (r_amount r) fs) ->
  exists e, do_request_p now drift tvp from r fs = DErr e.
Proof. exact validate_panic_fails_the_answer. Qed.

(** "no peer response can crash the client", for event lists in which Validate panics: the
    instance of C05_no_response_can_crash (which holds for all event lists) *)
Theorem C05_validate_panic_never_crashes :
  forall drift (tvp : hdr -> hdr -> tvres_p) maxcap per (from : hdr) (to : N) peers evs,
  h_nil from = false -> h_height from < two64 -> to < two64 -> 1 <= per ->
  to - (h_height from + 1) <= maxcap ->
  (exists p now fs, In (ERespond p now fs) evs /\ In FValidatePanic fs) ->
  GetRangeByHeight_p drift tvp maxcap per from to peers evs <> Some RPanic.
Proof. exact validate_panic_never_crashes. Qed.

(** non-vacuity: peer 0 answers with a header on which Validate panics in second position; the
    request is asked again and served by peer 1 *)
Example C05_validate_panic_in_chunk_is_recovered :
  GetRangeByHeight_p 0%Z ex_tvp 100 3 (ex_hdr 10) 14 [0; 1]
    [EDispatch 0 (Req 11 3); ERespond 0 5%Z [FHdr (ex_hdr 11); FValidatePanic; FHdr (ex_hdr 13)];
     EDispatch 1 (Req 11 3); ERespond 1 5%Z [FHdr (ex_hdr 11); FHdr (ex_hdr 12); FHdr (ex_hdr 13)]]
  = Some (ROk [ex_hdr 11; ex_hdr 12; ex_hdr 13]).
Proof. vm_compute. reflexivity. Qed.

(** ... and a Validate panic beyond the frames that are read is never seen *)
Example C05_validate_panic_beyond_amount_is_not_read :
  GetRangeByHeight_p 0%Z ex_tvp 100 3 (ex_hdr 10) 14 [0]
    [EDispatch 0 (Req 11 3); ERespond 0 5%Z [FHdr (ex_hdr 11); FHdr (ex_hdr 12); FHdr (ex_hdr 13); FValidatePanic]]
  = Some (ROk [ex_hdr 11; ex_hdr 12; ex_hdr 13]).
Proof. vm_compute. reflexivity. Qed.

Print Assumptions C05_validate_panics_are_refusals.
Print Assumptions C05_validate_panic_fails_the_answer.
Print Assumptions C05_validate_panic_never_crashes.
