(** C11 — Subscriber delivers/relays a gossip message only if it decodes and verifies.
    Statements only; proofs live in Proofs/SubscriberP.v.

    Quantified over: every message ([m]: ValidatorData nil / a header / a foreign
    value, crossed with every decode outcome of the bytes: header, error, panic),
    every Validate ([val], per header: nil / error / panic), every verifier
    ([ver], per header: nil / any error, given by its Unwrap chain / panic) and
    both ways the wait for SetVerifier can end ([w]).

    Vocabulary (Proofs/SubscriberP.v):
      carries m h      : the bytes decode to h (wire) or ValidatorData is the header h (local Broadcast)
      carries_nothing m: undecodable bytes, panic while decoding, or foreign ValidatorData
      soft_error r     : r is an error in which errors.As finds a *VerifyError with SoftFailure
      hard_failure r   : r is a panic or an error that is not a soft_error *)
From GH Require Import Base.Prelude Model.Subscriber Proofs.SubscriberP.

(** Accept — exactly when the message carries a header, Validate passes, a
    verifier was set before the context ended and it returned nil; the accepted
    value is that header. *)
Theorem C11_accept_iff : forall (val : hdr -> valres) (ver : hdr -> verres) (w : waitres) (m : message) (h : hdr),
  r_out (verify_message val ver w m) = SAccept h <->
  (carries m h /\ val h = ValNil /\ w = WaitSet /\ ver h = VerNil).
Proof. exact accept_iff. Qed.

(** Ignore — exactly when a valid header was extracted and either the context
    ended before a verifier was set, or the verifier returned a soft VerifyError
    (bare or wrapped at any depth). *)
Theorem C11_ignore_iff : forall (val : hdr -> valres) (ver : hdr -> verres) (w : waitres) (m : message),
  r_out (verify_message val ver w m) = SIgnore <->
  (exists h, carries m h /\ val h = ValNil /\
             (w = WaitCtxDone \/ (w = WaitSet /\ soft_error (ver h)))).
Proof. exact ignore_iff. Qed.

(** Reject — exactly in the named failure situations: nothing decodable (error
    or panic, foreign ValidatorData), Validate failing or panicking, or the
    verifier panicking or returning any error that is not soft. *)
Theorem C11_reject_iff : forall (val : hdr -> valres) (ver : hdr -> verres) (w : waitres) (m : message),
  r_out (verify_message val ver w m) = SReject <->
  (carries_nothing m \/
   exists h, carries m h /\
             (val h <> ValNil \/ (val h = ValNil /\ w = WaitSet /\ hard_failure (ver h)))).
Proof. exact reject_iff. Qed.

(** ... and that is everything else: Reject iff neither Accept's nor Ignore's condition holds. *)
Theorem C11_reject_otherwise : forall (val : hdr -> valres) (ver : hdr -> verres) (w : waitres) (m : message),
  r_out (verify_message val ver w m) = SReject <->
  (~ (exists h, carries m h /\ val h = ValNil /\ w = WaitSet /\ ver h = VerNil) /\
   ~ (exists h, carries m h /\ val h = ValNil /\
                (w = WaitCtxDone \/ (w = WaitSet /\ soft_error (ver h))))).
Proof. exact reject_otherwise. Qed.

(** The validator never lets a panic out (the deferred recover), whatever
    panics: decoding, the ValidatorData type assertion, Validate, the verifier. *)
Theorem C11_total : forall (val : hdr -> valres) (ver : hdr -> verres) (w : waitres) (m : message),
  r_out (verify_message val ver w m) <> SPanic /\
  ((exists h, r_out (verify_message val ver w m) = SAccept h) \/
   r_out (verify_message val ver w m) = SIgnore \/
   r_out (verify_message val ver w m) = SReject).
Proof. exact total_full. Qed.

(** What a Subscription hands out (NextHeader) is the header the message carries,
    and exists exactly when the accept condition holds; NextHeader's own type
    assertion cannot fail on a delivered message. *)
Theorem C11_delivered_is_decoded : forall (val : hdr -> valres) (ver : hdr -> verres) (w : waitres) (m : message) (x : nhres),
  e_deliver (handle_message val ver w m) = Some x <->
  (exists h, x = NhOk h /\ carries m h /\ val h = ValNil /\ w = WaitSet /\ ver h = VerNil).
Proof. exact deliver_spec. Qed.

(** Relayed exactly when delivered. *)
Theorem C11_relayed_iff : forall (val : hdr -> valres) (ver : hdr -> verres) (w : waitres) (m : message),
  e_relay (handle_message val ver w m) = true <->
  (exists h, carries m h /\ val h = ValNil /\ w = WaitSet /\ ver h = VerNil).
Proof. exact relay_spec. Qed.

(** A soft verifier error (or a verifier not set in time) has no effect at all:
    nothing delivered, nothing relayed, the sender not penalised. *)
Theorem C11_soft_not_penalised : forall (val : hdr -> valres) (ver : hdr -> verres) (w : waitres) (m : message),
  (exists h, carries m h /\ val h = ValNil /\
             (w = WaitCtxDone \/ (w = WaitSet /\ soft_error (ver h)))) ->
  handle_message val ver w m = Eff None false false false.
Proof. exact ignored_effects. Qed.

(** The sender is penalised exactly in the Reject situations. *)
Theorem C11_penalised_iff : forall (val : hdr -> valres) (ver : hdr -> verres) (w : waitres) (m : message),
  e_penalise (handle_message val ver w m) = true <->
  (carries_nothing m \/
   exists h, carries m h /\
             (val h <> ValNil \/ (val h = ValNil /\ w = WaitSet /\ hard_failure (ver h)))).
Proof. exact penalise_spec. Qed.

(** None of this can crash the node: no panic leaves the validator and no
    delivered message makes NextHeader panic. *)
Theorem C11_no_crash : forall (val : hdr -> valres) (ver : hdr -> verres) (w : waitres) (m : message),
  e_crash (handle_message val ver w m) = false /\
  e_deliver (handle_message val ver w m) <> Some NhPanic.
Proof. exact no_crash. Qed.

(** The verifier only ever sees a header that was extracted from the message and
    passed Validate, and only after it was set (order of effects). *)
Theorem C11_verifier_sees_only_valid : forall (val : hdr -> valres) (ver : hdr -> verres) (w : waitres) (m : message) (h : hdr),
  r_vcall (verify_message val ver w m) = Some h <-> (carries m h /\ val h = ValNil /\ w = WaitSet).
Proof. exact vcall_spec. Qed.

(** "The registered verifier" is the first one given to SetVerifier: it alone
    decides, every later SetVerifier is refused; and as long as none is
    registered nothing is accepted and no verifier runs. *)
Theorem C11_first_verifier_wins : forall (val : hdr -> valres) (v : hdr -> verres) (rest : list (hdr -> verres)) (m : message),
  validate_registered val (v :: rest) m = verify_message val v WaitSet m /\
  snd (set_verifiers None (v :: rest)) = true :: map (fun _ => false) rest.
Proof. exact first_verifier_wins. Qed.

Theorem C11_unregistered_never_accepts : forall (val : hdr -> valres) (m : message) (h : hdr),
  r_out (validate_registered val [] m) <> SAccept h /\ r_vcall (validate_registered val [] m) = None.
Proof. exact unregistered_never_accepts. Qed.

(** The recover is load-bearing: these are exactly the inputs on which the body
    of the validator panics (and which the recover turns into Reject). *)
Theorem C11_recover_needed_iff : forall (val : hdr -> valres) (ver : hdr -> verres) (w : waitres) (m : message),
  r_out (verify_body val ver w m) = SPanic <->
  (m_vdata m = VdOther \/ (m_vdata m = VdNone /\ m_decode m = DecPanic) \/
   exists h, carries m h /\ (val h = ValPanic \/ (val h = ValNil /\ w = WaitSet /\ ver h = VerPanic))).
Proof. exact body_panics_iff. Qed.

(** errors.As semantics used above: "soft" is decided by the outermost
    VerifyError of the wrap chain, however deep it is wrapped. *)
Theorem C11_soft_is_outermost_verifyerror : forall (chain : list (option bool)) (s : bool),
  first_verr chain = Some s <->
  (exists pre post, chain = pre ++ Some s :: post /\ Forall (fun x => x = None) pre).
Proof. exact first_verr_spec. Qed.

(** The verdict table, additionally established as a finite sweep by computation
    (3 ValidatorData x 3 decode x 3 Validate x 2 wait x 13 verifier results)
    against the independently written table [spec_verdict]. *)
Theorem C11_table_sweep : forall d dc v w r,
  In d all_vdata -> In dc all_decode -> In v all_val -> In w all_wait -> In r all_ver ->
  r_out (verify_message (fun _ => v) (fun _ => r) w (Msg d dc)) = spec_verdict d dc v w r.
Proof. exact table_sweep. Qed.

(** Non-vacuity: each verdict is reached, including through the panics. *)
Example C11_ex_accept :
  handle_message (fun _ => ValNil) (fun _ => VerNil) WaitSet (Msg VdNone (DecOk ex_h0))
  = Eff (Some (NhOk ex_h0)) true false false.
Proof. reflexivity. Qed.
Example C11_ex_soft_wrapped :
  handle_message (fun _ => ValNil) (fun _ => VerErr [None; None; Some true]) WaitSet (Msg VdNone (DecOk ex_h0))
  = Eff None false false false.
Proof. reflexivity. Qed.
Example C11_ex_hard_wrapping_soft :
  handle_message (fun _ => ValNil) (fun _ => VerErr [Some false; Some true]) WaitSet (Msg VdNone (DecOk ex_h0))
  = Eff None false true false.
Proof. reflexivity. Qed.
Example C11_ex_decode_panic :
  r_out (verify_body (fun _ => ValNil) (fun _ => VerNil) WaitSet (Msg VdNone DecPanic)) = SPanic /\
  handle_message (fun _ => ValNil) (fun _ => VerNil) WaitSet (Msg VdNone DecPanic) = Eff None false true false.
Proof. split; reflexivity. Qed.
Example C11_ex_invalid_before_wait :
  handle_message (fun _ => ValErr) (fun _ => VerNil) WaitCtxDone (Msg VdNone (DecOk ex_h0)) = Eff None false true false.
Proof. reflexivity. Qed.
Example C11_ex_local_broadcast :
  handle_message (fun _ => ValNil) (fun _ => VerNil) WaitSet (Msg (VdHdr ex_h1) DecErr)
  = Eff (Some (NhOk ex_h1)) true false false.
Proof. reflexivity. Qed.

Print Assumptions C11_accept_iff.
Print Assumptions C11_ignore_iff.
Print Assumptions C11_reject_iff.
Print Assumptions C11_reject_otherwise.
Print Assumptions C11_total.
Print Assumptions C11_delivered_is_decoded.
Print Assumptions C11_relayed_iff.
Print Assumptions C11_soft_not_penalised.
Print Assumptions C11_penalised_iff.
Print Assumptions C11_no_crash.
Print Assumptions C11_verifier_sees_only_valid.
Print Assumptions C11_first_verifier_wins.
Print Assumptions C11_unregistered_never_accepts.
Print Assumptions C11_recover_needed_iff.
Print Assumptions C11_soft_is_outermost_verifyerror.
Print Assumptions C11_table_sweep.
