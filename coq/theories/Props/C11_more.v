(** C11, audit follow-up — a gossip message FROM THE WIRE whose header makes Validate() panic.
    Statements only; proofs are in Proofs/SubscriberP.v.

    Model/Subscriber.v already has [ValPanic] as an outcome of Validate (a parameter [val] of
    every theorem of Props/C11.v, so C11_total / C11_no_crash cover it); until now the row
    "no ValidatorData x decodes x Validate panics" was driven only through a typed-nil header on
    the local path. vhdr now scripts it on the wire (flag byte 2), and the theorems below state
    the row explicitly. *)
From GH Require Import Base.Prelude Model.Subscriber Proofs.SubscriberP.

(** a message without ValidatorData (every message from the wire) that decodes to a header on
    which Validate panics is REJECTED - the deferred recover of verifyMessage -, the verifier
    is never called, the message is neither delivered nor relayed, the sender is penalised and
    the process survives: for every verifier and both outcomes of the wait for SetVerifier *)
Theorem C11_wire_validate_panic_is_rejected :
  forall (val : hdr -> valres) (ver : hdr -> verres) (w : waitres) (h : hdr),
  val h = ValPanic ->
  verify_message val ver w (Msg VdNone (DecOk h)) = VmR SReject VdNone None /\
  handle_message val ver w (Msg VdNone (DecOk h)) = Eff None false true false.
Proof. exact wire_validate_panic_is_rejected. Qed.

(** without the recover the same message would kill the process (what the recover is for) *)
Theorem C11_wire_validate_panic_needs_the_recover :
  forall (val : hdr -> valres) (ver : hdr -> verres) (w : waitres) (h : hdr),
  val h = ValPanic ->
  r_out (verify_body val ver w (Msg VdNone (DecOk h))) = SPanic.
Proof. exact wire_validate_panic_needs_recover. Qed.

Print Assumptions C11_wire_validate_panic_is_rejected.
Print Assumptions C11_wire_validate_panic_needs_the_recover.

(** Second follow-up: several Subscribe() calls on the receiving node, some Subscriptions
    cancelled before the message. Delivery is per Subscription: for every validator input
    (message, Validate, verifier, outcome of the wait), every list of Subscriptions - each
    LIVE Subscription's NextHeader yields the accepted header exactly once, and it is the very
    header the validator accepted (never the type-assertion panic); it yields nothing when the
    message is ignored or rejected; a CANCELLED Subscription yields nothing at all. *)
Theorem C11_delivery_is_per_subscription :
  forall (val : hdr -> valres) (ver : hdr -> verres) (w : waitres) (m : message) (subs : list substate),
  Forall2 (fun s d =>
             match s, r_out (verify_message val ver w m) with
             | SubLive, SAccept h => d = [NhOk h]
             | _, _ => d = []
             end) subs (handle_message_subs val ver w m subs).
Proof. exact per_subscription_delivery. Qed.

Theorem C11_no_subscription_panics :
  forall (val : hdr -> valres) (ver : hdr -> verres) (w : waitres) (m : message) (subs : list substate) d,
  In d (handle_message_subs val ver w m subs) -> ~ In NhPanic d.
Proof. exact no_subscription_panics. Qed.

(** non-vacuity: an accepted wire message, two live Subscriptions and a cancelled one *)
Example C11_two_live_one_cancelled :
  handle_message_subs (fun _ => ValNil) (fun _ => VerNil) WaitSet (Msg VdNone (DecOk ex_h1))
                      [SubLive; SubCancelled; SubLive] = [[NhOk ex_h1]; []; [NhOk ex_h1]].
Proof. reflexivity. Qed.

Print Assumptions C11_delivery_is_per_subscription.
Print Assumptions C11_no_subscription_panics.
