(** C11, audit follow-up — a gossip message FROM THE WIRE whose header makes Validate() panic.
    Statements only; proofs are in Proofs/SubscriberP.v.

    Model/Subscriber.v already has [ValPanic] as an outcome of Validate (a parameter [val] of
    every theorem of Props/C11.v, so C11_total / C11_no_crash cover it); until now the row
    "no ValidatorData x decodes x Validate panics" was driven only through a typed-nil header on
    the local path. vhdr now scripts it on the wire (flag byte 2), and the theorems below state
    the row explicitly. *)
From GH Require Import Base.Prelude Model.Subscriber Proofs.SubscriberP.

(** a message without ValidatorData (every message from the wire) that decodes to a header on
    which Validate panics is REJECTED - the deferred recover of verifyMessage -, the verifier
    is never called, the message is neither delivered nor relayed, the sender is penalised and
    the process survives: for every verifier and both outcomes of the wait for SetVerifier *)
Theorem C11_wire_validate_panic_is_rejected :
  forall (val : hdr -> valres) (ver : hdr -> verres) (w : waitres) (h : hdr),
  val h = ValPanic ->
  verify_message val ver w (Msg VdNone (DecOk h)) = VmR SReject VdNone None /\
  handle_message val ver w (Msg VdNone (DecOk h)) = Eff None false true false.
Proof. exact wire_validate_panic_is_rejected. Qed.

(** without the recover the same message would kill the process (what the recover is for) *)
Theorem C11_wire_validate_panic_needs_the_recover :
  forall (val : hdr -> valres) (ver : hdr -> verres) (w : waitres) (h : hdr),
  val h = ValPanic ->
  r_out (verify_body val ver w (Msg VdNone (DecOk h))) = SPanic.
Proof. exact wire_validate_panic_needs_recover. Qed.

Print Assumptions C11_wire_validate_panic_is_rejected.
Print Assumptions C11_wire_validate_panic_needs_the_recover.
