(** C12 — GetByHeight waits for a future height and wakes once that header is stored.

    Statements only; proofs live in Proofs/HeightSubP.v. The object quantified
    over is every schedule [sched : list event] of the small-step model
    Model/HeightSub.v: any number of GetByHeight callers (requested heights
    [ns]), the flush goroutine, any batches (contiguous, gapped, out of order,
    repeated) entering the writes channel at any time ([Enq]), any context
    cancellations ([Cancel]), interleaved in any order at the granularity of
    the code's synchronisation points (store at 33d75f6: pending.Append before ensureInit; WaitFor
    looks the height up again after registering); from every well-formed started store
    ([hd], [tl] = Head/Tail pointers, [m] = stored headers, [q] = batches
    already queued). A reader is addressed by its index i; [r_n r] is the
    height it asked for. *)
From GH Require Import Base.Prelude Model.HeightSub Proofs.HeightSubP.

(** A returned header is a header that was handed to the store for exactly the requested height. *)
Theorem C12_result_is_the_header :
  forall (hd tl : option hid) (m : list hid) (ns : list N) (q : list (list hid)) (sched : list event)
         (i : nat) (r : reader) (id : N),
  nth_error (st_readers (run sched (init hd tl m ns q))) i = Some r ->
  r_pc r = RDone (RFound id) ->
  In (r_n r, id) (appended_init hd tl m q ++ enqueued sched).
Proof. exact result_is_the_header. Qed.

(** "blocks until": whenever a call has returned, it returned the stored header, or ErrNotFound
    with the height at or below Height(), or its context's error after its context ended
    (or the zero-height error): it never returns early with anything else. *)
Theorem C12_blocks_until_stored_or_cancelled :
  forall hd tl m ns q sched i r x, wf_init hd tl m ->
  nth_error (st_readers (run sched (init hd tl m ns q))) i = Some r ->
  r_pc r = RDone x ->
  nth_error ns i = Some (r_n r) /\
  match x with
  | RFound id => In (r_n r, id) (appended_init hd tl m q ++ enqueued sched)
  | RNotFound => r_n r <= st_hsh (run sched (init hd tl m ns q))
  | RCtx => cancelled_in sched i = true
  | RZero => r_n r = 0
  end.
Proof. exact returns_only_when_due. Qed.

(** ErrNotFound is returned only if, at an instant between the call's first step and its return,
    Height() had reached the requested height and the header was absent -- namely at the instant of
    the call's final lookup. In particular a lookup that missed BEFORE Height() reached n is never
    what the call answers with: it looks again. *)
Theorem C12_notfound_only_when_absent :
  forall hd tl m ns q sched i r, wf_init hd tl m ->
  nth_error (st_readers (run sched (init hd tl m ns q))) i = Some r -> r_pc r = RDone RNotFound ->
  exists k, (first_own sched i <= k < length sched)%nat /\
            let sk := run (firstn k sched) (init hd tl m ns q) in
            r_n r <= st_hsh sk /\ lookup sk (r_n r) = None /\
            (exists rk, nth_error (st_readers sk) i = Some rk /\ r_pc rk = RLookup2).
Proof. exact notfound_only_when_absent. Qed.

(** ... hence: a height that is stored at an instant at which the call has not returned yet is
    never answered with ErrNotFound, however the append interleaved with the call's lookups. *)
Theorem C12_stored_before_return_is_not_notfound :
  forall hd tl m ns q sched1 sched2 i r, wf_init hd tl m ->
  let s := run sched1 (init hd tl m ns q) in
  nth_error (st_readers s) i = Some r -> (forall x, r_pc r <> RDone x) -> lookup s (r_n r) <> None ->
  exists r', nth_error (st_readers (run sched2 s)) i = Some r' /\ r_pc r' <> RDone RNotFound.
Proof. exact stored_before_return. Qed.

(** No lost wake-up, at full strength: in every reachable state in which every flush has finished,
    no call for a height that was handed to Append -- adjacent to Head or not, appended before,
    during or after the call's lookups, in any interleaving -- is blocked in WaitFor's select. *)
Theorem C12_no_lost_wakeup :
  forall hd tl m ns q sched i r, wf_init hd tl m ->
  let s := run sched (init hd tl m ns q) in
  nth_error (st_readers s) i = Some r ->
  writer_idle s = true -> In (r_n r) (map fst (concat q ++ enqueued sched)) ->
  blocked r = false.
Proof. exact no_lost_wakeup. Qed.

(** ... and it returns: once the flush that appended height n has passed Notify (in particular once
    it has finished, [C12_flushed_is_notified]), a call for n has returned after seven of its own
    steps, whatever all other threads do meanwhile -- with a result other than ErrNotFound (so, by
    [C12_blocks_until_stored_or_cancelled], the header, or its context's error if that ended). *)
Theorem C12_appended_returns :
  forall hd tl m ns q sched1 sched2 i r, wf_init hd tl m ->
  let s := run sched1 (init hd tl m ns q) in
  nth_error (st_readers s) i = Some r -> In (r_n r) (st_notified s) ->
  (7 <= rd_count sched2 i)%nat ->
  exists r' x, nth_error (st_readers (run sched2 s)) i = Some r' /\ r_pc r' = RDone x /\
               (x = RNotFound -> r_pc r = RDone RNotFound).
Proof. exact appended_returns. Qed.

Theorem C12_flushed_is_notified :
  forall hd tl m ns q sched n,
  let s := run sched (init hd tl m ns q) in
  writer_idle s = true -> In n (map fst (concat q ++ enqueued sched)) -> In n (st_notified s).
Proof. exact flushed_is_notified. Qed.

(** Who may still wait: between flushes, a registered waiter asked for a height above Height(),
    and Height() is Head's height -- a call waits only for heights the store does not have yet. *)
Theorem C12_waits_only_above_height :
  forall hd tl m ns q sched i r, wf_init hd tl m ->
  let s := run sched (init hd tl m ns q) in
  nth_error (st_readers s) i = Some r -> parked r = true -> st_w s = WIdle ->
  st_hsh s < r_n r /\ st_hsh s = hsh_of (st_head s).
Proof. exact waiter_above_height. Qed.

(** A reader that is registered when the flush reaches Notify for a batch containing its height
    is woken by that Notify -- contiguous or not -- and never waits again. *)
Theorem C12_registered_first_woken :
  forall hd tl m ns q sched1 sched2 i r hs, wf_init hd tl m ->
  let s1 := run sched1 (init hd tl m ns q) in
  st_w s1 = WNotify hs -> nth_error (st_readers s1) i = Some r -> parked r = true ->
  In (r_n r) (map fst hs) ->
  exists r', nth_error (st_readers (run (sched1 ++ Wr :: sched2) (init hd tl m ns q))) i = Some r' /\
             past (r_pc r').
Proof. exact registered_first_woken. Qed.

(** At or below Height(): a call that has not yet entered Wait's select when Height() >= n never
    parks, and has returned after three of its own steps, whatever the others do; with
    ErrNotFound only if the height was not stored when Height() was seen. *)
Theorem C12_below_height_prompt_notfound :
  forall hd tl m ns q sched1 sched2 i r, wf_init hd tl m ->
  let s := run sched1 (init hd tl m ns q) in
  nth_error (st_readers s) i = Some r ->
  (r_pc r = RStart \/ r_pc r = RCheck1 \/ r_pc r = RLocked) ->
  r_n r <> 0 -> r_n r <= st_hsh s ->
  exists r', nth_error (st_readers (run sched2 s)) i = Some r' /\
    (forall ph sig, r_pc r' <> RWait ph sig) /\
    ((3 <= rd_count sched2 i)%nat -> r_pc r' = RDone RNotFound \/ exists id, r_pc r' = RDone (RFound id)) /\
    (lookup s (r_n r) <> None -> r_pc r' <> RDone RNotFound).
Proof. exact below_height_prompt. Qed.

(** A cancelled context always releases the caller: from ANY state, after Cancel i, seven steps of
    reader i suffice for it to have returned, whatever every other thread does in between. *)
Theorem C12_cancel_releases :
  forall (s : state) (i : nat) (sched : list event),
  (i < length (st_readers s))%nat -> (7 <= rd_count sched i)%nat ->
  exists r' x, nth_error (st_readers (run (Cancel i :: sched) s)) i = Some r' /\ r_pc r' = RDone x.
Proof. exact cancel_releases. Qed.

(** Other waiters: any step of reader i (in particular its cancellation, or its de-registration
    after the re-lookup, with the notify(n,false) that follows) leaves every other reader's record
    exactly as it was -- still waiting, to be woken as the theorems above say -- except that it may
    close the sub they wait on when the header of that height is already stored (they then
    return it). *)
Theorem C12_other_waiters_unaffected :
  forall hd tl m ns q sched e i j rj, wf_init hd tl m -> i <> j ->
  (e = Rd i \/ e = RdCtx i \/ e = Cancel i) ->
  let s := run sched (init hd tl m ns q) in
  nth_error (st_readers s) j = Some rj ->
  nth_error (st_readers (step s e)) j = Some rj \/
  (parked rj = true /\ nth_error (st_readers (step s e)) j = Some (sig_of rj) /\ lookup s (r_n rj) <> None).
Proof. exact other_waiters_unaffected. Qed.

(** nextHead's fuel is never exhausted: it stops at a missing height. *)
Theorem C12_advance_head_complete :
  forall s cur, st_head s = Some cur -> lookup s (fst (adv_up s (fuel_of s) cur) + 1) = None.
Proof. exact adv_up_complete. Qed.

(** non-vacuity: a parked reader is woken by a contiguous append and returns the header *)
Example C12_example_woken :
  let s := run ([Enq [(1, 1)]] ++ repeat Wr 12 ++ repeat (Rd 0) 6 ++ [Enq [(2, 7)]] ++ repeat Wr 12 ++ [Rd 0; Rd 0])
               (init None None [] [2] []) in
  option_map r_pc (nth_error (st_readers s) 0) = Some (RDone (RFound 7)) /\ st_hsh s = 2.
Proof. vm_compute. auto. Qed.

(** the schedule that lost the wake-up before 33d75f6 (former C12_no_lost_wakeup_refuted, finding F5):
    Head = 1; the reader for 3 does its first lookup; [3] is appended and flushed (Notify(3) finds
    no sub; Head stays 1); the reader registers -- and now looks again, finds 3, returns it *)
Example C12_example_former_lost_wakeup :
  let s := run lost_wakeup_sched (init None None [] [3] []) in
  option_map r_pc (nth_error (st_readers s) 0) = Some (RDone (RFound 3)) /\ st_hsh s = 1 /\ st_subs s = [].
Proof. vm_compute. auto. Qed.

(** non-vacuity: the hypotheses of C12_registered_first_woken are met by a gapped append *)
Example C12_example_registered_first :
  let s1 := run ([Enq [(1, 1)]] ++ repeat Wr 12 ++ repeat (Rd 0) 4 ++ [Enq [(3, 9)]; Wr; Wr; Wr]) (init None None [] [3] []) in
  st_w s1 = WNotify [(3, 9)] /\ option_map r_pc (nth_error (st_readers s1) 0) = Some (RWait PSelect false).
Proof. vm_compute. auto. Qed.

(** non-vacuity: at or below Height() and not stored *)
Example C12_example_below :
  let s := run ([Enq [(5, 5)]] ++ repeat Wr 12 ++ repeat (Rd 0) 3) (init None None [] [3] []) in
  option_map r_pc (nth_error (st_readers s) 0) = Some (RDone RNotFound) /\ st_hsh s = 5.
Proof. vm_compute. auto. Qed.

Print Assumptions C12_result_is_the_header.
Print Assumptions C12_blocks_until_stored_or_cancelled.
Print Assumptions C12_notfound_only_when_absent.
Print Assumptions C12_stored_before_return_is_not_notfound.
Print Assumptions C12_no_lost_wakeup.
Print Assumptions C12_appended_returns.
Print Assumptions C12_flushed_is_notified.
Print Assumptions C12_waits_only_above_height.
Print Assumptions C12_registered_first_woken.
Print Assumptions C12_below_height_prompt_notfound.
Print Assumptions C12_cancel_releases.
Print Assumptions C12_other_waiters_unaffected.
Print Assumptions C12_advance_head_complete.
