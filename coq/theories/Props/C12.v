(** C12 — GetByHeight waits for a future height and wakes once that header is stored.

    Statements only; proofs live in Proofs/HeightSubP.v. The object quantified
    over is every schedule [sched : list event] of the small-step model
    Model/HeightSub.v: any number of GetByHeight callers (requested heights
    [ns]), the flush goroutine, any batches (contiguous, gapped, out of order,
    repeated) entering the writes channel at any time ([Enq]), any context
    cancellations ([Cancel]), interleaved in any order at the granularity of
    the code's synchronisation points; from every well-formed started store
    ([hd], [tl] = Head/Tail pointers, [m] = stored headers, [q] = batches
    already queued). A reader is addressed by its index i; [r_n r] is the
    height it asked for. *)
From GH Require Import Base.Prelude Model.HeightSub Proofs.HeightSubP.

(** A returned header is a header that was handed to the store for exactly the requested height. *)
Theorem C12_result_is_the_header :
  forall (hd tl : option hid) (m : list hid) (ns : list N) (q : list (list hid)) (sched : list event)
         (i : nat) (r : reader) (id : N),
  nth_error (st_readers (run sched (init hd tl m ns q))) i = Some r ->
  r_pc r = RDone (RFound id) ->
  In (r_n r, id) (appended_init hd tl m q ++ enqueued sched).
Proof. exact result_is_the_header. Qed.

(** "blocks until": whenever a call has returned, it returned the stored header, or ErrNotFound
    with the height at or below Height(), or its context's error after its context ended
    (or the zero-height error): it never returns early with anything else. *)
Theorem C12_blocks_until_stored_or_cancelled :
  forall hd tl m ns q sched i r x, wf_init hd tl m ->
  nth_error (st_readers (run sched (init hd tl m ns q))) i = Some r ->
  r_pc r = RDone x ->
  nth_error ns i = Some (r_n r) /\
  match x with
  | RFound id => In (r_n r, id) (appended_init hd tl m q ++ enqueued sched)
  | RNotFound => r_n r <= st_hsh (run sched (init hd tl m ns q))
  | RCtx => cancelled_in sched i = true
  | RZero => r_n r = 0
  end.
Proof. exact returns_only_when_due. Qed.

(** No lost wake-up, exactly as far as it holds. In every reachable state, for a reader that is
    parked (in Wait's select, its sub not closed):
    (1) when the flush goroutine is between flushes, Height() is below the requested height and
        Height() = Head's height -- i.e. once Head has reached n nobody waits for n;
    (2) when every flush has finished and the requested height was appended, the reader
        registered only after Notify had already announced that height ([r_late], a ghost flag
        set at registration). Together: the ONLY reader still blocked on a stored header is one
        for a height above Head (not contiguous) whose registration came after the Notify.

    The full statement
      forall ... , writer_idle s = true -> In (r_n r) (map fst (concat q ++ enqueued sched)) ->
                   r_pc r <> RParked false
    is FALSE of the current code: see [C12_no_lost_wakeup_refuted] (known finding F5). *)
Theorem C12_no_lost_wakeup_partial :
  forall hd tl m ns q sched i r, wf_init hd tl m ->
  let s := run sched (init hd tl m ns q) in
  nth_error (st_readers s) i = Some r -> r_pc r = RParked false ->
  (st_w s = WIdle -> st_hsh s < r_n r /\ st_hsh s = hsh_of (st_head s)) /\
  (writer_idle s = true -> In (r_n r) (map fst (concat q ++ enqueued sched)) -> r_late r = true).
Proof. exact no_lost_wakeup_precise. Qed.

(** A reader that is registered when the flush reaches Notify for a batch containing its height
    is woken by that Notify -- contiguous or not -- and never parks again. *)
Theorem C12_no_lost_wakeup_registered_first :
  forall hd tl m ns q sched1 sched2 i r hs, wf_init hd tl m ->
  let s1 := run sched1 (init hd tl m ns q) in
  st_w s1 = WNotify hs -> nth_error (st_readers s1) i = Some r -> r_pc r = RParked false ->
  In (r_n r) (map fst hs) ->
  exists r', nth_error (st_readers (run (sched1 ++ Wr :: sched2) (init hd tl m ns q))) i = Some r' /\
             past (r_pc r').
Proof. exact no_lost_wakeup_registered_first. Qed.

(** The lost wake-up (F5): Head = 1; the reader for 3 does its first lookup; [3] is appended and
    flushed (Notify(3) finds no sub; head stays 1); the reader registers and parks. The final
    state has the header stored, every flush finished, the reader parked and not cancelled, and
    no step of any thread changes it: only a cancellation or a further Append can. *)
Theorem C12_no_lost_wakeup_refuted :
  exists sched ns, let s := run sched (init None None [] ns []) in
    writer_idle s = true /\ In 3 (map fst (enqueued sched)) /\ lookup s 3 <> None /\
    (exists r, nth_error (st_readers s) 0 = Some r /\ r_n r = 3 /\ r_pc r = RParked false /\ r_cancel r = false) /\
    (forall e, (forall j, e <> Cancel j) -> (forall hs, e <> Enq hs) -> step s e = s).
Proof. exact no_lost_wakeup_refuted. Qed.

(** At or below Height(): a call that has not yet entered Wait's select when Height() >= n never
    parks, and has returned after three of its own steps, whatever the others do; with
    ErrNotFound only if the height was not stored when Height() was seen. *)
Theorem C12_below_height_prompt_notfound :
  forall hd tl m ns q sched1 sched2 i r, wf_init hd tl m ->
  let s := run sched1 (init hd tl m ns q) in
  nth_error (st_readers s) i = Some r ->
  (r_pc r = RStart \/ r_pc r = RCheck1 \/ r_pc r = RLocked) ->
  r_n r <> 0 -> r_n r <= st_hsh s ->
  exists r', nth_error (st_readers (run sched2 s)) i = Some r' /\
    (forall sig, r_pc r' <> RParked sig) /\
    ((3 <= rd_count sched2 i)%nat -> r_pc r' = RDone RNotFound \/ exists id, r_pc r' = RDone (RFound id)) /\
    (lookup s (r_n r) <> None -> r_pc r' <> RDone RNotFound).
Proof. exact below_height_prompt. Qed.

(** A cancelled context always releases the caller: from ANY state, after Cancel i, five steps of
    reader i suffice for it to have returned, whatever every other thread does in between. *)
Theorem C12_cancel_releases :
  forall (s : state) (i : nat) (sched : list event),
  (i < length (st_readers s))%nat -> (5 <= rd_count sched i)%nat ->
  exists r' x, nth_error (st_readers (run (Cancel i :: sched) s)) i = Some r' /\ r_pc r' = RDone x.
Proof. exact cancel_releases. Qed.

(** Other waiters: any step of reader i (in particular its cancellation and the notify(n,false)
    that follows) leaves every other reader's record exactly as it was -- still parked, to be
    woken as the theorems above say -- except that it may close the sub they wait on when the
    header of that height is already stored (they then return it). *)
Theorem C12_other_waiters_unaffected :
  forall hd tl m ns q sched e i j rj, wf_init hd tl m -> i <> j ->
  (e = Rd i \/ e = RdCtx i \/ e = Cancel i) ->
  let s := run sched (init hd tl m ns q) in
  nth_error (st_readers s) j = Some rj ->
  nth_error (st_readers (step s e)) j = Some rj \/
  (r_pc rj = RParked false /\ nth_error (st_readers (step s e)) j = Some (sig_of rj) /\ lookup s (r_n rj) <> None).
Proof. exact other_waiters_unaffected. Qed.

(** nextHead's fuel is never exhausted: it stops at a missing height. *)
Theorem C12_advance_head_complete :
  forall s cur, st_head s = Some cur -> lookup s (fst (adv_up s (fuel_of s) cur) + 1) = None.
Proof. exact adv_up_complete. Qed.

(** non-vacuity: a parked reader is woken by a contiguous append and returns the header *)
Example C12_example_woken :
  let s := run ([Enq [(1, 1)]] ++ repeat Wr 10 ++ repeat (Rd 0) 4 ++ [Enq [(2, 7)]] ++ repeat Wr 10 ++ [Rd 0; Rd 0])
               (init None None [] [2] []) in
  option_map r_pc (nth_error (st_readers s) 0) = Some (RDone (RFound 7)) /\ st_hsh s = 2.
Proof. vm_compute. auto. Qed.

(** non-vacuity: the hypotheses of C12_no_lost_wakeup_registered_first are met by a gapped append *)
Example C12_example_registered_first :
  let s1 := run ([Enq [(1, 1)]] ++ repeat Wr 10 ++ repeat (Rd 0) 4 ++ [Enq [(3, 9)]; Wr; Wr]) (init None None [] [3] []) in
  st_w s1 = WNotify [(3, 9)] /\ option_map r_pc (nth_error (st_readers s1) 0) = Some (RParked false).
Proof. vm_compute. auto. Qed.

(** non-vacuity: at or below Height() and not stored *)
Example C12_example_below :
  let s := run ([Enq [(5, 5)]] ++ repeat Wr 10 ++ repeat (Rd 0) 3) (init None None [] [3] []) in
  option_map r_pc (nth_error (st_readers s) 0) = Some (RDone RNotFound) /\ st_hsh s = 5.
Proof. vm_compute. auto. Qed.

Print Assumptions C12_result_is_the_header.
Print Assumptions C12_blocks_until_stored_or_cancelled.
Print Assumptions C12_no_lost_wakeup_partial.
Print Assumptions C12_no_lost_wakeup_registered_first.
Print Assumptions C12_no_lost_wakeup_refuted.
Print Assumptions C12_below_height_prompt_notfound.
Print Assumptions C12_cancel_releases.
Print Assumptions C12_other_waiters_unaffected.
Print Assumptions C12_advance_head_complete.
