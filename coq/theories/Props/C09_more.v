(** C09, extension: every answer is judged at ITS OWN arrival time (header.Verify
    reads time.Now once per call, in the per-peer goroutine), and a peer's answer
    is a stream of frames of which the client reads exactly one.
    Statements only; the proofs are in Proofs/HeadQuorumP.v (section 7). *)
From GH Require Import Base.Prelude Model.Verify Model.HeadQuorum Proofs.HeadQuorumP.
From Coq Require Import Permutation Arith.
Local Open Scope nat_scope.

(** the model with one clock reading per Head call is the special case of the
    timed model in which every answer arrives at the same instant *)
Theorem C09_single_clock_special_case :
  forall (drift : Z) (tv : hdr -> hdr -> tvres) (want : option N) (t : hdr) (now : Z) (n : nat) (resps : list resp),
  Head now drift tv want t n resps = HeadT drift tv want t n (map (pair now) resps).
Proof. exact Head_is_HeadT. Qed.

(** trusted-head soundness per answer, for EVERY number of asked peers and
    EVERY list of timed answers [(arrival clock reading, what the stream
    yielded)] in arrival order: a returned header was supplied by a peer,
    passed Validate and the chain-id check, and with a trusted head [t]
    - it did not hard-fail Verify AT THE ARRIVAL TIME of one of its arrivals,
    - a nil error means Verify accepted it at the arrival time of one of its arrivals,
    - an error is a SoftFailure VerifyError: the verdict, computed at that
      answer's own arrival time, of an answer with the same hash;
    - when hashes identify headers among the answers, that answer is the
      returned header itself, and EVERY arrival of the returned header either
      hard-failed at its own arrival time (and was not counted) or got exactly
      the returned verdict;
    without a trusted head the error is nil. *)
Theorem C09_trusted_head_sound_per_answer :
  forall (drift : Z) (tv : hdr -> hdr -> tvres) (want : option N) (t : hdr)
         (n : nat) (resps : list (Z * resp)) (h : hdr) (e : option verr),
  length resps <= n -> In (OHead h e) (snd (HeadT drift tv want t n resps)) ->
  h_nil h = false /\ h_ok h = true /\ chain_ok want h = true /\
  (exists now, In (now, RGot h) resps /\
     (h_nil t = false -> forall v, Verify now drift tv t h = Some v -> ve_soft v = true)) /\
  (h_nil t = true -> e = None) /\
  (h_nil t = false ->
   (e = None -> exists now, In (now, RGot h) resps /\ Verify now drift tv t h = None) /\
   (forall v, e = Some v -> ve_soft v = true /\
      exists now h', In (now, RGot h') resps /\ h_id h' = h_id h /\ Verify now drift tv t h' = Some v) /\
   (hash_inj (map snd resps) ->
      (forall v, e = Some v -> exists now, In (now, RGot h) resps /\ Verify now drift tv t h = Some v) /\
      (forall now, In (now, RGot h) resps ->
         (exists v, Verify now drift tv t h = Some v /\ ve_soft v = false) \/ Verify now drift tv t h = e))).
Proof. exact head_returned_sound_t. Qed.

(** the clock can only turn a verdict into the hard from-future failure: two
    readings at which a header does not hard-fail give it the same verdict (so
    "the" soft error of a hash is well defined although answers arrive at
    different times) *)
Theorem C09_verdict_time_independent_unless_hard :
  forall (drift : Z) (tv : hdr -> hdr -> tvres) (t : hdr) (now1 now2 : Z) (h : hdr),
  (forall v, Verify now1 drift tv t h = Some v -> ve_soft v = true) ->
  (forall v, Verify now2 drift tv t h = Some v -> ve_soft v = true) ->
  Verify now1 drift tv t h = Verify now2 drift tv t h.
Proof. exact verify_not_hard_time_indep. Qed.

(** over-long answers: sendMessage reads at most Amount = 1 frames, so Head on
    the peers' streams is Head on their first frames; a stream without a frame
    is a failed request *)
Theorem C09_overlong_first_frame_only :
  forall (drift : Z) (tv : hdr -> hdr -> tvres) (want : option N) (t : hdr) (n : nat) (arr : list (Z * list resp)),
  HeadF drift tv want t n arr = HeadF drift tv want t n (map (fun x => (fst x, read_frames 1 (snd x))) arr) /\
  (forall r rest, head_frame (r :: rest) = r) /\ head_frame [] = RFail.
Proof. intros. split; [apply HeadF_first_frame_only | split; [exact head_frame_cons | exact head_frame_nil]]. Qed.

(** the allowed outcomes are a function of the multiset of timed answers *)
Theorem C09_permutation_closed_timed :
  forall (drift : Z) (tv : hdr -> hdr -> tvres) (want : option N) (t : hdr)
         (n : nat) (resps resps' : list (Z * resp)),
  Permutation resps resps' -> length resps <= n -> hash_inj (map snd resps) ->
  forall o, In o (snd (HeadT drift tv want t n resps)) <-> In o (snd (HeadT drift tv want t n resps')).
Proof. exact head_permutation_closed_t. Qed.

(** non-vacuity: trusted head at height 10, time 0; drift 10; the header [exE]
    (height 12, timestamp 105) is from the future until the clock reads 95 *)
Definition exT : hdr := Hdr false 1 10 0%Z 99 0 true.
Definition exE : hdr := Hdr false 1 12 105%Z 1 0 true.
Definition exB : hdr := Hdr false 1 12 5%Z 2 0 true.
Definition exO : hdr := Hdr false 2 12 5%Z 3 0 true.   (* another chain *)
Definition tv_ok (_ _ : hdr) : tvres := TVOk.

(* three peers (quorum 2) all send exE: the arrival at 90 is not counted, those at 95 and 100 are;
   with a single clock reading 90 for the call nothing would be returned, with 100 the second answer would decide *)
Example C09_ex_timed :
  HeadT 10 tv_ok None exT 3 [(90, RGot exE); (95, RGot exE); (100, RGot exE)]%Z = (3, [OHead exE None]) /\
  Head 90 10 tv_ok None exT 3 [RGot exE; RGot exE; RGot exE] = (3, [ONotFound]) /\
  Head 100 10 tv_ok None exT 3 [RGot exE; RGot exE; RGot exE] = (2, [OHead exE None]) /\
  Verify 90 10 tv_ok exT exE = Some (VErr (RSent EFuture) false) /\ Verify 95 10 tv_ok exT exE = None.
Proof. vm_compute. repeat split. Qed.

(* the hypotheses of the per-answer theorem are satisfiable with a trusted head and a returned header *)
Example C09_ex_timed_hyps :
  length [(90, RGot exE); (95, RGot exE); (100, RGot exE)]%Z <= 3 /\
  In (OHead exE None) (snd (HeadT 10 tv_ok None exT 3 [(90, RGot exE); (95, RGot exE); (100, RGot exE)]%Z)) /\
  h_nil exT = false.
Proof. vm_compute. repeat split; auto. Qed.

(* over-long answers: the second frame is never read; a trusted head on another
   chain than the configured chain id: nothing can pass both checks *)
Example C09_ex_frames_and_chains :
  HeadF 10 tv_ok None exT 2 [(0, [RGot exB; RGot exE]); (0, [RGot exB; RFail])]%Z = (2, [OHead exB None]) /\
  HeadF 10 tv_ok None exT 2 [(0, [RFail; RGot exB]); (0, [])]%Z = (2, [ONotFound]) /\
  HeadT 10 tv_ok (Some 1%N) (Hdr false 2 10 0%Z 98 0 true) 2 [(0, RGot exB); (0, RGot exO)]%Z = (2, [ONotFound]) /\
  HeadT 10 tv_ok None (Hdr false 2 10 0%Z 98 0 true) 2 [(0, RGot exB); (0, RGot exO)]%Z = (2, [OHead exO None]).
Proof. vm_compute. repeat split. Qed.

Print Assumptions C09_single_clock_special_case.
Print Assumptions C09_trusted_head_sound_per_answer.
Print Assumptions C09_verdict_time_independent_unless_hard.
Print Assumptions C09_overlong_first_frame_only.
Print Assumptions C09_permutation_closed_timed.
