(** C13, audit follow-up — Exchange.Get / GetByHeight when the header type's Validate() PANICS.
    Statements only; proofs are in Proofs/RequestP.v.

    The codec parameter [decode : B -> dres] of Model/Request.v has a fourth outcome
    [DValPanic]: the body decodes and Validate() on the decoded header panics (inside the
    package-level processResponses, which has no recover; Exchange.request's deferred recover
    turns it into the error EPanic). All theorems of Props/C13.v quantify over every [decode]
    and therefore hold for codecs with this outcome as well (C13_total: no panic reaches the
    caller); the theorems below say what such a body does. *)
From GH Require Import Base.Prelude Model.Request Proofs.RequestP.

(** a response body on whose header Validate panics is a bad answer like any other (with
    C13_first_valid_wins: the next valid answer still wins; with C13_all_bad_is_error: if it is
    the last arrival its recovered error is returned), for every codec and chain-id folding *)
Theorem C13_validate_panic_is_bad_answer : forall (B : Type) (decode : B -> dres) (fold : N -> N) want f rest e,
  decode (f_body f) = DValPanic ->
  answers_badly B decode fold want (SData (f :: rest) e) /\
  (f_status f = status_OK -> request B decode fold want 1 (SData (f :: rest) e) = Err EPanic).
Proof. exact validate_panic_is_bad. Qed.

(** "no peer response can crash the client", instance of C13_total for event lists that contain
    a body on which Validate panics (any position, any peer, any number of them) *)
Theorem C13_total_validate_panic : forall (B : Type) (decode : B -> dres) (fold : N -> N) want n evs hash height,
  (exists fs e f, In (Arrive (SData fs e)) evs /\ In f fs /\ decode (f_body f) = DValPanic) ->
  get B decode fold want n evs hash <> Panic /\ get_by_height B decode fold want n evs height <> Panic.
Proof. exact total_validate_panic. Qed.

(** non-vacuity: the first arrival carries a header on which Validate panics, the second the
    requested header *)
Example C13_validate_panic_then_honest :
  get dres (fun d => d) (fun c => c / 16) 16 2
    [Arrive (SData [Frame 1%Z DValPanic] EndEOF);
     Arrive (SData [Frame 1%Z (DHdr (Hdr false 17 7 1000%Z 1 2 true))] EndEOF)] 1
  = Ok (Hdr false 17 7 1000%Z 1 2 true) /\
  get dres (fun d => d) (fun c => c / 16) 16 1 [Arrive (SData [Frame 1%Z DValPanic] EndEOF)] 1 = Err EPanic.
Proof. split; vm_compute; reflexivity. Qed.

Print Assumptions C13_validate_panic_is_bad_answer.
Print Assumptions C13_total_validate_panic.
