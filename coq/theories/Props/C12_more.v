(** C12 — further theorems (audit follow-up). Statements only; proofs in Proofs/HeightSubP.v. *)
From GH Require Import Base.Prelude Model.HeightSub Proofs.HeightSubP.

(** "For a height at or below Height() that is not stored it returns ErrNotFound" -- the converse of
    C12_below_height_prompt_notfound: a call that has not yet passed WaitFor's Height() tests when
    Height() >= n, and whose height is absent from the store at every instant of the schedule that
    follows, has returned ErrNotFound after three of its own steps, whatever the other threads do
    (it never parks and never returns anything else). *)
Theorem C12_below_height_absent_is_notfound :
  forall hd tl m ns q sched1 sched2 i r, wf_init hd tl m ->
  let s := run sched1 (init hd tl m ns q) in
  nth_error (st_readers s) i = Some r ->
  (r_pc r = RStart \/ r_pc r = RCheck1 \/ r_pc r = RLocked) ->
  r_n r <> 0 -> r_n r <= st_hsh s ->
  (forall k, (k < length sched2)%nat -> lookup (run (firstn k sched2) s) (r_n r) = None) ->
  (3 <= rd_count sched2 i)%nat ->
  exists r', nth_error (st_readers (run sched2 s)) i = Some r' /\ r_pc r' = RDone RNotFound.
Proof. exact below_height_absent_notfound. Qed.

(** a returned header was seen by one of the call's own lookups at some instant of the schedule *)
Theorem C12_found_was_looked_up :
  forall sched s i r r' id,
  nth_error (st_readers s) i = Some r -> r_pc r <> RDone (RFound id) ->
  nth_error (st_readers (run sched s)) i = Some r' -> r_pc r' = RDone (RFound id) ->
  exists k, (k < length sched)%nat /\ lookup (run (firstn k sched) s) (r_n r) = Some id.
Proof. exact found_witness. Qed.

(** non-vacuity: Head = 5 (first append [5]), a call for 3 while [7] is appended: ErrNotFound *)
Example C12_example_absent :
  let s0 := run ([Enq [(5, 5)]] ++ repeat Wr 12) (init None None [] [3] []) in
  let sched2 := [Rd 0; Enq [(7, 7)]; Wr; Wr; Rd 0; Wr; Wr; Wr; Rd 0] in
  st_hsh s0 = 5 /\ forallb (fun k => match lookup (run (firstn k sched2) s0) 3 with None => true | _ => false end) (seq 0 9) = true /\
  option_map r_pc (nth_error (st_readers (run sched2 s0)) 0) = Some (RDone RNotFound).
Proof. vm_compute. auto. Qed.

Print Assumptions C12_below_height_absent_is_notfound.
Print Assumptions C12_found_was_looked_up.
