(** C04 corollaries in terms of the model's own reads (no specification state). *)
From Coq Require Import NArith List Bool Lia ZifyBool ZifyN ZifyNat.
From stdpp Require Import gmap.
From GH Require Import Base.Prelude Model.Store Model.StoreSpec Oracle.StoreCase.
From GH Require Import Proofs.StoreP Proofs.StoreClimbP Proofs.StoreInvP Proofs.StoreAppendP Proofs.StoreRestartP Proofs.StoreMainP.
Import ListNotations.
Open Scope N_scope.

Section chain.
Context {c : N -> hdr} {U : N} {CH : chain_hyps c U}.
Notation inr := (inr U).
Notation pinv := (pinv c U).
Notation inv := (inv c U).

(** what the relation says about the two pointers *)
Lemma pinv_ptrs s sp : pinv s sp ->
  (headp s = None /\ tailp s = None /\ hsh s = 0 /\ sHT sp = None) \/
  (exists T H, sHT sp = Some (T, H) /\ headp s = Some (c H) /\ tailp s = Some (c T) /\ hsh s = H /\
               inr T /\ inr H /\ T <= H /\ h_height (c T) = T /\ h_height (c H) = H /\
               (forall n, T <= n <= H -> stored s n) /\ ~ stored s (H + 1) /\ ~ stored s (T - 1)).
Proof.
  intros I. pose proof I as [M HS P]. unfold ptrs_core in P.
  destruct (sHT sp) as [[T H]|] eqn:E.
  - right. destruct (inv_TH s sp T H I E) as (HT & HH & Hle). exists T, H.
    destruct P as (P1 & P2 & P3 & P4 & P5 & P6 & P7).
    split_and!; auto; apply (@ch_height c U CH); auto.
  - left. tauto.
Qed.

Lemma tail_le_head s sp : pinv s sp ->
  (headp s = None <-> tailp s = None) /\
  (forall hd tl, headp s = Some hd -> tailp s = Some tl -> 1 <= h_height tl /\ h_height tl <= h_height hd).
Proof.
  intros I. destruct (pinv_ptrs s sp I) as [(E1 & E2 & _)|(T & H & _ & E1 & E2 & _ & HT & HH & Hle & ET & EH & _)].
  - rewrite E1, E2. split; [tauto|]. discriminate.
  - rewrite E1, E2. split; [split; discriminate|]. intros hd tl [= <-] [= <-]. destruct HT. lia.
Qed.

Lemma range_retrievable s sp : pinv s sp ->
  forall hd tl, headp s = Some hd -> tailp s = Some tl ->
  forall n, h_height tl <= n <= h_height hd ->
  get_by_height s n = Found (c n) /\ h_height (c n) = n /\ get s (h_id (c n)) = Found (c n) /\
  has s (h_id (c n)) = true /\ has_at s n = true.
Proof.
  intros I hd tl Hhd Htl n Hn.
  destruct (pinv_ptrs s sp I) as [(E1 & _)|(T & H & _ & E1 & E2 & _ & HT & HH & Hle & ET & EH & St & _)]; [congruence|].
  rewrite E1 in Hhd. rewrite E2 in Htl. injection Hhd as <-. injection Htl as <-. rewrite ET, EH in Hn.
  pose proof (iv_m _ _ _ _ I) as M. pose proof (inv_pstored s sp I) as PS.
  assert (Sn : stored s n) by (apply St; auto).
  assert (Hi : inr n) by (eapply stored_inr; eauto).
  split_and!.
  - apply gbh_stored; auto using pstored_pchain.
  - apply (@ch_height c U CH); auto.
  - apply get_stored; auto.
  - rewrite (has_get s _ M). rewrite get_stored; auto.
  - unfold has_at. rewrite E1, E2, ET, EH. destruct Hi.
    apply andb_true_iff; split; [apply andb_true_iff; split|]; [apply negb_true_iff, N.eqb_neq|apply N.leb_le|apply N.leb_le]; lia.
Qed.

Lemma has_at_iff s sp n : pinv s sp ->
  has_at s n = true <->
  exists hd tl, headp s = Some hd /\ tailp s = Some tl /\ n <> 0 /\ h_height tl <= n <= h_height hd.
Proof.
  intros I. unfold has_at. destruct (headp s) as [hd|]; [destruct (tailp s) as [tl|]|].
  - rewrite !andb_true_iff, negb_true_iff, N.eqb_neq, !N.leb_le. split.
    + intros [[? ?] ?]. exists hd, tl. split_and!; auto.
    + intros (? & ? & [= <-] & [= <-] & ? & ? & ?). auto.
  - split; [discriminate|]. intros (? & ? & _ & ? & _). discriminate.
  - split; [discriminate|]. intros (? & ? & ? & _). discriminate.
Qed.

(** Has, Get by hash and GetByHeight agree on every height of the universe *)
Lemma lookups_agree s sp n : pinv s sp -> inr n ->
  (has s (h_id (c n)) = true <-> get s (h_id (c n)) = Found (c n)) /\
  (get s (h_id (c n)) = Found (c n) <-> get_by_height s n = Found (c n)) /\
  (get s (h_id (c n)) = Found (c n) \/ get s (h_id (c n)) = NotFound).
Proof.
  intros I Hn. pose proof (iv_m _ _ _ _ I) as M. pose proof (inv_pstored s sp I) as PS.
  rewrite (has_get s _ M).
  destruct (stored_dec s n) as [Sn|Sn].
  - rewrite get_stored, gbh_stored; auto using pstored_pchain. tauto.
  - rewrite get_not_stored, gbh_not_stored; auto. split_and!; [split; discriminate| |auto].
    split; [discriminate|]. destruct (n =? 0); [discriminate|]. destruct (n <=? hsh s); discriminate.
Qed.

Lemma height_is_head s sp : pinv s sp ->
  hsh s = match headp s with Some hd => h_height hd | None => 0 end.
Proof.
  intros I. destruct (pinv_ptrs s sp I) as [(E1 & _ & E3 & _)|(T & H & _ & E1 & _ & E3 & _ & _ & _ & _ & EH & _)];
    rewrite E1, E3; auto.
Qed.

(** GetRange returns exactly the requested consecutive chain headers, or an error *)
Lemma get_range_exact s sp from to l : pinv s sp -> get_range s from to = Found l ->
  from < to /\ l = map c (seqN from (N.to_nat (to - from))) /\
  map h_height l = seqN from (N.to_nat (to - from)).
Proof.
  intros I. rewrite (obs_range s sp from to I). unfold spec_range.
  destruct (N.leb_spec to from); [discriminate|].
  destruct (spec_gbh c sp (to - 1)); try discriminate.
  destruct (forallb _ _) eqn:F; [|discriminate]. intros [= <-]. split_and!; auto.
  rewrite map_map. rewrite forallb_forall in F.
  assert (G : forall l', (forall n, In n l' -> inr n) -> map (fun x => h_height (c x)) l' = l').
  { induction l' as [|x l' IH]; intros Hl; cbn; auto. rewrite IH by (intros; apply Hl; right; auto).
    rewrite (@ch_height c U CH) by (apply Hl; left; auto). reflexivity. }
  apply G. intros n Hn. apply F in Hn. apply bool_decide_eq_true in Hn.
  apply (iv_S _ _ _ _ I) in Hn. eapply stored_inr; eauto using iv_m.
Qed.

(** Head is the top and Tail the bottom of the contiguous run *)
Lemma head_is_top s sp : pinv s sp ->
  (forall hd h, headp s = Some hd -> get_by_height s (h_height hd + 1) <> Found h) /\
  (forall tl h, tailp s = Some tl -> get_by_height s (h_height tl - 1) <> Found h).
Proof.
  intros I. pose proof (iv_m _ _ _ _ I) as M. pose proof (inv_pstored s sp I) as PS.
  destruct (pinv_ptrs s sp I) as [(E1 & E2 & _)|(T & H & _ & E1 & E2 & _ & HT & HH & Hle & ET & EH & _ & N1 & N2)].
  - rewrite E1, E2. split; discriminate.
  - rewrite E1, E2. split.
    + intros hd h [= <-]. rewrite EH, gbh_not_stored; auto.
      destruct (_ =? 0); [discriminate|]. destruct (_ <=? _); discriminate.
    + intros tl h [= <-]. rewrite ET, gbh_not_stored; auto.
      destruct (_ =? 0); [discriminate|]. destruct (_ <=? _); discriminate.
Qed.

End chain.

(** the specification's Head never decreases under Append, appended heights are members *)
Lemma spec_append_mem sp ns n : In n ns -> n ∈ sS (spec_append sp ns).
Proof.
  intros Hin. destruct ns as [|n0 ns']; [destruct Hin|]. unfold spec_append.
  destruct (match sHT sp with Some th => th | None => (n0, n0) end) as [T H]. cbn [sS].
  apply elem_of_union_r, elem_of_list_to_set, elem_of_list_In. exact Hin.
Qed.

Section chain3.
Context {c : N -> hdr} {U : N} {CH : chain_hyps c U}.
Notation inr := (inr U).

Theorem appended_readable b ops ns n : Forall (op_ok U) ops -> Forall inr ns -> In n ns ->
  let s := run c (st0 b) (ops ++ [IAppend ns]) in
  get_by_height s n = Found (c n) /\ get s (h_id (c n)) = Found (c n) /\ has s (h_id (c n)) = true.
Proof.
  intros F Fn Hin s.
  assert (F' : Forall (op_ok U) (ops ++ [IAppend ns])) by (apply Forall_app; split; auto).
  destruct (history_inv (c:=c) b _ F') as [I _]. fold s in I.
  assert (Sn : stored s n).
  { apply (iv_S _ _ _ _ I). rewrite run_spec_app. cbn. unfold spec_op. cbn. apply spec_append_mem; auto. }
  pose proof (iv_m _ _ _ _ I) as M. pose proof (inv_pstored s _ I) as PS.
  split_and!.
  - apply gbh_stored; auto using pstored_pchain.
  - apply get_stored; auto.
  - rewrite (has_get s _ M). rewrite get_stored; auto.
Qed.

Theorem append_head_monotone b ops ns hd : Forall (op_ok U) ops -> Forall inr ns ->
  headp (run c (st0 b) ops) = Some hd ->
  exists hd', headp (run c (st0 b) (ops ++ [IAppend ns])) = Some hd' /\ h_height hd <= h_height hd'.
Proof.
  intros F Fn Hhd.
  destruct (history_inv (c:=c) b _ F) as [I _].
  assert (F' : Forall (op_ok U) (ops ++ [IAppend ns])) by (apply Forall_app; split; auto).
  destruct (history_inv (c:=c) b _ F') as [I' _].
  rewrite run_spec_app in I'. cbn in I'. unfold spec_op in I'. cbn in I'.
  set (s := run c (st0 b) ops) in *. set (sp := run_spec spec0 ops) in *.
  set (s' := run c (st0 b) (ops ++ [IAppend ns])) in *.
  destruct (pinv_ptrs s sp I) as [(E1 & _)|(T & H & EHT & E1 & E2 & _ & HT & HH & Hle & ET & EH & _)]; [congruence|].
  rewrite E1 in Hhd. injection Hhd as <-.
  destruct ns as [|n0 ns'].
  { cbn in I'. exists (c H). split; [|lia]. rewrite (obs_head s' sp I'), EHT. reflexivity. }
  unfold spec_append in I'. rewrite EHT in I'.
  set (S' := sS sp ∪ list_to_set (n0 :: ns')) in *.
  rewrite (obs_head s' _ I'). cbn [sHT option_map snd]. eexists. split; [reflexivity|].
  pose proof (@ch_bound c U CH) as Ub.
  assert (SI : forall n, n ∈ S' -> inr n).
  { intros n Hn. apply (iv_S _ _ _ _ I') in Hn. eapply stored_inr; eauto using iv_m. }
  destruct (run_up_spec U Ub S' SI (S (size S')) H) as (A1 & A2 & _); [destruct HH; auto|].
  rewrite EH, (@ch_height c U CH); auto. destruct HH. split; lia.
Qed.

End chain3.

(** ** the corollaries over whole histories *)
Section hist.
Context {c : N -> hdr} {U : N} {CH : chain_hyps c U}.
Notation inr := (inr U).

Lemma hist_pinv b ops : Forall (op_ok U) ops -> pinv c U (run c (st0 b) ops) (run_spec spec0 ops).
Proof. intros F. destruct (history_inv (c:=c) b ops F); auto. Qed.

Theorem hist_tail_le_head b ops : Forall (op_ok U) ops ->
  let s := run c (st0 b) ops in
  (headp s = None <-> tailp s = None) /\
  (forall hd tl, headp s = Some hd -> tailp s = Some tl -> 1 <= h_height tl /\ h_height tl <= h_height hd).
Proof. intros F. exact (tail_le_head _ _ (hist_pinv b ops F)). Qed.

Theorem hist_range_retrievable b ops : Forall (op_ok U) ops ->
  let s := run c (st0 b) ops in
  forall hd tl, headp s = Some hd -> tailp s = Some tl ->
  forall n, h_height tl <= n <= h_height hd ->
  get_by_height s n = Found (c n) /\ h_height (c n) = n /\ get s (h_id (c n)) = Found (c n) /\
  has s (h_id (c n)) = true /\ has_at s n = true.
Proof. intros F. exact (range_retrievable _ _ (hist_pinv b ops F)). Qed.

Theorem hist_has_at_iff b ops n : Forall (op_ok U) ops ->
  let s := run c (st0 b) ops in
  has_at s n = true <->
  exists hd tl, headp s = Some hd /\ tailp s = Some tl /\ n <> 0 /\ h_height tl <= n <= h_height hd.
Proof. intros F. exact (has_at_iff _ _ n (hist_pinv b ops F)). Qed.

Theorem hist_lookups_agree b ops n : Forall (op_ok U) ops -> inr n ->
  let s := run c (st0 b) ops in
  (has s (h_id (c n)) = true <-> get s (h_id (c n)) = Found (c n)) /\
  (get s (h_id (c n)) = Found (c n) <-> get_by_height s n = Found (c n)) /\
  (get s (h_id (c n)) = Found (c n) \/ get s (h_id (c n)) = NotFound).
Proof. intros F Hn. exact (lookups_agree _ _ n (hist_pinv b ops F) Hn). Qed.

Theorem hist_height_is_head b ops : Forall (op_ok U) ops ->
  let s := run c (st0 b) ops in
  hsh s = match headp s with Some hd => h_height hd | None => 0 end.
Proof. intros F. exact (height_is_head _ _ (hist_pinv b ops F)). Qed.

Theorem hist_get_range_exact b ops from to l : Forall (op_ok U) ops ->
  let s := run c (st0 b) ops in
  get_range s from to = Found l ->
  from < to /\ l = map c (seqN from (N.to_nat (to - from))) /\
  map h_height l = seqN from (N.to_nat (to - from)).
Proof. intros F. exact (get_range_exact _ _ from to l (hist_pinv b ops F)). Qed.

Theorem hist_head_is_top b ops : Forall (op_ok U) ops ->
  let s := run c (st0 b) ops in
  (forall hd h, headp s = Some hd -> get_by_height s (h_height hd + 1) <> Found h) /\
  (forall tl h, tailp s = Some tl -> get_by_height s (h_height tl - 1) <> Found h).
Proof. intros F. exact (head_is_top _ _ (hist_pinv b ops F)). Qed.

End hist.

(** non-vacuity of the chain hypotheses: an infinite chain satisfying them for every U *)
Definition simple_chain (n : N) : hdr := Hdr false 1 n 0%Z (n + 1) n true.

Lemma simple_chain_hyps U : U < two64 - 1 -> chain_hyps simple_chain U.
Proof.
  intros HU. split; auto; unfold inr; cbn; intros; lia.
Qed.

(** ** Sync and a clean restart (Stop; Start, same object or reopened) preserve every read *)
Section restart.
Context {c : N -> hdr} {U : N} {CH : chain_hyps c U}.

Theorem hist_clean_restart b ops o : Forall (op_ok U) ops -> o = ISync \/ o = IRestart \/ o = IReopen ->
  let s := run c (st0 b) ops in
  let s' := run c (st0 b) (ops ++ [o]) in
  snd (mstep c s o) = Ok /\
  headp s' = headp s /\ tailp s' = tailp s /\ hsh s' = hsh s /\
  (forall n, get_by_height s' n = get_by_height s n) /\
  (forall n, inr U n -> get s' (h_id (c n)) = get s (h_id (c n)) /\ has s' (h_id (c n)) = has s (h_id (c n))) /\
  (forall n, has_at s' n = has_at s n) /\
  (forall from to, get_range s' from to = get_range s from to).
Proof.
  intros F Ho s s'.
  pose proof (hist_pinv (c:=c) b ops F) as I. fold s in I.
  assert (F' : Forall (op_ok U) (ops ++ [o])).
  { apply Forall_app; split; auto. constructor; [|constructor]. destruct Ho as [-> | [-> | ->]]; exact Logic.I. }
  pose proof (hist_pinv (c:=c) b _ F') as I'. fold s' in I'.
  assert (Esp : run_spec spec0 (ops ++ [o]) = run_spec spec0 ops).
  { rewrite run_spec_app. destruct Ho as [-> | [-> | ->]]; reflexivity. }
  rewrite Esp in I'. set (sp := run_spec spec0 ops) in *.
  split.
  - destruct (history_inv (c:=c) b ops F) as [I0 D0]. fold s in I0, D0.
    destruct Ho as [-> | [-> | ->]]; unfold mstep; cbn [to_op].
    + reflexivity.
    + destruct (StoreRestartP.restart_refines s (run_spec spec0 ops) (conj I0 D0)) as (s1 & E & _). rewrite E. reflexivity.
    + destruct (StoreRestartP.reopen_refines s (run_spec spec0 ops) (conj I0 D0)) as (s1 & E & _). rewrite E. reflexivity.
  - rewrite (obs_head s' sp I'), (obs_head s sp I), (obs_tail s' sp I'), (obs_tail s sp I),
      (obs_height s' sp I'), (obs_height s sp I).
    split_and!; auto.
    + intros n. rewrite (obs_gbh s' sp n I'), (obs_gbh s sp n I). reflexivity.
    + intros n Hn. rewrite (obs_get s' sp n I' Hn), (obs_get s sp n I Hn), (obs_has s' sp n I' Hn), (obs_has s sp n I Hn). auto.
    + intros n. rewrite (obs_has_at s' sp n I'), (obs_has_at s sp n I). reflexivity.
    + intros from to. rewrite (obs_range s' sp from to I'), (obs_range s sp from to I). reflexivity.
Qed.
End restart.
