(** Step lemma for Append: the flush closure (ensure_init, pend_add,
    advance_head, recede_tail, commit) maps related states to related states. *)
From Coq Require Import NArith List Bool Lia ZifyBool ZifyN ZifyNat.
From stdpp Require Import gmap.
From GH Require Import Base.Prelude Model.Store Model.StoreSpec.
From GH Require Import Proofs.StoreP Proofs.StoreClimbP Proofs.StoreInvP.
Import ListNotations.
Open Scope N_scope.

Lemma FIn {A} (P : A -> Prop) l x : Forall P l -> In x l -> P x.
Proof. induction 1 as [|y l Hy Hl IH]; cbn; [tauto|]. intros [->|Hin]; auto. Qed.

(** ** folds of inserts *)
Section ins.
Context {A V : Type} (k : A -> N) (v : A -> V).
Definition ins_all (l : list A) (m0 : gmap N V) : gmap N V :=
  fold_left (fun m x => <[k x := v x]> m) l m0.

Lemma ins_inv l : forall m0 i a, ins_all l m0 !! i = Some a ->
  m0 !! i = Some a \/ exists x, In x l /\ k x = i /\ v x = a.
Proof.
  induction l as [|x l IH]; intros m0 i a; cbn; auto.
  intros H. apply IH in H. destruct H as [H|(y & Hy & Hk & Hv)].
  - destruct (N.eq_dec (k x) i) as [E|E].
    + rewrite E, lookup_insert in H. injection H as <-. right; eauto.
    + rewrite lookup_insert_ne in H; auto.
  - right; eauto.
Qed.

Lemma ins_in l : forall m0 i a, (forall y, In y l -> k y = i -> v y = a) ->
  (m0 !! i = Some a \/ exists y, In y l /\ k y = i) -> ins_all l m0 !! i = Some a.
Proof.
  induction l as [|x l IH]; intros m0 i a Hv H; cbn.
  - destruct H as [H|(y & [] & _)]; auto.
  - apply IH; [intros y Hy; apply Hv; right; auto|].
    destruct (N.eq_dec (k x) i) as [E|E].
    + left. rewrite E, lookup_insert. f_equal. apply Hv; auto. left; auto.
    + destruct H as [H|(y & [->|Hy] & Hk)]; [left; rewrite lookup_insert_ne; auto|contradiction|right; eauto].
Qed.

Lemma ins_none l : forall m0 i, ins_all l m0 !! i = None -> m0 !! i = None /\ forall y, In y l -> k y <> i.
Proof.
  induction l as [|x l IH]; intros m0 i; cbn; auto.
  intros H. apply IH in H. destruct H as [H Hn].
  destruct (N.eq_dec (k x) i) as [E|E].
  - rewrite E, lookup_insert in H. discriminate.
  - rewrite lookup_insert_ne in H; auto. split; auto. intros y [->|Hy]; auto.
Qed.
End ins.

(** ** state frames *)
Definition same_maps (s s' : st) : Prop :=
  pend_h s' = pend_h s /\ pend_i s' = pend_i s /\ d_hdr s' = d_hdr s /\ d_idx s' = d_idx s.
Definition same_dptrs (s s' : st) : Prop := d_head s' = d_head s /\ d_tail s' = d_tail s.

Lemma same_maps_stored s s' n : same_maps s s' -> (stored s' n <-> stored s n).
Proof. intros (E1 & _ & _ & E4). unfold stored. rewrite E1, E4. tauto. Qed.

Lemma same_maps_fuel s s' : same_maps s s' -> fuel_of s' = fuel_of s.
Proof. intros (E1 & _ & _ & E4). unfold fuel_of. rewrite E1, E4. reflexivity. Qed.

Lemma advance_head_frame s :
  same_maps s (advance_head s) /\ same_dptrs s (advance_head s) /\ tailp (advance_head s) = tailp s.
Proof.
  unfold advance_head, same_maps, same_dptrs. destruct (headp s); [|tauto].
  destruct (next_head _ _ _ _) as [h0 []]; cbn; tauto.
Qed.

Lemma recede_tail_frame s :
  same_maps s (recede_tail s) /\ same_dptrs s (recede_tail s) /\
  headp (recede_tail s) = headp s /\ hsh (recede_tail s) = hsh s.
Proof.
  unfold recede_tail, same_maps, same_dptrs. destruct (tailp s); [|tauto].
  destruct (next_tail _ _ _ _) as [h0 []]; cbn; tauto.
Qed.

Lemma fold_apply1_frame w : forall s,
  pend_h (fold_left apply1 w s) = pend_h s /\ pend_i (fold_left apply1 w s) = pend_i s /\
  headp (fold_left apply1 w s) = headp s /\ tailp (fold_left apply1 w s) = tailp s /\
  hsh (fold_left apply1 w s) = hsh s /\ batch (fold_left apply1 w s) = batch s.
Proof.
  induction w as [|x w IH]; intros s; cbn [fold_left]; [tauto|].
  destruct (IH (apply1 s x)) as (-> & -> & -> & -> & -> & ->). destruct x; cbn; tauto.
Qed.

Lemma write_frame s w :
  pend_h (write s w) = pend_h s /\ pend_i (write s w) = pend_i s /\
  headp (write s w) = headp s /\ tailp (write s w) = tailp s /\
  hsh (write s w) = hsh s /\ batch (write s w) = batch s.
Proof. unfold write. cbn. apply fold_apply1_frame. Qed.

Lemma write_disk s w :
  d_hdr (write s w) = d_hdr (fold_left apply1 w s) /\ d_idx (write s w) = d_idx (fold_left apply1 w s) /\
  d_head (write s w) = d_head (fold_left apply1 w s) /\ d_tail (write s w) = d_tail (fold_left apply1 w s).
Proof. unfold write. cbn. tauto. Qed.

(** the four phases of a commit *)
Definition putH_ops (l : list hdr) : wop := map (fun h => WPutH (h_id h) h) l.
Definition putI_ops (l : list hdr) : wop := map (fun h => WPutI (h_height h) (h_id h)) l.

Lemma fold_putH l : forall s,
  d_hdr (fold_left apply1 (putH_ops l) s) = ins_all h_id (fun h => h) l (d_hdr s) /\
  d_idx (fold_left apply1 (putH_ops l) s) = d_idx s /\
  d_head (fold_left apply1 (putH_ops l) s) = d_head s /\
  d_tail (fold_left apply1 (putH_ops l) s) = d_tail s.
Proof.
  induction l as [|x l IH]; intros s; [cbn; tauto|].
  change (putH_ops (x :: l)) with (WPutH (h_id x) x :: putH_ops l). cbn [fold_left].
  destruct (IH (apply1 s (WPutH (h_id x) x))) as (-> & -> & -> & ->). cbn. tauto.
Qed.

Lemma fold_putI l : forall s,
  d_idx (fold_left apply1 (putI_ops l) s) = ins_all h_height h_id l (d_idx s) /\
  d_hdr (fold_left apply1 (putI_ops l) s) = d_hdr s /\
  d_head (fold_left apply1 (putI_ops l) s) = d_head s /\
  d_tail (fold_left apply1 (putI_ops l) s) = d_tail s.
Proof.
  induction l as [|x l IH]; intros s; [cbn; tauto|].
  change (putI_ops (x :: l)) with (WPutI (h_height x) (h_id x) :: putI_ops l). cbn [fold_left].
  destruct (IH (apply1 s (WPutI (h_height x) (h_id x)))) as (-> & -> & -> & ->). cbn. tauto.
Qed.

Lemma commit_disk s :
  let s' := fold_left apply1 (commit_ops s) s in
  d_hdr s' = ins_all h_id (fun h => h) (pend_list s) (d_hdr s) /\
  d_idx s' = ins_all h_height h_id (pend_list s) (d_idx s) /\
  d_head s' = match headp s with Some hd => Some (h_id hd) | None => d_head s end /\
  d_tail s' = match tailp s with Some tl => Some (h_id tl) | None => d_tail s end.
Proof.
  unfold commit_ops. cbv zeta. rewrite !fold_left_app.
  fold (putH_ops (pend_list s)). fold (putI_ops (pend_list s)).
  set (s1 := fold_left apply1 (putH_ops (pend_list s)) s).
  destruct (fold_putH (pend_list s) s) as (A1 & A2 & A3 & A4). fold s1 in A1, A2, A3, A4.
  set (s2 := fold_left apply1 (match headp s with Some hd => [WPutHead (h_id hd)] | None => [] end) s1).
  assert (B : d_hdr s2 = d_hdr s1 /\ d_idx s2 = d_idx s1 /\ d_tail s2 = d_tail s1 /\
              d_head s2 = match headp s with Some hd => Some (h_id hd) | None => d_head s1 end).
  { unfold s2. destruct (headp s); cbn; tauto. }
  destruct B as (B1 & B2 & B3 & B4).
  set (s3 := fold_left apply1 (match tailp s with Some tl => [WPutTail (h_id tl)] | None => [] end) s2).
  assert (C : d_hdr s3 = d_hdr s2 /\ d_idx s3 = d_idx s2 /\ d_head s3 = d_head s2 /\
              d_tail s3 = match tailp s with Some tl => Some (h_id tl) | None => d_tail s2 end).
  { unfold s3. destruct (tailp s); cbn; tauto. }
  destruct C as (C1 & C2 & C3 & C4).
  destruct (fold_putI (pend_list s) s3) as (D1 & D2 & D3 & D4).
  rewrite D1, D2, D3, D4, C1, C2, C3, C4, B1, B2, B3, B4, A1, A2, A3, A4. tauto.
Qed.

Lemma in_pend_list s h : In h (pend_list s) <-> exists n, pend_h s !! n = Some h.
Proof.
  unfold pend_list. rewrite in_map_iff. split.
  - intros ([n h'] & <- & Hin). exists n. apply elem_of_list_In, elem_of_map_to_list in Hin. exact Hin.
  - intros (n & Hn). exists (n, h). split; auto. apply elem_of_list_In, elem_of_map_to_list. exact Hn.
Qed.

Section chain.
Context {c : N -> hdr} {U : N} {CH : chain_hyps c U}.
Notation inr := (inr U).
Notation minv := (minv c U).
Notation pstored := (pstored c).
Notation pinv := (pinv c U).
Notation inv := (inv c U).

Lemma minv_ext s s' : same_maps s s' -> minv s -> minv s'.
Proof.
  intros (E1 & E2 & E3 & E4) [A B C D E]. split; rewrite ?E1, ?E2, ?E3, ?E4; auto.
Qed.

(** a list of chain headers of in-range heights *)
Definition chain_list (hs : list hdr) : Prop := forall h, In h hs -> exists n, inr n /\ h = c n.

Lemma chain_list_map ns : Forall inr ns -> chain_list (map c ns).
Proof.
  intros F h Hin. apply in_map_iff in Hin. destruct Hin as (n & <- & Hn).
  exists n. split; auto. eapply FIn; eauto.
Qed.

Lemma pend_add_fields s hs :
  pend_h (pend_add s hs) = ins_all h_height (fun h => h) hs (pend_h s) /\
  pend_i (pend_add s hs) = ins_all h_id h_height hs (pend_i s) /\
  d_hdr (pend_add s hs) = d_hdr s /\ d_idx (pend_add s hs) = d_idx s /\
  d_head (pend_add s hs) = d_head s /\ d_tail (pend_add s hs) = d_tail s /\
  headp (pend_add s hs) = headp s /\ tailp (pend_add s hs) = tailp s /\ hsh (pend_add s hs) = hsh s.
Proof. unfold pend_add. cbn. tauto. Qed.

Lemma pend_add_minv s hs : minv s -> chain_list hs -> minv (pend_add s hs).
Proof.
  intros M CL. destruct (pend_add_fields s hs) as (E1 & E2 & E3 & E4 & _).
  pose proof (@ch_height c U CH) as c_height. pose proof (@ch_inj c U CH) as c_inj.
  split; rewrite ?E1, ?E2, ?E3, ?E4; try apply M.
  - intros n h H. apply ins_inv in H. destruct H as [H|(x & Hx & Hk & <-)]; [eapply mi_ph; eauto|].
    destruct (CL x Hx) as (m & Hm & ->). rewrite c_height in Hk; auto. subst m. auto.
  - intros id n H. apply ins_inv in H. destruct H as [H|(x & Hx & Hk & Hv)].
    + destruct (mi_pi1 s M _ _ H) as [-> Hp]. split; auto.
      apply ins_in; auto. intros y Hy Ey. destruct (CL y Hy) as (m & Hm & ->).
      rewrite c_height in Ey; auto. congruence.
    + destruct (CL x Hx) as (m & Hm & ->). rewrite c_height in Hv; auto. subst m. split; auto.
      apply ins_in; [|right; exists (c n); split; auto].
      intros y Hy Ey. destruct (CL y Hy) as (m & Hm' & ->). rewrite c_height in Ey; auto. congruence.
  - intros n h H. apply ins_inv in H.
    assert (forall y, In y hs -> h_id y = h_id (c n) -> h_height y = n) as Hval.
    { intros y Hy Ey. destruct (CL y Hy) as (m & Hm & ->). rewrite c_height; auto.
      destruct H as [H|(x & Hx & Hk & <-)].
      - apply c_inj; auto. apply (mi_ph s M) in H. tauto.
      - destruct (CL x Hx) as (m' & Hm' & ->). rewrite c_height in Hk; auto. subst m'.
        apply c_inj; auto. }
    apply ins_in; auto.
    destruct H as [H|(x & Hx & Hk & <-)]; [left; eapply mi_pi2; eauto|].
    right. exists x. split; auto. destruct (CL x Hx) as (m' & Hm' & ->).
    rewrite c_height in Hk; auto. congruence.
Qed.

Lemma pend_add_stored s ns n : Forall inr ns ->
  stored (pend_add s (map c ns)) n <-> stored s n \/ In n ns.
Proof.
  intros F. destruct (pend_add_fields s (map c ns)) as (E1 & _ & _ & E4 & _).
  pose proof (@ch_height c U CH) as c_height.
  unfold stored. rewrite E1, E4. split.
  - intros [[h H]|H]; [|tauto]. apply ins_inv in H. destruct H as [H|(x & Hx & Hk & <-)]; [left; left; eauto|].
    right. apply in_map_iff in Hx. destruct Hx as (m & <- & Hm).
    rewrite c_height in Hk; [congruence|]. eapply FIn; eauto.
  - intros [[[h H]|H]|H]; [| tauto |].
    + destruct (ins_all h_height (fun h => h) (map c ns) (pend_h s) !! n) eqn:E; [left; eauto|].
      apply ins_none in E. destruct E; congruence.
    + left. exists (c n). apply ins_in; [|right; exists (c n); split; [apply in_map; auto|]].
      * intros y Hy Ey. apply in_map_iff in Hy. destruct Hy as (m & <- & Hm).
        rewrite c_height in Ey; [congruence|]. eapply FIn; eauto.
      * apply c_height. eapply FIn; eauto.
Qed.


(** ** advance_head / recede_tail compute the ends of the run *)
Lemma advance_head_spec s (S : gset N) H :
  minv s -> pstored s -> (forall n, n ∈ S <-> stored s n) ->
  headp s = Some (c H) -> hsh s = H -> inr H ->
  headp (advance_head s) = Some (c (run_up (Datatypes.S (size S)) S H)) /\
  hsh (advance_head s) = run_up (Datatypes.S (size S)) S H.
Proof.
  intros M P HS Hhd Hh HH. pose proof (@ch_bound c U CH) as Ub.
  assert (SI : forall n, n ∈ S -> inr n) by (intros n Hn; apply HS in Hn; eapply stored_inr; eauto).
  unfold advance_head. rewrite Hhd. rewrite (next_head_run s S M P HS).
  2: exact HH.
  rewrite (run_up_fuel U Ub S SI (fuel_of s) (Datatypes.S (size S)) H); try lia;
    [|destruct HH; auto|apply fuel_of_enough; auto].
  set (H' := run_up (Datatypes.S (size S)) S H).
  destruct (run_up_spec U Ub S SI (Datatypes.S (size S)) H) as (A1 & A2 & _); [destruct HH; auto|].
  fold H' in A1, A2. clearbody H'. cbn [orb]. destruct (N.ltb_spec H H') as [Hlt|Hge]; cbn.
  - rewrite (@ch_height c U CH); [|destruct HH; split; lia]. split; auto. lia.
  - assert (H' = H) as -> by lia. auto.
Qed.

Lemma recede_tail_spec s (S : gset N) T :
  minv s -> pstored s -> (forall n, n ∈ S <-> stored s n) ->
  tailp s = Some (c T) -> inr T ->
  tailp (recede_tail s) = Some (c (run_down (Datatypes.S (size S)) S T)).
Proof.
  intros M P HS Htl HT. pose proof (@ch_bound c U CH) as Ub.
  assert (SI : forall n, n ∈ S -> inr n) by (intros n Hn; apply HS in Hn; eapply stored_inr; eauto).
  unfold recede_tail. rewrite Htl. rewrite (next_tail_run s S M P HS).
  2: exact HT.
  rewrite (run_down_fuel U Ub S SI (fuel_of s) (Datatypes.S (size S)) T); try lia;
    [|auto|apply fuel_of_enough; auto].
  set (T' := run_down (Datatypes.S (size S)) S T).
  destruct (run_down_spec U Ub S SI (Datatypes.S (size S)) T HT) as (_ & A1 & _).
  fold T' in A1. clearbody T'. cbn [orb]. destruct (N.ltb_spec T' T) as [Hlt|Hge]; cbn; auto.
  assert (T' = T) as -> by lia. auto.
Qed.

Lemma climb_inv s (S : gset N) T H :
  minv s -> (forall n, n ∈ S <-> stored s n) ->
  headp s = Some (c H) -> tailp s = Some (c T) -> hsh s = H -> T <= H ->
  (forall n, T <= n <= H -> stored s n) ->
  let s3 := recede_tail (advance_head s) in
  let H' := run_up (Datatypes.S (size S)) S H in
  let T' := run_down (Datatypes.S (size S)) S T in
  same_maps s s3 /\ same_dptrs s s3 /\
  headp s3 = Some (c H') /\ tailp s3 = Some (c T') /\ hsh s3 = H' /\ T' <= H' /\
  (forall n, T' <= n <= H' -> stored s n) /\ ~ stored s (H' + 1) /\ ~ stored s (T' - 1).
Proof.
  intros M HS Hhd Htl Hh Hle Hst s3 H' T'. pose proof (@ch_bound c U CH) as Ub.
  assert (SI : forall n, n ∈ S -> inr n) by (intros n Hn; apply HS in Hn; eapply stored_inr; eauto).
  assert (HH : inr H) by (apply (stored_inr s _ M), Hst; lia).
  assert (HT : inr T) by (apply (stored_inr s _ M), Hst; lia).
  assert (P : pstored s).
  { intros h [E|E]; rewrite ?Hhd, ?Htl in E; injection E as <-; eexists; split; eauto; apply Hst; lia. }
  destruct (advance_head_spec s S H M P HS Hhd Hh HH) as [B1 B2]. fold H' in B1, B2.
  destruct (advance_head_frame s) as (F1 & F2 & F3).
  set (s2 := advance_head s) in *.
  destruct (run_up_spec U Ub S SI (Datatypes.S (size S)) H) as (A1 & A2 & A3 & _); [destruct HH; auto|].
  fold H' in A1, A2, A3.
  pose proof (run_up_top U Ub S SI (Datatypes.S (size S)) H) as A4. fold H' in A4.
  destruct (run_down_spec U Ub S SI (Datatypes.S (size S)) T HT) as (C0 & C1 & C3 & _).
  fold T' in C0, C1, C3.
  pose proof (run_down_bottom U Ub S SI (Datatypes.S (size S)) T HT) as C4. fold T' in C4.
  assert (M2 : minv s2) by (eapply minv_ext; eauto).
  assert (HS2 : forall n, n ∈ S <-> stored s2 n) by (intros n; rewrite (same_maps_stored s s2 n F1); auto).
  assert (Hall : forall n, T' <= n <= H' -> stored s n).
  { intros n Hn. destruct (N.lt_ge_cases n T); [apply HS, C3; lia|].
    destruct (N.le_gt_cases n H); [apply Hst; lia|]. apply HS, A3; lia. }
  assert (P2 : pstored s2).
  { intros h [E|E]; rewrite ?B1, ?F3, ?Htl in E; injection E as <-; eexists; split; eauto;
      apply HS2, HS, Hall; lia. }
  assert (D : tailp s3 = Some (c T')).
  { apply recede_tail_spec; auto. rewrite F3; auto. }
  destruct (recede_tail_frame s2) as (G1 & G2 & G3 & G4). fold s3 in G1, G2, G3, G4.
  split_and!; auto; try lia; try congruence.
  - destruct F1 as (?&?&?&?), G1 as (?&?&?&?). unfold same_maps. split_and!; congruence.
  - destruct F2, G2. unfold same_dptrs. split; congruence.
  - rewrite <- HS. apply A4; lia.
  - rewrite <- HS. apply C4; lia.
Qed.

(** ** the commit moves the write batch to disk *)
Definition commit (s : st) : st := set_pend (write s (commit_ops s)) ∅ ∅.

Lemma commit_fields s :
  pend_h (commit s) = ∅ /\ pend_i (commit s) = ∅ /\
  headp (commit s) = headp s /\ tailp (commit s) = tailp s /\ hsh (commit s) = hsh s /\
  d_hdr (commit s) = ins_all h_id (fun h => h) (pend_list s) (d_hdr s) /\
  d_idx (commit s) = ins_all h_height h_id (pend_list s) (d_idx s) /\
  d_head (commit s) = match headp s with Some hd => Some (h_id hd) | None => d_head s end /\
  d_tail (commit s) = match tailp s with Some tl => Some (h_id tl) | None => d_tail s end.
Proof.
  destruct (write_frame s (commit_ops s)) as (_ & _ & W3 & W4 & W5 & _).
  destruct (write_disk s (commit_ops s)) as (X1 & X2 & X3 & X4).
  destruct (commit_disk s) as (Y1 & Y2 & Y3 & Y4).
  unfold commit. cbn [pend_h pend_i headp tailp hsh d_hdr d_idx d_head d_tail set_pend].
  rewrite W3, W4, W5, X1, X2, X3, X4, Y1, Y2, Y3, Y4. tauto.
Qed.

Lemma commit_minv s : minv s -> minv (commit s) /\ forall n, stored (commit s) n <-> stored s n.
Proof.
  intros M. destruct (commit_fields s) as (E1 & E2 & _ & _ & _ & E3 & E4 & _).
  pose proof (@ch_height c U CH) as c_height. pose proof (@ch_inj c U CH) as c_inj.
  assert (PL : forall y, In y (pend_list s) -> exists m, inr m /\ y = c m /\ pend_h s !! m = Some (c m)).
  { intros y Hy. apply in_pend_list in Hy. destruct Hy as (m & Hm).
    destruct (mi_ph s M _ _ Hm) as [? ->]. eauto. }
  assert (HH : forall n, (d_hdr s !! h_id (c n) = Some (c n) \/ pend_h s !! n = Some (c n)) -> inr n ->
                         d_hdr (commit s) !! h_id (c n) = Some (c n)).
  { intros n Hn Hi. rewrite E3. apply ins_in.
    - intros y Hy Ey. destruct (PL y Hy) as (m & Hm & -> & _). f_equal. apply c_inj; auto.
    - destruct Hn as [Hn|Hn]; auto. right. exists (c n). split; auto. apply in_pend_list; eauto. }
  assert (HI : forall n, (d_idx s !! n = Some (h_id (c n)) \/ pend_h s !! n = Some (c n)) -> inr n ->
                         d_idx (commit s) !! n = Some (h_id (c n))).
  { intros n Hn Hi. rewrite E4. apply ins_in.
    - intros y Hy Ey. destruct (PL y Hy) as (m & Hm & -> & _). rewrite c_height in Ey; auto. congruence.
    - destruct Hn as [Hn|Hn]; auto. right. exists (c n). split; auto. apply in_pend_list; eauto. }
  split; [split|].
  - intros n h. rewrite E1, lookup_empty. discriminate.
  - intros id n. rewrite E2, lookup_empty. discriminate.
  - intros n h. rewrite E1, lookup_empty. discriminate.
  - intros n id H. rewrite E4 in H. apply ins_inv in H. destruct H as [H|(x & Hx & Hk & Hv)].
    + destruct (mi_di s M _ _ H) as (Hn & -> & Hd). split_and!; auto.
    + destruct (PL x Hx) as (m & Hm & -> & Hp). rewrite c_height in Hk; auto. subst m id.
      split_and!; auto.
  - intros id h H. rewrite E3 in H. apply ins_inv in H. destruct H as [H|(x & Hx & Hk & Hv)].
    + destruct (mi_dh s M _ _ H) as (n & -> & Hi). exists n. split; auto.
      destruct (mi_di s M _ _ Hi) as (Hn & -> & _). apply HI; auto.
    + destruct (PL x Hx) as (m & Hm & -> & Hp). subst id h. exists m. split; auto.
  - intros n. unfold stored. rewrite E1, lookup_empty. split.
    + intros [[? ?]|[id H]]; [discriminate|]. rewrite E4 in H. apply ins_inv in H.
      destruct H as [H|(x & Hx & Hk & Hv)]; [right; eauto|].
      destruct (PL x Hx) as (m & Hm & -> & Hp). rewrite c_height in Hk; auto. subst m. left; eauto.
    + intros [[h H]|[id H]]; right; exists (h_id (c n)).
      * destruct (mi_ph s M _ _ H) as [Hn ->]. apply HI; auto.
      * destruct (mi_di s M _ _ H) as (Hn & -> & _). apply HI; auto.
Qed.

Lemma pinv_inv_nonempty s sp : pinv s sp -> pend_h s <> ∅ -> inv s sp.
Proof.
  intros I Hne. split; auto. unfold disk_ok. destruct (sHT sp) as [[T H]|]; auto. contradiction.
Qed.

Lemma commit_inv s sp : pinv s sp -> inv (commit s) sp.
Proof.
  intros [M HS P]. destruct (commit_minv s M) as [M' St'].
  destruct (commit_fields s) as (E1 & _ & E3 & E4 & E5 & _ & _ & E6 & E7).
  unfold ptrs_core in P. split; [split; auto|].
  - intros n. rewrite St'. auto.
  - unfold ptrs_core. destruct (sHT sp) as [[T H]|].
    + destruct P as (P1 & P2 & P3 & P4 & P5 & P6 & P7).
      rewrite E3, E4, E5, !St'. split_and!; auto. intros n Hn. apply St'; auto.
    + destruct P as (P1 & P2 & P3 & P4 & P5). rewrite E3, E4, E5, E6, E7, P1, P2. auto.
  - unfold disk_ok. destruct (sHT sp) as [[T H]|]; auto.
    destruct P as (P1 & P2 & _). intros _. rewrite E6, E7, P1, P2. auto.
Qed.

(** ** Append *)
Theorem append_inv s sp ns : inv s sp -> Forall inr ns ->
  inv (fst (append s (map c ns))) (spec_append sp ns) /\ snd (append s (map c ns)) = Ok.
Proof.
  intros [I DK] F. destruct ns as [|n0 ns']; [cbn; split; [split|]; auto|].
  set (ns := n0 :: ns') in *. destruct I as [M HS P].
  assert (Hn0 : inr n0) by (eapply FIn; eauto; left; auto).
  pose proof (@ch_height c U CH) as c_height.
  change (map c ns) with (c n0 :: map c ns'). cbn [append].
  change (c n0 :: map c ns') with (map c ns).
  unfold flush_one. cbv zeta. cbn [andb].
  set (T0 := match sHT sp with Some th => fst th | None => n0 end).
  set (H0 := match sHT sp with Some th => snd th | None => n0 end).
  set (s1 := ensure_init s (map c ns)).
  assert (S1 : same_maps s s1 /\ same_dptrs s s1 /\ headp s1 = Some (c H0) /\ tailp s1 = Some (c T0) /\
               hsh s1 = H0 /\ T0 <= H0 /\ forall n, T0 <= n <= H0 -> stored s n \/ In n ns).
  { unfold s1, T0, H0, ptrs_core, same_maps, same_dptrs in *. cbn [ensure_init map ns].
    destruct (sHT sp) as [[T H]|].
    - destruct P as (P1 & P2 & P3 & P4 & P5 & _). rewrite P1, P2. cbn. split_and!; auto.
    - destruct P as (P1 & P2 & _). rewrite P1. cbn. rewrite P2. cbn.
      rewrite c_height; auto. split_and!; auto; try lia; intros n Hn; right; left; lia. }
  destruct S1 as (SM1 & SD1 & Hd1 & Tl1 & Hs1 & Le1 & St1).
  assert (M1 : minv s1) by (eapply minv_ext; eauto).
  set (s2 := pend_add s1 (map c ns)).
  assert (M2 : minv s2) by (apply pend_add_minv; auto using chain_list_map).
  destruct (pend_add_fields s1 (map c ns)) as (_ & _ & _ & _ & Q1 & Q2 & Q3 & Q4 & Q5).
  fold s2 in Q1, Q2, Q3, Q4, Q5.
  set (S' := sS sp ∪ list_to_set ns).
  assert (HS2 : forall n, n ∈ S' <-> stored s2 n).
  { intros n. unfold S', s2. rewrite (pend_add_stored s1 ns n F), (same_maps_stored s s1 n SM1).
    rewrite elem_of_union, elem_of_list_to_set, elem_of_list_In, HS. tauto. }
  assert (St2 : forall n, T0 <= n <= H0 -> stored s2 n).
  { intros n Hn. apply HS2. unfold S'. rewrite elem_of_union, elem_of_list_to_set, elem_of_list_In, HS. auto. }
  destruct (climb_inv s2 S' T0 H0 M2 HS2) as (K1 & K2 & K3 & K4 & K5 & K6 & K7 & K8 & K9);
    try congruence; auto.
  set (s3 := recede_tail (advance_head s2)) in *.
  set (H' := run_up (Datatypes.S (size S')) S' H0) in *.
  set (T' := run_down (Datatypes.S (size S')) S' T0) in *.
  assert (SP : spec_append sp ns = Spec S' (Some (T', H'))).
  { unfold spec_append, ns, T', H', T0, H0, S'. fold ns.
    destruct (sHT sp) as [[T H]|]; reflexivity. }
  rewrite SP.
  assert (I3 : pinv s3 (Spec S' (Some (T', H')))).
  { split.
    - eapply minv_ext; eauto.
    - intros n. rewrite (same_maps_stored s2 s3 n K1). apply HS2.
    - unfold ptrs_core. cbn [sHT]. rewrite !(same_maps_stored s2 s3 _ K1). split_and!; auto.
      intros n Hn. rewrite (same_maps_stored s2 s3 _ K1). auto. }
  assert (NE : pend_h s3 <> ∅).
  { intros E. assert (Hs : stored s2 n0) by (apply HS2; unfold S', ns; set_solver).
    destruct K1 as (K1 & _). rewrite K1 in E.
    assert (Hi : n0 ∈ ns) by (unfold ns; set_solver).
    destruct (pend_add_fields s1 (map c ns)) as (E1 & _). fold s2 in E1.
    assert (Hl : pend_h s2 !! n0 = Some (c n0)).
    { rewrite E1. apply ins_in; [|right; exists (c n0); split; [apply in_map; left; auto|auto]].
      intros y Hy Ey. apply in_map_iff in Hy. destruct Hy as (m & <- & Hm).
      rewrite !c_height in Ey; auto; [congruence|]. eapply FIn; eauto. }
    rewrite E, lookup_empty in Hl. discriminate. }
  destruct (N.of_nat (size (pend_h s3)) <? batch s3); cbn [fst snd].
  { split; auto. apply pinv_inv_nonempty; auto. }
  destruct (Nat.eqb_spec (size (pend_h s3)) 0) as [Hz|Hz]; cbn [fst snd].
  { apply map_size_empty_inv in Hz. contradiction. }
  split; auto. apply (commit_inv s3 _ I3).
Qed.

End chain.
