(** Proofs about Model/Subscriber.v (property C11). *)
From GH Require Import Base.Prelude Model.Subscriber.

(** ** Specification vocabulary (used in the statements of Props/C11.v) *)

(** the message carries header [h]: its bytes decode to [h] (wire message), or the
    publisher attached [h] as ValidatorData (local Broadcast) *)
Definition carries (m : message) (h : hdr) : Prop :=
  (m_vdata m = VdNone /\ m_decode m = DecOk h) \/ m_vdata m = VdHdr h.

(** the verifier returned an error in which errors.As finds a *VerifyError whose
    SoftFailure is set *)
Definition soft_error (r : verres) : Prop :=
  exists chain, r = VerErr chain /\ first_verr chain = Some true.

(** the verifier returned an error that is not soft, or panicked *)
Definition hard_failure (r : verres) : Prop :=
  r = VerPanic \/ exists chain, r = VerErr chain /\ first_verr chain <> Some true.

(** nothing usable can be extracted from the message: undecodable bytes, a panic
    while decoding, ValidatorData of a foreign type *)
Definition carries_nothing (m : message) : Prop :=
  m_vdata m = VdOther \/ (m_vdata m = VdNone /\ (m_decode m = DecErr \/ m_decode m = DecPanic)).

Definition accept_cond val ver w m h : Prop :=
  carries m h /\ val h = ValNil /\ w = WaitSet /\ ver h = VerNil.

Definition ignore_cond (val : hdr -> valres) (ver : hdr -> verres) w m : Prop :=
  exists h, carries m h /\ val h = ValNil /\
            (w = WaitCtxDone \/ (w = WaitSet /\ soft_error (ver h))).

Definition reject_cond (val : hdr -> valres) (ver : hdr -> verres) w m : Prop :=
  carries_nothing m \/
  exists h, carries m h /\
            (val h <> ValNil \/ (val h = ValNil /\ w = WaitSet /\ hard_failure (ver h))).

(** ** Small facts *)

Lemma carries_fun m h h' : carries m h -> carries m h' -> h = h'.
Proof.
  unfold carries. intros [[A B]|A] [[C D]|C]; congruence.
Qed.

Lemma is_soft_true chain : is_soft chain = true <-> first_verr chain = Some true.
Proof.
  unfold is_soft. destruct (first_verr chain) as [[|]|]; split; intro H; try reflexivity; discriminate.
Qed.

Lemma is_soft_false chain : is_soft chain = false <-> first_verr chain <> Some true.
Proof.
  unfold is_soft. destruct (first_verr chain) as [[|]|]; split; intro H; try reflexivity; try discriminate; try congruence.
Qed.

(** [first_verr] is what errors.As computes: the outermost VerifyError of the chain *)
Lemma first_verr_spec chain s :
  first_verr chain = Some s <->
  exists pre post, chain = pre ++ Some s :: post /\ Forall (fun x => x = None) pre.
Proof.
  induction chain as [|[b|] r IH]; cbn.
  - split; [discriminate|]. intros (pre & post & E & _). destruct pre; discriminate.
  - split.
    + intros [= ->]. exists [], r. split; [reflexivity|constructor].
    + intros (pre & post & E & F). destruct pre as [|x pre]; cbn in E.
      * congruence.
      * inversion F; subst. discriminate.
  - rewrite IH. split.
    + intros (pre & post & -> & F). exists (None :: pre), post. split; [reflexivity|constructor; auto].
    + intros (pre & post & E & F). destruct pre as [|x pre]; cbn in E; [discriminate|].
      inversion E; subst. inversion F; subst. exists pre, post. split; auto.
Qed.

(** ** extractHeader *)

Lemma extract_ok val m h :
  extract_header val m = XOk h <-> carries m h /\ val h = ValNil.
Proof.
  unfold extract_header, carries. destruct m as [[|h0|] [h1| |]]; cbn;
    try destruct (val h0) eqn:V0; try destruct (val h1) eqn:V1;
    split; try discriminate;
    try (intros [= <-]; split; [auto|assumption]);
    try (intros [[[A B]|A] C]; try discriminate; try (inversion B; subst); try (inversion A; subst); congruence).
Qed.

Lemma extract_err val m :
  extract_header val m = XErr <->
  (m_vdata m = VdNone /\ m_decode m = DecErr) \/ exists h, carries m h /\ val h = ValErr.
Proof.
  unfold extract_header, carries. destruct m as [[|h0|] [h1| |]]; cbn;
    try destruct (val h0) eqn:V0; try destruct (val h1) eqn:V1;
    split; try discriminate; intro H;
    try reflexivity;
    try (left; split; reflexivity);
    try (right; eexists; split; [first [left; split; reflexivity | right; reflexivity]|assumption]);
    try (destruct H as [[A B]|(h & [[A B]|A] & C)]; try discriminate;
         try (inversion B; subst); try (inversion A; subst); congruence).
Qed.

Lemma extract_panic val m :
  extract_header val m = XPanic <->
  m_vdata m = VdOther \/ (m_vdata m = VdNone /\ m_decode m = DecPanic) \/
  exists h, carries m h /\ val h = ValPanic.
Proof.
  unfold extract_header, carries. destruct m as [[|h0|] [h1| |]]; cbn;
    try destruct (val h0) eqn:V0; try destruct (val h1) eqn:V1;
    split; try discriminate; intro H;
    try reflexivity;
    try (left; reflexivity);
    try (right; left; split; reflexivity);
    try (right; right; eexists; split; [first [left; split; reflexivity | right; reflexivity]|assumption]);
    try (destruct H as [A|[[A B]|(h & [[A B]|A] & C)]]; try discriminate;
         try (inversion B; subst); try (inversion A; subst); congruence).
Qed.

(** ** verifyMessage *)

Lemma accept_iff val ver w m h :
  r_out (verify_message val ver w m) = SAccept h <-> accept_cond val ver w m h.
Proof.
  unfold accept_cond, verify_message, verify_body.
  destruct (extract_header val m) as [h0| |] eqn:X; cbn.
  - apply extract_ok in X. destruct X as [C V].
    destruct w; cbn.
    + destruct (ver h0) as [|chain|] eqn:R; cbn.
      * split.
        -- intros [= <-]. auto.
        -- intros (C' & _). rewrite (carries_fun _ _ _ C C'). reflexivity.
      * destruct (is_soft chain); cbn; (split; [discriminate|]);
          intros (C' & _ & _ & R'); rewrite <- (carries_fun _ _ _ C C') in R'; congruence.
      * split; [discriminate|].
        intros (C' & _ & _ & R'); rewrite <- (carries_fun _ _ _ C C') in R'; congruence.
    + split; [discriminate|]. intros (_ & _ & W & _). discriminate.
  - split; [discriminate|]. intros (C & V & _).
    assert (E : extract_header val m = XOk h) by (apply extract_ok; auto). congruence.
  - split; [discriminate|]. intros (C & V & _).
    assert (E : extract_header val m = XOk h) by (apply extract_ok; auto). congruence.
Qed.

Lemma ignore_iff val ver w m :
  r_out (verify_message val ver w m) = SIgnore <-> ignore_cond val ver w m.
Proof.
  unfold ignore_cond, soft_error, verify_message, verify_body.
  destruct (extract_header val m) as [h0| |] eqn:X; cbn.
  - apply extract_ok in X. destruct X as [C V].
    destruct w; cbn.
    + destruct (ver h0) as [|chain|] eqn:R; cbn.
      * split; [discriminate|].
        intros (h & C' & _ & [W|(_ & chain & R' & _)]); [discriminate|].
        rewrite <- (carries_fun _ _ _ C C') in R'; congruence.
      * destruct (is_soft chain) eqn:S; cbn.
        -- split; [|reflexivity]. intros _. exists h0. repeat split; auto.
           right. split; [reflexivity|]. exists chain. split; [assumption|]. apply is_soft_true; assumption.
        -- split; [discriminate|].
           intros (h & C' & _ & [W|(_ & chain' & R' & F)]); [discriminate|].
           rewrite <- (carries_fun _ _ _ C C') in R'. rewrite R in R'. inversion R'; subst.
           apply is_soft_true in F. congruence.
      * split; [discriminate|].
        intros (h & C' & _ & [W|(_ & chain & R' & _)]); [discriminate|].
        rewrite <- (carries_fun _ _ _ C C') in R'; congruence.
    + split; [|reflexivity]. intros _. exists h0. repeat split; auto.
  - split; [discriminate|]. intros (h & C & V & _).
    assert (E : extract_header val m = XOk h) by (apply extract_ok; auto). congruence.
  - split; [discriminate|]. intros (h & C & V & _).
    assert (E : extract_header val m = XOk h) by (apply extract_ok; auto). congruence.
Qed.

(** the validator always answers with one of the three verdicts: the recover
    turns every panic into Reject *)
Lemma total val ver w m : r_out (verify_message val ver w m) <> SPanic.
Proof.
  unfold verify_message. cbn. destruct (r_out (verify_body val ver w m)); cbn; discriminate.
Qed.

Lemma trichotomy val ver w m :
  (exists h, r_out (verify_message val ver w m) = SAccept h) \/
  r_out (verify_message val ver w m) = SIgnore \/
  r_out (verify_message val ver w m) = SReject.
Proof.
  pose proof (total val ver w m) as T.
  destruct (r_out (verify_message val ver w m)); eauto. congruence.
Qed.

Lemma total_full val ver w m :
  r_out (verify_message val ver w m) <> SPanic /\
  ((exists h, r_out (verify_message val ver w m) = SAccept h) \/
   r_out (verify_message val ver w m) = SIgnore \/
   r_out (verify_message val ver w m) = SReject).
Proof. split; [apply total | apply trichotomy]. Qed.

Lemma carries_or_nothing m : carries_nothing m \/ exists h, carries m h.
Proof.
  unfold carries_nothing, carries. destruct m as [[|h0|] [h1| |]]; cbn; eauto 8.
Qed.

Lemma carries_nothing_excl m h : carries_nothing m -> carries m h -> False.
Proof.
  unfold carries_nothing, carries. intros [A|[A [B|B]]] [[C D]|C]; congruence.
Qed.

Lemma reject_iff val ver w m :
  r_out (verify_message val ver w m) = SReject <-> reject_cond val ver w m.
Proof.
  unfold reject_cond, hard_failure, verify_message, verify_body.
  destruct (extract_header val m) as [h0| |] eqn:X; cbn.
  - apply extract_ok in X. destruct X as [C V].
    assert (NN : ~ carries_nothing m) by (intro N; exact (carries_nothing_excl _ _ N C)).
    destruct w; cbn.
    + destruct (ver h0) as [|chain|] eqn:R; cbn.
      * split; [discriminate|].
        intros [N|(h & C' & [NV|(_ & _ & [P|(chain & R' & _)])])]; try tauto;
          rewrite <- (carries_fun _ _ _ C C') in *; congruence.
      * destruct (is_soft chain) eqn:S; cbn.
        -- split; [discriminate|].
           intros [N|(h & C' & [NV|(_ & _ & [P|(chain' & R' & F)])])]; try tauto;
             rewrite <- (carries_fun _ _ _ C C') in *; try congruence.
           rewrite R in R'. inversion R'; subst. apply is_soft_true in S. congruence.
        -- split; [|reflexivity]. intros _. right. exists h0. split; [assumption|]. right.
           repeat split; auto. right. exists chain. split; [assumption|]. apply is_soft_false; assumption.
      * split; [|reflexivity]. intros _. right. exists h0. split; [assumption|]. right.
        repeat split; auto.
    + split; [discriminate|].
      intros [N|(h & C' & [NV|(_ & W & _)])]; try tauto; try discriminate.
      rewrite <- (carries_fun _ _ _ C C') in *; congruence.
  - split; [|reflexivity]. intros _. apply extract_err in X.
    destruct X as [[A B]|(h & C & V)].
    + left. right. split; [assumption|]. left; assumption.
    + right. exists h. split; [assumption|]. left. congruence.
  - split; [|reflexivity]. intros _. apply extract_panic in X.
    destruct X as [A|[[A B]|(h & C & V)]].
    + left. left. assumption.
    + left. right. split; [assumption|]. right; assumption.
    + right. exists h. split; [assumption|]. left. congruence.
Qed.

(** Reject is exactly "neither the accept condition nor the ignore condition" *)
Lemma reject_otherwise val ver w m :
  r_out (verify_message val ver w m) = SReject <->
  (~ (exists h, accept_cond val ver w m h) /\ ~ ignore_cond val ver w m).
Proof.
  split.
  - intros R. split.
    + intros (h & A). apply accept_iff in A. congruence.
    + intros I. apply ignore_iff in I. congruence.
  - intros (NA & NI). destruct (trichotomy val ver w m) as [(h & A)|[I|R]]; [| |assumption].
    + exfalso. apply NA. exists h. apply accept_iff. assumption.
    + exfalso. apply NI. apply ignore_iff. assumption.
Qed.

(** without the recover a panic would escape exactly in these situations *)
Lemma body_panics_iff val ver w m :
  r_out (verify_body val ver w m) = SPanic <->
  (m_vdata m = VdOther \/ (m_vdata m = VdNone /\ m_decode m = DecPanic) \/
   exists h, carries m h /\ (val h = ValPanic \/ (val h = ValNil /\ w = WaitSet /\ ver h = VerPanic))).
Proof.
  unfold verify_body.
  destruct (extract_header val m) as [h0| |] eqn:X; cbn.
  - apply extract_ok in X. destruct X as [C V].
    assert (N1 : m_vdata m <> VdOther) by (destruct C as [[A _]|A]; congruence).
    assert (N2 : ~ (m_vdata m = VdNone /\ m_decode m = DecPanic)) by (destruct C as [[A B]|A]; intros [? ?]; congruence).
    destruct w; cbn.
    + destruct (ver h0) as [|chain|] eqn:R; cbn.
      * split; [discriminate|]. intros [A|[A|(h & C' & [P|(_ & _ & P)])]]; try tauto;
          rewrite <- (carries_fun _ _ _ C C') in *; congruence.
      * destruct (is_soft chain); cbn; (split; [discriminate|]);
          intros [A|[A|(h & C' & [P|(_ & _ & P)])]]; try tauto;
          rewrite <- (carries_fun _ _ _ C C') in *; congruence.
      * split; [|reflexivity]. intros _. right. right. exists h0. split; [assumption|]. right. auto.
    + split; [discriminate|]. intros [A|[A|(h & C' & [P|(_ & W & _)])]]; try tauto; try discriminate.
      rewrite <- (carries_fun _ _ _ C C') in *; congruence.
  - split; [discriminate|]. intros H. exfalso.
    assert (E : extract_header val m = XPanic \/ exists h, extract_header val m = XOk h).
    { destruct H as [A|[A|(h & C & [P|(V & _)])]].
      - left. apply extract_panic. auto.
      - left. apply extract_panic. auto.
      - left. apply extract_panic. right. right. eauto.
      - right. exists h. apply extract_ok. auto. }
    destruct E as [E|(h & E)]; congruence.
  - split; [|reflexivity]. intros _. apply extract_panic in X.
    destruct X as [A|[A|(h & C & V)]]; auto. right. right. exists h. auto.
Qed.

(** ** what reaches the verifier and the Subscriptions *)

Lemma vcall_spec val ver w m h :
  r_vcall (verify_message val ver w m) = Some h <-> (carries m h /\ val h = ValNil /\ w = WaitSet).
Proof.
  unfold verify_message, verify_body.
  destruct (extract_header val m) as [h0| |] eqn:X; cbn.
  - apply extract_ok in X. destruct X as [C V].
    destruct w; cbn.
    + assert (E : r_vcall (match ver h0 with
                           | VerNil => VmR (SAccept h0) (VdHdr h0) (Some h0)
                           | VerErr chain => if is_soft chain then VmR SIgnore (m_vdata m) (Some h0) else VmR SReject (m_vdata m) (Some h0)
                           | VerPanic => VmR SPanic (m_vdata m) (Some h0)
                           end) = Some h0).
      { destruct (ver h0) as [|chain|]; cbn; [reflexivity| |reflexivity]. destruct (is_soft chain); reflexivity. }
      rewrite E. split.
      * intros [= <-]. auto.
      * intros (C' & _). rewrite (carries_fun _ _ _ C C'). reflexivity.
    + split; [discriminate|]. intros (_ & _ & W). discriminate.
  - split; [discriminate|]. intros (C & V & _).
    assert (E : extract_header val m = XOk h) by (apply extract_ok; auto). congruence.
  - split; [discriminate|]. intros (C & V & _).
    assert (E : extract_header val m = XOk h) by (apply extract_ok; auto). congruence.
Qed.

Lemma accept_sets_vdata val ver w m h :
  r_out (verify_message val ver w m) = SAccept h ->
  r_vdata (verify_message val ver w m) = VdHdr h /\ r_vcall (verify_message val ver w m) = Some h.
Proof.
  unfold verify_message, verify_body.
  destruct (extract_header val m) as [h0| |]; cbn; try discriminate.
  destruct w; cbn; try discriminate.
  destruct (ver h0) as [|chain|]; cbn; try discriminate.
  - intros [= <-]. auto.
  - destruct (is_soft chain); cbn; discriminate.
Qed.

(** ** the node-level effects *)

Lemma deliver_spec val ver w m x :
  e_deliver (handle_message val ver w m) = Some x <->
  exists h, x = NhOk h /\ accept_cond val ver w m h.
Proof.
  unfold handle_message, pubsub_effects.
  destruct (r_out (verify_message val ver w m)) as [h| | |] eqn:O; cbn [e_deliver].
  - destruct (accept_sets_vdata _ _ _ _ _ O) as [D _]. rewrite D. cbn. split.
    + intros [= <-]. exists h. split; [reflexivity|]. apply accept_iff. assumption.
    + intros (h' & -> & A). apply accept_iff in A. congruence.
  - split; [discriminate|]. intros (h & _ & A). apply accept_iff in A. congruence.
  - split; [discriminate|]. intros (h & _ & A). apply accept_iff in A. congruence.
  - split; [discriminate|]. intros (h & _ & A). apply accept_iff in A. congruence.
Qed.

Lemma relay_spec val ver w m :
  e_relay (handle_message val ver w m) = true <-> exists h, accept_cond val ver w m h.
Proof.
  unfold handle_message, pubsub_effects.
  destruct (r_out (verify_message val ver w m)) as [h| | |] eqn:O; cbn.
  - split; [|reflexivity]. intros _. exists h. apply accept_iff. assumption.
  - split; [discriminate|]. intros (h & A). apply accept_iff in A. congruence.
  - split; [discriminate|]. intros (h & A). apply accept_iff in A. congruence.
  - split; [discriminate|]. intros (h & A). apply accept_iff in A. congruence.
Qed.

Lemma penalise_spec val ver w m :
  e_penalise (handle_message val ver w m) = true <-> reject_cond val ver w m.
Proof.
  rewrite <- reject_iff. unfold handle_message, pubsub_effects.
  destruct (r_out (verify_message val ver w m)) as [h| | |] eqn:O; cbn;
    split; try discriminate; try reflexivity.
Qed.

Lemma ignored_effects val ver w m :
  ignore_cond val ver w m ->
  handle_message val ver w m = Eff None false false false.
Proof.
  intros I. apply ignore_iff in I. unfold handle_message, pubsub_effects. rewrite I. reflexivity.
Qed.

Lemma no_crash val ver w m :
  e_crash (handle_message val ver w m) = false /\
  e_deliver (handle_message val ver w m) <> Some NhPanic.
Proof.
  split.
  - unfold handle_message, pubsub_effects. pose proof (total val ver w m) as T.
    destruct (r_out (verify_message val ver w m)); cbn; congruence.
  - intros D. apply deliver_spec in D. destruct D as (h & E & _). discriminate.
Qed.

(** ** SetVerifier *)

Lemma set_verifiers_some {V} (c : V) vs :
  set_verifiers (Some c) vs = (Some c, map (fun _ => false) vs).
Proof.
  induction vs as [|v r IH]; cbn; [reflexivity|]. rewrite IH. reflexivity.
Qed.

Lemma first_verifier_wins val v rest m :
  validate_registered val (v :: rest) m = verify_message val v WaitSet m /\
  snd (set_verifiers None (v :: rest)) = true :: map (fun _ => false) rest.
Proof.
  unfold validate_registered. cbn. rewrite set_verifiers_some. cbn. split; reflexivity.
Qed.

Lemma unregistered_never_accepts val m h :
  r_out (validate_registered val [] m) <> SAccept h /\ r_vcall (validate_registered val [] m) = None.
Proof.
  unfold validate_registered. cbn [set_verifiers fst]. split.
  - intros A. apply accept_iff in A. destruct A as (_ & _ & W & _). discriminate.
  - destruct (r_vcall (verify_message val (fun _ => VerNil) WaitCtxDone m)) as [x|] eqn:E; [|reflexivity].
    apply vcall_spec in E. destruct E as (_ & _ & W). discriminate.
Qed.

(** ** the verdict table as a finite sweep (in addition to the direct proofs):
    every combination of the abstract input classes, checked by computation
    against an independently written decision function *)

Definition ex_h0 : hdr := Hdr false 1 7 5%Z 3 2 true.
Definition ex_h1 : hdr := Hdr false 1 8 6%Z 4 3 true.

Definition all_vdata : list vdata := [VdNone; VdHdr ex_h1; VdOther].
Definition all_decode : list decode := [DecOk ex_h0; DecErr; DecPanic].
Definition all_val : list valres := [ValNil; ValErr; ValPanic].
Definition all_wait : list waitres := [WaitSet; WaitCtxDone].
(** one representative of every class of verifier result w.r.t. errors.As *)
Definition all_ver : list verres :=
  [VerNil; VerPanic; VerErr []; VerErr [None]; VerErr [Some true]; VerErr [Some false];
   VerErr [None; Some true]; VerErr [None; Some false]; VerErr [None; None; Some true];
   VerErr [Some true; Some false]; VerErr [Some false; Some true]; VerErr [None; Some false; Some true];
   VerErr [None; Some true; None]].

Definition outcome_eqb (a b : outcome) : bool :=
  match a, b with
  | SAccept x, SAccept y => hdr_eqb x y
  | SIgnore, SIgnore | SReject, SReject | SPanic, SPanic => true
  | _, _ => false
  end.

(** the property text as a table: what the verdict must be *)
Definition spec_verdict (d : vdata) (dc : decode) (v : valres) (w : waitres) (r : verres) : outcome :=
  let carried :=
    match d, dc with
    | VdHdr h, _ => Some h
    | VdNone, DecOk h => Some h
    | _, _ => None
    end in
  match carried, v with
  | Some h, ValNil =>
    match w, r with
    | WaitCtxDone, _ => SIgnore
    | WaitSet, VerNil => SAccept h
    | WaitSet, VerErr chain =>
      (* soft iff the first VerifyError met while unwrapping is soft *)
      match find (fun x => match x with Some _ => true | None => false end) chain with
      | Some (Some true) => SIgnore
      | _ => SReject
      end
    | WaitSet, VerPanic => SReject
    end
  | _, _ => SReject
  end.

Definition sweep : list (vdata * decode * valres * waitres * verres) :=
  list_prod (list_prod (list_prod (list_prod all_vdata all_decode) all_val) all_wait) all_ver.

Definition sweep_ok (x : vdata * decode * valres * waitres * verres) : bool :=
  let '(d, dc, v, w, r) := x in
  outcome_eqb (r_out (verify_message (fun _ => v) (fun _ => r) w (Msg d dc))) (spec_verdict d dc v w r).

Lemma sweep_all : forallb sweep_ok sweep = true.
Proof. vm_compute. reflexivity. Qed.

Lemma table_sweep d dc v w r :
  In d all_vdata -> In dc all_decode -> In v all_val -> In w all_wait -> In r all_ver ->
  r_out (verify_message (fun _ => v) (fun _ => r) w (Msg d dc)) = spec_verdict d dc v w r.
Proof.
  intros A B C D E.
  pose proof (proj1 (forallb_forall sweep_ok sweep) sweep_all (d, dc, v, w, r)) as H.
  assert (I : In (d, dc, v, w, r) sweep).
  { unfold sweep. repeat (apply in_prod; [|assumption]). assumption. }
  specialize (H I). unfold sweep_ok in H.
  destruct (r_out (verify_message (fun _ => v) (fun _ => r) w (Msg d dc))) as [x| | |] eqn:O,
           (spec_verdict d dc v w r) as [y| | |] eqn:S; cbn in H; try discriminate; try reflexivity.
  (* both accept: the header is the carried one on both sides *)
  apply accept_iff in O. destruct O as (Cx & _).
  unfold spec_verdict in S.
  destruct d as [|hd|], dc as [hc| |]; cbn in S; try discriminate;
    destruct v; try discriminate; destruct w; try discriminate; destruct r as [|ch|]; try discriminate;
    try (destruct (find _ ch) as [[[|]|]|]; discriminate);
    inversion S; subst; f_equal;
    destruct Cx as [[P Q]|P]; cbn in *; congruence.
Qed.

(** ** a wire message on whose header Validate panics (audit follow-up) *)
Lemma wire_validate_panic_is_rejected (val : hdr -> valres) (ver : hdr -> verres) (w : waitres) (h : hdr) :
  val h = ValPanic ->
  verify_message val ver w (Msg VdNone (DecOk h)) = VmR SReject VdNone None /\
  handle_message val ver w (Msg VdNone (DecOk h)) = Eff None false true false.
Proof.
  intros Hv. unfold handle_message, verify_message, verify_body, extract_header. cbn. rewrite Hv. cbn. split; reflexivity.
Qed.

Lemma wire_validate_panic_needs_recover (val : hdr -> valres) (ver : hdr -> verres) (w : waitres) (h : hdr) :
  val h = ValPanic ->
  r_out (verify_body val ver w (Msg VdNone (DecOk h))) = SPanic.
Proof. intros Hv. unfold verify_body, extract_header. cbn. rewrite Hv. reflexivity. Qed.

(** ** several local Subscriptions *)

(** what one Subscription must get for a message, given the validator's verdict *)
Definition sub_gets (o : outcome) (s : substate) (d : list nhres) : Prop :=
  match s, o with
  | SubLive, SAccept h => d = [NhOk h]
  | _, _ => d = []
  end.

Lemma deliver_to_spec val ver w m s :
  sub_gets (r_out (verify_message val ver w m)) s (deliver_to (handle_message val ver w m) s).
Proof.
  unfold sub_gets, deliver_to, handle_message, pubsub_effects.
  destruct s; [|reflexivity].
  destruct (r_out (verify_message val ver w m)) as [h| | |] eqn:E; cbn [e_deliver]; try reflexivity.
  destruct (accept_sets_vdata val ver w m h E) as [Hv _]. rewrite Hv. reflexivity.
Qed.

Lemma per_subscription_delivery val ver w m subs :
  Forall2 (sub_gets (r_out (verify_message val ver w m))) subs (handle_message_subs val ver w m subs).
Proof.
  unfold handle_message_subs, deliveries.
  induction subs as [|s subs IH]; cbn [map]; constructor; [apply deliver_to_spec | exact IH].
Qed.

(** NextHeader never panics on what the validator let through, on any Subscription *)
Lemma no_subscription_panics val ver w m subs d :
  In d (handle_message_subs val ver w m subs) -> ~ In NhPanic d.
Proof.
  intros Hin. pose proof (per_subscription_delivery val ver w m subs) as F.
  revert Hin. induction F as [|s x subs ds Hx F IH]; cbn [In]; [tauto|].
  intros [<-|Hin]; [|exact (IH Hin)].
  unfold sub_gets in Hx. destruct s, (r_out (verify_message val ver w m)); subst x; cbn; intuition discriminate.
Qed.
