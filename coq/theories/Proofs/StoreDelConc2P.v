(** C17, last clause (part 2): the flush goroutine running on its own above the tail of an
    initialised store ([GS]): every micro-state, and the specification state it stands for. *)
From Coq Require Import NArith List Bool Lia ZifyBool ZifyN ZifyNat.
From stdpp Require Import gmap.
From GH Require Import Base.Prelude Model.Store Model.StoreSpec Model.StoreConc Model.StoreDelConc.
From GH Require Import Proofs.StoreP Proofs.StoreClimbP Proofs.StoreInvP Proofs.StoreAppendP
  Proofs.StoreDeleteP Proofs.StoreDeleteRangeP Proofs.StoreRestartP Proofs.StoreConcP Proofs.StoreDelConcP.
Import ListNotations.
Open Scope N_scope.

Lemma pend_add_nil s : pend_add s [] = s.
Proof. unfold pend_add. cbn. apply st_eta. Qed.

Section solo.
Context {c : N -> hdr} {U : N} {CH : chain_hyps c U}.
Notation inr := (inr U).
Notation minv := (minv c U).
Notation pchain := (pchain c U).
Notation pstored := (pstored c).
Notation pinv := (pinv c U).
Notation inv := (inv c U).
Variable to : N.
Hypothesis Hto : inr to.

Let Ub := @ch_bound c U CH.
Let c_height := @ch_height c U CH.
Let c_inj := @ch_inj c U CH.

(** heights the writers append: in range and above [to] *)
Definition hiN (n : N) : Prop := inr n /\ to < n.

Lemma hiN_inr ns : Forall hiN ns -> Forall inr ns.
Proof. apply Forall_impl. intros n [? _]; auto. Qed.

Definition o_of (nl : bool) (ns : list N) : option (list hdr) := if nl then None else Some (map c ns).

Definition gstate (v0 : st) (ns : list N) (f : fl) : st :=
  let s1 := pend_add v0 (map c ns) in
  let s3 := advance_head s1 in
  match f with
  | FIdle => v0
  | FInit _ | FAdv _ => s1
  | FRec _ | FLoad _ | FCommit _ _ => s3
  | FReset _ => write s3 (commit_ops s3)
  end.

(** the decision after recedeTail: the batch is written out *)
Definition commits (nl : bool) (s3 : st) : Prop :=
  (N.of_nat (size (pend_h s3)) <? batch s3) && negb nl = false /\ (size (pend_h s3) =? 0)%nat = false.

Definition gflag (v0 : st) (nl : bool) (ns : list N) (f : fl) : Prop :=
  let s3 := advance_head (pend_add v0 (map c ns)) in
  match f with
  | FIdle => ns = []
  | FInit o | FAdv o | FRec o => o = o_of nl ns /\ (nl = false -> ns <> [])
  | FLoad nl' | FReset nl' => nl' = nl /\ commits nl s3 /\ (nl = false -> ns <> [])
  | FCommit nl' ops => nl' = nl /\ commits nl s3 /\ (nl = false -> ns <> []) /\ ops = commit_ops s3
  end.

Section gs.
Variables (Tl Lo : N) (g : spec -> spec) (PP : N -> Prop) (spE : spec).
Hypothesis HTl : inr Tl.
Hypothesis HTlto : Tl <= to.
Hypothesis PP_hi : forall n, hiN n -> PP n.
Hypothesis gcomm : forall v0 sp H0 ns, inv v0 sp -> sHT sp = Some (Tl, H0) -> to <= H0 -> Forall hiN ns ->
  spec_append (g sp) ns = g (spec_append sp ns).

Definition GS (v : st) (q : list (list hdr)) (f : fl) : Prop :=
  exists v0 sp H0 qn ns nl,
    inv v0 sp /\ sHT sp = Some (Tl, H0) /\ to <= H0 /\ (forall n, Lo <= n < Tl -> n ∉ sS sp) /\
    (forall n, is_Some (pend_h v0 !! n) -> PP n) /\
    q = map (map c) qn /\ Forall (Forall hiN) qn /\ Forall hiN ns /\ (nl = true -> ns = []) /\
    fold_left spec_append qn (g (spec_append sp ns)) = spE /\
    v = gstate v0 ns f /\ gflag v0 nl ns f.

Lemma hs_of_o nl ns : (nl = true -> ns = []) -> hs_of (o_of nl ns) = map c ns.
Proof. unfold o_of. destruct nl; auto. intros ->; auto. Qed.

Lemma is_some_o nl ns : is_some (o_of nl ns) = negb nl.
Proof. destruct nl; reflexivity. Qed.

Lemma pinv_ptrs_set v0 sp H0 : pinv v0 sp -> sHT sp = Some (Tl, H0) -> headp v0 <> None /\ tailp v0 <> None.
Proof.
  intros I E. pose proof (iv_p _ _ _ _ I) as P. unfold ptrs_core in P. rewrite E in P.
  destruct P as (-> & -> & _). split; discriminate.
Qed.

(** the state after the whole batch, and the specification it refines *)
Lemma batch_end v0 sp H0 ns nl : inv v0 sp -> sHT sp = Some (Tl, H0) -> Forall hiN ns ->
  (nl = true -> ns = []) -> (nl = false -> ns <> []) ->
  let s3 := advance_head (pend_add v0 (map c ns)) in
  let r := if (N.of_nat (size (pend_h s3)) <? batch s3) && negb nl then s3
           else if (size (pend_h s3) =? 0)%nat then s3 else set_pend (write s3 (commit_ops s3)) ∅ ∅ in
  inv r (spec_append sp ns).
Proof.
  intros I E F Hn1 Hn2 s3 r. pose proof (hiN_inr ns F) as Fi.
  assert (Hge : forall n, In n ns -> Tl <= n) by (intros n Hn; destruct (FIn _ _ _ F Hn); lia).
  destruct (batch_facts v0 sp Tl H0 ns (proj1 I) E Fi Hge) as (_ & R3 & _). fold s3 in R3.
  destruct (pinv_ptrs_set v0 sp H0 (proj1 I) E) as [Ph Pt].
  assert (EF : flush_one v0 (o_of nl ns) = (r, Ok)).
  { unfold flush_one. cbv zeta. fold (hs_of (o_of nl ns)). rewrite (hs_of_o nl ns Hn1).
    rewrite (ensure_init_set v0 (map c ns) Ph Pt). fold s3. rewrite R3.
    change (match o_of nl ns with Some _ => true | None => false end) with (is_some (o_of nl ns)).
    rewrite is_some_o. unfold r.
    destruct ((N.of_nat (size (pend_h s3)) <? batch s3) && negb nl); auto.
    destruct (size (pend_h s3) =? 0)%nat; auto. }
  destruct nl.
  - rewrite (Hn1 eq_refl) in *. cbn [spec_append]. destruct (flush_none_inv v0 sp I) as (s4 & E4 & I4 & _).
    unfold o_of in EF. rewrite EF in E4. injection E4 as <-. exact I4.
  - destruct (append_inv v0 sp ns I Fi) as [IA _].
    assert (EA : append v0 (map c ns) = flush_one v0 (Some (map c ns))).
    { specialize (Hn2 eq_refl). destruct ns; [contradiction|reflexivity]. }
    rewrite EA in IA. unfold o_of in EF. rewrite EF in IA. exact IA.
Qed.

Lemma write_commit_stored s n : minv s -> stored (write s (commit_ops s)) n <-> stored s n.
Proof.
  intros M. destruct (commit_minv s M) as [_ St]. specialize (St n).
  destruct (write_frame s (commit_ops s)) as (W1 & _).
  unfold stored in *. unfold commit in St. cbn [pend_h d_idx set_pend] in St.
  rewrite lookup_empty in St. rewrite W1. split.
  - intros [Hp|Hd]; [left; auto|]. apply St. right. exact Hd.
  - intros Hs. destruct (proj2 St Hs) as [[? Hx]|Hd]; [discriminate|]. right. exact Hd.
Qed.

(** what holds in every micro-state of the flush goroutine on its own *)
Record solo (v : st) : Prop := {
  so_m : minv v;
  so_tl : tailp v = Some (c Tl);
  so_hd : exists H, headp v = Some (c H) /\ hsh v = H /\ to <= H /\ inr H /\ forall n, Tl <= n <= H -> stored v n;
  so_lo : forall n, Lo <= n < Tl -> ~ stored v n;
  so_below : ~ stored v (Tl - 1);
  so_pend : forall n, is_Some (pend_h v !! n) -> PP n
}.

Lemma gstate_solo v0 sp H0 ns f : inv v0 sp -> sHT sp = Some (Tl, H0) -> to <= H0 ->
  (forall n, Lo <= n < Tl -> n ∉ sS sp) -> (forall n, is_Some (pend_h v0 !! n) -> PP n) -> Forall hiN ns ->
  (f = FIdle -> ns = []) -> solo (gstate v0 ns f).
Proof.
  intros I E Hle HLo HP F GF.
  pose proof (hiN_inr ns F) as Fi.
  assert (Hge : forall n, In n ns -> Tl <= n) by (intros n Hn; destruct (FIn _ _ _ F Hn); lia).
  destruct (batch_facts v0 sp Tl H0 ns (proj1 I) E Fi Hge)
    as (_ & _ & M1 & M3 & HS1 & SM & SD & Hd1 & Hs1 & Tl1 & Hd3 & Hs3 & Tl3 & Hle' & HH' & _ & Hle0 & St & Top & Bot).
  set (s1 := pend_add v0 (map c ns)) in *. set (s3 := advance_head s1) in *.
  set (S' := sS sp ∪ list_to_set ns) in *. set (H' := run_up (Datatypes.S (size S')) S' H0) in *.
  destruct (inv_TH v0 sp Tl H0 (proj1 I) E) as (_ & HH0 & _).
  assert (LoS : forall n, Lo <= n < Tl -> n ∉ S').
  { intros n Hn. unfold S'. rewrite elem_of_union, elem_of_list_to_set, elem_of_list_In.
    intros [Hs|Hs]; [apply (HLo n Hn Hs)|]. destruct (FIn _ _ _ F Hs). lia. }
  assert (P1 : forall n, is_Some (pend_h s1 !! n) -> PP n).
  { intros n [h Hn]. destruct (pend_add_fields v0 (map c ns)) as (E1 & _). fold s1 in E1. rewrite E1 in Hn.
    apply ins_inv in Hn. destruct Hn as [Hn|(y & Hy & Hk & _)]; [apply HP; eauto|].
    apply in_map_iff in Hy. destruct Hy as (m & <- & Hm). pose proof (FIn _ _ _ F Hm) as Hh.
    rewrite c_height in Hk by (destruct Hh; auto). subst m. apply PP_hi; auto. }
  assert (HS3 : forall n, stored s3 n <-> stored s1 n) by (intros n; apply (same_maps_stored s1 s3 n SM)).
  assert (So1 : solo s1).
  { split; auto.
    - exists H0. split_and!; auto. intros n Hn. apply HS1, St. lia.
    - intros n Hn. rewrite <- HS1. auto.
    - rewrite <- HS1. auto. }
  assert (So3 : solo s3).
  { split; auto.
    - exists H'. split_and!; auto; [lia|]. intros n Hn. apply HS3, HS1, St. lia.
    - intros n Hn. rewrite HS3, <- HS1. auto.
    - rewrite HS3, <- HS1. auto.
    - intros n. destruct SM as (-> & _). auto. }
  destruct f; cbn [gstate]; fold s1 s3; auto.
  - (* idle *) rewrite (GF eq_refl) in *. pose proof I as [[M HS P] _]. unfold ptrs_core in P. rewrite E in P.
    destruct P as (P1' & P2 & P3 & P4 & P5 & P6 & P7). split; auto.
    + exists H0. split_and!; auto.
    + intros n Hn. rewrite <- HS. auto.
  - (* committed, not yet reset *)
    destruct (write_commit_facts s3 M3) as (M5 & _ & W3 & W4 & W5).
    destruct (write_frame s3 (commit_ops s3)) as (W1 & _).
    pose proof (fun n => write_commit_stored s3 n M3) as HS5.
    split.
    + exact M5.
    + rewrite W4. exact Tl3.
    + exists H'. split_and!; auto; try congruence; [lia|]. intros n Hn. apply HS5, HS3, HS1, St. lia.
    + intros n Hn. rewrite HS5, HS3, <- HS1. auto.
    + rewrite HS5, HS3, <- HS1. auto.
    + intros n. rewrite W1. apply So3.
Qed.

Lemma GS_solo v q f : GS v q f -> solo v.
Proof.
  intros (v0 & sp & H0 & qn & ns & nl & I & E & Hle & HLo & HP & -> & Fq & F & Hn1 & _ & -> & GF).
  apply (gstate_solo v0 sp H0 ns f); auto. intros ->. exact GF.
Qed.

(** one step *)
Lemma GS_step v q f v' q' f' : GS v q f -> fstep v q f = Some (v', q', f') -> GS v' q' f'.
Proof.
  intros (v0 & sp & H0 & qn & ns & nl & I & E & Hle & HLo & HP & -> & Fq & F & Hn1 & EQ & -> & GF) St.
  pose proof (hiN_inr ns F) as Fi.
  assert (Hge : forall n, In n ns -> Tl <= n) by (intros n Hn; destruct (FIn _ _ _ F Hn); lia).
  destruct (batch_facts v0 sp Tl H0 ns (proj1 I) E Fi Hge)
    as (EI & R3 & M1 & M3 & HS1 & SM & SD & Hd1 & Hs1 & Tl1 & Hd3 & Hs3 & Tl3 & Hle' & HH' & _ & Hle0 & Stt & Top & Bot).
  set (s1 := pend_add v0 (map c ns)) in *. set (s3 := advance_head s1) in *.
  (* the configuration after a completed batch *)
  assert (Done : forall r, inv r (spec_append sp ns) -> (forall n, is_Some (pend_h r !! n) -> PP n) ->
                 GS r (map (map c) qn) FIdle).
  { intros r Ir Pr. destruct ns as [|n0 ns'] eqn:Ens.
    - exists r, sp, H0, qn, [], false. cbn [spec_append] in *. split_and!; auto; try discriminate. constructor.
    - rewrite <- Ens in *. assert (Hne : ns <> []) by (rewrite Ens; discriminate).
      pose proof (spec_append_HT v0 sp Tl H0 ns (proj1 I) E Hne Fi Hge) as ESp. cbv zeta in ESp.
      set (S' := sS sp ∪ list_to_set ns) in *. set (H' := run_up (Datatypes.S (size S')) S' H0) in *.
      exists r, (spec_append sp ns), H', qn, [], false. cbn [spec_append].
      split_and!; auto; try discriminate; try (rewrite ESp; reflexivity); try lia; try constructor.
      intros n Hn. rewrite ESp. cbn [sS]. unfold S'.
      rewrite elem_of_union, elem_of_list_to_set, elem_of_list_In.
      intros [Hs|Hs]; [apply (HLo n Hn Hs)|]. destruct (FIn _ _ _ F Hs). lia. }
  assert (P3 : forall n, is_Some (pend_h s3 !! n) -> PP n).
  { assert (So : solo s3); [|apply So].
    apply (gstate_solo v0 sp H0 ns (FRec None)); auto. discriminate. }
  destruct f; cbn [gstate fstep] in St; cbn [gflag] in GF.
  - (* idle: take the next batch *)
    subst ns. cbn [spec_append] in EQ.
    destruct qn as [|ns1 rn]; [discriminate|]. cbn [map] in St.
    pose proof (Forall_inv Fq) as F1. pose proof (Forall_inv_tail Fq) as Fr.
    destruct ns1 as [|n1 ns1'].
    + cbn [map] in St. injection St as <- <- <-. cbn [fold_left spec_append] in EQ.
      exists v0, sp, H0, rn, [], nl. split_and!; auto. cbn. auto.
    + assert (Es : map c (n1 :: ns1') = c n1 :: map c ns1') by reflexivity.
      rewrite Es in St. injection St as <- <- <-. rewrite <- Es.
      exists v0, sp, H0, rn, (n1 :: ns1'), false. cbn [fold_left] in EQ.
      rewrite (gcomm v0 sp H0 (n1 :: ns1') I E Hle F1) in EQ.
      split_and!; auto; try discriminate; cbn; split; auto; discriminate.
  - (* ensureInit *)
    destruct GF as [-> Hn2]. rewrite (hs_of_o nl ns Hn1) in St. fold s1 in St. rewrite EI in St. injection St as <- <- <-.
    exists v0, sp, H0, qn, ns, nl. split_and!; auto. cbn. auto.
  - (* advanceHead *)
    destruct GF as [-> Hn2]. injection St as <- <- <-.
    exists v0, sp, H0, qn, ns, nl. split_and!; auto. cbn. auto.
  - (* recedeTail and the decision *)
    destruct GF as [-> Hn2]. fold s1 s3 in St. rewrite R3, is_some_o in St.
    pose proof (batch_end v0 sp H0 ns nl I E F Hn1 Hn2) as BE. cbv zeta in BE. fold s1 s3 in BE.
    destruct ((N.of_nat (size (pend_h s3)) <? batch s3) && negb nl) eqn:C1.
    { injection St as <- <- <-. apply Done; auto. }
    destruct (size (pend_h s3) =? 0)%nat eqn:C2.
    { injection St as <- <- <-. apply Done; auto. }
    injection St as <- <- <-.
    exists v0, sp, H0, qn, ns, nl. split_and!; auto. cbn. fold s1 s3. unfold commits. rewrite negb_involutive. auto.
  - (* load *)
    destruct GF as (-> & Cm & Hn2). injection St as <- <- <-.
    exists v0, sp, H0, qn, ns, nl. split_and!; auto. cbn. auto.
  - (* commit *)
    destruct GF as (-> & Cm & Hn2 & ->). injection St as <- <- <-.
    exists v0, sp, H0, qn, ns, nl. split_and!; auto. cbn. auto.
  - (* reset *)
    destruct GF as (-> & Cm & Hn2). injection St as <- <- <-. fold s1 s3.
    pose proof (batch_end v0 sp H0 ns nl I E F Hn1 Hn2) as BE. cbv zeta in BE. fold s1 s3 in BE.
    unfold commits in Cm. fold s1 s3 in Cm. destruct Cm as [C1 C2]. rewrite C1, C2 in BE. apply Done; auto.
    intros n. cbn. rewrite lookup_empty. intros [? ?]; discriminate.
Qed.

End gs.
End solo.

Arguments GS c U to Tl Lo g PP spE v q f : clear implicits.
Arguments solo c U to Tl Lo PP v : clear implicits.
Arguments hiN U to n : clear implicits.
Arguments gstate c v0 ns f : clear implicits.

(** monotonicity of one step of the flush goroutine on its own *)
Section mono.
Context {c : N -> hdr} {U : N} {CH : chain_hyps c U}.
Notation inr := (inr U).
Notation inv := (inv c U).
Variables (to Tl Lo : N) (g : spec -> spec) (PP : N -> Prop) (spE : spec).
Hypothesis HTl : inr Tl.
Hypothesis HTlto : Tl <= to.
Hypothesis PP_hi : forall n, hiN U to n -> PP n.
Hypothesis gcomm : forall v0 sp H0 ns, inv v0 sp -> sHT sp = Some (Tl, H0) -> to <= H0 -> Forall (hiN U to) ns ->
  spec_append (g sp) ns = g (spec_append sp ns).

Lemma GS_step_mono v q f v' q' f' : GS c U to Tl Lo g PP spE v q f -> fstep v q f = Some (v', q', f') ->
  head_h v <= head_h v' /\ hsh v <= hsh v' /\ forall n, stored v n -> stored v' n.
Proof.
  intros G St. pose proof (GS_solo to Tl Lo g PP spE HTlto PP_hi gcomm v q f G) as So.
  destruct (so_hd _ _ _ _ _ So) as (H & Hd & Hh & Hle & HH & Stt).
  pose proof (so_m _ _ _ _ _ So) as M.
  destruct f; cbn [fstep] in St.
  - destruct q as [|hs r]; [discriminate|]. destruct hs as [|h0 hs].
    + injection St as <- <- <-. split_and!; auto; lia.
    + injection St as <- <- <-.
      destruct (pend_add_fields v (h0 :: hs)) as (E1 & _ & _ & E4 & _ & _ & E5 & _ & E7).
      unfold head_h. rewrite E5, E7. split_and!; try lia.
      intros n [[h Hn]|Hn]; [left|right; rewrite E4; auto]. rewrite E1.
      destruct (ins_all h_height (fun h => h) (h0 :: hs) (pend_h v) !! n) eqn:E; [eauto|].
      apply ins_none in E. destruct E; congruence.
  - injection St as <- <- <-. rewrite ensure_init_set; [split_and!; auto; lia| |]; rewrite ?Hd, ?(so_tl _ _ _ _ _ So); discriminate.
  - injection St as <- <- <-.
    set (S := dom (pend_h v) ∪ dom (d_idx v) : gset N).
    assert (HS : forall n, n ∈ S <-> stored v n).
    { intros n. unfold S, stored. rewrite elem_of_union, !elem_of_dom. tauto. }
    assert (PS : pstored c v).
    { intros h [E|E]; rewrite ?Hd, ?(so_tl _ _ _ _ _ So) in E; injection E as <-; eexists; split; eauto; apply Stt; lia. }
    destruct (advance_head_spec v S H M PS HS Hd Hh HH) as [B1 B2].
    assert (SI : forall n, n ∈ S -> inr n) by (intros n Hn; apply HS in Hn; eapply stored_inr; eauto).
    destruct (run_up_spec U (@ch_bound c U CH) S SI (Datatypes.S (size S)) H) as (A1 & A2 & _); [destruct HH; auto|].
    destruct (advance_head_frame v) as (F1 & _).
    unfold head_h. rewrite B1, B2, Hd, Hh. rewrite !(@ch_height c U CH); auto; [|destruct HH; split; lia].
    split_and!; auto. intros n Hn. apply (same_maps_stored v (advance_head v) n F1). auto.
  - destruct (recede_tail_frame v) as (F1 & _ & F3 & F4).
    assert (K : head_h v <= head_h (recede_tail v) /\ hsh v <= hsh (recede_tail v) /\
                forall n, stored v n -> stored (recede_tail v) n).
    { unfold head_h. rewrite F3, F4. split_and!; try lia. intros n Hn. apply (same_maps_stored v _ n F1). auto. }
    destruct (_ && _); [injection St as <- <- <-; auto|].
    destruct (_ =? _)%nat; injection St as <- <- <-; auto.
  - injection St as <- <- <-. split_and!; auto; lia.
  - injection St as <- <- <-.
    destruct G as (v0 & sp & H0 & qn & ns & nl' & I & E & _ & _ & _ & _ & _ & F & _ & _ & Ev & GF).
    cbn in GF. destruct GF as (_ & _ & _ & ->). cbn [gstate] in Ev. rewrite <- Ev.
    destruct (write_frame v (commit_ops v)) as (_ & _ & W3 & _ & W5 & _).
    unfold head_h. rewrite W3, W5. split_and!; try lia. intros n Hn. apply write_commit_stored; auto.
  - injection St as <- <- <-.
    destruct G as (v0 & sp & H0 & qn & ns & nl' & I & E & Hle0 & HLo & HP & _ & _ & F & _ & _ & Ev & GF).
    cbn [gstate] in Ev.
    assert (M3 : minv c U (advance_head (pend_add v0 (map c ns)))).
    { assert (So3 : solo c U to Tl Lo PP (gstate c v0 ns (FRec None))) by (eapply (gstate_solo to Tl Lo g PP HTlto PP_hi gcomm); eauto; discriminate).
      apply So3. }
    set (s3 := advance_head (pend_add v0 (map c ns))) in *.
    destruct (commit_minv s3 M3) as [_ St6]. unfold commit in St6.
    unfold head_h. subst v. cbn [headp hsh set_pend]. split_and!; try lia.
    intros n Hn. apply St6. apply (write_commit_stored s3 n M3). exact Hn.
Qed.

End mono.
