(** Proofs about Model/Tail.v: the tail-height arithmetic. *)
From Coq Require Import ZifyBool ZifyNat ZifyN.
From GH Require Import Base.Prelude Model.Tail.

Local Open Scope Z_scope.

(** * int64 helpers *)
Lemma two63_val : two63 = 2 ^ 63. Proof. reflexivity. Qed.

Definition in64 (x : Z) : Prop := min64 <= x <= max64.

Lemma wrapi64_id x : in64 x -> wrapi64 x = x.
Proof.
  unfold in64, wrapi64, min64, max64, two63. intros H.
  rewrite Z.mod_small; lia.
Qed.

Lemma sat64_id x : in64 x -> sat64 x = x.
Proof. unfold in64, sat64. lia. Qed.

Lemma sat64_sign_pos x : 0 < sat64 x <-> 0 < x.
Proof. unfold sat64, min64, max64, two63. lia. Qed.

Lemma sat64_le0 x : sat64 x <= 0 <-> x <= 0.
Proof. unfold sat64, min64, max64, two63. lia. Qed.

Lemma u64_nonneg x : 0 <= x < 2 * two63 -> u64 x = Z.to_N x.
Proof. intros H. unfold u64. rewrite Z.mod_small; auto. Qed.

Lemma u64_lt x : (u64 x < two64)%N.
Proof.
  unfold u64, two64, two63.
  pose proof (Z.mod_pos_bound x (2 * 9223372036854775808) ltac:(lia)). lia.
Qed.

Lemma div64_none a b : div64 a b = None <-> b = 0.
Proof. unfold div64. destruct (Z.eqb_spec b 0); split; intros; try discriminate; auto; contradiction. Qed.

Lemma div64_pos a b : 0 <= a -> 0 < b -> in64 a -> div64 a b = Some (a / b).
Proof.
  intros Ha Hb Hin. unfold div64. destruct (Z.eqb_spec b 0); [lia|].
  rewrite Z.quot_div_nonneg by lia. f_equal. apply wrapi64_id.
  unfold in64, min64, max64, two63 in *.
  pose proof (Z.div_pos a b Ha Hb). pose proof (Z.div_le_upper_bound a b max64 Hb).
  assert (a / b <= a) by (apply Z.div_le_upper_bound; nia). lia.
Qed.


(** * estimateTailHeight *)
Lemma estimate_no_panic tp b h : estimate_tail tp b h <> TPanic.
Proof.
  unfold estimate_tail. destruct (Z.leb_spec b 0); [discriminate|].
  destruct (div64 tp b) eqn:E; [destruct (_ <=? _)%N; discriminate|].
  apply div64_none in E. lia.
Qed.

Lemma estimate_in_chain tp b h : (1 <= h)%N ->
  exists x, estimate_tail tp b h = TVal x /\ (1 <= x <= h)%N.
Proof.
  intros Hh. unfold estimate_tail. destruct (Z.leb_spec b 0); [exists 1%N; split; [reflexivity|lia]|].
  destruct (div64 tp b) as [q|] eqn:E; [|apply div64_none in E; lia].
  destruct (N.leb_spec h (u64 q)); eexists; split; try reflexivity; lia.
Qed.

(** * the two scans *)
(** upward: with enough fuel and every store lookup in (oldH, storeH) answering,
    the scan returns a height x >= cur; every height it passed is older than E; it
    stops below storeH only at a header that is not older than E *)
Lemma scan_spec : forall fuel E oldH storeH time_at cur,
  (N.to_nat (storeH - cur) < fuel)%nat ->
  (forall h, (oldH < h < storeH)%N -> exists t, time_at h = Some t) ->
  exists x, scan fuel E oldH storeH time_at cur = TVal x /\
    (cur <= x)%N /\
    ((oldH < cur < storeH)%N -> (x <= storeH)%N) /\
    (~ (oldH < cur < storeH)%N -> x = cur) /\
    (forall h, (cur <= h < x)%N -> exists t, time_at h = Some t /\ t < E) /\
    ((oldH < x < storeH)%N -> exists t, time_at x = Some t /\ E <= t).
Proof.
  induction fuel as [|f IH]; intros E oldH storeH time_at cur Hf Hl.
  - lia.
  - cbn [scan].
    destruct ((oldH <? cur)%N && (cur <? storeH)%N) eqn:C.
    + assert (Hc : (oldH < cur < storeH)%N) by lia.
      destruct (Hl cur Hc) as [t Ht]. rewrite Ht.
      destruct (Z.leb_spec E t).
      * exists cur. repeat split; try lia. intros _. exists t; auto.
      * destruct (IH E oldH storeH time_at (cur + 1)%N ltac:(lia) Hl) as [x (Hx & Hge & Hle & Heq & Hold & Hstop)].
        exists x. rewrite Hx. split; [reflexivity|]. split; [lia|]. split.
        { intros _. destruct (N.ltb_spec (cur + 1) storeH).
          - apply Hle. lia.
          - rewrite Heq; lia. }
        split; [lia|]. split.
        { intros h Hh. destruct (N.eq_dec h cur) as [->|Hne].
          - exists t; auto.
          - apply Hold. lia. }
        exact Hstop.
    + exists cur. repeat split; try lia.
Qed.

(** downward: returns c <= cur; every header in [c, cur) is NOT older than E; it
    stops above oldH only below a header that is older than E *)
Lemma scan_down_spec : forall fuel E oldH storeH time_at cur,
  (N.to_nat (cur - oldH) < fuel)%nat ->
  (forall h, (oldH <= h <= storeH)%N -> exists t, time_at h = Some t) ->
  exists c, scan_down fuel E oldH storeH time_at cur = TVal c /\
    (c <= cur)%N /\
    ((oldH < cur <= storeH + 1)%N -> (oldH <= c)%N) /\
    (~ (oldH < cur <= storeH + 1)%N -> c = cur) /\
    (forall h, (c <= h < cur)%N -> exists t, time_at h = Some t /\ E <= t) /\
    ((oldH < cur <= storeH + 1)%N -> (oldH < c)%N -> exists t, time_at (c - 1)%N = Some t /\ t < E).
Proof.
  induction fuel as [|f IH]; intros E oldH storeH time_at cur Hf Hl.
  - lia.
  - cbn [scan_down].
    destruct ((oldH <? cur)%N && (cur - 1 <=? storeH)%N) eqn:C.
    + assert (Hc : (oldH < cur <= storeH + 1)%N) by lia.
      destruct (Hl (cur - 1)%N ltac:(lia)) as [t Ht]. rewrite Ht.
      destruct (Z.ltb_spec t E).
      * exists cur. repeat split; try lia. intros _ _. exists t; auto.
      * destruct (IH E oldH storeH time_at (cur - 1)%N ltac:(lia) Hl) as [c (Hx & Hle & Hge & Heq & Hyoung & Hstop)].
        exists c. rewrite Hx. split; [reflexivity|]. split; [lia|]. split.
        { intros _. destruct (N.ltb_spec oldH (cur - 1)).
          - apply Hge. lia.
          - rewrite Heq; lia. }
        split; [lia|]. split.
        { intros h Hh. destruct (N.eq_dec h (cur - 1)) as [->|Hne].
          - exists t; split; [assumption|lia].
          - apply Hyoung. lia. }
        intros _ Hoc. destruct (N.ltb_spec oldH (cur - 1)).
        -- apply Hstop; [lia|assumption].
        -- rewrite Heq in Hoc by lia. lia.
    + exists cur. repeat split; try lia.
Qed.

Lemma scan_not_panic : forall fuel E oldH storeH time_at cur,
  scan fuel E oldH storeH time_at cur <> TPanic.
Proof.
  induction fuel as [|f IH]; intros; cbn [scan].
  - destruct (_ && _); discriminate.
  - destruct (_ && _); [|discriminate]. destruct (time_at cur); [|discriminate].
    destruct (_ <=? _); [discriminate|]. apply IH.
Qed.

Lemma scan_down_not_panic : forall fuel E oldH storeH time_at cur,
  scan_down fuel E oldH storeH time_at cur <> TPanic.
Proof.
  induction fuel as [|f IH]; intros; cbn [scan_down].
  - destruct (_ && _); discriminate.
  - destruct (_ && _); [|discriminate]. destruct (time_at (cur - 1)%N); [|discriminate].
    destruct (_ <? _); [discriminate|]. apply IH.
Qed.

(** * findTailHeight *)
Lemma find_estimate_some w b oldH oldT headH headT : exists r, find_estimate w b oldH oldT headH headT = Some r.
Proof.
  unfold find_estimate. destruct (_ || _ || _) eqn:G; [eauto|].
  assert (Hb : b <> 0) by lia.
  destruct (w <=? _).
  - destruct (div64 w b) eqn:E; [eauto|apply div64_none in E; contradiction].
  - match goal with |- context [div64 ?a b] => destruct (div64 a b) eqn:E; [eauto|apply div64_none in E; contradiction] end.
Qed.

(** never panics: every division is guarded by blockTime > 0 *)
Lemma find_tail_no_panic w b oldH oldT headH headT storeH time_at :
  find_tail w b oldH oldT headH headT storeH time_at <> TPanic.
Proof.
  unfold find_tail. destruct (find_estimate_some w b oldH oldT headH headT) as [r ->].
  destruct r as [e|]; [|discriminate].
  match goal with |- context [scan_down ?f ?E ?o ?s ?t ?c] =>
    pose proof (scan_down_not_panic f E o s t c); destruct (scan_down f E o s t c) end;
    try discriminate; try contradiction.
  apply scan_not_panic.
Qed.

(** the estimate lies between the old tail and the head *)
Lemma find_estimate_range w b oldH oldT headH headT e :
  (headH < two64)%N ->
  find_estimate w b oldH oldT headH headT = Some (Some e) -> (oldH < headH /\ oldH <= e <= headH)%N.
Proof.
  intros H64. unfold find_estimate. destruct (_ || _ || _) eqn:G; [discriminate|].
  assert (Hlt : (oldH < headH)%N) by lia.
  assert (Hc : forall k, (clamp_count k oldH headH <= headH - oldH)%N).
  { intros k. unfold clamp_count, sub64. destruct (N.leb_spec oldH headH); [|lia].
    destruct (N.leb_spec (headH - oldH) k); lia. }
  destruct (w <=? _).
  - destruct (div64 w b); [|discriminate]. intros HH; inversion HH; subst. clear HH.
    specialize (Hc (u64 z)). unfold sub64. destruct (N.leb_spec (clamp_count (u64 z) oldH headH) headH); lia.
  - match goal with |- context [div64 ?a b] => destruct (div64 a b) end; [|discriminate]. intros HH; inversion HH; subst. clear HH.
    specialize (Hc (u64 z)). rewrite (fun x H => N.mod_small x two64 H : wrap64 x = x) by lia. lia.
Qed.

(** the cap at store head + 1 *)
Lemma cap_spec storeH e0 : (storeH + 1 < two64)%N ->
  (if wrap64 (storeH + 1) <? e0 then wrap64 (storeH + 1) else e0)%N = N.min e0 (storeH + 1).
Proof.
  intros H. rewrite (N.mod_small _ _ H : wrap64 (storeH + 1) = (storeH + 1)%N).
  destruct (N.ltb_spec (storeH + 1) e0); lia.
Qed.

(** C16 "never wraps", any spacing of header times: the result is a height between
    the old tail and the head, and at most one above the store's head *)
Lemma find_tail_in_range w b oldH oldT headH headT storeH time_at :
  (headH < two64)%N -> (storeH + 1 < two64)%N -> (oldH <= storeH <= headH)%N ->
  (forall h, (oldH <= h <= storeH)%N -> exists t, time_at h = Some t) ->
  exists x, find_tail w b oldH oldT headH headT storeH time_at = TVal x /\
            (oldH <= x <= headH)%N /\ (x <= storeH + 1)%N.
Proof.
  intros H64 Hs64 Hs Hl. unfold find_tail.
  destruct (find_estimate_some w b oldH oldT headH headT) as [r Hr]. rewrite Hr.
  destruct r as [e0|]; [|exists oldH; split; [reflexivity|lia]].
  destruct (find_estimate_range _ _ _ _ _ _ _ H64 Hr) as [Hlt He].
  rewrite (cap_spec storeH e0 Hs64). set (e := N.min e0 (storeH + 1)).
  set (E := headT + wrapi64 (- w)).
  destruct (scan_down_spec (S (N.to_nat (e - oldH))) E oldH storeH time_at e ltac:(lia) Hl)
    as [c (Hc & Hle & Hge & Heq & _ & _)]. rewrite Hc.
  assert (Hl' : forall h, (oldH < h < storeH)%N -> exists t, time_at h = Some t) by (intros; apply Hl; lia).
  destruct (scan_spec (S (N.to_nat (storeH - c))) E oldH storeH time_at c ltac:(lia) Hl')
    as [x (Hx & Hge' & Hle' & Heq' & _ & _)].
  exists x. split; [exact Hx|].
  assert (Hcr : (oldH <= c <= e)%N).
  { destruct (N.ltb_spec oldH e); [split; [apply Hge; lia|lia]|rewrite Heq; lia]. }
  destruct (N.ltb_spec oldH c); destruct (N.ltb_spec c storeH); try (rewrite Heq'; lia).
  specialize (Hle' ltac:(lia)). lia.
Qed.

(** * header times spaced by at most the block time *)
Definition sane (x : Z) : Prop := - 2 ^ 61 <= x <= 2 ^ 61.

Section Spacing.
  Variables (t : N -> Z) (B : Z) (lo hi : N).
  Hypothesis HB : 0 < B.
  Hypothesis Hsp : forall h, (lo <= h < hi)%N -> 0 <= t (h + 1)%N - t h <= B.

  Lemma spacing_sum : forall k a, (lo <= a)%N -> (a + k <= hi)%N ->
    t a <= t (a + k)%N <= t a + Z.of_N k * B.
  Proof.
    induction k as [|k IH] using N.peano_ind; intros a Ha Hk.
    - rewrite N.add_0_r. lia.
    - specialize (IH a Ha ltac:(lia)).
      pose proof (Hsp (a + k)%N ltac:(lia)) as S1.
      replace (a + N.succ k)%N with (a + k + 1)%N by lia.
      nia.
  Qed.

  Lemma spacing_mono a b : (lo <= a <= b)%N -> (b <= hi)%N -> t a <= t b <= t a + Z.of_N (b - a) * B.
  Proof.
    intros H1 H2. pose proof (spacing_sum (b - a) a ltac:(lia) ltac:(lia)) as S.
    replace (a + (b - a))%N with b in S by lia. exact S.
  Qed.
End Spacing.

Lemma mono_of_nonneg (t : N -> Z) lo hi :
  (forall h, (lo <= h < hi)%N -> 0 <= t (h + 1)%N - t h) ->
  forall a c, (lo <= a <= c)%N -> (c <= hi)%N -> t a <= t c.
Proof.
  intros Hm a c Hac Hc. replace c with (a + (c - a))%N by lia.
  assert (Hd : (a + (c - a) <= hi)%N) by lia. revert Hd.
  generalize (c - a)%N as d. induction d as [|d IH] using N.peano_ind; intros Hd.
  - rewrite N.add_0_r. lia.
  - specialize (IH ltac:(lia)). pose proof (Hm (a + d)%N ltac:(lia)).
    replace (a + N.succ d)%N with (a + d + 1)%N by lia. lia.
Qed.

(** C16 window clause, any block time, any window, any estimate: with header
    times of the stored headers non-decreasing, the new tail has only headers
    older than the window below it *)
Lemma find_tail_keeps_window (t : N -> Z) w b oldH oldT headH headT storeH time_at x :
  (oldH <= storeH)%N -> (storeH + 1 < two64)%N ->
  (forall h, (oldH <= h < storeH)%N -> 0 <= t (h + 1)%N - t h) ->
  (forall h, (oldH <= h <= storeH)%N -> time_at h = Some (t h)) ->
  find_tail w b oldH oldT headH headT storeH time_at = TVal x ->
  forall h, (oldH <= h < x)%N -> t h < headT + wrapi64 (- w).
Proof.
  intros Hos Hs64 Hmono Hl. unfold find_tail.
  assert (Hl1 : forall h, (oldH <= h <= storeH)%N -> exists t0, time_at h = Some t0) by (intros; eexists; apply Hl; lia).
  assert (Hl2 : forall h, (oldH < h < storeH)%N -> exists t0, time_at h = Some t0) by (intros; apply Hl1; lia).
  destruct (find_estimate_some w b oldH oldT headH headT) as [r ->].
  destruct r as [e0|]; [|intros HH; inversion HH; subst; intros; lia].
  rewrite (cap_spec storeH e0 Hs64). set (e := N.min e0 (storeH + 1)).
  set (E := headT + wrapi64 (- w)).
  destruct (scan_down_spec (S (N.to_nat (e - oldH))) E oldH storeH time_at e ltac:(lia) Hl1)
    as [c (Hc & Hle & Hge & Heq & _ & Hstop)]. rewrite Hc.
  destruct (scan_spec (S (N.to_nat (storeH - c))) E oldH storeH time_at c ltac:(lia) Hl2)
    as [x' (Hx & Hge' & Hle' & Heq' & Hold & _)]. rewrite Hx.
  intros HH; inversion HH; subst x'. clear HH. intros h Hh.
  pose proof (mono_of_nonneg t oldH storeH Hmono) as Mono.
  destruct (N.ltb_spec oldH e) as [Hoe|Hoe].
  - (* the downward scan ran *)
    specialize (Hge ltac:(lia)).
    destruct (N.ltb_spec oldH c) as [Hoc|Hoc].
    + destruct (Hstop ltac:(lia) Hoc) as [t0 [Ht0 Hlt]]. rewrite Hl in Ht0 by lia. inversion Ht0; subst t0.
      destruct (N.ltb_spec h c).
      * pose proof (Mono h (c - 1)%N ltac:(lia) ltac:(lia)). lia.
      * destruct (Hold h ltac:(lia)) as [t1 [Ht1 Hlt1]].
        assert (h < storeH)%N.
        { destruct (N.ltb_spec c storeH); [specialize (Hle' ltac:(lia)); lia|rewrite Heq' in Hh by lia; lia]. }
        rewrite Hl in Ht1 by lia. inversion Ht1; subst. exact Hlt1.
    + rewrite Heq' in Hh by lia. lia.
  - rewrite Heq in * by lia. rewrite Heq' in * by lia. lia.
Qed.

(** * The abstract store *)
Local Open Scope N_scope.

(** one gap-free chain inside the network chain 1..n, nothing retrievable outside of it *)
Definition wf (st : store) (n : N) : Prop :=
  s_extra st = [] /\ ((s_tail st = 0 /\ s_head st = 0) \/ (1 <= s_tail st <= s_head st /\ s_head st <= n)).

Ltac nb :=
  repeat (match goal with
          | |- context [N.eqb ?a ?b] => destruct (N.eqb_spec a b)
          | |- context [N.ltb ?a ?b] => destruct (N.ltb_spec a b)
          | |- context [N.leb ?a ?b] => destruct (N.leb_spec a b)
          end; cbn [andb orb negb]; try lia).

Lemma st_norm_nil tl hd : st_norm tl hd [] = Store tl hd [].
Proof. reflexivity. Qed.

Lemma wrap64_small x : x < two64 -> wrap64 x = x.
Proof. intros. unfold wrap64. apply N.mod_small; assumption. Qed.

(** Store.Append of one chain header on a well-formed store *)
Lemma st_append_cases t h x :
  1 <= t <= h -> 1 <= x ->
  st_append (Store t h []) x =
    if (t <=? x) && (x <=? h) then Store t h []
    else if x =? h + 1 then Store t (h + 1) []
    else if x =? t - 1 then Store (t - 1) h []
    else Store t h [x].
Proof.
  intros Ht Hx. unfold st_append, st_has, st_empty, st_norm, mem. cbn.
  destruct (N.eqb_spec t 0); [lia|]. cbn.
  destruct ((t <=? x) && (x <=? h)) eqn:C; cbn; [reflexivity|].
  rewrite (N.eqb_sym (h + 1) x).
  destruct (N.eqb_spec x (h + 1)).
  - subst x. cbn. destruct (N.ltb_spec 1 t); cbn.
    + destruct (N.eqb_spec (t - 1) (h + 1)); [lia|]. cbn.
      destruct (N.ltb_spec (h + 1) t); [lia|]. cbn.
      destruct (N.ltb_spec (h + 1) (h + 1)); [lia|]. reflexivity.
    + destruct (N.ltb_spec (h + 1) t); [lia|]. cbn.
      destruct (N.ltb_spec (h + 1) (h + 1)); [lia|]. reflexivity.
  - cbn. rewrite (N.eqb_sym (t - 1) x). destruct (N.eqb_spec x (t - 1)).
    + subst x. destruct (N.ltb_spec 1 t); [|lia]. cbn.
      destruct (N.ltb_spec (t - 1) (t - 1)); [lia|]. cbn.
      destruct (N.ltb_spec h (t - 1)); [lia|]. reflexivity.
    + rewrite Bool.andb_false_r. cbn.
      destruct (N.ltb_spec x t); cbn; [reflexivity|].
      destruct (N.ltb_spec h x); [reflexivity|]. lia.
Qed.

Lemma st_append_empty x : st_append (Store 0 0 []) x = Store x x [].
Proof. reflexivity. Qed.

(** the common end of renewTail + moveTail: the chain header x becomes the tail *)
Inductive target_res (t h x n : N) : outcome * store * why -> Prop :=
| TRDone st' : wf st' n -> s_tail st' = x -> (h <= s_head st') -> target_res t h x n (OOk, st', WDone).

Lemma retarget_spec t h x n :
  1 <= t <= h -> h <= n -> 1 <= x <= n -> n + 2 < two64 ->
  target_res t h x n (move_tail (st_append (Store t h []) x) (Some t) x).
Proof.
  intros Ht Hh Hx H64. rewrite st_append_cases by lia.
  destruct ((t <=? x) && (x <=? h)) eqn:C.
  - (* already in the store *)
    unfold move_tail. destruct (N.ltb_spec t x).
    + unfold st_delete_range, st_empty, st_has, st_empty, mem. cbn.
      rewrite (wrap64_small (h + 1)) by lia.
      destruct (N.eqb_spec t 0); [lia|]. cbn.
      destruct (N.leb_spec x t); [lia|]. destruct (N.ltb_spec h t); [lia|]. cbn.
      rewrite N.eqb_refl. cbn.
      destruct (N.eqb_spec x (h + 1)); [lia|]. cbn.
      destruct (N.ltb_spec (h + 1) x); [lia|].
      destruct (N.leb_spec t x); [|lia]. destruct (N.leb_spec x h); [|lia]. cbn.
      replace (N.max x h) with h by lia.
      apply TRDone; cbn; try lia. split; cbn; [reflexivity|right; lia].
    + destruct (N.ltb_spec x t); [lia|].
      apply TRDone; cbn; try lia. split; cbn; [reflexivity|right; lia].
  - destruct (N.eqb_spec x (h + 1)).
    + (* adjacent above the head *)
      subst x. unfold move_tail. destruct (N.ltb_spec t (h + 1)); [|lia].
      unfold st_delete_range, st_empty, st_has, st_empty, mem. cbn.
      rewrite (wrap64_small (h + 1 + 1)) by lia.
      destruct (N.eqb_spec t 0); [lia|]. cbn.
      destruct (N.leb_spec (h + 1) t); [lia|]. destruct (N.ltb_spec (h + 1) t); [lia|]. cbn.
      rewrite N.eqb_refl. cbn.
      destruct (N.eqb_spec (h + 1) (h + 1 + 1)); [lia|]. cbn.
      destruct (N.ltb_spec (h + 1 + 1) (h + 1)); [lia|].
      destruct (N.leb_spec t (h + 1)); [|lia]. rewrite N.leb_refl. cbn.
      replace (N.max (h + 1) (h + 1)) with (h + 1) by lia.
      apply TRDone; cbn; try lia. split; cbn; [reflexivity|right; lia].
    + destruct (N.eqb_spec x (t - 1)).
      * (* adjacent below the tail *)
        unfold move_tail. destruct (N.ltb_spec t x); [lia|]. destruct (N.ltb_spec x t); [|lia].
        cbn [s_head]. unfold st_sync_down. cbn [s_tail].
        destruct (N.ltb_spec x (t - 1)); [lia|].
        apply TRDone; cbn; try lia. split; cbn; [reflexivity|right; lia].
      * destruct (N.ltb_spec x t).
        -- (* further below the tail *)
           unfold move_tail. destruct (N.ltb_spec t x); [lia|]. destruct (N.ltb_spec x t); [|lia].
           cbn [s_head]. unfold st_sync_down. cbn [s_tail s_head s_extra].
           destruct (N.ltb_spec x t); [|lia].
           assert (E : st_norm x h [x] = Store x h []).
           { unfold st_norm, mem. cbn.
             destruct (N.eqb_spec (h + 1) x); [lia|]. cbn.
             destruct (N.eqb_spec (x - 1) x).
             - destruct (N.ltb_spec 1 x); [lia|]. cbn.
               destruct (N.ltb_spec x x); [lia|]. cbn. destruct (N.ltb_spec h x); [lia|]. reflexivity.
             - rewrite Bool.andb_false_r. cbn.
               destruct (N.ltb_spec x x); [lia|]. cbn. destruct (N.ltb_spec h x); [lia|]. reflexivity. }
           rewrite E.
           apply TRDone; cbn; try lia. split; cbn; [reflexivity|right; lia].
        -- (* above head + 1: the store restarts from the new tail *)
           assert (h + 1 < x) by lia.
           unfold move_tail. destruct (N.ltb_spec t x); [|lia].
           cbn [s_head]. rewrite (wrap64_small (h + 1)) by lia.
           destruct (N.ltb_spec (h + 1) x); [|lia].
           assert (D : st_delete_range (Store t h [x]) t (h + 1) = Some (Store 0 0 [x])).
           { unfold st_delete_range, st_empty, st_has, st_empty, mem. cbn.
             rewrite (wrap64_small (h + 1)) by lia.
             destruct (N.eqb_spec t 0); [lia|]. cbn.
             destruct (N.leb_spec (h + 1) t); [lia|]. destruct (N.ltb_spec h t); [lia|]. cbn.
             rewrite !N.eqb_refl. cbn.
             destruct (N.leb_spec t (h + 1)); [|lia]. destruct (N.leb_spec (h + 1) h); [lia|]. cbn.
             destruct (N.eqb_spec (h + 1) x); [lia|]. reflexivity. }
           rewrite D.
           assert (E : st_append (Store 0 0 [x]) x = Store x x []).
           { unfold st_append, st_empty, st_norm, mem. cbn.
             destruct (N.eqb_spec (x + 1) x); [lia|]. cbn.
             destruct (N.eqb_spec (x - 1) x).
             - destruct (N.ltb_spec 1 x); [lia|]. cbn.
               destruct (N.ltb_spec x x); [lia|]. reflexivity.
             - rewrite Bool.andb_false_r. cbn.
               destruct (N.ltb_spec x x); [lia|]. reflexivity. }
           rewrite E.
           apply TRDone; cbn; try lia. split; cbn; [reflexivity|right; lia].
Qed.

(** what subjectiveTail can do to a well-formed store *)
Inductive sub_res (st : store) (n : N) : obs * why -> Prop :=
| SRPanic : sub_res st n (Obs OPanic [] st, WDivZero)
| SRStay req w : (w = WScan \/ w = WZero \/ w = WFetch) -> sub_res st n (Obs OErr req st, w)
| SRDone req st' : wf st' n -> s_tail st' <> 0 -> s_head st <= s_head st' ->
    Forall (fun h => 1 <= h <= n) req -> sub_res st n (Obs OOk req st', WDone).

Lemma wf_empty st n : wf st n -> st_empty st = true -> st = Store 0 0 [].
Proof.
  intros [He Hc] E. unfold st_empty in E. destruct st as [t h ex]. cbn in *. subst ex.
  assert (t = 0) by lia. destruct Hc as [[_ ->]|Hc]; [subst; reflexivity|lia].
Qed.

Lemma wf_nonempty st n : wf st n -> st_empty st = false ->
  st = Store (s_tail st) (s_head st) [] /\ 1 <= s_tail st <= s_head st /\ s_head st <= n.
Proof.
  intros [He Hc] E. unfold st_empty in E. destruct st as [t h ex]. cbn in *. subst ex.
  split; [reflexivity|]. destruct Hc as [[-> _]|Hc]; [discriminate|lia].
Qed.

Lemma target_step st n x req :
  wf st n -> 1 <= x <= n -> n + 2 < two64 -> Forall (fun h => 1 <= h <= n) req ->
  sub_res st n (moved req (move_tail (st_append st x) (if st_empty st then None else Some (s_tail st)) x)).
Proof.
  intros Hwf Hx H64 Hreq. destruct (st_empty st) eqn:E.
  - rewrite (wf_empty st n Hwf E). rewrite st_append_empty. cbn.
    apply SRDone; cbn; try lia; auto. split; cbn; [reflexivity|right; lia].
  - destruct (wf_nonempty st n Hwf E) as (Hst & Ht & Hh).
    pose proof (retarget_spec (s_tail st) (s_head st) x n Ht Hh Hx H64) as R.
    rewrite <- Hst in R.
    set (r := move_tail (st_append st x) (Some (s_tail st)) x) in *. clearbody r.
    destruct R as [st' W1 W2 W3]; cbn [moved].
    apply SRDone; auto. lia.
Qed.

Lemma in_chain_spec times x : in_chain times x = true <-> 1 <= x <= net_head times.
Proof. unfold in_chain. lia. Qed.

Lemma st_append_has st n x : wf st n -> st_has st x = true -> st_append st x = st.
Proof.
  intros [He _] H. unfold st_append. rewrite H.
  unfold st_has in H. rewrite He in H. cbn in H. rewrite Bool.orb_false_r in H.
  destruct (st_empty st); [discriminate|reflexivity].
Qed.

Lemma subjective_tail_spec p times st :
  let n := net_head times in
  wf st n -> n + 2 < two64 -> params_valid p = true ->
  sub_res st n (subjective_tail p times st).
Proof.
  intros n Hwf H64 Hv. unfold subjective_tail. fold n.
  destruct (p_hash p) as [| |k] eqn:Hh.
  - (* window / SyncFromHeight *)
    match goal with |- context [tail_height ?a ?b ?c ?d ?e ?f] => destruct (tail_height a b c d e f) as [| | |x] end.
    + apply SRPanic.
    + apply SRStay. auto.
    + apply SRStay. auto.
    + destruct ((x <=? st_height st) && (x =? 0)) eqn:C0; [apply SRStay; auto|].
      destruct ((x <=? st_height st) && st_has st x) eqn:C1.
      * assert (Hhas : st_has st x = true) by lia.
        replace (move_tail st (if st_empty st then None else Some (s_tail st)) x)
          with (move_tail (st_append st x) (if st_empty st then None else Some (s_tail st)) x)
          by (erewrite st_append_has; eauto).
        assert (Hx : 1 <= x <= n).
        { unfold st_has in Hhas. destruct Hwf as [He Hc]. rewrite He in Hhas. cbn in Hhas.
          rewrite Bool.orb_false_r in Hhas. unfold st_empty in Hhas. lia. }
        apply target_step; auto.
      * unfold fetch_tail. destruct (in_chain times x) eqn:Ic.
        -- apply in_chain_spec in Ic. fold n in Ic. apply target_step; auto.
        -- apply SRStay. auto.
  - unfold params_valid in Hv. rewrite Hh in Hv. rewrite Bool.andb_false_r in Hv. discriminate.
  - (* SyncFromHash *)
    destruct (match (if st_empty st then None else Some (s_tail st)) with
              | Some t => (k =? t) && in_chain times k | None => false end) eqn:Cu.
    + (* unchanged *)
      destruct (st_empty st) eqn:E; [discriminate|].
      destruct (wf_nonempty st n Hwf E) as (Hst & Ht & Hh').
      apply SRDone; auto; lia.
    + destruct (in_chain times k && st_has st k) eqn:C1.
      * assert (Hhas : st_has st k = true) by lia.
        replace (move_tail st (if st_empty st then None else Some (s_tail st)) k)
          with (move_tail (st_append st k) (if st_empty st then None else Some (s_tail st)) k)
          by (erewrite st_append_has; eauto).
        assert (Ic : in_chain times k = true) by lia. apply in_chain_spec in Ic. fold n in Ic.
        apply target_step; auto.
      * unfold fetch_tail. destruct (in_chain times k) eqn:Ic.
        -- apply in_chain_spec in Ic. fold n in Ic. apply target_step; auto.
        -- apply SRStay. auto.
Qed.

Lemma wf_sync_up st n m : wf st n -> s_tail st <> 0 -> m <= n -> wf (st_sync_up st m) n /\ s_tail (st_sync_up st m) = s_tail st.
Proof.
  intros Hwf Hne Hm. assert (E : st_empty st = false) by (unfold st_empty; lia).
  destruct (wf_nonempty st n Hwf E) as (Hst & Ht & Hh).
  unfold st_sync_up. destruct (N.ltb_spec (s_head st) m); [|auto].
  rewrite Hst. cbn. split; [|reflexivity]. split; cbn; [reflexivity|right; lia].
Qed.

Lemma wf_adopt times st : wf st (net_head times) -> s_tail st <> 0 ->
  wf (adopt_head times st) (net_head times) /\ s_tail (adopt_head times st) = s_tail st.
Proof.
  intros Hwf Hne. unfold adopt_head. destruct (_ && _); [|auto].
  apply wf_sync_up; auto. lia.
Qed.

(** the store on which Start recomputes the tail is well-formed *)
Lemma start_call_wf p times now st init st1 :
  wf st (net_head times) -> net_head times + 2 < two64 ->
  start_call p times now st = inr (init, st1) ->
  wf st1 (net_head times) /\ s_tail st1 = s_tail st /\
  (st1 = st \/ (s_tail st <> 0 /\ net_head times = s_head st + 1 /\ s_head st1 = net_head times)).
Proof.
  intros Hwf H64. unfold start_call.
  destruct (negb (params_valid p)); [discriminate|].
  destruct (if st_empty st then true else expired p now (tm0 times (s_head st))) eqn:I.
  - destruct (expired p now (tm0 times (net_head times))); [discriminate|].
    intros HH; inversion HH; subst. auto.
  - destruct (st_empty st) eqn:E; [discriminate|].
    destruct (recent _ _ _); [discriminate|].
    destruct (N.leb_spec (net_head times) (s_head st)); [discriminate|].
    intros HH; inversion HH; subst. clear HH.
    destruct (wf_nonempty st _ Hwf E) as (Hst & Ht & Hh).
    destruct (N.eqb_spec (net_head times) (s_head st + 1)) as [En|En]; [|auto].
    rewrite Hst. rewrite st_append_cases by lia. cbn [s_tail s_head].
    destruct (N.leb_spec (s_tail st) (net_head times)); [|lia].
    destruct (N.leb_spec (net_head times) (s_head st)); [lia|]. cbn.
    destruct (N.eqb_spec (net_head times) (s_head st + 1)); [|lia]. cbn.
    split; [split; cbn; [reflexivity|right; lia]|]. split; [reflexivity|]. right. lia.
Qed.

Lemma start_call_inl p times now st w :
  start_call p times now st = inl w -> w = WInvalid \/ w = WInitExpired \/ w = WNoCall.
Proof.
  unfold start_call. destruct (negb _); [intros HH; inversion HH; auto|].
  destruct (if st_empty st then true else _).
  - destruct (expired _ _ _); intros HH; inversion HH; auto.
  - destruct (recent _ _ _); [intros HH; inversion HH; auto|].
    destruct (_ <=? _); intros HH; inversion HH; auto.
Qed.

(** C16, store clause, FULL: after Start the store is one gap-free chain within
    the network chain with 1 <= Tail <= Head and nothing retrievable outside of it
    -- every parameter set, chain, clock, and every outcome of Start *)
Theorem start_run_store p times now st :
  let n := net_head times in
  wf st n -> n + 2 < two64 ->
  let '(o, w) := start_run p times now st in
  wf (o_store o) n /\ (s_tail st <> 0 -> s_tail (o_store o) <> 0) /\ w <> WDelete.
Proof.
  intros n Hwf H64. unfold start_run.
  destruct (start_call p times now st) as [w0|[init st1]] eqn:SC.
  - destruct (start_call_inl _ _ _ _ _ SC) as [Hw0|[Hw0|Hw0]]; subst w0; cbn; (split; [exact Hwf|split; [auto|discriminate]]).
  - destruct (start_call_wf p times now st init st1 Hwf H64 SC) as (Hwf1 & Ht1 & Hst1).
    assert (Hv : params_valid p = true).
    { unfold start_call in SC. destruct (params_valid p); [reflexivity|discriminate]. }
    pose proof (subjective_tail_spec p times st1 Hwf1 H64 Hv) as R. fold n in R.
    set (r := subjective_tail p times st1) in *. clearbody r.
    destruct R as [|req w' Hw'|req st' W1 W2 W3 W4]; cbn [o_out o_req o_store].
    + split; [exact Hwf1|split; [lia|discriminate]].
    + split; [exact Hwf1|split; [lia|]]. intros ->. destruct Hw' as [|[|]]; discriminate.
    + destruct init.
      * destruct (wf_adopt times st' W1 W2) as [A1 A2]. split; [exact A1|split; [rewrite A2; auto|discriminate]].
      * destruct (wf_sync_up st' n n W1 W2 ltac:(lia)) as [A1 A2]. fold n. split; [exact A1|split; [rewrite A2; auto|discriminate]].
Qed.


(** * Never panics *)
Lemma move_tail_out st old x : let '(o, _, _) := move_tail st old x in o = OOk \/ o = OErr.
Proof.
  unfold move_tail. destruct old as [t|]; [|auto].
  destruct (t <? x).
  - destruct (_ <? x); [destruct (st_delete_range st t _); auto|destruct (st_delete_range st t x); auto].
  - destruct (x <? t); auto.
Qed.

Lemma fetch_tail_out times st old x req :
  o_out (fst (fetch_tail times st old x req)) <> OPanic.
Proof.
  unfold fetch_tail. destruct (in_chain times x); [|cbn; discriminate].
  pose proof (move_tail_out (st_append st x) old x) as M.
  destruct (move_tail (st_append st x) old x) as [[o s] w]. cbn. destruct M; subst; discriminate.
Qed.

Lemma tail_height_no_panic p old headH headT storeH time_at :
  tail_height p old headH headT storeH time_at <> TPanic.
Proof.
  unfold tail_height. destruct (0 <? p_from p); [discriminate|].
  destruct old as [[oh ot]|]; [apply find_tail_no_panic|apply estimate_no_panic].
Qed.

Lemma subjective_tail_no_panic p times st : o_out (fst (subjective_tail p times st)) <> OPanic.
Proof.
  unfold subjective_tail. destruct (p_hash p) as [| |k].
  - match goal with |- context [tail_height ?a ?b ?c ?d ?e ?f] =>
      pose proof (tail_height_no_panic a b c d e f) as TP; destruct (tail_height a b c d e f) as [| | |x] end;
      try contradiction; try (cbn; discriminate).
    destruct (_ && (x =? 0)); [cbn; discriminate|].
    destruct (_ && st_has st x).
    + pose proof (move_tail_out st (if st_empty st then None else Some (s_tail st)) x) as M.
      destruct (move_tail _ _ x) as [[o s] w]. cbn. destruct M; subst; discriminate.
    + apply fetch_tail_out.
  - cbn. discriminate.
  - destruct (match _ with Some t => _ | None => false end); [cbn; discriminate|].
    destruct (_ && st_has st k).
    + pose proof (move_tail_out st (if st_empty st then None else Some (s_tail st)) k) as M.
      destruct (move_tail _ _ k) as [[o s] w]. cbn. destruct M; subst; discriminate.
    + apply fetch_tail_out.
Qed.

(** C16 "never panics", full strength: no parameter set (accepted by Validate or
    not), no chain, no clock and no store makes Start panic *)
Theorem start_run_no_panic p times now st : o_out (fst (start_run p times now st)) <> OPanic.
Proof.
  unfold start_run. destruct (start_call p times now st) as [w0|[init st1]].
  - destruct w0; cbn; discriminate.
  - pose proof (subjective_tail_no_panic p times st1) as NP.
    destruct (subjective_tail p times st1) as [o w]. cbn [fst] in *.
    destruct (o_out o) eqn:Eo; cbn; rewrite ?Eo; try discriminate. contradiction.
Qed.

Lemma tm_some times h : 1 <= h <= net_head times -> exists v, tm times h = Some v.
Proof.
  intros Hh. unfold tm, net_head in *. destruct (N.eqb_spec h 0); [lia|].
  destruct (nth_error times (N.to_nat (h - 1))) eqn:E; [eauto|].
  apply nth_error_None in E. lia.
Qed.

Lemma tm0_some times h v : tm times h = Some v -> tm0 times h = v.
Proof. unfold tm0. intros ->. reflexivity. Qed.

(** * Step level: which headers Start deletes *)

(** the tail height subjectiveTail computes in window / SyncFromHeight mode *)
Definition tail_calc (p : params) (times : list Z) (st : store) : tres :=
  let n := net_head times in
  let old := if st_empty st then None else Some (s_tail st) in
  tail_height p
    match old with
    | Some t => match tm times t with Some t0 => Some (t, t0) | None => None end
    | None => None
    end n (match tm times n with Some t => t | None => 0%Z end) (st_height st)
    (fun h => if st_has st h then tm times h else None).

Lemma target_step_tail st n x req :
  wf st n -> 1 <= x <= n -> n + 2 < two64 ->
  let r := moved req (move_tail (st_append st x) (if st_empty st then None else Some (s_tail st)) x) in
  snd r = WDone -> s_tail (o_store (fst r)) = x.
Proof.
  intros Hwf Hx H64. destruct (st_empty st) eqn:E.
  - rewrite (wf_empty st n Hwf E). rewrite st_append_empty. cbn. auto.
  - destruct (wf_nonempty st n Hwf E) as (Hst & Ht & Hh).
    pose proof (retarget_spec (s_tail st) (s_head st) x n Ht Hh Hx H64) as R.
    rewrite <- Hst in R.
    set (r := move_tail (st_append st x) (Some (s_tail st)) x) in *. clearbody r.
    destruct R as [st' W1 W2 W3]; cbn; auto.
Qed.

Lemma subjective_tail_window_tail p times st x :
  wf st (net_head times) -> net_head times + 2 < two64 ->
  p_hash p = HNone -> tail_calc p times st = TVal x ->
  snd (subjective_tail p times st) = WDone ->
  s_tail (o_store (fst (subjective_tail p times st))) = x.
Proof.
  intros Hwf H64 Hh TC. unfold tail_calc in TC. unfold subjective_tail. rewrite Hh. rewrite TC.
  destruct ((x <=? st_height st) && (x =? 0)); [cbn; discriminate|].
  destruct ((x <=? st_height st) && st_has st x) eqn:C1.
  - assert (Hhas : st_has st x = true) by lia.
    replace (move_tail st (if st_empty st then None else Some (s_tail st)) x)
      with (move_tail (st_append st x) (if st_empty st then None else Some (s_tail st)) x)
      by (erewrite st_append_has; eauto).
    assert (Hx : 1 <= x <= net_head times).
    { unfold st_has in Hhas. destruct Hwf as [He Hc]. rewrite He in Hhas. cbn in Hhas.
      rewrite Bool.orb_false_r in Hhas. unfold st_empty in Hhas. lia. }
    apply (target_step_tail st (net_head times)); auto.
  - unfold fetch_tail. destruct (in_chain times x) eqn:Ic; [|cbn; discriminate].
    apply in_chain_spec in Ic. apply (target_step_tail st (net_head times)); auto.
Qed.

Lemma st_has_wf st n h : wf st n -> st_has st h = true <-> (s_tail st <> 0 /\ s_tail st <= h <= s_head st).
Proof.
  intros [He Hc]. unfold st_has, st_empty. rewrite He. cbn. rewrite Bool.orb_false_r. lia.
Qed.

(** header times of the chain as a function of the height *)
Definition tmf (times : list Z) (h : N) : Z := tm0 times h.

Lemma sync_up_head st n m : wf st n -> s_tail st <> 0 -> s_head st <= s_head (st_sync_up st m).
Proof.
  intros [We _] _. unfold st_sync_up. destruct (N.ltb_spec (s_head st) m); [|lia].
  rewrite We. cbn. lia.
Qed.

Lemma adopt_head_head times st : wf st (net_head times) -> s_tail st <> 0 -> s_head st <= s_head (adopt_head times st).
Proof.
  intros Hwf Hne. unfold adopt_head. destruct (_ && _); [|lia]. eapply sync_up_head; eauto.
Qed.

Lemma target_step_full st n x req :
  wf st n -> 1 <= x <= n -> n + 2 < two64 ->
  let r := moved req (move_tail (st_append st x) (if st_empty st then None else Some (s_tail st)) x) in
  snd r = WDone /\ o_req (fst r) = req.
Proof.
  intros Hwf Hx H64. destruct (st_empty st) eqn:E.
  - rewrite (wf_empty st n Hwf E). rewrite st_append_empty. cbn. auto.
  - destruct (wf_nonempty st n Hwf E) as (Hst & Ht & Hh).
    pose proof (retarget_spec (s_tail st) (s_head st) x n Ht Hh Hx H64) as R.
    rewrite <- Hst in R.
    set (r := move_tail (st_append st x) (Some (s_tail st)) x) in *. clearbody r.
    destruct R as [st' W1 W2 W3]; cbn; auto.
Qed.

(** what subjectiveTail does once the tail height x is known to be a height of the chain *)
Lemma subjective_tail_window_x p times st x :
  wf st (net_head times) -> net_head times + 2 < two64 ->
  p_hash p = HNone -> tail_calc p times st = TVal x -> 1 <= x <= net_head times ->
  let r := subjective_tail p times st in
  snd r = WDone /\ Forall (fun h => 1 <= h <= net_head times) (o_req (fst r)).
Proof.
  intros Hwf H64 Hh TC Hx. unfold tail_calc in TC. unfold subjective_tail. rewrite Hh. rewrite TC.
  destruct (N.eqb_spec x 0); [lia|]. rewrite Bool.andb_false_r.
  destruct ((x <=? st_height st) && st_has st x) eqn:C1.
  - assert (Hhas : st_has st x = true) by lia.
    replace (move_tail st (if st_empty st then None else Some (s_tail st)) x)
      with (move_tail (st_append st x) (if st_empty st then None else Some (s_tail st)) x)
      by (erewrite st_append_has; eauto).
    destruct (target_step_full st (net_head times) x [] Hwf Hx H64) as (A & D).
    split; auto. rewrite D. constructor.
  - unfold fetch_tail. assert (Ic : in_chain times x = true) by (apply in_chain_spec; lia).
    rewrite Ic.
    destruct (target_step_full st (net_head times) x [x] Hwf Hx H64) as (A & D).
    split; auto. rewrite D. constructor; [lia|constructor].
Qed.

(** * Step level, window mode *)

(** C16 "never wraps", full strength at the level of the tail computation: in
    window mode the computed tail height is a height of the chain, at or above
    the old tail and at most one above the store's head -- for every parameter
    set, every spacing of header times *)
Lemma tail_calc_window p times st1 :
  let n := net_head times in
  wf st1 n -> n + 2 < two64 -> 1 <= n -> p_from p = 0 ->
  exists x, tail_calc p times st1 = TVal x /\ 1 <= x <= n /\
    (s_tail st1 <> 0 -> s_tail st1 <= x <= s_head st1 + 1).
Proof.
  intros n Hwf1 H64 Hn Hf. unfold tail_calc. fold n. destruct (st_empty st1) eqn:E1.
  - unfold tail_height. rewrite Hf. cbn [N.ltb N.compare].
    destruct (estimate_in_chain (p_trusting p) (p_block p) n Hn) as [x [Hx Hr]].
    exists x. split; [exact Hx|]. split; [exact Hr|]. unfold st_empty in E1. intros; lia.
  - destruct (wf_nonempty st1 n Hwf1 E1) as (_ & Htr & Hhr).
    destruct (tm_some times (s_tail st1) ltac:(fold n; lia)) as [v Hv1]. rewrite Hv1.
    unfold tail_height. rewrite Hf. cbn [N.ltb N.compare].
    assert (Hsh : st_height st1 = s_head st1) by (unfold st_height; rewrite E1; reflexivity).
    destruct (find_tail_in_range (p_window p) (p_block p) (s_tail st1) v n
                (match tm times n with Some t => t | None => 0%Z end) (st_height st1)
                (fun h0 => if st_has st1 h0 then tm times h0 else None)) as [x (Hx & Hlo & Hhi)].
    + unfold two64 in *. lia.
    + unfold two64 in *. lia.
    + lia.
    + intros h0 Hh0. rewrite Hsh in Hh0. cbn beta.
      assert (Hs : st_has st1 h0 = true) by (apply (st_has_wf st1 n h0 Hwf1); lia). rewrite Hs.
      apply tm_some. fold n. lia.
    + exists x. split; [exact Hx|]. split; [lia|]. intros; lia.
Qed.

(** C16 "never wraps" and "never wedges" at the level of Start, window mode, FULL:
    any parameters, any spacing of header times: every height asked from the
    network is a height of the chain, and Start fails only when the network's
    head is itself expired *)
Theorem start_window_any p times now st :
  let n := net_head times in
  wf st n -> n + 2 < two64 -> 1 <= n ->
  p_hash p = HNone -> p_from p = 0 ->
  let '(o, w) := start_run p times now st in
  (w = WDone \/ w = WNoCall \/ w = WInvalid \/ w = WInitExpired) /\
  Forall (fun h => 1 <= h <= n) (o_req o) /\
  (o_out o = OOk <-> (w = WDone \/ w = WNoCall)).
Proof.
  intros n Hwf H64 Hn Hh Hf. unfold start_run.
  destruct (start_call p times now st) as [w0|[init st1]] eqn:SC.
  { destruct (start_call_inl _ _ _ _ _ SC) as [Hw0|[Hw0|Hw0]]; subst w0; cbn;
      (split; [auto 6|]); (split; [constructor|]);
      split; intros HH; try discriminate; auto; destruct HH; discriminate. }
  destruct (start_call_wf p times now st init st1 Hwf H64 SC) as (Hwf1 & Ht1 & Hst1). fold n in Hwf1.
  destruct (tail_calc_window p times st1 Hwf1 H64 Hn Hf) as (x & TC & Hx & Hge).
  destruct (subjective_tail_window_x p times st1 x Hwf1 H64 Hh TC Hx) as (A & D).
  assert (Hv : params_valid p = true).
  { unfold start_call in SC. destruct (params_valid p); [reflexivity|discriminate]. }
  pose proof (subjective_tail_spec p times st1 Hwf1 H64 Hv) as R. fold n in R.
  set (r := subjective_tail p times st1) in *. clearbody r.
  destruct R as [|req w' Hw'|req st' W1 W2 W3 W4]; cbn [fst snd o_out o_req o_store] in *.
  - discriminate.
  - destruct Hw' as [Hw1|[Hw1|Hw1]]; subst w'; discriminate.
  - split; [auto|]. split; [exact D|]. split; auto.
Qed.

(** in window mode a header that Start removes lies below the computed tail height *)
Lemma start_removed p times now st h :
  let n := net_head times in
  wf st n -> n + 2 < two64 -> 1 <= n -> p_hash p = HNone -> p_from p = 0 ->
  st_has st h = true -> st_has (o_store (fst (start_run p times now st))) h = false ->
  exists init st1 x, start_call p times now st = inr (init, st1) /\ wf st1 n /\
    s_tail st1 = s_tail st /\ s_tail st <> 0 /\ s_head st <= s_head st1 /\
    tail_calc p times st1 = TVal x /\ s_tail st <= h < x /\ x <= n.
Proof.
  intros n Hwf H64 Hn Hh Hf Hin Hout.
  unfold start_run in *.
  destruct (start_call p times now st) as [w0|[init st1]] eqn:SC.
  { destruct (start_call_inl _ _ _ _ _ SC) as [Hw0|[Hw0|Hw0]]; subst w0; cbn in Hout; congruence. }
  destruct (start_call_wf p times now st init st1 Hwf H64 SC) as (Hwf1 & Ht1 & Hst1). fold n in Hwf1.
  assert (Hv : params_valid p = true).
  { unfold start_call in SC. destruct (params_valid p); [reflexivity|discriminate]. }
  pose proof (proj1 (st_has_wf st n h Hwf) Hin) as (Hne & Hrange).
  assert (Hhd : s_head st <= s_head st1) by (destruct Hst1 as [->|(A & B & C)]; lia).
  assert (Hin1 : st_has st1 h = true) by (apply (st_has_wf st1 n h Hwf1); lia).
  assert (E1 : st_empty st1 = false) by (unfold st_empty; lia).
  destruct (tail_calc_window p times st1 Hwf1 H64 Hn Hf) as (x & TC & Hx & Hge).
  specialize (Hge ltac:(lia)).
  pose proof (subjective_tail_spec p times st1 Hwf1 H64 Hv) as R. fold n in R.
  pose proof (subjective_tail_window_tail p times st1 x Hwf1 H64 Hh TC) as WT.
  set (r := subjective_tail p times st1) in *. clearbody r.
  exists init, st1, x. split; [reflexivity|]. split; [exact Hwf1|]. split; [exact Ht1|]. split; [exact Hne|].
  split; [exact Hhd|]. split; [exact TC|].
  destruct R as [|req w' Hw'|req st' W1 W2 W3 W4]; cbn [fst snd o_out o_req o_store] in *.
  - congruence.
  - congruence.
  - specialize (WT eq_refl).
    assert (Hfin : exists st2, wf st2 n /\ s_tail st2 = x /\ st_has st2 h = false /\ s_head st' <= s_head st2).
    { destruct init.
      - destruct (wf_adopt times st' W1 W2) as [A1 A2]. exists (adopt_head times st').
        pose proof (adopt_head_head times st' W1 W2).
        split; [exact A1|]. split; [lia|]. split; [exact Hout|lia].
      - destruct (wf_sync_up st' n n W1 W2 ltac:(lia)) as [A1 A2]. exists (st_sync_up st' n).
        pose proof (sync_up_head st' n n W1 W2).
        split; [exact A1|]. split; [lia|]. split; [exact Hout|lia]. }
    destruct Hfin as (st2 & F1 & F2 & F4 & F5).
    assert (Hlt : h < x).
    { destruct (N.ltb_spec h x); [assumption|exfalso].
      assert (st_has st2 h = true); [|congruence].
      apply (st_has_wf st2 n h F1). lia. }
    split; [lia|lia].
Qed.

(** C16 window clause at the level of Start, FULL strength (and more than the
    property asks: header times only have to be non-decreasing, which spacing by
    at most blockTime implies; any block time, window, trusting period): in window
    mode every header Start removes from the store is older than the pruning
    window counted from the network head *)
Theorem start_keeps_window p times now st :
  let n := net_head times in
  let t := tmf times in
  wf st n -> n + 2 < two64 -> 1 <= n ->
  p_hash p = HNone -> p_from p = 0 -> sane (p_window p) ->
  (forall h, s_tail st <= h < n -> (0 <= t (h + 1)%N - t h)%Z) ->
  forall h, st_has st h = true -> st_has (o_store (fst (start_run p times now st))) h = false ->
  (t h < t n - p_window p)%Z.
Proof.
  intros n t Hwf H64 Hn Hh Hf Sw Hmono h Hin Hout. subst t.
  destruct (start_removed p times now st h Hwf H64 Hn Hh Hf Hin Hout)
    as (init & st1 & x & SC & Hwf1 & Ht1 & Hne & Hhd & TC & Hr & Hxn).
  fold n in Hwf1.
  assert (E1 : st_empty st1 = false) by (unfold st_empty; lia).
  destruct (wf_nonempty st1 n Hwf1 E1) as (_ & Htr & Hhr).
  unfold tail_calc in TC. rewrite E1 in TC. fold n in TC.
  destruct (tm_some times (s_tail st1) ltac:(fold n; lia)) as [v Hv1]. rewrite Hv1 in TC.
  destruct (tm_some times n ltac:(fold n; lia)) as [vn Hvn]. rewrite Hvn in TC.
  unfold tail_height in TC. rewrite Hf in TC. cbn [N.ltb N.compare] in TC.
  assert (Hsh : st_height st1 = s_head st1) by (unfold st_height; rewrite E1; reflexivity).
  rewrite Hsh in TC.
  assert (HE : (vn + wrapi64 (- p_window p) = tmf times n - p_window p)%Z).
  { unfold sane in Sw. rewrite wrapi64_id by (unfold in64, min64, max64, two63; lia).
    unfold tmf. rewrite (tm0_some _ _ _ Hvn). lia. }
  rewrite <- HE.
  assert (B1 : s_tail st1 <= s_head st1) by lia.
  assert (B2 : s_head st1 + 1 < two64) by (unfold n in *; lia).
  assert (B3 : forall h0, s_tail st1 <= h0 < s_head st1 -> (0 <= tmf times (h0 + 1)%N - tmf times h0)%Z)
    by (intros h0 Hh0; apply Hmono; lia).
  assert (B4 : forall h0, s_tail st1 <= h0 <= s_head st1 ->
               (fun h1 => if st_has st1 h1 then tm times h1 else None) h0 = Some (tmf times h0)).
  { intros h0 Hh0. cbn beta. assert (Hs : st_has st1 h0 = true) by (apply (st_has_wf st1 n h0 Hwf1); lia). rewrite Hs.
    destruct (tm_some times h0 ltac:(fold n; lia)) as [v0 Hv0]. rewrite Hv0.
    unfold tmf. rewrite (tm0_some _ _ _ Hv0). reflexivity. }
  apply (find_tail_keeps_window (tmf times) (p_window p) (p_block p) (s_tail st1) v n vn (s_head st1)
           (fun h0 => if st_has st1 h0 then tm times h0 else None) x B1 B2 B3 B4 TC). lia.
Qed.

(** * Witnesses of the regions where the property fails (run on the real code by harness/c16) *)
Fixpoint mk_times (t : Z) (gaps : list Z) : list Z :=
  match gaps with [] => [t] | g :: r => t :: mk_times (t + g)%Z r end.
Definition w_sec : Z := 1000000000.
Definition w_hour : Z := 3600000000000.
Definition w_big : Z := 36000000000000000.   (* 10000 h *)

(** spacing of a concrete chain, decidable *)
Fixpoint heights_up (lo : N) (k : nat) : list N :=
  match k with O => [] | S m => lo :: heights_up (lo + 1) m end.
Definition spaced_b (times : list Z) (b : Z) (lo hi : N) : bool :=
  forallb (fun h => (0 <=? tmf times (h + 1) - tmf times h)%Z && (tmf times (h + 1) - tmf times h <=? b)%Z)
          (heights_up lo (N.to_nat (hi - lo))).

Lemma heights_up_in lo k h : lo <= h < lo + N.of_nat k -> In h (heights_up lo k).
Proof.
  revert lo. induction k as [|k IH]; intros lo Hh; [lia|].
  cbn [heights_up]. destruct (N.eq_dec h lo) as [->|Hne]; [left; reflexivity|right].
  apply IH. lia.
Qed.

Lemma spaced_b_sound times b lo hi : spaced_b times b lo hi = true ->
  forall h, lo <= h < hi -> (0 <= tmf times (h + 1) - tmf times h <= b)%Z.
Proof.
  unfold spaced_b. rewrite forallb_forall. intros H h Hh.
  assert (Hin : In h (heights_up lo (N.to_nat (hi - lo)))) by (apply heights_up_in; rewrite N2Nat.id; lia).
  specialize (H h Hin). cbn beta in H. lia.
Qed.


(** the former findings F8, F9b, F9c (store synced up to the head), F9d, F9e: fixed *)
Definition w8_params : params := Params (337 * w_hour)%Z 0 HNone (336 * w_hour)%Z 0 0.
Definition w8_times : list Z := mk_times 0%Z (repeat w_sec 9).
Lemma w8_fixed :
  params_valid w8_params = true /\
  start_step w8_params w8_times (10 * w_sec)%Z (Store 0 0 []) = Obs OOk [1] (Store 1 10 []).
Proof. vm_compute. auto. Qed.

Definition w9b_params : params := Params (70 * w_sec)%Z 0 HNone w_big w_sec 1.
Definition w9b_times : list Z := mk_times 0%Z (repeat w_sec 29 ++ [1000 * w_sec]%Z).
Lemma w9b_fixed :
  start_step w9b_params w9b_times (1029 * w_sec + 1)%Z (Store 1 30 []) = Obs OOk [] (Store 1 31 []).
Proof. vm_compute. auto. Qed.

Definition w9c_params : params := Params 100 0 HNone w_big 10 1.
Definition w9c_times : list Z := mk_times 5%Z (repeat 5%Z 60).
Lemma w9c_fixed :
  start_step w9c_params w9c_times 306 (Store 1 60 []) = Obs OOk [] (Store 41 61 []) /\
  (tmf w9c_times 40 < tmf w9c_times 61 - 100)%Z.
Proof. vm_compute. auto. Qed.

Lemma w9d_fixed :
  start_step (Params 100 0 HNone w_big 1 1) [0; 10; 150]%Z 151 (Store 1 2 []) = Obs OOk [] (Store 3 3 []).
Proof. vm_compute. auto. Qed.

Lemma w9e_fixed :
  params_valid (Params (-5 * w_sec)%Z 0 HNone w_big w_sec 1) = false /\
  params_valid (Params (5 * w_sec)%Z 0 HNone w_big (- w_sec)%Z 1) = false.
Proof. vm_compute. auto. Qed.

(** the corner of F9c that 85f942c closed: the store holds only [1..50], the
    estimate 61 - 10 = 51 is Store.Height() + 1; the downward walk now starts there too *)
Lemma w9c_corner_fixed :
  spaced_b w9c_times 10 1 61 = true /\
  start_step w9c_params w9c_times 306 (Store 1 50 []) = Obs OOk [] (Store 41 61 []).
Proof. vm_compute. auto. Qed.

(** the former finding F9a (6240466, 970b299): store [1..50], network head 200,
    blockTime 10ns, window 200ns: the tail is looked for among the stored headers
    (here: the next adjacent header 51); no orphan, no refused DeleteRange *)
Definition w9a_params : params := Params 200 0 HNone w_big 10 1.
Definition w9a_times : list Z := mk_times 10%Z (repeat 10%Z 199).
Lemma w9a_fixed :
  params_valid w9a_params = true /\
  start_run w9a_params w9a_times 2001 (Store 1 50 []) = (Obs OOk [51] (Store 51 200 []), WDone).
Proof. vm_compute. auto. Qed.

(** ... also after 5000s away with a trusting period of 1000s (the former permanent wedge) *)
Definition w9w_params : params := Params (20 * w_sec)%Z 0 HNone (1000 * w_sec)%Z w_sec 1.
Definition w9w_times : list Z := mk_times 0%Z (repeat w_sec 49 ++ [5000 * w_sec]%Z ++ repeat w_sec 149).
Definition w9w_now : Z := (5198 * w_sec + 1)%Z.
Lemma w9w_fixed :
  params_valid w9w_params = true /\
  start_run w9w_params w9w_times w9w_now (Store 1 50 []) = (Obs OOk [51] (Store 51 200 []), WDone).
Proof. vm_compute. auto. Qed.

(** ... and a configured SyncFromHeight above everything stored restarts the store from it *)
Lemma w9a_restart :
  start_run (Params (337 * w_hour)%Z 80 HNone w_big w_sec 1) (mk_times 0%Z (repeat w_sec 99)) (99 * w_sec + 1)%Z
            (Store 1 50 []) = (Obs OOk [80] (Store 80 100 []), WDone).
Proof. vm_compute. auto. Qed.

(** the lagging store with fast blocks: store [15..23], network head 29, window
    19ns, blockTime 10ns, headers 2-5ns apart (far case, estimate 28): tail 23, header 22 is the youngest removed *)
Definition wlag_times : list Z := mk_times 0%Z [2; 3; 2; 3; 2; 3; 3; 2; 2; 3; 2; 3; 2; 3; 2; 3; 2; 2; 2; 5; 2; 5; 2; 2; 5; 2; 3; 2]%Z.
Lemma wlag_keeps_window :
  start_run (Params 19 0 HNone w_big 10 1) wlag_times 75 (Store 15 23 []) = (Obs OOk [] (Store 23 29 []), WDone) /\
  (tmf wlag_times 22 < tmf wlag_times 29 - 19)%Z /\ (tmf wlag_times 23 >= tmf wlag_times 29 - 19)%Z.
Proof. vm_compute. repeat split; try reflexivity; discriminate. Qed.

(** the former finding F9f (80904e6): the store is the single header 62,
    SyncFromHash names header 61; the last re-fetched chunk [62] is accepted again *)
Definition w9f_params : params := Params (337 * w_hour)%Z 0 (HAt 61) w_big w_sec 1.
Lemma w9f_fixed :
  params_valid w9f_params = true /\
  start_run w9f_params (mk_times 0%Z (repeat w_sec 69)) (69 * w_sec + 1)%Z (Store 62 62 []) =
    (Obs OOk [] (Store 61 70 []), WDone).
Proof. vm_compute. auto. Qed.

(** * Facts used by the oracle lemma (Oracle/C16.v) *)
Lemma find_tail_val w b oldH oldT headH headT storeH time_at :
  (forall h, (oldH <= h <= storeH)%N -> exists t, time_at h = Some t) ->
  exists x, find_tail w b oldH oldT headH headT storeH time_at = TVal x.
Proof.
  intros Hl. unfold find_tail.
  destruct (find_estimate_some w b oldH oldT headH headT) as [r ->].
  destruct r as [e0|]; [|eauto].
  set (e := (if wrap64 (storeH + 1) <? e0 then wrap64 (storeH + 1) else e0)%N).
  set (E := (headT + wrapi64 (- w))%Z).
  destruct (scan_down_spec (S (N.to_nat (e - oldH))) E oldH storeH time_at e ltac:(lia) Hl)
    as [c (Hc & _)]. rewrite Hc.
  assert (Hl' : forall h, (oldH < h < storeH)%N -> exists t, time_at h = Some t) by (intros; apply Hl; lia).
  destruct (scan_spec (S (N.to_nat (storeH - c))) E oldH storeH time_at c ltac:(lia) Hl') as [x (Hx & _)].
  eauto.
Qed.

Lemma tail_calc_no_err p times st :
  wf st (net_head times) ->
  tail_calc p times st = TPanic \/ exists x, tail_calc p times st = TVal x.
Proof.
  intros Hwf. unfold tail_calc, tail_height.
  destruct (0 <? p_from p); [right; eauto|].
  destruct (st_empty st) eqn:E.
  - destruct (estimate_tail _ _ _) eqn:EE; auto; try (right; eauto);
      unfold estimate_tail in EE; destruct (_ <=? _)%Z; try discriminate;
      destruct (div64 _ _); try discriminate; destruct (_ <=? _); discriminate.
  - destruct (wf_nonempty st _ Hwf E) as (_ & Ht & Hh).
    destruct (tm_some times (s_tail st) ltac:(lia)) as [v Hv]. rewrite Hv.
    right.
    assert (Hsh : st_height st = s_head st) by (unfold st_height; rewrite E; reflexivity).
    apply find_tail_val. intros h0 Hh0. rewrite Hsh in Hh0. cbn beta.
    assert (Hs : st_has st h0 = true) by (apply (st_has_wf st _ h0 Hwf); lia). rewrite Hs.
    apply tm_some. lia.
Qed.

Lemma move_tail_why st old x : let '(_, _, w) := move_tail st old x in w = WDone \/ w = WDelete.
Proof.
  unfold move_tail. destruct old as [t|]; [|auto].
  destruct (t <? x).
  - destruct (_ <? x); [destruct (st_delete_range st t _); auto|destruct (st_delete_range st t x); auto].
  - destruct (x <? t); auto.
Qed.

Lemma moved_why req r : (let '(_, _, w) := r in w = WDone \/ w = WDelete) ->
  snd (moved req r) = WDone \/ snd (moved req r) = WDelete.
Proof. destruct r as [[o s] w]. cbn. auto. Qed.

(** the reasons subjectiveTail can give, and what they say about the parameters *)
Lemma subjective_tail_why p times st :
  wf st (net_head times) -> params_valid p = true ->
  let w := snd (subjective_tail p times st) in
  w <> WScan /\ w <> WInvalid /\ w <> WNoCall /\ w <> WInitExpired /\
  (w = WDivZero -> p_hash p = HNone /\ p_from p = 0) /\
  (w = WZero -> p_hash p = HNone /\ p_from p = 0) /\
  (w = WFetch ->
     (exists k, p_hash p = HAt k /\ in_chain times k = false) \/
     (p_hash p = HNone /\ 0 < p_from p /\ in_chain times (p_from p) = false) \/
     (p_hash p = HNone /\ p_from p = 0)).
Proof.
  intros Hwf Hv. unfold subjective_tail.
  destruct (p_hash p) as [| |k] eqn:Hh.
  - pose proof (tail_calc_no_err p times st Hwf) as TC. unfold tail_calc in TC.
    match goal with |- context [tail_height ?a ?b ?c ?d ?e ?f] =>
      assert (TF : 0 < p_from p -> tail_height a b c d e f = TVal (p_from p))
        by (intros Hf; unfold tail_height; destruct (N.ltb_spec 0 (p_from p)); [reflexivity|lia]);
      destruct (tail_height a b c d e f) as [| | |x] eqn:TH end.
    + cbn. repeat split; try discriminate; auto;
        destruct (N.eq_dec (p_from p) 0); auto; specialize (TF ltac:(lia)); discriminate.
    + destruct TC as [TC|[x TC]]; discriminate.
    + destruct TC as [TC|[x TC]]; discriminate.
    + destruct ((x <=? st_height st) && (x =? 0)) eqn:C0.
      * cbn. repeat split; try discriminate; auto.
        destruct (N.eq_dec (p_from p) 0); auto. specialize (TF ltac:(lia)). inversion TF. lia.
      * destruct ((x <=? st_height st) && st_has st x).
        -- pose proof (moved_why [] _ (move_tail_why st (if st_empty st then None else Some (s_tail st)) x)) as M.
           cbn zeta. unfold not. repeat split; intros; exfalso; match goal with C : snd _ = _ |- _ => rewrite C in M; destruct M as [M|M]; discriminate end.
        -- unfold fetch_tail. destruct (in_chain times x) eqn:Ic.
           ++ pose proof (moved_why [x] _ (move_tail_why (st_append st x) (if st_empty st then None else Some (s_tail st)) x)) as M.
              cbn zeta. unfold not. repeat split; intros; exfalso; match goal with C : snd _ = _ |- _ => rewrite C in M; destruct M as [M|M]; discriminate end.
           ++ cbn. repeat split; try discriminate. intros _. right.
              destruct (N.eq_dec (p_from p) 0); [right; auto|left].
              specialize (TF ltac:(lia)). inversion TF. subst x. repeat split; auto. lia.
  - unfold params_valid in Hv. rewrite Hh in Hv. rewrite Bool.andb_false_r in Hv. discriminate.
  - destruct (match _ with Some t => _ | None => false end).
    + cbn. repeat split; discriminate.
    + destruct (in_chain times k && st_has st k) eqn:C1.
      * pose proof (moved_why [] _ (move_tail_why st (if st_empty st then None else Some (s_tail st)) k)) as M.
        cbn zeta. unfold not. repeat split; intros; exfalso; match goal with C : snd _ = _ |- _ => rewrite C in M; destruct M as [M|M]; discriminate end.
      * unfold fetch_tail. destruct (in_chain times k) eqn:Ic.
        -- pose proof (moved_why [] _ (move_tail_why (st_append st k) (if st_empty st then None else Some (s_tail st)) k)) as M.
           cbn zeta. unfold not. repeat split; intros; exfalso; match goal with C : snd _ = _ |- _ => rewrite C in M; destruct M as [M|M]; discriminate end.
        -- cbn. repeat split; try discriminate. intros _. left. exists k. auto.
Qed.

(** unless the tail was moved (WDone), Start removes nothing from the store *)
Lemma start_run_superset p times now st :
  wf st (net_head times) -> net_head times + 2 < two64 ->
  snd (start_run p times now st) <> WDone ->
  forall h, st_has st h = true -> st_has (o_store (fst (start_run p times now st))) h = true.
Proof.
  intros Hwf H64. unfold start_run.
  destruct (start_call p times now st) as [w0|[init st1]] eqn:SC.
  { destruct (start_call_inl _ _ _ _ _ SC) as [Hw0|[Hw0|Hw0]]; subst w0; cbn; auto. }
  destruct (start_call_wf p times now st init st1 Hwf H64 SC) as (Hwf1 & Ht1 & Hst1).
  assert (Hv : params_valid p = true).
  { unfold start_call in SC. destruct (params_valid p); [reflexivity|discriminate]. }
  assert (Hsub : forall h, st_has st h = true -> st_has st1 h = true).
  { intros h Hin. pose proof (proj1 (st_has_wf st _ h Hwf) Hin).
    apply (st_has_wf st1 _ h Hwf1). destruct Hst1 as [->|(A & B & C)]; [auto|]. lia. }
  pose proof (subjective_tail_spec p times st1 Hwf1 H64 Hv) as R.
  set (r := subjective_tail p times st1) in *. clearbody r.
  destruct R as [|req w' Hw'|req st' W1 W2 W3 W4];
    cbn [fst snd o_out o_req o_store]; intros Hnd h Hin; try (apply Hsub; exact Hin).
  contradiction.
Qed.

(** everything the oracle lemma needs to know about a run, by reason *)
Lemma start_run_facts p times now st :
  wf st (net_head times) -> net_head times + 2 < two64 ->
  let '(m, w) := start_run p times now st in
  match w with
  | WInvalid => params_valid p = false /\ m = Obs OInvalid [] st
  | WInitExpired =>
      params_valid p = true /\ m = Obs OErr [] st /\
      (st_empty st || expired p now (tm0 times (s_head st))) && expired p now (tm0 times (net_head times)) = true
  | WNoCall => params_valid p = true /\ m = Obs OOk [] st /\ st_empty st = false
  | WDone => params_valid p = true /\ o_out m = OOk /\
             Forall (fun h => 1 <= h <= net_head times) (o_req m) /\ s_tail (o_store m) <> 0
  | WDivZero => o_out m = OPanic
  | WScan => False
  | WZero => params_valid p = true /\ o_out m = OErr /\ p_hash p = HNone /\ p_from p = 0 /\
             exists init st1, start_call p times now st = inr (init, st1)
  | WFetch => params_valid p = true /\ o_out m = OErr /\
             ((exists k, p_hash p = HAt k /\ in_chain times k = false) \/
              (p_hash p = HNone /\ 0 < p_from p /\ in_chain times (p_from p) = false) \/
              (p_hash p = HNone /\ p_from p = 0)) /\
             exists init st1, start_call p times now st = inr (init, st1)
  | WDelete => False
  end.
Proof.
  intros Hwf H64. unfold start_run.
  destruct (start_call p times now st) as [w0|[init st1]] eqn:SC.
  - pose proof SC as SC'. unfold start_call in SC'.
    destruct (params_valid p) eqn:Hv; cbn [negb] in SC'.
    + destruct (st_empty st) eqn:E.
      * destruct (expired p now (tm0 times (net_head times))) eqn:Ex; inversion SC'; subst.
        repeat split; auto.
      * destruct (expired p now (tm0 times (s_head st))) eqn:Eh.
        -- destruct (expired p now (tm0 times (net_head times))) eqn:Ex; inversion SC'; subst.
           repeat split; auto.
        -- destruct (recent _ _ _); [inversion SC'; subst; repeat split; auto|].
           destruct (_ <=? _); inversion SC'; subst. repeat split; auto.
    + inversion SC'; subst. split; reflexivity.
  - destruct (start_call_wf p times now st init st1 Hwf H64 SC) as (Hwf1 & Ht1 & Hst1).
    assert (Hv : params_valid p = true).
    { unfold start_call in SC. destruct (params_valid p); [reflexivity|discriminate]. }
    pose proof (subjective_tail_spec p times st1 Hwf1 H64 Hv) as R.
    pose proof (subjective_tail_why p times st1 Hwf1 Hv) as (Y1 & Y2 & Y3 & Y4 & Y5 & Y6 & Y7).
    set (r := subjective_tail p times st1) in *. clearbody r.
    destruct R as [|req w' Hw'|req st' W1 W2 W3 W4];
      cbn [fst snd o_out o_req o_store] in *.
    + reflexivity.
    + destruct Hw' as [Hw1|[Hw1|Hw1]]; subst w'.
      * contradiction.
      * destruct (Y6 eq_refl). repeat split; eauto.
      * repeat split; eauto.
    + repeat split; auto. destruct init.
      * destruct (wf_adopt times st' W1 W2) as [_ A2]. rewrite A2. exact W2.
      * destruct (wf_sync_up st' _ (net_head times) W1 W2 ltac:(lia)) as [_ A2]. rewrite A2. exact W2.
Qed.

(** * Examples stated in Props/C16.v *)
(** non-vacuity of the positive step-level theorems: runs that meet their
    hypotheses and move the tail up: the close case (store [45..60]) and the far
    case with fast blocks (store [1..50], tail found by the downward walk) *)
Definition wok_params : params := Params 100 0 HNone w_big 10 1.
Definition wok_times : list Z := mk_times 10%Z (repeat 10%Z 60).
Lemma wok_run :
  params_valid wok_params = true /\
  spaced_b wok_times 10 45 61 = true /\
  (tmf wok_times 61 - 100 - tmf wok_times 45 < 100)%Z /\
  (tmf wok_times 61 - 100 < tmf wok_times 60)%Z /\
  start_run wok_params wok_times 611 (Store 45 60 []) = (Obs OOk [] (Store 51 61 []), WDone).
Proof. vm_compute. repeat split; reflexivity. Qed.

Lemma wok_far_run :
  params_valid w9c_params = true /\
  spaced_b w9c_times 10 1 61 = true /\
  start_run w9c_params w9c_times 306 (Store 1 50 []) = (Obs OOk [] (Store 41 61 []), WDone) /\
  (tmf w9c_times 40 < tmf w9c_times 61 - 100)%Z /\ (tmf w9c_times 41 >= tmf w9c_times 61 - 100)%Z.
Proof. vm_compute. repeat split; try reflexivity; discriminate. Qed.

(** C16 "never wedges", FULL: Start fails only for reasons the environment
    explains -- the only head the network offers is itself expired, or the
    configured SyncFromHash / SyncFromHeight names a header the network does not
    have. Every parameter set, every chain, every clock, every well-formed store. *)
Theorem start_err_only_env p times now st :
  wf st (net_head times) -> net_head times + 2 < two64 -> 1 <= net_head times ->
  let '(o, w) := start_run p times now st in
  o_out o = OErr ->
  (w = WInitExpired /\ expired p now (tm0 times (net_head times)) = true) \/
  (w = WFetch /\ ((exists k, p_hash p = HAt k /\ in_chain times k = false) \/
                  (p_hash p = HNone /\ net_head times < p_from p))).
Proof.
  intros Hwf H64 Hn.
  pose proof (start_run_facts p times now st Hwf H64) as F.
  pose proof (start_window_any p times now st Hwf H64 Hn) as WA.
  destruct (start_run p times now st) as [m w].
  destruct w; intros Ho.
  - destruct F as (_ & Ho' & _). congruence.
  - destruct F as (_ & -> & _). discriminate.
  - destruct F as (_ & ->). discriminate.
  - destruct F as (_ & _ & Hl). left. split; [reflexivity|]. lia.
  - congruence.
  - contradiction.
  - destruct F as (_ & _ & Hh & Hf & _). destruct (WA Hh Hf) as (A & _). destruct A as [A|[A|[A|A]]]; discriminate.
  - destruct F as (_ & _ & Hm & _). right. split; [reflexivity|].
    destruct Hm as [[k [Hk Hc]]|[(Hh & Hf & Hc)|(Hh & Hf)]].
    + left. eauto.
    + right. split; [assumption|]. unfold in_chain in Hc. lia.
    + destruct (WA Hh Hf) as (A & _). destruct A as [A|[A|[A|A]]]; discriminate.
  - contradiction.
Qed.

(** * Faults inside subjectiveTail *)

(** ** no fault: the unfaulted run *)
Lemma down_fault_none fuel g w st cur t : down_fault fuel FNone g w st cur t = None.
Proof.
  revert g w st cur. induction fuel as [|fu IH]; intros; cbn [down_fault]; [reflexivity|].
  destruct (t <=? cur); [reflexivity|]. cbn. apply IH.
Qed.

Lemma move_fault_none g w st old x : move_fault FNone g w st old x = None.
Proof.
  unfold move_fault. destruct old as [t|]; [|reflexivity].
  destruct (t <? x).
  - cbn. destruct (_ <? x); [|reflexivity]. destruct (st_delete_range _ _ _); reflexivity.
  - destruct (x <? t); [apply down_fault_none|reflexivity].
Qed.

Lemma fetch_fault_none times st old x req : fetch_fault FNone times st old x req = None.
Proof. unfold fetch_fault. cbn. destruct (in_chain times x); [|reflexivity]. rewrite move_fault_none. reflexivity. Qed.

Lemma subjective_tail_fault_none p times st : subjective_tail_fault FNone p times st = None.
Proof.
  unfold subjective_tail_fault. destruct (p_hash p).
  - match goal with |- context [tail_height ?a ?b ?c ?d ?e ?f] => destruct (tail_height a b c d e f) end; try reflexivity.
    destruct (_ && (_ =? 0)); [reflexivity|]. destruct (_ && st_has _ _).
    + rewrite move_fault_none. reflexivity.
    + apply fetch_fault_none.
  - reflexivity.
  - destruct (match _ with Some t => _ | None => false end); [reflexivity|].
    destruct (_ && st_has _ _); [rewrite move_fault_none; reflexivity|apply fetch_fault_none].
Qed.

Theorem start_step_f_none p times now st : start_step_f FNone p times now st = start_step p times now st.
Proof.
  unfold start_step_f. destruct (start_call p times now st) as [|[i st1]]; [reflexivity|].
  rewrite subjective_tail_fault_none. reflexivity.
Qed.

(** ** a fault that fires surfaces as an error of Start *)
Lemma failed_out req r o : failed req r = Some o -> o_out o = OErr /\ o_req o = req.
Proof. destruct r; cbn; intros H; inversion H; subst; auto. Qed.

Lemma fetch_fault_out f times st old x req o : fetch_fault f times st old x req = Some o -> o_out o = OErr /\ o_req o = req.
Proof.
  unfold fetch_fault. destruct (fget f 0); [intros H; inversion H; subst; auto|].
  destruct (in_chain times x); [|discriminate].
  destruct (fwrite f 0); [intros H; inversion H; subst; auto|]. apply failed_out.
Qed.

Lemma subjective_tail_fault_out f p times st o :
  subjective_tail_fault f p times st = Some o -> o_out o = OErr.
Proof.
  unfold subjective_tail_fault. destruct (p_hash p).
  - match goal with |- context [tail_height ?a ?b ?c ?d ?e ?f] => destruct (tail_height a b c d e f) end; try discriminate.
    destruct (_ && (_ =? 0)); [discriminate|]. destruct (_ && st_has _ _); intros H.
    + apply failed_out in H. tauto.
    + apply fetch_fault_out in H. tauto.
  - discriminate.
  - destruct (match _ with Some t => _ | None => false end); [discriminate|].
    destruct (_ && st_has _ _); intros H; [apply failed_out in H|apply fetch_fault_out in H]; tauto.
Qed.

Theorem start_step_f_out f p times now st :
  start_step_f f p times now st = start_step p times now st \/ o_out (start_step_f f p times now st) = OErr.
Proof.
  unfold start_step_f. destruct (start_call p times now st) as [|[i st1]]; [left; reflexivity|].
  destruct (subjective_tail_fault f p times st1) eqn:E; [right|left; reflexivity].
  eapply subjective_tail_fault_out; eauto.
Qed.

(** ** the store a failed run leaves behind *)
Definition lwf (st : store) (n : N) : Prop :=
  ((s_tail st = 0 /\ s_head st = 0) \/ (1 <= s_tail st <= s_head st /\ s_head st <= n)) /\
  Forall (fun e => 1 <= e <= n /\ (s_tail st = 0 \/ e < s_tail st \/ s_head st < e)) (s_extra st).

Lemma wf_lwf st n : wf st n -> lwf st n.
Proof. intros [He Hc]. split; [exact Hc|]. rewrite He. constructor. Qed.

Lemma mem_in h l : mem h l = true -> In h l.
Proof. unfold mem. rewrite existsb_exists. intros [x [Hin He]]. apply N.eqb_eq in He. subst. exact Hin. Qed.

Lemma absorb_up_range n ex : Forall (fun e => e <= n) ex ->
  forall fuel hd, hd <= n -> hd <= absorb_up fuel hd ex <= n.
Proof.
  intros F. induction fuel as [|fu IH]; intros hd Hh; cbn [absorb_up]; [lia|].
  destruct (mem (hd + 1) ex) eqn:M; [|lia].
  apply mem_in in M. rewrite Forall_forall in F. specialize (F _ M). specialize (IH (hd + 1) F). lia.
Qed.

Lemma absorb_down_range ex : forall fuel tl, 1 <= tl -> 1 <= absorb_down fuel tl ex <= tl.
Proof.
  induction fuel as [|fu IH]; intros tl Ht; cbn [absorb_down]; [lia|].
  destruct ((1 <? tl) && mem (tl - 1) ex) eqn:M; [|lia].
  assert (1 < tl) by lia. specialize (IH (tl - 1) ltac:(lia)). lia.
Qed.

Lemma st_norm_lwf tl hd ex n : 1 <= tl <= hd -> hd <= n -> Forall (fun e => 1 <= e <= n) ex ->
  lwf (st_norm tl hd ex) n.
Proof.
  intros Ht Hh F. unfold st_norm.
  assert (Fn : Forall (fun e => e <= n) ex) by (eapply Forall_impl; [|exact F]; cbn; intros; lia).
  pose proof (absorb_up_range n ex Fn (length ex) hd Hh) as U.
  pose proof (absorb_down_range ex (length ex) tl ltac:(lia)) as D.
  split; cbn [s_tail s_head s_extra].
  - right. lia.
  - apply Forall_forall. intros e He. apply filter_In in He. destruct He as [Hin Hf].
    rewrite Forall_forall in F. specialize (F e Hin). split; [lia|]. lia.
Qed.

Lemma insert_sorted_in h l e : In e (insert_sorted h l) -> e = h \/ In e l.
Proof.
  induction l as [|x r IH]; cbn.
  - intros [->|[]]; auto.
  - destruct (h <? x); [cbn; intros [->|H]; auto|].
    destruct (h =? x); [auto|]. cbn. intros [->|H]; auto. destruct (IH H); auto.
Qed.

Lemma lwf_extras st n : lwf st n -> Forall (fun e => 1 <= e <= n) (s_extra st).
Proof. intros [_ F]. eapply Forall_impl; [|exact F]. cbn. tauto. Qed.

Lemma st_append_lwf st n h : lwf st n -> 1 <= h <= n -> lwf (st_append st h) n.
Proof.
  intros L Hh. pose proof (lwf_extras _ _ L) as Fe. unfold st_append.
  destruct (st_empty st) eqn:E.
  - apply st_norm_lwf; auto; lia.
  - destruct (st_has st h); [exact L|].
    destruct L as [[[Ht _]|Hc] _]; [unfold st_empty in E; lia|].
    apply st_norm_lwf; try lia.
    apply Forall_forall. intros e He. apply insert_sorted_in in He. destruct He as [->|He]; [lia|].
    rewrite Forall_forall in Fe. auto.
Qed.

Lemma st_append_range_gen n : forall k lo st, lwf st n -> 1 <= lo -> lo + N.of_nat k <= n + 1 ->
  lwf (fold_left st_append (hseq lo k) st) n.
Proof.
  induction k as [|k IH]; intros lo st L Hlo Hhi; cbn [hseq fold_left]; [exact L|].
  apply IH; try lia. apply st_append_lwf; auto. lia.
Qed.

Lemma st_append_range_lwf st n lo hi : lwf st n -> 1 <= lo -> hi <= n -> lwf (st_append_range st lo hi) n.
Proof.
  intros L Hlo Hhi. unfold st_append_range.
  destruct (N.le_gt_cases lo (hi + 1)).
  - apply st_append_range_gen; auto. lia.
  - replace (N.to_nat (hi + 1 - lo)) with O by lia. exact L.
Qed.

Lemma down_fault_lwf n f t : t <= n -> forall fuel g w st cur st',
  lwf st n -> down_fault fuel f g w st cur t = Some st' -> lwf st' n.
Proof.
  intros Ht. induction fuel as [|fu IH]; intros g w st cur st' L; cbn [down_fault]; [discriminate|].
  destruct (t <=? cur); [discriminate|].
  destruct (fget f g || fwrite f w); [intros H; inversion H; subst; exact L|].
  apply IH. apply st_append_range_lwf; auto; lia.
Qed.

(** the restart's wipe of a chain with one detached header above it *)
Lemma wipe_detached t h x : 1 <= t <= h -> h + 1 < x -> h + 1 < two64 ->
  st_delete_range (Store t h [x]) t (wrap64 (h + 1)) = Some (Store 0 0 [x]).
Proof.
  intros Ht Hx H64. unfold st_delete_range, st_empty, st_has, st_empty, mem. cbn.
  rewrite (wrap64_small (h + 1)) by lia.
  destruct (N.eqb_spec t 0); [lia|]. cbn.
  destruct (N.leb_spec (h + 1) t); [lia|]. destruct (N.ltb_spec h t); [lia|]. cbn.
  rewrite !N.eqb_refl. cbn.
  destruct (N.leb_spec t (h + 1)); [|lia]. destruct (N.leb_spec (h + 1) h); [lia|]. cbn.
  destruct (N.eqb_spec (h + 1) x); [lia|]. reflexivity.
Qed.

Lemma move_fault_lwf f g w t h x n st' : 1 <= t <= h -> h <= n -> 1 <= x <= n -> n + 2 < two64 ->
  move_fault f g w (st_append (Store t h []) x) (Some t) x = Some st' -> lwf st' n.
Proof.
  intros Ht Hh Hx H64.
  assert (L0 : lwf (Store t h []) n) by (apply wf_lwf; split; cbn; [reflexivity|right; lia]).
  pose proof (st_append_lwf _ n x L0 Hx) as L1.
  unfold move_fault. destruct (N.ltb_spec t x) as [Htx|Htx].
  - destruct (fwrite f w); [intros H; inversion H; subst; exact L1|].
    revert L1. rewrite st_append_cases by lia.
    destruct ((t <=? x) && (x <=? h)) eqn:C; cbn [s_head].
    + rewrite (wrap64_small (h + 1)) by lia. destruct (N.ltb_spec (h + 1) x); [lia|discriminate].
    + destruct (N.eqb_spec x (h + 1)).
      * cbn [s_head]. rewrite (wrap64_small (h + 1 + 1)) by lia. destruct (N.ltb_spec (h + 1 + 1) x); [lia|discriminate].
      * destruct (N.eqb_spec x (t - 1)); [lia|]. cbn [s_head].
        rewrite (wrap64_small (h + 1)) by lia. destruct (N.ltb_spec (h + 1) x); [|discriminate].
        rewrite <- (wrap64_small (h + 1)) at 1 by lia.
        rewrite wipe_detached by lia. intros _.
        destruct (fwrite f (S w)); [|discriminate]. intros HH; inversion HH; subst.
        split; cbn; [left; auto|]. constructor; [|constructor]. lia.
  - destruct (N.ltb_spec x t); [|discriminate].
    apply down_fault_lwf; auto. lia.
Qed.

Lemma target_fault f g w st n x req o :
  wf st n -> 1 <= x <= n -> n + 2 < two64 ->
  failed req (move_fault f g w (st_append st x) (if st_empty st then None else Some (s_tail st)) x) = Some o ->
  lwf (o_store o) n.
Proof.
  intros Hwf Hx H64. destruct (st_empty st) eqn:E.
  - cbn. discriminate.
  - destruct (wf_nonempty st n Hwf E) as (Hst & Ht & Hh).
    destruct (move_fault _ _ _ _ _ _) eqn:M; cbn; [|discriminate].
    intros H; inversion H; subst. cbn. rewrite Hst in M.
    eapply move_fault_lwf; eauto.
Qed.

Lemma fetch_fault_lwf f times st x req o :
  wf st (net_head times) -> net_head times + 2 < two64 ->
  fetch_fault f times st (if st_empty st then None else Some (s_tail st)) x req = Some o ->
  lwf (o_store o) (net_head times).
Proof.
  intros Hwf H64. unfold fetch_fault.
  destruct (fget f 0); [intros H; inversion H; subst; cbn; apply wf_lwf; exact Hwf|].
  destruct (in_chain times x) eqn:Ic; [|discriminate]. apply in_chain_spec in Ic.
  destruct (fwrite f 0); [intros H; inversion H; subst; cbn; apply wf_lwf; exact Hwf|].
  apply target_fault; auto.
Qed.

Lemma found_fault_lwf f st n x o :
  wf st n -> n + 2 < two64 -> st_has st x = true ->
  failed [] (move_fault f 0 0 st (if st_empty st then None else Some (s_tail st)) x) = Some o ->
  lwf (o_store o) n.
Proof.
  intros Hwf H64 Hhas.
  assert (Hx : 1 <= x <= n).
  { unfold st_has in Hhas. destruct Hwf as [He Hc]. rewrite He in Hhas. cbn in Hhas.
    rewrite Bool.orb_false_r in Hhas. unfold st_empty in Hhas. lia. }
  rewrite <- (st_append_has st n x Hwf Hhas) at 1. apply target_fault; auto.
Qed.

Lemma subjective_tail_fault_lwf f p times st o :
  wf st (net_head times) -> net_head times + 2 < two64 ->
  subjective_tail_fault f p times st = Some o -> lwf (o_store o) (net_head times).
Proof.
  intros Hwf H64. unfold subjective_tail_fault. destruct (p_hash p) as [| |k].
  - match goal with |- context [tail_height ?a ?b ?c ?d ?e ?f] => destruct (tail_height a b c d e f) as [| | |x] end; try discriminate.
    destruct (_ && (_ =? 0)); [discriminate|]. destruct ((x <=? st_height st) && st_has st x) eqn:C.
    + apply found_fault_lwf; auto. lia.
    + apply fetch_fault_lwf; auto.
  - discriminate.
  - destruct (match _ with Some t => _ | None => false end); [discriminate|].
    destruct (in_chain times k && st_has st k) eqn:C.
    + apply found_fault_lwf; auto. lia.
    + apply fetch_fault_lwf; auto.
Qed.

Theorem start_step_f_store f p times now st :
  let n := net_head times in
  wf st n -> n + 2 < two64 -> lwf (o_store (start_step_f f p times now st)) n.
Proof.
  intros n Hwf H64.
  assert (B : lwf (o_store (start_step p times now st)) n).
  { pose proof (start_run_store p times now st Hwf H64) as S. unfold start_step.
    destruct (start_run p times now st) as [o w]. apply wf_lwf. apply S. }
  unfold start_step_f. destruct (start_call p times now st) as [|[i st1]] eqn:SC; [exact B|].
  destruct (start_call_wf p times now st i st1 Hwf H64 SC) as (Hwf1 & _).
  destruct (subjective_tail_fault f p times st1) eqn:E; [|exact B].
  eapply subjective_tail_fault_lwf; eauto.
Qed.

(** ** witnesses: what a failing environment leaves behind, and the retry *)
Definition wf_params (from : N) : params := Params (337 * w_hour)%Z from HNone w_big w_sec 1.
Definition wf_times : list Z := mk_times 0%Z (repeat w_sec 99).
Definition wf_now : Z := (99 * w_sec + 1)%Z.

(** the second range request of the downward sync fails: an island below the tail *)
Lemma wfault_island :
  start_step_f (FGet 2) (wf_params 24) wf_times wf_now (Store 90 95 []) =
    Obs OErr [24] (Store 90 95 (hseq 24 65)) /\
  start_step (wf_params 24) wf_times wf_now (Store 90 95 (hseq 24 65)) = Obs OOk [] (Store 24 100 []).
Proof. split; vm_compute; reflexivity. Qed.

(** DeleteRange of the restart fails: the forced-appended tail stays detached above the head *)
Lemma wfault_detached :
  start_step_f (FWrite 1) (wf_params 80) wf_times wf_now (Store 1 50 []) = Obs OErr [80] (Store 1 50 [80]) /\
  start_step (wf_params 80) wf_times wf_now (Store 1 50 [80]) = Obs OOk [80] (Store 80 100 []).
Proof. split; vm_compute; reflexivity. Qed.

(** the Append after the restart's wipe fails: the store is empty *)
Lemma wfault_emptied :
  start_step_f (FWrite 2) (wf_params 80) wf_times wf_now (Store 1 50 []) = Obs OErr [80] (Store 0 0 [80]) /\
  start_step (wf_params 80) wf_times wf_now (Store 0 0 [80]) = Obs OOk [80] (Store 80 100 []).
Proof. split; vm_compute; reflexivity. Qed.

Theorem fault_refutes_chain :
  exists f p times now st,
    wf st (net_head times) /\ net_head times + 2 < two64 /\ s_tail st <> 0 /\
    o_out (start_step_f f p times now st) = OErr /\
    ~ wf (o_store (start_step_f f p times now st)) (net_head times) /\
    s_tail (o_store (start_step_f f p times now st)) = 0.
Proof.
  exists (FWrite 2), (wf_params 80), wf_times, wf_now, (Store 1 50 []).
  destruct wfault_emptied as [E _]. rewrite E. cbn [o_out o_store s_tail s_extra].
  split; [split; cbn; [reflexivity|right; lia]|].
  split; [vm_compute; reflexivity|]. split; [discriminate|]. split; [reflexivity|].
  split; [|reflexivity]. intros [He _]. discriminate.
Qed.

(** * The gossip verifier closure *)
Lemma gossip_no_panic p times st : o_out (gossip_step p times st) <> OPanic.
Proof.
  unfold gossip_step. destruct (_ && _); [|cbn; discriminate].
  pose proof (subjective_tail_no_panic p times (st_sync_up st (net_head times))) as NP.
  destruct (subjective_tail p times (st_sync_up st (net_head times))) as [o w]. cbn [fst] in NP.
  destruct (o_out o) eqn:E; cbn; try discriminate. contradiction.
Qed.

Lemma gossip_accepts p times st :
  st_empty st = false -> s_head st < net_head times ->
  (tm0 times (s_head st) <= tm0 times (net_head times))%Z ->
  o_out (gossip_step p times st) = OOk.
Proof.
  intros E Hh Ht. pose proof (gossip_no_panic p times st) as NP. revert NP. unfold gossip_step.
  replace (negb (st_empty st) && (s_head st <? net_head times) && (tm0 times (s_head st) <=? tm0 times (net_head times))%Z)
    with true by (rewrite E; cbn; lia).
  destruct (subjective_tail p times (st_sync_up st (net_head times))) as [o w].
  destruct (o_out o) eqn:Eo; cbn; try reflexivity. rewrite Eo. intros NP. contradiction.
Qed.

Theorem gossip_store p times st :
  let n := net_head times in
  wf st n -> n + 2 < two64 -> params_valid p = true ->
  wf (o_store (gossip_step p times st)) n /\ (s_tail st <> 0 -> s_tail (o_store (gossip_step p times st)) <> 0).
Proof.
  intros n Hwf H64 Hv. unfold gossip_step. fold n.
  destruct (negb (st_empty st) && (s_head st <? n) && (tm0 times (s_head st) <=? tm0 times n)%Z) eqn:C; [|cbn; auto].
  assert (Hne : s_tail st <> 0) by (unfold st_empty in C; lia).
  destruct (wf_sync_up st n n Hwf Hne ltac:(lia)) as [W1 T1].
  pose proof (subjective_tail_spec p times (st_sync_up st n) W1 H64 Hv) as R. fold n in R.
  destruct R as [|req w' Hw'|req st' A1 A2 A3 A4]; cbn; (split; [assumption|]); intros _; try rewrite T1; assumption.
Qed.

(** * The range requests of the downward sync *)
Lemma down_reqs_bounds f t : forall fuel g w cur r, In r (down_reqs fuel f g w cur t) ->
  match r with
  | GHash _ => False
  | GRange a b => cur <= a /\ a + 1 < b /\ b <= a + chunk_size + 1 /\ b <= t + 1
  end.
Proof.
  induction fuel as [|fu IH]; intros g w cur r; cbn [down_reqs]; [intros []|].
  destruct (N.leb_spec t cur); [intros []|].
  cbn [In]. intros [<-|Hin].
  - unfold chunk_size. lia.
  - destruct (fget f g || fwrite f w); [destruct Hin|].
    specialize (IH _ _ _ _ Hin). destruct r; [exact IH|]. unfold chunk_size in *. lia.
Qed.

(** ** a failing getter loses no header *)
Lemma absorb_up_ge ex : forall fuel hd, hd <= absorb_up fuel hd ex.
Proof. induction fuel as [|fu IH]; intros hd; cbn [absorb_up]; [lia|]. destruct (mem (hd + 1) ex); [|lia]. specialize (IH (hd + 1)). lia. Qed.

Lemma mem_filter (f : N -> bool) h l : mem h l = true -> f h = true -> mem h (filter f l) = true.
Proof.
  unfold mem. rewrite !existsb_exists. intros [x [Hin He]] Hf. apply N.eqb_eq in He. subst x.
  exists h. split; [apply filter_In; auto|apply N.eqb_refl].
Qed.

Lemma st_norm_has tl hd ex h : 1 <= tl <= hd ->
  ((tl <=? h) && (h <=? hd)) || mem h ex = true -> st_has (st_norm tl hd ex) h = true.
Proof.
  intros Ht H. unfold st_norm, st_has, st_empty. cbn [s_tail s_head s_extra].
  pose proof (absorb_up_ge ex (length ex) hd) as U.
  pose proof (absorb_down_range ex (length ex) tl ltac:(lia)) as D.
  set (tl' := absorb_down (length ex) tl ex) in *. set (hd' := absorb_up (length ex) hd ex) in *.
  destruct (N.eqb_spec tl' 0); [lia|]. cbn [negb andb].
  destruct ((tl' <=? h) && (h <=? hd')) eqn:C; [reflexivity|]. cbn [orb].
  assert (M : mem h ex = true) by lia.
  apply mem_filter; [exact M|]. lia.
Qed.

Lemma mem_insert_sorted x h l : mem h l = true -> mem h (insert_sorted x l) = true.
Proof.
  induction l as [|y r IH]; cbn; [discriminate|].
  intros H. destruct (x <? y); [cbn; rewrite H; apply Bool.orb_true_r|].
  destruct (x =? y); [exact H|]. cbn. destruct (h =? y); [reflexivity|]. cbn in *. auto.
Qed.

Lemma st_append_keeps st n x h : lwf st n -> 1 <= x -> st_has st h = true -> st_has (st_append st x) h = true.
Proof.
  intros L Hx H. unfold st_append. destruct (st_empty st) eqn:E.
  - apply st_norm_has; [lia|]. unfold st_has in H. rewrite E in H. cbn in H. rewrite H. apply Bool.orb_true_r.
  - destruct (st_has st x); [exact H|].
    destruct L as [[[Ht _]|Hc] _]; [unfold st_empty in E; lia|].
    apply st_norm_has; [lia|]. unfold st_has in H. rewrite E in H. cbn [negb andb] in H.
    destruct ((s_tail st <=? h) && (h <=? s_head st)) eqn:C; [reflexivity|].
    cbn [orb] in *. apply mem_insert_sorted. lia.
Qed.

Lemma fold_append_keeps n h : forall k lo st, lwf st n -> 1 <= lo -> lo + N.of_nat k <= n + 1 ->
  st_has st h = true -> st_has (fold_left st_append (hseq lo k) st) h = true.
Proof.
  induction k as [|k IH]; intros lo st L Hlo Hhi H; cbn [hseq fold_left]; [exact H|].
  apply IH; try lia.
  - apply st_append_lwf; auto. lia.
  - eapply st_append_keeps; eauto.
Qed.

Lemma st_append_range_keeps st n lo hi h : lwf st n -> 1 <= lo -> hi <= n ->
  st_has st h = true -> st_has (st_append_range st lo hi) h = true.
Proof.
  intros L Hlo Hhi H. unfold st_append_range.
  destruct (N.le_gt_cases lo (hi + 1)).
  - eapply fold_append_keeps; eauto. lia.
  - replace (N.to_nat (hi + 1 - lo)) with O by lia. exact H.
Qed.

Lemma down_fault_keeps n f t h : t <= n -> forall fuel g w st cur st',
  lwf st n -> down_fault fuel f g w st cur t = Some st' -> st_has st h = true -> st_has st' h = true.
Proof.
  intros Ht. induction fuel as [|fu IH]; intros g w st cur st' L; cbn [down_fault]; [discriminate|].
  destruct (t <=? cur); [discriminate|].
  destruct (fget f g || fwrite f w); [intros HH; inversion HH; subst; auto|].
  intros HH Hh. eapply IH; [|exact HH|].
  - apply st_append_range_lwf; auto; lia.
  - eapply st_append_range_keeps; eauto; lia.
Qed.

Lemma move_fault_get_keeps k g w st n t x st' h : lwf st n -> t <= n ->
  move_fault (FGet k) g w st (Some t) x = Some st' -> st_has st h = true -> st_has st' h = true.
Proof.
  intros L Ht. unfold move_fault. cbn [fwrite].
  destruct (t <? x).
  - destruct (_ <? x); [|discriminate]. destruct (st_delete_range _ _ _); discriminate.
  - destruct (x <? t); [|discriminate]. intros HH. eapply down_fault_keeps; eauto.
Qed.

Theorem getter_fault_keeps k p times st o h :
  wf st (net_head times) ->
  subjective_tail_fault (FGet k) p times st = Some o -> st_has st h = true -> st_has (o_store o) h = true.
Proof.
  intros Hwf.
  assert (L : lwf st (net_head times)) by (apply wf_lwf; exact Hwf).
  assert (Told : forall t, (if st_empty st then None else Some (s_tail st)) = Some t -> t <= net_head times).
  { intros t. destruct (st_empty st) eqn:E; [discriminate|]. intros HH; inversion HH; subst.
    destruct (wf_nonempty st _ Hwf E) as (_ & ? & ?). lia. }
  assert (Found : forall x, failed [] (move_fault (FGet k) 0 0 st (if st_empty st then None else Some (s_tail st)) x) = Some o ->
                  st_has st h = true -> st_has (o_store o) h = true).
  { intros x. destruct (if st_empty st then None else Some (s_tail st)) as [t|] eqn:Eo; [|cbn; discriminate].
    destruct (move_fault _ _ _ _ _ _) eqn:M; cbn; [|discriminate]. intros HH; inversion HH; subst. cbn.
    eapply move_fault_get_keeps; eauto. }
  assert (Fetch : forall x req, fetch_fault (FGet k) times st (if st_empty st then None else Some (s_tail st)) x req = Some o ->
                  st_has st h = true -> st_has (o_store o) h = true).
  { intros x req. unfold fetch_fault. destruct (fget (FGet k) 0); [intros HH; inversion HH; subst; auto|].
    destruct (in_chain times x) eqn:Ic; [|discriminate]. apply in_chain_spec in Ic. cbn [fwrite].
    destruct (if st_empty st then None else Some (s_tail st)) as [t|] eqn:Eo; [|cbn; discriminate].
    destruct (move_fault _ _ _ _ _ _) eqn:M; cbn; [|discriminate]. intros HH; inversion HH; subst. cbn. intros Hh.
    eapply move_fault_get_keeps; [| |exact M|].
    - apply st_append_lwf; eauto.
    - auto.
    - eapply st_append_keeps; eauto. lia. }
  unfold subjective_tail_fault. destruct (p_hash p) as [| |kk].
  - match goal with |- context [tail_height ?a ?b ?c ?d ?e ?f] => destruct (tail_height a b c d e f) as [| | |x] end; try discriminate.
    destruct (_ && (_ =? 0)); [discriminate|]. destruct ((x <=? st_height st) && st_has st x); [apply Found|apply Fetch].
  - discriminate.
  - destruct (match _ with Some t => _ | None => false end); [discriminate|].
    destruct (in_chain times kk && st_has st kk); [apply Found|apply Fetch].
Qed.
