(** C18: completion is always reachable.  From every reachable state of an honest run in which the
    call has not returned, with one reliable peer [p] whose store reaches the end of the range,
    there is a finite honest continuation after which GetRangeByHeight has returned the exact
    range: answer every other in-flight request with the empty answer (a timeout), let [p]
    answer what it holds in flight with the whole honest answer, then Dispatch every queued
    request to [p] and Respond with the whole honest answer.  Its length is bounded by
    2 * mu s + |s_flight s|. *)
From GH Require Import Base.Prelude Model.Verify Model.Session Proofs.SessionP.

Lemma run_app drift tv maxcap from : forall l1 l2 st,
  run drift tv maxcap from st (l1 ++ l2) = run drift tv maxcap from (run drift tv maxcap from st l1) l2.
Proof. induction l1 as [|a l1 IH]; intros l2 st; [reflexivity|]. cbn [app run]. apply IH. Qed.

Lemma honest_run_app drift tv maxcap from c top : forall l1 l2 st,
  honest_run drift tv maxcap from c top st (l1 ++ l2) <->
  honest_run drift tv maxcap from c top st l1 /\
  honest_run drift tv maxcap from c top (run drift tv maxcap from st l1) l2.
Proof.
  induction l1 as [|a l1 IH]; intros l2 st; cbn [app honest_run run]; [tauto|].
  rewrite IH. tauto.
Qed.

Lemma run_not_done drift tv maxcap from evs : forall s,
  not_done s -> not_done (run drift tv maxcap from s evs).
Proof.
  induction evs as [|ev evs IH]; intros s Hn; [exact Hn|]. cbn [run]. apply IH, step_not_done, Hn.
Qed.

Lemma remove_peer_in p l : In p l -> exists l', remove_peer p l = Some l'.
Proof.
  induction l as [|x l IH]; [intros []|]. cbn [remove_peer].
  destruct (N.eqb_spec p x) as [->|Hn]; [eexists; reflexivity|].
  intros [->|Hin]; [contradiction|]. destruct (IH Hin) as (l' & ->). eexists; reflexivity.
Qed.

Section completion.
Variables (drift : Z) (tv : hdr -> hdr -> tvres) (maxcap : N) (from : hdr).
Variables (c : N -> hdr) (top start amount : N) (p : N) (now : Z) (per tp : N).
Hypothesis Hnil : h_nil from = false.
Hypothesis Hch : forall n, n <= top -> h_height (c n) = n.
Hypothesis Hokc : forall n, n <= top -> h_ok (c n) = true.
Hypothesis Htop : top < two64.
Hypothesis Hbound : start + amount < two64.
Hypothesis Hfrom : h_height from < start.
(** [p]'s store reaches the last requested height, and the chain verifies at clock reading [now] *)
Hypothesis Hreach : start + amount <= top + 1.
(** [p] is not pruned above the start of the range, and the client's chunk size does not exceed
    what a server answers (header.MaxRangeRequestSize) *)
Hypothesis Htail : tp <= start.
Hypothesis Hper64 : per <= max_range_request.
Hypothesis Hcv : chain_verifies drift tv from c top now.

Local Notation Inv' := (Inv drift tv from start amount).
Local Notation Live' := (Live drift tv from start amount).
Local Notation step' := (step drift tv maxcap from).
Local Notation run' := (run drift tv maxcap from).
Local Notation honest_run' := (honest_run drift tv maxcap from c top).
Local Notation CI' := (CI c top).

(** the whole answer of a peer holding everything that request [r] asks for *)
Definition whole (r : req) : list frame :=
  map (fun n => FHdr (c n)) (seqN (r_origin r) (N.to_nat (r_amount r))).

Lemma whole_is_honest r :
  1 <= r_amount r -> r_amount r <= per -> start <= r_origin r -> r_origin r + r_amount r <= start + amount ->
  honest_answer_t c tp top r = whole r.
Proof.
  intros Ha Hp Ho Hr. unfold honest_answer_t, whole.
  rewrite wrap64_small by lia.
  destruct (N.leb_spec (r_origin r + r_amount r) (r_origin r)); [lia|].
  destruct (N.eqb_spec (r_origin r) 0); [lia|].
  destruct (N.ltb_spec max_range_request (r_amount r)); [lia|].
  destruct (N.ltb_spec top tp); [lia|].
  destruct (N.ltb_spec top (r_origin r)); [lia|].
  destruct (N.ltb_spec (r_origin r) tp); [lia|]. cbn [orb].
  rewrite N.min_l by lia. reflexivity.
Qed.

(** no outstanding sub-request asks for more than the chunk size *)
Definition small (s : sess) : Prop := forall r, In r (outstanding s) -> r_amount r <= per.

Lemma step_small nows U s ev : Inv' nows U s -> small s -> small (step' s ev).
Proof.
  intros HI Hs. destruct (s_res s) as [r0|] eqn:Hres.
  { unfold step. rewrite Hres. exact Hs. }
  unfold Inv in HI. rewrite Hres in HI.
  destruct ev as [q r|q now' fs| |].
  - unfold step. rewrite Hres.
    destruct (remove_peer q (s_idle s)) as [idle'|]; [|exact Hs].
    destruct (remove_req r (s_queue s)) as [queue'|] eqn:Hrq; [|exact Hs].
    destruct (remove_req_spec _ _ _ Hrq) as (Hin & _ & _ & Hsub).
    intros x Hx. unfold outstanding in Hx. cbn [s_queue s_flight map snd] in Hx. apply Hs. unfold outstanding.
    apply in_app_or in Hx as [Hx|[<-|Hx]]; apply in_or_app; auto.
  - destruct (take_flight q (s_flight s)) as [[r fl]|] eqn:Htf.
    2:{ unfold step. rewrite Hres, Htf. exact Hs. }
    destruct (take_flight_spec _ _ _ _ Htf) as (Hin & _ & _ & Hsub).
    assert (Hr : r_amount r <= per).
    { apply Hs. unfold outstanding. apply in_or_app. right. apply in_map_iff. exists (q, r). auto. }
    assert (Hfl : forall x, In x (map snd fl) -> r_amount x <= per).
    { intros x Hx. apply Hs. unfold outstanding. apply in_or_app. right.
      apply in_map_iff in Hx as (z & <- & Hz). apply in_map_iff. exists z. split; [reflexivity | apply Hsub, Hz]. }
    assert (Hq : forall x, In x (s_queue s) -> r_amount x <= per).
    { intros x Hx. apply Hs. unfold outstanding. apply in_or_app. left. exact Hx. }
    destruct (do_request now' drift tv from r fs) as [e|h|] eqn:Hdo.
    + rewrite (step_respond _ _ _ _ _ _ _ _ _ _ Hres Htf), Hdo.
      intros x Hx. unfold outstanding in Hx. cbn [s_queue s_flight] in Hx.
      apply in_app_or in Hx as [Hx|Hx]; [|apply Hfl, Hx].
      apply in_app_or in Hx as [Hx|[<-|[]]]; [apply Hq, Hx | exact Hr].
    + destruct (step_accept drift tv maxcap from start amount Hnil Hbound nows U s q now' fs r fl h HI Hres Htf Hdo)
        as (_ & _ & Hstep).
      rewrite Hstep. intros x Hx. unfold outstanding in Hx. cbn [s_queue s_flight] in Hx.
      apply in_app_or in Hx as [Hx|Hx]; [|apply Hfl, Hx].
      apply in_app_or in Hx as [Hx|Hx]; [apply Hq, Hx|].
      destruct (0 <? r_amount r - N.of_nat (length h)); [|destruct Hx].
      destruct Hx as [<-|[]]. cbn [r_amount]. lia.
    + rewrite (step_respond _ _ _ _ _ _ _ _ _ _ Hres Htf), Hdo. exact Hs.
  - unfold step. rewrite Hres. exact Hs.
  - unfold step. rewrite Hres. exact Hs.
Qed.

(** the invariants carried along the continuation *)
Record Good (nows : list Z) (U : list hdr) (s : sess) : Prop := {
  gd_inv : Inv' nows U s;
  gd_nd : not_done s;
  gd_peer : has_peer p s;
  gd_ci : CI' s;
  gd_small : small s }.

Lemma good_step nows U s ev :
  Good nows U s -> honest_ev c top s ev ->
  (forall now' fs, ev = ERespond p now' fs -> fs <> [] /\ chain_verifies drift tv from c top now') ->
  Good (ev_nows ev ++ nows) (ev_hdrs ev ++ U) (step' s ev).
Proof.
  intros [HI Hnd Hp Hc Hsm] Hh Hrel. constructor.
  5: eapply step_small; eassumption.
  - apply step_inv; assumption.
  - apply step_not_done, Hnd.
  - eapply (step_has_peer drift tv maxcap from c top start amount); eauto.
  - apply (step_chain drift tv maxcap from c top Hnil Hch); assumption.
Qed.

Lemma good_run evs : forall nows U s,
  Good nows U s -> honest_run' s evs -> reliable drift tv from c top p evs ->
  Good (evs_nows evs ++ nows) (evs_hdrs evs ++ U) (run' s evs).
Proof.
  induction evs as [|ev evs IH]; intros nows U s HG Hrun Hrel; [exact HG|].
  cbn [run]. destruct Hrun as [Hev Hrun].
  pose proof (good_step nows U s ev HG Hev) as HG'.
  specialize (IH _ _ _ (HG' ltac:(intros now' fs ->; apply Hrel; left; reflexivity)) Hrun
                 ltac:(intros now' fs Hin; apply Hrel; right; exact Hin)).
  destruct IH as [HI Hnd Hp Hc Hsm]. constructor; try assumption.
  eapply Inv_mono; [| |exact HI]; unfold evs_nows, evs_hdrs; cbn [flat_map];
    intros z Hz; rewrite !in_app_iff in *; tauto.
Qed.

Lemma live_req nows U s q r :
  Live' nows U s -> In (q, r) (s_flight s) ->
  1 <= r_amount r /\ start <= r_origin r /\ r_origin r + r_amount r <= start + amount.
Proof.
  intros [_ _ _ H4 _ _ _] Hin. rewrite Forall_forall in H4. apply H4. unfold outstanding.
  apply in_or_app. right. apply in_map_iff. exists (q, r). split; [reflexivity | exact Hin].
Qed.

(** [p] answers the request it holds with the whole honest answer *)
Lemma respond_whole nows U s r fl :
  Good nows U s -> s_res s = None -> take_flight p (s_flight s) = Some (r, fl) ->
  let ev := ERespond p now (whole r) in
  let s' := step' s ev in
  honest_ev c top s ev /\ whole r <> [] /\
  mu s' + r_amount r = mu s /\ s_flight s' = fl /\ In p (s_idle s') /\
  (s_res s' = None \/ exists res, s_res s' = Some (ROk res)).
Proof.
  intros [HI Hnd Hp Hc Hsm] Hres Htf ev s'.
  pose proof HI as HL. unfold Inv in HL. rewrite Hres in HL.
  destruct (take_flight_spec _ _ _ _ Htf) as (Hin & _ & Hsum & _).
  destruct (live_req nows U s p r HL Hin) as (Ha & Ho & Hr).
  assert (Hrp : r_amount r <= per).
  { apply Hsm. unfold outstanding. apply in_or_app. right. apply in_map_iff. exists (p, r). auto. }
  assert (Hw : honest_answer_t c tp top r = whole r) by (apply whole_is_honest; lia).
  assert (Hhon : honest_ev c top s ev).
  { unfold honest_ev, ev. rewrite Htf. exists tp, top, []. split; [lia|]. rewrite app_nil_r. exact Hw. }
  assert (Hne : whole r <> []).
  { unfold whole. destruct (N.to_nat (r_amount r)) eqn:E; [lia|]. cbn. discriminate. }
  split; [exact Hhon|]. split; [exact Hne|].
  assert (Hdo : do_request now drift tv from r (whole r) = DOk (map c (seqN (r_origin r) (N.to_nat (r_amount r))))).
  { unfold whole. apply (do_request_honest drift tv from c top start amount Hnil Hch Hokc Htop Hbound Hfrom); try assumption; lia. }
  destruct (step_accept drift tv maxcap from start amount Hnil Hbound nows U s p now (whole r) r fl _ HL Hres Htf Hdo)
    as (_ & _ & Hstep).
  rewrite map_length, seqN_length, N2Nat.id, N.sub_diag in Hstep. cbn [N.ltb N.compare] in Hstep.
  pose proof (Hstep : s' = _) as Hs'.
  split; [|split; [|split]].
  - rewrite Hs'. unfold mu, outstanding. cbn [s_queue s_flight]. rewrite app_nil_r, !sum_amounts_app, Hsum. lia.
  - rewrite Hs'. reflexivity.
  - rewrite Hs'. cbn [s_idle]. apply in_or_app. right. left. reflexivity.
  - pose proof (step_no_chain_error drift tv maxcap from c top Hnil Hch start amount nows U s ev
                  Hbound Hfrom HI Hc Hhon ltac:(intros ? ? ? [= <- <- <-]; exact Hcv)
                  ltac:(rewrite Hres; discriminate)) as Hnc.
    fold s' in Hnc. rewrite Hs' in Hnc |- *. cbn [s_res] in Hnc |- *.
    destruct (_ <=? _); [|left; reflexivity]. right. unfold finish in *.
    destruct (verify_chunk_boundaries _ _ _ _ _); [eexists; reflexivity | congruence | congruence].
Qed.

(** the continuation, by induction on a bound of its length *)
Lemma complete_from n : forall nows U s,
  (2 * N.to_nat (mu s) + length (s_flight s) <= n)%nat ->
  Good nows U s -> s_res s = None ->
  exists evs,
    (length evs <= 2 * N.to_nat (mu s) + length (s_flight s))%nat /\
    honest_run' s evs /\ reliable drift tv from c top p evs /\
    exists res, s_res (run' s evs) = Some (ROk res).
Proof.
  induction n as [|n IH]; intros nows U s Hn HG Hres.
  { (* the measure is at least 1 while the call has not returned *)
    exfalso. destruct HG as [HI Hnd _ _ _]. unfold Inv in HI. rewrite Hres in HI.
    destruct HI as [H1 _ H3 _ _ _ _]. specialize (Hnd Hres). unfold mu in Hn. lia. }
  pose proof HG as [HI Hnd Hp Hc Hsm]. pose proof HI as HL. unfold Inv in HL. rewrite Hres in HL.
  destruct (s_flight s) as [|[q r] fl] eqn:Hfl.
  - (* nothing in flight: p is idle, the queue is not empty: Dispatch + Respond *)
    destruct Hp as [Hidle|Hf]; [|rewrite Hfl in Hf; destruct Hf].
    assert (Hq : s_queue s <> []).
    { intros Hq. destruct HL as [H1 _ H3 _ _ _ _]. specialize (Hnd Hres).
      unfold outstanding in H3. rewrite Hq, Hfl in H3. cbn in H3. lia. }
    destruct (s_queue s) as [|r q'] eqn:Hqueue; [contradiction|].
    destruct (remove_peer_in p _ Hidle) as (idle' & Hrp).
    set (s1 := step' s (EDispatch p r)).
    assert (Hs1 : s1 = Sess (s_amount s) q' idle' [(p, r)] (s_coll s) (s_chunks s) None).
    { unfold s1, step. rewrite Hres, Hrp, Hqueue, Hfl. cbn [remove_req]. rewrite req_eqb_refl. reflexivity. }
    assert (HG1 : Good nows U s1).
    { apply (good_step nows U s (EDispatch p r) HG); [exact I | intros ? ? [=]]. }
    assert (Hres1 : s_res s1 = None) by (rewrite Hs1; reflexivity).
    assert (Htf1 : take_flight p (s_flight s1) = Some (r, [])).
    { rewrite Hs1. cbn [s_flight take_flight]. rewrite N.eqb_refl. reflexivity. }
    assert (Hmu1 : mu s1 = mu s).
    { rewrite Hs1. unfold mu, outstanding. cbn [s_queue s_flight map snd]. rewrite Hqueue, Hfl.
      cbn [map app]. rewrite sum_amounts_app, app_nil_r. cbn [sum_amounts]. lia. }
    destruct (respond_whole nows U s1 r [] HG1 Hres1 Htf1) as (Hhon & Hne & Hmu & Hfl2 & _ & Hend).
    set (ev2 := ERespond p now (whole r)) in *. set (s2 := step' s1 ev2) in *.
    assert (Ha : 1 <= r_amount r).
    { destruct HL as [_ _ _ H4 _ _ _]. unfold outstanding in H4. rewrite Hqueue in H4.
      pose proof (Forall_inv H4) as Hr. cbn in Hr. lia. }
    assert (HG2 : Good (ev_nows ev2 ++ nows) (ev_hdrs ev2 ++ U) s2).
    { apply (good_step nows U s1 ev2 HG1 Hhon). intros ? ? [= <- <-]. split; assumption. }
    destruct Hend as [Hnone|(res & Hdone)].
    + destruct (IH _ _ s2 ltac:(rewrite Hfl2; cbn [length]; lia) HG2 Hnone) as (evs & Hlen & Hrun & Hrel & Hfin).
      exists (EDispatch p r :: ev2 :: evs). split; [|split; [|split]].
      * cbn [length]. rewrite Hfl2 in Hlen. cbn [length] in Hlen. lia.
      * cbn [honest_run]. split; [exact I|]. fold s1. split; [exact Hhon | exact Hrun].
      * intros now' fs [Hx|[Hx|Hx]]; [discriminate | injection Hx as <- <-; split; assumption | apply Hrel, Hx].
      * cbn [run]. exact Hfin.
    + exists [EDispatch p r; ev2]. split; [|split; [|split]].
      * cbn [length]. lia.
      * cbn [honest_run]. split; [exact I|]. fold s1. split; [exact Hhon | exact I].
      * intros now' fs [Hx|[Hx|[]]]; [discriminate | injection Hx as <- <-; split; assumption].
      * cbn [run]. exists res. exact Hdone.
  - destruct (N.eq_dec q p) as [->|Hqp].
    + (* p's own request is in flight: the whole answer *)
      assert (Htf : take_flight p (s_flight s) = Some (r, fl)).
      { rewrite Hfl. cbn [take_flight]. rewrite N.eqb_refl. reflexivity. }
      destruct (respond_whole nows U s r fl HG Hres Htf) as (Hhon & Hne & Hmu & Hfl2 & _ & Hend).
      set (ev := ERespond p now (whole r)) in *. set (s1 := step' s ev) in *.
      assert (Ha : 1 <= r_amount r).
      { apply (live_req nows U s p r HL). rewrite Hfl. left. reflexivity. }
      assert (HG1 : Good (ev_nows ev ++ nows) (ev_hdrs ev ++ U) s1).
      { apply (good_step nows U s ev HG Hhon). intros ? ? [= <- <-]. split; assumption. }
      destruct Hend as [Hnone|(res & Hdone)].
      * destruct (IH _ _ s1 ltac:(rewrite Hfl2; cbn [length] in Hn; lia) HG1 Hnone) as (evs & Hlen & Hrun & Hrel & Hfin).
        exists (ev :: evs). split; [|split; [|split]].
        -- cbn [length]. rewrite Hfl2 in Hlen. lia.
        -- cbn [honest_run]. split; [exact Hhon | exact Hrun].
        -- intros now' fs [Hx|Hx]; [injection Hx as <- <-; split; assumption | apply Hrel, Hx].
        -- cbn [run]. exact Hfin.
      * exists [ev]. split; [|split; [|split]].
        -- cbn [length]. lia.
        -- cbn [honest_run]. split; [exact Hhon | exact I].
        -- intros now' fs [Hx|[]]. injection Hx as <- <-. split; assumption.
        -- cbn [run]. exists res. exact Hdone.
    + (* another peer's request is in flight: it times out with nothing *)
      assert (Htf : take_flight q (s_flight s) = Some (r, fl)).
      { rewrite Hfl. cbn [take_flight]. rewrite N.eqb_refl. reflexivity. }
      set (ev := ERespond q now []).
      assert (Hhon : honest_ev c top s ev).
      { unfold honest_ev, ev. rewrite Htf. exists tp, top, (honest_answer_t c tp top r). split; [lia | reflexivity]. }
      assert (Hs1 : step' s ev = Sess (s_amount s) (s_queue s ++ [r]) (s_idle s) fl (s_coll s) (s_chunks s) None).
      { unfold ev. rewrite (step_respond _ _ _ _ _ _ _ _ _ _ Hres Htf). reflexivity. }
      assert (HG1 : Good (ev_nows ev ++ nows) (ev_hdrs ev ++ U) (step' s ev)).
      { apply (good_step nows U s ev HG Hhon). intros ? ? [= E _ _]. contradiction. }
      assert (Hmu1 : mu (step' s ev) = mu s).
      { apply (error_keeps_measure drift tv maxcap from s q now [] r fl PEmpty Hres Htf). reflexivity. }
      destruct (IH _ _ (step' s ev) ltac:(rewrite Hmu1, Hs1; cbn [s_flight length] in *; lia) HG1
                   ltac:(rewrite Hs1; reflexivity)) as (evs & Hlen & Hrun & Hrel & Hfin).
      exists (ev :: evs). split; [|split; [|split]].
      * cbn [length]. rewrite Hmu1 in Hlen. rewrite Hs1 in Hlen. cbn [s_flight length] in *. lia.
      * cbn [honest_run]. split; [exact Hhon | exact Hrun].
      * intros now' fs [Hx|Hx]; [injection Hx as E _ _; contradiction | apply Hrel, Hx].
      * cbn [run]. exact Hfin.
Qed.

End completion.

(** C18: completion is always reachable (no scheduler assumption: the continuation is exhibited) *)
Theorem completion_always_reachable drift tv maxcap per from to peers (c : N -> hdr) top :
  h_nil from = false -> h_height from + 1 < two64 -> to < two64 -> 1 <= per -> top < two64 ->
  (forall n, n <= top -> h_height (c n) = n) -> (forall n, n <= top -> h_ok (c n) = true) ->
  forall evs p tp now,
  In p peers ->
  honest_run drift tv maxcap from c top (get_range maxcap per from to peers) evs ->
  reliable drift tv from c top p evs ->
  per <= max_range_request -> tp <= h_height from + 1 ->
  to <= top + 1 -> chain_verifies drift tv from c top now ->
  let s := run drift tv maxcap from (get_range maxcap per from to peers) evs in
  s_res s = None ->
  exists evs',
    (length evs' <= 2 * N.to_nat (mu s) + length (s_flight s))%nat /\
    honest_run drift tv maxcap from c top (get_range maxcap per from to peers) (evs ++ evs') /\
    reliable drift tv from c top p (evs ++ evs') /\
    GetRangeByHeight drift tv maxcap per from to peers (evs ++ evs') =
    Some (ROk (map c (seqN (h_height from + 1) (N.to_nat (to - (h_height from + 1)))))).
Proof.
  intros Hnil Hf Ht Hper Htop Hch Hokc evs p tp now Hp Hrun Hrel Hper64 Htp Hreach Hcv s Hres.
  set (s0 := get_range maxcap per from to peers) in *.
  destruct (get_range_spec drift tv maxcap per from to peers ltac:(lia) Ht Hper)
    as [(_ & H)|[(_ & _ & H)|(Ha & Hcap & H0 & Hidle & Hfl0 & HL0)]].
  1,2: subst s; fold s0 in H; rewrite (run_done _ _ _ _ _ _ _ H) in Hres; congruence.
  fold s0 in H0, Hidle, Hfl0, HL0. rewrite (wrap64_small _ Hf) in *.
  set (start := h_height from + 1) in *. set (amount := to - start) in *.
  destruct (get_range_fresh maxcap per from to peers) as [Hc0 Hr0]. fold s0 in Hc0, Hr0.
  assert (Hb : start + amount < two64) by (subst start amount; lia).
  assert (Hsm0 : small per s0).
  { intros r Hr. unfold outstanding in Hr. rewrite Hfl0 in Hr. cbn [map] in Hr. rewrite app_nil_r in Hr.
    revert Hr. unfold s0, get_range. fold start. rewrite (wrap64_small _ Hf).
    destruct (N.eqb_spec (h_height from) (two64 - 1)); [lia|]. cbn [orb].
    destruct (N.leb_spec to start); [lia|]. rewrite (sub64_le to start) by lia. fold amount.
    pose proof (div_le_self amount per Hper) as Hdiv.
    destruct (prepare_requests_ok maxcap start amount per Hper ltac:(lia) Hb) as (l & Hl & _ & _ & Hfa).
    rewrite Hl. destruct (maxcap <? amount); [intros []|]. cbn [s_queue]. intros Hr.
    rewrite Forall_forall in Hfa. destruct (Hfa r Hr) as (_ & Hle & _). exact Hle. }
  assert (HG0 : Good drift tv from c top start amount p per [] [] s0).
  { constructor; [| | | |exact Hsm0].
    - unfold Inv. rewrite H0. exact HL0.
    - intros _. rewrite Hc0. destruct HL0 as [Hamt _ _ _ _ _ _]. rewrite Hamt. cbn. subst amount. lia.
    - left. rewrite Hidle. exact Hp.
    - split; [rewrite Hc0; constructor|]. intros l Hl. exfalso. exact (Hr0 l Hl). }
  assert (Hfr : h_height from < start) by (subst start; lia).
  assert (Hre : start + amount <= top + 1) by (subst start amount; lia).
  pose proof (good_run drift tv maxcap from c top start amount p per tp Hnil Hch Hokc Htop Hb Hfr
                Hre Htp Hper64 evs [] [] s0 HG0 Hrun Hrel) as HG. fold s in HG.
  destruct (complete_from drift tv maxcap from c top start amount p now per tp Hnil Hch Hokc Htop Hb Hfr
              Hre Htp Hper64 Hcv _ _ _ s (le_n _) HG Hres)
    as (evs' & Hlen & Hrun' & Hrel' & res & Hfin).
  exists evs'. split; [exact Hlen|].
  assert (Hrunall : honest_run drift tv maxcap from c top s0 (evs ++ evs')).
  { apply honest_run_app. split; [exact Hrun | exact Hrun']. }
  split; [exact Hrunall|]. split.
  { intros now' fs Hin. apply in_app_or in Hin as [Hin|Hin]; [apply Hrel, Hin | apply Hrel', Hin]. }
  assert (Hout : GetRangeByHeight drift tv maxcap per from to peers (evs ++ evs') = Some (ROk res)).
  { unfold GetRangeByHeight. fold s0. rewrite run_app. exact Hfin. }
  rewrite Hout. do 2 f_equal.
  exact (exact_range drift tv maxcap per from to peers c top (evs ++ evs') res Hnil Hf Ht Hper Hch Hrunall Hout).
Qed.
