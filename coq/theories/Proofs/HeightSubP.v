(** C12 — invariants and proofs about Model/HeightSub.v *)
From Coq Require Import ZifyBool ZifyNat ZifyN FinFun.
From GH Require Import Base.Prelude Model.HeightSub.

Local Open Scope N_scope.

(** * list helpers *)
Lemma upd_length {A} (l : list A) i x : length (upd l i x) = length l.
Proof. revert i; induction l as [|a l IH]; intros [|i]; cbn; auto. Qed.

Lemma nth_upd_eq {A} (l : list A) i x r : nth_error l i = Some r -> nth_error (upd l i x) i = Some x.
Proof. revert i; induction l as [|a l IH]; intros [|i]; cbn; try discriminate; auto. Qed.

Lemma nth_upd_neq {A} (l : list A) i j x : i <> j -> nth_error (upd l i x) j = nth_error l j.
Proof. revert i j; induction l as [|a l IH]; intros [|i] [|j] H; cbn; try congruence; auto. Qed.

Lemma nth_upd_none {A} (l : list A) i x : nth_error l i = None -> upd l i x = l.
Proof. revert i; induction l as [|a l IH]; intros [|i]; cbn; try discriminate; auto. intros H; f_equal; auto. Qed.

Lemma nth_upd_inv {A} (l : list A) i j x y : nth_error (upd l i x) j = Some y ->
  (i = j /\ y = x /\ nth_error l i <> None) \/ (i <> j /\ nth_error l j = Some y).
Proof.
  destruct (Nat.eq_dec i j) as [->|ne].
  - destruct (nth_error l j) eqn:E.
    + rewrite (nth_upd_eq _ _ _ _ E). intros [= <-]. left; repeat split; congruence.
    + rewrite (nth_upd_none _ _ _ E), E. discriminate.
  - rewrite nth_upd_neq by assumption. right; auto.
Qed.

Lemma Forall_upd {A} (P : A -> Prop) l i x : Forall P l -> P x -> Forall P (upd l i x).
Proof.
  intros H Hx; revert i; induction H as [|a l Ha Hl IH]; intros [|i]; cbn; constructor; auto.
Qed.

Lemma Forall_nth {A} (P : A -> Prop) l i x : Forall P l -> nth_error l i = Some x -> P x.
Proof. intros H E. apply nth_error_In in E. rewrite Forall_forall in H. auto. Qed.

(** * the store: lookups *)
Definition stored (s : state) (n : N) : Prop := lookup s n <> None.

Lemma map_get_In m n id : map_get m n = Some id -> In (n, id) m.
Proof.
  induction m as [|[h i] m IH]; cbn; [discriminate|].
  destruct (N.eqb_spec h n) as [->|ne]; [intros [= ->]; auto | auto].
Qed.

Lemma map_get_In_fst m n : In n (map fst m) -> map_get m n <> None.
Proof.
  induction m as [|[h i] m IH]; cbn; [tauto|].
  destruct (N.eqb_spec h n) as [->|ne]; [discriminate|]. intros [H|H]; [congruence|auto].
Qed.

Lemma map_get_fst_In m n : map_get m n <> None -> In n (map fst m).
Proof.
  induction m as [|[h i] m IH]; cbn; [tauto|].
  destruct (N.eqb_spec h n) as [->|ne]; auto.
Qed.

Lemma rev_append_fst (hs m : list hid) n : In n (map fst (rev_append hs m)) <-> In n (map fst hs) \/ In n (map fst m).
Proof.
  rewrite rev_append_rev, map_app, in_app_iff, map_rev, <- in_rev. tauto.
Qed.

Lemma rev_append_In (hs m : list hid) x : In x (rev_append hs m) <-> In x hs \/ In x m.
Proof. rewrite rev_append_rev, in_app_iff, <- in_rev. tauto. Qed.

Lemma ptr_get_In p n id : ptr_get p n = Some id -> p = Some (n, id).
Proof.
  destruct p as [[h i]|]; cbn; [|discriminate].
  destruct (N.eqb_spec h n) as [->|ne]; [intros [= ->]; auto | discriminate].
Qed.

Lemma lookup_cases s n id : lookup s n = Some id ->
  st_head s = Some (n, id) \/ st_tail s = Some (n, id) \/ In (n, id) (st_map s).
Proof.
  unfold lookup. destruct (ptr_get (st_head s) n) eqn:E1.
  - intros [= <-]. left. apply ptr_get_In; auto.
  - destruct (ptr_get (st_tail s) n) eqn:E2.
    + intros [= <-]. right; left. apply ptr_get_In; auto.
    + intros H. right; right. apply map_get_In; auto.
Qed.

Lemma stored_map s n : map_get (st_map s) n <> None -> stored s n.
Proof.
  unfold stored, lookup. destruct (ptr_get (st_head s) n); [discriminate|].
  destruct (ptr_get (st_tail s) n); [discriminate|]. auto.
Qed.

(** a pointer holds a header that is in the map (pending.Append precedes ensureInit) *)
Definition ptr_in (s : state) (p : option hid) : Prop :=
  match p with
  | None => True
  | Some x => map_get (st_map s) (fst x) <> None
  end.

Lemma ptr_get_some p n : ptr_get p n <> None -> exists id, p = Some (n, id).
Proof.
  destruct (ptr_get p n) eqn:E; [|congruence]. intros _. exists n0. apply ptr_get_In; auto.
Qed.

Lemma stored_inv s n : ptr_in s (st_head s) -> ptr_in s (st_tail s) -> stored s n ->
  map_get (st_map s) n <> None.
Proof.
  unfold stored, lookup. intros Hh Ht.
  destruct (ptr_get (st_head s) n) eqn:E1.
  - intros _. apply ptr_get_In in E1. rewrite E1 in Hh. exact Hh.
  - destruct (ptr_get (st_tail s) n) eqn:E2.
    + intros _. apply ptr_get_In in E2. rewrite E2 in Ht. exact Ht.
    + auto.
Qed.

(** * nextHead / nextTail *)
Lemma adv_up_ge s fuel cur : fst cur <= fst (adv_up s fuel cur).
Proof.
  revert cur; induction fuel as [|f IH]; intros cur; cbn; [lia|].
  destruct (lookup s (fst cur + 1)) eqn:E; [|lia].
  specialize (IH (fst cur + 1, n)). cbn [fst] in IH. lia.
Qed.

Lemma adv_up_stored s fuel cur : fst (adv_up s fuel cur) <> fst cur -> stored s (fst (adv_up s fuel cur)).
Proof.
  revert cur; induction fuel as [|f IH]; intros cur; cbn; [congruence|].
  destruct (lookup s (fst cur + 1)) eqn:E; [|congruence].
  intros _. destruct (N.eq_dec (fst (adv_up s f (fst cur + 1, n))) (fst cur + 1)) as [e|ne].
  - rewrite e. unfold stored. congruence.
  - apply (IH (fst cur + 1, n)). exact ne.
Qed.

Lemma adv_up_in s fuel cur (U : list hid) :
  (forall n id, lookup s n = Some id -> In (n, id) U) -> In cur U -> In (adv_up s fuel cur) U.
Proof.
  intros HU. revert cur; induction fuel as [|f IH]; intros cur Hc; cbn; auto.
  destruct (lookup s (fst cur + 1)) eqn:E; auto.
Qed.

Lemma adv_down_stored s fuel cur : fst (adv_down s fuel cur) <> fst cur -> stored s (fst (adv_down s fuel cur)).
Proof.
  revert cur; induction fuel as [|f IH]; intros cur; cbn; [congruence|].
  destruct (fst cur =? 0); [congruence|].
  destruct (lookup s (fst cur - 1)) eqn:E; [|congruence].
  intros _. destruct (N.eq_dec (fst (adv_down s f (fst cur - 1, n))) (fst cur - 1)) as [e|ne].
  - rewrite e. unfold stored. congruence.
  - apply (IH (fst cur - 1, n)). exact ne.
Qed.

Lemma adv_down_in s fuel cur (U : list hid) :
  (forall n id, lookup s n = Some id -> In (n, id) U) -> In cur U -> In (adv_down s fuel cur) U.
Proof.
  intros HU. revert cur; induction fuel as [|f IH]; intros cur Hc; cbn; auto.
  destruct (fst cur =? 0); auto.
  destruct (lookup s (fst cur - 1)) eqn:E; auto.
Qed.

(** nextHead stops only at a missing height: the fuel is never exhausted *)
Fixpoint up_run (s : state) (h : N) (k : nat) : Prop :=
  match k with O => True | S j => stored s (h + 1) /\ up_run s (h + 1) j end.

Lemma adv_up_fixpoint_or_run s fuel cur :
  lookup s (fst (adv_up s fuel cur) + 1) = None \/ up_run s (fst cur) fuel.
Proof.
  revert cur; induction fuel as [|f IH]; intros cur; cbn; [right; exact I|].
  destruct (lookup s (fst cur + 1)) eqn:E; [|left; exact E].
  destruct (IH (fst cur + 1, n)) as [H|H]; [left; exact H|].
  right. split; [unfold stored; congruence | exact H].
Qed.

Lemma up_run_nth s h k : up_run s h k -> forall j, (j < k)%nat -> stored s (h + 1 + N.of_nat j).
Proof.
  revert h; induction k as [|k IH]; intros h H j Hj; [lia|].
  destruct H as [H1 H2]. destruct j as [|j].
  - replace (h + 1 + N.of_nat 0) with (h + 1) by lia. exact H1.
  - replace (h + 1 + N.of_nat (S j)) with (h + 1 + 1 + N.of_nat j) by lia.
    apply (IH (h + 1) H2 j). lia.
Qed.

Lemma adv_up_complete s cur : st_head s = Some cur ->
  lookup s (fst (adv_up s (fuel_of s) cur) + 1) = None.
Proof.
  intros Hh. destruct (adv_up_fixpoint_or_run s (fuel_of s) cur) as [H|H]; [exact H|].
  exfalso. set (k := fuel_of s) in *.
  pose proof (up_run_nth _ _ _ H) as Hn.
  set (L := map (fun j => fst cur + 1 + N.of_nat j) (seq 0 k)).
  set (T := match st_tail s with Some x => [fst x] | None => [] end ++ map fst (st_map s)).
  assert (ND : NoDup L).
  { unfold L. apply Injective_map_NoDup; [|apply seq_NoDup]. intros a b; lia. }
  assert (IN : incl L T).
  { intros n Hin. unfold L in Hin. apply in_map_iff in Hin as (j & <- & Hj). apply in_seq in Hj.
    specialize (Hn j ltac:(lia)). unfold stored, lookup in Hn. unfold T.
    rewrite Hh in Hn. destruct cur as [h i]. cbn [ptr_get fst] in *.
    destruct (N.eqb_spec h (h + 1 + N.of_nat j)) as [e|ne]; [exfalso; clear - e; lia|].
    destruct (ptr_get (st_tail s) (h + 1 + N.of_nat j)) eqn:E.
    - apply ptr_get_In in E. rewrite E. cbn. auto.
    - apply in_or_app. right. apply map_get_fst_In. exact Hn. }
  pose proof (NoDup_incl_length ND IN) as Hl.
  unfold L, T in Hl. rewrite map_length, seq_length, app_length, map_length in Hl.
  subst k. unfold fuel_of in Hl. clear - Hl. unfold hid in *. destruct (st_tail s); cbn [length] in Hl; lia.
Qed.

(** * frame: reader steps, cancellations and Enq do not touch the writer-side fields *)
Definition same_store (s s' : state) : Prop :=
  st_head s' = st_head s /\ st_tail s' = st_tail s /\ st_map s' = st_map s /\
  st_hsh s' = st_hsh s /\ st_w s' = st_w s /\ st_notified s' = st_notified s.

Lemma same_store_refl s : same_store s s.
Proof. repeat split. Qed.

Lemma same_store_trans s t u : same_store s t -> same_store t u -> same_store s u.
Proof.
  intros (a1 & a2 & a3 & a4 & a5 & a6) (b1 & b2 & b3 & b4 & b5 & b6). repeat split; congruence.
Qed.

Lemma notify_all_same p s : same_store s (notify_all p s).
Proof. repeat split. Qed.

Lemma notify_one_same n s : same_store s (notify_one n s).
Proof.
  unfold notify_one. destruct (sub_get (st_subs s) n); [|apply same_store_refl].
  destruct (Nat.eqb (Nat.pred n0) 0); repeat split.
Qed.

Lemma rstep_same b s i : same_store s (rstep b s i).
Proof.
  unfold rstep. destruct (nth_error (st_readers s) i) as [r|]; [|apply same_store_refl].
  assert (C : forall pc, same_store s (notify_one (r_n r) (set_reader s i (with_pc r pc)))).
  { intros pc. apply (same_store_trans s (set_reader s i (with_pc r pc))); [repeat split | apply notify_one_same]. }
  destruct (r_pc r) as [| | |ph sig| |x].
  - destruct (r_n r =? 0); [repeat split|]. destruct (lookup s (r_n r)); repeat split.
  - destruct (r_n r <=? st_hsh s); repeat split.
  - destruct (r_n r <=? st_hsh s); repeat split.
  - destruct ph.
    + destruct (lookup s (r_n r)); repeat split.
    + apply C.
    + unfold ctx_branch.
      destruct (r_cancel r && (b || negb sig)); [apply C|]. destruct sig; [repeat split|apply same_store_refl].
  - repeat split.
  - apply same_store_refl.
Qed.

Lemma cancel_same s i : same_store s (cancel s i).
Proof. unfold cancel. destruct (nth_error (st_readers s) i); repeat split. Qed.

Lemma lookup_same s s' n : same_store s s' -> lookup s' n = lookup s n.
Proof. intros (a & b & c & _). unfold lookup. rewrite a, b, c. reflexivity. Qed.

(** * the writer-side invariant *)
Definition in_map (s : state) (hs : list hid) : Prop :=
  forall n, In n (map fst hs) -> map_get (st_map s) n <> None.

Record InvW (s : state) : Prop := {
  w_head0 : st_head s = None -> st_hsh s = 0;
  w_pc : match st_w s with
         | WInitStore hs h0 => st_hsh s = 0 /\ (exists x r, hs = x :: r /\ fst x = h0 /\ st_head s = Some x) /\ in_map s hs
         | WInitNotify hs h0 => st_hsh s = h0 /\ (exists x r, hs = x :: r /\ fst x = h0 /\ st_head s = Some x) /\ in_map s hs
         | WEnsure hs | WTail hs | WNotify hs => in_map s hs
         | WNotifyRange c h => h <= st_hsh s
         | _ => True
         end;
  w_ptrh : ptr_in s (st_head s);
  w_ptrt : ptr_in s (st_tail s);
  w_rest : match st_w s with
           | WInitStore _ _ => True
           | WSetHeight h => hsh_of (st_head s) = h /\ st_hsh s <= h
           | _ => hsh_of (st_head s) = st_hsh s
           end }.

Definition wf_init (hd tl : option hid) (m : list hid) : Prop :=
  (forall x, hd = Some x -> map_get m (fst x) <> None) /\
  (forall x, tl = Some x -> map_get m (fst x) <> None).

Lemma InvW_init hd tl m ns q : wf_init hd tl m -> InvW (init hd tl m ns q).
Proof.
  intros [H1 H2]. constructor; cbn.
  - intros ->. reflexivity.
  - exact I.
  - destruct hd; cbn; auto.
  - destruct tl; cbn; auto.
  - reflexivity.
Qed.

Lemma InvW_same s s' : same_store s s' -> InvW s -> InvW s'.
Proof.
  intros (a & b & c & d & e & f) [H1 H2 H3 H4 H5].
  constructor; unfold ptr_in, in_map in *; rewrite ?a, ?b, ?c, ?d, ?e; auto.
Qed.

Lemma stored_w_inv s n : InvW s -> stored s n -> map_get (st_map s) n <> None.
Proof. intros [_ _ Hh Ht _]. apply stored_inv; auto. Qed.

Lemma hsh_of_fst (x : hid) : hsh_of (Some x) = fst x.
Proof. destruct x; reflexivity. Qed.

Ltac wfin0 := cbn in *; auto; try discriminate; try congruence; try tauto; try lia.
Ltac wfin := unfold ptr_in, in_map; cbn in *;
  repeat match goal with E : st_head ?s = _ |- context[st_head ?s] => rewrite E end;
  wfin0.
Ltac wclose := try (split; [solve [auto] | split; [eexists _, _; repeat split; solve [eauto] | solve [auto]]]); try apply hsh_of_fst.
Local Opaque adv_up adv_down fuel_of.

Lemma map_get_rev_append hs m n : map_get m n <> None -> map_get (rev_append hs m) n <> None.
Proof. intros H. apply map_get_In_fst, rev_append_fst. right. apply map_get_fst_In; auto. Qed.

Lemma InvW_wstep s : InvW s -> InvW (wstep s).
Proof.
  intros IW. pose proof IW as [H1 H2 H3 H4 H5]. unfold wstep. unfold ptr_in, in_map in H2, H3, H4.
  destruct (st_w s) eqn:Ew.
  - (* WIdle *) destruct (st_queue s) as [|hs q]; [exact IW|]. constructor; wfin.
  - (* WAppend *) constructor; wfin.
    + intros n Hn. apply map_get_In_fst, rev_append_fst. auto.
    + destruct (st_head s); wfin. apply map_get_rev_append; auto.
    + destruct (st_tail s); wfin. apply map_get_rev_append; auto.
  - (* WEnsure *) destruct hs as [|h0 hs]; [constructor; wfin|].
    destruct (st_head s) as [hd|] eqn:Eh; constructor; wfin; wclose.
    all: try (destruct (st_tail s); wfin); try (apply H2; left; reflexivity).
  - (* WInitStore *) destruct H2 as (Hz & (x & r & -> & <- & Eh) & Hm). rewrite Eh in *.
    constructor; wfin; wclose.
  - (* WInitNotify *) destruct H2 as (Hz & (x & r & -> & <- & Eh) & Hm). rewrite Eh in *.
    constructor; wfin; wclose.
  - (* WTail *) destruct hs as [|h0 hs]; constructor; wfin.
    destruct (st_tail s); wfin; try (apply H2; left; reflexivity).
  - (* WNotify *) constructor; wfin.
  - (* WAdvance *) destruct (st_head s) as [cur|] eqn:Eh.
    + destruct (N.eqb_spec (fst (adv_up s (fuel_of s) cur)) (fst cur)) as [e|ne].
      * constructor; wfin.
      * constructor; wfin.
        -- pose proof (adv_up_stored s _ _ ne) as Hs. apply (stored_w_inv _ _ IW Hs).
        -- split; [apply (hsh_of_fst (adv_up s (fuel_of s) cur))|]. rewrite <- H5. change (fst cur <= fst (adv_up s (fuel_of s) cur)). apply adv_up_ge.
    + constructor; wfin.
  - (* WSetHeight *) destruct H5 as [H5 H6].
    destruct (N.leb_spec h (st_hsh s)).
    + constructor; wfin.
    + constructor; wfin.
      intros E. rewrite E in H5. cbn in H5. lia.
  - constructor; wfin.
  - destruct (st_tail s) as [cur|] eqn:Et.
    + constructor; wfin.
      destruct (N.eq_dec (fst (adv_down s (fuel_of s) cur)) (fst cur)) as [e|ne].
        -- rewrite e. tauto.
        -- pose proof (adv_down_stored s _ _ ne) as Hs. apply (stored_w_inv _ _ IW Hs).
    + constructor; wfin. rewrite Et. constructor.
Qed.

Lemma step_same_or_w s e : same_store s (step s e) \/ e = Wr.
Proof.
  destruct e; cbn; auto; left.
  - apply rstep_same.
  - apply rstep_same.
  - apply cancel_same.
  - destruct hs; repeat split.
Qed.

Lemma InvW_step s e : InvW s -> InvW (step s e).
Proof.
  intros I. destruct (step_same_or_w s e) as [H| ->].
  - eapply InvW_same; eauto.
  - apply InvW_wstep; auto.
Qed.

(** * monotonicity: Height() never decreases, a stored height stays stored *)
Lemma hsh_mono s e : InvW s -> st_hsh s <= st_hsh (step s e).
Proof.
  intros IW. destruct (step_same_or_w s e) as [(_ & _ & _ & H & _)| ->]; [rewrite H; lia|].
  pose proof IW as [H1 H2 H3 H4 H5]. cbn. unfold wstep.
  destruct (st_w s) eqn:Ew; cbn; try lia.
  - destruct (st_queue s); cbn; lia.
  - destruct hs as [|h0 hs]; cbn; [lia|]. destruct (st_head s); cbn; lia.
  - destruct hs; cbn; lia.
  - destruct (st_head s); cbn; try lia. destruct (_ =? _); cbn; lia.
  - destruct (N.leb_spec h (st_hsh s)); cbn; lia.
  - destruct (st_tail s); cbn; lia.
Qed.

Lemma map_wstep s n : map_get (st_map s) n <> None -> map_get (st_map (wstep s)) n <> None.
Proof.
  unfold wstep. destruct (st_w s); cbn; auto.
  - destruct (st_queue s); cbn; auto.
  - apply map_get_rev_append.
  - destruct hs as [|h0 hs]; cbn; auto. destruct (st_head s); cbn; auto.
  - destruct hs; cbn; auto.
  - destruct (st_head s); cbn; auto. destruct (_ =? _); cbn; auto.
  - destruct (_ <=? _); cbn; auto.
  - destruct (st_tail s); cbn; auto.
Qed.

Lemma stored_mono s e n : InvW s -> stored s n -> stored (step s e) n.
Proof.
  intros IW Hs. destruct (step_same_or_w s e) as [H| ->].
  - unfold stored. rewrite (lookup_same _ _ _ H). exact Hs.
  - cbn. apply stored_map, map_wstep, (stored_w_inv _ _ IW Hs).
Qed.

Lemma run_app sched1 sched2 s : run (sched1 ++ sched2) s = run sched2 (run sched1 s).
Proof. apply fold_left_app. Qed.

Lemma run_snoc sched e s : run (sched ++ [e]) s = step (run sched s) e.
Proof. rewrite run_app. reflexivity. Qed.

Lemma InvW_run sched s : InvW s -> InvW (run sched s).
Proof. revert s; induction sched as [|e l IH]; intros s H; cbn; auto. apply IH, InvW_step, H. Qed.

Lemma hsh_mono_run sched s : InvW s -> st_hsh s <= st_hsh (run sched s).
Proof.
  revert s; induction sched as [|e l IH]; intros s H; cbn; [lia|].
  eapply N.le_trans; [apply (hsh_mono s e H) | apply IH, InvW_step, H].
Qed.

Lemma stored_mono_run sched s n : InvW s -> stored s n -> stored (run sched s) n.
Proof.
  revert s; induction sched as [|e l IH]; intros s H Hs; cbn; auto.
  apply IH; [apply InvW_step, H | apply stored_mono; auto].
Qed.

(** * what a step does to one reader *)
Definition sig_of (r : reader) : reader :=
  match r_pc r with RWait ph _ => with_pc r (RWait ph true) | _ => r end.

Lemma signal_spec p r : signal p r = if parked r && p (r_n r) then sig_of r else r.
Proof.
  unfold signal, parked, sig_of. destruct (r_pc r) as [| | |ph [|]| |]; cbn; try reflexivity.
Qed.

Lemma signal_false r : signal (fun _ => false) r = r.
Proof. rewrite signal_spec. rewrite andb_false_r. reflexivity. Qed.

Lemma map_signal_false l : map (signal (fun _ => false)) l = l.
Proof. induction l; cbn; [reflexivity|]. rewrite signal_false, IHl. reflexivity. Qed.

Lemma signal_n p r : r_n (signal p r) = r_n r.
Proof. rewrite signal_spec. unfold sig_of. destruct (_ && _); [|reflexivity]. destruct (r_pc r); reflexivity. Qed.

(** new record of the reader that takes a step *)
Definition rnext (b : bool) (s : state) (r : reader) : reader :=
  let n := r_n r in
  match r_pc r with
  | RStart =>
    if n =? 0 then with_pc r (RDone RZero)
    else match lookup s n with
         | Some id => with_pc r (RDone (RFound id))
         | None => with_pc r RCheck1
         end
  | RCheck1 => if n <=? st_hsh s then with_pc r RLookup2 else with_pc r RLocked
  | RLocked =>
    if n <=? st_hsh s then with_pc r RLookup2 else with_pc r (RWait PRecheck false)
  | RWait PRecheck sig =>
    match lookup s n with
    | Some _ => with_pc r (RWait PDereg sig)
    | None => with_pc r (RWait PSelect sig)
    end
  | RWait PDereg sig => with_pc r RLookup2
  | RWait PSelect sig =>
    if r_cancel r && (b || negb sig) then with_pc r (RDone RCtx)
    else if sig then with_pc r RLookup2 else r
  | RLookup2 => with_pc r (RDone (lookup_res s n))
  | RDone _ => r
  end.

Lemma notify_one_readers n s : exists hit, st_readers (notify_one n s) = map (signal hit) (st_readers s).
Proof.
  unfold notify_one. destruct (sub_get (st_subs s) n).
  - destruct (Nat.eqb (Nat.pred n0) 0).
    + eexists. reflexivity.
    + exists (fun _ => false). cbn. rewrite map_signal_false. reflexivity.
  - exists (fun _ => false). rewrite map_signal_false. reflexivity.
Qed.

Lemma wstep_readers s : exists hit, st_readers (wstep s) = map (signal hit) (st_readers s).
Proof.
  unfold wstep. destruct (st_w s); cbn;
    try (eexists; reflexivity);
    try (exists (fun _ => false); rewrite map_signal_false; reflexivity).
  - destruct (st_queue s); cbn; exists (fun _ => false); rewrite map_signal_false; reflexivity.
  - destruct hs as [|h0 hs]; cbn; [|destruct (st_head s); cbn];
      exists (fun _ => false); rewrite map_signal_false; reflexivity.
  - destruct hs; cbn; exists (fun _ => false); rewrite map_signal_false; reflexivity.
  - destruct (st_head s); cbn; [destruct (_ =? _)|]; cbn;
      exists (fun _ => false); rewrite map_signal_false; reflexivity.
  - destruct (_ <=? _); cbn; exists (fun _ => false); rewrite map_signal_false; reflexivity.
  - destruct (st_tail s); cbn; exists (fun _ => false); rewrite map_signal_false; reflexivity.
Qed.

(** the stepping reader: its new record is [rnext]; every other reader is
    unchanged or has just been signalled *)
Lemma rstep_readers b s i r : nth_error (st_readers s) i = Some r ->
  exists hit, st_readers (rstep b s i) = map (signal hit) (upd (st_readers s) i (rnext b s r))
              /\ signal hit (rnext b s r) = rnext b s r.
Proof.
  intros E. unfold rstep, rnext. rewrite E.
  assert (T : forall x, exists hit,
             upd (st_readers s) i x = map (signal hit) (upd (st_readers s) i x) /\ signal hit x = x).
  { intros x. exists (fun _ => false). rewrite map_signal_false, signal_false. auto. }
  assert (U : exists hit, st_readers s = map (signal hit) (upd (st_readers s) i r) /\ signal hit r = r).
  { exists (fun _ => false). rewrite map_signal_false, signal_false. split; auto.
    clear - E. revert i E; induction (st_readers s) as [|a l IH]; intros [|i]; cbn; try discriminate.
    - intros [= ->]; reflexivity.
    - intros E. f_equal. auto. }
  assert (C : forall pc, (forall ph, pc <> RWait ph false) -> exists hit,
                st_readers (notify_one (r_n r) (set_reader s i (with_pc r pc))) =
                map (signal hit) (upd (st_readers s) i (with_pc r pc))
                /\ signal hit (with_pc r pc) = with_pc r pc).
  { intros pc Hpc.
    destruct (notify_one_readers (r_n r) (set_reader s i (with_pc r pc))) as [hit H].
    exists hit. split; [exact H|]. rewrite signal_spec. unfold parked. cbn.
    destruct pc as [| | |ph [|]| |]; try reflexivity. exfalso. apply (Hpc ph). reflexivity. }
  destruct (r_pc r) as [| | |ph sig| |x] eqn:Epc.
  - destruct (r_n r =? 0); [apply T|]. destruct (lookup s (r_n r)); apply T.
  - destruct (r_n r <=? st_hsh s); apply T.
  - destruct (r_n r <=? st_hsh s); [apply T|].
    exists (fun _ => false). split; [cbn; rewrite map_signal_false; reflexivity | apply signal_false].
  - destruct ph.
    + destruct (lookup s (r_n r)); apply T.
    + unfold dereg_branch. apply C. discriminate.
    + unfold ctx_branch.
      destruct (r_cancel r && (b || negb sig)); [apply C; discriminate|]. destruct sig; [apply T|exact U].
  - apply T.
  - exact U.
Qed.

Lemma rstep_own b s i r : nth_error (st_readers s) i = Some r ->
  nth_error (st_readers (rstep b s i)) i = Some (rnext b s r).
Proof.
  intros E. destruct (rstep_readers b s i r E) as (hit & -> & Hs).
  rewrite nth_error_map, (nth_upd_eq _ _ _ _ E). cbn. rewrite Hs. reflexivity.
Qed.

Definition other_rel (r r' : reader) : Prop := r' = r \/ (parked r = true /\ r' = sig_of r).

Lemma signal_rel p r : other_rel r (signal p r).
Proof. rewrite signal_spec. destruct (parked r) eqn:E; cbn; [destruct (p _)|]; [right|left|left]; auto. Qed.

Lemma rstep_other b s i j r : i <> j -> nth_error (st_readers s) j = Some r ->
  exists r', nth_error (st_readers (rstep b s i)) j = Some r' /\ other_rel r r'.
Proof.
  intros ne E. destruct (nth_error (st_readers s) i) as [ri|] eqn:Ei.
  - destruct (rstep_readers b s i ri Ei) as (hit & -> & _).
    rewrite nth_error_map, nth_upd_neq, E by assumption. cbn. eexists; split; [reflexivity|apply signal_rel].
  - unfold rstep. rewrite Ei. exists r. split; [exact E|left; reflexivity].
Qed.

Definition own_step (e : event) (j : nat) : bool :=
  match e with Rd i | RdCtx i => Nat.eqb i j | _ => false end.

Definition cancel_of (r : reader) : reader := Reader (r_n r) (r_pc r) true.

Lemma step_other s e j r : own_step e j = false -> nth_error (st_readers s) j = Some r ->
  exists r', nth_error (st_readers (step s e)) j = Some r' /\
             (other_rel r r' \/ (e = Cancel j /\ r' = cancel_of r)).
Proof.
  intros Ho E. destruct e as [i|i|i| |hs]; cbn in *.
  - apply Nat.eqb_neq in Ho. destruct (rstep_other false s i j r Ho E) as (r' & H1 & H2). eauto.
  - apply Nat.eqb_neq in Ho. destruct (rstep_other true s i j r Ho E) as (r' & H1 & H2). eauto.
  - unfold cancel. destruct (Nat.eq_dec i j) as [->|ne].
    + rewrite E. cbn. rewrite (nth_upd_eq _ _ _ _ E). eexists; split; [reflexivity|]. right; auto.
    + destruct (nth_error (st_readers s) i); cbn; [rewrite nth_upd_neq by assumption|];
        exists r; split; auto; left; left; reflexivity.
  - destruct (wstep_readers s) as [hit ->]. rewrite nth_error_map, E. cbn.
    eexists; split; [reflexivity|]. left. apply signal_rel.
  - destruct hs; cbn; exists r; split; auto; left; left; reflexivity.
Qed.

Lemma step_own s e j r : own_step e j = true -> nth_error (st_readers s) j = Some r ->
  exists b, nth_error (st_readers (step s e)) j = Some (rnext b s r).
Proof.
  intros Ho E. destruct e as [i|i|i| |hs]; cbn in *; try discriminate;
    apply Nat.eqb_eq in Ho; subst i; eexists; apply rstep_own; exact E.
Qed.

Lemma step_length s e : length (st_readers (step s e)) = length (st_readers s).
Proof.
  destruct e as [i|i|i| |hs]; cbn.
  - destruct (nth_error (st_readers s) i) as [r|] eqn:E.
    + destruct (rstep_readers false s i r E) as (hit & -> & _). rewrite map_length, upd_length. reflexivity.
    + unfold rstep. rewrite E. reflexivity.
  - destruct (nth_error (st_readers s) i) as [r|] eqn:E.
    + destruct (rstep_readers true s i r E) as (hit & -> & _). rewrite map_length, upd_length. reflexivity.
    + unfold rstep. rewrite E. reflexivity.
  - unfold cancel. destruct (nth_error (st_readers s) i); cbn; [apply upd_length|reflexivity].
  - destruct (wstep_readers s) as [hit ->]. apply map_length.
  - destruct hs; reflexivity.
Qed.

(** * progress of one reader along a schedule *)
Lemma rnext_n b s r : r_n (rnext b s r) = r_n r.
Proof.
  unfold rnext. destruct (r_pc r) as [| | |[| |] sig| |x]; cbn;
    repeat match goal with |- context[if ?c then _ else _] => destruct c; cbn end;
    try destruct (lookup s (r_n r)); reflexivity.
Qed.

Lemma rd_count_own e l i : rd_count (e :: l) i = ((if own_step e i then 1 else 0) + rd_count l i)%nat.
Proof. destruct e; cbn; try rewrite Nat.eqb_sym; reflexivity. Qed.

(** a generic simulation argument: [P k r] = "reader is in a good state and
    needs at most k more of its own steps" *)
Section Progress.
  Variable P : state -> nat -> reader -> Prop.
  Hypothesis P_other : forall s e k r r', P s k r ->
    (other_rel r r' \/ r' = cancel_of r) -> P (step s e) k r'.
  Hypothesis P_own : forall s e k r b, P s k r -> P (step s e) (Nat.pred k) (rnext b s r).
  Hypothesis P_weak : forall s k r, P s k r -> forall k', (k <= k')%nat -> P s k' r.

  Lemma progress_run sched : forall s i r k, nth_error (st_readers s) i = Some r -> P s k r ->
    exists r', nth_error (st_readers (run sched s) ) i = Some r' /\ P (run sched s) (k - rd_count sched i) r'.
  Proof.
    induction sched as [|e l IH]; intros s i r k E Hp; cbn [run fold_left].
    - exists r. split; auto. cbn. rewrite Nat.sub_0_r. exact Hp.
    - rewrite rd_count_own. destruct (own_step e i) eqn:Eo.
      + destruct (step_own s e i r Eo E) as [b E'].
        destruct (IH (step s e) i _ (Nat.pred k) E' (P_own s e k r b Hp)) as (r' & H1 & H2).
        exists r'. split; [exact H1|]. replace (k - (1 + rd_count l i))%nat with (Nat.pred k - rd_count l i)%nat by lia. exact H2.
      + destruct (step_other s e i r Eo E) as (r1 & E' & Hrel).
        assert (Hp1 : P (step s e) k r1).
        { apply (P_other s e k r r1 Hp). destruct Hrel as [H|[_ H]]; auto. }
        destruct (IH (step s e) i r1 k E' Hp1) as (r' & H1 & H2).
        exists r'. split; [exact H1|]. exact H2.
  Qed.
End Progress.

(** ** a cancelled context always releases the caller *)
Definition crank (pc : rpc) : nat :=
  match pc with
  | RStart => 7 | RCheck1 => 6 | RLocked => 5
  | RWait PRecheck _ => 4 | RWait PDereg _ => 3 | RWait PSelect _ => 2
  | RLookup2 => 1 | RDone _ => 0
  end.

Definition Pcancel (_ : state) (k : nat) (r : reader) : Prop :=
  r_cancel r = true /\ (crank (r_pc r) <= k)%nat.

Lemma cancel_releases_gen s i r sched : nth_error (st_readers s) i = Some r -> r_cancel r = true ->
  exists r', nth_error (st_readers (run sched s)) i = Some r' /\
             r_n r' = r_n r /\ r_cancel r' = true /\ (crank (r_pc r') <= 7 - rd_count sched i)%nat.
Proof.
  intros E Hc.
  set (P := fun (s0 : state) (k : nat) (x : reader) => Pcancel s0 k x /\ r_n x = r_n r).
  destruct (progress_run P) with (sched := sched) (s := s) (i := i) (r := r) (k := 7%nat) as (r' & H1 & (H2 & H3) & H4); auto.
  - intros s0 e k x x' [[Hx1 Hx2] Hx3] [[->|[Hp ->]]| ->]; (split; [split|]); cbn; auto.
    all: unfold sig_of; unfold parked in Hp; destruct (r_pc x) as [| | |[| |] [|]| |]; try discriminate; cbn in *; auto.
  - intros s0 e k x b [[Hx1 Hx2] Hx3]. split; [|rewrite rnext_n; exact Hx3]. unfold Pcancel, rnext.
    destruct (r_pc x) as [| | |[| |] sig| |y] eqn:Epc; cbn in Hx2.
    + destruct (r_n x =? 0); [|destruct (lookup s0 (r_n x))]; cbn; split; auto; lia.
    + destruct (r_n x <=? st_hsh s0); cbn; split; auto; lia.
    + destruct (r_n x <=? st_hsh s0); cbn; split; auto; lia.
    + destruct (lookup s0 (r_n x)); cbn; split; auto; lia.
    + cbn; split; auto; lia.
    + rewrite Hx1. destruct b, sig; cbn; split; auto; lia.
    + cbn; split; auto; lia.
    + rewrite Epc. cbn. split; auto; lia.
  - intros s0 k x [[Hx1 Hx2] Hx3] k' Hk. split; [split|]; auto. lia.
  - split; [split|]; auto. destruct (r_pc r) as [| | |[| |] ?| |]; cbn; lia.
  - exists r'. auto.
Qed.

(** ** at or below Height(): never parks, done after three own steps *)
Definition brank (pc : rpc) : option nat :=
  match pc with
  | RStart => Some 3%nat | RCheck1 | RLocked => Some 2%nat | RLookup2 => Some 1%nat
  | RDone (RFound _) | RDone RNotFound => Some 0%nat
  | _ => None
  end.

Lemma below_height_gen s i r sched : InvW s -> nth_error (st_readers s) i = Some r ->
  r_n r <> 0 -> r_n r <= st_hsh s -> (r_pc r = RStart \/ r_pc r = RCheck1 \/ r_pc r = RLocked) ->
  exists r' k, nth_error (st_readers (run sched s)) i = Some r' /\ r_n r' = r_n r /\
               brank (r_pc r') = Some k /\ (k <= 3 - rd_count sched i)%nat /\
               (stored s (r_n r) -> r_pc r' <> RDone RNotFound).
Proof.
  intros IW E Hn Hh Hpc.
  set (P := fun (s0 : state) (k : nat) (x : reader) =>
              InvW s0 /\ r_n x = r_n r /\ r_n r <= st_hsh s0 /\
              (exists j, brank (r_pc x) = Some j /\ (j <= k)%nat) /\
              (stored s (r_n r) -> stored s0 (r_n r) /\ r_pc x <> RDone RNotFound)).
  destruct (progress_run P) with (sched := sched) (s := s) (i := i) (r := r) (k := 3%nat)
    as (r' & H1 & (H2 & H3 & H4 & (j & H5 & H6) & H7)); auto.
  - intros s0 e k x x' (I0 & Hx1 & Hx2 & (j & Hj1 & Hj2) & Hx4) Hrel.
    assert (Hpk : parked x = false).
    { unfold parked. destruct (r_pc x) as [| | |? [|]| |]; cbn in *; congruence. }
    assert (Hx' : r_n x' = r_n x /\ r_pc x' = r_pc x).
    { destruct Hrel as [[->|[Hp ->]]| ->]; auto; congruence. }
    destruct Hx' as [e1 e2]. unfold P. rewrite e1, e2.
    split; [apply InvW_step; auto|]. split; [auto|]. split; [pose proof (hsh_mono s0 e I0); lia|].
    split; [eauto|]. intros Hst. destruct (Hx4 Hst). split; [apply stored_mono; auto|auto].
  - intros s0 e k x b (I0 & Hx1 & Hx2 & (j & Hj1 & Hj2) & Hx4).
    unfold P. rewrite rnext_n.
    split; [apply InvW_step; auto|]. split; [auto|]. split; [pose proof (hsh_mono s0 e I0); lia|].
    assert (Hle : (r_n x <=? st_hsh s0) = true) by (apply N.leb_le; lia).
    assert (Hnz : (r_n x =? 0) = false) by (apply N.eqb_neq; congruence).
    unfold rnext. rewrite Hle, Hnz.
    destruct (r_pc x) as [| | |ph sig| |[id| | |]] eqn:Epc; cbn in Hj1; try discriminate.
    + destruct (lookup s0 (r_n x)) eqn:El; cbn.
      * split; [exists 0%nat; split; auto; lia|]. intros Hst. destruct (Hx4 Hst). split; [apply stored_mono; auto|discriminate].
      * split; [exists 2%nat; split; auto; injection Hj1 as <-; lia|]. intros Hst. destruct (Hx4 Hst). split; [apply stored_mono; auto|discriminate].
    + cbn. split; [exists 1%nat; split; auto; injection Hj1 as <-; lia|]. intros Hst. destruct (Hx4 Hst). split; [apply stored_mono; auto|discriminate].
    + cbn. split; [exists 1%nat; split; auto; injection Hj1 as <-; lia|]. intros Hst. destruct (Hx4 Hst). split; [apply stored_mono; auto|discriminate].
    + cbn. unfold lookup_res. destruct (lookup s0 (r_n x)) eqn:El; cbn.
      * split; [exists 0%nat; split; auto; lia|]. intros Hst. destruct (Hx4 Hst). split; [apply stored_mono; auto|discriminate].
      * split; [exists 0%nat; split; auto; lia|]. intros Hst. destruct (Hx4 Hst) as [Hs0 _]. exfalso. apply Hs0. rewrite <- Hx1. exact El.
    + cbn. rewrite Epc. cbn. split; [exists 0%nat; split; auto; lia|]. intros Hst. destruct (Hx4 Hst). split; [apply stored_mono; auto|discriminate].
    + cbn. rewrite Epc. cbn. split; [exists 0%nat; split; auto; lia|]. intros Hst. destruct (Hx4 Hst). split; [apply stored_mono; auto|auto].
  - intros s0 k x (I0 & Hx1 & Hx2 & (j & Hj1 & Hj2) & Hx4) k' Hk. unfold P.
    split; [auto|]. split; [auto|]. split; [auto|]. split; [|auto]. exists j. split; auto. lia.
  - unfold P. split; [auto|]. split; [auto|]. split; [auto|]. split.
    + destruct Hpc as [-> | [-> | ->]]; cbn; eexists; split; eauto.
    + intros Hst. split; [auto|]. destruct Hpc as [-> | [-> | ->]]; discriminate.
  - exists r', j. split; [auto|]. split; [auto|]. split; [auto|]. split; [auto|]. intros Hst. apply H7; auto.
Qed.

(** * the heightSubs map and the parked readers *)
Definition at_n (n : N) (r : reader) : bool := parked r && (r_n r =? n).
Definition cnt (n : N) (l : list reader) : nat := length (filter (at_n n) l).
Definition b2n (b : bool) : nat := if b then 1%nat else 0%nat.

Lemma cnt_upd n l i r r' : nth_error l i = Some r ->
  (cnt n (upd l i r') + b2n (at_n n r) = cnt n l + b2n (at_n n r'))%nat.
Proof.
  unfold cnt. revert i; induction l as [|a l IH]; intros [|i]; cbn; try discriminate.
  - intros [= ->]. destruct (at_n n r), (at_n n r'); cbn; lia.
  - intros E. specialize (IH i E). destruct (at_n n a); cbn; lia.
Qed.

Lemma parked_sig_of r : parked (sig_of r) = false.
Proof. unfold parked, sig_of. destruct (r_pc r) as [| | |ph [|]| |] eqn:E; cbn; rewrite ?E; reflexivity. Qed.

Lemma n_sig_of r : r_n (sig_of r) = r_n r.
Proof. unfold sig_of. destruct (r_pc r); reflexivity. Qed.

Lemma at_n_signal hit n r : at_n n (signal hit r) = at_n n r && negb (hit n).
Proof.
  rewrite signal_spec. unfold at_n. destruct (parked r) eqn:Ep; cbn [andb].
  - destruct (N.eqb_spec (r_n r) n) as [e|ne].
    + rewrite e. destruct (hit n); cbn; [rewrite parked_sig_of; reflexivity|]. rewrite Ep, e, N.eqb_refl. reflexivity.
    + destruct (hit (r_n r)); cbn; [rewrite parked_sig_of; reflexivity|]. rewrite Ep. cbn.
      destruct (N.eqb_spec (r_n r) n); [congruence|reflexivity].
  - rewrite Ep. reflexivity.
Qed.

Lemma cnt_map_signal hit n l : cnt n (map (signal hit) l) = if hit n then 0%nat else cnt n l.
Proof.
  unfold cnt. induction l as [|a l IH]; cbn; [destruct (hit n); reflexivity|].
  rewrite at_n_signal. destruct (hit n); cbn in *.
  - rewrite andb_false_r. exact IH.
  - rewrite andb_true_r. destruct (at_n n a); cbn; rewrite IH; reflexivity.
Qed.

Lemma sub_get_filter (p : N -> bool) l m :
  sub_get (filter (fun q => negb (p (fst q))) l) m = if p m then None else sub_get l m.
Proof.
  induction l as [|[h c] l IH]; cbn; [destruct (p m); reflexivity|].
  destruct (p h) eqn:Eh; cbn.
  - rewrite IH. destruct (N.eqb_spec h m) as [->|ne]; [rewrite Eh; reflexivity|reflexivity].
  - rewrite IH. destruct (N.eqb_spec h m) as [->|ne]; [rewrite Eh; reflexivity|reflexivity].
Qed.

Lemma sub_get_set l n c m : sub_get (sub_set l n c) m = if n =? m then Some c else sub_get l m.
Proof.
  unfold sub_set, sub_del. cbn. destruct (N.eqb_spec n m) as [->|ne]; [reflexivity|].
  rewrite (sub_get_filter (fun h => h =? n)). destruct (N.eqb_spec m n); [congruence|reflexivity].
Qed.

Lemma has_sub_filter p l m : has_sub (filter (fun q => negb (p (fst q))) l) m = negb (p m) && has_sub l m.
Proof. unfold has_sub. rewrite sub_get_filter. destruct (p m); reflexivity. Qed.

Definition Ksub (s : state) : Prop :=
  forall n, match sub_get (st_subs s) n with
            | None => cnt n (st_readers s) = 0%nat
            | Some c => (1 <= c <= cnt n (st_readers s))%nat /\ ((c < cnt n (st_readers s))%nat -> stored s n)
            end.

(** registered, and its sub has been closed *)
Definition sigd (r : reader) : bool := match r_pc r with RWait _ true => true | _ => false end.

Lemma sigd_sig_of r : parked r = true -> sigd (sig_of r) = true /\ r_n (sig_of r) = r_n r /\ parked (sig_of r) = false.
Proof. unfold parked, sigd, sig_of. destruct (r_pc r) as [| | |ph [|]| |]; try discriminate. cbn. auto. Qed.

Definition Ksig (s : state) : Prop :=
  forall i r, nth_error (st_readers s) i = Some r -> sigd r = true ->
    (stored s (r_n r) \/ r_n r <= st_hsh s) /\ (has_sub (st_subs s) (r_n r) = true -> stored s (r_n r)).

Definition InvK (s : state) : Prop := Ksub s /\ Ksig s.

Lemma InvK_init hd tl m ns q : InvK (init hd tl m ns q).
Proof.
  split.
  - intros n. cbn. unfold cnt. induction ns; cbn; auto.
  - intros i r. cbn. intros E Hp. apply nth_error_In, in_map_iff in E as (x & <- & _). discriminate.
Qed.

(** a notification step: subs with [p] closed, their waiters signalled *)
Lemma InvK_notify (p : N -> bool) s s' :
  st_subs s' = filter (fun q => negb (p (fst q))) (st_subs s) ->
  st_readers s' = map (signal (fun n => p n && has_sub (st_subs s) n)) (st_readers s) ->
  (forall n, stored s n -> stored s' n) -> st_hsh s <= st_hsh s' ->
  (forall n, p n = true -> stored s' n \/ n <= st_hsh s') ->
  InvK s -> InvK s'.
Proof.
  intros Es Er Hst Hh Hp [K1 K2]. split.
  - intros n. rewrite Es, Er, sub_get_filter, cnt_map_signal. specialize (K1 n).
    destruct (p n) eqn:Ep; cbn.
    + unfold has_sub. destruct (sub_get (st_subs s) n); [reflexivity|exact K1].
    + destruct (sub_get (st_subs s) n); [|exact K1]. destruct K1 as [H1 H2]. split; auto.
  - intros i r'. rewrite Er, nth_error_map. destruct (nth_error (st_readers s) i) as [r|] eqn:E; [|discriminate].
    cbn. intros [= <-]. rewrite signal_spec. rewrite Es.
    destruct (parked r && (p (r_n r) && has_sub (st_subs s) (r_n r))) eqn:Eh.
    + intros _. apply andb_prop in Eh as [Ep Eh]. apply andb_prop in Eh as [Eh _].
      destruct (sigd_sig_of r Ep) as (_ & -> & _). split; [auto|].
      rewrite has_sub_filter, Eh. discriminate.
    + intros Hpc. destruct (K2 i r E Hpc) as [A B]. split.
      * destruct A; [left; auto|right; lia].
      * rewrite has_sub_filter. intros H. apply andb_prop in H as [_ H]. auto.
Qed.

(** a reader's record changes without entering or leaving "parked, not signalled at n" *)
Lemma InvK_neutral s s' i r r' :
  st_subs s' = st_subs s -> st_readers s' = upd (st_readers s) i r' ->
  (forall n, stored s n -> stored s' n) -> st_hsh s <= st_hsh s' ->
  nth_error (st_readers s) i = Some r -> (forall n, at_n n r' = at_n n r) ->
  (sigd r' = true -> sigd r = true /\ r_n r' = r_n r) ->
  InvK s -> InvK s'.
Proof.
  intros Es Er Hst Hh E Hp Hsig [K1 K2]. split.
  - intros n. rewrite Es, Er. specialize (K1 n). pose proof (cnt_upd n _ i r r' E) as Hc.
    rewrite Hp in Hc.
    replace (cnt n (upd (st_readers s) i r')) with (cnt n (st_readers s)) by lia.
    destruct (sub_get (st_subs s) n); [|exact K1]. destruct K1; split; auto.
  - intros j x. rewrite Er, Es. intros Ex Hx. apply nth_upd_inv in Ex as [(-> & -> & _)|(ne & Ex)].
    + destruct (Hsig Hx) as [Hr Hn]. rewrite Hn. destruct (K2 j r E Hr) as [A B]. split.
      * destruct A; [left; auto|right; lia].
      * auto.
    + destruct (K2 j x Ex Hx) as [A B]. split.
      * destruct A; [left; auto|right; lia].
      * auto.
Qed.

Lemma filter_all {A} (l : list A) : filter (fun _ => true) l = l.
Proof. induction l; cbn; congruence. Qed.

Lemma InvK_same s s' :
  st_subs s' = st_subs s -> st_readers s' = st_readers s ->
  (forall n, stored s n -> stored s' n) -> st_hsh s <= st_hsh s' -> InvK s -> InvK s'.
Proof.
  intros Es Er Hst Hh. apply (InvK_notify (fun _ => false)); auto.
  - rewrite Es. cbn. symmetry. apply filter_all.
  - rewrite Er. cbn. symmetry. apply map_signal_false.
  - discriminate.
Qed.

Lemma cnt_pos n l i r : nth_error l i = Some r -> at_n n r = true -> (1 <= cnt n l)%nat.
Proof.
  unfold cnt. revert i; induction l as [|a l IH]; intros [|i]; cbn; try discriminate.
  - intros [= ->] ->. cbn. lia.
  - intros E H. specialize (IH i E H). destruct (at_n n a); cbn; lia.
Qed.

Lemma cnt_two n l i j r x : i <> j -> nth_error l i = Some r -> nth_error l j = Some x ->
  at_n n r = true -> at_n n x = true -> (2 <= cnt n l)%nat.
Proof.
  intros ne Ei Ej Hr Hx.
  pose proof (cnt_upd n l i r (with_pc r RStart) Ei) as Hc.
  assert (Hs : at_n n (with_pc r RStart) = false) by reflexivity.
  rewrite Hr, Hs in Hc. cbn in Hc.
  assert (Ej' : nth_error (upd l i (with_pc r RStart)) j = Some x) by (rewrite nth_upd_neq; auto).
  pose proof (cnt_pos n _ j x Ej' Hx). lia.
Qed.

(** registration in Wait's critical section *)
Lemma InvK_register s s' i r r' n c :
  nth_error (st_readers s) i = Some r -> parked r = false -> sigd r = false ->
  r_n r' = n -> parked r' = true -> st_hsh s < n ->
  c = match sub_get (st_subs s) n with Some c => c | None => O end ->
  st_subs s' = sub_set (st_subs s) n (S c) -> st_readers s' = upd (st_readers s) i r' ->
  (forall m, lookup s' m = lookup s m) -> st_hsh s' = st_hsh s ->
  InvK s -> InvK s'.
Proof.
  intros E Hp Hnt Hn Hpc Hh Hc Es Er Hl Hh' [K1 K2].
  assert (Hst : forall m, stored s' m <-> stored s m) by (intros m; unfold stored; rewrite Hl; tauto).
  assert (A1 : forall m, at_n m r = false) by (intros m; unfold at_n; rewrite Hp; reflexivity).
  assert (A2 : forall m, at_n m r' = (n =? m)).
  { intros m. unfold at_n. rewrite Hpc, Hn. reflexivity. }
  split.
  - intros m. rewrite Es, Er, sub_get_set. pose proof (cnt_upd m _ i r r' E) as Hcm.
    rewrite A1, A2 in Hcm. specialize (K1 m).
    destruct (N.eqb_spec n m) as [<-|ne]; cbn in Hcm.
    + destruct (sub_get (st_subs s) n) as [c0|]; subst c.
      * destruct K1 as [H1 H2]. split; [lia|]. intros H. apply Hst, H2. lia.
      * split; [lia|]. intros H. lia.
    + replace (cnt m (upd (st_readers s) i r')) with (cnt m (st_readers s)) by lia.
      destruct (sub_get (st_subs s) m); [|exact K1]. destruct K1 as [H1 H2]. split; auto.
      intros H. apply Hst; auto.
  - intros j x. rewrite Er, Es, Hh'. intros Ex Hx. apply nth_upd_inv in Ex as [(-> & -> & _)|(ne & Ex)].
    { exfalso. unfold parked, sigd in *. destruct (r_pc r') as [| | |? [|]| |]; discriminate. }
    destruct (K2 j x Ex Hx) as [A B]. split.
    + destruct A; [left; apply Hst; auto|right; auto].
    + unfold has_sub. rewrite sub_get_set. destruct (N.eqb_spec n (r_n x)) as [e|ne'].
      * intros _. apply Hst. destruct A as [A|A]; [exact A|]. lia.
      * intros H. apply Hst. apply B. exact H.
Qed.

(** a notification combined with the move of one reader (the ctx.Done() branch) *)
Lemma InvK_notify_upd (p : N -> bool) s s' i r rd :
  st_subs s' = filter (fun q => negb (p (fst q))) (st_subs s) ->
  st_readers s' = map (signal (fun n => p n && has_sub (st_subs s) n)) (upd (st_readers s) i rd) ->
  nth_error (st_readers s) i = Some r -> parked rd = false -> sigd rd = false ->
  (parked r = true -> p (r_n r) = true) ->
  (forall n, stored s n -> stored s' n) -> st_hsh s <= st_hsh s' ->
  (forall j x, i <> j -> nth_error (st_readers s) j = Some x -> parked x = true -> p (r_n x) = true ->
     has_sub (st_subs s) (r_n x) = true -> stored s' (r_n x) \/ r_n x <= st_hsh s') ->
  InvK s -> InvK s'.
Proof.
  intros Es Er E Hrd Hrd' Hr Hst Hh Hside [K1 K2].
  assert (A2 : forall m, at_n m rd = false) by (intros m; unfold at_n; rewrite Hrd; reflexivity).
  split.
  - intros n. rewrite Es, Er, sub_get_filter, cnt_map_signal. specialize (K1 n).
    pose proof (cnt_upd n _ i r rd E) as Hc. rewrite A2 in Hc. cbn in Hc.
    destruct (p n) eqn:Ep; cbn.
    + unfold has_sub. destruct (sub_get (st_subs s) n); [reflexivity|]. lia.
    + assert (A1 : at_n n r = false).
      { unfold at_n. destruct (parked r) eqn:Epr; [|reflexivity]. cbn.
        destruct (N.eqb_spec (r_n r) n) as [e|ne]; [|reflexivity]. rewrite <- e, (Hr eq_refl) in Ep. discriminate. }
      rewrite A1 in Hc. cbn in Hc.
      replace (cnt n (upd (st_readers s) i rd)) with (cnt n (st_readers s)) by lia.
      destruct (sub_get (st_subs s) n); [|exact K1]. destruct K1 as [H1 H2]. split; auto.
  - intros j x'. rewrite Er, nth_error_map.
    destruct (nth_error (upd (st_readers s) i rd) j) as [x|] eqn:Ex; [|discriminate].
    cbn. intros [= <-]. rewrite signal_spec, Es.
    apply nth_upd_inv in Ex as [(-> & -> & _)|(ne & Ex)].
    + rewrite Hrd. cbn. intros H. congruence.
    + destruct (parked x && (p (r_n x) && has_sub (st_subs s) (r_n x))) eqn:Eh.
      * intros _. apply andb_prop in Eh as [Eh1 Eh]. apply andb_prop in Eh as [Eh2 Eh3].
        destruct (sigd_sig_of x Eh1) as (_ & -> & _). split.
        -- apply (Hside j x); auto.
        -- rewrite has_sub_filter, Eh2. discriminate.
      * intros Hpc. destruct (K2 j x Ex Hpc) as [A B]. split.
        -- destruct A; [left; auto|right; lia].
        -- rewrite has_sub_filter. intros H. apply andb_prop in H as [_ H]. auto.
Qed.

(** notify(n, false) with other waiters left: count-- *)
Lemma InvK_decrement s s' i r rd n c :
  nth_error (st_readers s) i = Some r -> (exists ph sig, r_pc r = RWait ph sig) -> r_n r = n ->
  parked rd = false -> sigd rd = false ->
  sub_get (st_subs s) n = Some c -> (2 <= c)%nat ->
  st_subs s' = sub_set (st_subs s) n (Nat.pred c) -> st_readers s' = upd (st_readers s) i rd ->
  (forall m, lookup s' m = lookup s m) -> st_hsh s' = st_hsh s ->
  InvK s -> InvK s'.
Proof.
  intros E (ph & sig & Hpc) Hn Hrd Hrd' Hsub Hc Es Er Hl Hh' [K1 K2].
  assert (Hst : forall m, stored s' m <-> stored s m) by (intros m; unfold stored; rewrite Hl; tauto).
  assert (A2 : forall m, at_n m rd = false) by (intros m; unfold at_n; rewrite Hrd; reflexivity).
  split.
  - intros m. rewrite Es, Er, sub_get_set. pose proof (cnt_upd m _ i r rd E) as Hcm.
    rewrite A2 in Hcm. cbn in Hcm. specialize (K1 m).
    destruct (N.eqb_spec n m) as [<-|ne].
    + rewrite Hsub in K1. destruct K1 as [H1 H2].
      destruct sig.
      * (* stale cancellation: the reader's own sub was already closed *)
        assert (A1 : at_n n r = false) by (unfold at_n, parked; rewrite Hpc; reflexivity).
        rewrite A1 in Hcm. cbn in Hcm. split; [lia|]. intros _. apply Hst.
        assert (Hsg : sigd r = true) by (unfold sigd; rewrite Hpc; reflexivity).
        destruct (K2 i r E Hsg) as [_ B]. rewrite <- Hn. apply B. unfold has_sub. rewrite Hn, Hsub. reflexivity.
      * assert (A1 : at_n n r = true) by (unfold at_n, parked; rewrite Hpc, Hn, N.eqb_refl; reflexivity).
        rewrite A1 in Hcm. cbn in Hcm. split; [lia|]. intros H. apply Hst, H2. lia.
    + assert (A1 : at_n m r = false).
      { unfold at_n. rewrite Hn. destruct (N.eqb_spec n m); [congruence|]. apply andb_false_r. }
      rewrite A1 in Hcm. cbn in Hcm.
      replace (cnt m (upd (st_readers s) i rd)) with (cnt m (st_readers s)) by lia.
      destruct (sub_get (st_subs s) m); [|exact K1]. destruct K1 as [H1 H2]. split; auto.
      intros H. apply Hst; auto.
  - intros j x. rewrite Er, Es, Hh'. intros Ex Hx. apply nth_upd_inv in Ex as [(-> & -> & _)|(ne & Ex)]; [congruence|].
    destruct (K2 j x Ex Hx) as [A B]. split.
    + destruct A; [left; apply Hst; auto|right; auto].
    + unfold has_sub. rewrite sub_get_set. destruct (N.eqb_spec n (r_n x)) as [e|ne'].
      * intros _. apply Hst, B. unfold has_sub. rewrite <- e, Hsub. reflexivity.
      * intros H. apply Hst, B. exact H.
Qed.

Ltac wcases s :=
  unfold wstep;
  let hs := fresh "hs" in let h0 := fresh "h0" in let h := fresh "h" in let c := fresh "c" in
  let x0 := fresh "x0" in let l0 := fresh "l0" in let q := fresh "q" in let cur := fresh "cur" in
  destruct (st_w s) as [|hs|hs|hs h0|hs h0|hs|hs| |h|c h|] eqn:Ew;
  [ destruct (st_queue s) as [|hs q] eqn:Eq
  |
  | destruct hs as [|x0 l0]; [|destruct (st_head s) eqn:Eh]
  | |
  | destruct hs as [|x0 l0]
  |
  | destruct (st_head s) as [cur|] eqn:Eh; [destruct (_ =? _)|]
  | destruct (_ <=? _) | | destruct (st_tail s) as [cur|] eqn:Et ].

Lemma wstep_form s : InvW s -> exists p : N -> bool,
  st_subs (wstep s) = filter (fun q => negb (p (fst q))) (st_subs s) /\
  st_readers (wstep s) = map (signal (fun n => p n && has_sub (st_subs s) n)) (st_readers s) /\
  (forall n, p n = true -> stored (wstep s) n \/ n <= st_hsh (wstep s)).
Proof.
  intros IW. pose proof IW as [H1 H2 H3 H4 H5].
  assert (T : forall s', st_subs s' = st_subs s -> st_readers s' = st_readers s ->
     exists p : N -> bool, st_subs s' = filter (fun q => negb (p (fst q))) (st_subs s) /\
       st_readers s' = map (signal (fun n => p n && has_sub (st_subs s) n)) (st_readers s) /\
       (forall n, p n = true -> stored s' n \/ n <= st_hsh s')).
  { intros s' E1 E2. exists (fun _ => false). cbn. rewrite E1, E2, filter_all, map_signal_false.
    split; [reflexivity|]. split; [reflexivity|]. discriminate. }
  wcases s; try (apply T; reflexivity).
  - exists (fun h => h <? h0). split; [reflexivity|]. split; [reflexivity|].
    intros n Hn. right. cbn. destruct H2 as [-> _]. apply N.ltb_lt in Hn. lia.
  - exists (fun h => mem h (map fst hs)). split; [reflexivity|]. split; [reflexivity|].
    intros n Hn. left. apply stored_map. cbn. apply H2.
    unfold mem in Hn. apply existsb_exists in Hn as (x & Hx & e). apply N.eqb_eq in e. subst. exact Hx.
  - exists (in_range c h). split; [reflexivity|]. split; [reflexivity|].
    intros n Hn. right. cbn. unfold in_range in Hn. apply andb_prop in Hn as [_ Hn]. apply N.leb_le in Hn. lia.
Qed.

Lemma InvK_dereg s i r ph sig pc : nth_error (st_readers s) i = Some r -> r_pc r = RWait ph sig ->
  (forall ph' sg, pc <> RWait ph' sg) ->
  InvK s -> InvK (notify_one (r_n r) (set_reader s i (with_pc r pc))).
Proof.
  intros E Epc Hpcn IK. pose proof IK as [K1 K2].
  set (rd := with_pc r pc).
  assert (Hrd : parked rd = false).
  { unfold parked, rd. cbn. destruct pc as [| | |ph' [|]| |]; try reflexivity. exfalso. apply (Hpcn ph' false). reflexivity. }
  assert (Hrd' : sigd rd = false).
  { unfold sigd, rd. cbn. destruct pc as [| | |ph' [|]| |]; try reflexivity. exfalso. apply (Hpcn ph' true). reflexivity. }
  unfold notify_one. cbn [st_subs set_reader set_readers].
  destruct (sub_get (st_subs s) (r_n r)) as [c|] eqn:Esub.
  - pose proof (K1 (r_n r)) as Kn. rewrite Esub in Kn. destruct Kn as [Kc1 Kc2].
    destruct (Nat.eqb (Nat.pred c) 0) eqn:Ec.
    + apply Nat.eqb_eq in Ec.
      apply (InvK_notify_upd (fun h => h =? r_n r) s _ i r rd); auto.
      * intros _. apply N.eqb_refl.
      * cbn. lia.
      * intros j x ne Ex Hx Hp Hsub. apply N.eqb_eq in Hp. left. rewrite Hp.
        change (stored s (r_n r)). destruct sig.
        -- assert (Hsg : sigd r = true) by (unfold sigd; rewrite Epc; reflexivity).
           destruct (K2 i r E Hsg) as [_ B]. apply B. unfold has_sub. rewrite Esub. reflexivity.
        -- apply Kc2.
           assert (A1 : at_n (r_n r) r = true) by (unfold at_n, parked; rewrite Epc, N.eqb_refl; reflexivity).
           assert (A2 : at_n (r_n r) x = true) by (unfold at_n; rewrite Hx, Hp, N.eqb_refl; reflexivity).
           pose proof (cnt_two _ _ i j r x ne E Ex A1 A2). lia.
    + apply Nat.eqb_neq in Ec.
      apply (InvK_decrement s _ i r rd (r_n r) c); eauto; try (cbn; lia); try reflexivity.
  - destruct sig.
    + apply (InvK_neutral s _ i r rd); auto; try (cbn; lia); try (rewrite Hrd'; discriminate).
      intros n. unfold at_n. rewrite Hrd. unfold parked. rewrite Epc. reflexivity.
    + exfalso. pose proof (K1 (r_n r)) as Kn. rewrite Esub in Kn.
      assert (A1 : at_n (r_n r) r = true) by (unfold at_n, parked; rewrite Epc, N.eqb_refl; reflexivity).
      pose proof (cnt_pos _ _ i r E A1). lia.
Qed.

Lemma InvK_rstep b s i : InvK s -> InvK (rstep b s i).
Proof.
  intros IK. unfold rstep. destruct (nth_error (st_readers s) i) as [r|] eqn:E; [|exact IK].
  assert (NT : forall pc, parked (with_pc r pc) = parked r -> (sigd (with_pc r pc) = true -> sigd r = true) ->
                 InvK (set_reader s i (with_pc r pc))).
  { intros pc H1 H2. apply (InvK_neutral s _ i r (with_pc r pc)); auto; try (cbn; lia);
      try (intros H; split; auto; fail).
    intros n. unfold at_n. rewrite H1. reflexivity. }
  destruct (r_pc r) as [| | |ph sig| |x] eqn:Epc.
  - destruct (r_n r =? 0); [|destruct (lookup s (r_n r))]; apply NT; unfold parked, sigd; cbn; rewrite ?Epc; auto; discriminate.
  - destruct (r_n r <=? st_hsh s); apply NT; unfold parked, sigd; cbn; rewrite ?Epc; auto; discriminate.
  - destruct (N.leb_spec (r_n r) (st_hsh s)); [apply NT; unfold parked, sigd; cbn; rewrite ?Epc; auto; discriminate|].
    eapply (InvK_register s _ i r (with_pc r (RWait PRecheck false)) (r_n r));
      try reflexivity; auto; try congruence.
    + unfold parked. rewrite Epc. reflexivity.
    + unfold sigd. rewrite Epc. reflexivity.
  - destruct ph.
    + destruct (lookup s (r_n r)); apply NT; unfold parked, sigd; cbn; rewrite ?Epc; auto.
    + unfold dereg_branch. eapply InvK_dereg; eauto. discriminate.
    + unfold ctx_branch. destruct (r_cancel r && (b || negb sig)); [eapply InvK_dereg; eauto; discriminate|].
      destruct sig; [apply NT; unfold parked, sigd; cbn; rewrite ?Epc; auto; discriminate|exact IK].
  - apply NT; unfold parked, sigd; cbn; rewrite ?Epc; auto; discriminate.
  - exact IK.
Qed.

Lemma InvK_step s e : InvW s -> InvK s -> InvK (step s e).
Proof.
  intros IW IK.
  assert (Hst : forall n, stored s n -> stored (step s e) n) by (intros n; apply stored_mono; auto).
  pose proof (hsh_mono s e IW) as Hh.
  destruct e as [i|i|i| |hs].
  - apply InvK_rstep; auto.
  - apply InvK_rstep; auto.
  - cbn in *. unfold cancel in *. destruct (nth_error (st_readers s) i) as [r|] eqn:E; [|exact IK].
    apply (InvK_neutral s _ i r (cancel_of r)); auto.
  - destruct (wstep_form s IW) as (p & E1 & E2 & E3). eapply InvK_notify; eauto.
  - cbn in *. destruct hs; [exact IK|]. eapply InvK_same; eauto.
Qed.

(** * per-reader invariant: a parked reader is still going to be notified *)
Definition wp (w : wpc) : N -> bool :=
  match w with
  | WInitNotify _ h0 => fun h => h <? h0
  | WNotify hs => fun h => mem h (map fst hs)
  | WNotifyRange c h => in_range c h
  | _ => fun _ => false
  end.

Lemma wstep_readers_eq s :
  st_readers (wstep s) = map (signal (fun n => wp (st_w s) n && has_sub (st_subs s) n)) (st_readers s).
Proof.
  wcases s; cbn; try reflexivity; rewrite map_signal_false; reflexivity.
Qed.

(** the notification that is still going to reach height n in the current flush *)
Definition cover (w : wpc) (n : N) : bool :=
  match w with
  | WInitNotify hs h0 => (n <? h0) || mem n (map fst hs)
  | WAppend hs | WEnsure hs | WInitStore hs _ | WTail hs | WNotify hs => mem n (map fst hs)
  | WNotifyRange c h => in_range c h n
  | _ => false
  end.

Definition Pr (s : state) (r : reader) : Prop :=
  (parked r = true -> st_hsh s < r_n r \/ cover (st_w s) (r_n r) = true) /\
  (blocked r = true -> mem (r_n r) (st_notified s) = false) /\
  (forall sig, r_pc r = RWait PDereg sig -> stored s (r_n r)) /\
  (r_pc r = RLookup2 -> stored s (r_n r) \/ r_n r <= st_hsh s) /\
  (r_pc r = RDone RNotFound -> r_n r <= st_hsh s) /\
  (r_pc r = RDone RCtx -> r_cancel r = true) /\
  (r_pc r = RDone RZero -> r_n r = 0).

Definition InvP (s : state) : Prop :=
  Forall (Pr s) (st_readers s) /\ (forall n, In n (st_notified s) -> map_get (st_map s) n <> None).

Lemma InvP_init hd tl m ns q : InvP (init hd tl m ns q).
Proof.
  split; [|intros n []]. cbn. apply Forall_forall. intros r Hr. apply in_map_iff in Hr as (n & <- & _).
  unfold Pr, parked, blocked. cbn. repeat split; intros; discriminate.
Qed.

Lemma parked_has_sub s i r : InvK s -> nth_error (st_readers s) i = Some r -> parked r = true ->
  has_sub (st_subs s) (r_n r) = true.
Proof.
  intros [K1 _] E Hpc. specialize (K1 (r_n r)). unfold has_sub.
  destruct (sub_get (st_subs s) (r_n r)); [reflexivity|]. exfalso.
  assert (A : at_n (r_n r) r = true) by (unfold at_n; rewrite Hpc, N.eqb_refl; reflexivity).
  pose proof (cnt_pos _ _ i r E A). lia.
Qed.

Lemma mem_app n l1 l2 : mem n (l1 ++ l2) = mem n l1 || mem n l2.
Proof. unfold mem. apply existsb_app. Qed.

Lemma mem_In n l : mem n l = true <-> In n l.
Proof.
  unfold mem. rewrite existsb_exists. split.
  - intros (x & Hx & e). apply N.eqb_eq in e. subst. exact Hx.
  - intros H. exists n. split; auto. apply N.eqb_refl.
Qed.

Lemma Pr_same s s' r : same_store s s' -> Pr s r -> Pr s' r.
Proof.
  intros Hs. pose proof (lookup_same s s' (r_n r) Hs) as Hl.
  destruct Hs as (a & b & c & d & e & f). unfold Pr, stored. rewrite Hl, d, e, f. tauto.
Qed.

Lemma blocked_sig_of r : blocked (sig_of r) = false.
Proof. unfold blocked, sig_of. destruct (r_pc r) as [| | |[| |] [|]| |] eqn:E; cbn; rewrite ?E; reflexivity. Qed.

Lemma blocked_parked r : blocked r = true -> parked r = true.
Proof. unfold blocked, parked. destruct (r_pc r) as [| | |[| |] [|]| |]; auto. Qed.

Lemma Pr_wstep s r : InvW s -> (parked r = true -> has_sub (st_subs s) (r_n r) = true) ->
  Pr s r -> Pr (wstep s) (signal (fun n => wp (st_w s) n && has_sub (st_subs s) n) r).
Proof.
  intros IW Hsub (P1 & P1' & PD & P2 & P3 & P4 & P5).
  pose proof (hsh_mono s Wr IW) as Hh. cbn in Hh.
  assert (Hst : stored s (r_n r) -> stored (wstep s) (r_n r)) by (apply (stored_mono s Wr); auto).
  rewrite signal_spec.
  destruct (parked r && (wp (st_w s) (r_n r) && has_sub (st_subs s) (r_n r))) eqn:Ehit.
  - apply andb_prop in Ehit as [Ep _]. unfold Pr. rewrite n_sig_of.
    rewrite parked_sig_of, blocked_sig_of.
    split; [discriminate|]. split; [discriminate|].
    unfold sig_of. unfold parked in Ep. destruct (r_pc r) as [| | |ph [|]| |] eqn:Epc; try discriminate. cbn.
    split; [intros sig [= -> _]; apply Hst, (PD false); reflexivity|].
    repeat split; discriminate.
  - unfold Pr. split; [|split; [|split; [|split; [|split; [|split]]]]]; auto.
    + intros Hpc. specialize (P1 Hpc). specialize (Hsub Hpc).
      rewrite Hpc, Hsub, andb_true_r in Ehit. cbn in Ehit.
      pose proof IW as [W1 W2 _ _ _].
      wcases s; rewrite ?Ew; cbn in *;
        try (destruct P1 as [P1|P1]; [left; exact P1|first [right; exact P1 | discriminate P1]]).
      * (* WInitStore -> WInitNotify *)
        destruct W2 as (Hz & (x & l & -> & <- & Eh) & _).
        destruct (N.lt_total (fst x) (r_n r)) as [H|[H|H]]; [left; exact H | right | right].
        -- rewrite <- H. cbn. rewrite N.eqb_refl. apply orb_true_r.
        -- apply N.ltb_lt in H. rewrite H. reflexivity.
      * (* WInitNotify -> WTail *)
        destruct P1 as [H|H]; [left; exact H|right]. rewrite Ehit in H. exact H.
      * (* WNotify -> WAdvance *)
        left. destruct P1 as [H|H]; [exact H|congruence].
      * (* WSetHeight *)
        destruct P1 as [H|H]; [|discriminate].
        destruct (N.lt_ge_cases h (r_n r)); [left; auto|right].
        unfold in_range. apply andb_true_intro. split; apply N.leb_le; lia.
      * (* WNotifyRange *) left. destruct P1 as [H|H]; [exact H|congruence].
    + intros Hb. specialize (P1' Hb). pose proof (blocked_parked r Hb) as Hpc. specialize (Hsub Hpc).
      rewrite Hpc, Hsub, andb_true_r in Ehit. cbn in Ehit.
      wcases s; rewrite ?Ew; cbn in *; auto.
      unfold mem in *. rewrite existsb_app, Ehit, P1'. reflexivity.
    + intros sig Hpc. apply Hst, (PD sig Hpc).
    + intros Hpc. destruct (P2 Hpc); [left; auto|right; lia].
    + intros Hpc. specialize (P3 Hpc). lia.
Qed.

Lemma Pr_rnext b s r :
  (sigd r = true -> stored s (r_n r) \/ r_n r <= st_hsh s) ->
  (mem (r_n r) (st_notified s) = true -> stored s (r_n r)) ->
  Pr s r -> Pr s (rnext b s r).
Proof.
  intros Hsig Hnot (P1 & P1' & PD & P2 & P3 & P4 & P5). unfold rnext.
  destruct (r_pc r) as [| | |ph sig| |x] eqn:Epc.
  - destruct (N.eqb_spec (r_n r) 0); [|destruct (lookup s (r_n r))]; unfold Pr, parked, blocked; cbn;
      repeat split; try discriminate; auto; intros sg H; discriminate.
  - destruct (N.leb_spec (r_n r) (st_hsh s)); unfold Pr, parked, blocked; cbn; repeat split; try discriminate; auto;
      intros sg H; discriminate.
  - destruct (N.leb_spec (r_n r) (st_hsh s)); unfold Pr, parked, blocked; cbn; repeat split; try discriminate; auto;
      intros sg H; discriminate.
  - assert (Hpk : parked r = true -> st_hsh s < r_n r \/ cover (st_w s) (r_n r) = true) by exact P1.
    unfold parked in Hpk, P1. unfold blocked in P1'. unfold sigd in Hsig. rewrite Epc in *.
    assert (C : r_cancel r = true -> Pr s (with_pc r (RDone RCtx))).
    { intros Ec. unfold Pr, parked, blocked; cbn. repeat split; try discriminate; auto. }
    assert (L2 : stored s (r_n r) \/ r_n r <= st_hsh s -> Pr s (with_pc r RLookup2)).
    { intros H. unfold Pr, parked, blocked; cbn. repeat split; try discriminate; auto. }
    assert (Same : Pr s r).
    { unfold Pr, parked, blocked. rewrite Epc. exact (conj P1 (conj P1' (conj PD (conj P2 (conj P3 (conj P4 P5)))))). }
    destruct ph.
    + destruct (lookup s (r_n r)) eqn:El.
      * unfold Pr, parked, blocked; cbn. split; [exact P1|]. split; [discriminate|].
        split; [intros sg _; unfold stored; congruence|]. repeat split; discriminate.
      * unfold Pr, parked, blocked; cbn. split; [exact P1|]. split.
        -- destruct sig; [discriminate|]. intros _.
           destruct (mem (r_n r) (st_notified s)) eqn:Em; [|reflexivity]. exfalso. apply (Hnot eq_refl). exact El.
        -- split; [intros sg H; discriminate|]. repeat split; discriminate.
    + apply L2. left. apply (PD sig). reflexivity.
    + destruct (r_cancel r) eqn:Ec; cbn [andb].
      * destruct (b || negb sig) eqn:Eb; [apply C; reflexivity|].
        destruct sig; [apply L2, Hsig; reflexivity|]. destruct b; discriminate.
      * destruct sig; [apply L2, Hsig; reflexivity|exact Same].
  - unfold Pr, lookup_res, parked, blocked; cbn. specialize (P2 eq_refl).
    destruct (lookup s (r_n r)) eqn:El; repeat split; try discriminate; auto; try (intros sg H; discriminate).
    intros _. destruct P2 as [H|H]; [|exact H]. exfalso. apply H. exact El.
  - unfold Pr. rewrite Epc. exact (conj P1 (conj P1' (conj PD (conj P2 (conj P3 (conj P4 P5)))))).
Qed.

Lemma Pr_other s r r' : (other_rel r r' \/ r' = cancel_of r) -> Pr s r -> Pr s r'.
Proof.
  intros [[->|[Hp ->]]| ->] P; auto.
  - destruct P as (P1 & P1' & PD & P2 & P3 & P4 & P5). unfold Pr. rewrite n_sig_of, parked_sig_of.
    rewrite blocked_sig_of. split; [discriminate|]. split; [discriminate|].
    unfold sig_of. unfold parked in Hp. destruct (r_pc r) as [| | |ph [|]| |] eqn:Epc; try discriminate. cbn.
    split; [intros sig [= -> _]; apply (PD false); reflexivity|]. repeat split; discriminate.
  - destruct P as (P1 & P1' & PD & P2 & P3 & P4 & P5). unfold Pr, cancel_of, parked, blocked in *; cbn.
    split; [exact P1|]. split; [exact P1'|]. split; [exact PD|]. split; [exact P2|]. split; [exact P3|]. split; [auto|exact P5].
Qed.

Lemma notified_wstep s n : In n (st_notified (wstep s)) ->
  In n (st_notified s) \/ (exists hs, st_w s = WNotify hs /\ In n (map fst hs)).
Proof.
  wcases s; cbn; auto. rewrite in_app_iff. intros [H|H]; [right; eauto|left; exact H].
Qed.

Lemma InvP_step s e : InvW s -> InvK s -> InvP s -> InvP (step s e).
Proof.
  intros IW IK [IP IN]. split.
  - rewrite Forall_forall in *.
    intros r' Hin. apply In_nth_error in Hin as [j Ej].
    assert (Hlen : (j < length (st_readers s))%nat).
    { rewrite <- (step_length s e). apply nth_error_Some. congruence. }
    destruct (nth_error (st_readers s) j) as [r|] eqn:E; [|apply nth_error_None in E; lia].
    pose proof (IP r (nth_error_In _ _ E)) as P.
    destruct (step_same_or_w s e) as [Hs| ->].
    + apply (Pr_same s _ _ Hs).
      destruct (own_step e j) eqn:Eo.
      * destruct (step_own s e j r Eo E) as [b E']. rewrite E' in Ej. injection Ej as <-.
        apply Pr_rnext; auto.
        -- intros Hpc. destruct IK as [_ K2]. apply (K2 j r E Hpc).
        -- intros Hm. apply stored_map, IN, mem_In, Hm.
      * destruct (step_other s e j r Eo E) as (r1 & E' & Hrel). rewrite E' in Ej. injection Ej as <-.
        apply (Pr_other s r r1); auto. destruct Hrel as [H|[_ H]]; auto.
    + cbn in Ej. rewrite wstep_readers_eq, nth_error_map, E in Ej. cbn in Ej. injection Ej as <-.
      apply Pr_wstep; auto. intros Hpc. eapply parked_has_sub; eauto.
  - intros n Hn. destruct (step_same_or_w s e) as [(a & b & c & d & e' & f)| ->].
    + rewrite c. rewrite f in Hn. auto.
    + cbn in *. apply map_wstep. apply notified_wstep in Hn as [Hn|(hs & Ew & Hn)]; auto.
      pose proof (w_pc s IW) as H2. rewrite Ew in H2. apply H2, Hn.
Qed.

(** * all invariants together *)
Record Inv (s : state) : Prop := { inv_w : InvW s; inv_k : InvK s; inv_p : InvP s }.

Lemma Inv_init hd tl m ns q : wf_init hd tl m -> Inv (init hd tl m ns q).
Proof. intros H. constructor; [apply InvW_init; auto | apply InvK_init | apply InvP_init]. Qed.

Lemma Inv_step s e : Inv s -> Inv (step s e).
Proof.
  intros [A B C]. constructor; [apply InvW_step | apply InvK_step | apply InvP_step]; auto.
Qed.

Lemma Inv_run sched s : Inv s -> Inv (run sched s).
Proof. revert s; induction sched as [|e l IH]; intros s H; cbn; auto. apply IH, Inv_step, H. Qed.

(** * history invariants: where results come from, which heights have been announced *)
Definition w_hs (w : wpc) : list hid :=
  match w with
  | WAppend hs | WEnsure hs | WInitStore hs _ | WInitNotify hs _ | WTail hs | WNotify hs => hs
  | _ => []
  end.

Record InvU (U : list hid) (s : state) : Prop := {
  u_head : forall x, st_head s = Some x -> In x U;
  u_tail : forall x, st_tail s = Some x -> In x U;
  u_map : incl (st_map s) U;
  u_queue : forall hs, In hs (st_queue s) -> incl hs U;
  u_w : incl (w_hs (st_w s)) U;
  u_rd : forall r id, In r (st_readers s) -> r_pc r = RDone (RFound id) -> In (r_n r, id) U }.

Lemma InvU_incl U U' s : incl U U' -> InvU U s -> InvU U' s.
Proof.
  intros H [A B C D E F]. constructor.
  - intros x Hx. apply H, A, Hx.
  - intros x Hx. apply H, B, Hx.
  - eapply incl_tran; eauto.
  - intros hs Hh. eapply incl_tran; eauto.
  - eapply incl_tran; eauto.
  - intros r id H1 H2. apply H. eauto.
Qed.

Lemma InvU_lookup U s n id : InvU U s -> lookup s n = Some id -> In (n, id) U.
Proof.
  intros [A B C _ _ _] H. apply lookup_cases in H as [H|[H|H]]; auto.
Qed.

Definition enq_of (e : event) : list hid := match e with Enq hs => hs | _ => [] end.

Lemma signal_done p r x : r_pc (signal p r) = RDone x -> signal p r = r.
Proof.
  rewrite signal_spec. destruct (parked r && p (r_n r)) eqn:E; [|reflexivity].
  apply andb_prop in E as [E _]. unfold sig_of. unfold parked in E.
  destruct (r_pc r) as [| | |ph [|]| |]; try discriminate.
Qed.

Lemma InvU_upd U s s' : InvU U s ->
  (forall x, st_head s' = Some x -> In x U) -> (forall x, st_tail s' = Some x -> In x U) ->
  incl (st_map s') U -> (forall hs, In hs (st_queue s') -> incl hs U) -> incl (w_hs (st_w s')) U ->
  (exists hit, st_readers s' = map (signal hit) (st_readers s)) -> InvU U s'.
Proof.
  intros [A B C D E F] H1 H2 H3 H4 H5 [hit H6]. constructor; [exact H1|exact H2|exact H3|exact H4|exact H5|].
  intros r id Hin Hpc. rewrite H6 in Hin. apply in_map_iff in Hin as (r0 & <- & Hin).
  pose proof (signal_done _ _ _ Hpc) as Hs. rewrite Hs in *. apply (F r0 id); auto.
Qed.

Lemma InvU_wstep U s : InvU U s -> InvU U (wstep s).
Proof.
  intros IU.
  assert (Hq : forall hs q, st_queue s = hs :: q -> incl hs U /\ forall l, In l q -> incl l U).
  { intros hs q Eq. split; [|intros l Hl]; apply (u_queue U s IU); rewrite Eq; [left|right]; auto. }
  assert (Ho : forall h0, In h0 U -> forall x, opt_or (st_tail s) h0 = Some x -> In x U).
  { intros h0 Hh x Hx. destruct (st_tail s) eqn:Et; cbn in Hx; injection Hx as <-; auto. apply (u_tail U s IU); auto. }
  pose proof (u_w U s IU) as Hw.
  wcases s; cbn [w_hs] in Hw;
    (apply (InvU_upd U s); [exact IU | cbn .. | first [eexists; reflexivity | exists (fun _ => false); cbn; rewrite map_signal_false; reflexivity]]);
    try exact (u_head U s IU); try exact (u_tail U s IU); try exact (u_map U s IU); try exact (u_queue U s IU);
    try exact Hw; try (rewrite Ew; exact Hw);
    try (solve [intros x []]); try (intros x [= <-]); try (intros x Hx; discriminate Hx);
    try (destruct (Hq _ _ eq_refl) as [Hq1 Hq2]; first [exact Hq1 | exact Hq2]);
    try (apply Hw; left; reflexivity); try (apply Ho, Hw; left; reflexivity).
  - intros x Hx. apply rev_append_In in Hx as [Hx|Hx]; [apply Hw; exact Hx | apply (u_map U s IU); exact Hx].
  - apply adv_up_in; [intros n id; apply InvU_lookup; exact IU | apply (u_head U s IU); exact Eh].
  - apply adv_down_in; [intros n id; apply InvU_lookup; exact IU | apply (u_tail U s IU); exact Et].
Qed.

Lemma notify_one_queue n s : st_queue (notify_one n s) = st_queue s.
Proof.
  unfold notify_one. destruct (sub_get (st_subs s) n); [|reflexivity].
  destruct (Nat.eqb (Nat.pred n0) 0); reflexivity.
Qed.

Lemma rstep_queue b s i : st_queue (rstep b s i) = st_queue s.
Proof.
  unfold rstep. destruct (nth_error (st_readers s) i) as [r|]; [|reflexivity].
  destruct (r_pc r) as [| | |ph sig| |x].
  - destruct (r_n r =? 0); [reflexivity|]. destruct (lookup s (r_n r)); reflexivity.
  - destruct (r_n r <=? st_hsh s); reflexivity.
  - destruct (r_n r <=? st_hsh s); reflexivity.
  - destruct ph.
    + destruct (lookup s (r_n r)); reflexivity.
    + unfold dereg_branch. rewrite notify_one_queue. reflexivity.
    + unfold ctx_branch.
      destruct (r_cancel r && (b || negb sig)); [rewrite notify_one_queue; reflexivity|]. destruct sig; reflexivity.
  - reflexivity.
  - reflexivity.
Qed.

Lemma rnext_found b s r id : r_pc (rnext b s r) = RDone (RFound id) ->
  r_pc r = RDone (RFound id) \/ lookup s (r_n r) = Some id.
Proof.
  unfold rnext, lookup_res. destruct (r_pc r) as [| | |[| |] sig| |x] eqn:Epc; cbn.
  - destruct (r_n r =? 0); cbn; [discriminate|]. destruct (lookup s (r_n r)); cbn; [intros [= ->]; auto|discriminate].
  - destruct (r_n r <=? st_hsh s); cbn; discriminate.
  - destruct (r_n r <=? st_hsh s); cbn; discriminate.
  - destruct (lookup s (r_n r)); cbn; discriminate.
  - discriminate.
  - destruct (r_cancel r && (b || negb sig)); [|destruct sig]; cbn; rewrite ?Epc; discriminate.
  - destruct (lookup s (r_n r)); cbn; [intros [= ->]; auto|discriminate].
  - rewrite Epc. auto.
Qed.

Lemma InvU_step U s e : InvU U s -> InvU (U ++ enq_of e) (step s e).
Proof.
  intros IU.
  assert (RD : forall e, InvU U (step s e) \/ True -> forall r' id, In r' (st_readers (step s e)) ->
                 r_pc r' = RDone (RFound id) -> In (r_n r', id) U).
  { intros e0 _ r' id Hin Hpc. apply In_nth_error in Hin as [j Ej].
    assert (Hlen : (j < length (st_readers s))%nat).
    { rewrite <- (step_length s e0). apply nth_error_Some. congruence. }
    destruct (nth_error (st_readers s) j) as [r|] eqn:E; [|apply nth_error_None in E; lia].
    pose proof (u_rd U s IU r) as F. specialize (F id (nth_error_In _ _ E)).
    destruct (own_step e0 j) eqn:Eo.
    - destruct (step_own s e0 j r Eo E) as [b E']. rewrite E' in Ej. injection Ej as <-.
      rewrite rnext_n. destruct (rnext_found _ _ _ _ Hpc) as [H|H]; [auto|].
      eapply InvU_lookup; eauto.
    - destruct (step_other s e0 j r Eo E) as (r1 & E' & Hrel). rewrite E' in Ej. injection Ej as <-.
      destruct Hrel as [[->|[Hp ->]]|[_ ->]]; cbn in *; auto.
      exfalso. unfold sig_of, parked in *. destruct (r_pc r) as [| | |ph [|]| |]; discriminate. }
  assert (SM : forall e0, same_store s (step s e0) -> st_queue (step s e0) = st_queue s -> InvU U (step s e0)).
  { intros e0 (a & b & c & d & e' & f) Q. constructor; rewrite ?a, ?b, ?c, ?e', ?Q;
      [exact (u_head U s IU) | exact (u_tail U s IU) | exact (u_map U s IU) | exact (u_queue U s IU)
      | exact (u_w U s IU) | apply RD; auto]. }
  destruct e as [i|i|i| |hs]; cbn [enq_of]; rewrite ?app_nil_r.
  - apply SM; [apply rstep_same|apply rstep_queue].
  - apply SM; [apply rstep_same|apply rstep_queue].
  - apply SM; [apply cancel_same|]. cbn. unfold cancel. destruct (nth_error (st_readers s) i); reflexivity.
  - apply InvU_wstep; auto.
  - cbn. destruct hs as [|h hs]; [rewrite app_nil_r; exact IU|].
    pose proof IU as [A B C D E F]. constructor; cbn.
    + intros x Hx. apply in_or_app; left; auto.
    + intros x Hx. apply in_or_app; left; auto.
    + apply incl_appl; auto.
    + intros l Hl. apply in_app_or in Hl as [Hl|[<-|[]]].
      * apply incl_appl. auto.
      * apply incl_appr, incl_refl.
    + apply incl_appl; auto.
    + intros r id H1 H2. apply in_or_app; left; eauto.
Qed.

Lemma enqueued_cons e l : enqueued (e :: l) = enq_of e ++ enqueued l.
Proof. destruct e; reflexivity. Qed.

Lemma InvU_run U sched s : InvU U s -> InvU (U ++ enqueued sched) (run sched s).
Proof.
  revert U s; induction sched as [|e l IH]; intros U s H; cbn [run fold_left].
  - cbn. rewrite app_nil_r. exact H.
  - rewrite enqueued_cons, app_assoc. apply IH. apply InvU_step. exact H.
Qed.

Lemma InvU_init hd tl m ns q : InvU (appended_init hd tl m q) (init hd tl m ns q).
Proof.
  unfold appended_init. constructor; cbn.
  - intros x ->. cbn. auto.
  - intros x ->. apply in_or_app; right. cbn. auto.
  - intros x Hx. apply in_or_app; right. apply in_or_app; right. apply in_or_app; left. exact Hx.
  - intros hs Hh x Hx. apply in_or_app; right. apply in_or_app; right. apply in_or_app; right.
    apply in_concat. eauto.
  - intros x [].
  - intros r id Hr. apply in_map_iff in Hr as (n & <- & _). discriminate.
Qed.

(** every height handed to Append is announced, in the batch being flushed, or still queued *)
Definition InvN (H : list N) (s : state) : Prop :=
  forall n, In n H -> In n (st_notified s) \/ In n (map fst (w_hs (st_w s))) \/ In n (map fst (concat (st_queue s))).

Lemma InvN_init hd tl m ns q : InvN (map fst (concat q)) (init hd tl m ns q).
Proof. intros n Hn. right; right. exact Hn. Qed.

Lemma InvN_wstep H s : InvN H s -> InvN H (wstep s).
Proof.
  intros IN n Hn. specialize (IN n Hn).
  wcases s; cbn in *; rewrite ?Ew, ?Eq in *; cbn in *; auto.
  - rewrite map_app, in_app_iff in IN. tauto.
  - rewrite in_app_iff. tauto.
Qed.

Lemma InvN_step H s e : InvN H s -> InvN (H ++ map fst (enq_of e)) (step s e).
Proof.
  intros IN.
  assert (SM : forall e0, same_store s (step s e0) -> st_queue (step s e0) = st_queue s -> InvN H (step s e0)).
  { intros e0 (a & b & c & d & e' & f) Q n Hn. rewrite f, e', Q. apply IN; auto. }
  destruct e as [i|i|i| |hs]; cbn [enq_of map]; rewrite ?app_nil_r.
  - apply SM; [apply rstep_same|apply rstep_queue].
  - apply SM; [apply rstep_same|apply rstep_queue].
  - apply SM; [apply cancel_same|]. cbn. unfold cancel. destruct (nth_error (st_readers s) i); reflexivity.
  - apply InvN_wstep; auto.
  - intros n Hn. cbn. apply in_app_or in Hn. destruct hs as [|h hs]; cbn [st_notified st_w st_queue set_queue].
    + destruct Hn as [Hn|[]]. apply IN; auto.
    + rewrite concat_app, map_app, in_app_iff. cbn [concat]. rewrite app_nil_r.
      destruct Hn as [Hn|Hn]; [|tauto]. destruct (IN n Hn) as [H1|[H1|H1]]; auto.
Qed.

Lemma InvN_run H sched s : InvN H s -> InvN (H ++ map fst (enqueued sched)) (run sched s).
Proof.
  revert H s; induction sched as [|e l IH]; intros H s IN; cbn [run fold_left].
  - cbn. rewrite app_nil_r. exact IN.
  - rewrite enqueued_cons, map_app, app_assoc. apply IH. apply InvN_step. exact IN.
Qed.

(** * the theorems behind Props/C12.v *)
Lemma rnext_cancel b s r : r_cancel (rnext b s r) = r_cancel r.
Proof.
  unfold rnext. destruct (r_pc r) as [| | |[| |] sig| |x]; cbn.
  - destruct (r_n r =? 0); [reflexivity|]. destruct (lookup s (r_n r)); reflexivity.
  - destruct (r_n r <=? st_hsh s); reflexivity.
  - destruct (r_n r <=? st_hsh s); reflexivity.
  - destruct (lookup s (r_n r)); reflexivity.
  - reflexivity.
  - destruct (r_cancel r && (b || negb sig)); [|destruct sig]; reflexivity.
  - reflexivity.
  - reflexivity.
Qed.

Lemma step_reader_back s e i r' : nth_error (st_readers (step s e)) i = Some r' ->
  exists r, nth_error (st_readers s) i = Some r /\ r_n r' = r_n r /\
            (r_cancel r' = r_cancel r \/ e = Cancel i).
Proof.
  intros E'.
  assert (Hlen : (i < length (st_readers s))%nat).
  { rewrite <- (step_length s e). apply nth_error_Some. congruence. }
  destruct (nth_error (st_readers s) i) as [r|] eqn:E; [|apply nth_error_None in E; lia].
  exists r. split; [reflexivity|].
  destruct (own_step e i) eqn:Eo.
  - destruct (step_own s e i r Eo E) as [b E1]. rewrite E1 in E'. injection E' as <-.
    rewrite rnext_n, rnext_cancel. auto.
  - destruct (step_other s e i r Eo E) as (r1 & E1 & Hrel). rewrite E1 in E'. injection E' as <-.
    destruct Hrel as [[->|[Hp ->]]|[-> ->]]; cbn; auto.
    rewrite n_sig_of. unfold sig_of. destruct (r_pc r); auto.
Qed.

Lemma run_reader_back sched : forall s i r', nth_error (st_readers (run sched s)) i = Some r' ->
  exists r, nth_error (st_readers s) i = Some r /\ r_n r' = r_n r /\
            (r_cancel r' = true -> r_cancel r = true \/ cancelled_in sched i = true).
Proof.
  induction sched as [|e l IH]; intros s i r' E; cbn [run fold_left] in E.
  - exists r'. auto.
  - destruct (IH _ _ _ E) as (r1 & E1 & Hn & Hc).
    destruct (step_reader_back s e i r1 E1) as (r & E0 & Hn0 & Hc0).
    exists r. split; [exact E0|]. split; [congruence|]. intros H. destruct (Hc H) as [H1|H1].
    + destruct Hc0 as [Hc0| ->]; [left; congruence|]. right. cbn. rewrite Nat.eqb_refl. reflexivity.
    + right. destruct e; cbn; rewrite ?H1; auto. apply orb_true_r.
Qed.

Lemma init_reader hd tl m ns q i r : nth_error (st_readers (init hd tl m ns q)) i = Some r ->
  nth_error ns i = Some (r_n r) /\ r_cancel r = false.
Proof.
  cbn. rewrite nth_error_map. destruct (nth_error ns i); cbn; [|discriminate]. intros [= <-]. auto.
Qed.

Lemma result_is_the_header hd tl m ns q sched i r id :
  nth_error (st_readers (run sched (init hd tl m ns q))) i = Some r ->
  r_pc r = RDone (RFound id) ->
  In (r_n r, id) (appended_init hd tl m q ++ enqueued sched).
Proof.
  intros E Hpc. pose proof (InvU_run _ sched _ (InvU_init hd tl m ns q)) as IU.
  apply (u_rd _ _ IU r id); auto. eapply nth_error_In; eauto.
Qed.

Lemma returns_only_when_due hd tl m ns q sched i r x : wf_init hd tl m ->
  nth_error (st_readers (run sched (init hd tl m ns q))) i = Some r ->
  r_pc r = RDone x ->
  nth_error ns i = Some (r_n r) /\
  match x with
  | RFound id => In (r_n r, id) (appended_init hd tl m q ++ enqueued sched)
  | RNotFound => r_n r <= st_hsh (run sched (init hd tl m ns q))
  | RCtx => cancelled_in sched i = true
  | RZero => r_n r = 0
  end.
Proof.
  intros WF E Hpc.
  destruct (run_reader_back sched _ _ _ E) as (r0 & E0 & Hn & Hc).
  apply init_reader in E0 as [E0 Hc0]. split; [congruence|].
  pose proof (Inv_run sched _ (Inv_init hd tl m ns q WF)) as [_ _ [IP _]].
  pose proof (Forall_nth _ _ _ _ IP E) as (_ & _ & _ & _ & P3 & P4 & P5).
  destruct x.
  - eapply result_is_the_header; eauto.
  - auto.
  - destruct (Hc (P4 Hpc)); [congruence|auto].
  - auto.
Qed.

(** no lost wake-up, full strength *)
Lemma no_lost_wakeup hd tl m ns q sched i r : wf_init hd tl m ->
  let s := run sched (init hd tl m ns q) in
  nth_error (st_readers s) i = Some r ->
  writer_idle s = true -> In (r_n r) (map fst (concat q ++ enqueued sched)) ->
  blocked r = false.
Proof.
  intros WF s E Hi Hin.
  pose proof (Inv_run sched _ (Inv_init hd tl m ns q WF)) as [IW _ [IP _]]. fold s in IW, IP.
  pose proof (Forall_nth _ _ _ _ IP E) as (_ & P1' & _).
  destruct (blocked r) eqn:Eb; [|reflexivity]. exfalso.
  specialize (P1' eq_refl).
  pose proof (InvN_run _ sched _ (InvN_init hd tl m ns q)) as IN. fold s in IN.
  rewrite <- map_app in IN. destruct (IN _ Hin) as [H|[H|H]].
  - apply mem_In in H. congruence.
  - unfold writer_idle in Hi. destruct (st_w s); try discriminate; destruct H.
  - unfold writer_idle in Hi. destruct (st_w s); try discriminate; destruct (st_queue s); try discriminate; destruct H.
Qed.

(** between flushes a registered waiter asked for a height above Height() = Head's height *)
Lemma waiter_above_height hd tl m ns q sched i r : wf_init hd tl m ->
  let s := run sched (init hd tl m ns q) in
  nth_error (st_readers s) i = Some r -> parked r = true -> st_w s = WIdle ->
  st_hsh s < r_n r /\ st_hsh s = hsh_of (st_head s).
Proof.
  intros WF s E Hpc Ew.
  pose proof (Inv_run sched _ (Inv_init hd tl m ns q WF)) as [IW _ [IP _]]. fold s in IW, IP.
  pose proof (Forall_nth _ _ _ _ IP E) as (P1 & _). specialize (P1 Hpc). rewrite Ew in P1. cbn in P1. split.
  - destruct P1; [auto|discriminate].
  - pose proof (w_rest s IW) as H. rewrite Ew in H. auto.
Qed.

(** once signalled, a reader never waits again *)
Definition past (pc : rpc) : Prop :=
  match pc with RWait _ true | RLookup2 | RDone _ => True | _ => False end.

Lemma past_run sched s i r : nth_error (st_readers s) i = Some r -> past (r_pc r) ->
  exists r', nth_error (st_readers (run sched s)) i = Some r' /\ past (r_pc r').
Proof.
  intros E Hp.
  destruct (progress_run (fun _ _ x => past (r_pc x))) with (sched := sched) (s := s) (i := i) (r := r) (k := 0%nat)
    as (r' & H1 & H2); auto.
  - intros s0 e k x x' Hx [[->|[Hpk ->]]| ->]; cbn; auto.
    unfold sig_of, parked in *. destruct (r_pc x) as [| | |ph [|]| |]; try discriminate; cbn; auto.
  - intros s0 e k x b Hx. unfold rnext. destruct (r_pc x) as [| | |[| |] [|]| |y] eqn:Epc; cbn in Hx; try contradiction.
    + destruct (lookup s0 (r_n x)); cbn; auto.
    + cbn; auto.
    + destruct (r_cancel x && (b || negb true)); cbn; auto.
    + cbn. auto.
    + rewrite Epc. cbn. auto.
  - eauto.
Qed.

Lemma registered_first_woken hd tl m ns q sched1 sched2 i r hs : wf_init hd tl m ->
  let s1 := run sched1 (init hd tl m ns q) in
  st_w s1 = WNotify hs -> nth_error (st_readers s1) i = Some r -> parked r = true ->
  In (r_n r) (map fst hs) ->
  exists r', nth_error (st_readers (run (sched1 ++ Wr :: sched2) (init hd tl m ns q))) i = Some r' /\
             past (r_pc r').
Proof.
  intros WF s1 Ew E Hpc Hin.
  pose proof (Inv_run sched1 _ (Inv_init hd tl m ns q WF)) as [IW IK IP]. fold s1 in IW, IK, IP.
  rewrite run_app. fold s1. cbn [run fold_left step].
  apply (past_run sched2 (wstep s1) i (sig_of r)).
  - rewrite wstep_readers_eq, nth_error_map, E. cbn. f_equal. rewrite signal_spec.
    rewrite Hpc, Ew. cbn. apply mem_In in Hin. rewrite Hin.
    rewrite (parked_has_sub s1 i r IK E Hpc). reflexivity.
  - unfold sig_of, parked in *. destruct (r_pc r) as [| | |ph [|]| |]; try discriminate. exact I.
Qed.

(** a step of reader i leaves every other reader's record unchanged, except
    that a notify(n,false) that drops the count to zero may close a sub other
    waiters are selecting on -- only when the header is already stored *)
Lemma other_waiters s b i j rj : InvK s -> i <> j ->
  nth_error (st_readers s) j = Some rj ->
  nth_error (st_readers (rstep b s i)) j = Some rj \/
  (parked rj = true /\ nth_error (st_readers (rstep b s i)) j = Some (sig_of rj) /\ stored s (r_n rj)).
Proof.
  intros IK ne Ej. pose proof IK as [K1 K2].
  unfold rstep. destruct (nth_error (st_readers s) i) as [r|] eqn:E; [|left; exact Ej].
  assert (U : forall x, nth_error (upd (st_readers s) i x) j = Some rj) by (intros x; rewrite nth_upd_neq; auto).
  assert (C : forall ph sig pc, r_pc r = RWait ph sig ->
     nth_error (st_readers (notify_one (r_n r) (set_reader s i (with_pc r pc)))) j = Some rj \/
     (parked rj = true /\ nth_error (st_readers (notify_one (r_n r) (set_reader s i (with_pc r pc)))) j = Some (sig_of rj) /\ stored s (r_n rj))).
  { intros ph sig pc Epc.
    unfold notify_one. cbn [st_subs set_reader set_readers].
    destruct (sub_get (st_subs s) (r_n r)) as [c|] eqn:Esub; [|left; apply U].
    destruct (Nat.eqb (Nat.pred c) 0) eqn:Ec; [|left; apply U].
    apply Nat.eqb_eq in Ec. cbn. rewrite nth_error_map, U. cbn. rewrite signal_spec.
    destruct (parked rj && ((r_n rj =? r_n r) && has_sub (st_subs s) (r_n rj))) eqn:Eh; [|left; reflexivity].
    right. apply andb_prop in Eh as [Eh1 Eh2]. apply andb_prop in Eh2 as [Eh2 Eh3]. apply N.eqb_eq in Eh2.
    split; [exact Eh1|]. split; [reflexivity|]. rewrite Eh2.
    pose proof (K1 (r_n r)) as Kn. rewrite Esub in Kn. destruct Kn as [Kc1 Kc2].
    destruct sig.
    - assert (Hsg : sigd r = true) by (unfold sigd; rewrite Epc; reflexivity).
      destruct (K2 i r E Hsg) as [_ B]. apply B. unfold has_sub. rewrite Esub. reflexivity.
    - apply Kc2.
      assert (A1 : at_n (r_n r) r = true) by (unfold at_n, parked; rewrite Epc, N.eqb_refl; reflexivity).
      assert (A2 : at_n (r_n r) rj = true) by (unfold at_n; rewrite Eh1, Eh2, N.eqb_refl; reflexivity).
      pose proof (cnt_two _ _ i j r rj ne E Ej A1 A2). lia. }
  destruct (r_pc r) as [| | |ph sig| |x] eqn:Epc.
  - destruct (r_n r =? 0); [|destruct (lookup s (r_n r))]; left; apply U.
  - destruct (r_n r <=? st_hsh s); left; apply U.
  - destruct (r_n r <=? st_hsh s); left; apply U.
  - destruct ph.
    + destruct (lookup s (r_n r)); left; apply U.
    + unfold dereg_branch. apply (C PDereg sig). reflexivity.
    + unfold ctx_branch. destruct (r_cancel r && (b || negb sig)); [apply (C PSelect sig); reflexivity|].
      destruct sig; left; [apply U|exact Ej].
  - left; apply U.
  - left; exact Ej.
Qed.

Lemma other_waiters_unaffected hd tl m ns q sched e i j rj : wf_init hd tl m -> i <> j ->
  (e = Rd i \/ e = RdCtx i \/ e = Cancel i) ->
  let s := run sched (init hd tl m ns q) in
  nth_error (st_readers s) j = Some rj ->
  nth_error (st_readers (step s e)) j = Some rj \/
  (parked rj = true /\ nth_error (st_readers (step s e)) j = Some (sig_of rj) /\ lookup s (r_n rj) <> None).
Proof.
  intros WF ne He s Ej.
  pose proof (Inv_run sched _ (Inv_init hd tl m ns q WF)) as [_ IK _]. fold s in IK.
  destruct He as [->|[->| ->]]; cbn [step].
  - apply other_waiters; auto.
  - apply other_waiters; auto.
  - left. unfold cancel. destruct (nth_error (st_readers s) i); cbn; [rewrite nth_upd_neq|]; auto.
Qed.

Lemma below_height_prompt hd tl m ns q sched1 sched2 i r : wf_init hd tl m ->
  let s := run sched1 (init hd tl m ns q) in
  nth_error (st_readers s) i = Some r ->
  (r_pc r = RStart \/ r_pc r = RCheck1 \/ r_pc r = RLocked) ->
  r_n r <> 0 -> r_n r <= st_hsh s ->
  exists r', nth_error (st_readers (run sched2 s)) i = Some r' /\
    (forall ph sig, r_pc r' <> RWait ph sig) /\
    ((3 <= rd_count sched2 i)%nat -> r_pc r' = RDone RNotFound \/ exists id, r_pc r' = RDone (RFound id)) /\
    (lookup s (r_n r) <> None -> r_pc r' <> RDone RNotFound).
Proof.
  intros WF s E Hpc Hn Hh.
  pose proof (Inv_run sched1 _ (Inv_init hd tl m ns q WF)) as [IW _ _]. fold s in IW.
  destruct (below_height_gen s i r sched2 IW E Hn Hh Hpc) as (r' & k & E' & _ & Hb & Hk & Hs).
  exists r'. split; [exact E'|]. split; [|split].
  - intros ph sig H. rewrite H in Hb. discriminate.
  - intros Hc. assert (k = 0%nat) by lia. subst k.
    destruct (r_pc r') as [| | |ph sg| |[id| | |]]; cbn in Hb; try discriminate; eauto.
  - exact Hs.
Qed.

Lemma cancel_releases s i sched : (i < length (st_readers s))%nat -> (7 <= rd_count sched i)%nat ->
  exists r' x, nth_error (st_readers (run (Cancel i :: sched) s)) i = Some r' /\ r_pc r' = RDone x.
Proof.
  intros Hi Hc. cbn [run fold_left step]. unfold cancel.
  destruct (nth_error (st_readers s) i) as [r|] eqn:E; [|apply nth_error_None in E; lia].
  destruct (cancel_releases_gen (set_reader s i (cancel_of r)) i (cancel_of r) sched) as (r' & E' & _ & _ & Hk).
  - cbn. apply (nth_upd_eq _ _ _ _ E).
  - reflexivity.
  - exists r'. destruct (r_pc r') as [| | |[| |] sg| |x] eqn:Epc; cbn [crank] in Hk; try lia. exists x. auto.
Qed.

(** liveness: once Notify has announced height n, a call for n returns within
    seven of its own steps, whatever the other threads do -- with the header,
    unless its context ended (or it had returned ErrNotFound before) *)
Lemma notified_mono s e n : In n (st_notified s) -> In n (st_notified (step s e)).
Proof.
  destruct (step_same_or_w s e) as [(_ & _ & _ & _ & _ & f)| ->]; [rewrite f; auto|].
  cbn. wcases s; cbn; auto. rewrite in_app_iff. auto.
Qed.

Lemma crank_sig_of r : crank (r_pc (sig_of r)) = crank (r_pc r).
Proof. unfold sig_of. destruct (r_pc r) as [| | |[| |] sg| |] eqn:E; cbn; rewrite ?E; reflexivity. Qed.

Lemma rnext_rank b s r : Pr s r -> mem (r_n r) (st_notified s) = true -> stored s (r_n r) ->
  (crank (r_pc (rnext b s r)) <= Nat.pred (crank (r_pc r)))%nat /\
  (r_pc (rnext b s r) = RDone RNotFound -> r_pc r = RDone RNotFound).
Proof.
  intros (_ & P1' & _) Hm Hst. unfold rnext, lookup_res, stored in *.
  destruct (r_pc r) as [| | |[| |] sig| |x] eqn:Epc; cbn.
  - destruct (r_n r =? 0); cbn; [split; [lia|discriminate]|].
    destruct (lookup s (r_n r)); cbn; split; try lia; try discriminate; try congruence.
  - destruct (r_n r <=? st_hsh s); cbn; split; try lia; discriminate.
  - destruct (r_n r <=? st_hsh s); cbn; split; try lia; discriminate.
  - destruct (lookup s (r_n r)); cbn; split; try lia; discriminate.
  - split; [lia|discriminate].
  - destruct (r_cancel r && (b || negb sig)) eqn:Ec; cbn; [split; [lia|discriminate]|].
    destruct sig; cbn; [split; [lia|discriminate]|].
    exfalso. unfold blocked in P1'. rewrite Epc in P1'. specialize (P1' eq_refl). congruence.
  - destruct (lookup s (r_n r)); cbn; [split; [lia|discriminate]|congruence].
  - rewrite Epc. cbn. split; [lia|auto].
Qed.

Lemma appended_returns_gen sched : forall s i r k, Inv s -> nth_error (st_readers s) i = Some r ->
  In (r_n r) (st_notified s) -> (crank (r_pc r) <= k)%nat ->
  exists r', nth_error (st_readers (run sched s)) i = Some r' /\ r_n r' = r_n r /\
             (crank (r_pc r') <= k - rd_count sched i)%nat /\
             (r_pc r' = RDone RNotFound -> r_pc r = RDone RNotFound).
Proof.
  induction sched as [|e l IH]; intros s i r k IV E Hn Hk; cbn [run fold_left].
  - exists r. cbn. rewrite Nat.sub_0_r. auto.
  - rewrite rd_count_own. pose proof IV as [IW IK [IP IN]].
    pose proof (Forall_nth _ _ _ _ IP E) as P.
    destruct (own_step e i) eqn:Eo.
    + destruct (step_own s e i r Eo E) as [b E'].
      assert (Hst : stored s (r_n r)) by (apply stored_map, IN, Hn).
      destruct (rnext_rank b s r P (proj2 (mem_In _ _) Hn) Hst) as [Hr Hnf].
      destruct (IH (step s e) i (rnext b s r) (Nat.pred k)) as (r' & H1 & H2 & H3 & H4); auto.
      * apply Inv_step; auto.
      * rewrite rnext_n. apply notified_mono; auto.
      * lia.
      * exists r'. split; [exact H1|]. split; [rewrite H2; apply rnext_n|]. split; [lia|auto].
    + destruct (step_other s e i r Eo E) as (r1 & E' & Hrel).
      assert (Hr1 : r_n r1 = r_n r /\ crank (r_pc r1) = crank (r_pc r) /\ (r_pc r1 = RDone RNotFound -> r_pc r = RDone RNotFound)).
      { destruct Hrel as [[->|[Hp ->]]|[_ ->]]; auto.
        rewrite n_sig_of, crank_sig_of. split; [auto|split; [auto|]].
        unfold sig_of, parked in *. destruct (r_pc r) as [| | |ph [|]| |]; try discriminate. }
      destruct Hr1 as (Hn1 & Hc1 & Hf1).
      destruct (IH (step s e) i r1 k) as (r' & H1 & H2 & H3 & H4); auto.
      * apply Inv_step; auto.
      * rewrite Hn1. apply notified_mono; auto.
      * lia.
      * exists r'. split; [exact H1|]. split; [congruence|]. split; [exact H3|auto].
Qed.

Lemma appended_returns hd tl m ns q sched1 sched2 i r : wf_init hd tl m ->
  let s := run sched1 (init hd tl m ns q) in
  nth_error (st_readers s) i = Some r -> In (r_n r) (st_notified s) ->
  (7 <= rd_count sched2 i)%nat ->
  exists r' x, nth_error (st_readers (run sched2 s)) i = Some r' /\ r_pc r' = RDone x /\
               (x = RNotFound -> r_pc r = RDone RNotFound).
Proof.
  intros WF s E Hn Hc.
  pose proof (Inv_run sched1 _ (Inv_init hd tl m ns q WF)) as IV. fold s in IV.
  destruct (appended_returns_gen sched2 s i r 7 IV E Hn) as (r' & H1 & _ & H3 & H4).
  - destruct (r_pc r) as [| | |[| |] sg| |]; cbn; lia.
  - exists r'. destruct (r_pc r') as [| | |[| |] sg| |x] eqn:Epc; cbn [crank] in H3; try lia.
    exists x. split; [exact H1|]. split; [reflexivity|]. intros ->. auto.
Qed.

(** every height handed to Append is announced once its flush has finished *)
Lemma flushed_is_notified hd tl m ns q sched n :
  let s := run sched (init hd tl m ns q) in
  writer_idle s = true -> In n (map fst (concat q ++ enqueued sched)) -> In n (st_notified s).
Proof.
  intros s Hi Hin.
  pose proof (InvN_run _ sched _ (InvN_init hd tl m ns q)) as IN. fold s in IN.
  rewrite <- map_app in IN. destruct (IN _ Hin) as [H|[H|H]]; [exact H| |];
    unfold writer_idle in Hi; destruct (st_w s); try discriminate; destruct (st_queue s); try discriminate; destruct H.
Qed.

(** the schedule that lost the wake-up before 33d75f6 *)
Definition lost_wakeup_sched : list event :=
  [Enq [(1, 1)]] ++ repeat Wr 12 ++ [Rd 0; Enq [(3, 3)]] ++ repeat Wr 12 ++ repeat (Rd 0) 6.

(** * facts tying a schedule's own counts to the reader's state (used by the oracle lemma) *)
Lemma rnext_not_start b s r : r_pc (rnext b s r) <> RStart.
Proof.
  unfold rnext. destruct (r_pc r) as [| | |[| |] sig| |x] eqn:Epc; cbn.
  - destruct (r_n r =? 0); [discriminate|]. destruct (lookup s (r_n r)); discriminate.
  - destruct (r_n r <=? st_hsh s); discriminate.
  - destruct (r_n r <=? st_hsh s); discriminate.
  - destruct (lookup s (r_n r)); discriminate.
  - discriminate.
  - destruct (r_cancel r && (b || negb sig)); [|destruct sig]; cbn; rewrite ?Epc; discriminate.
  - discriminate.
  - rewrite Epc. discriminate.
Qed.

Lemma rnext_not_check1 b s r : r_pc r <> RStart -> r_pc (rnext b s r) <> RCheck1.
Proof.
  intros H. unfold rnext. destruct (r_pc r) as [| | |[| |] sig| |x] eqn:Epc; cbn.
  - congruence.
  - destruct (r_n r <=? st_hsh s); discriminate.
  - destruct (r_n r <=? st_hsh s); discriminate.
  - destruct (lookup s (r_n r)); discriminate.
  - discriminate.
  - destruct (r_cancel r && (b || negb sig)); [|destruct sig]; cbn; rewrite ?Epc; discriminate.
  - discriminate.
  - rewrite Epc. discriminate.
Qed.

Lemma two_steps_past_lookup sched s i r : nth_error (st_readers s) i = Some r ->
  (2 <= rd_count sched i)%nat ->
  exists r', nth_error (st_readers (run sched s)) i = Some r' /\ r_pc r' <> RStart /\ r_pc r' <> RCheck1.
Proof.
  intros E Hc.
  set (P := fun (_ : state) (k : nat) (x : reader) =>
              ((k <= 1)%nat -> r_pc x <> RStart) /\ (k = 0%nat -> r_pc x <> RStart /\ r_pc x <> RCheck1)).
  destruct (progress_run P) with (sched := sched) (s := s) (i := i) (r := r) (k := 2%nat) as (r' & H1 & H2 & H3); auto.
  - intros s0 e k x x' [A B] Hrel.
    assert (Hx : r_pc x' = r_pc x \/ exists ph, r_pc x' = RWait ph true).
    { destruct Hrel as [[->|[Hp ->]]| ->]; auto. right.
      unfold sig_of, parked in *. destruct (r_pc x) as [| | |ph [|]| |]; try discriminate. eexists; reflexivity. }
    unfold P. destruct Hx as [Hx|[ph Hx]]; rewrite Hx; split; auto; intros; try split; discriminate.
  - intros s0 e k x b [A B]. unfold P. split.
    + intros _. apply rnext_not_start.
    + intros Hk. split; [apply rnext_not_start|]. apply rnext_not_check1. apply A. lia.
  - intros s0 k x [A B] k' Hk. unfold P. split; intros; [apply A|apply B]; lia.
  - unfold P. split; intros; lia.
  - exists r'. replace (2 - rd_count sched i)%nat with 0%nat in H3 by lia. destruct (H3 eq_refl). auto.
Qed.

Lemma cancelled_flag sched : forall s i r', nth_error (st_readers (run sched s)) i = Some r' ->
  cancelled_in sched i = true -> r_cancel r' = true.
Proof.
  induction sched as [|e l IH]; intros s i r' E Hc; [discriminate|].
  change (run (e :: l) s) with (run l (step s e)) in E.
  destruct (cancelled_in l i) eqn:El; [eapply IH; eauto|].
  assert (He : e = Cancel i).
  { destruct e; cbn in Hc; try congruence. apply orb_prop in Hc as [Hc|Hc]; [|congruence].
    apply Nat.eqb_eq in Hc. congruence. }
  subst e. destruct (run_reader_back l _ _ _ E) as (r1 & E1 & _).
  cbn [step] in E1. unfold cancel in E1.
  destruct (nth_error (st_readers s) i) as [r0|] eqn:E0.
  - cbn in E1. rewrite (nth_upd_eq _ _ _ _ E0) in E1. injection E1 as <-.
    destruct (cancel_releases_gen (step s (Cancel i)) i (cancel_of r0) l) as (r2 & E2 & _ & Hc2 & _).
    + cbn. unfold cancel. rewrite E0. cbn. apply (nth_upd_eq _ _ _ _ E0).
    + reflexivity.
    + rewrite E in E2. injection E2 as <-. exact Hc2.
  - rewrite E0 in E1. discriminate.
Qed.

Lemma run_length sched s : length (st_readers (run sched s)) = length (st_readers s).
Proof.
  revert s; induction sched as [|e l IH]; intros s; cbn [run fold_left]; [reflexivity|].
  rewrite IH. apply step_length.
Qed.

(** * ErrNotFound only when the height was absent at an instant at which Height() had reached it *)
Lemma rnext_notfound b s r : r_pc (rnext b s r) = RDone RNotFound ->
  r_pc r = RDone RNotFound \/ (r_pc r = RLookup2 /\ lookup s (r_n r) = None).
Proof.
  unfold rnext, lookup_res. destruct (r_pc r) as [| | |[| |] sig| |x] eqn:Epc; cbn.
  - destruct (r_n r =? 0); cbn; [discriminate|]. destruct (lookup s (r_n r)); cbn; discriminate.
  - destruct (r_n r <=? st_hsh s); cbn; discriminate.
  - destruct (r_n r <=? st_hsh s); cbn; discriminate.
  - destruct (lookup s (r_n r)); cbn; discriminate.
  - discriminate.
  - destruct (r_cancel r && (b || negb sig)); [|destruct sig]; cbn; rewrite ?Epc; discriminate.
  - destruct (lookup s (r_n r)) eqn:El; cbn; [discriminate|]. intros _. right. auto.
  - rewrite Epc. auto.
Qed.

Lemma rpc_eq_dec (a b : rpc) : {a = b} + {a <> b}.
Proof. repeat decide equality. Qed.

(** position of reader i's first own event (= length of the schedule if it has none) *)
Fixpoint first_own (sched : list event) (i : nat) : nat :=
  match sched with
  | [] => O
  | e :: l => if own_step e i then O else S (first_own l i)
  end.

Lemma notfound_witness sched : forall s i r r', Inv s ->
  nth_error (st_readers s) i = Some r -> r_pc r <> RDone RNotFound ->
  nth_error (st_readers (run sched s)) i = Some r' -> r_pc r' = RDone RNotFound ->
  exists k, (first_own sched i <= k < length sched)%nat /\
            let sk := run (firstn k sched) s in
            r_n r <= st_hsh sk /\ lookup sk (r_n r) = None /\
            (exists rk, nth_error (st_readers sk) i = Some rk /\ r_pc rk = RLookup2).
Proof.
  induction sched as [|e l IH]; intros s i r r' IV E Hne E' Hpc'.
  - cbn in E'. rewrite E in E'. injection E' as <-. contradiction.
  - change (run (e :: l) s) with (run l (step s e)) in E'.
    pose proof IV as [IW IK [IP IN]]. pose proof (Forall_nth _ _ _ _ IP E) as P.
    destruct (own_step e i) eqn:Eo.
    + destruct (step_own s e i r Eo E) as [b E1].
      destruct (rpc_eq_dec (r_pc (rnext b s r)) (RDone RNotFound)) as [Hd|Hd].
      * exists O. cbn [first_own]. rewrite Eo. split; [cbn; lia|]. cbn [firstn run fold_left].
        destruct (rnext_notfound b s r Hd) as [H|[H1 H2]]; [contradiction|].
        destruct P as (_ & _ & _ & P2 & _). split.
        -- destruct (P2 H1) as [Hs|Hh]; [exfalso; apply Hs; exact H2|exact Hh].
        -- split; [exact H2|]. exists r. auto.
      * destruct (IH (step s e) i (rnext b s r) r' (Inv_step s e IV) E1 Hd E' Hpc') as (k & Hk & H1 & H2 & H3).
        exists (S k). cbn [first_own]. rewrite Eo. split; [cbn; lia|].
        cbn [firstn]. change (run (e :: firstn k l) s) with (run (firstn k l) (step s e)).
        rewrite rnext_n in H1, H2. auto.
    + destruct (step_other s e i r Eo E) as (r1 & E1 & Hrel).
      assert (Hr1 : r_n r1 = r_n r /\ r_pc r1 <> RDone RNotFound).
      { destruct Hrel as [[->|[Hp ->]]|[_ ->]]; auto. rewrite n_sig_of. split; auto.
        unfold sig_of, parked in *. destruct (r_pc r) as [| | |ph [|]| |]; try discriminate. }
      destruct Hr1 as [Hn1 Hd1].
      destruct (IH (step s e) i r1 r' (Inv_step s e IV) E1 Hd1 E' Hpc') as (k & Hk & H1 & H2 & H3).
      exists (S k). cbn [first_own]. rewrite Eo. split; [cbn; lia|].
      cbn [firstn]. change (run (e :: firstn k l) s) with (run (firstn k l) (step s e)).
      rewrite Hn1 in H1, H2. auto.
Qed.

Lemma notfound_only_when_absent hd tl m ns q sched i r : wf_init hd tl m ->
  nth_error (st_readers (run sched (init hd tl m ns q))) i = Some r -> r_pc r = RDone RNotFound ->
  exists k, (first_own sched i <= k < length sched)%nat /\
            let sk := run (firstn k sched) (init hd tl m ns q) in
            r_n r <= st_hsh sk /\ lookup sk (r_n r) = None /\
            (exists rk, nth_error (st_readers sk) i = Some rk /\ r_pc rk = RLookup2).
Proof.
  intros WF E Hpc.
  destruct (run_reader_back sched _ _ _ E) as (r0 & E0 & Hn & _).
  assert (Hr0 : r_pc r0 <> RDone RNotFound).
  { cbn in E0. rewrite nth_error_map in E0. destruct (nth_error ns i); [|discriminate]. cbn in E0.
    injection E0 as <-. discriminate. }
  destruct (notfound_witness sched _ i r0 r (Inv_init hd tl m ns q WF) E0 Hr0 E Hpc) as (k & Hk & H1 & H2 & H3).
  exists k. split; [exact Hk|]. rewrite Hn. auto.
Qed.

(** the clause as the lead states it: a height stored at an instant at which the call has not
    returned yet is never answered with ErrNotFound *)
Lemma stored_before_return hd tl m ns q sched1 sched2 i r : wf_init hd tl m ->
  let s := run sched1 (init hd tl m ns q) in
  nth_error (st_readers s) i = Some r -> (forall x, r_pc r <> RDone x) -> lookup s (r_n r) <> None ->
  exists r', nth_error (st_readers (run sched2 s)) i = Some r' /\ r_pc r' <> RDone RNotFound.
Proof.
  intros WF s E Hnd Hst.
  pose proof (Inv_run sched1 _ (Inv_init hd tl m ns q WF)) as [IW _ _]. fold s in IW.
  set (P := fun (s0 : state) (_ : nat) (x : reader) =>
              InvW s0 /\ stored s0 (r_n r) /\ r_n x = r_n r /\ r_pc x <> RDone RNotFound).
  destruct (progress_run P) with (sched := sched2) (s := s) (i := i) (r := r) (k := 0%nat)
    as (r' & H1 & (_ & _ & _ & H2)); auto.
  - intros s0 e k x x' (I0 & Hs0 & Hx & Hd) Hrel. unfold P.
    split; [apply InvW_step; auto|]. split; [apply stored_mono; auto|].
    destruct Hrel as [[->|[Hp ->]]| ->]; auto. rewrite n_sig_of. split; auto.
    unfold sig_of, parked in *. destruct (r_pc x) as [| | |ph [|]| |]; try discriminate.
  - intros s0 e k x b (I0 & Hs0 & Hx & Hd). unfold P.
    split; [apply InvW_step; auto|]. split; [apply stored_mono; auto|]. rewrite rnext_n. split; auto.
    intros H. destruct (rnext_notfound b s0 x H) as [H'|[_ H']]; [contradiction|].
    apply Hs0. rewrite <- Hx. exact H'.
  - unfold P. split; [auto|]. split; [exact Hst|]. split; [auto|]. apply Hnd.
  - eauto.
Qed.

(** * C12-3: the converse of below_height_prompt -- an absent height is answered with ErrNotFound *)

(** a call that returned a header saw it in a lookup of its own, at some instant of the schedule *)
Lemma found_witness sched : forall s i r r' id,
  nth_error (st_readers s) i = Some r -> r_pc r <> RDone (RFound id) ->
  nth_error (st_readers (run sched s)) i = Some r' -> r_pc r' = RDone (RFound id) ->
  exists k, (k < length sched)%nat /\ lookup (run (firstn k sched) s) (r_n r) = Some id.
Proof.
  induction sched as [|e l IH]; intros s i r r' id E Hne E' Hpc'.
  - cbn in E'. rewrite E in E'. injection E' as <-. contradiction.
  - change (run (e :: l) s) with (run l (step s e)) in E'.
    destruct (own_step e i) eqn:Eo.
    + destruct (step_own s e i r Eo E) as [b E1].
      destruct (rpc_eq_dec (r_pc (rnext b s r)) (RDone (RFound id))) as [Hd|Hd].
      * exists O. split; [cbn; lia|]. cbn [firstn run fold_left].
        destruct (rnext_found b s r id Hd) as [H|H]; [contradiction|exact H].
      * destruct (IH (step s e) i (rnext b s r) r' id E1 Hd E' Hpc') as (k & Hk & H1).
        exists (S k). split; [cbn; lia|].
        cbn [firstn]. change (run (e :: firstn k l) s) with (run (firstn k l) (step s e)).
        rewrite rnext_n in H1. exact H1.
    + destruct (step_other s e i r Eo E) as (r1 & E1 & Hrel).
      assert (Hr1 : r_n r1 = r_n r /\ r_pc r1 <> RDone (RFound id)).
      { destruct Hrel as [[->|[Hp ->]]|[_ ->]]; auto. rewrite n_sig_of. split; auto.
        unfold sig_of, parked in *. destruct (r_pc r) as [| | |ph [|]| |]; try discriminate. }
      destruct Hr1 as [Hn1 Hd1].
      destruct (IH (step s e) i r1 r' id E1 Hd1 E' Hpc') as (k & Hk & H1).
      exists (S k). split; [cbn; lia|].
      cbn [firstn]. change (run (e :: firstn k l) s) with (run (firstn k l) (step s e)).
      rewrite Hn1 in H1. exact H1.
Qed.

Lemma below_height_absent_notfound hd tl m ns q sched1 sched2 i r : wf_init hd tl m ->
  let s := run sched1 (init hd tl m ns q) in
  nth_error (st_readers s) i = Some r ->
  (r_pc r = RStart \/ r_pc r = RCheck1 \/ r_pc r = RLocked) ->
  r_n r <> 0 -> r_n r <= st_hsh s ->
  (forall k, (k < length sched2)%nat -> lookup (run (firstn k sched2) s) (r_n r) = None) ->
  (3 <= rd_count sched2 i)%nat ->
  exists r', nth_error (st_readers (run sched2 s)) i = Some r' /\ r_pc r' = RDone RNotFound.
Proof.
  intros WF s E Hpc Hn Hh Habs Hc.
  destruct (below_height_prompt hd tl m ns q sched1 sched2 i r WF E Hpc Hn Hh) as (r' & E' & _ & H3 & _).
  fold s in E'. exists r'. split; [exact E'|].
  destruct (H3 Hc) as [H|[id H]]; [exact H|]. exfalso.
  assert (Hne : r_pc r <> RDone (RFound id)) by (destruct Hpc as [->|[->| ->]]; discriminate).
  destruct (found_witness sched2 s i r r' id E Hne E' H) as (k & Hk & Hl).
  rewrite (Habs k Hk) in Hl. discriminate.
Qed.
