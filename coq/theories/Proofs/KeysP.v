(** Proofs about the byte-level key / pointer layout (Model/Keys.v). *)
From Coq Require Strings.Byte.
From Coq Require Import ZifyBool ZifyNat ZifyN.
From GH Require Import Base.Prelude Model.Keys.
Import Coq.Init.Byte.
Open Scope N_scope.

(** * bytes and numbers *)
Lemma Nb_bN b : Nb (bN b) = b.
Proof. unfold Nb, bN. rewrite Byte.of_to_N. reflexivity. Qed.

Lemma bN_lt b : bN b < 256.
Proof. unfold bN. pose proof (Byte.to_N_bounded b). lia. Qed.

Lemma bN_Nb n : n < 256 -> bN (Nb n) = n.
Proof.
  intros Hn. unfold Nb, bN. destruct (Byte.of_N n) as [b|] eqn:E.
  - apply Byte.to_of_N. exact E.
  - apply Byte.of_N_None_iff in E. lia.
Qed.

Lemma bN_inj a b : bN a = bN b -> a = b.
Proof. intros H. rewrite <- (Nb_bN a), <- (Nb_bN b), H. reflexivity. Qed.

Lemma byte_eqb_eq a b : byte_eqb a b = true <-> a = b.
Proof. split; [apply Byte.byte_dec_bl | apply Byte.byte_dec_lb]. Qed.

Lemma byte_eqb_refl a : byte_eqb a a = true.
Proof. apply byte_eqb_eq. reflexivity. Qed.

Lemma byte_eqb_neq a b : byte_eqb a b = false <-> a <> b.
Proof.
  split.
  - intros H E. apply byte_eqb_eq in E. congruence.
  - intros H. destruct (byte_eqb a b) eqn:E; [apply byte_eqb_eq in E; contradiction | reflexivity].
Qed.

Lemma bytes_eqb_eq a b : bytes_eqb a b = true <-> a = b.
Proof.
  unfold bytes_eqb. revert b. induction a as [|x a IH]; intros [|y b]; cbn; split; intros H; try reflexivity; try discriminate.
  - apply andb_true_iff in H as [H1 H2]. apply byte_eqb_eq in H1. apply IH in H2. congruence.
  - inversion H; subst. rewrite byte_eqb_refl. cbn. apply IH. reflexivity.
Qed.

Lemma bytes_eqb_refl a : bytes_eqb a a = true.
Proof. apply bytes_eqb_eq. reflexivity. Qed.

Lemma bytes_eqb_neq a b : bytes_eqb a b = false <-> a <> b.
Proof.
  split.
  - intros H E. apply bytes_eqb_eq in E. congruence.
  - intros H. destruct (bytes_eqb a b) eqn:E; [apply bytes_eqb_eq in E; contradiction | reflexivity].
Qed.

(** finite sweeps: a boolean fact about all numbers below k / all bytes, checked by computation *)
Lemma N_below_forall (k : nat) (P : N -> bool) :
  forallb P (map N.of_nat (seq 0 k)) = true -> forall v, v < N.of_nat k -> P v = true.
Proof.
  intros H v Hv. rewrite forallb_forall in H. apply H.
  apply in_map_iff. exists (N.to_nat v). split; [lia|]. apply in_seq. lia.
Qed.

Lemma byte_forall (P : byte -> bool) :
  forallb (fun n => P (Nb n)) (map N.of_nat (seq 0 256)) = true -> forall b, P b = true.
Proof.
  intros H b. rewrite <- (Nb_bN b).
  apply (N_below_forall 256 (fun n => P (Nb n)) H). pose proof (bN_lt b). lia.
Qed.

(** induction over a list two elements at a time *)
Lemma pair_ind {A} (P : list A -> Prop) :
  P [] -> (forall a, P [a]) -> (forall a b r, P r -> P (a :: b :: r)) -> forall l, P l.
Proof.
  intros H0 H1 H2. fix IH 1. intros [|a [|b r]]; [exact H0 | apply H1 | apply H2, IH].
Qed.

(** * hex *)
Definition is_hexb (c : byte) : bool := match from_hex c with Some _ => true | None => false end.

Lemma enc_pair_ok : forall b,
  (match from_hex (to_upper (hex_lower_digit (bN b / 16))), from_hex (to_upper (hex_lower_digit (bN b mod 16))) with
   | Some x, Some y => byte_eqb (Nb (16 * x + y)) b
   | _, _ => false
   end) = true.
Proof. apply byte_forall. vm_compute. reflexivity. Qed.

Lemma hex_dec_enc h : hex_dec (map to_upper (hex_enc h)) = HexOk h.
Proof.
  induction h as [|b h IH]; [reflexivity|].
  cbn [hex_enc map hex_dec]. pose proof (enc_pair_ok b) as E.
  destruct (from_hex (to_upper (hex_lower_digit (bN b / 16)))) as [x|]; [|discriminate].
  destruct (from_hex (to_upper (hex_lower_digit (bN b mod 16)))) as [y|]; [|discriminate].
  apply byte_eqb_eq in E. rewrite IH, E. reflexivity.
Qed.

(** the lower-case output of hex.Encode decodes as well (hexToUpper is not needed for decoding) *)
Lemma enc_pair_ok_lower : forall b,
  (match from_hex (hex_lower_digit (bN b / 16)), from_hex (hex_lower_digit (bN b mod 16)) with
   | Some x, Some y => byte_eqb (Nb (16 * x + y)) b
   | _, _ => false
   end) = true.
Proof. apply byte_forall. vm_compute. reflexivity. Qed.

Lemma hex_dec_enc_lower h : hex_dec (hex_enc h) = HexOk h.
Proof.
  induction h as [|b h IH]; [reflexivity|].
  cbn [hex_enc hex_dec]. pose proof (enc_pair_ok_lower b) as E.
  destruct (from_hex (hex_lower_digit (bN b / 16))) as [x|]; [|discriminate].
  destruct (from_hex (hex_lower_digit (bN b mod 16))) as [y|]; [|discriminate].
  apply byte_eqb_eq in E. rewrite IH, E. reflexivity.
Qed.

Lemma unmarshal_quoted s :
  unmarshal_json (dq :: s ++ [dq]) =
  match hex_dec s with HexOk h => DOk h | HexBad b => DErrByte b | HexLen => DErrLen end.
Proof.
  unfold unmarshal_json.
  destruct (s ++ [dq]) as [|c r] eqn:E; [destruct s; discriminate|].
  rewrite <- E. rewrite last_last, removelast_last. rewrite byte_eqb_refl. reflexivity.
Qed.

Theorem pointer_round_trip h : unmarshal_json (marshal_json h) = DOk h.
Proof. unfold marshal_json. rewrite unmarshal_quoted, hex_dec_enc. reflexivity. Qed.

(** shape of every accepted input *)
Lemma unmarshal_ok_shape d h :
  unmarshal_json d = DOk h -> exists s, d = dq :: s ++ [dq] /\ hex_dec s = HexOk h.
Proof.
  unfold unmarshal_json. destruct d as [|c [|c' r]]; try discriminate.
  destruct (byte_eqb c dq) eqn:E1; [|discriminate].
  destruct (byte_eqb (last (c' :: r) x00) dq) eqn:E2; [|discriminate]. cbn [andb].
  intros H. exists (removelast (c' :: r)). apply byte_eqb_eq in E1, E2. subst c. split.
  - f_equal. rewrite <- E2. apply app_removelast_last. discriminate.
  - destruct (hex_dec (removelast (c' :: r))); congruence.
Qed.

(** the relation "s is a sequence of pairs of hex digits spelling h" *)
Inductive hexpairs : bytes -> bytes -> Prop :=
| hp_nil : hexpairs [] []
| hp_cons p q a b r l : from_hex p = Some a -> from_hex q = Some b -> hexpairs r l ->
                        hexpairs (p :: q :: r) (Nb (16 * a + b) :: l).

Lemma hex_dec_ok_iff s : forall h, hex_dec s = HexOk h <-> hexpairs s h.
Proof.
  induction s as [| p | p q r IH] using pair_ind; intros h.
  - cbn. split; intros H; [inversion H; constructor | inversion H; reflexivity].
  - cbn. split; intros H; [destruct (from_hex p); discriminate | inversion H].
  - cbn [hex_dec]. split.
    + destruct (from_hex p) as [a|] eqn:Ea; [|discriminate].
      destruct (from_hex q) as [b|] eqn:Eb; [|discriminate].
      destruct (hex_dec r) as [l| |] eqn:Er; try discriminate.
      intros H; inversion H; subst. constructor; auto. apply IH. reflexivity.
    + intros H. inversion H; subst. rewrite H3, H5. apply IH in H6. rewrite H6. reflexivity.
Qed.

Theorem unmarshal_ok_iff d h :
  unmarshal_json d = DOk h <-> exists s, d = dq :: s ++ [dq] /\ hexpairs s h.
Proof.
  split.
  - intros H. apply unmarshal_ok_shape in H as (s & -> & H). exists s. split; [reflexivity|]. apply hex_dec_ok_iff, H.
  - intros (s & -> & H). rewrite unmarshal_quoted. apply hex_dec_ok_iff in H. rewrite H. reflexivity.
Qed.

(** boolean recogniser of the accepted inputs: even number of hex digits between two quotes *)
Lemma hex_dec_ok_b s :
  (exists h, hex_dec s = HexOk h) <-> (Nat.even (length s) && forallb is_hexb s = true).
Proof.
  induction s as [| p | p q r IH] using pair_ind.
  - cbn. split; [reflexivity | intros _; eexists; reflexivity].
  - cbn. split; [intros [h H]; destruct (from_hex p); discriminate | discriminate].
  - cbn [hex_dec length forallb]. change (Nat.even (S (S (length r)))) with (Nat.even (length r)).
    unfold is_hexb at 1 2. split.
    + intros [h H]. destruct (from_hex p); [|discriminate]. destruct (from_hex q); [|discriminate].
      destruct (hex_dec r) eqn:Er; try discriminate. cbn. apply IH. eexists; reflexivity.
    + intros H. destruct (from_hex p); [|cbn in H; rewrite andb_false_r in H; discriminate].
      destruct (from_hex q); [|cbn in H; rewrite andb_false_r in H; discriminate].
      cbn in H. apply IH in H as [l Hl]. rewrite Hl. eexists; reflexivity.
Qed.

(** case: every accepted digit is, upper-cased, the digit the encoder writes for its value *)
Lemma from_hex_upper : forall c,
  (match from_hex c with
   | Some v => (v <? 16) && byte_eqb (to_upper c) (to_upper (hex_lower_digit v))
   | None => true
   end) = true.
Proof. apply byte_forall. vm_compute. reflexivity. Qed.

Lemma hexpairs_upper s h : hexpairs s h -> map to_upper s = map to_upper (hex_enc h).
Proof.
  induction 1 as [| p q a b r l Ha Hb _ IH]; [reflexivity|].
  pose proof (from_hex_upper p) as Hp. pose proof (from_hex_upper q) as Hq.
  rewrite Ha in Hp. rewrite Hb in Hq.
  apply andb_true_iff in Hp as [La Ua]. apply andb_true_iff in Hq as [Lb Ub].
  apply byte_eqb_eq in Ua, Ub.
  cbn [hex_enc map]. rewrite bN_Nb by lia.
  replace ((16 * a + b) / 16) with a by (Zify.zify; Z.div_mod_to_equations; lia).
  replace ((16 * a + b) mod 16) with b by (Zify.zify; Z.div_mod_to_equations; lia).
  rewrite Ua, Ub, IH. reflexivity.
Qed.

Lemma to_upper_dq : to_upper dq = dq.
Proof. reflexivity. Qed.

Theorem unmarshal_canonical d h :
  unmarshal_json d = DOk h -> map to_upper d = marshal_json h /\ unmarshal_json (map to_upper d) = DOk h.
Proof.
  intros H. assert (E : map to_upper d = marshal_json h).
  { apply unmarshal_ok_iff in H as (s & -> & H). apply hexpairs_upper in H.
    cbn [map]. rewrite map_app. cbn [map]. rewrite to_upper_dq, H. reflexivity. }
  split; [exact E|]. rewrite E. apply pointer_round_trip.
Qed.

(** * strings of upper-case hex digits / decimal digits, and NewKey on them *)
Definition plainb (c : byte) : bool := negb (byte_eqb c slash) && negb (byte_eqb c dot).
Definition upper_hexb (c : byte) : bool :=
  let n := bN c in ((48 <=? n) && (n <=? 57)) || ((65 <=? n) && (n <=? 70)).

Lemma upper_digit_ok : forall v, v < 16 -> upper_hexb (to_upper (hex_lower_digit v)) = true.
Proof. apply (N_below_forall 16). vm_compute. reflexivity. Qed.

Lemma hash_string_upper h : forallb upper_hexb (hash_string h) = true.
Proof.
  unfold hash_string. induction h as [|b h IH]; [reflexivity|].
  cbn [hex_enc map forallb]. rewrite IH.
  rewrite !upper_digit_ok; [reflexivity| |]; pose proof (bN_lt b); Zify.zify; Z.div_mod_to_equations; lia.
Qed.

Lemma upper_hex_plain : forall c, implb (upper_hexb c) (plainb c) = true.
Proof. apply byte_forall. vm_compute. reflexivity. Qed.

Lemma dec_digit_plain : forall c, implb (is_dec_digit c) (plainb c) = true.
Proof. apply byte_forall. vm_compute. reflexivity. Qed.

Lemma forallb_impl {A} (P Q : A -> bool) l :
  (forall x, implb (P x) (Q x) = true) -> forallb P l = true -> forallb Q l = true.
Proof.
  intros HI. induction l as [|x l IH]; [reflexivity|]. cbn. intros H.
  apply andb_true_iff in H as [H1 H2]. specialize (HI x). rewrite H1 in HI. cbn in HI. rewrite HI, IH; auto.
Qed.

Lemma length_hex_enc h : length (hex_enc h) = (2 * length h)%nat.
Proof. induction h as [|b h IH]; cbn [hex_enc length]; lia. Qed.

Lemma length_hash_string h : length (hash_string h) = (2 * length h)%nat.
Proof. unfold hash_string. rewrite map_length. apply length_hex_enc. Qed.

Lemma hash_string_inj h1 h2 : hash_string h1 = hash_string h2 -> h1 = h2.
Proof.
  intros H. pose proof (hex_dec_enc h1) as E1. pose proof (hex_dec_enc h2) as E2.
  unfold hash_string in H. rewrite H in E1. congruence.
Qed.

Lemma split_plain s : forall cur, forallb plainb s = true -> split_slash s cur = [rev cur ++ s].
Proof.
  induction s as [|c s IH]; intros cur H; cbn.
  - rewrite app_nil_r. reflexivity.
  - cbn in H. apply andb_true_iff in H as [Hc Hs]. unfold plainb in Hc.
    apply andb_true_iff in Hc as [Hc _]. apply negb_true_iff in Hc. rewrite Hc.
    rewrite IH by exact Hs. cbn. rewrite <- app_assoc. reflexivity.
Qed.

Lemma split_cons_slash t cur : split_slash (slash :: t) cur = rev cur :: split_slash t [].
Proof. reflexivity. Qed.

Lemma new_key_plain s : forallb plainb s = true -> s <> [] -> new_key s = slash :: s.
Proof.
  intros H Hne. destruct s as [|c s]; [contradiction|]. unfold new_key.
  pose proof H as H'. cbn [forallb] in H'. apply andb_true_iff in H' as [Hc _]. unfold plainb in Hc.
  apply andb_true_iff in Hc as [Hc1 Hc2]. apply negb_true_iff in Hc1, Hc2. rewrite Hc1.
  unfold clean_rooted. rewrite split_cons_slash, (split_plain (c :: s) [] H).
  assert (E0 : bytes_eqb (c :: s) [] = false) by reflexivity.
  assert (E1 : bytes_eqb (c :: s) [dot] = false) by (unfold bytes_eqb; cbn; rewrite Hc2; reflexivity).
  assert (E2 : bytes_eqb (c :: s) [dot; dot] = false) by (unfold bytes_eqb; cbn; rewrite Hc2; reflexivity).
  cbn [rev app clean_elems]. rewrite E0, E1, E2. cbn. rewrite app_nil_r. reflexivity.
Qed.

Lemma new_key_nil : new_key [] = [slash].
Proof. reflexivity. Qed.

(** * decimal printing *)
Fixpoint val_rev (l : bytes) : N :=
  match l with
  | [] => 0
  | c :: r => (bN c - 48) + 10 * val_rev r
  end.

Lemma dec_rev_val f : forall n, n < 2 ^ N.of_nat f -> val_rev (dec_rev (S f) n) = n.
Proof.
  induction f as [|f IH]; intros n Hn.
  - cbn in Hn. assert (n = 0) by lia. subst. reflexivity.
  - change (dec_rev (S (S f)) n) with (Nb (48 + n mod 10) :: (if n <? 10 then [] else dec_rev (S f) (n / 10))).
    cbn [val_rev]. rewrite bN_Nb by (Zify.zify; Z.div_mod_to_equations; lia).
    destruct (N.ltb_spec n 10) as [L|L].
    + cbn [val_rev]. rewrite N.mod_small by lia. lia.
    + rewrite IH.
      * Zify.zify; Z.div_mod_to_equations; lia.
      * rewrite Nat2N.inj_succ, N.pow_succ_r' in Hn.
        assert (n / 10 <= n / 2) by (Zify.zify; Z.div_mod_to_equations; lia).
        assert (n / 2 < 2 ^ N.of_nat f) by (apply N.div_lt_upper_bound; lia). lia.
Qed.

Lemma dec_val n : val_rev (rev (dec n)) = n.
Proof.
  unfold dec, dec_fuel. rewrite rev_involutive. apply dec_rev_val.
  rewrite N2Nat.id. apply N.size_gt.
Qed.

Theorem dec_inj n m : dec n = dec m -> n = m.
Proof. intros H. rewrite <- (dec_val n), <- (dec_val m), H. reflexivity. Qed.

Lemma dec_rev_digits f : forall n, forallb is_dec_digit (dec_rev f n) = true.
Proof.
  induction f as [|f IH]; intros n; [reflexivity|].
  cbn [dec_rev forallb]. apply andb_true_iff. split.
  - unfold is_dec_digit. rewrite bN_Nb by (Zify.zify; Z.div_mod_to_equations; lia).
    Zify.zify; Z.div_mod_to_equations; lia.
  - destruct (n <? 10); [reflexivity | apply IH].
Qed.

Lemma forallb_rev {A} (P : A -> bool) l : forallb P (rev l) = forallb P l.
Proof.
  induction l as [|x l IH]; [reflexivity|]. cbn. rewrite forallb_app, IH. cbn. rewrite andb_true_r. apply andb_comm.
Qed.

Lemma dec_digits n : forallb is_dec_digit (dec n) = true.
Proof. unfold dec. rewrite forallb_rev. apply dec_rev_digits. Qed.

Lemma dec_nonempty n : dec n <> [].
Proof.
  unfold dec, dec_fuel. cbn [dec_rev rev]. intros H. apply app_eq_nil in H as [_ H]. discriminate.
Qed.

Lemma dec_rev_length f : forall n (k : nat), (1 <= k)%nat -> n < 10 ^ N.of_nat k -> (length (dec_rev f n) <= k)%nat.
Proof.
  induction f as [|f IH]; intros n k Hk Hn; [cbn; lia|].
  cbn [dec_rev length]. destruct (N.ltb_spec n 10) as [L|L]; [cbn; lia|].
  destruct k as [|[|k]]; [lia | cbn in Hn; lia |].
  assert (length (dec_rev f (n / 10)) <= S k)%nat; [|lia].
  apply IH; [lia|].
  rewrite Nat2N.inj_succ, N.pow_succ_r' in Hn. apply N.div_lt_upper_bound; lia.
Qed.

Lemma dec_length64 n : n < two64 -> (length (dec n) <= 20)%nat.
Proof.
  intros H. unfold dec. rewrite rev_length. apply dec_rev_length; [lia|].
  unfold two64 in H. change (10 ^ N.of_nat 20) with 100000000000000000000. lia.
Qed.

(** * the keys *)
Lemma hash_key_eq h : hash_key h = match h with [] => [slash] | _ => slash :: hash_string h end.
Proof.
  unfold hash_key. destruct h as [|b h]; [reflexivity|].
  apply new_key_plain.
  - eapply forallb_impl; [apply upper_hex_plain | apply hash_string_upper].
  - intros H. apply (f_equal (@length _)) in H. rewrite length_hash_string in H. cbn in H. lia.
Qed.

Lemma height_key_eq n : height_key n = slash :: dec n.
Proof.
  unfold height_key. apply new_key_plain; [|apply dec_nonempty].
  eapply forallb_impl; [apply dec_digit_plain | apply dec_digits].
Qed.

Lemma head_key_eq : head_key = slash :: str_head. Proof. reflexivity. Qed.
Lemma tail_key_eq : tail_key = slash :: str_tail. Proof. reflexivity. Qed.

Theorem hash_key_inj h1 h2 : hash_key h1 = hash_key h2 -> h1 = h2.
Proof.
  rewrite !hash_key_eq. intros H.
  destruct h1 as [|a h1], h2 as [|b h2]; try reflexivity.
  - apply (f_equal (@length _)) in H. cbn [length] in H. rewrite length_hash_string in H. cbn [length] in H. lia.
  - apply (f_equal (@length _)) in H. cbn [length] in H. rewrite length_hash_string in H. cbn [length] in H. lia.
  - apply hash_string_inj. congruence.
Qed.

Theorem height_key_inj n m : height_key n = height_key m -> n = m.
Proof. rewrite !height_key_eq. intros H. inversion H as [H1]. apply dec_inj, H1. Qed.

(** 'h' and 't' are neither upper-case hex digits nor decimal digits *)
Lemma hash_key_not_ptr h : hash_key h <> head_key /\ hash_key h <> tail_key.
Proof.
  rewrite hash_key_eq, head_key_eq, tail_key_eq.
  pose proof (hash_string_upper h) as U.
  destruct h as [|b h]; [split; discriminate|].
  split; intros H; apply (f_equal (@tl _)) in H; cbn [tl] in H; rewrite H in U; vm_compute in U; discriminate.
Qed.

Lemma height_key_not_ptr n : height_key n <> head_key /\ height_key n <> tail_key.
Proof.
  rewrite height_key_eq, head_key_eq, tail_key_eq.
  pose proof (dec_digits n) as U.
  split; intros H; apply (f_equal (@tl _)) in H; cbn [tl] in H; rewrite H in U; vm_compute in U; discriminate.
Qed.

Lemma head_tail_differ : head_key <> tail_key.
Proof. discriminate. Qed.

(** a hash key meets a height key only inside the short all-digit region *)
Theorem hash_height_collision h n :
  n < two64 -> hash_key h = height_key n ->
  h <> [] /\ hash_string h = dec n /\ (length h <= 10)%nat /\ forallb is_dec_digit (hash_string h) = true.
Proof.
  intros Hn H. rewrite hash_key_eq, height_key_eq in H.
  destruct h as [|b h].
  - assert (H1 : dec n = []) by congruence. apply dec_nonempty in H1. contradiction.
  - assert (H1 : hash_string (b :: h) = dec n) by congruence. clear H.
    split; [discriminate|]. split; [exact H1|]. split.
    + pose proof (dec_length64 n Hn) as L. rewrite <- H1, length_hash_string in L. lia.
    + rewrite H1. apply dec_digits.
Qed.

Theorem hash_safe_no_collision h n : hash_safe h = true -> n < two64 -> hash_key h <> height_key n.
Proof.
  intros S Hn H. destruct (hash_height_collision h n Hn H) as (_ & _ & L & D).
  unfold hash_safe in S. rewrite D in S. cbn [negb] in S. rewrite orb_false_r in S.
  apply Nat.ltb_lt in S. lia.
Qed.

Lemma short_hash_collides : hash_key [x12] = height_key 12 /\ hash_safe [x12] = false.
Proof. vm_compute. split; reflexivity. Qed.

(** * the namespace prefix *)
Definition simple (k : bytes) : Prop := exists s, k = slash :: s /\ ~ In slash s.

Lemma plain_no_slash s : forallb plainb s = true -> ~ In slash s.
Proof.
  intros H HI. rewrite forallb_forall in H. apply H in HI. unfold plainb in HI.
  rewrite byte_eqb_refl in HI. discriminate.
Qed.

Lemma hash_key_simple h : simple (hash_key h).
Proof.
  rewrite hash_key_eq. destruct h as [|b h]; [exists []; split; [reflexivity | intros []]|].
  eexists; split; [reflexivity|]. apply plain_no_slash.
  eapply forallb_impl; [apply upper_hex_plain | apply hash_string_upper].
Qed.

Lemma height_key_simple n : simple (height_key n).
Proof.
  rewrite height_key_eq. eexists; split; [reflexivity|]. apply plain_no_slash.
  eapply forallb_impl; [apply dec_digit_plain | apply dec_digits].
Qed.

Lemma head_key_simple : simple head_key.
Proof. exists str_head. split; [reflexivity|]. vm_compute. intuition discriminate. Qed.
Lemma tail_key_simple : simple tail_key.
Proof. exists str_tail. split; [reflexivity|]. vm_compute. intuition discriminate. Qed.

Lemma is_prefix_app p : forall s, is_prefix p s = true -> exists r, s = p ++ r.
Proof.
  induction p as [|a p IH]; intros s H; [exists s; reflexivity|].
  destruct s as [|b s]; [discriminate|]. cbn in H. apply andb_true_iff in H as [H1 H2].
  apply byte_eqb_eq in H1. subst. apply IH in H2 as [r ->]. exists r. reflexivity.
Qed.

Lemma ns_key_simple p' k : simple k ->
  ns_key (slash :: p') k =
  if bytes_eqb (slash :: p') [slash] then k else if bytes_eqb k [slash] then slash :: p' else (slash :: p') ++ k.
Proof.
  intros (s & -> & Hs). unfold ns_key.
  destruct (is_prefix ((slash :: p') ++ [slash]) (slash :: s)) eqn:E; [|reflexivity].
  exfalso. apply is_prefix_app in E as [r E]. cbn in E. inversion E as [E1].
  apply Hs. rewrite E1. apply in_or_app. left. apply in_or_app. right. left. reflexivity.
Qed.

Lemma ns_key_inj p' k1 k2 : simple k1 -> simple k2 -> ns_key (slash :: p') k1 = ns_key (slash :: p') k2 -> k1 = k2.
Proof.
  intros S1 S2. rewrite !ns_key_simple by assumption.
  destruct (bytes_eqb (slash :: p') [slash]); [auto|].
  destruct S1 as (s1 & -> & _), S2 as (s2 & -> & _).
  destruct (bytes_eqb (slash :: s1) [slash]) eqn:E1, (bytes_eqb (slash :: s2) [slash]) eqn:E2.
  - apply bytes_eqb_eq in E1, E2. congruence.
  - intros H. apply (f_equal (@length _)) in H. rewrite app_length in H. cbn in H. lia.
  - intros H. apply (f_equal (@length _)) in H. rewrite app_length in H. cbn in H. lia.
  - apply app_inv_head.
Qed.

(** * abstract keys *)
Section Refine.
  Variable p' : bytes.                 (* the prefix is a key: it starts with a slash *)
  Let prefix := slash :: p'.
  Variable tbl : N -> bytes.           (* hash table: id -> hash bytes *)
  Variable D : N -> Prop.              (* the ids in use *)
  Hypothesis tbl_inj : forall i j, D i -> D j -> tbl i = tbl j -> i = j.
  Hypothesis tbl_safe : forall i, D i -> hash_safe (tbl i) = true.

  Definition key_ok (k : akey) : Prop :=
    match k with KHash id => D id | KHeight n => n < two64 | _ => True end.

  Lemma raw_key_simple k :
    simple match k with KHash id => hash_key (tbl id) | KHeight n => height_key n | KHead => head_key | KTail => tail_key end.
  Proof. destruct k; [apply hash_key_simple | apply height_key_simple | apply head_key_simple | apply tail_key_simple]. Qed.

  Theorem enc_key_inj k1 k2 : key_ok k1 -> key_ok k2 -> enc_key prefix tbl k1 = enc_key prefix tbl k2 -> k1 = k2.
  Proof.
    intros O1 O2 H. unfold enc_key in H. apply ns_key_inj in H; try apply raw_key_simple.
    destruct k1 as [i|n| |], k2 as [j|m| |]; cbn in O1, O2; try reflexivity;
      try (exfalso;
           first [ apply (proj1 (hash_key_not_ptr _)) in H; exact H
                 | apply (proj2 (hash_key_not_ptr _)) in H; exact H
                 | symmetry in H; apply (proj1 (hash_key_not_ptr _)) in H; exact H
                 | symmetry in H; apply (proj2 (hash_key_not_ptr _)) in H; exact H
                 | apply (proj1 (height_key_not_ptr _)) in H; exact H
                 | apply (proj2 (height_key_not_ptr _)) in H; exact H
                 | symmetry in H; apply (proj1 (height_key_not_ptr _)) in H; exact H
                 | symmetry in H; apply (proj2 (height_key_not_ptr _)) in H; exact H
                 | apply head_tail_differ; congruence ]).
    - f_equal. apply tbl_inj; auto. apply hash_key_inj, H.
    - exfalso. revert H. apply hash_safe_no_collision; auto.
    - exfalso. symmetry in H. revert H. apply hash_safe_no_collision; auto.
    - f_equal. apply height_key_inj, H.
  Qed.
End Refine.

(** * the byte-level datastore *)
Ltac beq a b E := destruct (bytes_eqb a b) eqn:E; [apply bytes_eqb_eq in E | apply bytes_eqb_neq in E].

Lemma bget_bdel m k k' : bget (bdel m k) k' = if bytes_eqb k k' then None else bget m k'.
Proof.
  induction m as [|[k0 v] m IH]; cbn [bdel bget]; [destruct (bytes_eqb k k'); reflexivity|].
  beq k0 k E0.
  - subst k0. rewrite IH. beq k k' E1; reflexivity.
  - cbn [bget]. rewrite IH. beq k0 k' E2; [|reflexivity]. subst k0.
    beq k k' E3; [congruence | reflexivity].
Qed.

Lemma bget_bput m k v k' : bget (bput m k v) k' = if bytes_eqb k k' then Some v else bget m k'.
Proof.
  unfold bput. cbn [bget]. rewrite bget_bdel. destruct (bytes_eqb k k'); reflexivity.
Qed.

(** * refinement: the abstract disk of Model/Store.v seen through the encoding *)
From stdpp Require Import gmap.
From GH Require Import Model.Store Model.StoreCrash.

#[global] Instance akey_eq_dec : EqDecision akey.
Proof. solve_decision. Defined.

Section Refine2.
  Variable p' : bytes.
  Let prefix := slash :: p'.
  Variable tbl : N -> bytes.
  Variable D : N -> Prop.
  Hypothesis tbl_inj : forall i j, D i -> D j -> tbl i = tbl j -> i = j.
  Hypothesis tbl_safe : forall i, D i -> hash_safe (tbl i) = true.
  Variable enc_hdr : hdr -> bytes.        (* the header type's MarshalBinary *)

  Let ek := enc_key prefix tbl.
  Let kok := key_ok D.

  (** what the datastore holds under an abstract key *)
  Definition disk_get (s : st) (k : akey) : option bytes :=
    match k with
    | KHash id => option_map enc_hdr (d_hdr s !! id)
    | KHeight n => option_map tbl (d_idx s !! n)
    | KHead => option_map (fun id => marshal_json (tbl id)) (d_head s)
    | KTail => option_map (fun id => marshal_json (tbl id)) (d_tail s)
    end.

  (** the byte-level datastore [m] represents the disk part of [s] *)
  Definition repr (s : st) (m : bds) : Prop := forall k, kok k -> bget m (ek k) = disk_get s k.

  (** one abstract write as a byte-level Put / Delete *)
  Definition w1_kv (w : w1) : akey * option bytes :=
    match w with
    | WPutH id h => (KHash id, Some (enc_hdr h))
    | WDelH id => (KHash id, None)
    | WPutI n id => (KHeight n, Some (tbl id))
    | WDelI n => (KHeight n, None)
    | WPutHead id => (KHead, Some (marshal_json (tbl id)))
    | WDelHead => (KHead, None)
    | WPutTail id => (KTail, Some (marshal_json (tbl id)))
    | WDelTail => (KTail, None)
    end.
  Definition w1_ok (w : w1) : Prop := kok (fst (w1_kv w)).
  Definition bapply1 (m : bds) (w : w1) : bds :=
    match w1_kv w with
    | (k, Some v) => bput m (ek k) v
    | (k, None) => bdel m (ek k)
    end.

  Lemma ek_eqb k1 k2 : kok k1 -> kok k2 -> bytes_eqb (ek k1) (ek k2) = true -> k1 = k2.
  Proof. intros O1 O2 H. apply bytes_eqb_eq in H. eapply enc_key_inj; eauto. Qed.

  Lemma disk_get_apply1 s w k :
    disk_get (apply1 s w) k = if decide (k = fst (w1_kv w)) then snd (w1_kv w) else disk_get s k.
  Proof.
    destruct w; cbn [w1_kv fst snd]; destruct k as [i|n'| |]; cbn;
      match goal with |- context [decide ?P] => destruct (decide P) as [E|E] end;
      try discriminate E; try (exfalso; apply E; reflexivity); try reflexivity;
      try (injection E as ->; rewrite ?lookup_insert, ?lookup_delete; reflexivity);
      try (rewrite ?lookup_insert_ne, ?lookup_delete_ne by congruence; reflexivity).
  Qed.

  Theorem sim1 s m w : repr s m -> w1_ok w -> repr (apply1 s w) (bapply1 m w).
  Proof.
    intros R O k Ok. rewrite disk_get_apply1. unfold bapply1, w1_ok in *.
    destruct (w1_kv w) as [kw [v|]]; cbn [fst snd] in *.
    - rewrite bget_bput. destruct (bytes_eqb (ek kw) (ek k)) eqn:E.
      + apply ek_eqb in E; auto. subst. destruct (decide (k = k)); [reflexivity | contradiction].
      + destruct (decide (k = kw)) as [->|]; [rewrite bytes_eqb_refl in E; discriminate | apply R, Ok].
    - rewrite bget_bdel. destruct (bytes_eqb (ek kw) (ek k)) eqn:E.
      + apply ek_eqb in E; auto. subst. destruct (decide (k = k)); [reflexivity | contradiction].
      + destruct (decide (k = kw)) as [->|]; [rewrite bytes_eqb_refl in E; discriminate | apply R, Ok].
  Qed.

  Definition bapply (m : bds) (w : wop) : bds := fold_left bapply1 w m.

  Lemma sim_wop w : forall s m, repr s m -> Forall w1_ok w -> repr (apply_entry s w) (bapply m w).
  Proof.
    unfold apply_entry, bapply. induction w as [|x w IH]; intros s m R O; [exact R|].
    inversion O; subst. cbn. apply IH; [apply sim1|]; assumption.
  Qed.

  Lemma repr_empty b : repr (st0 b) [].
  Proof. intros k _. destruct k; reflexivity. Qed.

  (** the datastore image after ANY prefix of a write log, abstract and byte-level, correspond *)
  Theorem image_refines b log k :
    Forall (Forall w1_ok) log ->
    repr (image b log k) (fold_left bapply (firstn k log) []).
  Proof.
    intros O. unfold image.
    assert (G : forall l s m, repr s m -> Forall (Forall w1_ok) l ->
                              repr (fold_left apply_entry l s) (fold_left bapply l m)).
    { induction l as [|w l IH]; intros s m R Ol; [exact R|].
      inversion Ol; subst. cbn. apply IH; [apply sim_wop|]; assumption. }
    apply G; [apply repr_empty|].
    rewrite <- (firstn_skipn k log) in O. apply Forall_app in O. apply O.
  Qed.

  (** Start's reading of the head pointer: the byte-level [start_head] computes what the abstract
      [read_head] does (for a Store object that holds nothing in memory yet) *)
  Theorem start_head_refines decodes s m :
    repr s m -> pend_i s = ∅ ->
    (forall id, d_head s = Some id -> D id) ->
    (forall id h, d_hdr s !! id = Some h -> decodes (enc_hdr h) = true) ->
    let '(r, m') := start_head decodes prefix m in
    repr (read_head s) m' /\
    r = match d_head s with
        | None => SNoPointer
        | Some id => match d_hdr s !! id with Some _ => SHead (tbl id) | None => SDropped end
        end /\
    (forall id h, r = SHead (tbl id) -> D id -> d_hdr s !! id = Some h -> headp (read_head s) = Some h).
  Proof.
    intros R Pe HD Hdec. unfold start_head.
    pose proof (R KHead I) as RH. unfold ek, enc_key in RH. rewrite RH. cbn [disk_get].
    unfold read_head.
    destruct (d_head s) as [id|] eqn:Eh; cbn [option_map].
    - unfold get. rewrite Pe, lookup_empty. cbn [mbind option_bind].
      rewrite pointer_round_trip.
      pose proof (R (KHash id) (HD id eq_refl)) as RK. unfold ek, enc_key in RK. rewrite RK. cbn [disk_get].
      destruct (d_hdr s !! id) as [h|] eqn:Ed; cbn [option_map].
      + rewrite (Hdec id h Ed). split; [|split; [reflexivity|]].
        * intros k Ok. rewrite R by exact Ok. destruct k; reflexivity.
        * intros id' h' E Did' Ed'. injection E as E. apply tbl_inj in E; auto. subst id'. cbn. congruence.
      + split; [|split; [reflexivity | discriminate]].
        intros k Ok. pose proof (sim1 s m WDelHead R I k Ok) as S1. unfold bapply1 in S1. cbn in S1.
        unfold ek, enc_key in S1. cbn in S1. etransitivity; [exact S1|]. destruct k; reflexivity.
    - split; [exact R | split; [reflexivity | discriminate]].
  Qed.
End Refine2.

(** * the oracle's recognisers (Oracle/Keys.v) agree with the model *)
From GH Require Import Oracle.Keys.

Lemma is_hex_digit_hexb : forall c, Bool.eqb (is_hex_digit c) (is_hexb c) = true.
Proof. apply byte_forall. vm_compute. reflexivity. Qed.

Lemma forallb_ext_eqb {A} (P Q : A -> bool) l : (forall x, Bool.eqb (P x) (Q x) = true) -> forallb P l = forallb Q l.
Proof.
  intros H. induction l as [|x l IH]; [reflexivity|]. cbn. rewrite IH.
  specialize (H x). apply eqb_prop in H. rewrite H. reflexivity.
Qed.

Theorem unmarshal_accepts_iff_wf d : (exists h, unmarshal_json d = DOk h) <-> wf_ptr d = true.
Proof.
  split.
  - intros [h H]. apply unmarshal_ok_shape in H as (s & -> & H).
    unfold wf_ptr. destruct (s ++ [dq]) as [|c r] eqn:E; [destruct s; discriminate|]. rewrite <- E.
    rewrite last_last, removelast_last, !byte_eqb_refl. cbn [andb].
    rewrite (forallb_ext_eqb _ _ s is_hex_digit_hexb). apply hex_dec_ok_b. eexists; exact H.
  - unfold wf_ptr. destruct d as [|c [|c' r]]; try discriminate. intros H.
    apply andb_true_iff in H as [H H4]. apply andb_true_iff in H as [H H3]. apply andb_true_iff in H as [H1 H2].
    rewrite (forallb_ext_eqb _ _ _ is_hex_digit_hexb) in H4.
    assert (Hd : exists h, hex_dec (removelast (c' :: r)) = HexOk h) by (apply hex_dec_ok_b; rewrite H3, H4; reflexivity).
    destruct Hd as [h Hd]. exists h. unfold unmarshal_json. rewrite H1, H2. cbn [andb]. rewrite Hd. reflexivity.
Qed.

Lemma upper_pairs_enc : forall b,
  byte_eqb (Nb (16 * uval (to_upper (hex_lower_digit (bN b / 16))) + uval (to_upper (hex_lower_digit (bN b mod 16))))) b = true.
Proof. apply byte_forall. vm_compute. reflexivity. Qed.

Lemma upper_pairs_hash_string h : upper_pairs (hash_string h) = h.
Proof.
  unfold hash_string. induction h as [|b h IH]; [reflexivity|].
  cbn [hex_enc map upper_pairs]. rewrite IH. pose proof (upper_pairs_enc b) as E. apply byte_eqb_eq in E. rewrite E. reflexivity.
Qed.

Lemma is_plain_plainb : forall c, implb (is_plain c) (plainb c) = true.
Proof. apply byte_forall. vm_compute. reflexivity. Qed.

Lemma join_slash_head els : match join_slash els with [] => True | c :: _ => c = slash end.
Proof. destruct els; cbn; auto. Qed.

Lemma new_key_rooted s : exists r, new_key s = slash :: r.
Proof.
  assert (G : forall t, exists r, clean_rooted t = slash :: r).
  { intros t. unfold clean_rooted. pose proof (join_slash_head (clean_elems (split_slash t []) [])) as J.
    destruct (join_slash _) as [|c r]; [eexists; reflexivity | subst; eexists; reflexivity]. }
  unfold new_key. destruct s as [|c s]; [eexists; reflexivity|]. destruct (byte_eqb c slash); apply G.
Qed.

(** the model's own answers satisfy the property oracle (codec and key cases) *)
Theorem model_ok_str h : okKeys (KStr h (hash_string h) (marshal_json h)) = true.
Proof.
  cbn [okKeys]. rewrite length_hash_string, Nat.eqb_refl, upper_pairs_hash_string, bytes_eqb_refl.
  replace (forallb is_upper_hex (hash_string h)) with (forallb upper_hexb (hash_string h)) by reflexivity.
  rewrite hash_string_upper. cbn [andb]. unfold marshal_json, hash_string. apply bytes_eqb_refl.
Qed.

Theorem model_ok_unm d : okKeys (KUnm d (unmarshal_json d)) = true.
Proof.
  cbn [okKeys]. destruct (unmarshal_json d) as [h| | |] eqn:E.
  - apply andb_true_iff. split; [apply unmarshal_accepts_iff_wf; eexists; exact E|].
    apply unmarshal_canonical in E as [E _]. rewrite E. apply bytes_eqb_refl.
  - apply negb_true_iff. destruct (wf_ptr d) eqn:W; [|reflexivity]. apply unmarshal_accepts_iff_wf in W as [h W]. congruence.
  - apply negb_true_iff. destruct (wf_ptr d) eqn:W; [|reflexivity]. apply unmarshal_accepts_iff_wf in W as [h W]. congruence.
  - apply negb_true_iff. destruct (wf_ptr d) eqn:W; [|reflexivity]. apply unmarshal_accepts_iff_wf in W as [h W]. congruence.
Qed.

Theorem model_ok_key s : okKeys (KKey s (new_key s)) = true.
Proof.
  cbn [okKeys]. destruct (new_key_rooted s) as [r E]. rewrite E at 1. rewrite byte_eqb_refl. cbn [andb].
  destruct (forallb is_plain s && negb (bytes_eqb s [])) eqn:P; [|reflexivity].
  apply andb_true_iff in P as [P1 P2]. apply negb_true_iff, bytes_eqb_neq in P2.
  rewrite new_key_plain; [apply bytes_eqb_refl | | exact P2].
  eapply forallb_impl; [apply is_plain_plainb | exact P1].
Qed.

(** * the model's own answers for the Store cases satisfy the oracle (outside the collision region) *)
Lemma marshal_json_inj h1 h2 : marshal_json h1 = marshal_json h2 -> h1 = h2.
Proof.
  intros H. pose proof (pointer_round_trip h1) as E. rewrite H, pointer_round_trip in E. congruence.
Qed.

Lemma bytes_eqb_false_of a b : a <> b -> bytes_eqb a b = false.
Proof. apply bytes_eqb_neq. Qed.

Lemma take_plain_app a b : ~ In slash a -> take_plain (a ++ slash :: b) = a.
Proof.
  induction a as [|c a IH]; intros H; cbn [app take_plain].
  - rewrite byte_eqb_refl. reflexivity.
  - destruct (byte_eqb c slash) eqn:E; [apply byte_eqb_eq in E; subst; exfalso; apply H; left; reflexivity|].
    rewrite IH; [reflexivity|]. intros HI. apply H. right. exact HI.
Qed.

Lemma last_seg_app x s : ~ In slash s -> last_seg (x ++ slash :: s) = s.
Proof.
  intros H. unfold last_seg. rewrite rev_app_distr. cbn [rev]. rewrite <- app_assoc. cbn [app].
  rewrite take_plain_app; [apply rev_involutive|]. intros HI. apply H. apply in_rev. exact HI.
Qed.

Lemma dval_rev_val l : dval_rev l = val_rev l.
Proof. induction l as [|c l IH]; cbn; [reflexivity | rewrite IH; reflexivity]. Qed.

Lemma dec_no_slash n : ~ In slash (dec n).
Proof. apply plain_no_slash. eapply forallb_impl; [apply dec_digit_plain | apply dec_digits]. Qed.

Lemma height_entry_ok p' n h : is_height_entry n h (ns_key (slash :: p') (height_key n), h) = true.
Proof.
  unfold is_height_entry. cbn [fst snd].
  assert (E : last_seg (ns_key (slash :: p') (height_key n)) = dec n).
  { rewrite ns_key_simple by apply height_key_simple. rewrite height_key_eq.
    destruct (bytes_eqb (slash :: p') [slash]); [apply (last_seg_app [] (dec n)), dec_no_slash|].
    replace (bytes_eqb (slash :: dec n) [slash]) with false.
    - apply last_seg_app, dec_no_slash.
    - symmetry. apply bytes_eqb_neq. intros H. injection H as H. apply dec_nonempty in H. exact H. }
  rewrite E, dec_digits, bytes_eqb_refl. unfold dval. rewrite dval_rev_val, dec_val, N.eqb_refl.
  replace (bytes_eqb (dec n) []) with false; [reflexivity|]. symmetry. apply bytes_eqb_neq, dec_nonempty.
Qed.

Section Tie.
  Variable p' : bytes.
  Let prefix := slash :: p'.
  Variables (h : bytes) (n : N) (bin : bytes).
  Hypothesis Hn : n < two64.
  Hypothesis Hsafe : hash_safe h = true.
  Hypothesis Hdec : kh_decodes bin = true.

  Let K1 := ns_key prefix (hash_key h).
  Let K2 := ns_key prefix head_key.
  Let K3 := ns_key prefix tail_key.
  Let K4 := ns_key prefix (height_key n).
  Let m0 := apply_puts [] (flush1 prefix h n bin).

  Lemma ns_neq k1 k2 : simple k1 -> simple k2 -> k1 <> k2 -> bytes_eqb (ns_key prefix k1) (ns_key prefix k2) = false.
  Proof. intros S1 S2 N. apply bytes_eqb_neq. intros E. apply ns_key_inj in E; auto. Qed.

  Lemma K12 : bytes_eqb K1 K2 = false. Proof. apply ns_neq; [apply hash_key_simple | apply head_key_simple | apply hash_key_not_ptr]. Qed.
  Lemma K13 : bytes_eqb K1 K3 = false. Proof. apply ns_neq; [apply hash_key_simple | apply tail_key_simple | apply hash_key_not_ptr]. Qed.
  Lemma K14 : bytes_eqb K1 K4 = false. Proof. apply ns_neq; [apply hash_key_simple | apply height_key_simple | apply hash_safe_no_collision; auto]. Qed.
  Lemma K23 : bytes_eqb K2 K3 = false. Proof. apply ns_neq; [apply head_key_simple | apply tail_key_simple | apply head_tail_differ]. Qed.
  Lemma K24 : bytes_eqb K2 K4 = false. Proof. apply ns_neq; [apply head_key_simple | apply height_key_simple |]. intros E. symmetry in E. revert E. apply height_key_not_ptr. Qed.
  Lemma K34 : bytes_eqb K3 K4 = false. Proof. apply ns_neq; [apply tail_key_simple | apply height_key_simple |]. intros E. symmetry in E. revert E. apply height_key_not_ptr. Qed.
  Lemma bsym a b : bytes_eqb a b = false -> bytes_eqb b a = false.
  Proof. intros H. apply bytes_eqb_neq. apply bytes_eqb_neq in H. congruence. Qed.

  Lemma m0_get k : bget m0 k =
    if bytes_eqb K4 k then Some h else if bytes_eqb K3 k then Some (marshal_json h)
    else if bytes_eqb K2 k then Some (marshal_json h) else if bytes_eqb K1 k then Some bin else None.
  Proof. unfold m0, apply_puts, flush1. cbn [fold_left fst snd]. rewrite !bget_bput. reflexivity. Qed.

  Lemma m0_K1 : bget m0 K1 = Some bin.
  Proof. rewrite m0_get, (bsym _ _ K14), (bsym _ _ K13), (bsym _ _ K12), bytes_eqb_refl. reflexivity. Qed.
  Lemma m0_K2 : bget m0 K2 = Some (marshal_json h).
  Proof. rewrite m0_get, (bsym _ _ K24), (bsym _ _ K23), bytes_eqb_refl. reflexivity. Qed.
  Lemma m0_K4 : bget m0 K4 = Some h.
  Proof. rewrite m0_get, bytes_eqb_refl. reflexivity. Qed.

  Lemma log_ok : (length (flush1 prefix h n bin) =? 4)%nat && distinct_keys (flush1 prefix h n bin) = true.
  Proof.
    unfold flush1. cbn [length Nat.eqb distinct_keys existsb fst andb orb].
    fold K1 K2 K3 K4. rewrite K12, K13, K14, K23, K24, K34. reflexivity.
  Qed.

  Lemma log_height : existsb (is_height_entry n h) (flush1 prefix h n bin) = true.
  Proof.
    unfold flush1, prefix. cbn [existsb]. rewrite (height_entry_ok p' n h). rewrite !orb_true_r. reflexivity.
  Qed.

  (** reads of the stored header from any datastore that agrees with m0 on K1 and K4 *)
  Lemma reads_ok m : bget m K1 = Some bin -> bget m K4 = Some h ->
    option_eqb bytes_eqb (read_hash prefix m h) (Some bin) = true /\
    (option_eqb bytes_eqb (read_height prefix m n) (Some bin) || (n =? 0)) = true.
  Proof.
    intros G1 G4. assert (R : read_hash prefix m h = Some bin).
    { unfold read_hash. fold K1. rewrite G1, Hdec. reflexivity. }
    split; [rewrite R; apply bytes_eqb_refl|].
    unfold read_height. destruct (n =? 0); [apply orb_true_r|]. fold K4. rewrite G4, R. cbn. rewrite bytes_eqb_refl. reflexivity.
  Qed.

  Lemma m0_other h' : hash_safe h' = true -> h' <> h ->
    bytes_eqb K2 (ns_key prefix (hash_key h')) = false /\ bget m0 (ns_key prefix (hash_key h')) = None.
  Proof.
    intros S' Nh.
    assert (E2 : bytes_eqb K2 (ns_key prefix (hash_key h')) = false).
    { apply ns_neq; [apply head_key_simple | apply hash_key_simple |]. intros E. symmetry in E. revert E. apply hash_key_not_ptr. }
    split; [exact E2|]. rewrite m0_get, E2.
    unfold K1, K3, K4.
    rewrite !ns_neq; try reflexivity; try apply hash_key_simple; try apply height_key_simple; try apply tail_key_simple;
      intros E;
      first [ apply hash_key_inj in E; congruence
            | symmetry in E; revert E; apply hash_key_not_ptr
            | symmetry in E; revert E; apply hash_safe_no_collision; auto ].
  Qed.

  Theorem model_ok_store t :
    let '(l, o) := model_store prefix h n bin t in okKeys (KStore prefix h n bin t l o) = true.
  Proof.
    pose proof reads_ok as RO. pose proof m0_K1 as A1. pose proof m0_K2 as A2. pose proof m0_K4 as A4.
    pose proof (bsym _ _ K12) as N21. pose proof K24 as N24. pose proof m0_other as AO.
    pose proof log_ok as L. apply andb_true_iff in L as [L1 L2]. pose proof log_height as L3.
    unfold model_store, start_head. fold m0.
    assert (TG : forall T, (exists m, apply_tamper prefix m0 t = m /\ T m) -> T (apply_tamper prefix m0 t)).
    { intros T (m & <- & HT). exact HT. }
    pattern (apply_tamper prefix m0 t). apply TG. clear TG.
    exists (match t with TNone => m0 | TDelete => bdel m0 K2 | TSet v => bput m0 K2 v end).
    split; [destruct t; reflexivity|].
    fold K2. set (log := flush1 prefix h n bin) in *.
    subst K1. clearbody m0 K2 K3 K4 log.
    assert (FIN : forall se hd m', bget m' (ns_key prefix (hash_key h)) = Some bin -> bget m' K4 = Some h ->
      okKeys (KStore prefix h n bin t log
        (SObs se hd
              (is_some (bget m' K2)) (option_eqb bytes_eqb (read_hash prefix m' h) (Some bin))
              (option_eqb bytes_eqb (read_height prefix m' n) (Some bin)))) =
      match t with
      | TNone => negb se && option_eqb bytes_eqb hd (Some h) && is_some (bget m' K2)
      | TDelete => negb se && negb (is_some hd) && negb (is_some (bget m' K2))
      | TSet v =>
        if wf_ptr v then
          if bytes_eqb (map to_upper v) (marshal_json h)
          then negb se && option_eqb bytes_eqb hd (Some h) && is_some (bget m' K2)
          else if hash_safe (upper_pairs (map to_upper (removelast (tl v))))
               then negb se && negb (is_some hd) && negb (is_some (bget m' K2))
               else true
        else se && is_some (bget m' K2) && negb (is_some hd)
      end).
    { intros se hd m' G1 G4. destruct (RO m' G1 G4) as [R1 R2].
      cbn [okKeys o_by_hash o_by_height o_start_err o_head o_kept]. rewrite Hsafe, Hdec, L1, L2, L3, R1, R2. reflexivity. }
    destruct t as [| |v].
    - rewrite A2, pointer_round_trip, A1, Hdec. cbv beta iota; rewrite FIN by assumption. rewrite A2. cbn. rewrite bytes_eqb_refl. reflexivity.
    - rewrite bget_bdel, bytes_eqb_refl.
      cbv beta iota; rewrite FIN by (rewrite bget_bdel, ?N21, ?N24; assumption).
      rewrite bget_bdel, bytes_eqb_refl. reflexivity.
    - assert (G1 : bget (bput m0 K2 v) (ns_key prefix (hash_key h)) = Some bin) by (rewrite bget_bput, N21; exact A1).
      assert (G4 : bget (bput m0 K2 v) K4 = Some h) by (rewrite bget_bput, N24; exact A4).
      assert (G2 : bget (bput m0 K2 v) K2 = Some v) by (rewrite bget_bput, bytes_eqb_refl; reflexivity).
      assert (G1' : bget (bdel (bput m0 K2 v) K2) (ns_key prefix (hash_key h)) = Some bin) by (rewrite bget_bdel, N21; exact G1).
      assert (G4' : bget (bdel (bput m0 K2 v) K2) K4 = Some h) by (rewrite bget_bdel, N24; exact G4).
      rewrite G2.
      destruct (wf_ptr v) eqn:W.
      + pose proof W as W0. apply unmarshal_accepts_iff_wf in W as [h' W]. rewrite W.
        pose proof (unmarshal_canonical v h' W) as [C _].
        destruct (bytes_eqb (map to_upper v) (marshal_json h)) eqn:EM.
        * apply bytes_eqb_eq in EM. pose proof EM as EM'. rewrite C in EM. apply marshal_json_inj in EM. subst h'.
          rewrite G1, Hdec. cbv beta iota; rewrite FIN by assumption. rewrite ?W0, ?EM', ?bytes_eqb_refl, G2. cbn. rewrite bytes_eqb_refl. reflexivity.
        * assert (U : upper_pairs (map to_upper (removelast (tl v))) = h').
          { apply unmarshal_ok_shape in W as (s & -> & Hs). cbn [tl]. rewrite removelast_last.
            apply hex_dec_ok_iff, hexpairs_upper in Hs. rewrite Hs. apply upper_pairs_hash_string. }
          destruct (hash_safe h') eqn:S'.
          -- assert (Nh : h' <> h) by (intros ->; rewrite C, bytes_eqb_refl in EM; discriminate).
             destruct (AO h' S' Nh) as [E2 GN].
             rewrite bget_bput, E2, GN. cbv beta iota; rewrite FIN by assumption.
             rewrite ?W0, ?EM, U, S', bget_bdel, bytes_eqb_refl. reflexivity.
          -- destruct (bget (bput m0 K2 v) (ns_key prefix (hash_key h'))) as [b'|];
               [destruct (kh_decodes b')|]; cbv beta iota; rewrite FIN by assumption; rewrite ?W0, ?EM, U, S'; reflexivity.
      + assert (ND : forall x, unmarshal_json v <> DOk x).
        { intros x E. assert (wf_ptr v = true) by (apply unmarshal_accepts_iff_wf; eexists; exact E). congruence. }
        destruct (unmarshal_json v) as [x| | |] eqn:EU; [exfalso; eapply ND; reflexivity| | |];
          cbv beta iota; rewrite FIN by assumption; rewrite ?W, G2; reflexivity.
  Qed.
End Tie.
