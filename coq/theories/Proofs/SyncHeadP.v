(** Proofs about Model/SyncHead.v (property C19). *)
From Coq Require Import ZifyBool ZifyN ZifyNat.
From GH Require Import Base.Prelude Model.Verify Proofs.VerifyP Model.SyncHead.

Ltac Zify.zify_post_hook ::= Z.div_mod_to_equations.

(** height of the local head (0 when there is none) *)
Definition L (s : sstate) : N := hgt (local_head s).

(** the pending head, when there is one, is above the store head *)
Definition wf (s : sstate) : Prop :=
  match s_pend s with
  | Some pd => s_store s <> None /\ hgt (s_store s) < h_height pd
  | None => True
  end.

Lemma wrap_adj a b : a <= b -> b = wrap64 (a + 1) -> b = a + 1.
Proof. unfold wrap64, two64. intros. lia. Qed.

Lemma store_append_cases st h :
  store_append st h = st \/
  (store_append st h = Some h /\ (st = None \/ h_height h = hgt st + 1)).
Proof.
  unfold store_append. destruct st as [sh|]; [|right; auto].
  destruct (N.leb_spec (h_height sh) (h_height h)); [|left; reflexivity].
  destruct (same_head sh h); [left; reflexivity|].
  destruct (N.eqb_spec (h_height h) (wrap64 (h_height sh + 1))); [|left; reflexivity].
  right. split; [reflexivity|]. right. cbn. apply wrap_adj; assumption.
Qed.

(** re-delivering the current store head moves nothing and raises no error *)
Lemma store_append_same h : store_append (Some h) h = Some h /\ store_append_err (Some h) h = false.
Proof.
  unfold store_append, store_append_err, same_head. rewrite N.leb_refl, !N.eqb_refl. split; reflexivity.
Qed.

(** the list form of syncStore.Append (as of /repo 7d16f07) *)
Lemma store_append_list_single st h :
  store_append_list st [h] = (store_append st h, store_append_err st h).
Proof.
  unfold store_append_list, store_append, store_append_err. destruct st as [sh|]; [|reflexivity].
  cbn [drop_below]. rewrite N.ltb_antisym.
  destruct (h_height sh <=? h_height h); cbn [negb andb]; [|reflexivity].
  cbn [walk]. destruct (same_head sh h); cbn; [reflexivity|].
  destruct (h_height h =? wrap64 (h_height sh + 1)); reflexivity.
Qed.

(** an accepted walk ends at or above the old head and above every header it saw
    (uint64 heights that do not wrap: every height involved is below 2^64 - 1) *)
Lemma walk_covers l : forall head h', h_height head + 1 < two64 ->
  (forall x, In x l -> h_height x + 1 < two64) -> walk head l = Some h' ->
  h_height head <= h_height h' /\ forall x, In x l -> h_height x <= h_height h'.
Proof.
  induction l as [|h r IH]; intros head h' Hb Hl; cbn.
  - intros [= <-]. split; [lia|intros x []].
  - destruct (same_head head h) eqn:Hs.
    + intros Hw. destruct (IH _ _ Hb (fun x Hx => Hl x (or_intror Hx)) Hw) as [H1 H2]. split; [exact H1|].
      intros x [<-|Hx]; [|auto]. unfold same_head in Hs. apply andb_true_iff in Hs. destruct Hs as [Hs _].
      apply N.eqb_eq in Hs. lia.
    + destruct (N.eqb_spec (h_height h) (wrap64 (h_height head + 1))) as [E|]; [|discriminate].
      intros Hw.
      destruct (IH _ _ (Hl h (or_introl eq_refl)) (fun x Hx => Hl x (or_intror Hx)) Hw) as [H1 H2].
      assert (E' : h_height h = h_height head + 1) by (unfold wrap64 in E; rewrite N.mod_small in E; assumption).
      split; [lia|]. intros x [<-|Hx]; [exact H1|auto].
Qed.

(** the defect repaired by /repo 7d16f07, as a property of the shim: after an accepted
    append to a non-empty store the head pointer is not below the old head nor below
    any header of the list - also when the list starts below the head and reaches above it *)
Lemma store_append_list_covers sh l st' :
  h_height sh + 1 < two64 -> (forall x, In x l -> h_height x + 1 < two64) ->
  store_append_list (Some sh) l = (st', false) ->
  h_height sh <= hgt st' /\ forall x, In x l -> h_height x <= hgt st'.
Proof.
  intros Hb Hl. unfold store_append_list. destruct l as [|h0 r0] eqn:El; [intros [= <-]; cbn; split; [lia|intros x []]|].
  rewrite <- El in *. clear El h0 r0.
  assert (Hd : forall x, In x l -> In x (drop_below (h_height sh) l) \/ h_height x < h_height sh).
  { induction l as [|h r IH]; [intros x []|]. intros x Hx. cbn.
    destruct (N.ltb_spec (h_height h) (h_height sh)).
    - destruct Hx as [<-|Hx]; [right; assumption|]. apply IH; [|exact Hx]. intros y Hy. apply Hl. right. exact Hy.
    - left. exact Hx. }
  assert (Hsub : forall x, In x (drop_below (h_height sh) l) -> In x l).
  { clear Hd. induction l as [|h r IH]; [intros x []|]. intros x. cbn.
    destruct (h_height h <? h_height sh); [intros Hx; right; apply IH; [|exact Hx]; intros y Hy; apply Hl; right; exact Hy|auto]. }
  destruct (drop_below (h_height sh) l) as [|h1 r1] eqn:Er.
  - intros [= <-]. cbn. split; [lia|]. intros x Hx. destruct (Hd x Hx) as [[]|Hlt]. lia.
  - rewrite <- Er in *. destruct (walk sh (drop_below (h_height sh) l)) as [h'|] eqn:Hw; [|discriminate].
    intros [= <-]. cbn.
    destruct (walk_covers _ _ _ Hb (fun x Hx => Hl x (Hsub x Hx)) Hw) as [H1 H2].
    split; [exact H1|]. intros x Hx. destruct (Hd x Hx) as [Hin|Hlt]; [apply H2; exact Hin|lia].
Qed.

(** setLocalHead with the header that already IS the store head: a no-op, whatever is pending *)
Lemma slh_redeliver s h : s_store s = Some h -> set_local_head s h = s /\ store_append_err (s_store s) h = false.
Proof.
  intros Hs. unfold set_local_head. rewrite Hs. destruct (store_append_same h) as [-> ->].
  rewrite N.leb_refl. split; [|reflexivity]. destruct s; cbn in *. rewrite Hs. reflexivity.
Qed.

Lemma store_append_mono st h : hgt st <= hgt (store_append st h).
Proof.
  destruct (store_append_cases st h) as [->|[-> [->|H]]]; cbn; lia.
Qed.

Lemma store_append_some st h : exists x, store_append st h = Some x.
Proof. destruct (store_append_cases st h) as [H|[H _]]; rewrite H; [|eauto]. destruct st; [eauto|]. cbn in H. discriminate. Qed.

Lemma slh_now s h : s_now (set_local_head s h) = s_now s.
Proof. unfold set_local_head. destruct (store_append _ _); [destruct (_ <=? _)|]; reflexivity. Qed.

(** the local head is the higher of the store head and the pending head *)
Lemma L_max s : L s = N.max (hgt (s_store s)) (hgt (s_pend s)).
Proof.
  unfold L, local_head. destruct (s_pend s) as [pd|], (s_store s) as [sh|]; cbn; try lia.
  destruct (N.ltb_spec (h_height sh) (h_height pd)); cbn; lia.
Qed.

Lemma local_head_wf s : wf s -> local_head s = match s_pend s with Some pd => Some pd | None => s_store s end.
Proof.
  unfold wf, local_head. destruct (s_pend s) as [pd|]; [|reflexivity].
  destruct (s_store s) as [sh|]; [|reflexivity]. cbn. intros [_ H].
  destruct (N.ltb_spec (h_height sh) (h_height pd)); [reflexivity|lia].
Qed.

Lemma pend_add_mono pd h : hgt pd <= hgt (pend_add pd h).
Proof. unfold pend_add. destruct pd as [x|]; cbn; [|lia]. destruct (N.leb_spec (h_height h) (h_height x)); cbn; lia. Qed.

Lemma slh_parts s h :
  hgt (s_store s) <= hgt (s_store (set_local_head s h)) /\ hgt (s_pend s) <= hgt (s_pend (set_local_head s h)).
Proof.
  unfold set_local_head. pose proof (store_append_mono (s_store s) h) as Hm.
  pose proof (pend_add_mono (s_pend s) h) as Hp.
  destruct (store_append (s_store s) h) as [x|]; [destruct (_ <=? _)|]; cbn in *; lia.
Qed.

(** setLocalHead never lowers the local head, for ANY header *)
Lemma slh_mono s h : L s <= L (set_local_head s h).
Proof. rewrite !L_max. destruct (slh_parts s h). lia. Qed.

(** ... and the new local head is the given header when that one is above the
    old local head of a wf state *)
Lemma slh_above s h : wf s -> L s < h_height h ->
  local_head (set_local_head s h) = Some h /\ wf (set_local_head s h).
Proof.
  intros Hwf Hlt.
  assert (Hw : s_pend (set_local_head s h) = match s_pend (set_local_head s h) with Some _ => Some h | None => None end /\
               (s_pend (set_local_head s h) = None -> s_store (set_local_head s h) = Some h) /\ wf (set_local_head s h)).
  { rewrite L_max in Hlt. unfold wf in *. unfold set_local_head.
    destruct (store_append_cases (s_store s) h) as [He|[He Hc]]; rewrite He.
    - destruct (s_store s) as [sh|] eqn:Hs; [|unfold store_append in He; discriminate].
      cbn in *. destruct (N.leb_spec (h_height h) (h_height sh)); [lia|]. cbn.
      unfold pend_add. destruct (s_pend s) as [pd|]; cbn in *.
      + destruct (N.leb_spec (h_height h) (h_height pd)); [lia|]. cbn.
        split; [reflexivity|]. split; [discriminate|]. split; [discriminate|lia].
      + split; [reflexivity|]. split; [discriminate|]. split; [discriminate|lia].
    - rewrite N.leb_refl. cbn. destruct (s_pend s) as [pd|]; cbn in *.
      + destruct Hwf as [Hne Hwf]. destruct Hc as [Hc|Hc]; [contradiction|lia].
      + split; [reflexivity|]. split; [reflexivity|exact I]. }
  destruct Hw as (H1 & H2 & H3). split; [|exact H3].
  rewrite (local_head_wf _ H3). destruct (s_pend (set_local_head s h)); [exact H1|apply H2; reflexivity].
Qed.

Lemma slh_below s h : h_height h <= L s -> L (set_local_head s h) = L s.
Proof.
  intros Hle. apply N.le_antisymm; [|apply slh_mono].
  rewrite !L_max in *. unfold set_local_head.
  destruct (store_append_cases (s_store s) h) as [He|[He Hc]]; rewrite He.
  - destruct (s_store s) as [sh|]; cbn in *.
    + destruct (N.leb_spec (h_height h) (h_height sh)); cbn; [lia|].
      unfold pend_add. destruct (s_pend s) as [pd|]; cbn in *; [|lia].
      destruct (N.leb_spec (h_height h) (h_height pd)); cbn; lia.
    + unfold pend_add. destruct (s_pend s) as [pd|]; cbn in *; [|lia].
      destruct (N.leb_spec (h_height h) (h_height pd)); cbn; lia.
  - rewrite N.leb_refl. cbn. lia.
Qed.

Lemma fold_slh_mono l s : L s <= L (fold_left set_local_head l s).
Proof.
  revert s. induction l as [|h l IH]; intros s; cbn; [lia|].
  etransitivity; [apply slh_mono | apply IH].
Qed.

Lemma fold_slh_now l s : s_now (fold_left set_local_head l s) = s_now s.
Proof. revert s. induction l as [|h l IH]; intros s; cbn; [reflexivity|]. rewrite IH. apply slh_now. Qed.

Lemma tail_apply_mono s t : L s <= L (tail_apply s t).
Proof.
  destruct t as [th|]; cbn; [|lia]. rewrite !L_max. cbn.
  pose proof (store_append_mono (s_store s) th). lia.
Qed.

Lemma tick_L s d : L (tick s d) = L s.
Proof. reflexivity. Qed.

Lemma sync_part_mono s h : L s <= L (sync_part s h).
Proof.
  rewrite !L_max. unfold sync_part. destruct (s_pend s) as [pd|] eqn:Hp; [|rewrite Hp; lia].
  destruct (N.ltb_spec (hgt (s_store s)) (h_height h)); cbn [andb]; [|rewrite Hp; lia].
  destruct (_ <? _); cbn; rewrite ?Hp; cbn; lia.
Qed.

(** sync() never lowers the local head *)
Lemma sync_done_mono s : L s <= L (sync_done s).
Proof.
  rewrite !L_max. unfold sync_done. destruct (s_pend s) as [pd|] eqn:Hp; [|rewrite Hp; lia].
  destruct (N.ltb_spec (hgt (s_store s)) (h_height pd)); cbn; lia.
Qed.

Section withtv.
Variable p : params.
Variable tv : hdr -> hdr -> tvres.

Lemma incoming_mono s h b : L s <= L (fst (incoming p tv s h b)).
Proof.
  unfold incoming. destruct (local_head s) as [sbj|] eqn:Hl; cbn; [|lia].
  destruct (Verify _ _ _ _ _) as [e|]; cbn; [|apply slh_mono].
  destruct (ve_soft e); cbn; [|lia].
  destruct (snd b); cbn.
  - etransitivity; [apply fold_slh_mono | apply slh_mono].
  - apply fold_slh_mono.
Qed.

Lemma gossip_mono s h b t : L s <= L (fst (gossip p tv s h b t)).
Proof.
  unfold gossip. pose proof (incoming_mono s h b) as Hm.
  destruct (incoming p tv s h b) as [s1 ok]; cbn in *.
  destruct ok; cbn; [|assumption].
  destruct t as [|th]; [assumption|]. etransitivity; [eassumption | apply tail_apply_mono].
Qed.

(** after_answer: the state only grows; a kept head is the caller's subjective head *)
Lemma after_answer_mono s k a b : L s <= L (fst (after_answer p tv s k a b)).
Proof.
  unfold after_answer. destruct k as [|sbj].
  - destruct a as [nh|nh| |]; cbn; try lia.
    destruct (h_nil nh); cbn; [lia|]. destruct (is_expired _ _ _); cbn; lia.
  - destruct a as [nh|nh| |]; cbn; try lia.
    + destruct (h_nil nh); cbn; [lia|]. destruct (_ <=? _); cbn; [lia|apply slh_mono].
    + destruct (h_nil nh) eqn:Hnil; cbn; [lia|].
      pose proof (incoming_mono s nh b) as Hm.
      destruct (incoming p tv s nh b) as [s1 ok]; cbn in *. destruct ok; cbn; [|assumption].
      rewrite ?Hnil. destruct (_ <=? _); cbn; [assumption|].
      etransitivity; [eassumption | apply slh_mono].
Qed.

Lemma after_answer_keep s k a b s1 h :
  after_answer p tv s k a b = (s1, NKeep h) -> k = KStale h.
Proof.
  unfold after_answer. destruct k as [|sbj].
  - destruct a as [nh|nh| |]; try discriminate.
    destruct (h_nil nh); [discriminate|]. destruct (is_expired _ _ _); discriminate.
  - destruct a as [nh|nh| |].
    + destruct (h_nil nh); [discriminate|]. destruct (_ <=? _); [|discriminate]. congruence.
    + destruct (h_nil nh) eqn:Hnil; [discriminate|].
      destruct (incoming p tv s nh b) as [s2 ok]. destruct ok; [|congruence].
      rewrite ?Hnil. destruct (_ <=? _); [|discriminate]. congruence.
    + congruence.
    + congruence.
Qed.

Lemma finish_mono s net t b : L s <= L (fst (finish p tv s net t b)).
Proof.
  unfold finish. destruct t as [|th]; cbn; [lia|].
  pose proof (incoming_mono (tail_apply s th) net b) as Hm.
  destruct (incoming p tv (tail_apply s th) net b) as [s3 ok]; cbn in *.
  etransitivity; [apply tail_apply_mono | eassumption].
Qed.

Lemma finish_res s net t b s' v :
  finish p tv s net t b = (s', ROk v) -> h_height v = L s'.
Proof.
  unfold finish. destruct t as [|th]; [discriminate|].
  destruct (incoming p tv (tail_apply s th) net b) as [s3 ok].
  unfold L. destruct (local_head s3) eqn:Hl; [|discriminate]. intros [= <- <-]. rewrite Hl. reflexivity.
Qed.

Lemma decide_return s h : decide p s = DReturn h -> local_head s = Some h.
Proof.
  unfold decide. destruct (local_head s) as [sbj|]; [|discriminate].
  destruct (is_expired _ _ _); [discriminate|]. destruct (is_recent _ _ _); [|discriminate]. congruence.
Qed.

Lemma decide_stale s sbj : decide p s = DRequest (KStale sbj) -> local_head s = Some sbj.
Proof.
  unfold decide. destruct (local_head s) as [x|]; [|discriminate].
  destruct (is_expired _ _ _); [discriminate|]. destruct (is_recent _ _ _); [discriminate|]. congruence.
Qed.

Lemma after_answer_err s k a b s1 r v : after_answer p tv s k a b = (s1, NErr r) -> r <> ROk v.
Proof.
  unfold after_answer. destruct k as [|sbj].
  - destruct a as [nh|nh| |]; try (intros [= <- <-]; discriminate).
    destruct (h_nil nh); [intros [= <- <-]; discriminate|].
    destruct (is_expired _ _ _); intros [= <- <-]; discriminate.
  - destruct a as [nh|nh| |]; try discriminate.
    + destruct (h_nil nh); [intros [= <- <-]; discriminate|]. destruct (_ <=? _); discriminate.
    + destruct (h_nil nh) eqn:Hnil; [intros [= <- <-]; discriminate|].
      destruct (incoming p tv s nh b) as [s2 ok]. destruct ok; [|discriminate].
      rewrite ?Hnil. destruct (_ <=? _); discriminate.
Qed.

(** one sequential call: the state only grows and an ok result lies between the
    local head before and the local head after the call *)
Lemma head_seq_bounds s i :
  L s <= L (o_st (head_seq p tv s i)) /\
  forall v, o_res (head_seq p tv s i) = ROk v -> L s <= h_height v <= L (o_st (head_seq p tv s i)).
Proof.
  unfold head_seq. destruct (decide p s) as [h|k] eqn:Hd.
  - cbn. split; [lia|]. intros v [= <-]. apply decide_return in Hd. unfold L. rewrite Hd. cbn. lia.
  - set (s0 := match i_ans i with GHang => tick s (hang_time p k (i_cto i)) | _ => s end).
    assert (H0 : L s0 = L s) by (subst s0; destruct (i_ans i); reflexivity).
    pose proof (after_answer_mono s0 k (i_ans i) (i_b1 i)) as Hm.
    destruct (after_answer p tv s0 k (i_ans i) (i_b1 i)) as [s1 n] eqn:Ha. cbn in Hm.
    destruct n as [r|h|net]; cbn.
    + split; [lia|]. intros v ->. eapply after_answer_err in Ha. contradiction Ha. reflexivity.
    + split; [lia|]. intros v [= <-]. apply after_answer_keep in Ha. subst k.
      apply decide_stale in Hd. unfold L in *. rewrite Hd in *. cbn in *. lia.
    + pose proof (finish_mono s1 net (i_tail i) (i_b2 i)) as Hf.
      destruct (finish p tv s1 net (i_tail i) (i_b2 i)) as [s2 r] eqn:Hfin. cbn in *.
      split; [lia|]. intros v ->. apply finish_res in Hfin. lia.
Qed.

(** heights of the successful results, in order *)
Fixpoint ok_heights (l : list hres) : list N :=
  match l with
  | [] => []
  | ROk v :: r => h_height v :: ok_heights r
  | _ :: r => ok_heights r
  end.

Fixpoint nondecr_from (lo : N) (l : list N) : Prop :=
  match l with
  | [] => True
  | x :: r => lo <= x /\ nondecr_from x r
  end.

Lemma nondecr_weaken lo lo' l : lo' <= lo -> nondecr_from lo l -> nondecr_from lo' l.
Proof. destruct l; cbn; [auto|]. intros ? [? ?]. split; [lia|auto]. Qed.

Lemma sstep_mono s e : L s <= L (fst (sstep p tv s e)).
Proof.
  destruct e as [d|h b t|h| |i]; cbn.
  - apply N.le_refl.
  - apply gossip_mono.
  - apply sync_part_mono.
  - apply sync_done_mono.
  - apply head_seq_bounds.
Qed.

Lemma srun_monotone l : forall s,
  L s <= L (fst (srun p tv s l)) /\ nondecr_from (L s) (ok_heights (snd (srun p tv s l))).
Proof.
  induction l as [|e l IH]; intros s; cbn; [split; [lia|exact I]|].
  pose proof (sstep_mono s e) as Hs.
  destruct (sstep p tv s e) as [s1 o1] eqn:He. cbn in Hs.
  specialize (IH s1). destruct (srun p tv s1 l) as [s2 o2]. cbn in *. destruct IH as [IH1 IH2].
  split; [lia|].
  destruct e as [d|h b t|h| |i]; cbn in He; injection He as <- <-; cbn;
    try (eapply nondecr_weaken; [|exact IH2]; assumption).
  pose proof (head_seq_bounds s i) as [Hb1 Hb2].
  destruct (o_res (head_seq p tv s i)) as [v| | | | | |] eqn:Hr; cbn;
    try (eapply nondecr_weaken; [|exact IH2]; assumption).
  specialize (Hb2 v eq_refl). split; [lia|]. eapply nondecr_weaken; [|exact IH2]. lia.
Qed.

(** ** the clauses about one sequential call *)

Definition same_heads (s s' : sstate) : Prop := s_store s' = s_store s /\ s_pend s' = s_pend s.

Lemma decide_recent s sbj : local_head s = Some sbj -> is_expired p (s_now s) sbj = false ->
  is_recent p (s_now s) sbj = true -> decide p s = DReturn sbj.
Proof. unfold decide. intros -> -> ->. reflexivity. Qed.

Lemma decide_stale_intro s sbj : local_head s = Some sbj -> is_expired p (s_now s) sbj = false ->
  is_recent p (s_now s) sbj = false -> decide p s = DRequest (KStale sbj).
Proof. unfold decide. intros -> -> ->. reflexivity. Qed.

Definition needs_init (s : sstate) : Prop :=
  local_head s = None \/ exists sbj, local_head s = Some sbj /\ is_expired p (s_now s) sbj = true.

Lemma decide_init s : needs_init s -> decide p s = DRequest KInit.
Proof. unfold decide. intros [->|(sbj & -> & ->)]; reflexivity. Qed.

Lemma recent_no_traffic s sbj i : local_head s = Some sbj -> is_expired p (s_now s) sbj = false ->
  is_recent p (s_now s) sbj = true -> head_seq p tv s i = HOut s (ROk sbj) [].
Proof. intros H1 H2 H3. unfold head_seq. rewrite (decide_recent _ _ H1 H2 H3). reflexivity. Qed.

Lemma head_seq_calls s i :
  o_calls (head_seq p tv s i) =
  match decide p s with DReturn _ => [] | DRequest k => [trusted_of k] end.
Proof.
  unfold head_seq. destruct (decide p s) as [h|k]; [reflexivity|].
  destruct (after_answer _ _ _ _ _ _) as [s1 [r|h|net]]; try reflexivity.
  destruct (finish _ _ _ _ _ _); reflexivity.
Qed.

Lemma stale_one_request s sbj i : local_head s = Some sbj -> is_expired p (s_now s) sbj = false ->
  is_recent p (s_now s) sbj = false -> o_calls (head_seq p tv s i) = [Some sbj].
Proof. intros H1 H2 H3. rewrite head_seq_calls, (decide_stale_intro _ _ H1 H2 H3). reflexivity. Qed.

Lemma stale_fail_keeps s sbj i : local_head s = Some sbj -> is_expired p (s_now s) sbj = false ->
  is_recent p (s_now s) sbj = false ->
  match i_ans i with
  | GFail | GHang => True
  | GOk nh => h_nil nh = false /\ h_height nh <= h_height sbj
  | GSoft nh => h_nil nh = false /\ snd (incoming p tv s nh (i_b1 i)) = false /\
                same_heads s (fst (incoming p tv s nh (i_b1 i)))
  end ->
  o_res (head_seq p tv s i) = ROk sbj /\ same_heads s (o_st (head_seq p tv s i)).
Proof.
  intros H1 H2 H3 Ha. unfold head_seq. rewrite (decide_stale_intro _ _ H1 H2 H3).
  destruct (i_ans i) as [nh|nh| |]; cbn.
  - destruct Ha as [-> Hle]. apply N.leb_le in Hle. rewrite Hle. cbn. split; [reflexivity|split; reflexivity].
  - destruct Ha as (-> & Ha). destruct (incoming p tv s nh (i_b1 i)) as [s1 ok]. cbn in Ha. destruct Ha as [-> Hs]. cbn. auto.
  - split; [reflexivity|split; reflexivity].
  - split; [reflexivity|split; reflexivity].
Qed.

Lemma verify_known now drift t u : h_nil t = false -> h_height u <= h_height t ->
  exists e, Verify now drift tv t u = Some e /\ ve_soft e = false.
Proof.
  intros Ht Hle. unfold Verify, verify_mand. rewrite Ht.
  destruct (h_nil u); [eexists; split; reflexivity|].
  destruct (negb _); [eexists; split; reflexivity|].
  apply N.leb_le in Hle. rewrite Hle. eexists; split; reflexivity.
Qed.

Lemma incoming_known s l h b : local_head s = Some l -> h_nil l = false -> h_height h <= h_height l ->
  incoming p tv s h b = (s, false).
Proof.
  intros Hl Hn Hle. unfold incoming. rewrite Hl.
  destruct (verify_known (s_now s) (p_drift p) l h Hn Hle) as (e & -> & ->). reflexivity.
Qed.

Lemma stale_higher_adopts s sbj i nh : wf s -> local_head s = Some sbj ->
  is_expired p (s_now s) sbj = false -> is_recent p (s_now s) sbj = false ->
  i_ans i = GOk nh -> h_nil nh = false -> h_height sbj < h_height nh -> i_tail i = TOk None ->
  o_res (head_seq p tv s i) = ROk nh /\ local_head (o_st (head_seq p tv s i)) = Some nh.
Proof.
  intros Hwf H1 H2 H3 Ha Hn Hlt Ht. unfold head_seq. rewrite (decide_stale_intro _ _ H1 H2 H3), Ha. cbn.
  rewrite Hn. destruct (N.leb_spec (h_height nh) (h_height sbj)); [lia|]. cbn. rewrite Ht. cbn.
  assert (HL : L s < h_height nh) by (unfold L; rewrite H1; exact Hlt).
  destruct (slh_above s nh Hwf HL) as [Hl _].
  rewrite (incoming_known _ nh nh (i_b2 i) Hl Hn (N.le_refl _)). cbn. rewrite Hl. auto.
Qed.

Lemma stale_never_init_error s sbj i : local_head s = Some sbj -> is_expired p (s_now s) sbj = false ->
  is_recent p (s_now s) sbj = false ->
  match o_res (head_seq p tv s i) with RGetter | RCtx | RExpired => False | _ => True end.
Proof.
  intros H1 H2 H3. unfold head_seq. rewrite (decide_stale_intro _ _ H1 H2 H3).
  set (s0 := match i_ans i with GHang => _ | _ => s end). clearbody s0.
  unfold after_answer.
  assert (Hfin : forall s1 net, match o_res (let '(s2, r) := finish p tv s1 net (i_tail i) (i_b2 i) in HOut s2 r [trusted_of (KStale sbj)])
                 with RGetter | RCtx | RExpired => False | _ => True end).
  { intros s1 net. unfold finish. destruct (i_tail i); cbn; [exact I|].
    destruct (incoming _ _ _ _ _) as [s3 ok]. cbn. destruct (local_head s3); exact I. }
  destruct (i_ans i) as [nh|nh| |]; cbn; try exact I.
  - destruct (h_nil nh); cbn; [exact I|]. destruct (_ <=? _); cbn; [exact I|]. apply Hfin.
  - destruct (h_nil nh) eqn:Hnil; cbn; [exact I|].
    destruct (incoming p tv s0 nh (i_b1 i)) as [s1 ok]. destruct ok; cbn; [|exact I].
    rewrite ?Hnil. destruct (_ <=? _); cbn; [exact I|]. apply Hfin.
Qed.

(** subjective (re)initialisation *)
Lemma init_one_untrusted_request s i : needs_init s -> o_calls (head_seq p tv s i) = [None].
Proof. intros H. rewrite head_seq_calls, (decide_init _ H). reflexivity. Qed.

Definition fresh_answer (now : Z) (a : gans) : Prop :=
  exists nh, a = GOk nh /\ h_nil nh = false /\ is_expired p now nh = false.

Lemma init_rejects s i : needs_init s -> ~ fresh_answer (s_now s) (i_ans i) ->
  match o_res (head_seq p tv s i) with RGetter | RCtx | RExpired | RPanic => True | _ => False end /\
  same_heads s (o_st (head_seq p tv s i)).
Proof.
  intros Hi Hn. unfold head_seq. rewrite (decide_init _ Hi).
  destruct (i_ans i) as [nh|nh| |] eqn:Ha; cbn; try (split; [exact I|split; reflexivity]).
  destruct (h_nil nh) eqn:Hnil; cbn; [split; [exact I|split; reflexivity]|].
  destruct (is_expired p (s_now s) nh) eqn:He; cbn; [split; [exact I|split; reflexivity]|].
  exfalso. apply Hn. exists nh. auto.
Qed.

Lemma init_ok_only_if_fresh s i v : needs_init s -> o_res (head_seq p tv s i) = ROk v ->
  fresh_answer (s_now s) (i_ans i).
Proof.
  intros Hi Hr. destruct (i_ans i) as [nh|nh| |] eqn:Ha.
  - destruct (h_nil nh) eqn:Hnil; [|destruct (is_expired p (s_now s) nh) eqn:He; [|exists nh; auto]];
      exfalso; unfold head_seq in Hr; rewrite (decide_init _ Hi), Ha in Hr; cbn in Hr;
      rewrite Hnil, ?He in Hr; discriminate.
  - exfalso; unfold head_seq in Hr; rewrite (decide_init _ Hi), Ha in Hr; discriminate.
  - exfalso; unfold head_seq in Hr; rewrite (decide_init _ Hi), Ha in Hr; discriminate.
  - exfalso; unfold head_seq in Hr; rewrite (decide_init _ Hi), Ha in Hr; discriminate.
Qed.

Lemma head_seq_init_fresh s i nh : needs_init s -> i_ans i = GOk nh -> h_nil nh = false ->
  is_expired p (s_now s) nh = false ->
  head_seq p tv s i =
  let '(s2, r) := finish p tv s nh (i_tail i) (i_b2 i) in HOut s2 r [None].
Proof.
  intros Hi Ha Hn He. unfold head_seq. rewrite (decide_init _ Hi), Ha. cbn. rewrite Hn, He. reflexivity.
Qed.

(** empty store: the tail [t] is stored first, the fresh head is verified against it *)
Lemma init_empty_adopts s i nh t : s_store s = None -> s_pend s = None ->
  i_ans i = GOk nh -> h_nil nh = false -> is_expired p (s_now s) nh = false ->
  i_tail i = TOk (Some t) -> Verify (s_now s) (p_drift p) tv t nh = None ->
  o_res (head_seq p tv s i) = ROk nh /\ local_head (o_st (head_seq p tv s i)) = Some nh.
Proof.
  intros Hs Hp Ha Hn He Ht Hv.
  assert (Hi : needs_init s) by (left; unfold local_head; rewrite Hp, Hs; reflexivity).
  rewrite (head_seq_init_fresh s i nh Hi Ha Hn He), Ht. unfold finish.
  set (s2 := tail_apply s (Some t)).
  assert (Hl2 : local_head s2 = Some t) by (subst s2; unfold local_head; cbn; rewrite Hp, Hs; reflexivity).
  assert (Hwf2 : wf s2) by (subst s2; unfold wf; cbn; rewrite Hp; exact I).
  unfold incoming. rewrite Hl2. replace (s_now s2) with (s_now s) by reflexivity. rewrite Hv.
  apply accept_iff in Hv. destruct Hv as [(_ & _ & _ & Hlt & _) _].
  assert (HL : L s2 < h_height nh) by (unfold L; rewrite Hl2; exact Hlt).
  destruct (slh_above s2 nh Hwf2 HL) as [Hl _]. cbv beta iota zeta. cbn [o_res o_st]. rewrite Hl. auto.
Qed.

(** expired stored head, fresh trusted head that verifies against it: adopted *)
Lemma reinit_adopts s i sbj nh : wf s -> local_head s = Some sbj -> is_expired p (s_now s) sbj = true ->
  i_ans i = GOk nh -> h_nil nh = false -> is_expired p (s_now s) nh = false ->
  i_tail i = TOk None -> Verify (s_now s) (p_drift p) tv sbj nh = None ->
  o_res (head_seq p tv s i) = ROk nh /\ local_head (o_st (head_seq p tv s i)) = Some nh.
Proof.
  intros Hwf Hl Hx Ha Hn He Ht Hv.
  assert (Hi : needs_init s) by (right; eauto).
  rewrite (head_seq_init_fresh s i nh Hi Ha Hn He), Ht. unfold finish, incoming. cbn [tail_apply].
  rewrite Hl, Hv.
  apply accept_iff in Hv. destruct Hv as [(_ & _ & _ & Hlt & _) _].
  assert (HL : L s < h_height nh) by (unfold L; rewrite Hl; exact Hlt).
  destruct (slh_above s nh Hwf HL) as [Hl' _]. cbv beta iota zeta. cbn [o_res o_st]. rewrite Hl'. auto.
Qed.

(** expired stored head, fresh trusted head that does NOT verify against it (hard
    failure): nothing is adopted, and Head returns the expired head with a nil error *)
Lemma reinit_unverified_returns_old s i sbj nh e : local_head s = Some sbj ->
  is_expired p (s_now s) sbj = true ->
  i_ans i = GOk nh -> h_nil nh = false -> is_expired p (s_now s) nh = false ->
  i_tail i = TOk None -> Verify (s_now s) (p_drift p) tv sbj nh = Some e -> ve_soft e = false ->
  head_seq p tv s i = HOut s (ROk sbj) [None].
Proof.
  intros Hl Hx Ha Hn He Ht Hv Hs.
  assert (Hi : needs_init s) by (right; eauto).
  rewrite (head_seq_init_fresh s i nh Hi Ha Hn He), Ht. unfold finish, incoming. cbn [tail_apply].
  rewrite Hl, Hv, Hs. rewrite Hl. reflexivity.
Qed.

Lemma init_tail_fails s i nh : needs_init s -> i_ans i = GOk nh -> h_nil nh = false ->
  is_expired p (s_now s) nh = false -> i_tail i = TFail ->
  head_seq p tv s i = HOut s RTail [None].
Proof.
  intros Hi Ha Hn He Ht. rewrite (head_seq_init_fresh s i nh Hi Ha Hn He), Ht. reflexivity.
Qed.

End withtv.

(** ** Part 2: schedules *)

Definition pc_sbj (v : pc) : option hdr :=
  match v with
  | PWant (KStale sbj) | PLead (KStale sbj) | PWait (KStale sbj) _ | PGot (KStale sbj) _ => Some sbj
  | _ => None
  end.

Lemma upd_same f i v : upd f i v i = v.
Proof. unfold upd. rewrite Nat.eqb_refl. reflexivity. Qed.

Lemma upd_other f i v j : j <> i -> upd f i v j = f j.
Proof. unfold upd. intros H. apply Nat.eqb_neq in H. rewrite H. reflexivity. Qed.

Section conc.
Variable p : params.
Variable tv : hdr -> hdr -> tvres.

(** what one step does to the local head, to the program counters and which
    successful results it can emit *)
Definition step_spec (c c' : cstate) (o : list obs) (i : nat) : Prop :=
  L (c_s c) <= L (c_s c') /\
  (forall j, j <> i -> c_pc c' j = c_pc c j) /\
  (forall sbj, pc_sbj (c_pc c' i) = Some sbj ->
     pc_sbj (c_pc c i) = Some sbj \/ (c_pc c i = PIdle /\ h_height sbj = L (c_s c'))) /\
  (forall j v, In (ORet j (ROk v)) o ->
     j = i /\ (h_height v = L (c_s c') \/ pc_sbj (c_pc c i) = Some v)).

Lemma spec_stutter c i : step_spec c c [] i.
Proof.
  split; [lia|]. split; [auto|]. split; [auto|]. intros j v [].
Qed.

Lemma spec_of c i s' fl v o :
  L (c_s c) <= L s' ->
  (forall sbj, pc_sbj v = Some sbj ->
     pc_sbj (c_pc c i) = Some sbj \/ (c_pc c i = PIdle /\ h_height sbj = L s')) ->
  (forall j v', In (ORet j (ROk v')) o ->
     j = i /\ (h_height v' = L s' \/ pc_sbj (c_pc c i) = Some v')) ->
  step_spec c (CState s' fl (upd (c_pc c) i v)) o i.
Proof.
  intros H1 H2 H3. split; [exact H1|]. split; [|split].
  - intros j Hj. cbn. apply upd_other; assumption.
  - cbn. rewrite upd_same. exact H2.
  - exact H3.
Qed.

Ltac no_ret := let j := fresh in let v := fresh in let H := fresh in
  intros j v H; cbn in H; repeat (destruct H as [H|H]; [discriminate|]); destruct H.

Lemma tstep_spec c i x c' o : tstep p tv c i x = (c', o) -> step_spec c c' o i.
Proof.
  unfold tstep, set_pc.
  destruct (c_pc c i) as [|k|k|k g|k a|net|net|] eqn:Hpc;
    destruct x as [| |a'| |b|t]; try (intros [= <- <-]; apply spec_stutter).
  - (* PIdle, ICall *)
    destruct (decide p (c_s c)) as [h|k] eqn:Hd; intros [= <- <-].
    + split; [lia|]. split; [auto|]. split; [auto|].
      intros j v [H|[H|[]]]; [discriminate|]. injection H as <- <-. split; [reflexivity|].
      left. apply decide_return in Hd. unfold L. rewrite Hd. reflexivity.
    + apply spec_of; [lia| |no_ret].
      intros sbj Hs. right. split; [exact Hpc|].
      destruct k as [|sbj']; [discriminate|]. injection Hs as ->.
      apply decide_stale in Hd. unfold L. rewrite Hd. reflexivity.
  - (* PWant, INone *)
    destruct (f_open (c_f c)) as [g|]; intros [= <- <-];
      (apply spec_of; [lia|intros sbj Hs; left; rewrite Hpc; exact Hs|no_ret]).
  - (* PLead, IAns *)
    intros [= <- <-]. apply spec_of; [lia|intros sbj Hs; left; rewrite Hpc; exact Hs|no_ret].
  - (* PWait, INone *)
    destruct (match f_open (c_f c) with Some g' => Nat.eqb g g' | None => false end);
      [intros [= <- <-]; apply spec_stutter|].
    destruct (f_last (c_f c)) as [a|]; intros [= <- <-]; [|apply spec_stutter].
    apply spec_of; [lia|intros sbj Hs; left; rewrite Hpc; exact Hs|no_ret].
  - (* PWait, ICtx *)
    intros [= <- <-]. apply spec_of; [lia|intros sbj Hs; left; rewrite Hpc; exact Hs|no_ret].
  - (* PGot, IBif *)
    pose proof (after_answer_mono p tv (c_s c) k a b) as Hm.
    destruct (after_answer p tv (c_s c) k a b) as [s1 n] eqn:Ha. cbn in Hm.
    destruct n as [r|h|net]; cbn; intros [= <- <-]; (apply spec_of; [exact Hm|discriminate|]).
    + intros j v [H|[]]. injection H as <- ->. eapply after_answer_err in Ha. contradiction Ha. reflexivity.
    + intros j v [H|[]]. injection H as <- <-. split; [reflexivity|]. right.
      apply after_answer_keep in Ha. subst k. rewrite Hpc. reflexivity.
    + intros j v [].
  - (* PUpd, ITail *)
    destruct t as [|th]; intros [= <- <-].
    + apply spec_of; [lia|discriminate|no_ret].
    + apply spec_of; [apply tail_apply_mono|discriminate|no_ret].
  - (* PInc, IBif *)
    intros [= <- <-]. apply spec_of; [apply incoming_mono|discriminate|no_ret].
  - (* PFin, INone *)
    intros [= <- <-]. apply spec_of; [lia|discriminate|].
    intros j v [H|[]]. injection H as <- H. split; [reflexivity|]. left. unfold L.
    destruct (local_head (c_s c)); [injection H as ->; reflexivity|discriminate].
Qed.

Lemma spec_global c s' : L (c_s c) <= L s' -> step_spec c (set_s c s') [] 0%nat.
Proof. intros H. split; [exact H|]. split; [auto|]. split; [auto|]. intros j v []. Qed.

Lemma cstep_spec c e c' o : cstep p tv c e = (c', o) -> exists i, step_spec c c' o i.
Proof.
  destruct e as [d|h b t|h| |i x]; cbn.
  - intros [= <- <-]. exists 0%nat. apply spec_global. apply N.le_refl.
  - intros [= <- <-]. exists 0%nat. apply spec_global. apply gossip_mono.
  - intros [= <- <-]. exists 0%nat. apply spec_global. apply sync_part_mono.
  - intros [= <- <-]. exists 0%nat. apply spec_global. apply sync_done_mono.
  - intros H. exists i. eapply tstep_spec; eassumption.
Qed.

(** every thread's remembered subjective head is at most the current local head *)
Definition sbj_below (c : cstate) : Prop :=
  forall i sbj, pc_sbj (c_pc c i) = Some sbj -> h_height sbj <= L (c_s c).

(** thread b's remembered subjective head, and the local head, are at least lo *)
Definition sbj_above (lo : N) (b : nat) (c : cstate) : Prop :=
  lo <= L (c_s c) /\ forall sbj, pc_sbj (c_pc c b) = Some sbj -> lo <= h_height sbj.

Definition rets_le (o : list obs) (n : N) : Prop :=
  forall j v, In (ORet j (ROk v)) o -> h_height v <= n.
Definition rets_ge (b : nat) (o : list obs) (n : N) : Prop :=
  forall v, In (ORet b (ROk v)) o -> n <= h_height v.

Lemma step_upper c e c' o : sbj_below c -> cstep p tv c e = (c', o) ->
  sbj_below c' /\ L (c_s c) <= L (c_s c') /\ rets_le o (L (c_s c')).
Proof.
  intros HI Hs. destruct (cstep_spec _ _ _ _ Hs) as (i & S1 & S2 & S3 & S4).
  split; [|split; [exact S1|]].
  - intros j sbj Hj. destruct (Nat.eq_dec j i) as [->|Hne].
    + destruct (S3 _ Hj) as [Ho|[_ Ho]]; [specialize (HI _ _ Ho)|]; lia.
    + rewrite (S2 _ Hne) in Hj. specialize (HI _ _ Hj). lia.
  - intros j v Hin. destruct (S4 _ _ Hin) as [-> [Hv|Hv]]; [lia|]. specialize (HI _ _ Hv). lia.
Qed.

Lemma step_lower lo b c e c' o : sbj_above lo b c -> cstep p tv c e = (c', o) ->
  sbj_above lo b c' /\ rets_ge b o lo.
Proof.
  intros [H1 H2] Hs. destruct (cstep_spec _ _ _ _ Hs) as (i & S1 & S2 & S3 & S4).
  split; [split; [lia|]|].
  - intros sbj Hj. destruct (Nat.eq_dec b i) as [->|Hne].
    + destruct (S3 _ Hj) as [Ho|[_ Ho]]; [apply H2; assumption|lia].
    + rewrite (S2 _ Hne) in Hj. apply H2; assumption.
  - intros v Hin. destruct (S4 _ _ Hin) as [<- [Hv|Hv]]; [lia|]. apply H2; assumption.
Qed.

Lemma run_upper l : forall c c' tr, sbj_below c -> crun p tv c l = (c', tr) ->
  sbj_below c' /\ L (c_s c) <= L (c_s c') /\ rets_le tr (L (c_s c')).
Proof.
  induction l as [|e l IH]; intros c c' tr HI; cbn.
  - intros [= <- <-]. split; [assumption|]. split; [lia|]. intros j v [].
  - destruct (cstep p tv c e) as [c1 o1] eqn:Hs.
    destruct (crun p tv c1 l) as [c2 o2] eqn:Hr. intros [= <- <-].
    destruct (step_upper _ _ _ _ HI Hs) as (HI1 & Hm1 & Hr1).
    destruct (IH _ _ _ HI1 Hr) as (HI2 & Hm2 & Hr2).
    split; [assumption|]. split; [lia|].
    intros j v Hin. apply in_app_or in Hin. destruct Hin as [Hin|Hin]; [specialize (Hr1 _ _ Hin); lia|eauto].
Qed.

Lemma run_lower lo b l : forall c c' tr, sbj_above lo b c -> crun p tv c l = (c', tr) ->
  sbj_above lo b c' /\ rets_ge b tr lo.
Proof.
  induction l as [|e l IH]; intros c c' tr HJ; cbn.
  - intros [= <- <-]. split; [assumption|]. intros v [].
  - destruct (cstep p tv c e) as [c1 o1] eqn:Hs.
    destruct (crun p tv c1 l) as [c2 o2] eqn:Hr. intros [= <- <-].
    destruct (step_lower _ _ _ _ _ _ HJ Hs) as (HJ1 & Hr1).
    destruct (IH _ _ _ HJ1 Hr) as (HJ2 & Hr2).
    split; [assumption|]. intros v Hin. apply in_app_or in Hin. destruct Hin; eauto.
Qed.

Lemma cinit_below s : sbj_below (cinit s).
Proof. intros i sbj H. discriminate. Qed.

(** Monotonicity in real-time order, for every schedule: if call a returned v_a
    (during the first part of the run) and thread b is not inside a call at that
    point (so every later return of b belongs to a call started afterwards), then
    every later successful result of b is at least v_a. *)
Theorem monotone_conc s l1 l2 c1 t1 c2 t2 a b va vb :
  crun p tv (cinit s) l1 = (c1, t1) -> crun p tv c1 l2 = (c2, t2) ->
  In (ORet a (ROk va)) t1 -> c_pc c1 b = PIdle -> In (ORet b (ROk vb)) t2 ->
  h_height va <= h_height vb.
Proof.
  intros H1 H2 Ha Hb Hvb.
  destruct (run_upper _ _ _ _ (cinit_below s) H1) as (_ & _ & Hu).
  assert (HJ : sbj_above (L (c_s c1)) b c1).
  { split; [lia|]. rewrite Hb. discriminate. }
  destruct (run_lower _ _ _ _ _ _ HJ H2) as (_ & Hl).
  specialize (Hu _ _ Ha). specialize (Hl _ Hvb). lia.
Qed.

End conc.

(** ** the single flight *)

Definition is_lead (v : pc) : bool := match v with PLead _ => true | _ => false end.
Definition is_wait (v : pc) : bool := match v with PWait _ _ => true | _ => false end.
Definition quiet (o : obs) : Prop := match o with OStart _ | ORet _ _ => True | _ => False end.

Section flight.
Variable p : params.
Variable tv : hdr -> hdr -> tvres.

(** the six ways a thread step touches the single flight *)
Inductive fstep (c c' : cstate) (i : nat) (o : list obs) : Prop :=
| FOpen k : c_pc c i = PWant k -> f_open (c_f c) = None ->
    c_f c' = Flight (Some (f_next (c_f c))) (S (f_next (c_f c))) (f_last (c_f c)) ->
    c_pc c' i = PLead k -> o = [OGet i (trusted_of k)] -> fstep c c' i o
| FJoin k g : c_pc c i = PWant k -> f_open (c_f c) = Some g -> c_f c' = c_f c ->
    c_pc c' i = PWait k g -> o = [OJoin i] -> fstep c c' i o
| FClose k a : c_pc c i = PLead k ->
    c_f c' = Flight None (f_next (c_f c)) (Some a) ->
    c_pc c' i = PGot k a -> o = [OAns i a] -> fstep c c' i o
| FWake k g a : c_pc c i = PWait k g -> f_open (c_f c) <> Some g -> f_last (c_f c) = Some a ->
    c_f c' = c_f c -> c_pc c' i = PGot k a -> o = [OGot i a] -> fstep c c' i o
| FGiveUp k g : c_pc c i = PWait k g -> c_f c' = c_f c ->
    c_pc c' i = PGot k GHang -> o = [OGiveUp i] -> fstep c c' i o
| FStutter : c' = c -> o = [] -> fstep c c' i o
| FOther : c_f c' = c_f c -> Forall quiet o ->
    is_lead (c_pc c i) = false -> is_lead (c_pc c' i) = false ->
    is_wait (c_pc c' i) = false -> fstep c c' i o.

Lemma tstep_others c i x c' o j : tstep p tv c i x = (c', o) -> j <> i -> c_pc c' j = c_pc c j.
Proof. intros H Hj. apply tstep_spec in H. destruct H as (_ & H & _). auto. Qed.

Lemma tstep_fstep c i x c' o : tstep p tv c i x = (c', o) -> fstep c c' i o.
Proof.
  unfold tstep, set_pc.
  destruct (c_pc c i) as [|k|k|k g|k a|net|net|] eqn:Hpc;
    destruct x as [| |a'| |b|t];
    try (intros [= <- <-]; apply FStutter; reflexivity).
  - destruct (decide p (c_s c)) as [h|k] eqn:Hd; intros [= <- <-].
    + apply FOther; cbn; rewrite ?Hpc; auto. repeat constructor.
    + apply FOther; cbn; rewrite ?upd_same, ?Hpc; auto. repeat constructor.
  - destruct (f_open (c_f c)) as [g|] eqn:Hf; intros [= <- <-].
    + eapply FJoin; cbn; rewrite ?upd_same; eauto.
    + eapply FOpen; cbn; rewrite ?upd_same; eauto.
  - intros [= <- <-]. eapply FClose; cbn; rewrite ?upd_same; eauto.
  - destruct (f_open (c_f c)) as [g'|] eqn:Hf.
    + destruct (Nat.eqb_spec g g') as [->|Hne].
      * intros [= <- <-]. apply FStutter; reflexivity.
      * destruct (f_last (c_f c)) as [a|] eqn:Hl; intros [= <- <-].
        -- eapply FWake; cbn; rewrite ?upd_same; eauto. congruence.
        -- apply FStutter; reflexivity.
    + destruct (f_last (c_f c)) as [a|] eqn:Hl; intros [= <- <-].
      * eapply FWake; cbn; rewrite ?upd_same; eauto. congruence.
      * apply FStutter; reflexivity.
  - intros [= <- <-]. eapply FGiveUp; cbn; rewrite ?upd_same; eauto.
  - destruct (after_answer p tv (c_s c) k a b) as [s1 n]. destruct n as [r|h|net]; cbn; intros [= <- <-];
      apply FOther; cbn; rewrite ?upd_same, ?Hpc; auto; repeat constructor.
  - destruct t as [|th]; intros [= <- <-]; apply FOther; cbn; rewrite ?upd_same, ?Hpc; auto; repeat constructor.
  - intros [= <- <-]. apply FOther; cbn; rewrite ?upd_same, ?Hpc; auto.
  - intros [= <- <-]. apply FOther; cbn; rewrite ?upd_same, ?Hpc; auto. repeat constructor.
Qed.


Definition is_open (c : cstate) : bool := match f_open (c_f c) with Some _ => true | None => false end.

(** an open flight has exactly one leader; a closed one has none *)
Definition flight_inv (c : cstate) : Prop :=
  (f_open (c_f c) = None -> forall i, is_lead (c_pc c i) = false) /\
  (forall i j, is_lead (c_pc c i) = true -> is_lead (c_pc c j) = true -> i = j).

(** trace scanner: underlying getter calls (OGet ... OAns) never overlap *)
Fixpoint serial_st (open : bool) (tr : list obs) : option bool :=
  match tr with
  | [] => Some open
  | OGet _ _ :: t => if open then None else serial_st true t
  | OAns _ _ :: t => if open then serial_st false t else None
  | _ :: t => serial_st open t
  end.

Lemma serial_app b t1 t2 :
  serial_st b (t1 ++ t2) = match serial_st b t1 with Some b' => serial_st b' t2 | None => None end.
Proof.
  revert b. induction t1 as [|x t1 IH]; intros b; cbn; [reflexivity|].
  destruct x; cbn; try apply IH; destruct b; auto.
Qed.

Lemma quiet_serial b o : Forall quiet o -> serial_st b o = Some b.
Proof. induction 1 as [|x o Hx _ IH]; cbn; [reflexivity|]. destruct x; cbn in Hx; try contradiction; exact IH. Qed.

Lemma inv_same c c' i : c_f c' = c_f c -> (forall j, j <> i -> c_pc c' j = c_pc c j) ->
  is_lead (c_pc c i) = false -> is_lead (c_pc c' i) = false -> flight_inv c -> flight_inv c'.
Proof.
  intros Hf Hj H1 H2 [I1 I2].
  assert (Hl : forall j, is_lead (c_pc c' j) = is_lead (c_pc c j)).
  { intros j. destruct (Nat.eq_dec j i) as [->|Hne]; [congruence|]. rewrite Hj; auto. }
  split.
  - rewrite Hf. intros Ho j. rewrite Hl. auto.
  - intros a b. rewrite !Hl. apply I2.
Qed.

Lemma tstep_serial c i x c' o : flight_inv c -> tstep p tv c i x = (c', o) ->
  flight_inv c' /\ serial_st (is_open c) o = Some (is_open c').
Proof.
  intros Hinv Hs. pose proof (fun j => tstep_others c i x c' o j Hs) as Hoth.
  destruct Hinv as [I1 I2].
  destruct (tstep_fstep _ _ _ _ _ Hs) as [k Hpc Hf Hf' Hpc' ->|k g Hpc Hf Hf' Hpc' ->|k a Hpc Hf' Hpc' ->
    |k g a Hpc Hf Hl Hf' Hpc' ->|k g Hpc Hf' Hpc' ->| -> -> |Hf' Hq Hl1 Hl2 Hw].
  - (* open *) unfold is_open. rewrite Hf, Hf'. cbn. split; [|reflexivity]. split; [intros Hn; rewrite Hf' in Hn; discriminate|].
    intros a b Ha Hb.
    assert (Hx : forall j, is_lead (c_pc c' j) = true -> j = i).
    { intros j Hj. destruct (Nat.eq_dec j i) as [|Hne]; [assumption|].
      rewrite Hoth in Hj by assumption. rewrite (I1 Hf) in Hj. discriminate. }
    rewrite (Hx _ Ha), (Hx _ Hb). reflexivity.
  - (* join *) unfold is_open. rewrite Hf', Hf. cbn. split; [|reflexivity].
    apply (inv_same c c' i); [assumption | intros; apply Hoth; assumption | rewrite Hpc; reflexivity | rewrite Hpc'; reflexivity | split; assumption].
  - (* close *)
    assert (Ho : is_open c = true).
    { unfold is_open. destruct (f_open (c_f c)) eqn:Hf; [reflexivity|].
      specialize (I1 eq_refl i). rewrite Hpc in I1. discriminate. }
    rewrite Ho. unfold is_open. rewrite Hf'. cbn. split; [|reflexivity].
    assert (Hx : forall j, is_lead (c_pc c' j) = false).
    { intros j. destruct (Nat.eq_dec j i) as [->|Hne]; [rewrite Hpc'; reflexivity|].
      rewrite Hoth by assumption. destruct (is_lead (c_pc c j)) eqn:Hj; [|reflexivity].
      exfalso. apply Hne. apply I2; [assumption|rewrite Hpc; reflexivity]. }
    split; [intros _; exact Hx|]. intros a' b' Ha. rewrite Hx in Ha. discriminate.
  - (* wake *) unfold is_open. rewrite Hf'. cbn. split; [|reflexivity].
      (apply (inv_same c c' i); [assumption | intros; apply Hoth; assumption | rewrite Hpc; reflexivity | rewrite Hpc'; reflexivity | split; assumption]).
  - (* give up *) unfold is_open. rewrite Hf'. cbn. split; [|reflexivity].
      (apply (inv_same c c' i); [assumption | intros; apply Hoth; assumption | rewrite Hpc; reflexivity | rewrite Hpc'; reflexivity | split; assumption]).
  - split; [split; assumption|reflexivity].
  - unfold is_open. rewrite Hf'. split; [|apply quiet_serial; assumption].
    apply (inv_same c c' i); [assumption | intros; apply Hoth; assumption | assumption | assumption | split; assumption].
Qed.

Lemma cstep_serial c e c' o : flight_inv c -> cstep p tv c e = (c', o) ->
  flight_inv c' /\ serial_st (is_open c) o = Some (is_open c').
Proof.
  destruct e as [d|h b t|h| |i x]; cbn; try (intros H [= <- <-]; split; [exact H|reflexivity]).
  apply tstep_serial.
Qed.

Lemma run_serial l : forall c c' tr, flight_inv c -> crun p tv c l = (c', tr) ->
  flight_inv c' /\ serial_st (is_open c) tr = Some (is_open c').
Proof.
  induction l as [|e l IH]; intros c c' tr Hinv; cbn.
  - intros [= <- <-]. split; [assumption|reflexivity].
  - destruct (cstep p tv c e) as [c1 o1] eqn:Hs. destruct (crun p tv c1 l) as [c2 o2] eqn:Hr.
    intros [= <- <-]. destruct (cstep_serial _ _ _ _ Hinv Hs) as [H1 H2].
    destruct (IH _ _ _ H1 Hr) as [H3 H4]. split; [assumption|]. rewrite serial_app, H2. exact H4.
Qed.

Lemma cinit_flight_inv s : flight_inv (cinit s).
Proof. split; intros; [reflexivity|discriminate]. Qed.

Lemma serial_open_no_ans t : forall b, (forall l a, ~ In (OAns l a) t) -> serial_st true t = Some b -> b = true.
Proof.
  induction t as [|x t IH]; intros b Hn; cbn; [congruence|].
  destruct x; try (apply IH; intros l a' Hin; apply (Hn l a'); right; exact Hin); try discriminate.
  exfalso. eapply Hn. left. reflexivity.
Qed.

Lemma serial_some_prefix b t1 t2 r : serial_st b (t1 ++ t2) = Some r -> exists b', serial_st b t1 = Some b'.
Proof. rewrite serial_app. destruct (serial_st b t1); [eauto|discriminate]. Qed.

(** between two underlying getter calls there is always the answer to the first *)
Theorem getter_calls_never_overlap s l c t1 i x t2 j y t3 :
  crun p tv (cinit s) l = (c, t1 ++ OGet i x :: t2 ++ OGet j y :: t3) ->
  exists k a, In (OAns k a) t2.
Proof.
  intros Hr. destruct (run_serial _ _ _ _ (cinit_flight_inv s) Hr) as [_ Hs].
  rewrite serial_app in Hs. destruct (serial_st (is_open (cinit s)) t1) as [b1|]; [|discriminate].
  cbn in Hs. destruct b1; [discriminate|].
  rewrite serial_app in Hs. destruct (serial_st true t2) as [b2|] eqn:H2; [|discriminate].
  cbn in Hs. destruct b2; [|clear Hs].
  - discriminate.
  - (* the flight was closed inside t2: there is an OAns *)
    clear -H2. revert H2. induction t2 as [|o t2 IH]; cbn; [discriminate|].
    destruct o; try (intros H; destruct (IH H) as (k & a' & Hin); exists k, a'; right; exact Hin); try discriminate.
    intros _. eexists _, _. left. reflexivity.
Qed.

(** *** waiters take the result of a flight that closed after they joined *)
Fixpoint shared_ok (last : option gans) (pj : nat -> bool) (tr : list obs) : Prop :=
  match tr with
  | [] => True
  | OJoin w :: t => shared_ok last (fun j => if Nat.eqb j w then true else pj j) t
  | OAns _ a :: t => shared_ok (Some a) (fun _ => false) t
  | OGot w a :: t => pj w = false /\ last = Some a /\ shared_ok last pj t
  | _ :: t => shared_ok last pj t
  end.

Lemma quiet_shared last pj o t : Forall quiet o -> shared_ok last pj (o ++ t) <-> shared_ok last pj t.
Proof. induction 1 as [|x o Hx _ IH]; cbn; [tauto|]. destruct x; cbn in Hx; try contradiction; exact IH. Qed.

(** a waiter that joined since the last answer is waiting for the flight that is still open *)
Definition wait_inv (pj : nat -> bool) (c : cstate) : Prop :=
  forall w k g, c_pc c w = PWait k g -> pj w = true -> f_open (c_f c) = Some g.

Lemma run_shared l : forall c c' tr pj, wait_inv pj c -> crun p tv c l = (c', tr) ->
  shared_ok (f_last (c_f c)) pj tr.
Proof.
  induction l as [|e l IH]; intros c c' tr pj Hw; cbn.
  - intros [= <- <-]. exact I.
  - destruct (cstep p tv c e) as [c1 o1] eqn:Hs. destruct (crun p tv c1 l) as [c2 o2] eqn:Hr.
    intros [= <- <-].
    destruct e as [d|h b t|h| |i x]; cbn in Hs;
      try (injection Hs as <- <-; cbn; eapply IH in Hr; [exact Hr|exact Hw]).
    pose proof (fun j => tstep_others c i x c1 o1 j Hs) as Hoth.
    destruct (tstep_fstep _ _ _ _ _ Hs) as [k Hpc Hf Hf' Hpc' ->|k g Hpc Hf Hf' Hpc' ->|k a Hpc Hf' Hpc' ->
      |k g a Hpc Hf Hl Hf' Hpc' ->|k g Hpc Hf' Hpc' ->| -> -> |Hf' Hq Hl1 Hl2 Hwt]; cbn.
    + (* open *) replace (f_last (c_f c)) with (f_last (c_f c1)) by (rewrite Hf'; reflexivity).
      eapply IH; [|exact Hr]. intros w k' g' Hp Hj.
      destruct (Nat.eq_dec w i) as [->|Hne]; [rewrite Hpc' in Hp; discriminate|].
      rewrite Hoth in Hp by assumption. specialize (Hw _ _ _ Hp Hj). congruence.
    + (* join *) replace (f_last (c_f c)) with (f_last (c_f c1)) by (rewrite Hf'; reflexivity).
      eapply IH; [|exact Hr]. intros w k' g' Hp Hj. rewrite Hf'.
      destruct (Nat.eqb_spec w i) as [->|Hne].
      * rewrite Hpc' in Hp. injection Hp as <- <-. exact Hf.
      * rewrite Hoth in Hp by assumption. eapply Hw; eassumption.
    + (* close *) replace (Some a) with (f_last (c_f c1)) by (rewrite Hf'; reflexivity).
      eapply IH; [|exact Hr]. intros w k' g' _ Hj. discriminate.
    + (* wake *) split; [|split; [exact Hl|]].
      * destruct (pj i) eqn:Hj; [|reflexivity]. exfalso. apply Hf. eapply Hw; eassumption.
      * replace (f_last (c_f c)) with (f_last (c_f c1)) by (rewrite Hf'; reflexivity).
        eapply IH; [|exact Hr]. intros w k' g' Hp Hj. rewrite Hf'.
        destruct (Nat.eq_dec w i) as [->|Hne]; [rewrite Hpc' in Hp; discriminate|].
        rewrite Hoth in Hp by assumption. eapply Hw; eassumption.
    + (* give up *) replace (f_last (c_f c)) with (f_last (c_f c1)) by (rewrite Hf'; reflexivity).
      eapply IH; [|exact Hr]. intros w k' g' Hp Hj. rewrite Hf'.
      destruct (Nat.eq_dec w i) as [->|Hne]; [rewrite Hpc' in Hp; discriminate|].
      rewrite Hoth in Hp by assumption. eapply Hw; eassumption.
    + eapply IH; [|exact Hr]. exact Hw.
    + apply quiet_shared; [assumption|].
      replace (f_last (c_f c)) with (f_last (c_f c1)) by (rewrite Hf'; reflexivity).
      eapply IH; [|exact Hr]. intros w k' g' Hp Hj. rewrite Hf'.
      destruct (Nat.eq_dec w i) as [->|Hne]; [rewrite Hp in Hwt; discriminate|].
      rewrite Hoth in Hp by assumption. eapply Hw; eassumption.
Qed.

(** reading the scanner: the last answer before a waiter's OGot carries the value
    the waiter received, and the waiter's join is not after that answer *)
Lemma shared_ok_got t1 : forall last pj w a t2,
  shared_ok last pj (t1 ++ OGot w a :: t2) ->
  (exists ta l' tb, t1 = ta ++ OAns l' a :: tb /\ (forall l'' a'', ~ In (OAns l'' a'') tb) /\ ~ In (OJoin w) tb)
  \/ ((forall l'' a'', ~ In (OAns l'' a'') t1) /\ last = Some a /\ (pj w = false /\ ~ In (OJoin w) t1)).
Proof.
  induction t1 as [|x t1 IH]; intros last pj w a t2.
  - cbn. intros (Hp & Hl & _). right. split; [intros ? ? []|]. split; [assumption|]. split; [assumption|intros []].
  - assert (Hgen : forall last' pj', shared_ok last' pj' (t1 ++ OGot w a :: t2) ->
              (forall l'' a'', x <> OAns l'' a'') -> x <> OJoin w ->
              (pj' w = false -> pj w = false) -> (last' = Some a -> last = Some a) ->
      (exists ta l' tb, x :: t1 = ta ++ OAns l' a :: tb /\ (forall l'' a'', ~ In (OAns l'' a'') tb) /\ ~ In (OJoin w) tb)
      \/ ((forall l'' a'', ~ In (OAns l'' a'') (x :: t1)) /\ last = Some a /\ (pj w = false /\ ~ In (OJoin w) (x :: t1)))).
    { intros last' pj' H Hx1 Hx2 Hpj Hlast.
      destruct (IH _ _ _ _ _ H) as [(ta & l' & tb & -> & Hn & Hj)|(Hn & Hl & Hp & Hj)].
      - left. exists (x :: ta), l', tb. split; [reflexivity|]. split; assumption.
      - right. split; [intros l'' a'' [Hx|Hx]; [eapply Hx1; exact Hx|eapply Hn; exact Hx]|].
        split; [auto|]. split; [auto|]. intros [Hx|Hx]; [contradiction|auto]. }
    destruct x as [i0|i0 tr0|i0|i0 a0|i0 a0|i0|i0 r0]; cbn.
    + intros H. apply (Hgen last pj); auto; discriminate.
    + intros H. apply (Hgen last pj); auto; discriminate.
    + (* OJoin i0 *)
      intros H. destruct (Nat.eq_dec w i0) as [->|Hne].
      * destruct (IH _ _ _ _ _ H) as [(ta & l' & tb & -> & Hn & Hj)|(Hn & Hl & Hp & Hj)].
        -- left. exists (OJoin i0 :: ta), l', tb. split; [reflexivity|]. split; assumption.
        -- cbn in Hp. rewrite Nat.eqb_refl in Hp. discriminate.
      * apply (Hgen last (fun j => if Nat.eqb j i0 then true else pj j)); auto; try discriminate.
        -- intros [= ->]. contradiction.
        -- cbn. destruct (Nat.eqb_spec w i0); [contradiction|auto].
    + (* OAns i0 a0 *)
      intros H. destruct (IH _ _ _ _ _ H) as [(ta & l' & tb & -> & Hn & Hj)|(Hn & Hl & Hp & Hj)].
      * left. exists (OAns i0 a0 :: ta), l', tb. split; [reflexivity|]. split; assumption.
      * left. injection Hl as ->. exists [], i0, t1. split; [reflexivity|]. split; assumption.
    + (* OGot i0 a0 *)
      intros (_ & _ & H). apply (Hgen last pj); auto; discriminate.
    + intros H. apply (Hgen last pj); auto; discriminate.
    + intros H. apply (Hgen last pj); auto; discriminate.
Qed.

Theorem waiter_shares_flight s l c t1 w a t2 :
  crun p tv (cinit s) l = (c, t1 ++ OGot w a :: t2) ->
  exists ta l' tb, t1 = ta ++ OAns l' a :: tb /\
    (forall l'' a'', ~ In (OAns l'' a'') tb) /\ ~ In (OJoin w) tb.
Proof.
  intros Hr.
  assert (Hw : wait_inv (fun _ => false) (cinit s)) by (intros ? ? ? ? ?; discriminate).
  pose proof (run_shared _ _ _ _ _ Hw Hr) as Hs. cbn in Hs.
  destruct (shared_ok_got _ _ _ _ _ _ Hs) as [H|(_ & Hl & _)]; [exact H|discriminate].
Qed.

End flight.

(** ** auxiliary facts about runs, used by the correspondence oracle *)
Section runs.
Variable p : params.
Variable tv : hdr -> hdr -> tvres.

Lemma crun_app l1 l2 c :
  crun p tv c (l1 ++ l2) =
  let '(c1, t1) := crun p tv c l1 in let '(c2, t2) := crun p tv c1 l2 in (c2, t1 ++ t2).
Proof.
  revert c. induction l1 as [|e l1 IH]; intros c; cbn.
  - destruct (crun p tv c l2); reflexivity.
  - destruct (cstep p tv c e) as [c1 o1]. rewrite IH.
    destruct (crun p tv c1 l1) as [c2 o2]. destruct (crun p tv c2 l2) as [c3 o3].
    rewrite app_assoc. reflexivity.
Qed.

Fixpoint gets_of (tr : list obs) : list (option hdr) :=
  match tr with
  | [] => []
  | OGet _ o :: t => o :: gets_of t
  | _ :: t => gets_of t
  end.

Fixpoint rets_of (tr : list obs) : list hres :=
  match tr with
  | [] => []
  | ORet _ r :: t => r :: rets_of t
  | _ :: t => rets_of t
  end.

Lemma gets_of_app t1 t2 : gets_of (t1 ++ t2) = gets_of t1 ++ gets_of t2.
Proof. induction t1 as [|x t1 IH]; cbn; [reflexivity|]. destruct x; cbn; rewrite ?IH; reflexivity. Qed.

Lemma rets_of_app t1 t2 : rets_of (t1 ++ t2) = rets_of t1 ++ rets_of t2.
Proof. induction t1 as [|x t1 IH]; cbn; [reflexivity|]. destruct x; cbn; rewrite ?IH; reflexivity. Qed.

Lemma rets_of_in tr r : In r (rets_of tr) -> exists b, In (ORet b r) tr.
Proof.
  induction tr as [|x tr IH]; cbn; [intros []|].
  destruct x; cbn; try (intros H; destruct (IH H) as [b Hb]; exists b; right; exact Hb).
  intros [<-|H]; [eexists; left; reflexivity|]. destruct (IH H) as [b Hb]. exists b. right. exact Hb.
Qed.

Definition no_want (c : cstate) : Prop := forall j k, c_pc c j <> PWant k.
Definition no_icall (e : cev) : Prop := match e with CStep _ ICall => False | _ => True end.

Lemma tstep_no_want c i x c' o : x <> ICall -> no_want c -> tstep p tv c i x = (c', o) ->
  no_want c' /\ gets_of o = [].
Proof.
  intros Hx Hn Hs.
  assert (Hoth : forall j, j <> i -> c_pc c' j = c_pc c j) by (intros; eapply tstep_others; eauto).
  assert (Hi : (forall k, c_pc c' i <> PWant k) /\ gets_of o = []).
  { revert Hs. unfold tstep, set_pc.
    destruct (c_pc c i) as [|k|k|k g|k a|net|net|] eqn:Hpc; try (exfalso; eapply Hn; exact Hpc);
      destruct x as [| |a'| |b|t]; try contradiction;
      try (intros [= <- <-]; split; [intros k'; rewrite Hpc; discriminate|reflexivity]).
    - intros [= <- <-]. cbn. rewrite upd_same. split; [discriminate|reflexivity].
    - destruct (match f_open (c_f c) with Some g' => Nat.eqb g g' | None => false end);
        [intros [= <- <-]; split; [intros k'; rewrite Hpc; discriminate|reflexivity]|].
      destruct (f_last (c_f c)); intros [= <- <-]; cbn; rewrite ?upd_same;
        split; try reflexivity; try discriminate. intros k'; rewrite Hpc; discriminate.
    - intros [= <- <-]. cbn. rewrite upd_same. split; [discriminate|reflexivity].
    - destruct (after_answer p tv (c_s c) k a b) as [s1 [r|h|net]]; cbn; intros [= <- <-]; cbn;
        rewrite upd_same; split; try discriminate; reflexivity.
    - destruct t; intros [= <- <-]; cbn; rewrite upd_same; split; try discriminate; reflexivity.
    - intros [= <- <-]. cbn. rewrite upd_same. split; [discriminate|reflexivity].
    - intros [= <- <-]. cbn. rewrite upd_same. split; [discriminate|reflexivity]. }
  destruct Hi as [Hi1 Hi2]. split; [|exact Hi2].
  intros j k. destruct (Nat.eq_dec j i) as [->|Hne]; [apply Hi1|]. rewrite Hoth by assumption. apply Hn.
Qed.

Lemma run_no_get l : forall c c' tr, no_want c -> Forall no_icall l -> crun p tv c l = (c', tr) ->
  gets_of tr = [].
Proof.
  induction l as [|e l IH]; intros c c' tr Hn Hl; cbn.
  - intros [= <- <-]. reflexivity.
  - destruct (cstep p tv c e) as [c1 o1] eqn:Hs. destruct (crun p tv c1 l) as [c2 o2] eqn:Hr.
    intros [= <- <-]. inversion Hl as [|? ? He Hl']; subst. rewrite gets_of_app.
    destruct e as [d|h b t|h| |i x]; cbn in Hs;
      try (injection Hs as <- <-; cbn; eapply IH; [|exact Hl'|exact Hr]; exact Hn).
    assert (Hx : x <> ICall) by (intros ->; exact He).
    destruct (tstep_no_want _ _ _ _ _ Hx Hn Hs) as [Hn1 ->]. cbn. eapply IH; eassumption.
Qed.

End runs.

(** ** one thread running alone is the sequential function *)
Section solo.
Variable p : params.
Variable tv : hdr -> hdr -> tvres.

Definition solo (i : nat) (a : gans) (b1 : bifres) (t : tans) (b2 : bifres) : list cev :=
  [CStep i ICall; CStep i INone; CStep i (IAns a); CStep i (IBif b1); CStep i (ITail t);
   CStep i (IBif b2); CStep i INone].

Lemma crun_cons c i x l : crun p tv c (CStep i x :: l) =
  let '(c1, o1) := tstep p tv c i x in let '(c2, o2) := crun p tv c1 l in (c2, o1 ++ o2).
Proof. reflexivity. Qed.

Lemma crun_idle l : forall c i, c_pc c i = PIdle -> Forall (fun e => exists x, e = CStep i x /\ x <> ICall) l ->
  crun p tv c l = (c, []).
Proof.
  induction l as [|e l IH]; intros c i Hpc Hl; [reflexivity|].
  inversion Hl as [|? ? (x & -> & Hx) Hl']; subst. rewrite crun_cons.
  assert (Ht : tstep p tv c i x = (c, [])) by (unfold tstep; rewrite Hpc; destruct x; try reflexivity; contradiction).
  rewrite Ht, (IH c i Hpc Hl'). reflexivity.
Qed.

Ltac stepx Hpc := rewrite crun_cons; unfold tstep at 1; cbn [c_pc c_f c_s set_pc]; rewrite ?upd_same, ?Hpc; cbv beta iota.

Lemma solo_eq c i cto a b1 t b2 :
  c_pc c i = PIdle -> f_open (c_f c) = None -> a <> GHang ->
  let o := head_seq p tv (c_s c) (HIn cto a b1 t b2) in
  let '(c', tr) := crun p tv c (solo i a b1 t b2) in
  c_s c' = o_st o /\ rets_of tr = [o_res o] /\ gets_of tr = o_calls o /\ c_pc c' i = PIdle.
Proof.
  intros Hpc Hf Ha. unfold solo, head_seq. cbn [i_ans i_b1 i_b2 i_tail i_cto].
  stepx Hpc.
  destruct (decide p (c_s c)) as [h|k] eqn:Hd.
  - rewrite (crun_idle _ c i Hpc).
    + cbn. auto.
    + repeat constructor; eexists; (split; [reflexivity|discriminate]).
  - stepx Hpc. rewrite Hf. stepx Hpc.
    assert (Hs0 : match a with GHang => tick (c_s c) (hang_time p k cto) | _ => c_s c end = c_s c)
      by (destruct a; try reflexivity; contradiction).
    rewrite Hs0. stepx Hpc.
    destruct (after_answer p tv (c_s c) k a b1) as [s1 n] eqn:Haa.
    destruct n as [r|h|net]; cbn [nres_pc]; cbv beta iota.
    + rewrite (crun_idle _ _ i); [unfold set_pc; cbn [c_s c_pc]; rewrite upd_same; cbn; auto|unfold set_pc; cbn [c_pc]; apply upd_same|].
      repeat constructor; eexists; (split; [reflexivity|discriminate]).
    + rewrite (crun_idle _ _ i); [unfold set_pc; cbn [c_s c_pc]; rewrite upd_same; cbn; auto|unfold set_pc; cbn [c_pc]; apply upd_same|].
      repeat constructor; eexists; (split; [reflexivity|discriminate]).
    + unfold finish. destruct t as [|th]; stepx Hpc.
      * rewrite (crun_idle _ _ i); [unfold set_pc; cbn [c_s c_pc]; rewrite upd_same; cbn; auto|unfold set_pc; cbn [c_pc]; apply upd_same|].
        repeat constructor; eexists; (split; [reflexivity|discriminate]).
      * stepx Hpc. stepx Hpc.
        destruct (incoming p tv (tail_apply s1 th) net b2) as [s3 ok] eqn:Hin.
        cbn [crun fst]. cbv beta iota. unfold set_pc. cbn [c_s c_pc]. rewrite upd_same. cbn. auto.
Qed.
End solo.

Ltac bdestr := repeat match goal with
  | |- context [Nat.leb ?a ?b] => destruct (Nat.leb_spec a b)
  | |- context [Nat.ltb ?a ?b] => destruct (Nat.ltb_spec a b)
  | |- context [Nat.eqb ?a ?b] => destruct (Nat.eqb_spec a b)
  end; try reflexivity; try lia.


Section phases.
Variable p : params.
Variable tv : hdr -> hdr -> tvres.

(** *** the schedule of n concurrent callers issues exactly one underlying call *)
Lemma phase1_ret s l : forall c, c_s c = s -> (forall j, c_pc c j = PIdle) ->
  (exists h, decide p s = DReturn h) ->
  exists t1, crun p tv c (map (fun j => CStep j ICall) l) = (c, t1) /\ gets_of t1 = [].
Proof.
  induction l as [|j l IH]; intros c Hs Hpc [h Hd]; cbn; [eexists; split; reflexivity|].
  unfold tstep. rewrite Hpc, Hs, Hd. destruct (IH c Hs Hpc (ex_intro _ h Hd)) as (t1 & -> & Hg).
  eexists. split; [reflexivity|]. cbn. exact Hg.
Qed.

Lemma crun_single c i x :
  crun p tv c [CStep i x] = let '(c1, o) := tstep p tv c i x in (c1, o ++ []).
Proof. reflexivity. Qed.

Lemma tstep_call_req c i k : c_pc c i = PIdle -> decide p (c_s c) = DRequest k ->
  tstep p tv c i ICall = (set_pc c i (PWant k), [OStart i]).
Proof. intros H1 H2. unfold tstep. rewrite H1, H2. reflexivity. Qed.

Lemma tstep_want_open c i k : c_pc c i = PWant k -> f_open (c_f c) = None ->
  tstep p tv c i INone =
  (CState (c_s c) (Flight (Some (f_next (c_f c))) (S (f_next (c_f c))) (f_last (c_f c))) (upd (c_pc c) i (PLead k)),
   [OGet i (trusted_of k)]).
Proof. intros H1 H2. unfold tstep. rewrite H1, H2. reflexivity. Qed.

Lemma tstep_want_join c i k g : c_pc c i = PWant k -> f_open (c_f c) = Some g ->
  tstep p tv c i INone = (set_pc c i (PWait k g), [OJoin i]).
Proof. intros H1 H2. unfold tstep. rewrite H1, H2. reflexivity. Qed.

Lemma phase1_req s k n : decide p s = DRequest k -> forall c, c_s c = s -> (forall j, c_pc c j = PIdle) ->
  exists c1 t1, crun p tv c (map (fun j => CStep j ICall) (seq 0 n)) = (c1, t1) /\
    c_s c1 = s /\ c_f c1 = c_f c /\
    (forall j, c_pc c1 j = if (j <? n)%nat then PWant k else PIdle) /\ gets_of t1 = [] /\ rets_of t1 = [].
Proof.
  intros Hd c Hs Hpc. induction n as [|n IH].
  - exists c, []. split; [reflexivity|]. split; [exact Hs|]. split; [reflexivity|]. split; [|split; reflexivity].
    intros j. rewrite Hpc. reflexivity.
  - rewrite seq_S, map_app, crun_app. destruct IH as (c1 & t1 & -> & Hs1 & Hf1 & Hp1 & Hg1 & Hr1).
    cbn [map Nat.add]. rewrite crun_single, (tstep_call_req c1 n k).
    + eexists _, _. split; [reflexivity|]. unfold set_pc. cbn [c_s c_f c_pc].
      split; [exact Hs1|]. split; [exact Hf1|]. split; [|split].
      * intros j. unfold upd. destruct (Nat.eqb_spec j n) as [->|Hne]; [|rewrite Hp1]; bdestr.
      * rewrite gets_of_app, Hg1. reflexivity.
      * rewrite rets_of_app, Hr1. reflexivity.
    + rewrite Hp1, Nat.ltb_irrefl. reflexivity.
    + rewrite Hs1. exact Hd.
Qed.

Lemma phase2 k n m : (1 <= m)%nat -> (m <= n)%nat -> forall c1, f_open (c_f c1) = None ->
  (forall j, c_pc c1 j = if (j <? n)%nat then PWant k else PIdle) ->
  exists c2 t2, crun p tv c1 (map (fun j => CStep j INone) (seq 0 m)) = (c2, t2) /\
    c_s c2 = c_s c1 /\
    (forall j, c_pc c2 j = if Nat.eqb j 0 then PLead k
                           else if (j <? m)%nat then PWait k (f_next (c_f c1))
                           else if (j <? n)%nat then PWant k else PIdle) /\
    f_open (c_f c2) = Some (f_next (c_f c1)) /\ gets_of t2 = [trusted_of k] /\
    rets_of t2 = [] /\ f_last (c_f c2) = f_last (c_f c1).
Proof.
  intros H1 Hmn c1 Hf Hp. induction m as [|m IH]; [lia|].
  destruct (Nat.eq_dec m 0) as [->|Hm0].
  - (* the first caller opens the flight *)
    change (seq 0 1) with [0%nat]. cbn [map]. rewrite crun_single, (tstep_want_open c1 0%nat k); [|rewrite Hp; bdestr|exact Hf].
    eexists _, _. split; [reflexivity|]. cbn [c_s c_f c_pc f_open].
    split; [reflexivity|]. split; [|repeat split; reflexivity].
    intros j. unfold upd. destruct (Nat.eqb_spec j 0) as [->|Hne]; [reflexivity|]. rewrite Hp. bdestr.
  - rewrite seq_S, map_app, crun_app.
    destruct IH as (c2 & t2 & -> & Hs2 & Hp2 & Hf2 & Hg2 & Hr2 & Hl2); [lia|lia|].
    cbn [map Nat.add]. rewrite crun_single, (tstep_want_join c2 m k (f_next (c_f c1))); [| |exact Hf2].
    + eexists _, _. split; [reflexivity|]. unfold set_pc. cbn [c_s c_f c_pc].
      split; [exact Hs2|]. split; [|split; [|split; [|split]]].
      * intros j. unfold upd. destruct (Nat.eqb_spec j m) as [->|Hne]; [|rewrite Hp2]; bdestr.
      * exact Hf2.
      * rewrite gets_of_app, Hg2. reflexivity.
      * rewrite rets_of_app, Hr2. reflexivity.
      * exact Hl2.
    + rewrite Hp2. bdestr.
Qed.

Definition sched_rest (n : nat) (i : hin) (w : bool) (d : N) : list cev :=
  [CTick d] ++
  (if w then map (fun j => CStep j ICtx) (seq 1 (n - 1)) else []) ++
  [CStep 0%nat (IAns (i_ans i))] ++
  (if w then [] else map (fun j => CStep j INone) (seq 1 (n - 1))) ++
  concat (map (fun j => [CStep j (IBif (i_b1 i)); CStep j (ITail (i_tail i)); CStep j (IBif (i_b2 i)); CStep j INone]) (seq 0 n)).

Lemma sched_split n i w d :
  conc_sched n i w d = map (fun j => CStep j ICall) (seq 0 n) ++ map (fun j => CStep j INone) (seq 0 n) ++ sched_rest n i w d.
Proof. reflexivity. Qed.

Lemma rest_no_icall n i w d : Forall no_icall (sched_rest n i w d).
Proof.
  unfold sched_rest. repeat (apply Forall_app; split).
  - repeat constructor.
  - destruct w; [|constructor]. apply Forall_forall. intros e He. apply in_map_iff in He. destruct He as (j & <- & _). exact I.
  - repeat constructor.
  - destruct w; [constructor|]. apply Forall_forall. intros e He. apply in_map_iff in He. destruct He as (j & <- & _). exact I.
  - apply Forall_forall. intros e He. apply in_concat in He. destruct He as (l & Hl & He).
    apply in_map_iff in Hl. destruct Hl as (j & <- & _). cbn in He.
    destruct He as [<-|[<-|[<-|[<-|[]]]]]; exact I.
Qed.

Lemma conc_calls s n i w d : n <> 0%nat ->
  gets_of (snd (crun p tv (cinit s) (conc_sched n i w d))) =
  match decide p s with DReturn _ => [] | DRequest k => [trusted_of k] end.
Proof.
  intros Hn. rewrite sched_split.
  destruct (decide p s) as [h|k] eqn:Hd.
  - destruct (phase1_ret s (seq 0 n) (cinit s) eq_refl (fun _ => eq_refl) (ex_intro _ h Hd)) as (t1 & H1 & Hg1).
    rewrite crun_app, H1.
    destruct (crun p tv (cinit s) (map (fun j => CStep j INone) (seq 0 n) ++ sched_rest n i w d)) as [c2 t2] eqn:H2.
    cbn. rewrite gets_of_app, Hg1. cbn.
    eapply run_no_get; [| |exact H2].
    + intros j k'. discriminate.
    + apply Forall_app. split; [|apply rest_no_icall].
      apply Forall_forall. intros e He. apply in_map_iff in He. destruct He as (j & <- & _). exact I.
  - destruct (phase1_req s k n Hd (cinit s) eq_refl (fun _ => eq_refl)) as (c1 & t1 & H1 & Hs1 & Hf1 & Hp1 & Hg1 & _).
    rewrite crun_app, H1.
    assert (Hfo : f_open (c_f c1) = None) by (rewrite Hf1; reflexivity).
    destruct (phase2 k n n ltac:(lia) (Nat.le_refl n) c1 Hfo Hp1) as (c2 & t2 & H2 & Hs2 & Hp2 & Hf2 & Hg2 & _).
    rewrite crun_app, H2.
    destruct (crun p tv c2 (sched_rest n i w d)) as [c3 t3] eqn:H3.
    cbn. rewrite !gets_of_app, Hg1, Hg2. cbn.
    rewrite (run_no_get p tv (sched_rest n i w d) c2 c3 t3); [reflexivity| |apply rest_no_icall|exact H3].
    intros j k'. rewrite Hp2. destruct (Nat.eqb j 0); [discriminate|].
    destruct (j <? n)%nat; discriminate.
Qed.


End phases.

(** ** answers that change nothing: every caller of the group gets the same kind of result *)

Lemma incoming_now p tv s h b : s_now (fst (incoming p tv s h b)) = s_now s.
Proof.
  unfold incoming. destruct (local_head s); [|reflexivity].
  destruct (Verify _ _ _ _ _) as [e|]; cbn; [|apply slh_now].
  destruct (ve_soft e); [|reflexivity]. destruct (snd b); cbn; rewrite ?slh_now; apply fold_slh_now.
Qed.

Lemma gossip_now p tv s h b t : s_now (fst (gossip p tv s h b t)) = s_now s.
Proof.
  unfold gossip. pose proof (incoming_now p tv s h b) as H.
  destruct (incoming p tv s h b) as [s1 ok]. cbn in H. destruct ok; cbn; [|exact H].
  destruct t as [|[th|]]; cbn; exact H.
Qed.

Section inert.
Variable p : params.
Variable tv : hdr -> hdr -> tvres.
Variable k : kind.
Variable inert : gans -> Prop.
Variable good : hres -> Prop.
Variable T : Z.
Hypothesis Hinert : forall s a b, inert a -> (T <= s_now s)%Z ->
  exists n, after_answer p tv s k a b = (s, n) /\
    match n with NErr r => good r | NKeep h => good (ROk h) | NUpdated _ => False end.
Hypothesis Hhang : inert GHang.

Definition ok_pc (v : pc) : Prop :=
  match v with
  | PIdle => True
  | PLead k' => k' = k
  | PWait k' _ => k' = k
  | PGot k' a => k' = k /\ inert a
  | _ => False
  end.

Definition inert_inv (c : cstate) : Prop :=
  (forall j, ok_pc (c_pc c j)) /\ (forall a, f_last (c_f c) = Some a -> inert a) /\ (T <= s_now (c_s c))%Z.

Definition ev_ok (e : cev) : Prop :=
  match e with CStep _ ICall => False | CStep _ (IAns a) => inert a | _ => True end.

Definition rets_good (o : list obs) : Prop := forall j r, In (ORet j r) o -> good r.

Lemma inert_upd c s' fl i v : inert_inv c -> ok_pc v -> (forall a, f_last fl = Some a -> inert a) ->
  (T <= s_now s')%Z -> inert_inv (CState s' fl (upd (c_pc c) i v)).
Proof.
  intros (H1 & H2 & H3) Hv Hl Ht. split; [|split; assumption].
  intros j. cbn. unfold upd. destruct (Nat.eqb j i); [exact Hv|apply H1].
Qed.

Lemma inert_step c e c' o : inert_inv c -> ev_ok e -> cstep p tv c e = (c', o) ->
  inert_inv c' /\ rets_good o.
Proof.
  intros Hinv He. pose proof Hinv as (H1 & H2 & H3).
  destruct e as [d|h b t|h| |i x]; cbn.
  - intros [= <- <-]. split; [|intros j r []]. split; [exact H1|]. split; [exact H2|]. cbn. lia.
  - intros [= <- <-]. split; [|intros j r []]. split; [exact H1|]. split; [exact H2|]. cbn.
    rewrite gossip_now. exact H3.
  - intros [= <- <-]. split; [|intros j r []]. split; [exact H1|]. split; [exact H2|]. cbn.
    unfold sync_part. destruct (s_pend (c_s c)); [destruct (_ && _)|]; exact H3.
  - intros [= <- <-]. split; [|intros j r []]. split; [exact H1|]. split; [exact H2|]. cbn.
    unfold sync_done. destruct (s_pend (c_s c)); [destruct (_ <? _)|]; exact H3.
  - unfold tstep, set_pc. specialize (H1 i) as Hi.
    destruct (c_pc c i) as [|k'|k'|k' g|k' a|net|net|] eqn:Hpc; cbn in Hi; try contradiction;
      destruct x as [| |a'| |b|t]; cbn in He; try contradiction;
      try (intros [= <- <-]; split; [exact Hinv|intros j r []]).
    + (* PLead, IAns *)
      intros [= <- <-]. split; [|intros j r [H|[]]; discriminate].
      apply inert_upd; [exact Hinv|cbn; split; [exact Hi|exact He]| |exact H3]. cbn. intros a [= <-]. exact He.
    + (* PWait, INone *)
      destruct (match f_open (c_f c) with Some g' => Nat.eqb g g' | None => false end);
        [intros [= <- <-]; split; [exact Hinv|intros j r []]|].
      case_eq (f_last (c_f c)); [intros a Hl|intros Hl]; intros [= <- <-]; [|split; [exact Hinv|intros j r []]].
      split; [|intros j r [H|[]]; discriminate].
      apply inert_upd; [exact Hinv|cbn; split; [exact Hi|apply H2; exact Hl]|exact H2|exact H3].
    + (* PWait, ICtx *)
      intros [= <- <-]. split; [|intros j r [H|[]]; discriminate].
      apply inert_upd; [exact Hinv|cbn; split; [exact Hi|exact Hhang]|exact H2|exact H3].
    + (* PGot, IBif *)
      destruct Hi as [-> Ha]. destruct (Hinert (c_s c) a b Ha H3) as (n & -> & Hn).
      destruct n as [r|h|net]; cbn; [| |contradiction]; intros [= <- <-].
      * split; [apply inert_upd; [exact Hinv|exact I|exact H2|exact H3]|].
        intros j r' [H|[]]. injection H as _ <-. exact Hn.
      * split; [apply inert_upd; [exact Hinv|exact I|exact H2|exact H3]|].
        intros j r' [H|[]]. injection H as _ <-. exact Hn.
Qed.

Lemma inert_run l : forall c c' tr, inert_inv c -> Forall ev_ok l -> crun p tv c l = (c', tr) ->
  inert_inv c' /\ rets_good tr.
Proof.
  induction l as [|e l IH]; intros c c' tr Hinv Hl; cbn.
  - intros [= <- <-]. split; [assumption|intros j r []].
  - destruct (cstep p tv c e) as [c1 o1] eqn:Hs. destruct (crun p tv c1 l) as [c2 o2] eqn:Hr.
    intros [= <- <-]. inversion Hl as [|? ? He Hl']; subst.
    destruct (inert_step _ _ _ _ Hinv He Hs) as [Hi1 Hg1].
    destruct (IH _ _ _ Hi1 Hl' Hr) as [Hi2 Hg2]. split; [assumption|].
    intros j r Hin. apply in_app_or in Hin. destruct Hin; eauto.
Qed.

End inert.

Section groups.
Variable p : params.
Variable tv : hdr -> hdr -> tvres.

(** answers to a request verified against [sbj] after which networkHead keeps [sbj] *)
Definition keeps (sbj : hdr) (a : gans) : Prop :=
  match a with
  | GFail | GHang => True
  | GOk nh => h_nil nh = false /\ h_height nh <= h_height sbj
  | GSoft _ => False
  end.

(** answers to an initialisation request that cannot initialise, at any time >= T *)
Definition unfresh (T : Z) (a : gans) : Prop :=
  match a with GOk nh => h_nil nh = true \/ is_expired p T nh = true | _ => True end.

Definition init_err (r : hres) : Prop :=
  match r with RGetter | RCtx | RExpired | RPanic => True | _ => False end.

Lemma keeps_inert sbj s a b : keeps sbj a ->
  exists n, after_answer p tv s (KStale sbj) a b = (s, n) /\
    match n with NErr r => r = ROk sbj | NKeep h => ROk h = ROk sbj | NUpdated _ => False end.
Proof.
  destruct a as [nh|nh| |]; cbn; try contradiction.
  - intros [-> Hle]. apply N.leb_le in Hle. rewrite Hle. eexists. split; reflexivity.
  - intros _. eexists. split; reflexivity.
  - intros _. eexists. split; reflexivity.
Qed.

Lemma expired_later T now h : (T <= now)%Z -> is_expired p T h = true -> is_expired p now h = true.
Proof. unfold is_expired. destruct (h_nil h); [discriminate|]. intros. lia. Qed.

Lemma unfresh_inert T s a b : unfresh T a -> (T <= s_now s)%Z ->
  exists n, after_answer p tv s KInit a b = (s, n) /\
    match n with NErr r => init_err r | NKeep h => init_err (ROk h) | NUpdated _ => False end.
Proof.
  intros Hu Ht. destruct a as [nh|nh| |]; cbn; try (eexists; split; [reflexivity|exact I]).
  destruct (h_nil nh) eqn:Hn; [eexists; split; [reflexivity|exact I]|].
  destruct Hu as [Hu|Hu]; [congruence|]. rewrite (expired_later _ _ _ Ht Hu).
  eexists; split; [reflexivity|exact I].
Qed.

Lemma rest_ev_ok (inert : gans -> Prop) n i w d : inert (i_ans i) ->
  Forall (ev_ok inert) (tl (sched_rest n i w d)).
Proof.
  intros Ha. unfold sched_rest. cbn [app tl].
  apply Forall_app; split; [|constructor; [exact Ha|apply Forall_app; split]].
  - destruct w; [|constructor]. apply Forall_forall. intros e He. apply in_map_iff in He. destruct He as (j & <- & _). exact I.
  - destruct w; [constructor|]. apply Forall_forall. intros e He. apply in_map_iff in He. destruct He as (j & <- & _). exact I.
  - apply Forall_forall. intros e He. apply in_concat in He. destruct He as (l & Hl & He).
    apply in_map_iff in Hl. destruct Hl as (j & <- & _). cbn in He.
    destruct He as [<-|[<-|[<-|[<-|[]]]]]; exact I.
Qed.

(** the n callers of the canonical schedule all get a [good] result when the answer is inert *)
Lemma conc_rets_good s n i w d k (inert : gans -> Prop) (good : hres -> Prop) :
  decide p s = DRequest k ->
  (forall s' a b, inert a -> (s_now s + Z.of_N d <= s_now s')%Z ->
     exists m, after_answer p tv s' k a b = (s', m) /\
       match m with NErr r => good r | NKeep h => good (ROk h) | NUpdated _ => False end) ->
  inert GHang -> inert (i_ans i) -> n <> 0%nat ->
  forall r, In r (rets_of (snd (crun p tv (cinit s) (conc_sched n i w d)))) -> good r.
Proof.
  intros Hd Hin Hh Ha Hn r. rewrite sched_split.
  destruct (phase1_req p tv s k n Hd (cinit s) eq_refl (fun _ => eq_refl)) as (c1 & t1 & H1 & Hs1 & Hf1 & Hp1 & _ & Hr1).
  rewrite crun_app, H1.
  assert (Hfo : f_open (c_f c1) = None) by (rewrite Hf1; reflexivity).
  destruct (phase2 p tv k n n ltac:(lia) (Nat.le_refl n) c1 Hfo Hp1) as (c2 & t2 & H2 & Hs2 & Hp2 & Hf2 & _ & Hr2 & Hl2).
  rewrite crun_app, H2.
  assert (Hrest : sched_rest n i w d = CTick d :: tl (sched_rest n i w d)) by reflexivity.
  rewrite Hrest. cbn [crun cstep].
  destruct (crun p tv (set_s c2 (tick (c_s c2) (Z.of_N d))) (tl (sched_rest n i w d))) as [c3 t3] eqn:H3.
  cbn [snd]. rewrite !rets_of_app, Hr1, Hr2. cbn [app]. intros Hr.
  assert (Hinv : inert_inv k inert (s_now s + Z.of_N d) (set_s c2 (tick (c_s c2) (Z.of_N d)))).
  { split; [|split].
    - intros j. cbn. rewrite Hp2. destruct (Nat.eqb j 0); [reflexivity|].
      destruct (j <? n)%nat; [reflexivity|exact I].
    - cbn. rewrite Hl2, Hf1. discriminate.
    - cbn. rewrite Hs2, Hs1. lia. }
  destruct (inert_run p tv k inert good (s_now s + Z.of_N d) Hin Hh _ _ _ _ Hinv (rest_ev_ok inert n i w d Ha) H3) as [_ Hg].
  destruct (rets_of_in _ _ Hr) as [b Hb]. eapply Hg. exact Hb.
Qed.

End groups.

(** ** wf (pending head above a non-empty store) is an invariant of sequential histories *)
Section wfinv.
Variable p : params.
Variable tv : hdr -> hdr -> tvres.

Definition tail_sane (s : sstate) (t : tans) : Prop :=
  match t with
  | TOk (Some th) => s_store s = None \/ h_height th <= hgt (s_store s)
  | _ => True
  end.

(** the oracles of one event: bifurcations promote no intermediate header, and
    subjectiveTail appends only onto an empty store or not above the store head *)
Definition ev_sane (s : sstate) (e : sev) : Prop :=
  match e with
  | SvGossip h b t => fst b = [] /\ tail_sane s t
  | SvHead i => fst (i_b1 i) = [] /\ fst (i_b2 i) = [] /\ tail_sane s (i_tail i)
  | _ => True
  end.

Fixpoint sane (s : sstate) (l : list sev) : Prop :=
  match l with
  | [] => True
  | e :: r => ev_sane s e /\ sane (fst (sstep p tv s e)) r
  end.

Lemma slh_again s h : wf s -> L s < h_height h ->
  set_local_head (set_local_head s h) h = set_local_head s h.
Proof.
  intros Hwf Hlt. rewrite L_max in Hlt. unfold wf, set_local_head in *.
  destruct (store_append_cases (s_store s) h) as [He|[He Hc]]; rewrite He.
  - destruct (s_store s) as [sh|] eqn:Hs; [|unfold store_append in He; discriminate].
    cbn in *. destruct (s_pend s) as [pd|]; cbn in *.
    + destruct (N.leb_spec (h_height h) (h_height sh)); [lia|]. cbn. rewrite He.
      destruct (N.leb_spec (h_height h) (h_height sh)); [lia|].
      destruct (N.leb_spec (h_height h) (h_height pd)); [lia|]. cbn. rewrite N.leb_refl. reflexivity.
    + destruct (N.leb_spec (h_height h) (h_height sh)); [lia|]. cbn. rewrite He.
      destruct (N.leb_spec (h_height h) (h_height sh)); [lia|]. cbn. rewrite N.leb_refl. reflexivity.
  - rewrite N.leb_refl. cbn [s_store s_pend s_now].
    assert (Ha : store_append (Some h) h = Some h).
    { apply store_append_same. }
    rewrite Ha, N.leb_refl. reflexivity.
Qed.

Lemma slh_store s h : s_store s <> None -> s_store (set_local_head s h) <> None /\
  hgt (s_store s) <= hgt (s_store (set_local_head s h)).
Proof.
  intros Hn. unfold set_local_head.
  pose proof (store_append_mono (s_store s) h) as Hm.
  destruct (store_append_some (s_store s) h) as [x Hx]. rewrite Hx in *.
  destruct (_ <=? _); cbn; split; try discriminate; exact Hm.
Qed.

Lemma incoming_shape s h b s1 ok : fst b = [] -> incoming p tv s h b = (s1, ok) ->
  (ok = false /\ s1 = s) \/
  (ok = true /\ exists sbj, local_head s = Some sbj /\ h_height sbj < h_height h /\ s1 = set_local_head s h).
Proof.
  intros Hb. unfold incoming. destruct (local_head s) as [sbj|] eqn:Hl; [|intros [= <- <-]; auto].
  destruct (Verify (s_now s) (p_drift p) tv sbj h) as [e|] eqn:Hv.
  - destruct (ve_soft e) eqn:Hs; [|intros [= <- <-]; auto].
    rewrite Hb. cbn. destruct (snd b); intros [= <- <-]; [|auto].
    right. split; [reflexivity|]. exists sbj. split; [reflexivity|]. split; [|reflexivity].
    apply (soft_iff (s_now s) (p_drift p) tv sbj h e Hv) in Hs. destruct Hs as [(_ & _ & _ & Hlt & _) _]. exact Hlt.
  - intros [= <- <-]. right. split; [reflexivity|]. exists sbj. split; [reflexivity|]. split; [|reflexivity].
    apply accept_iff in Hv. destruct Hv as [(_ & _ & _ & Hlt & _) _]. exact Hlt.
Qed.

Lemma incoming_wf s h b : wf s -> fst b = [] -> wf (fst (incoming p tv s h b)).
Proof.
  intros Hwf Hb. destruct (incoming p tv s h b) as [s1 ok] eqn:Hi.
  destruct (incoming_shape _ _ _ _ _ Hb Hi) as [[_ ->]|(_ & sbj & Hl & Hlt & ->)]; [exact Hwf|].
  cbn. apply slh_above; [exact Hwf|]. unfold L. rewrite Hl. exact Hlt.
Qed.

Lemma wf_store s : wf s -> local_head s <> None -> s_store s <> None.
Proof.
  unfold wf, local_head. destruct (s_pend s); [intros [H _] _; exact H|auto].
Qed.

Lemma tail_apply_wf s t : wf s -> tail_sane s (TOk t) -> wf (tail_apply s t).
Proof.
  intros Hwf Ht. destruct t as [th|]; [|exact Hwf]. cbn in Ht. unfold wf in *. cbn [tail_apply s_pend s_store].
  destruct (s_store s) as [sh|] eqn:Hs.
  - destruct Ht as [Hn|Hle]; [discriminate|]. cbn in Hle.
    assert (He : store_append (Some sh) th = Some sh).
    { unfold store_append. destruct (N.leb_spec (h_height sh) (h_height th)); [|reflexivity].
      destruct (same_head sh th); [reflexivity|].
      destruct (N.eqb_spec (h_height th) (wrap64 (h_height sh + 1))) as [E|]; [|reflexivity].
      apply wrap_adj in E; [lia|assumption]. }
    rewrite He. exact Hwf.
  - destruct (s_pend s) as [pd|]; [destruct Hwf as [H _]; contradiction|exact I].
Qed.

Lemma tail_sane_later s s1 t : tail_sane s t -> s_store s <> None ->
  hgt (s_store s) <= hgt (s_store s1) -> s_store s1 <> None -> tail_sane s1 t.
Proof.
  destruct t as [|[th|]]; cbn; auto. intros [Hn|Hle] Hs Hm Hs1; [contradiction|]. right. lia.
Qed.

Lemma gossip_wf s h b t : wf s -> fst b = [] -> tail_sane s t -> wf (fst (gossip p tv s h b t)).
Proof.
  intros Hwf Hb Ht. unfold gossip. destruct (incoming p tv s h b) as [s1 ok] eqn:Hi.
  pose proof (incoming_wf s h b Hwf Hb) as Hw1. rewrite Hi in Hw1. cbn in Hw1.
  destruct (incoming_shape _ _ _ _ _ Hb Hi) as [[-> ->]|(-> & sbj & Hl & Hlt & ->)]; [exact Hwf|].
  cbn. destruct t as [|th]; [exact Hw1|]. apply tail_apply_wf; [exact Hw1|].
  assert (Hs : s_store s <> None) by (apply wf_store; [exact Hwf|congruence]).
  destruct (slh_store s h Hs) as [Hs1 Hm]. eapply tail_sane_later; eassumption.
Qed.

Lemma after_answer_wf s k a b s1 n : wf s -> fst b = [] ->
  (forall sbj, k = KStale sbj -> local_head s = Some sbj) ->
  after_answer p tv s k a b = (s1, n) ->
  wf s1 /\ (s_store s <> None -> s_store s1 <> None /\ hgt (s_store s) <= hgt (s_store s1)).
Proof.
  intros Hwf Hb Hk. unfold after_answer. destruct k as [|sbj].
  - destruct a as [nh|nh| |]; try (intros [= <- <-]; split; [exact Hwf|intros; split; [assumption|lia]]).
    destruct (h_nil nh); [intros [= <- <-]; split; [exact Hwf|intros; split; [assumption|lia]]|].
    destruct (is_expired _ _ _); intros [= <- <-]; (split; [exact Hwf|intros; split; [assumption|lia]]).
  - specialize (Hk sbj eq_refl).
    assert (HL : L s = h_height sbj) by (unfold L; rewrite Hk; reflexivity).
    destruct a as [nh|nh| |]; try (intros [= <- <-]; split; [exact Hwf|intros; split; [assumption|lia]]).
    + destruct (h_nil nh); [intros [= <- <-]; split; [exact Hwf|intros; split; [assumption|lia]]|].
      destruct (N.leb_spec (h_height nh) (h_height sbj)); intros [= <- <-].
      * split; [exact Hwf|intros; split; [assumption|lia]].
      * split; [apply slh_above; [exact Hwf|lia]|]. intros Hs. apply slh_store. exact Hs.
    + destruct (h_nil nh) eqn:Hnil; [intros [= <- <-]; split; [exact Hwf|intros; split; [assumption|lia]]|].
      destruct (incoming p tv s nh b) as [s2 ok] eqn:Hi.
      destruct (incoming_shape _ _ _ _ _ Hb Hi) as [[-> ->]|(-> & sbj' & Hl & Hlt & ->)].
      * intros [= <- <-]. split; [exact Hwf|intros; split; [assumption|lia]].
      * rewrite Hk in Hl. injection Hl as <-.
        destruct (N.leb_spec (h_height nh) (h_height sbj)); [lia|]. intros [= <- <-].
        rewrite slh_again by (try assumption; lia).
        split; [apply slh_above; [exact Hwf|lia]|]. intros Hs. apply slh_store. exact Hs.
Qed.

Lemma head_seq_wf s i : wf s -> ev_sane s (SvHead i) -> wf (o_st (head_seq p tv s i)).
Proof.
  intros Hwf (Hb1 & Hb2 & Ht). unfold head_seq.
  destruct (decide p s) as [h|k] eqn:Hd; [exact Hwf|].
  set (s0 := match i_ans i with GHang => tick s (hang_time p k (i_cto i)) | _ => s end).
  assert (Hwf0 : wf s0) by (subst s0; destruct (i_ans i); exact Hwf).
  assert (Hst0 : s_store s0 = s_store s) by (subst s0; destruct (i_ans i); reflexivity).
  assert (Hl0 : local_head s0 = local_head s) by (subst s0; destruct (i_ans i); reflexivity).
  assert (Hk : forall sbj, k = KStale sbj -> local_head s0 = Some sbj).
  { intros sbj ->. rewrite Hl0. apply (decide_stale p). exact Hd. }
  destruct (after_answer p tv s0 k (i_ans i) (i_b1 i)) as [s1 n] eqn:Ha.
  destruct (after_answer_wf _ _ _ _ _ _ Hwf0 Hb1 Hk Ha) as [Hw1 Hst1].
  destruct n as [r|h|net]; cbn; try exact Hw1.
  unfold finish. destruct (i_tail i) as [|th] eqn:Hti; cbn; [exact Hw1|].
  destruct (incoming p tv (tail_apply s1 th) net (i_b2 i)) as [s3 ok] eqn:Hi. cbn.
  assert (Hw2 : wf (tail_apply s1 th)).
  { apply tail_apply_wf; [exact Hw1|].
    destruct th as [th|]; [|exact I]. cbn in Ht. cbn.
    destruct (s_store s) as [sh|] eqn:Hs.
    - destruct Ht as [Hn|Hle]; [discriminate|].
      destruct Hst1 as [Hn1 Hm1]; [rewrite Hst0; discriminate|]. right. rewrite Hst0 in Hm1. cbn in *. lia.
    - (* empty store: only the initialisation path gets here, and it does not touch the state *)
      destruct k as [|sbj].
      + unfold after_answer in Ha. left.
        destruct (i_ans i) as [nh|nh| |]; try discriminate.
        destruct (h_nil nh); [discriminate|]. destruct (is_expired _ _ _); [discriminate|].
        injection Ha as <- _. rewrite Hst0. reflexivity.
      + exfalso. specialize (Hk sbj eq_refl). rewrite Hl0 in Hk.
        apply (wf_store s Hwf); [congruence|assumption]. }
  pose proof (incoming_wf _ net (i_b2 i) Hw2 Hb2) as Hw3. rewrite Hi in Hw3. exact Hw3.
Qed.

Lemma sync_part_wf s h : wf s -> wf (sync_part s h).
Proof.
  unfold sync_part, wf. intros Hwf. destruct (s_pend s) as [pd|] eqn:Hp; [|rewrite ?Hp; exact I].
  destruct (N.ltb_spec (hgt (s_store s)) (h_height h)); cbn [andb]; [|rewrite ?Hp; exact Hwf].
  destruct (N.ltb_spec (h_height h) (h_height pd)); cbn; rewrite ?Hp; [|exact Hwf].
  split; [discriminate|]. cbn. lia.
Qed.

Lemma sync_done_wf s : wf s -> wf (sync_done s).
Proof.
  unfold sync_done, wf. intros Hwf. destruct (s_pend s) as [pd|] eqn:Hp; [|rewrite ?Hp; exact I].
  destruct (_ <? _); cbn; exact I.
Qed.

Lemma sstep_wf s e : wf s -> ev_sane s e -> wf (fst (sstep p tv s e)).
Proof.
  intros Hwf He. destruct e as [d|h b t|h| |i]; cbn.
  - exact Hwf.
  - destruct He as [Hb Ht]. apply gossip_wf; assumption.
  - apply sync_part_wf. exact Hwf.
  - apply sync_done_wf. exact Hwf.
  - apply head_seq_wf; assumption.
Qed.

(** wf holds in every state a sane sequential history reaches from a wf state
    (in particular from a state without pending head) *)
Theorem wf_srun l : forall s, wf s -> sane s l -> wf (fst (srun p tv s l)).
Proof.
  induction l as [|e l IH]; intros s Hwf Hs; cbn; [exact Hwf|].
  destruct Hs as [He Hs]. pose proof (sstep_wf s e Hwf He) as Hw1.
  destruct (sstep p tv s e) as [s1 o1]. cbn in *. specialize (IH s1 Hw1 Hs).
  destruct (srun p tv s1 l) as [s2 o2]. exact IH.
Qed.

Lemma wf_no_pending st now : wf (SState st None now).
Proof. exact I. Qed.

End wfinv.


(** ** groups of overlapping callers see the result of their single request *)
Section groupthm.
Variable p : params.
Variable tv : hdr -> hdr -> tvres.

Theorem group_keeps s n i w d sbj : decide p s = DRequest (KStale sbj) -> keeps sbj (i_ans i) -> n <> 0%nat ->
  forall r, In r (rets_of (snd (crun p tv (cinit s) (conc_sched n i w d)))) -> r = ROk sbj.
Proof.
  intros Hd Hk Hn. apply (conc_rets_good p tv s n i w d (KStale sbj) (keeps sbj) (fun r => r = ROk sbj) Hd); auto.
  - intros s' a b Ha _. apply (keeps_inert p tv sbj s' a b Ha).
  - exact I.
Qed.

Theorem group_init_fails s n i w d : decide p s = DRequest KInit ->
  unfresh p (s_now s + Z.of_N d) (i_ans i) -> n <> 0%nat ->
  forall r, In r (rets_of (snd (crun p tv (cinit s) (conc_sched n i w d)))) -> init_err r.
Proof.
  intros Hd Hu Hn. apply (conc_rets_good p tv s n i w d KInit (unfresh p (s_now s + Z.of_N d)) init_err Hd); auto.
  - intros s' a b Ha Ht. apply (unfresh_inert p tv _ s' a b Ha Ht).
  - exact I.
Qed.

End groupthm.

(** ** Part 3: the two halves of setLocalHead *)

Lemma slh_split s h :
  set_local_head s h = let '(s1, need) := slh_check s h in if need then slh_add s1 h else s1.
Proof.
  unfold set_local_head, slh_check, slh_add. cbn.
  destruct (store_append (s_store s) h) as [sh|]; cbn; [|reflexivity].
  destruct (h_height h <=? h_height sh); reflexivity.
Qed.

Section park.
Variable p : params.
Variable tv : hdr -> hdr -> tvres.

(** a schedule without parking is a schedule of the thread machine *)
Lemma prun_atomic l : forall c,
  prun p tv (PState c None []) (map PEv l) =
  let '(c', tr) := crun p tv c l in (PState c' None [], tr).
Proof.
  induction l as [|e l IH]; intros c; cbn [map prun crun]; [reflexivity|].
  assert (Hb : blocked (PState c None []) e = false) by (unfold blocked; destruct e; reflexivity).
  unfold pstep. rewrite Hb. cbn [p_c p_g p_t].
  destruct (cstep p tv c e) as [c1 o1]. rewrite IH. destruct (crun p tv c1 l) as [c2 o2]. reflexivity.
Qed.

(** parking and resuming at once is the atomic gossip (direct accept, no tail change) *)
Lemma gossip_park_resume c h sbj : local_head (c_s c) = Some sbj ->
  Verify (s_now (c_s c)) (p_drift p) tv sbj h = None ->
  fst (prun p tv (PState c None []) [PGossipA h; PGossipB (TOk None)]) =
  PState (set_s c (fst (gossip p tv (c_s c) h ([], false) (TOk None)))) None [].
Proof.
  intros Hl Hv. cbn [prun pstep p_c p_g p_t]. rewrite Hl, Hv.
  unfold gossip, incoming. rewrite Hl, Hv. cbn [fst snd tail_apply].
  rewrite (slh_split (c_s c) h). destruct (slh_check (c_s c) h) as [s1 need].
  destruct need; cbn; reflexivity.
Qed.

End park.

(** *** monotonicity across split setLocalHead calls (since /repo dd38a4c the local
    head is the higher of the store head and the pending head, and each half of
    setLocalHead only raises one of the two) *)
Section parkmono.
Variable p : params.
Variable tv : hdr -> hdr -> tvres.

Lemma slh_check_mono s h : L s <= L (fst (slh_check s h)).
Proof. unfold slh_check. cbn. rewrite !L_max. cbn. pose proof (store_append_mono (s_store s) h). lia. Qed.

Lemma slh_add_mono s h : L s <= L (slh_add s h).
Proof. unfold slh_add. rewrite !L_max. cbn. pose proof (pend_add_mono (s_pend s) h). lia. Qed.

Lemma spec_upper c c' o i : sbj_below c -> step_spec c c' o i ->
  sbj_below c' /\ L (c_s c) <= L (c_s c') /\ rets_le o (L (c_s c')).
Proof.
  intros HI (S1 & S2 & S3 & S4). split; [|split; [exact S1|]].
  - intros j sbj Hj. destruct (Nat.eq_dec j i) as [->|Hne].
    + destruct (S3 _ Hj) as [Ho|[_ Ho]]; [specialize (HI _ _ Ho)|]; lia.
    + rewrite (S2 _ Hne) in Hj. specialize (HI _ _ Hj). lia.
  - intros j v Hin. destruct (S4 _ _ Hin) as [-> [Hv|Hv]]; [lia|]. specialize (HI _ _ Hv). lia.
Qed.

Lemma spec_lower lo b c c' o i : sbj_above lo b c -> step_spec c c' o i ->
  sbj_above lo b c' /\ rets_ge b o lo.
Proof.
  intros [H1 H2] (S1 & S2 & S3 & S4). split; [split; [lia|]|].
  - intros sbj Hj. destruct (Nat.eq_dec b i) as [->|Hne].
    + destruct (S3 _ Hj) as [Ho|[_ Ho]]; [apply H2; assumption|lia].
    + rewrite (S2 _ Hne) in Hj. apply H2; assumption.
  - intros v Hin. destruct (S4 _ _ Hin) as [<- [Hv|Hv]]; [lia|]. apply H2; assumption.
Qed.

Lemma pstep_spec ps ev ps' o : pstep p tv ps ev = (ps', o) ->
  exists i, step_spec (p_c ps) (p_c ps') o i.
Proof.
  unfold pstep. destruct ev as [e|h|t|i|i].
  - destruct (blocked ps e); [intros [= <- <-]; exists 0%nat; apply spec_stutter|].
    destruct (cstep p tv (p_c ps) e) as [c' o'] eqn:Hs. intros [= <- <-]. cbn. eapply cstep_spec; eassumption.
  - destruct (p_g ps); [intros [= <- <-]; exists 0%nat; apply spec_stutter|].
    destruct (local_head (c_s (p_c ps))) as [sbj|]; [|intros [= <- <-]; exists 0%nat; apply spec_stutter].
    destruct (Verify _ _ _ _ _); [intros [= <- <-]; exists 0%nat; apply spec_stutter|].
    pose proof (slh_check_mono (c_s (p_c ps)) h) as Hm.
    destruct (slh_check (c_s (p_c ps)) h) as [s1 need]. intros [= <- <-]. exists 0%nat. cbn.
    apply spec_global. exact Hm.
  - destruct (p_g ps) as [h|]; [|intros [= <- <-]; exists 0%nat; apply spec_stutter].
    intros [= <- <-]. exists 0%nat. cbn. apply spec_global.
    pose proof (slh_add_mono (c_s (p_c ps)) h) as Hm.
    destruct t as [|th]; [exact Hm|]. etransitivity; [exact Hm|apply tail_apply_mono].
  - destruct (c_pc (p_c ps) i) as [|k|k|k g|k a|net|net|] eqn:Hpc; try (intros [= <- <-]; exists i; apply spec_stutter).
    destruct k as [|sbj]; [intros [= <- <-]; exists i; apply spec_stutter|].
    destruct a as [nh|nh| |]; try (intros [= <- <-]; exists i; apply spec_stutter).
    destruct (_ || _); [intros [= <- <-]; exists i; apply spec_stutter|].
    pose proof (slh_check_mono (c_s (p_c ps)) nh) as Hm.
    destruct (slh_check (c_s (p_c ps)) nh) as [s1 need]. intros [= <- <-]. exists i. cbn.
    apply spec_of; [exact Hm|discriminate|intros j v []].
  - destruct (find _ _) as [[j nh]|]; [|intros [= <- <-]; exists i; apply spec_stutter].
    intros [= <- <-]. exists 0%nat. cbn. apply spec_global. apply slh_add_mono.
Qed.

Lemma prun_upper l : forall ps ps' tr, sbj_below (p_c ps) -> prun p tv ps l = (ps', tr) ->
  sbj_below (p_c ps') /\ L (c_s (p_c ps)) <= L (c_s (p_c ps')) /\ rets_le tr (L (c_s (p_c ps'))).
Proof.
  induction l as [|e l IH]; intros ps ps' tr HI; cbn.
  - intros [= <- <-]. split; [assumption|]. split; [lia|]. intros j v [].
  - destruct (pstep p tv ps e) as [p1 o1] eqn:Hs.
    destruct (prun p tv p1 l) as [p2 o2] eqn:Hr. intros [= <- <-].
    destruct (pstep_spec _ _ _ _ Hs) as [i Hsp].
    destruct (spec_upper _ _ _ _ HI Hsp) as (HI1 & Hm1 & Hr1).
    destruct (IH _ _ _ HI1 Hr) as (HI2 & Hm2 & Hr2).
    split; [assumption|]. split; [lia|].
    intros j v Hin. apply in_app_or in Hin. destruct Hin as [Hin|Hin]; [specialize (Hr1 _ _ Hin); lia|eauto].
Qed.

Lemma prun_lower lo b l : forall ps ps' tr, sbj_above lo b (p_c ps) -> prun p tv ps l = (ps', tr) ->
  sbj_above lo b (p_c ps') /\ rets_ge b tr lo.
Proof.
  induction l as [|e l IH]; intros ps ps' tr HJ; cbn.
  - intros [= <- <-]. split; [assumption|]. intros v [].
  - destruct (pstep p tv ps e) as [p1 o1] eqn:Hs.
    destruct (prun p tv p1 l) as [p2 o2] eqn:Hr. intros [= <- <-].
    destruct (pstep_spec _ _ _ _ Hs) as [i Hsp].
    destruct (spec_lower _ _ _ _ _ _ HJ Hsp) as (HJ1 & Hr1).
    destruct (IH _ _ _ HJ1 Hr) as (HJ2 & Hr2).
    split; [assumption|]. intros v Hin. apply in_app_or in Hin. destruct Hin; eauto.
Qed.

(** Monotonicity in real-time order, for every schedule INCLUDING those that
    separate the two halves of setLocalHead. *)
Theorem monotone_full s l1 l2 p1 t1 p2 t2 a b va vb :
  prun p tv (pinit s) l1 = (p1, t1) -> prun p tv p1 l2 = (p2, t2) ->
  In (ORet a (ROk va)) t1 -> c_pc (p_c p1) b = PIdle -> In (ORet b (ROk vb)) t2 ->
  h_height va <= h_height vb.
Proof.
  intros H1 H2 Ha Hb Hvb.
  destruct (prun_upper _ (pinit s) _ _ (cinit_below s) H1) as (_ & _ & Hu).
  assert (HJ : sbj_above (L (c_s (p_c p1))) b (p_c p1)).
  { split; [lia|]. rewrite Hb. discriminate. }
  destruct (prun_lower _ _ _ _ _ _ HJ H2) as (_ & Hl).
  specialize (Hu _ _ Ha). specialize (Hl _ Hvb). lia.
Qed.

Lemma prun_app l1 l2 ps :
  prun p tv ps (l1 ++ l2) =
  let '(q1, t1) := prun p tv ps l1 in let '(q2, t2) := prun p tv q1 l2 in (q2, t1 ++ t2).
Proof.
  revert ps. induction l1 as [|e l1 IH]; intros ps; cbn.
  - destruct (prun p tv ps l2); reflexivity.
  - destruct (pstep p tv ps e) as [q1 o1]. rewrite IH.
    destruct (prun p tv q1 l1) as [q2 o2]. destruct (prun p tv q2 l2) as [q3 o3].
    rewrite app_assoc. reflexivity.
Qed.

(** threads whose steps do not occur in a schedule keep their program counter *)
Definition touches (j : nat) (e : pev) : Prop :=
  match e with PEv (CStep i _) | PHeadA i | PHeadB i => i = j | _ => False end.

Lemma puntouched j l : forall ps ps' tr, prun p tv ps l = (ps', tr) ->
  (forall e, In e l -> ~ touches j e) -> c_pc (p_c ps') j = c_pc (p_c ps) j.
Proof.
  induction l as [|e l IH]; intros ps ps' tr; cbn; [intros [= <- <-] _; reflexivity|].
  destruct (pstep p tv ps e) as [q1 o1] eqn:Hs. destruct (prun p tv q1 l) as [q2 o2] eqn:Hr.
  intros [= <- <-] Hn. rewrite (IH _ _ _ Hr) by (intros x Hx; apply Hn; right; exact Hx).
  destruct (pstep_spec _ _ _ _ Hs) as [i (_ & S2 & _)].
  specialize (Hn e (or_introl eq_refl)).
  (* the thread a step may change is the one it names *)
  revert Hs. unfold pstep. destruct e as [e|h|t|i'|i']; cbn in Hn.
  - destruct (blocked ps e); [intros [= <- <-]; reflexivity|].
    destruct (cstep p tv (p_c ps) e) as [c' o'] eqn:Hc. intros [= <- <-]. cbn.
    destruct e as [d|h b t|h| |i' x]; cbn in Hc; try (injection Hc as <- <-; reflexivity).
    eapply tstep_others; [exact Hc|]. intros ->. apply Hn. reflexivity.
  - destruct (p_g ps); [intros [= <- <-]; reflexivity|].
    destruct (local_head _); [|intros [= <- <-]; reflexivity].
    destruct (Verify _ _ _ _ _); [intros [= <- <-]; reflexivity|].
    destruct (slh_check _ _). intros [= <- <-]. reflexivity.
  - destruct (p_g ps); intros [= <- <-]; reflexivity.
  - destruct (c_pc (p_c ps) i') as [|k|k|k g|k a|net|net|]; try (intros [= <- <-]; reflexivity).
    destruct k; [intros [= <- <-]; reflexivity|]. destruct a; try (intros [= <- <-]; reflexivity).
    destruct (_ || _); [intros [= <- <-]; reflexivity|]. destruct (slh_check _ _). intros [= <- <-]. cbn.
    apply upd_other. intros ->. apply Hn. reflexivity.
  - destruct (find _ _) as [[j' nh]|]; intros [= <- <-]; reflexivity.
Qed.

End parkmono.

(** the schedule that used to refute monotonicity (finding F19, fixed by /repo dd38a4c):
    a gossip head 19 parks between the two halves of setLocalHead; caller 1 learns 20;
    the sync loop stores up to 20; caller 2 returns 20; the parked call resumes and adds
    19 to pending; caller 3 now also returns 20 *)
Definition rf_p : params := Params 1000000 10 0 10 2.
Definition rf_h (n : N) : hdr := Hdr false 1 n 900 n (n - 1) true.
Definition rf_tv (t u : hdr) : tvres := TVOk.
Definition rf_s : sstate := SState (Some (rf_h 17)) None 1000.
Definition rf_nob : bifres := ([], false).
Definition rf_sched1 : list pev :=
  [PGossipA (rf_h 19);
   PEv (CStep 1 ICall); PEv (CStep 1 INone); PEv (CStep 1 (IAns (GOk (rf_h 20)))); PEv (CStep 1 (IBif rf_nob));
   PEv CSyncDone;
   PEv (CStep 2 ICall); PEv (CStep 2 INone); PEv (CStep 2 (IAns GFail)); PEv (CStep 2 (IBif rf_nob))].
Definition rf_sched2 : list pev :=
  [PGossipB (TOk None);
   PEv (CStep 3 ICall); PEv (CStep 3 INone); PEv (CStep 3 (IAns GFail)); PEv (CStep 3 (IBif rf_nob))].

(** ** localHead is two reads: the pending head first, the store head second *)

Definition SH (s : sstate) : N := hgt (s_store s).

(** localHead's result when the pending head was read in one state and the store head in another *)
Definition read2 (pend st : option hdr) : option hdr := local_head (SState st pend 0).

Lemma read2_height pend st : hgt (read2 pend st) = N.max (hgt st) (hgt pend).
Proof. unfold read2. change (hgt (local_head (SState st pend 0%Z))) with (L (SState st pend 0%Z)). apply L_max. Qed.

Lemma slh_SH s h : SH s <= SH (set_local_head s h).
Proof. apply slh_parts. Qed.

Lemma fold_slh_SH l s : SH s <= SH (fold_left set_local_head l s).
Proof. revert s. induction l as [|h l IH]; intros s; cbn; [lia|]. etransitivity; [apply slh_SH|apply IH]. Qed.

Lemma tail_apply_SH s t : SH s <= SH (tail_apply s t).
Proof. destruct t as [th|]; cbn; [|lia]. unfold SH. cbn. apply store_append_mono. Qed.

Lemma sync_part_SH s h : SH s <= SH (sync_part s h).
Proof.
  unfold sync_part, SH. destruct (s_pend s); [|lia].
  destruct (N.ltb_spec (hgt (s_store s)) (h_height h)); cbn [andb]; [|lia]. destruct (_ <? _); cbn; lia.
Qed.

Lemma sync_done_SH s : SH s <= SH (sync_done s).
Proof.
  unfold sync_done, SH. destruct (s_pend s) as [pd|]; [|lia].
  destruct (N.ltb_spec (hgt (s_store s)) (h_height pd)); cbn; lia.
Qed.

Section tworeads.
Variable p : params.
Variable tv : hdr -> hdr -> tvres.

Lemma incoming_SH s h b : SH s <= SH (fst (incoming p tv s h b)).
Proof.
  unfold incoming. destruct (local_head s); cbn; [|lia].
  destruct (Verify _ _ _ _ _) as [e|]; cbn; [|apply slh_SH].
  destruct (ve_soft e); cbn; [|lia]. destruct (snd b); cbn.
  - etransitivity; [apply fold_slh_SH|apply slh_SH].
  - apply fold_slh_SH.
Qed.

Lemma gossip_SH s h b t : SH s <= SH (fst (gossip p tv s h b t)).
Proof.
  unfold gossip. pose proof (incoming_SH s h b) as Hm.
  destruct (incoming p tv s h b) as [s1 ok]; cbn in *. destruct ok; cbn; [|assumption].
  destruct t as [|th]; [assumption|]. etransitivity; [eassumption|apply tail_apply_SH].
Qed.

Lemma after_answer_SH s k a b : SH s <= SH (fst (after_answer p tv s k a b)).
Proof.
  unfold after_answer. destruct k as [|sbj].
  - destruct a as [nh|nh| |]; cbn; try lia.
    destruct (h_nil nh); cbn; [lia|]. destruct (is_expired _ _ _); cbn; lia.
  - destruct a as [nh|nh| |]; cbn; try lia.
    + destruct (h_nil nh); cbn; [lia|]. destruct (_ <=? _); cbn; [lia|apply slh_SH].
    + destruct (h_nil nh) eqn:Hnil; cbn; [lia|].
      pose proof (incoming_SH s nh b) as Hm.
      destruct (incoming p tv s nh b) as [s1 ok]; cbn in *. destruct ok; cbn; [|assumption].
      rewrite ?Hnil. destruct (_ <=? _); cbn; [assumption|].
      etransitivity; [eassumption|apply slh_SH].
Qed.

Lemma tstep_SH c i x c' o : tstep p tv c i x = (c', o) -> SH (c_s c) <= SH (c_s c').
Proof.
  unfold tstep, set_pc.
  destruct (c_pc c i) as [|k|k|k g|k a|net|net|]; destruct x as [| |a'| |b|t];
    try (intros [= <- <-]; cbn; lia).
  - destruct (decide p (c_s c)); intros [= <- <-]; cbn; lia.
  - destruct (f_open (c_f c)); intros [= <- <-]; cbn; lia.
  - destruct (match f_open (c_f c) with Some g' => Nat.eqb g g' | None => false end); [intros [= <- <-]; lia|].
    destruct (f_last (c_f c)); intros [= <- <-]; cbn; lia.
  - pose proof (after_answer_SH (c_s c) k a b) as Hm.
    destruct (after_answer p tv (c_s c) k a b) as [s1 n]. destruct (nres_pc n). intros [= <- <-]. exact Hm.
  - destruct t as [|th]; intros [= <- <-]; cbn; [lia|apply tail_apply_SH].
  - intros [= <- <-]. cbn. apply incoming_SH.
Qed.

Lemma pstep_SH ps ev ps' o : pstep p tv ps ev = (ps', o) -> SH (c_s (p_c ps)) <= SH (c_s (p_c ps')).
Proof.
  unfold pstep. destruct ev as [e|h|t|i|i].
  - destruct (blocked ps e); [intros [= <- <-]; lia|].
    destruct (cstep p tv (p_c ps) e) as [c' o'] eqn:Hs. intros [= <- <-]. cbn.
    destruct e as [d|h b t|h| |i x]; cbn in Hs; try (injection Hs as <- <-; cbn).
    + unfold SH. cbn. lia.
    + apply gossip_SH.
    + apply sync_part_SH.
    + apply sync_done_SH.
    + eapply tstep_SH; exact Hs.
  - destruct (p_g ps); [intros [= <- <-]; lia|].
    destruct (local_head _); [|intros [= <- <-]; lia].
    destruct (Verify _ _ _ _ _); [intros [= <- <-]; lia|].
    unfold slh_check. intros [= <- <-]. cbn. unfold SH. cbn. apply store_append_mono.
  - destruct (p_g ps) as [h|]; [|intros [= <- <-]; lia].
    intros [= <- <-]. cbn. destruct t as [|th]; [unfold SH; cbn; lia|].
    etransitivity; [|apply tail_apply_SH]. unfold SH. cbn. lia.
  - destruct (c_pc (p_c ps) i) as [|k|k|k g|k a|net|net|]; try (intros [= <- <-]; lia).
    destruct k; [intros [= <- <-]; lia|]. destruct a; try (intros [= <- <-]; lia).
    destruct (_ || _); [intros [= <- <-]; lia|].
    unfold slh_check. intros [= <- <-]. cbn. unfold SH. cbn. apply store_append_mono.
  - destruct (find _ _) as [[j nh]|]; intros [= <- <-]; [|lia]. cbn. unfold SH. cbn. lia.
Qed.

Lemma prun_SH l : forall ps ps' tr, prun p tv ps l = (ps', tr) -> SH (c_s (p_c ps)) <= SH (c_s (p_c ps')).
Proof.
  induction l as [|e l IH]; intros ps ps' tr; cbn; [intros [= <- <-]; lia|].
  destruct (pstep p tv ps e) as [q1 o1] eqn:Hs. destruct (prun p tv q1 l) as [q2 o2] eqn:Hr.
  intros [= <- <-]. pose proof (pstep_SH _ _ _ _ Hs). pose proof (IH _ _ _ Hr). lia.
Qed.

(** localHead reads the pending head, then the store head; whatever runs in between
    (the sync loop storing a range and removing it from pending, other calls, either
    half of a setLocalHead), the header it returns is not below the local head at the
    first read and not above the local head at the second *)
Theorem two_reads ps l ps' tr : sbj_below (p_c ps) -> prun p tv ps l = (ps', tr) ->
  L (c_s (p_c ps)) <= hgt (read2 (s_pend (c_s (p_c ps))) (s_store (c_s (p_c ps')))) <= L (c_s (p_c ps')).
Proof.
  intros Hb Hr. pose proof (prun_SH _ _ _ _ Hr) as Hs.
  destruct (prun_upper p tv _ _ _ _ Hb Hr) as (_ & Hm & _).
  rewrite read2_height. rewrite !L_max in *. unfold SH in Hs. lia.
Qed.

End tworeads.

(** in the opposite order (store head first, pending head second) the result can drop
    below the local head of the first read: store 10 / pending 20, the sync loop
    completes in between (store 20, pending empty): 10 *)
Example two_reads_reversed :
  let s1 := SState (Some (rf_h 10)) (Some (rf_h 20)) 1000 in
  let s2 := sync_done s1 in
  L s1 = 20 /\ L s2 = 20 /\ hgt (read2 (s_pend s2) (s_store s1)) = 10 /\
  hgt (read2 (s_pend s1) (s_store s2)) = 20.
Proof. vm_compute. auto. Qed.

(** ** candidate finding F31: the single flight ignores the joiner's options.
    [gets_of tr] lists the TrustedHead options of the underlying getter calls in order of
    issue: flight [g] is the [g]-th of them.  A caller that decided (re)initialisation
    ([KInit]: no or an expired subjective head) should only ever take the answer of a request
    made WITHOUT a trusted head (answered by the trusted peers alone). *)
Definition init_joins_only_init_flights (p : params) (tv : hdr -> hdr -> tvres) (s : sstate) (l : list cev) : Prop :=
  forall i g, let '(c, tr) := crun p tv (cinit s) l in
              c_pc c i = PWait KInit g -> nth_error (gets_of tr) g = Some None.

(** the witness: trusting period 100, recency threshold 30; the subjective head (time 0) is
    stale but not expired at 99; caller 0 opens a flight WITH the trusted head; the clock passes
    the expiry (101); caller 1 decides (re)initialisation and joins the open flight; the answer
    (height 20, time 100) comes; caller 1 adopts it *)
Definition f31_p : params := Params 100 10 0 10 2.
Definition f31_sbj : hdr := Hdr false 1 17 0 17 16 true.
Definition f31_new : hdr := Hdr false 1 20 100 20 19 true.
Definition f31_s : sstate := SState (Some f31_sbj) None 99.
Definition f31_l1 : list cev :=
  [CStep 0 ICall; CStep 0 INone; CTick 2; CStep 1 ICall; CStep 1 INone].
Definition f31_l2 : list cev :=
  [CStep 0 (IAns (GOk f31_new)); CStep 1 INone; CStep 1 (IBif ([], false)); CStep 1 (ITail (TOk None));
   CStep 1 (IBif ([], false)); CStep 1 INone].

Lemma f31_refuted :
  (let '(c, tr) := crun f31_p (fun _ _ => TVOk) (cinit f31_s) f31_l1 in
   c_pc c 1%nat = PWait KInit 0 /\ nth_error (gets_of tr) 0 = Some (Some f31_sbj) /\
   decide f31_p (c_s c) = DRequest KInit /\ is_expired f31_p (s_now (c_s c)) f31_sbj = true) /\
  (let '(c, tr) := crun f31_p (fun _ _ => TVOk) (cinit f31_s) (f31_l1 ++ f31_l2) in
   gets_of tr = [Some f31_sbj] /\ In (OGot 1 (GOk f31_new)) tr /\ In (ORet 1 (ROk f31_new)) tr /\
   local_head (c_s c) = Some f31_new).
Proof. vm_compute. repeat split; auto 20. Qed.

Lemma f31_not_all : ~ (forall p tv s l, init_joins_only_init_flights p tv s l).
Proof.
  intros H. specialize (H f31_p (fun _ _ => TVOk) f31_s f31_l1). unfold init_joins_only_init_flights in H.
  specialize (H 1%nat 0%nat). revert H. vm_compute. intros H. specialize (H eq_refl). discriminate.
Qed.
