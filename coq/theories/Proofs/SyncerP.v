(** Proofs about Model/Syncer.v, part 1 (C07): the honest-world invariant of
    the sync loop under atomic head-learner calls, progress of the loop to
    quiescence, and what quiescence means. *)
From Coq Require Import List Lia FinFun.
From RecordUpdate Require Import RecordSet.
From GH Require Import Base.Prelude Model.Verify Model.Ranges Model.Syncer Proofs.VerifyP Proofs.RangesP.
Import RecordSetNotations.

(** ** the abstract store *)

Lemma rs_has_app n l1 l2 : rs_has n (l1 ++ l2) = rs_has n l1 || rs_has n l2.
Proof. unfold rs_has. apply existsb_app. Qed.

Lemma rs_has_rev n l : rs_has n (rev l) = rs_has n l.
Proof.
  unfold rs_has. destruct (existsb _ (rev l)) eqn:E.
  - apply existsb_exists in E. destruct E as (x & Hin & Hx). symmetry. apply existsb_exists.
    exists x. split; [apply in_rev; exact Hin|exact Hx].
  - symmetry. apply Bool.not_true_is_false. intros E'. apply existsb_exists in E'.
    destruct E' as (x & Hin & Hx). apply Bool.not_true_iff_false in E. apply E. apply existsb_exists.
    exists x. split; [apply in_rev; rewrite rev_involutive; exact Hin|exact Hx].
Qed.

Lemma rs_has_in n l : rs_has n l = true <-> exists x, In x l /\ h_height x = n.
Proof.
  unfold rs_has. rewrite existsb_exists. split; intros (x & Hin & Hx); exists x; (split; [exact Hin|]).
  - apply N.eqb_eq. exact Hx.
  - apply N.eqb_eq. exact Hx.
Qed.

(** [rs_adv] climbs exactly to the top of the contiguous stretch *)
Lemma rs_adv_spec log : forall fuel n X,
  n <= X -> (forall m, n < m <= X -> rs_has m log = true) -> rs_has (X + 1) log = false ->
  (N.to_nat (X - n) <= fuel)%nat ->
  rs_adv log n fuel = X.
Proof.
  induction fuel as [|f IH]; intros n X Hle Hall Hnot Hf; [cbn; lia|].
  cbn [rs_adv]. destruct (N.eq_dec n X) as [->|Hne].
  - rewrite Hnot. reflexivity.
  - rewrite (Hall (n + 1)) by lia. apply IH; try lia; auto. intros m Hm. apply Hall. lia.
Qed.

(** a log holding every height of (a, b] has at least b - a entries *)
Lemma has_count log a b :
  (forall m, a < m <= b -> rs_has m log = true) -> (N.to_nat (b - a) <= length log)%nat.
Proof.
  intros H.
  set (l := map (fun i => a + 1 + N.of_nat i) (seq 0 (N.to_nat (b - a)))).
  assert (Hnd : NoDup l).
  { unfold l. apply FinFun.Injective_map_NoDup; [|apply seq_NoDup]. intros x y Hxy. lia. }
  assert (Hincl : incl l (map h_height log)).
  { intros m Hm. unfold l in Hm. apply in_map_iff in Hm. destruct Hm as (i & <- & Hi). apply in_seq in Hi.
    assert (Hh : rs_has (a + 1 + N.of_nat i) log = true) by (apply H; lia).
    apply rs_has_in in Hh. destruct Hh as (x & Hin & Hx). apply in_map_iff. exists x. split; assumption. }
  pose proof (NoDup_incl_length Hnd Hincl) as Hlen.
  unfold l in Hlen. rewrite !map_length, seq_length in Hlen. exact Hlen.
Qed.

Section chain.
Variable ch : N -> hdr.
Hypothesis Hch : forall n, h_height (ch n) = n.

Definition is_ch (x : hdr) : Prop := x = ch (h_height x).

(** the run ch from, ch (from+1), ... of length k *)
Fixpoint crun (from : N) (k : nat) : list hdr :=
  match k with
  | O => []
  | S k' => ch from :: crun (from + 1) k'
  end.

Lemma crun_in from k x : In x (crun from k) <-> exists i, (i < k)%nat /\ x = ch (from + N.of_nat i).
Proof.
  revert from. induction k as [|k IH]; intros from; cbn [crun].
  - split; [intros []|intros (i & Hi & _); lia].
  - split.
    + intros [<-|Hin].
      * exists 0%nat. split; [lia|]. f_equal. lia.
      * apply IH in Hin. destruct Hin as (i & Hi & ->). exists (S i). split; [lia|]. f_equal. lia.
    + intros (i & Hi & ->). destruct i as [|i].
      * left. f_equal. lia.
      * right. apply IH. exists i. split; [lia|]. f_equal. lia.
Qed.

Lemma crun_has from k n : rs_has n (crun from k) = true <-> from <= n < from + N.of_nat k.
Proof.
  rewrite rs_has_in. split.
  - intros (x & Hin & Hx). apply crun_in in Hin. destruct Hin as (i & Hi & ->). rewrite Hch in Hx. lia.
  - intros Hn. exists (ch n). split; [|apply Hch]. apply crun_in. exists (N.to_nat (n - from)). split; [lia|]. f_equal. lia.
Qed.

Lemma crun_length from k : length (crun from k) = k.
Proof. revert from. induction k; intros; cbn; [reflexivity|]. f_equal. auto. Qed.

Lemma crun_last from k d : last (crun from (S k)) d = ch (from + N.of_nat k).
Proof.
  revert from. induction k as [|k IH]; intros from.
  - cbn. f_equal. lia.
  - change (crun from (S (S k))) with (ch from :: crun (from + 1) (S k)).
    change (last (ch from :: crun (from + 1) (S k)) d) with (last (crun (from + 1) (S k)) d).
    rewrite IH. f_equal. lia.
Qed.

Lemma crun_is_ch from k x : In x (crun from k) -> is_ch x.
Proof. intros Hin. apply crun_in in Hin. destruct Hin as (i & _ & ->). unfold is_ch. rewrite Hch. reflexivity. Qed.

(** store: the contiguous run tail..head, plus possibly an island (lo, hi]
    above a hole (the hole is being filled by an Append in flight) *)
Definition store_ok2 (s : rstore) (lo hi : N) : Prop :=
  rs_tail s <= rs_head s /\
  (forall n, rs_has n (rs_log s) = true <-> (rs_tail s <= n <= rs_head s \/ lo < n <= hi)) /\
  (forall x, In x (rs_log s) -> is_ch x).

Definition store_ok (s : rstore) : Prop := store_ok2 s 0 0.

Lemma store_ok2_flat s lo : store_ok2 s lo lo <-> store_ok s.
Proof.
  unfold store_ok, store_ok2. split; intros (H1 & H2 & H3); (split; [exact H1|split; [|exact H3]]);
    intros n; rewrite H2; split; intros [H|H]; try lia; left; exact H.
Qed.

Lemma log_nonempty s lo hi : store_ok2 s lo hi -> (0 < length (rs_log s))%nat.
Proof.
  intros (H1 & H2 & _). assert (H : rs_has (rs_tail s) (rs_log s) = true) by (apply H2; lia).
  destruct (rs_log s); [discriminate H|cbn; lia].
Qed.

(** appending the run that fills the hole below the island *)
Lemma rs_append_fill s lo hi k :
  store_ok2 s lo hi -> lo <= hi -> rs_head s + N.of_nat (S k) = lo ->
  let s' := rs_append (crun (rs_head s + 1) (S k)) s in
  store_ok s' /\ rs_head s' = hi /\ rs_tail s' = rs_tail s.
Proof.
  intros Hok Hlh Hlo s'. pose proof (log_nonempty s lo hi Hok) as Hne.
  destruct Hok as (H1 & H2 & H3).
  set (hs := crun (rs_head s + 1) (S k)) in *.
  assert (Hhas : forall n, rs_has n (rev hs ++ rs_log s) = true <-> rs_tail s <= n <= hi).
  { intros n. rewrite rs_has_app, rs_has_rev, Bool.orb_true_iff. unfold hs. rewrite crun_has, H2. lia. }
  assert (Hhd : rs_head s' = hi).
  { unfold s', rs_append. cbn [rs_head]. fold hs. apply rs_adv_spec.
    - lia.
    - intros m Hm. apply Hhas. lia.
    - apply Bool.not_true_is_false. rewrite Hhas. lia.
    - apply has_count. intros m Hm. apply Hhas. lia. }
  split; [|split; [exact Hhd|reflexivity]].
  unfold store_ok, store_ok2. rewrite Hhd. unfold s', rs_append. cbn [rs_tail rs_log]. fold hs.
  split; [lia|]. split.
  - intros n. rewrite Hhas. lia.
  - intros x Hin. apply in_app_or in Hin. destruct Hin as [Hin|Hin]; [|apply H3; exact Hin].
    apply in_rev in Hin. eapply crun_is_ch. exact Hin.
Qed.

(** appending the next header when nothing is in flight *)
Lemma rs_append_next s k :
  store_ok s ->
  let s' := rs_append (crun (rs_head s + 1) (S k)) s in
  store_ok s' /\ rs_head s' = rs_head s + N.of_nat (S k) /\ rs_tail s' = rs_tail s.
Proof.
  intros Hok. apply store_ok2_flat with (lo := rs_head s + N.of_nat (S k)) in Hok.
  apply rs_append_fill with (lo := rs_head s + N.of_nat (S k)); auto. lia.
Qed.

(** appending on top of the island while the hole is open *)
Lemma rs_append_island s lo hi :
  store_ok2 s lo hi -> rs_head s < lo -> lo <= hi ->
  let s' := rs_append [ch (hi + 1)] s in
  store_ok2 s' lo (hi + 1) /\ rs_head s' = rs_head s /\ rs_tail s' = rs_tail s.
Proof.
  intros (H1 & H2 & H3) Hlt Hle s'.
  assert (Hhas : forall n, rs_has n (rev [ch (hi + 1)] ++ rs_log s) = true <-> (rs_tail s <= n <= rs_head s \/ lo < n <= hi + 1)).
  { intros n. cbn [rev app]. change (ch (hi + 1) :: rs_log s) with ([ch (hi + 1)] ++ rs_log s).
    rewrite rs_has_app, Bool.orb_true_iff, H2. unfold rs_has at 1. cbn [existsb]. rewrite Hch, Bool.orb_false_r, N.eqb_eq. lia. }
  assert (Hhd : rs_head s' = rs_head s).
  { unfold s', rs_append. cbn [rs_head]. apply rs_adv_spec; try lia.
    apply Bool.not_true_is_false. rewrite Hhas. lia. }
  split; [|split; [exact Hhd|reflexivity]].
  unfold store_ok2. rewrite Hhd. unfold s', rs_append. cbn [rs_tail rs_log].
  split; [exact H1|]. split; [exact Hhas|].
  intros x [<-|Hin]; [unfold is_ch; rewrite Hch; reflexivity|apply H3; exact Hin].
Qed.

(** re-appending a header whose height is already there *)
Lemma rs_append_dup s lo hi x :
  store_ok2 s lo hi -> is_ch x -> rs_has (h_height x) (rs_log s) = true ->
  (rs_head s < lo \/ hi <= rs_head s) ->
  let s' := rs_append [x] s in
  store_ok2 s' lo hi /\ rs_head s' = rs_head s /\ rs_tail s' = rs_tail s.
Proof.
  intros (H1 & H2 & H3) Hx Hhas0 Hole s'.
  assert (Hhas : forall n, rs_has n (rev [x] ++ rs_log s) = true <-> (rs_tail s <= n <= rs_head s \/ lo < n <= hi)).
  { intros n. cbn [rev app]. change (x :: rs_log s) with ([x] ++ rs_log s).
    rewrite rs_has_app, Bool.orb_true_iff, H2. unfold rs_has at 1. cbn [existsb]. rewrite Bool.orb_false_r, N.eqb_eq.
    split; [intros [<-|H]; [apply H2; exact Hhas0|exact H]|intros H; right; exact H]. }
  assert (Hhd : rs_head s' = rs_head s).
  { unfold s', rs_append. cbn [rs_head]. apply rs_adv_spec; try lia.
    apply Bool.not_true_is_false. rewrite Hhas. lia. }
  split; [|split; [exact Hhd|reflexivity]].
  unfold store_ok2. rewrite Hhd. unfold s', rs_append. cbn [rs_tail rs_log].
  split; [exact H1|]. split; [exact Hhas|].
  intros y [<-|Hin]; [exact Hx|apply H3; exact Hin].
Qed.

End chain.

(** ** executing one learner call to completion *)
Global Arguments shim_check : simpl never.

(** [shim_check] since /repo 7d16f07, in terms of the first header *)
Lemma drop_below_ge c h r : h_height c <= h_height h -> drop_below c (h :: r) = h :: r.
Proof. intros H. cbn. destruct (N.ltb_spec (h_height h) (h_height c)); [lia|reflexivity]. Qed.

Lemma shim_check_hd c h0 r :
  shim_check c (h0 :: r) =
  if h_height c <=? h_height h0
  then match shim_walk c (h0 :: r) with Some nh => ShimOk nh | None => ShimNonAdj end
  else match drop_below c r with
       | [] => ShimSkip
       | rest => match shim_walk c rest with Some nh => ShimOk nh | None => ShimNonAdj end
       end.
Proof.
  unfold shim_check. destruct (N.leb_spec (h_height c) (h_height h0)) as [H|H].
  - rewrite (drop_below_ge _ _ _ H). reflexivity.
  - cbn [drop_below]. destruct (N.ltb_spec (h_height h0) (h_height c)); [reflexivity|lia].
Qed.

Lemma shim_check_1 c x :
  shim_check c [x] =
  if h_height c <=? h_height x
  then match shim_walk c [x] with Some nh => ShimOk nh | None => ShimNonAdj end
  else ShimSkip.
Proof. rewrite shim_check_hd. reflexivity. Qed.
Global Arguments rs_append : simpl never.
Global Arguments ranges_add : simpl never.
Global Arguments ranges_first : simpl never.
Global Arguments ranges_head : simpl never.
Global Arguments range_get : simpl never.
Global Arguments range_remove : simpl never.
Global Arguments Verify : simpl never.
Global Arguments wrap64 : simpl never.
Global Arguments sub64 : simpl never.
Global Arguments req_to : simpl never.
Global Arguments N.leb : simpl never.
Global Arguments N.ltb : simpl never.
Global Arguments N.eqb : simpl never.

Lemma nth_upd_same {A} (l : list A) i a : (i < length l)%nat -> nth_error (upd_nth i a l) i = Some a.
Proof.
  revert i. induction l as [|x l IH]; intros i Hi; [cbn in Hi; lia|].
  destruct i; cbn; [reflexivity|]. apply IH. cbn in Hi. lia.
Qed.

Lemma upd_upd {A} (l : list A) i a b : upd_nth i a (upd_nth i b l) = upd_nth i a l.
Proof. revert i. induction l as [|x l IH]; intros i; [destruct i; reflexivity|]. destruct i; cbn; [reflexivity|]. f_equal. apply IH. Qed.

Lemma upd_length {A} (l : list A) i a : length (upd_nth i a l) = length l.
Proof. revert i. induction l as [|x l IH]; intros i; [destruct i; reflexivity|]. destruct i; cbn; [reflexivity|]. f_equal. apply IH. Qed.

Lemma upd_app_last {A} (l : list A) a b : upd_nth (length l) a (l ++ [b]) = l ++ [a].
Proof. induction l as [|x l IH]; [reflexivity|]. cbn. f_equal. exact IH. Qed.

Lemma nth_app_last {A} (l : list A) a : nth_error (l ++ [a]) (length l) = Some a.
Proof. induction l as [|x l IH]; [reflexivity|]. exact IH. Qed.

Lemma cfg_ext (a b : cfg) :
  c_store a = c_store b -> c_cache a = c_cache b -> c_pend a = c_pend b -> c_state a = c_state b ->
  c_trig a = c_trig b -> c_mu a = c_mu b -> c_loop a = c_loop b -> c_thr a = c_thr b -> c_reqs a = c_reqs b -> a = b.
Proof. destruct a, b; cbn; intros; subst; reflexivity. Qed.

Section exec.
Variables (drift : Z) (tv : hdr -> hdr -> tvres).

Notation tstep := (t_step drift tv).
Notation tbody := (t_body drift tv).

Definition tsteps (i n : nat) (c : cfg) : cfg := run drift tv c (repeat (ET i) n).

Global Arguments tsteps : simpl never.

Lemma run_app c es es' : run drift tv c (es ++ es') = run drift tv (run drift tv c es) es'.
Proof. unfold run. apply fold_left_app. Qed.

Lemma tsteps_add i n m c : tsteps i (n + m) c = tsteps i m (tsteps i n c).
Proof. unfold tsteps. rewrite repeat_app, run_app. reflexivity. Qed.

Lemma tsteps_S i n c : tsteps i (S n) c = tsteps i n (tstep i c).
Proof. reflexivity. Qed.

Lemma tstep_at i t c : nth_error (c_thr c) i = Some t -> tstep i c = tbody i t c.
Proof. intros H. unfold t_step. rewrite H. reflexivity. Qed.

Lemma tsteps_done i n c r : nth_error (c_thr c) i = Some (TDone r) -> tsteps i n c = c.
Proof.
  intros H. induction n as [|n IH]; [reflexivity|]. rewrite tsteps_S, (tstep_at i _ c H). exact IH.
Qed.

(** atomic setLocalHead(x) *)
Definition slh (x : hdr) (c : cfg) : cfg :=
  let c1 := match shim_check (c_cache c) [x] with
            | ShimOk nh => c <| c_cache := nh |> <| c_store ::= rs_append [x] |>
            | ShimSkip => c <| c_store ::= rs_append [x] |>
            | _ => c
            end in
  if h_height x <=? h_height (c_cache c1) then c1
  else c1 <| c_pend ::= ranges_add x |> <| c_trig := true |>.

Lemma slh_thr x c : c_thr (slh x c) = c_thr c /\ c_mu (slh x c) = c_mu c /\ c_loop (slh x c) = c_loop c
  /\ c_state (slh x c) = c_state c /\ c_reqs (slh x c) = c_reqs c.
Proof.
  unfold slh. destruct (shim_check (c_cache c) [x]); cbn; destruct (_ <=? _); cbn; repeat split.
Qed.

Lemma slh_set_thr x i t c : slh x (set_thr i t c) = set_thr i t (slh x c).
Proof.
  unfold slh, set_thr. cbn [c_cache]. cbn.
  destruct (shim_check (c_cache c) [x]); cbn; destruct (_ <=? _); apply cfg_ext; reflexivity.
Qed.

Lemma set_thr_nth i t c : (i < length (c_thr c))%nat -> nth_error (c_thr (set_thr i t c)) i = Some t.
Proof. intros H. unfold set_thr. cbn. apply nth_upd_same. exact H. Qed.

Lemma set_thr_twice i t t' c : set_thr i t (set_thr i t' c) = set_thr i t c.
Proof. unfold set_thr. apply cfg_ext; cbn; rewrite ?upd_upd; reflexivity. Qed.

Lemma t_next_set_thr i mu res rest t c : t_next i mu res rest (set_thr i t c) = t_next i mu res rest c.
Proof. unfold t_next, set_thr. destruct rest, mu; apply cfg_ext; cbn; rewrite ?upd_upd; reflexivity. Qed.

Ltac fin := unfold tsteps; cbn [repeat run fold_left]; unfold t_next;
  match goal with |- context [match ?r with [] => _ | _ :: _ => _ end] => destruct r end;
  try match goal with |- context [if ?m then _ else _] => destruct m end;
  apply cfg_ext; cbn; rewrite ?upd_upd; reflexivity.

Ltac adv Hi :=
  rewrite tsteps_S;
  erewrite tstep_at by (apply set_thr_nth; cbn; rewrite ?upd_length; exact Hi);
  cbn [t_body].

Lemma shim_one_ok ca x nh : shim_check ca [x] = ShimOk nh -> h_height nh = h_height x.
Proof.
  rewrite shim_check_1. destruct (_ <=? _); [|discriminate]. cbn [shim_walk].
  destruct ((h_height x =? h_height ca) && (h_id x =? h_id ca)) eqn:E.
  - intros [= <-]. apply Bool.andb_true_iff in E. destruct E as [E _]. apply N.eqb_eq in E. symmetry. exact E.
  - destruct (h_height x =? wrap64 (h_height ca + 1)); [|discriminate]. intros [= <-]. reflexivity.
Qed.

(** within at most 5 steps the call has performed setLocalHead(x) and moved on *)
Lemma slh_steps i mu res x rest c :
  nth_error (c_thr c) i = Some (TRun mu res x SL0 rest) ->
  exists k, (1 <= k <= 5)%nat /\ tsteps i k c = t_next i mu res rest (slh x c).
Proof.
  intros H. assert (Hi : (i < length (c_thr c))%nat) by (apply nth_error_Some; congruence).
  unfold slh.
  destruct (shim_check (c_cache c) [x]) eqn:Hs.
  - rewrite shim_check_1 in Hs. destruct (h_height (c_cache c) <=? h_height x); [destruct (shim_walk (c_cache c) [x])|]; discriminate.
  - (* skip *)
    destruct (h_height x <=? h_height (c_cache (c <| c_store ::= rs_append [x] |>))) eqn:Hle.
    + exists 3%nat. split; [lia|].
      rewrite tsteps_S, (tstep_at i _ c H). cbn [t_body]. rewrite Hs.
      adv Hi. adv Hi. cbn [c_cache] in *. cbn. cbn in Hle. rewrite Hle.
      fin.
    + exists 5%nat. split; [lia|].
      rewrite tsteps_S, (tstep_at i _ c H). cbn [t_body]. rewrite Hs.
      adv Hi. adv Hi. cbn. cbn in Hle. rewrite Hle. adv Hi. adv Hi.
      fin.
  - (* adjacent, or the head itself again *)
    pose proof (shim_one_ok _ _ _ Hs) as Hnh.
    cbn. rewrite Hnh, N.leb_refl.
    exists 4%nat. split; [lia|].
    rewrite tsteps_S, (tstep_at i _ c H). cbn [t_body]. rewrite Hs.
    adv Hi. adv Hi. adv Hi. cbn. rewrite Hnh, N.leb_refl.
    fin.
  - (* non-adjacent *)
    destruct (h_height x <=? h_height (c_cache c)) eqn:Hle.
    + exists 2%nat. split; [lia|].
      rewrite tsteps_S, (tstep_at i _ c H). cbn [t_body]. rewrite Hs.
      adv Hi. cbn. rewrite Hle.
      fin.
    + exists 4%nat. split; [lia|].
      rewrite tsteps_S, (tstep_at i _ c H). cbn [t_body]. rewrite Hs.
      adv Hi. cbn. rewrite Hle. adv Hi. adv Hi.
      fin.
Qed.

(** a whole work list *)
Definition slh_all (work : list hdr) (c : cfg) : cfg := fold_left (fun c x => slh x c) work c.

Definition finish_thr (i : nat) (mu res : bool) (c : cfg) : cfg :=
  set_thr i (TDone res) (if mu then c <| c_mu := false |> else c).

Lemma slh_all_thr work c : c_thr (slh_all work c) = c_thr c /\ c_mu (slh_all work c) = c_mu c /\ c_loop (slh_all work c) = c_loop c
  /\ c_state (slh_all work c) = c_state c /\ c_reqs (slh_all work c) = c_reqs c.
Proof.
  revert c. induction work as [|x w IH]; intros c; [repeat split|].
  cbn. destruct (IH (slh x c)) as (A & B & C & D & E). destruct (slh_thr x c) as (A' & B' & C' & D' & E').
  unfold slh_all in *. repeat split; congruence.
Qed.

Lemma slh_all_set_thr work i t c : slh_all work (set_thr i t c) = set_thr i t (slh_all work c).
Proof.
  revert c. induction work as [|x w IH]; intros c; [reflexivity|].
  cbn. rewrite slh_set_thr. apply IH.
Qed.

Lemma finish_set_thr i mu res t c : finish_thr i mu res (set_thr i t c) = finish_thr i mu res c.
Proof. unfold finish_thr, set_thr. destruct mu; apply cfg_ext; cbn; rewrite ?upd_upd; reflexivity. Qed.

Lemma work_steps i mu res : forall rest x c n,
  nth_error (c_thr c) i = Some (TRun mu res x SL0 rest) ->
  (5 * (1 + length rest) <= n)%nat ->
  tsteps i n c = finish_thr i mu res (slh_all (x :: rest) c).
Proof.
  induction rest as [|y r IH]; intros x c n H Hn.
  - destruct (slh_steps i mu res x [] c H) as (k & Hk & E).
    replace n with (k + (n - k))%nat by (cbn in Hn; lia). rewrite tsteps_add, E.
    assert (Hi : (i < length (c_thr c))%nat) by (apply nth_error_Some; congruence).
    change (t_next i mu res [] (slh x c)) with (finish_thr i mu res (slh x c)).
    apply tsteps_done with (r := res). unfold finish_thr. apply set_thr_nth.
    destruct (slh_thr x c) as (A & _). destruct mu; cbn; rewrite A; exact Hi.
  - destruct (slh_steps i mu res x (y :: r) c H) as (k & Hk & E).
    replace n with (k + (n - k))%nat by (cbn in Hn; lia). rewrite tsteps_add, E.
    assert (Hi : (i < length (c_thr c))%nat) by (apply nth_error_Some; congruence).
    change (t_next i mu res (y :: r) (slh x c)) with (set_thr i (TRun mu res y SL0 r) (slh x c)).
    rewrite (IH y _ (n - k)%nat).
    + change (slh_all (x :: y :: r) c) with (slh_all (y :: r) (slh x c)).
      rewrite slh_all_set_thr, finish_set_thr. reflexivity.
    + apply set_thr_nth. destruct (slh_thr x c) as (A & _). rewrite A. exact Hi.
    + cbn [length] in *. lia.
Qed.

(** the result of a completed learner call: its work list applied atomically,
    the call recorded as returned *)
Definition done_with (c : cfg) (work : list hdr) (res : bool) : cfg :=
  slh_all work c <| c_thr := c_thr c ++ [TDone res] |>.

Definition with_tm (l : list tpc) (m : bool) (c : cfg) : cfg := c <| c_thr := l |> <| c_mu := m |>.

Lemma slh_with_tm x l m c : slh x (with_tm l m c) = with_tm l m (slh x c).
Proof.
  unfold slh, with_tm. cbn.
  destruct (shim_check (c_cache c) [x]); cbn; destruct (_ <=? _); apply cfg_ext; reflexivity.
Qed.

Lemma slh_all_with_tm w l m c : slh_all w (with_tm l m c) = with_tm l m (slh_all w c).
Proof.
  revert c. induction w as [|x w IH]; intros c; [reflexivity|].
  cbn. rewrite slh_with_tm. apply IH.
Qed.

(** what verify() decides for a header against the subjective head [t] *)
Definition vwork (t x : hdr) (now : Z) (b : bifres) : list hdr * bool :=
  match Verify now drift tv t x with
  | None => ([x], true)
  | Some e =>
    if ve_soft e then let '(Bif pr ok) := b in (pr ++ (if ok then [x] else []), ok)
    else ([], false)
  end.

Definition gwork (c : cfg) (x : hdr) (now : Z) (b : bifres) : list hdr * bool :=
  vwork (local_head c) x now b.

Lemma finish_with_tm c l T w res :
  c_mu c = false -> l = c_thr c ++ [T] ->
  finish_thr (length (c_thr c)) true res (slh_all w (with_tm l true c)) = done_with c w res.
Proof.
  intros Hm ->. rewrite slh_all_with_tm. unfold finish_thr, set_thr, with_tm, done_with.
  destruct (slh_all_thr w c) as (A & B & _).
  apply cfg_ext; cbn; rewrite ?upd_app_last; try reflexivity. congruence.
Qed.

(** after verify(): the call performs its work list and returns *)
Lemma verdict_exec c T t x now b n :
  c_mu c = false ->
  let i := length (c_thr c) in
  let c2 := with_tm (c_thr c ++ [T]) true c in
  (5 * length (fst (vwork t x now b)) <= n)%nat ->
  tsteps i n (enter i (verdict drift tv now b t x) c2) = done_with c (fst (vwork t x now b)) (snd (vwork t x now b)).
Proof.
  intros Hm i c2 Hn. unfold verdict, vwork in *.
  assert (Hlen : length (c_thr c2) = S i) by (unfold c2, with_tm; cbn; rewrite app_length; cbn; lia).
  assert (Hdone : forall res, tsteps i n (set_thr i (TDone res) (c2 <| c_mu := false |>)) = done_with c [] res).
  { intros res. rewrite tsteps_done with (r := res)
      by (apply set_thr_nth; change (c_thr (c2 <| c_mu := false |>)) with (c_thr c2); lia).
    unfold set_thr, c2, with_tm, done_with. apply cfg_ext; cbn; unfold i; rewrite ?upd_app_last; try reflexivity; congruence. }
  assert (Hrun : forall res w0 wr, (5 * (1 + length wr) <= n)%nat ->
            tsteps i n (set_thr i (TRun true res w0 SL0 wr) c2) = done_with c (w0 :: wr) res).
  { intros res w0 wr Hn'. rewrite (work_steps i true res wr w0 _ n); [| apply set_thr_nth; lia | exact Hn'].
    unfold set_thr, c2, with_tm. 
    replace (c <| c_thr := c_thr c ++ [T] |> <| c_mu := true |> <| c_thr ::= upd_nth i (TRun true res w0 SL0 wr) |>)
      with (with_tm (c_thr c ++ [TRun true res w0 SL0 wr]) true c)
      by (unfold with_tm; apply cfg_ext; cbn; unfold i; rewrite ?upd_app_last; reflexivity).
    apply finish_with_tm with (T := TRun true res w0 SL0 wr); auto. }
  destruct (Verify now drift tv t x) as [e|].
  - destruct (ve_soft e).
    + destruct b as [pr ok]. cbn [fst snd] in *.
      destruct (pr ++ (if ok then [x] else [])) as [|w0 wr] eqn:Ew.
      * destruct ok; [destruct pr; discriminate Ew|]. cbn [enter]. apply Hdone.
      * cbn [enter]. apply Hrun. cbn [length] in Hn. lia.
    + cbn [enter fst snd]. apply Hdone.
  - cbn [enter fst snd length] in *. apply Hrun. cbn [length]. lia.
Qed.

Lemma gossip_exec c x now b :
  c_mu c = false ->
  run drift tv c (compile1 (length (c_thr c)) (HGossip x now b)) =
  done_with c (fst (gwork c x now b)) (snd (gwork c x now b)).
Proof.
  intros Hm. set (i := length (c_thr c)).
  cbn [compile1 run fold_left step]. fold (run drift tv). 
  change (fold_left (step drift tv) (repeat (ET i) (nsteps b)) ?X) with (tsteps i (nsteps b) X).
  set (c1 := c <| c_thr ::= fun l => l ++ [TWait x now b] |>).
  assert (H1 : nth_error (c_thr c1) i = Some (TWait x now b)) by (unfold c1; cbn; apply nth_app_last).
  assert (Hw : (5 * length (fst (gwork c x now b)) + 2 <= nsteps b)%nat).
  { unfold gwork, vwork. destruct (Verify now drift tv (local_head c) x) as [e|]; [|destruct b; cbn; lia].
    destruct (ve_soft e); destruct b as [pr ok]; cbn [fst nsteps length]; [|lia].
    rewrite app_length. destruct ok; cbn [length]; lia. }
  destruct (nsteps b) as [|n1] eqn:En; [lia|].
  rewrite tsteps_S, (tstep_at i _ c1 H1). cbn [t_body].
  replace (c_mu c1) with false by (unfold c1; cbn; congruence).
  replace (set_thr i (TVer x now b (ranges_head (c_pend c1))) (c1 <| c_mu := true |>))
    with (with_tm (c_thr c ++ [TVer x now b (ranges_head (c_pend c))]) true c)
    by (unfold set_thr, c1, with_tm; apply cfg_ext; cbn; try unfold i; rewrite ?upd_app_last; reflexivity).
  destruct n1 as [|n2]; [lia|].
  rewrite tsteps_S. erewrite tstep_at by (unfold with_tm; cbn; unfold i; apply nth_app_last).
  cbn [t_body].
  replace (c_cache (with_tm (c_thr c ++ [TVer x now b (ranges_head (c_pend c))]) true c)) with (c_cache c) by reflexivity.
  unfold gwork, local_head in *.
  apply (verdict_exec c (TVer x now b (ranges_head (c_pend c))) (pick_head (ranges_head (c_pend c)) (c_cache c)) x now b n2 Hm). lia.
Qed.

(** Head() learning a head: adopted iff above the subjective head *)
Definition hwork (c : cfg) (a : option hdr) : list hdr * bool :=
  match a with
  | Some x => if h_height x <=? h_height (local_head c) then ([], false) else ([x], true)
  | None => ([], false)
  end.

Lemma head_exec c a :
  run drift tv c (compile1 (length (c_thr c)) (HHead a)) =
  done_with c (fst (hwork c a)) (snd (hwork c a)) <| c_mu := c_mu c |>.
Proof.
  set (i := length (c_thr c)).
  cbn [compile1 run fold_left step]. fold (run drift tv).
  change (fold_left (step drift tv) (repeat (ET i) 9) ?X) with (tsteps i 9 X).
  set (c1 := c <| c_thr ::= fun l => l ++ [THd0 a] |>).
  assert (H1 : nth_error (c_thr c1) i = Some (THd0 a)) by (unfold c1; cbn; apply nth_app_last).
  assert (Hl1 : length (c_thr c1) = S i) by (unfold c1; cbn; rewrite app_length; cbn; lia).
  (* after reading the subjective head *)
  assert (Hsbj : exists k, (1 <= k <= 2)%nat /\ tsteps i k c1 = set_thr i (THd1 (local_head c) a) c1).
  { exists 2%nat. split; [lia|]. rewrite tsteps_S, (tstep_at i _ c1 H1). cbn [t_body].
    rewrite tsteps_S. erewrite tstep_at by (apply set_thr_nth; lia). cbn [t_body].
    rewrite set_thr_twice. reflexivity. }
  destruct Hsbj as (k & Hk & Ek).
  replace 9%nat with (k + (9 - k))%nat by lia. rewrite tsteps_add, Ek.
  destruct (9 - k)%nat as [|n1] eqn:En; [lia|].
  rewrite tsteps_S. erewrite tstep_at by (apply set_thr_nth; lia). cbn [t_body].
  assert (Hdone : tsteps i n1 (set_thr i (TDone false) c1) = done_with c [] false <| c_mu := c_mu c |>).
  { rewrite tsteps_done with (r := false) by (apply set_thr_nth; lia).
    unfold set_thr, c1, done_with. apply cfg_ext; cbn; try unfold i; rewrite ?upd_app_last; reflexivity. }
  unfold hwork. destruct a as [x|]; [|rewrite set_thr_twice; exact Hdone].
  destruct (h_height x <=? h_height (local_head c)); [rewrite set_thr_twice; exact Hdone|].
  cbn [fst snd]. rewrite set_thr_twice.
  rewrite (work_steps i false true [] x _ n1); [| apply set_thr_nth; lia | cbn; lia].
  replace (set_thr i (TRun false true x SL0 []) c1) with (with_tm (c_thr c ++ [TRun false true x SL0 []]) (c_mu c) c)
    by (unfold set_thr, c1, with_tm; apply cfg_ext; cbn; try unfold i; rewrite ?upd_app_last; reflexivity).
  rewrite slh_all_with_tm. unfold finish_thr, set_thr, with_tm, done_with.
  destruct (slh_all_thr [x] c) as (A & B & _).
  apply cfg_ext; cbn; try unfold i; rewrite ?upd_app_last; try reflexivity.
Qed.

End exec.

(** ** the honest world: true-chain heads, contract-abiding getter, atomic learner calls *)
Section honest.
Variables (drift : Z) (tv : hdr -> hdr -> tvres) (ch : N -> hdr).
Hypothesis Hch : forall n, h_height (ch n) = n.

Definition good (x : hdr) : Prop := is_ch ch x /\ hok x.
Definition all_gt (b : N) (l : list hdr) : Prop := forall x, In x l -> b < h_height x.
Definition all_le (b : N) (l : list hdr) : Prop := forall x, In x l -> h_height x <= b.

Definition synced (St : rstore) (ca : hdr) : Prop := store_ok ch St /\ rs_head St = h_height ca.
Definition target_in (P : ranges) (to : N) : Prop := exists x, In x (ranges_all P) /\ h_height x = to.
Definition trig_inv (P : ranges) (tr : bool) (T : N) : Prop :=
  (exists x, In x (ranges_all P) /\ T < h_height x) -> tr = true.
Definition insync (P : ranges) (st : sstate) (tr : bool) (to : N) : Prop := ss_to st = to /\ trig_inv P tr to.

(** the first pending run starts with exactly [hs] (the headers Get(oto) returned) *)
Definition fsplit (P : ranges) (hs : list hdr) (oto : N) (rest : list hdr) (t : ranges) : Prop :=
  exists r, P = r :: t /\ r_hdrs r = hs ++ rest /\ hs <> [] /\ all_le oto hs /\ all_gt oto rest.

Definition fromto (P : ranges) (ca from : hdr) (to : N) : Prop :=
  (from = ca /\ h_height ca < to /\ target_in P to) \/ (to <= h_height from /\ to <= h_height ca).

Definition first_ne (P : ranges) : Prop := match P with [] => True | r :: _ => r_hdrs r <> [] end.

Definition kgap (P : ranges) (st : sstate) (tr : bool) (ca : hdr) (cached : list hdr) (oto to : N) : Prop :=
  (exists rest t, fsplit P cached oto rest t) /\ target_in P oto /\ insync P st tr oto /\ h_height ca <= to /\
  exists a l, cached = a :: l /\ h_height a = to + 1.

Definition chunk (ca : hdr) (hs : list hdr) (to : N) : Prop :=
  exists n, hs = crun ch (h_height ca + 1) (S n) /\ h_height ca + N.of_nat (S n) <= to.

Definition stale (P : ranges) (st : sstate) (tr : bool) (ca : hdr) (hs : list hdr) (oto : N) : Prop :=
  exists rest t, fsplit P hs oto rest t /\ all_gt (h_height ca) (rest ++ ranges_all t) /\
  target_in P oto /\ insync P st tr oto /\
  h_height (last hs hdr_nil) <= h_height ca /\ (ca = last hs hdr_nil \/ oto <= h_height (last hs hdr_nil)).

Definition Jl' (St : rstore) (ca : hdr) (P : ranges) (st : sstate) (tr : bool) (pc : lpc) : Prop :=
  let hc := h_height ca in
  let A := ranges_all P in
  match pc with
  | LIdle => synced St ca /\ all_gt hc A /\ (ss_err st = None -> ss_to st <= hc) /\ (A <> [] -> tr = true \/ ss_err st <> None)
             /\ (ss_err st <> None -> A <> [])
  | LSync => synced St ca /\ all_gt hc A /\ (ss_err st = None -> ss_to st <= hc) /\ (ss_err st <> None -> A <> [])
  | LSync1 ph => synced St ca /\ all_gt hc A /\ (ss_err st = None -> ss_to st <= hc) /\ (ss_err st <> None -> A <> []) /\
                 match ph with Some p => In p A /\ trig_inv P tr (h_height p) | None => A <> [] -> tr = true end
  | LSync2 p => synced St ca /\ all_gt hc A /\ (ss_err st = None -> ss_to st <= hc) /\ (ss_err st <> None -> A <> []) /\
                ((In p A /\ trig_inv P tr (h_height p)) \/ (h_height p <= hc /\ (A <> [] -> tr = true)))
  | LFirst from to => synced St ca /\ all_gt hc A /\ insync P st tr to /\ fromto P ca from to
  | LGet from to => synced St ca /\ all_gt hc A /\ insync P st tr to /\ fromto P ca from to /\ first_ne P
  | LReq (KGap cached oto) from to => synced St ca /\ all_gt hc A /\ from = ca /\ kgap P st tr ca cached oto to
  | LReq KFin from to => synced St ca /\ all_gt hc A /\ insync P st tr to /\ to <= h_height from /\ to <= hc
  | LApp0 (AKReq (KGap cached oto) to) hs => synced St ca /\ all_gt hc A /\ kgap P st tr ca cached oto to /\ chunk ca hs to
  | LApp1 (AKReq (KGap cached oto) to) hs nh =>
    synced St ca /\ all_gt hc A /\ kgap P st tr ca cached oto to /\ chunk ca hs to /\ nh = last hs hdr_nil
  | LApp2 (AKReq (KGap cached oto) to) hs =>
    store_ok ch St /\ all_gt hc A /\ kgap P st tr ca cached oto to /\
    exists n, hs = crun ch (rs_head St + 1) (S n) /\ rs_head St + N.of_nat (S n) = hc /\ ca = last hs hdr_nil
  | LApp0 (AKCached oto) hs =>
    synced St ca /\ all_gt hc A /\ (exists rest t, fsplit P hs oto rest t) /\ target_in P oto /\ insync P st tr oto /\
    exists a l, hs = a :: l /\ h_height a = hc + 1
  | LApp1 (AKCached oto) hs nh =>
    synced St ca /\ all_gt hc A /\ (exists rest t, fsplit P hs oto rest t) /\ target_in P oto /\ insync P st tr oto /\
    (exists a l, hs = a :: l /\ h_height a = hc + 1) /\ nh = last hs hdr_nil
  | LApp2 (AKCached oto) hs =>
    stale P st tr ca hs oto /\ store_ok2 ch St (h_height (last hs hdr_nil)) hc /\
    exists a l, hs = a :: l /\ h_height a = rs_head St + 1
  | LRem oto lst => synced St ca /\ rs_tail St <= h_height lst /\ exists hs, lst = last hs hdr_nil /\ stale P st tr ca hs oto
  | LApp0 (AKReq KFin _) _ | LApp1 (AKReq KFin _) _ _ | LApp2 (AKReq KFin _) _ => False
  | LPanic => False
  end.

Definition thr_done (l : list tpc) : Prop := Forall (fun t => exists r, t = TDone r) l.

Record J (c : cfg) : Prop := MkJ {
  j_cache : good (c_cache c);
  j_rinv : rinv (c_pend c);
  j_pgood : forall x, In x (ranges_all (c_pend c)) -> good x;
  j_thr : thr_done (c_thr c);
  j_mu : c_mu c = false;
  j_l : Jl' (c_store c) (c_cache c) (c_pend c) (c_state c) (c_trig c) (c_loop c)
}.


(** *** Add above everything *)
Lemma pall_add x P :
  rinv P -> (forall y, In y (ranges_all P) -> h_height y < h_height x) ->
  ranges_all (ranges_add x P) = ranges_all P ++ [x].
Proof.
  intros Hr Hgt. rewrite (ranges_add_all x P Hr). pose proof (rinv_head P Hr) as Hh.
  destruct (ranges_head P) as [m|]; [|reflexivity].
  destruct Hh as [Hin _]. specialize (Hgt m Hin).
  destruct (N.leb_spec (h_height x) (h_height m)); [lia|reflexivity].
Qed.

Lemma fsplit_all P hs oto rest t : fsplit P hs oto rest t -> ranges_all P = hs ++ rest ++ ranges_all t.
Proof. intros (r & -> & Hr & _). cbn. rewrite Hr, app_assoc. reflexivity. Qed.

Lemma fsplit_add x P hs oto rest t :
  rinv P -> (forall y, In y (ranges_all P) -> h_height y < h_height x) -> oto < h_height x ->
  fsplit P hs oto rest t ->
  exists rest' t', fsplit (ranges_add x P) hs oto rest' t' /\ rest' ++ ranges_all t' = (rest ++ ranges_all t) ++ [x].
Proof.
  intros Hri Hgt Hoto Hf. pose proof (fsplit_all _ _ _ _ _ Hf) as Hall.
  destruct Hf as (r & -> & Hr & Hne & Hle & Hg).
  destruct (ranges_add_first x r t) as (r' & t' & Ea & _ & ext & Er' & Hext & _).
  exists (rest ++ ext), t'.
  assert (Hf' : fsplit (ranges_add x (r :: t)) hs oto (rest ++ ext) t').
  { exists r'. split; [exact Ea|]. split; [rewrite Er', Hr, app_assoc; reflexivity|]. split; [exact Hne|]. split; [exact Hle|].
    intros y Hy. apply in_app_or in Hy. destruct Hy as [Hy|Hy]; [apply Hg; exact Hy|].
    destruct Hext as [->| ->]; [destruct Hy|]. destruct Hy as [<-|[]]. exact Hoto. }
  split; [exact Hf'|].
  pose proof (fsplit_all _ _ _ _ _ Hf') as Hall'. rewrite (pall_add x _ Hri Hgt), Hall in Hall'.
  rewrite <- !app_assoc in Hall'. apply app_inv_head in Hall'. rewrite <- app_assoc. symmetry. rewrite <- !app_assoc in *. exact Hall'.
Qed.

Lemma all_gt_app b l l' : all_gt b l -> all_gt b l' -> all_gt b (l ++ l').
Proof. intros H H' x Hx. apply in_app_or in Hx. destruct Hx; auto. Qed.

Lemma all_gt_one b x : b < h_height x -> all_gt b [x].
Proof. intros H y [<-|[]]. exact H. Qed.

Section add.
Variables (x : hdr) (P : ranges).
Hypothesis Hri : rinv P.
Hypothesis Hgt : forall y, In y (ranges_all P) -> h_height y < h_height x.
Let P' := ranges_add x P.

Lemma in_pall_add y : In y (ranges_all P) -> In y (ranges_all P').
Proof. intros H. unfold P'. rewrite pall_add by assumption. apply in_or_app. left. exact H. Qed.

Lemma target_in_add to : target_in P to -> target_in P' to.
Proof. intros (y & Hy & E). exists y. split; [apply in_pall_add; exact Hy|exact E]. Qed.

Lemma target_lt to : target_in P to -> to < h_height x.
Proof. intros (y & Hy & <-). apply Hgt. exact Hy. Qed.

Lemma insync_add st tr to : insync P st tr to -> insync P' st true to.
Proof. intros [H _]. split; [exact H|]. intros _. reflexivity. Qed.

Lemma fromto_add ca from to : fromto P ca from to -> fromto P' ca from to.
Proof. intros [(A & B & C)|H]; [left; repeat split; auto; apply target_in_add; exact C|right; exact H]. Qed.

Lemma first_ne_add : first_ne P -> first_ne P'.
Proof.
  unfold first_ne, P'. destruct P as [|r t].
  - intros _. unfold ranges_add. cbn. discriminate.
  - intros Hne. destruct (ranges_add_first x r t) as (r' & t' & -> & _ & ext & Er' & _). rewrite Er'.
    destruct (r_hdrs r); [contradiction|discriminate].
Qed.

Lemma kgap_add st tr ca cached oto to : kgap P st tr ca cached oto to -> kgap P' st true ca cached oto to.
Proof.
  intros ((rest & t & Hf) & Ht & Hs & Hle & Hc).
  destruct (fsplit_add x P cached oto rest t Hri Hgt (target_lt _ Ht) Hf) as (rest' & t' & Hf' & _).
  split; [exists rest', t'; exact Hf'|]. split; [apply target_in_add; exact Ht|]. split; [eapply insync_add; exact Hs|]. split; assumption.
Qed.

Lemma stale_add st tr ca hs oto : h_height ca < h_height x -> stale P st tr ca hs oto -> stale P' st true ca hs oto.
Proof.
  intros Hx (rest & t & Hf & Hg & Ht & Hs & Hl & Hd).
  destruct (fsplit_add x P hs oto rest t Hri Hgt (target_lt _ Ht) Hf) as (rest' & t' & Hf' & E).
  exists rest', t'. split; [exact Hf'|]. split.
  - rewrite E. apply all_gt_app; [exact Hg|apply all_gt_one; exact Hx].
  - split; [apply target_in_add; exact Ht|]. split; [eapply insync_add; exact Hs|]. split; assumption.
Qed.

Lemma Jl_add St ca st tr pc :
  h_height ca + 1 < h_height x ->
  Jl' St ca P st tr pc -> Jl' St ca P' st true pc.
Proof.
  intros Hx.
  assert (Hag : all_gt (h_height ca) (ranges_all P) -> all_gt (h_height ca) (ranges_all P')).
  { intros H. unfold P'. rewrite pall_add by assumption. apply all_gt_app; [exact H|apply all_gt_one; lia]. }
  destruct pc as [| |ph|p|from to|from to|k from to|k hs|k hs nh|k hs|oto lst|]; cbn [Jl'].
  - intros (A & B & C & D & K). split; [exact A|]. split; [auto|]. split; [exact C|]. split; [intros _; left; reflexivity|].
    intros _. unfold P'. rewrite pall_add by assumption. destruct (ranges_all P); discriminate.
  - intros (A & B & C & K). split; [exact A|]. split; [auto|]. split; [exact C|].
    intros _. unfold P'. rewrite pall_add by assumption. destruct (ranges_all P); discriminate.
  - intros (A & B & C & K & D). split; [exact A|]. split; [auto|]. split; [exact C|].
    split; [intros _; unfold P'; rewrite pall_add by assumption; destruct (ranges_all P); discriminate|].
    destruct ph as [p|]; [destruct D as [D1 D2]; split; [apply in_pall_add; exact D1|intros _; reflexivity]|intros _; reflexivity].
  - intros (A & B & C & K & D). split; [exact A|]. split; [auto|]. split; [exact C|].
    split; [intros _; unfold P'; rewrite pall_add by assumption; destruct (ranges_all P); discriminate|].
    destruct D as [[D1 D2]|[D1 D2]]; [left; split; [apply in_pall_add; exact D1|intros _; reflexivity]|right; split; [exact D1|intros _; reflexivity]].
  - intros (A & B & C & D). split; [exact A|]. split; [auto|]. split; [eapply insync_add; exact C|apply fromto_add; exact D].
  - intros (A & B & C & D & E). split; [exact A|]. split; [auto|]. split; [eapply insync_add; exact C|]. split; [apply fromto_add; exact D|apply first_ne_add; exact E].
  - destruct k as [cached oto|].
    + intros (A & B & C & D). split; [exact A|]. split; [auto|]. split; [exact C|]. eapply kgap_add; exact D.
    + intros (A & B & C & D). split; [exact A|]. split; [auto|]. split; [eapply insync_add; exact C|exact D].
  - destruct k as [[cached oto|] to|oto]; [| intros [] |].
    + intros (A & B & C & D). split; [exact A|]. split; [auto|]. split; [eapply kgap_add; exact C|exact D].
    + intros (A & B & (rest & t & C) & D & E & F). split; [exact A|]. split; [auto|].
      destruct (fsplit_add x P hs oto rest t Hri Hgt (target_lt _ D) C) as (rest' & t' & Hf' & _).
      split; [exists rest', t'; exact Hf'|]. split; [apply target_in_add; exact D|]. split; [eapply insync_add; exact E|exact F].
  - destruct k as [[cached oto|] to|oto]; [| intros [] |].
    + intros (A & B & C & D & E). split; [exact A|]. split; [auto|]. split; [eapply kgap_add; exact C|]. split; assumption.
    + intros (A & B & (rest & t & C) & D & E & F & G). split; [exact A|]. split; [auto|].
      destruct (fsplit_add x P hs oto rest t Hri Hgt (target_lt _ D) C) as (rest' & t' & Hf' & _).
      split; [exists rest', t'; exact Hf'|]. split; [apply target_in_add; exact D|]. split; [eapply insync_add; exact E|]. split; assumption.
  - destruct k as [[cached oto|] to|oto]; [| intros [] |].
    + intros (A & B & C & D). split; [exact A|]. split; [auto|]. split; [eapply kgap_add; exact C|exact D].
    + intros (A & B & C). split; [eapply stale_add; [lia|exact A]|]. split; assumption.
  - intros (A & T & hs & B & C). split; [exact A|]. split; [exact T|]. exists hs. split; [exact B|]. eapply stale_add; [lia|exact C].
  - intros [].
Qed.

End add.

(** *** atomic setLocalHead in the honest world *)
Lemma wrap_succ (n : N) : n + 1 < two64 -> wrap64 (n + 1) = n + 1.
Proof. intros H. unfold wrap64. apply N.mod_small. exact H. Qed.

Lemma shim_single ca x :
  hok ca ->
  shim_check ca [x] =
  if h_height x <? h_height ca then ShimSkip
  else if (h_height x =? h_height ca) && (h_id x =? h_id ca) then ShimOk ca
  else if h_height x =? h_height ca + 1 then ShimOk x else ShimNonAdj.
Proof.
  intros Hk. rewrite shim_check_1. unfold shim_walk. rewrite (wrap_succ _ Hk).
  destruct (N.leb_spec (h_height ca) (h_height x)), (N.ltb_spec (h_height x) (h_height ca)); try lia; [|reflexivity].
  destruct ((h_height x =? h_height ca) && (h_id x =? h_id ca)); [reflexivity|].
  destruct (h_height x =? h_height ca + 1); reflexivity.
Qed.

Lemma set_cache_same c : c <| c_cache := c_cache c |> = c.
Proof. apply cfg_ext; reflexivity. Qed.

Lemma slh_cases x c :
  hok (c_cache c) ->
  (h_height x < h_height (c_cache c) /\ slh x c = c <| c_store ::= rs_append [x] |>) \/
  (h_height x = h_height (c_cache c) /\ (slh x c = c \/ slh x c = c <| c_store ::= rs_append [x] |>)) \/
  (h_height x = h_height (c_cache c) + 1 /\ slh x c = c <| c_cache := x |> <| c_store ::= rs_append [x] |>) \/
  (h_height (c_cache c) + 1 < h_height x /\ slh x c = c <| c_pend ::= ranges_add x |> <| c_trig := true |>).
Proof.
  intros Hk. unfold slh. rewrite (shim_single _ x Hk).
  destruct (N.ltb_spec (h_height x) (h_height (c_cache c))) as [Hlt|Hge].
  - left. split; [exact Hlt|]. cbn. destruct (N.leb_spec (h_height x) (h_height (c_cache c))); [reflexivity|lia].
  - destruct ((h_height x =? h_height (c_cache c)) && (h_id x =? h_id (c_cache c))) eqn:Ed.
    + apply Bool.andb_true_iff in Ed. destruct Ed as [Ed _]. apply N.eqb_eq in Ed.
      right; left. split; [exact Ed|]. right. cbn. rewrite Ed, N.leb_refl. rewrite set_cache_same. reflexivity.
    + destruct (N.eqb_spec (h_height x) (h_height (c_cache c) + 1)) as [He|Hne].
      * right; right; left. split; [exact He|]. cbn. rewrite N.leb_refl. reflexivity.
      * destruct (N.leb_spec (h_height x) (h_height (c_cache c))) as [Hle|Hgt].
        -- right; left. split; [lia|left; reflexivity].
        -- right; right; right. split; [lia|reflexivity].
Qed.

(** localHead is the maximum of what is pending, or the cache *)
Lemma local_head_spec c :
  rinv (c_pend c) ->
  h_height (c_cache c) <= h_height (local_head c) /\
  (forall y, In y (ranges_all (c_pend c)) -> h_height y <= h_height (local_head c)) /\
  (local_head c = c_cache c \/ (In (local_head c) (ranges_all (c_pend c)) /\ h_height (c_cache c) < h_height (local_head c))) /\
  (ranges_all (c_pend c) = [] -> local_head c = c_cache c).
Proof.
  intros Hr. unfold local_head, pick_head. pose proof (rinv_head _ Hr) as H.
  destruct (ranges_head (c_pend c)) as [p|].
  - destruct H as [Hin Hmax]. destruct (N.ltb_spec (h_height (c_cache c)) (h_height p)) as [Hlt|Hge].
    + split; [lia|]. split; [exact Hmax|]. split; [right; split; assumption|]. intros E. rewrite E in Hin. destruct Hin.
    + split; [lia|]. split; [intros y Hy; specialize (Hmax y Hy); lia|]. split; [left; reflexivity|reflexivity].
  - split; [lia|]. split; [rewrite H; intros y []|]. split; [left; reflexivity|reflexivity].
Qed.

Lemma Jl_frame_loop St ca P st tr pc : Jl' St ca P st tr pc -> Jl' St ca P st tr pc.
Proof. auto. Qed.

(** [J] only looks at the shared objects and at "all learner calls returned" *)
Lemma J_ext c c' :
  J c -> c_store c' = c_store c -> c_cache c' = c_cache c -> c_pend c' = c_pend c -> c_state c' = c_state c ->
  c_trig c' = c_trig c -> c_loop c' = c_loop c -> c_mu c' = false -> thr_done (c_thr c') -> J c'.
Proof.
  intros [A B C D E F] H1 H2 H3 H4 H5 H6 H7 H8.
  constructor; rewrite ?H1, ?H2, ?H3, ?H4, ?H5, ?H6; auto.
Qed.

Lemma last_crun from n d : last (crun ch from (S n)) d = ch (from + N.of_nat n).
Proof. apply crun_last. Qed.

(** headers held in a pending run are the true chain's run *)
Lemma consec_crun l :
  consec l -> (forall y, In y l -> is_ch ch y) ->
  match l with [] => True | a :: _ => l = crun ch (h_height a) (length l) end.
Proof.
  induction l as [|a l IH]; intros Hc Hi; [exact I|].
  cbn [length crun]. f_equal; [apply Hi; left; reflexivity|].
  destruct l as [|b l']; [reflexivity|].
  destruct Hc as [Hb Hc]. specialize (IH Hc (fun y Hy => Hi y (or_intror Hy))). cbn beta iota in IH.
  rewrite <- Hb. exact IH.
Qed.

Lemma consec_app_gt l1 l2 d :
  consec (l1 ++ l2) -> l1 <> [] ->
  (forall y, In y l2 -> h_height (last l1 d) < h_height y) /\
  h_height (last l1 d) <= h_height (last (l1 ++ l2) d).
Proof.
  induction l1 as [|a l1 IH]; intros Hc Hne; [contradiction|].
  destruct l1 as [|b l1'].
  - cbn [app last]. destruct l2 as [|r0 rest]; [split; [intros y []|cbn; lia]|].
    cbn [app] in Hc. destruct Hc as [H0 Hc]. split.
    + intros y Hy. pose proof (consec_bounds r0 rest Hc y Hy). lia.
    + change (last (a :: r0 :: rest) d) with (last (r0 :: rest) d).
      rewrite (last_indep rest r0 d r0). pose proof (consec_bounds r0 rest Hc _ (last_in rest r0)). lia.
  - change ((a :: b :: l1') ++ l2) with (a :: (b :: l1') ++ l2) in *.
    change (last (a :: b :: l1') d) with (last (b :: l1') d).
    change (last (a :: (b :: l1') ++ l2) d) with (last ((b :: l1') ++ l2) d).
    apply IH; [|discriminate]. cbn [app] in Hc. destruct Hc as [_ Hc]. exact Hc.
Qed.

(** the stale window: what is in pending beyond the cached run is above it *)
Lemma fsplit_rest_gt P hs oto rest t :
  rinv P -> fsplit P hs oto rest t -> all_gt (h_height (last hs hdr_nil)) (rest ++ ranges_all t).
Proof.
  intros Hri (r & -> & Hr & Hne & _ & _).
  cbn [rinv] in Hri. destruct (r_hdrs r) as [|a l] eqn:Ea; [destruct hs; [contradiction|discriminate]|].
  cbn [ne_inv] in Hri. rewrite Ea in Hri. destruct Hri as ((Hc & _ & _) & _ & Ht). rewrite Ea in Hc.
  rewrite Hr in Hc. destruct (consec_app_gt hs rest hdr_nil Hc Hne) as [G1 G2].
  intros y Hy. apply in_app_or in Hy. destruct Hy as [Hy|Hy]; [apply G1; exact Hy|].
  pose proof (ne_inv_lo _ _ Ht y Hy) as Hlo.
  rewrite <- Hr in G2. rewrite (last_indep l a hdr_nil a) in G2. lia.
Qed.


Lemma consec_app_l l1 l2 : consec (l1 ++ l2) -> consec l1.
Proof.
  induction l1 as [|a l1 IH]; intros H; [exact I|].
  destruct l1 as [|b l1']; [exact I|]. cbn [app] in H. destruct H as [Hb H]. split; [exact Hb|]. apply IH. exact H.
Qed.

(** facts about the cached run [hs] of a split pending *)
Lemma fsplit_hs P hs oto rest t :
  rinv P -> fsplit P hs oto rest t ->
  consec hs /\ (forall y, In y hs -> h_height y <= h_height (last hs hdr_nil)) /\ In (last hs hdr_nil) hs.
Proof.
  intros Hri (r & -> & Hr & Hne & _ & _).
  cbn [rinv] in Hri. destruct (r_hdrs r) as [|a l] eqn:Ea; [destruct hs; [contradiction|discriminate]|].
  cbn [ne_inv] in Hri. rewrite Ea in Hri. destruct Hri as ((Hc & _ & _) & _ & _). rewrite Ea, Hr in Hc.
  apply consec_app_l in Hc. destruct hs as [|h0 hs']; [contradiction|].
  split; [exact Hc|]. rewrite (last_indep hs' h0 hdr_nil h0). split.
  - intros y Hy. apply (consec_bounds h0 hs' Hc y Hy).
  - apply last_in.
Qed.

Lemma Jl_all_gt St ca P st tr pc :
  Jl' St ca P st tr pc ->
  match pc with
  | LApp2 (AKCached _) _ | LRem _ _ => True
  | _ => all_gt (h_height ca) (ranges_all P)
  end.
Proof.
  destruct pc as [| |ph|p|from to|from to|k from to|k hs|k hs nh|k hs|oto lst|]; cbn [Jl'];
    try destruct k as [[cached oto|] to|oto]; try destruct k as [cached oto|]; try tauto; intros []; tauto.
Qed.

Lemma synced_next St ca x :
  synced St ca -> good x -> h_height x = h_height ca + 1 -> synced (rs_append [x] St) x /\ rs_tail (rs_append [x] St) = rs_tail St.
Proof.
  intros [Hs Hh] [Hc _] Hx.
  assert (E : [x] = crun ch (rs_head St + 1) 1) by (cbn; rewrite Hh, <- Hx; f_equal; exact Hc).
  rewrite E. destruct (rs_append_next ch Hch St 0 Hs) as (A & B & C). split; [|exact C]. split; [exact A|].
  rewrite B, Hh. cbn. lia.
Qed.

Section stale_facts.
Variables (P : ranges) (st : sstate) (tr : bool) (ca : hdr) (hs : list hdr) (oto : N) (x : hdr).
Hypothesis Hri : rinv P.
Hypothesis Hst : stale P st tr ca hs oto.
Hypothesis Hgt : forall y, In y (ranges_all P) -> h_height y < h_height x.

(** a head at or below cache+1 arriving in the stale window: nothing but the cached run is pending *)
Lemma stale_low :
  h_height x <= h_height ca + 1 ->
  stale P st tr ca hs oto /\ (exists rest t, fsplit P hs oto rest t /\ rest ++ ranges_all t = []) /\
  h_height (last hs hdr_nil) < h_height x /\ oto <= h_height (last hs hdr_nil).
Proof.
  intros Hx. split; [exact Hst|]. destruct Hst as (rest & t & Hf & Hg & Ht & Hs & Hl & Hd).
  pose proof (fsplit_all _ _ _ _ _ Hf) as Hall.
  assert (He : rest ++ ranges_all t = []).
  { assert (Hno : forall y, In y (rest ++ ranges_all t) -> False).
    { intros y Hy. assert (Hy' : In y (ranges_all P)) by (rewrite Hall; apply in_or_app; right; exact Hy).
      specialize (Hgt y Hy'). specialize (Hg y Hy). lia. }
    destruct (rest ++ ranges_all t) as [|y l]; [reflexivity|]. destruct (Hno y (or_introl eq_refl)). }
  destruct (fsplit_hs _ _ _ _ _ Hri Hf) as (Hc & Hmax & Hin).
  split; [exists rest, t; split; assumption|]. split.
  - apply Hgt. rewrite Hall. apply in_or_app. left. exact Hin.
  - destruct Ht as (x0 & Hx0 & <-). rewrite Hall, He, app_nil_r in Hx0. apply Hmax. exact Hx0.
Qed.

End stale_facts.

Lemma Jl_direct St ca P st tr pc x :
  good ca -> rinv P -> good x -> h_height x = h_height ca + 1 ->
  (forall y, In y (ranges_all P) -> h_height y < h_height x) ->
  Jl' St ca P st tr pc -> Jl' (rs_append [x] St) x P st tr pc.
Proof.
  intros Hca Hri Hx Hh Hgt HJ.
  assert (Hemp : all_gt (h_height ca) (ranges_all P) -> ranges_all P = []).
  { intros Hag. destruct (ranges_all P) as [|y l]; [reflexivity|exfalso].
    specialize (Hag y (or_introl eq_refl)). specialize (Hgt y (or_introl eq_refl)). lia. }
  assert (Hnt : forall to, all_gt (h_height ca) (ranges_all P) -> target_in P to -> False).
  { intros to Hag (y & Hy & _). rewrite (Hemp Hag) in Hy. destruct Hy. }
  assert (Hnf : forall h oto rest t, all_gt (h_height ca) (ranges_all P) -> fsplit P h oto rest t -> False).
  { intros h oto rest t Hag Hf. pose proof (fsplit_all _ _ _ _ _ Hf) as E. destruct Hf as (r & _ & _ & Hne & _).
    rewrite (Hemp Hag) in E. destruct h; [contradiction|discriminate]. }
  destruct pc as [| |ph|p|from to|from to|k from to|k hs|k hs nh|k hs|oto lst|]; cbn [Jl'] in *.
  - destruct HJ as (A & B & C & D & K). destruct (synced_next St ca x A Hx Hh) as [A' _].
    split; [exact A'|]. rewrite (Hemp B) in *. split; [intros y []|]. split; [intros E; specialize (C E); lia|]. split; [intros Hc; contradiction|exact K].
  - destruct HJ as (A & B & C & K). destruct (synced_next St ca x A Hx Hh) as [A' _]. split; [exact A'|]. rewrite (Hemp B) in *.
    split; [intros y []|]. split; [intros E; specialize (C E); lia|exact K].
  - destruct HJ as (A & B & C & K & D). destruct (synced_next St ca x A Hx Hh) as [A' _].
    split; [exact A'|]. pose proof (Hemp B) as EA. rewrite EA in *. split; [intros y []|]. split; [intros E; specialize (C E); lia|]. split; [exact K|].
    destruct ph as [p|]; [destruct D as [[] _]|exact D].
  - destruct HJ as (A & B & C & K & D). destruct (synced_next St ca x A Hx Hh) as [A' _].
    split; [exact A'|]. pose proof (Hemp B) as EA. rewrite EA in *. split; [intros y []|]. split; [intros E; specialize (C E); lia|]. split; [exact K|].
    destruct D as [[[] _]|[D1 D2]]. right. split; [lia|exact D2].
  - destruct HJ as (A & B & C & D). destruct (synced_next St ca x A Hx Hh) as [A' _].
    split; [exact A'|]. split; [rewrite (Hemp B); intros y []|]. split; [exact C|].
    destruct D as [(_ & _ & D)|[D1 D2]]; [destruct (Hnt _ B D)|]. right. split; [exact D1|lia].
  - destruct HJ as (A & B & C & D & E). destruct (synced_next St ca x A Hx Hh) as [A' _].
    split; [exact A'|]. split; [rewrite (Hemp B); intros y []|]. split; [exact C|]. split; [|exact E].
    destruct D as [(_ & _ & D)|[D1 D2]]; [destruct (Hnt _ B D)|]. right. split; [exact D1|lia].
  - destruct k as [cached oto|].
    + destruct HJ as (A & B & C & (_ & D & _)). destruct (Hnt _ B D).
    + destruct HJ as (A & B & C & D & E). destruct (synced_next St ca x A Hx Hh) as [A' _].
      split; [exact A'|]. split; [rewrite (Hemp B); intros y []|]. split; [exact C|]. split; [exact D|lia].
  - destruct k as [[cached oto|] to|oto]; [|destruct HJ|].
    + destruct HJ as (A & B & (_ & D & _) & _). destruct (Hnt _ B D).
    + destruct HJ as (A & B & (rest & t & C) & _). destruct (Hnf _ _ _ _ B C).
  - destruct k as [[cached oto|] to|oto]; [|destruct HJ|].
    + destruct HJ as (A & B & (_ & D & _) & _). destruct (Hnt _ B D).
    + destruct HJ as (A & B & (rest & t & C) & _). destruct (Hnf _ _ _ _ B C).
  - destruct k as [[cached oto|] to|oto]; [|destruct HJ|].
    + destruct HJ as (A & B & (_ & D & _) & _). destruct (Hnt _ B D).
    + destruct HJ as (A & B & (a & l & Ea & Eh)).
      destruct (stale_low P st tr ca hs oto x Hri A Hgt ltac:(lia)) as (_ & (rest & t & Hf & He) & Hl & Ho).
      destruct A as (rest0 & t0 & Hf0 & Hg0 & Ht0 & Hs0 & Hl0 & Hd0).
      destruct (fsplit_hs _ _ _ _ _ Hri Hf) as (Hc & Hmax & Hin).
      assert (Hlo : rs_head St < h_height (last hs hdr_nil)).
      { assert (h_height a <= h_height (last hs hdr_nil)) by (apply Hmax; rewrite Ea; left; reflexivity). lia. }
      destruct Hx as [Hxc Hxk].
      assert (E : [x] = [ch (h_height ca + 1)]) by (rewrite <- Hh; f_equal; exact Hxc).
      destruct (rs_append_island ch Hch St _ _ B Hlo Hl0) as (B' & Bh & Bt). rewrite <- E in B', Bh. rewrite <- Hh in B'.
      split; [|split; [exact B'|exists a, l; split; [exact Ea|rewrite Bh; exact Eh]]].
      exists rest, t. split; [exact Hf|]. split; [rewrite He; intros y []|]. split; [exact Ht0|]. split; [exact Hs0|].
      split; [lia|right; exact Ho].
  - destruct HJ as (A & T & hs & El & S0).
    destruct (stale_low P st tr ca hs oto x Hri S0 Hgt ltac:(lia)) as (_ & (rest & t & Hf & He) & Hl & Ho).
    destruct S0 as (rest0 & t0 & Hf0 & Hg0 & Ht0 & Hs0 & Hl0 & Hd0).
    destruct (synced_next St ca x A Hx Hh) as [A' Tl].
    split; [exact A'|]. split; [rewrite Tl; exact T|]. exists hs. split; [exact El|].
    exists rest, t. split; [exact Hf|]. split; [rewrite He; intros y []|]. split; [exact Ht0|]. split; [exact Hs0|].
    split; [lia|right; exact Ho].
  - destruct HJ.
Qed.

Lemma Jl_dup St ca P st tr pc x :
  good ca -> rinv P -> good x -> h_height x <= h_height ca ->
  (forall y, In y (ranges_all P) -> h_height y < h_height x) ->
  match pc with LApp2 (AKCached _) _ | LRem _ _ => True | _ => False end ->
  Jl' St ca P st tr pc -> Jl' (rs_append [x] St) ca P st tr pc.
Proof.
  intros Hca Hri [Hxc Hxk] Hh Hgt Hpc HJ.
  destruct pc as [| |ph|p|from to|from to|k from to|k hs|k hs nh|k hs|oto lst|]; try destruct Hpc.
  - destruct k as [[cached oto|] to|oto]; try destruct Hpc. cbn [Jl'] in *.
    destruct HJ as (A & B & (a & l & Ea & Eh)).
    destruct (stale_low P st tr ca hs oto x Hri A Hgt ltac:(lia)) as (_ & (rest & t & Hf & He) & Hl & Ho).
    destruct (fsplit_hs _ _ _ _ _ Hri Hf) as (Hc & Hmax & Hin).
    assert (Hlo : rs_head St < h_height (last hs hdr_nil)).
    { assert (h_height a <= h_height (last hs hdr_nil)) by (apply Hmax; rewrite Ea; left; reflexivity). lia. }
    assert (Hhas : rs_has (h_height x) (rs_log St) = true) by (destruct B as (_ & B2 & _); apply B2; right; lia).
    destruct (rs_append_dup ch St _ _ x B Hxc Hhas (or_introl Hlo)) as (B' & Bh & Bt).
    split; [exact A|]. split; [exact B'|]. exists a, l. split; [exact Ea|rewrite Bh; exact Eh].
  - cbn [Jl'] in *. destruct HJ as ([A1 A2] & T & hs & El & S0).
    destruct (stale_low P st tr ca hs oto x Hri S0 Hgt ltac:(lia)) as (_ & _ & Hl & _).
    assert (Hhas : rs_has (h_height x) (rs_log St) = true).
    { destruct A1 as (_ & B2 & _). apply B2. left. rewrite <- El in Hl. lia. }
    destruct (rs_append_dup ch St 0 0 x A1 Hxc Hhas (or_intror (N.le_0_l _))) as (B' & Bh & Bt).
    split; [split; [exact B'|rewrite Bh; exact A2]|]. split; [rewrite Bt; exact T|]. exists hs. split; [exact El|exact S0].
Qed.

Lemma J_slh x c :
  J c -> good x -> h_height (local_head c) < h_height x -> J (slh x c).
Proof.
  intros HJ [Hxc Hxk] Hlt. pose proof HJ as [[Hcc Hck] Hri Hpg Hth Hmu Hl].
  pose proof (local_head_spec c Hri) as Hlh.
  (* what is pending is either nothing (local head = cache) or bounded by the local head *)
  assert (Hgt : forall y, In y (ranges_all (c_pend c)) -> h_height y < h_height x).
  { intros y Hy. destruct Hlh as (_ & Hm & _). specialize (Hm y Hy). lia. }
  (* in every program point but the stale window: pending is above the cache *)
  assert (Hnostale : all_gt (h_height (c_cache c)) (ranges_all (c_pend c)) -> h_height (c_cache c) < h_height x /\
            (h_height x = h_height (c_cache c) + 1 -> ranges_all (c_pend c) = [])).
  { intros Hag. destruct Hlh as (Hc & Hm & _ & _). split; [lia|]. intros Ex.
    destruct (ranges_all (c_pend c)) as [|y l] eqn:Ey; [reflexivity|exfalso].
    specialize (Hag y (or_introl eq_refl)). specialize (Hm y (or_introl eq_refl)). lia. }
  assert (Hdup : h_height x <= h_height (c_cache c) -> J (c <| c_store ::= rs_append [x] |>)).
  { (* x at or below the cache: only in the stale window; a duplicate is written *)
    intros Hh.
    assert (Hpc : match c_loop c with LApp2 (AKCached _) _ | LRem _ _ => True | _ => False end).
    { pose proof (Jl_all_gt _ _ _ _ _ _ Hl) as Hag.
      destruct (c_loop c) as [| |ph|p|from to|from to|k from to|k hs|k hs nh|k hs|oto lst|]; try exact I;
        try (destruct (Hnostale Hag); lia).
      destruct k as [k' to|oto]; [|exact I]. destruct (Hnostale Hag); lia. }
    constructor; cbn.
    + split; assumption.
    + exact Hri.
    + exact Hpg.
    + exact Hth.
    + exact Hmu.
    + apply Jl_dup; auto; split; assumption. }
  destruct (slh_cases x c Hck) as [[Hh E]|[[Hh [E|E]]|[[Hh E]|[Hh E]]]]; rewrite E; clear E.
  - apply Hdup. lia.
  - (* x at the cache height but another header: refused, nothing happens *) exact HJ.
  - apply Hdup. lia.
  - (* adjacent to the cache: stored directly *)
    constructor; cbn.
    + split; assumption.
    + exact Hri.
    + exact Hpg.
    + exact Hth.
    + exact Hmu.
    + apply Jl_direct with (ca := c_cache c); auto; split; assumption.
  - (* above: Add and trigger *)
    constructor; cbn.
    + split; assumption.
    + apply rinv_add; assumption.
    + intros y Hy. rewrite pall_add in Hy by assumption. apply in_app_or in Hy. destruct Hy as [Hy|[<-|[]]]; [auto|split; assumption].
    + exact Hth.
    + exact Hmu.
    + eapply Jl_add; [exact Hri|exact Hgt|lia|exact Hl].
Qed.


(** *** the sync loop's steps in the honest world *)

Lemma shim_walk_cons c a r :
  shim_walk c (a :: r) =
  if (h_height a =? h_height c) && (h_id a =? h_id c) then shim_walk c r
  else if h_height a =? wrap64 (h_height c + 1) then shim_walk a r else None.
Proof. reflexivity. Qed.

Lemma shim_walk_consec c a l d :
  consec (a :: l) -> (forall y, In y (a :: l) -> hok y) -> h_height a = h_height c + 1 ->
  shim_walk c (a :: l) = Some (last (a :: l) d).
Proof.
  revert c a. induction l as [|b l IH]; intros c a Hc Hk Ha; rewrite shim_walk_cons;
    (replace (h_height a =? h_height c) with false by (symmetry; apply N.eqb_neq; lia)); cbn [andb];
    rewrite wrap_succ by (rewrite <- Ha; pose proof (Hk a (or_introl eq_refl)) as H; unfold hok in H; lia);
    rewrite Ha, N.eqb_refl.
  - reflexivity.
  - destruct Hc as [Hb Hc]. change (last (a :: b :: l) d) with (last (b :: l) d).
    apply IH; [exact Hc|intros y Hy; apply Hk; right; exact Hy|exact Hb].
Qed.

Lemma shim_check_run c a l d :
  consec (a :: l) -> (forall y, In y (a :: l) -> hok y) -> h_height a = h_height c + 1 ->
  shim_check c (a :: l) = ShimOk (last (a :: l) d).
Proof.
  intros Hc Hk Ha. rewrite shim_check_hd.
  destruct (N.leb_spec (h_height c) (h_height a)); [|lia].
  rewrite (shim_walk_consec c a l d Hc Hk Ha). reflexivity.
Qed.

Lemma crun_consec from k : consec (crun ch from k).
Proof.
  revert from. induction k as [|k IH]; intros from; [exact I|].
  cbn [crun]. destruct k as [|k']; [exact I|]. cbn [crun]. split; [rewrite !Hch; reflexivity|]. apply (IH (from + 1)).
Qed.

Lemma crun_heights from k y : In y (crun ch from k) -> from <= h_height y < from + N.of_nat k /\ is_ch ch y.
Proof.
  intros Hy. split; [|eapply crun_is_ch; [exact Hch|exact Hy]].
  apply (crun_in ch) in Hy. destruct Hy as (i & Hi & ->). rewrite Hch. lia.
Qed.

(** two splits of a list at the same height boundary coincide *)
Lemma split_unique (b : N) (l1 l2 l1' l2' : list hdr) :
  l1 ++ l2 = l1' ++ l2' -> all_le b l1 -> all_gt b l2 -> all_le b l1' -> all_gt b l2' -> l1 = l1' /\ l2 = l2'.
Proof.
  revert l1'. induction l1 as [|a l1 IH]; intros l1' E H1 H2 H1' H2'.
  - destruct l1' as [|a' l1'']; [split; [reflexivity|exact E]|].
    cbn in E. subst l2. specialize (H2 a' (or_introl eq_refl)). specialize (H1' a' (or_introl eq_refl)). lia.
  - destruct l1' as [|a' l1''].
    + cbn in E. subst l2'. specialize (H2' a (or_introl eq_refl)). specialize (H1 a (or_introl eq_refl)). lia.
    + cbn in E. injection E as -> E. destruct (IH l1'' E) as [-> ->]; auto.
      * intros y Hy. apply H1. right. exact Hy.
      * intros y Hy. apply H1'. right. exact Hy.
Qed.

(** everything pending is at least the first header of the first run *)
Lemma fsplit_min P hs oto rest t a l :
  rinv P -> fsplit P hs oto rest t -> hs = a :: l -> forall y, In y (ranges_all P) -> h_height a <= h_height y.
Proof.
  intros Hri Hf -> y Hy. pose proof (fsplit_all _ _ _ _ _ Hf) as Hall.
  destruct Hf as (r & -> & Hr & _).
  cbn [rinv] in Hri. rewrite Hr in Hri. cbn [app] in Hri. cbn [ne_inv] in Hri. rewrite Hr in Hri. cbn [app] in Hri.
  destruct Hri as ((Hc & _ & _) & _ & Ht). rewrite Hr in Hc. cbn [app] in Hc.
  cbn in Hy. rewrite Hr in Hy. apply in_app_or in Hy. destruct Hy as [Hy|Hy].
  - apply (consec_bounds a (l ++ rest) Hc y Hy).
  - pose proof (ne_inv_lo _ _ Ht y Hy). pose proof (consec_bounds a (l ++ rest) Hc _ (last_in _ a)). lia.
Qed.


Definition pgood (P : ranges) : Prop := forall x, In x (ranges_all P) -> good x.

(** a non-empty first run of a pending set satisfying the invariant *)
Lemma first_run P r t :
  rinv P -> P = r :: t -> r_hdrs r <> [] ->
  exists a l, r_hdrs r = a :: l /\ range_ok r /\ ne_inv (h_height (last (a :: l) a) + 2) t.
Proof.
  intros Hri -> Hne. cbn [rinv] in Hri. destruct (r_hdrs r) as [|a l] eqn:Ea; [contradiction|].
  cbn [ne_inv] in Hri. rewrite Ea in Hri. destruct Hri as (Hok & _ & Ht). exists a, l. auto.
Qed.

Lemma step_get St ca P st tr from to :
  good ca -> rinv P -> pgood P -> Jl' St ca P st tr (LGet from to) ->
  match P with
  | [] => Jl' St ca P st tr (LReq KFin from to)
  | r :: _ =>
    match range_get to r with
    | None => False
    | Some [] => Jl' St ca P st tr (LReq KFin from to)
    | Some ((h0 :: _) as hs) =>
      if wrap64 (h_height from + 1) =? h_height h0
      then Jl' St ca P st tr (LApp0 (AKCached to) hs)
      else Jl' St ca P st tr (LReq (KGap hs to) from (sub64 (h_height h0) 1))
    end
  end.
Proof.
  intros [Hcc Hck] Hri Hpg (A & B & C & D & E). cbn [Jl'].
  assert (HB : fromto P ca from to -> ranges_all P = [] -> to <= h_height from /\ to <= h_height ca).
  { intros [(_ & _ & (x0 & Hx0 & _))|H] E0; [rewrite E0 in Hx0; destruct Hx0|exact H]. }
  destruct P as [|r t] eqn:EP.
  - destruct (HB D eq_refl) as [H1 H2]. split; [exact A|]. split; [exact B|]. split; [exact C|]. split; assumption.
  - cbn [first_ne] in E.
    destruct (first_run _ r t Hri eq_refl E) as (a & l & Ea & Hok & Hne).
    destruct (get_remove_spec r a l Ea Hok to) as (g & r' & Hg & _ & Hsp & Hle & Hgt & _).
    rewrite Hg.
    assert (Hall : ranges_all (r :: t) = g ++ r_hdrs r' ++ ranges_all t) by (cbn; rewrite Hsp, app_assoc; reflexivity).
    destruct g as [|h0 g'].
    + (* nothing at or below the target in the first run: we are past the target *)
      destruct D as [(_ & _ & (x0 & Hx0 & Ex0))|[D1 D2]]; [exfalso|split; [exact A|]; split; [exact B|]; split; [exact C|]; split; assumption].
      cbn [app] in Hsp. rewrite Hall in Hx0. cbn [app] in Hx0. apply in_app_or in Hx0. destruct Hx0 as [Hx0|Hx0].
      * specialize (Hgt x0 Hx0). lia.
      * pose proof (ne_inv_lo _ _ Hne x0 Hx0) as Hlo.
        assert (Ha : In a (r_hdrs r')) by (rewrite <- Hsp, Ea; left; reflexivity).
        specialize (Hgt a Ha). destruct Hok as (Hc & _ & _). rewrite Ea in Hc.
        pose proof (consec_bounds a l Hc _ (last_in l a)). lia.
    + assert (Hh0 : In h0 (ranges_all (r :: t))) by (rewrite Hall; left; reflexivity).
      pose proof (B h0 Hh0) as Hh0gt. pose proof (Hle h0 (or_introl eq_refl)) as Hh0le.
      destruct D as [(D1 & D2 & D3)|[D1 D2]]; [|lia]. subst from.
      rewrite (wrap_succ _ Hck).
      assert (Hfs : fsplit (r :: t) (h0 :: g') to (r_hdrs r') t).
      { exists r. split; [reflexivity|]. split; [exact Hsp|]. split; [discriminate|]. split; assumption. }
      destruct (N.eqb_spec (h_height ca + 1) (h_height h0)) as [He|Hne0].
      * split; [exact A|]. split; [exact B|]. split; [exists (r_hdrs r'), t; exact Hfs|]. split; [exact D3|]. split; [exact C|].
        exists h0, g'. split; [reflexivity|lia].
      * split; [exact A|]. split; [exact B|]. split; [reflexivity|].
        assert (Hs : sub64 (h_height h0) 1 = h_height h0 - 1) by (unfold sub64; destruct (N.leb_spec 1 (h_height h0)); [reflexivity|lia]).
        rewrite Hs. split; [exists (r_hdrs r'), t; exact Hfs|]. split; [exact D3|]. split; [exact C|]. split; [lia|].
        exists h0, g'. split; [reflexivity|lia].
Qed.


Lemma step_rem St ca P st tr oto lst :
  good ca -> rinv P -> pgood P -> Jl' St ca P st tr (LRem oto lst) ->
  match P with
  | [] => False
  | r :: t =>
    match range_remove oto r with
    | None => False
    | Some r' => rinv (r' :: t) /\ pgood (r' :: t) /\ Jl' St ca (r' :: t) st tr (LFirst lst oto) /\
                 (length (ranges_all (r' :: t)) < length (ranges_all P))%nat /\
                 (forall y, In y (ranges_all (r' :: t)) -> In y (ranges_all P)) /\
                 (forall y, In y (ranges_all P) -> In y (ranges_all (r' :: t)) \/ h_height y <= h_height ca)
    end
  end.
Proof.
  intros [Hcc Hck] Hri Hpg (A & T & hs & El & S0). cbn [Jl'].
  destruct S0 as (rest & t0 & Hf & Hg & Ht & Hs & Hl & Hd).
  pose proof (fsplit_all _ _ _ _ _ Hf) as Hall.
  destruct (fsplit_hs _ _ _ _ _ Hri Hf) as (Hc & Hmax & Hin).
  pose proof Hf as (r & EP & Hr & Hne & Hle & Hgt). subst P.
  assert (Hrne : r_hdrs r <> []) by (rewrite Hr; destruct hs; [contradiction|discriminate]).
  destruct (first_run _ r t0 Hri eq_refl Hrne) as (a & l & Ea & Hok & Hnei).
  destruct (get_remove_spec r a l Ea Hok oto) as (g & r' & _ & Hrm & Hsp & Hgle & Hggt & Hok').
  rewrite Hrm.
  assert (Eu : hs = g /\ rest = r_hdrs r').
  { apply (split_unique oto); auto. rewrite <- Hr. exact Hsp. }
  destruct Eu as [<- Er'].
  assert (Hri' : rinv (r' :: t0)).
  { apply (rinv_replace_first r r' t0 Hri Hrne Hok'). exists hs. exact Hsp. }
  assert (Hall' : ranges_all (r' :: t0) = rest ++ ranges_all t0) by (cbn; rewrite <- Er'; reflexivity).
  assert (Hsub : forall y, In y (ranges_all (r' :: t0)) -> In y (ranges_all (r :: t0))).
  { intros y Hy. rewrite Hall' in Hy. rewrite Hall. apply in_or_app. right. exact Hy. }
  split; [exact Hri'|]. split; [intros y Hy; apply Hpg, Hsub, Hy|].
  assert (Hlen : (length (ranges_all (r' :: t0)) < length (ranges_all (r :: t0)))%nat).
  { rewrite Hall', Hall, !app_length. destruct hs; [contradiction|cbn [length]; lia]. }
  split; [|split; [exact Hlen|split; [exact Hsub|]]].
  2: { intros y Hy. rewrite Hall in Hy. apply in_app_or in Hy. destruct Hy as [Hy|Hy].
       - right. specialize (Hmax y Hy). lia.
       - left. rewrite Hall'. exact Hy. }
  split; [exact A|]. split; [rewrite Hall'; exact Hg|]. split.
  - destruct Hs as [Hs1 Hs2]. split; [exact Hs1|]. intros (y & Hy & Hlt). apply Hs2. exists y. split; [apply Hsub; exact Hy|exact Hlt].
  - destruct Hd as [Hd|Hd].
    + destruct (N.le_gt_cases oto (h_height (last hs hdr_nil))) as [Hle'|Hgt'].
      * right. subst lst. split; [exact Hle'|lia].
      * left. subst lst. split; [symmetry; exact Hd|]. split; [rewrite Hd; exact Hgt'|].
        destruct Ht as (x0 & Hx0 & Ex0). exists x0. split; [|exact Ex0].
        rewrite Hall in Hx0. apply in_app_or in Hx0. destruct Hx0 as [Hx0|Hx0].
        -- specialize (Hmax x0 Hx0). lia.
        -- rewrite Hall'. exact Hx0.
    + right. subst lst. split; [exact Hd|lia].
Qed.

Lemma hs_good_run P hs oto rest t :
  rinv P -> pgood P -> fsplit P hs oto rest t ->
  consec hs /\ (forall y, In y hs -> good y) /\ hs = crun ch (h_height (hd hdr_nil hs)) (length hs).
Proof.
  intros Hri Hpg Hf. destruct (fsplit_hs _ _ _ _ _ Hri Hf) as (Hc & _ & _).
  pose proof (fsplit_all _ _ _ _ _ Hf) as Hall.
  assert (Hg : forall y, In y hs -> good y).
  { intros y Hy. apply Hpg. rewrite Hall. apply in_or_app. left. exact Hy. }
  split; [exact Hc|]. split; [exact Hg|].
  pose proof (consec_crun hs Hc (fun y Hy => proj1 (Hg y Hy))) as E.
  destruct hs as [|a l]; [destruct Hf as (_ & _ & _ & Hne & _); contradiction|exact E].
Qed.

Lemma step_app0 St ca P st tr k hs :
  good ca -> rinv P -> pgood P -> Jl' St ca P st tr (LApp0 k hs) ->
  shim_check ca hs = ShimOk (last hs hdr_nil) /\ Jl' St ca P st tr (LApp1 k hs (last hs hdr_nil)).
Proof.
  intros [Hcc Hck] Hri Hpg HJ. destruct k as [[cached oto|] to|oto]; cbn [Jl'] in *; [|destruct HJ|].
  - destruct HJ as (A & B & C & D). split; [|split; [exact A|split; [exact B|split; [exact C|split; [exact D|reflexivity]]]]].
    destruct D as (n & -> & Hn). destruct C as ((rest & t & Hf) & _ & _ & _ & (a & l & Ea & Ha)).
    assert (Hka : hok a).
    { apply Hpg. rewrite (fsplit_all _ _ _ _ _ Hf), Ea. left. reflexivity. }
    cbn [crun]. apply shim_check_run.
    + apply (crun_consec (h_height ca + 1) (S n)).
    + intros y Hy. apply (crun_heights (h_height ca + 1) (S n)) in Hy. destruct Hy as [Hy _].
      unfold hok in *. lia.
    + apply Hch.
  - destruct HJ as (A & B & (rest & t & C) & D & E & (a & l & -> & Ha)).
    split; [|split; [exact A|split; [exact B|split; [exists rest, t; exact C|split; [exact D|split; [exact E|split; [exists a, l; split; [reflexivity|exact Ha]|reflexivity]]]]]]].
    destruct (hs_good_run _ _ _ _ _ Hri Hpg C) as (Hc & Hg & _).
    apply shim_check_run; [exact Hc|intros y Hy; apply Hg; exact Hy|exact Ha].
Qed.


Lemma step_app1 St ca P st tr k hs nh :
  good ca -> rinv P -> pgood P -> Jl' St ca P st tr (LApp1 k hs nh) ->
  good nh /\ Jl' St nh P st tr (LApp2 k hs).
Proof.
  intros [Hcc Hck] Hri Hpg HJ. destruct k as [[cached oto|] to|oto]; cbn [Jl'] in *; [|destruct HJ|].
  - destruct HJ as ([A1 A2] & B & C & (n & -> & Hn) & ->).
    destruct C as ((rest & t & Hf) & Ct & Cs & Cle & (a & l & Ea & Ha)).
    assert (Hka : hok a) by (apply Hpg; rewrite (fsplit_all _ _ _ _ _ Hf), Ea; left; reflexivity).
    rewrite crun_last. set (nh := ch (h_height ca + 1 + N.of_nat n)).
    assert (Hnh : h_height nh = h_height ca + 1 + N.of_nat n) by (unfold nh; apply Hch).
    assert (Hgn : good nh). { split; [unfold is_ch, nh; rewrite Hch; reflexivity|unfold hok in *; lia]. }
    split; [exact Hgn|]. split; [exact A1|]. split.
    + intros y Hy. pose proof (fsplit_min _ _ _ _ _ a l Hri Hf Ea y Hy). lia.
    + split.
      * split; [exists rest, t; exact Hf|]. split; [exact Ct|]. split; [exact Cs|]. split; [lia|]. exists a, l. split; [exact Ea|exact Ha].
      * exists n. rewrite A2. split; [reflexivity|]. split; [lia|]. reflexivity.
  - destruct HJ as ([A1 A2] & B & (rest & t & C) & D & E & (a & l & Ehs & Ha) & ->).
    destruct (fsplit_hs _ _ _ _ _ Hri C) as (Hc & Hmax & Hin).
    destruct (hs_good_run _ _ _ _ _ Hri Hpg C) as (_ & Hg & _).
    split; [apply Hg; exact Hin|]. split; [|split].
    + exists rest, t. split; [exact C|]. split; [apply (fsplit_rest_gt _ _ _ _ _ Hri C)|]. split; [exact D|]. split; [exact E|].
      split; [apply N.le_refl|left; reflexivity].
    + apply store_ok2_flat. exact A1.
    + exists a, l. split; [exact Ehs|]. rewrite A2. exact Ha.
Qed.

Lemma step_app2 St ca P st tr k hs :
  good ca -> rinv P -> pgood P -> Jl' St ca P st tr (LApp2 k hs) ->
  match k with
  | AKReq k' to => Jl' (rs_append hs St) ca P st tr (LReq k' (last hs hdr_nil) to)
  | AKCached oto => Jl' (rs_append hs St) ca P st tr (LRem oto (last hs hdr_nil))
  end.
Proof.
  intros [Hcc Hck] Hri Hpg HJ. destruct k as [[cached oto|] to|oto]; cbn [Jl'] in *; [|destruct HJ|].
  - destruct HJ as (A & B & C & (n & -> & Hn & Eca)).
    destruct (rs_append_next ch Hch St n A) as (A' & Hh' & _).
    split; [split; [exact A'|rewrite Hh'; exact Hn]|]. split; [exact B|]. split; [symmetry; exact Eca|exact C].
  - destruct HJ as (S0 & B & (a & l & Ehs & Ha)). pose proof S0 as (rest & t & Hf & Hg & Ht & Hs & Hl & Hd).
    destruct (hs_good_run _ _ _ _ _ Hri Hpg Hf) as (Hc & _ & Erun).
    rewrite Ehs in Erun, Hc. cbn [hd length] in Erun. rewrite Ha in Erun.
    assert (Hlast : rs_head St + N.of_nat (S (length l)) = h_height (last hs hdr_nil)).
    { rewrite Ehs, (last_indep l a hdr_nil a), (consec_last_height a l Hc), Ha. lia. }
    rewrite Ehs in *.
    destruct (rs_append_fill ch Hch St _ _ (length l) B Hl Hlast) as (A' & Hh' & Ht').
    rewrite <- Erun in A', Hh', Ht'.
    split; [split; [exact A'|exact Hh']|]. split.
    + rewrite Ht'. destruct B as (B1 & _). lia.
    + exists (a :: l). split; [reflexivity|exact S0].
Qed.

Definition honest_ans (c : cfg) (a : ganswer) : Prop :=
  match next_req c with
  | Some (f, to) => a = GErr \/ exists n, N.of_nat (S n) <= req_size f to /\ a = GList (crun ch (f + 1) (S n))
  | None => True
  end.

Lemma J_lstep c a : J c -> honest_ans c a -> J (l_step a c).
Proof.
  intros [Hca Hri Hpg Hth Hmu Hl] Ha. pose proof Hca as [Hcc Hck].
  unfold l_step. destruct (c_loop c) as [| |ph|p|from to|from to|k from to|k hs|k hs nh|k hs|oto lst|] eqn:Elp.
  - (* LIdle *) destruct (c_trig c) eqn:Etr.
    + constructor; cbn; auto. destruct Hl as (A & B & C & D & K). split; [exact A|]. split; [exact B|]. split; [exact C|exact K].
    + constructor; auto. rewrite Elp, Etr. exact Hl.
  - (* LSync *) destruct Hl as (A & B & C & K). pose proof (rinv_head _ Hri) as Hh.
    constructor; cbn; auto. split; [exact A|]. split; [exact B|]. split; [exact C|]. split; [exact K|].
    destruct (ranges_head (c_pend c)) as [p|] eqn:Ep.
    + destruct Hh as [Hin Hmax]. split; [exact Hin|]. intros (y & Hy & Hlt). specialize (Hmax y Hy). lia.
    + intros Hne. contradiction.
  - (* LSync1 *) destruct Hl as (A & B & C & K & D).
    constructor; cbn; auto. split; [exact A|]. split; [exact B|]. split; [exact C|]. split; [exact K|].
    unfold pick_head. destruct ph as [p|].
    + destruct D as [D1 D2]. pose proof (B p D1) as Hp. destruct (N.ltb_spec (h_height (c_cache c)) (h_height p)); [|lia].
      left. split; assumption.
    + right. split; [lia|exact D].
  - (* LSync2 *) destruct Hl as (A & B & C & K & D).
    destruct (N.leb_spec (h_height p) (h_height (c_cache c))) as [Hle|Hgt].
    + destruct D as [[D1 _]|[_ D2]]; [specialize (B p D1); lia|].
      destruct (remove_upto_spec (h_height (c_cache c)) _ Hri) as (rs' & -> & Hri' & Hm).
      assert (Hsame : forall y, In y (ranges_all rs') <-> In y (ranges_all (c_pend c))).
      { intros y. rewrite Hm. split; [intros [H _]; exact H|intros H; split; [exact H|apply B; exact H]]. }
      assert (Hne : ranges_all rs' <> [] <-> ranges_all (c_pend c) <> []).
      { split; intros H E.
        - destruct (ranges_all rs') as [|y l] eqn:Ey; [contradiction|]. assert (Hy : In y (y :: l)) by (left; reflexivity). apply Hsame in Hy. rewrite E in Hy. destruct Hy.
        - destruct (ranges_all (c_pend c)) as [|y l] eqn:Ey; [contradiction|]. assert (Hy : In y (y :: l)) by (left; reflexivity). apply Hsame in Hy. rewrite E in Hy. destruct Hy. }
      constructor; cbn; [exact Hca|exact Hri'|intros y Hy; apply Hpg; apply Hsame; exact Hy|exact Hth|exact Hmu|].
      split; [exact A|]. split; [intros y Hy; apply B; apply Hsame; exact Hy|]. split; [exact C|].
      split; [intros H; left; apply D2; apply Hne; exact H|intros H; apply Hne; apply K; exact H].
    + destruct D as [[D1 D2]|[D1 _]]; [|lia].
      constructor; cbn; auto. split; [exact A|]. split; [exact B|]. split; [split; [reflexivity|exact D2]|].
      left. split; [reflexivity|]. split; [exact Hgt|]. exists p. split; [exact D1|reflexivity].
  - (* LFirst *) destruct Hl as (A & B & C & D).
    destruct (ranges_first_spec _ Hri) as (Hri' & Eall & _ & Hfirst).
    assert (HC : insync (ranges_first (c_pend c)) (c_state c) (c_trig c) to).
    { destruct C as [C1 C2]. split; [exact C1|]. unfold trig_inv. rewrite Eall. exact C2. }
    assert (HD : fromto (ranges_first (c_pend c)) (c_cache c) from to).
    { destruct D as [(D1 & D2 & D3)|D]; [left|right; exact D]. split; [exact D1|]. split; [exact D2|]. unfold target_in. rewrite Eall. exact D3. }
    destruct (ranges_first (c_pend c)) as [|r t] eqn:Ef; rewrite ?Ef in *.
    + constructor; cbn; [exact Hca|exact I|intros y []|exact Hth|exact Hmu|].
      destruct HD as [(_ & _ & (y & Hy & _))|[D1 D2]]; [destruct Hy|].
      split; [exact A|]. split; [intros y []|]. split; [exact HC|]. split; assumption.
    + constructor; cbn; [exact Hca|exact Hri'|intros y Hy; apply Hpg; rewrite <- Eall; exact Hy|exact Hth|exact Hmu|].
      split; [exact A|]. split; [intros y Hy; apply B; rewrite <- Eall; exact Hy|]. split; [exact HC|]. split; [exact HD|]. apply Hfirst.
  - (* LGet *) pose proof (step_get _ _ _ _ _ _ _ Hca Hri Hpg Hl) as Hs.
    destruct (c_pend c) as [|r t] eqn:EP.
    + constructor; cbn; auto; rewrite ?EP; auto.
    + destruct (range_get to r) as [[|h0 g]|]; [| |destruct Hs].
      * constructor; cbn; auto; rewrite ?EP; auto.
      * destruct (wrap64 (h_height from + 1) =? h_height h0); constructor; cbn; auto; rewrite ?EP; auto.
  - (* LReq *)
    unfold honest_ans, next_req in Ha. rewrite Elp in Ha.
    destruct (N.ltb_spec (h_height from) to) as [Hlt|Hge].
    + destruct k as [cached oto|].
      * destruct Hl as (A & B & -> & C).
        destruct Ha as [->|(n & Hn & ->)].
        -- unfold l_finish. constructor; cbn; [exact Hca|exact Hri|exact Hpg|exact Hth|exact Hmu|].
           split; [exact A|]. split; [exact B|]. split; [intros E; discriminate E|]. split; [intros _; right; discriminate|].
           intros _. destruct C as (_ & (y & Hy & _) & _). intros E. change (ranges_all (c_pend c) = []) in E. rewrite E in Hy. destruct Hy.
        -- cbn [crun]. rewrite Hch, (wrap_succ _ Hck), N.eqb_refl.
           constructor; cbn; [exact Hca|exact Hri|exact Hpg|exact Hth|exact Hmu|].
           split; [exact A|]. split; [exact B|]. split; [exact C|]. exists n. split; [reflexivity|].
           unfold req_size, sub64 in Hn. destruct (N.leb_spec (h_height (c_cache c)) to); lia.
      * destruct Hl as (A & B & C & D & E). lia.
    + unfold after_req. destruct k as [cached oto|].
      * destruct Hl as (A & B & -> & C). destruct C as (C1 & C2 & C3 & C4 & (a0 & l0 & Ea & Ha0)).
        constructor; cbn; [exact Hca|exact Hri|exact Hpg|exact Hth|exact Hmu|].
        split; [exact A|]. split; [exact B|]. split; [exact C1|]. split; [exact C2|]. split; [exact C3|].
        exists a0, l0. split; [exact Ea|lia].
      * destruct Hl as (A & B & [C1 C2] & D & E). unfold l_finish.
        constructor; cbn; [exact Hca|exact Hri|exact Hpg|exact Hth|exact Hmu|].
        split; [exact A|]. split; [exact B|]. split; [intros _; lia|]. split; [|intros Hn; contradiction].
        intros Hne. left. apply C2.
        destruct (ranges_all (c_pend c)) as [|y l0] eqn:EA; [contradiction|]. exists y. split; [left; reflexivity|].
        specialize (B y (or_introl eq_refl)). lia.
  - (* LApp0 *) destruct (step_app0 _ _ _ _ _ _ _ Hca Hri Hpg Hl) as [Es Hs]. rewrite Es.
    constructor; cbn; auto.
  - (* LApp1 *) destruct (step_app1 _ _ _ _ _ _ _ _ Hca Hri Hpg Hl) as [Hg Hs].
    constructor; cbn; auto.
  - (* LApp2 *) pose proof (step_app2 _ _ _ _ _ _ _ Hca Hri Hpg Hl) as Hs.
    destruct k as [k' to|oto]; constructor; cbn; auto.
  - (* LRem *) pose proof (step_rem _ _ _ _ _ _ _ Hca Hri Hpg Hl) as Hs.
    destruct (c_pend c) as [|r t] eqn:EP; [destruct Hs|].
    destruct (range_remove oto r) as [r'|]; [|destruct Hs]. destruct Hs as (H1 & H2 & H3 & _).
    constructor; cbn; auto.
  - destruct Hl.
Qed.


(** *** progress of the sync loop *)
Definition wpc (pc : lpc) : nat :=
  match pc with
  | LIdle => 0 | LSync => 12 | LSync1 _ => 11 | LSync2 _ => 10 | LFirst _ _ => 9 | LGet _ _ => 8 | LReq _ _ _ => 7
  | LApp0 _ _ => 6 | LApp1 _ _ _ => 5 | LApp2 _ _ => 4 | LRem _ _ => 3 | LPanic => 0
  end.

Definition pot (H : N) (c : cfg) : nat :=
  16 * N.to_nat (H - rs_head (c_store c)) + 8 * length (ranges_all (c_pend c)) +
  (if c_trig c then 13 else 0) + wpc (c_loop c).

Definition bounded (H : N) (c : cfg) : Prop :=
  h_height (c_cache c) <= H /\ forall y, In y (ranges_all (c_pend c)) -> h_height y <= H.

Definition quiescent (c : cfg) : Prop := c_loop c = LIdle /\ c_trig c = false.

(** a contract-abiding answer that is not an error *)
Definition good_ans (c : cfg) (a : ganswer) : Prop :=
  match next_req c with
  | Some (f, to) => exists n, N.of_nat (S n) <= req_size f to /\ a = GList (crun ch (f + 1) (S n))
  | None => True
  end.

Lemma good_honest c a : good_ans c a -> honest_ans c a.
Proof. unfold good_ans, honest_ans. destruct (next_req c) as [[f to]|]; [|auto]. intros H. right. exact H. Qed.

Local Arguments ranges_all : simpl never.
Local Arguments Nat.mul : simpl never.
Local Arguments Nat.add : simpl never.
Local Arguments N.to_nat : simpl never.

(** range requests issued so far plus the distance the store still has to go *)
Definition inflight (pc : lpc) : nat :=
  match pc with
  | LApp0 (AKReq _ _) _ | LApp1 (AKReq _ _) _ _ | LApp2 (AKReq _ _) _ => 1
  | _ => 0
  end.
Definition reqpot (H : N) (c : cfg) : nat := length (c_reqs c) + N.to_nat (H - rs_head (c_store c)).

Lemma lstep_progress H c a :
  J c -> bounded H c -> ~ quiescent c -> good_ans c a ->
  (pot H (l_step a c) < pot H c)%nat /\ bounded H (l_step a c) /\
  (quiescent (l_step a c) -> ss_err (c_state (l_step a c)) = None) /\
  (reqpot H (l_step a c) + inflight (c_loop c) <= reqpot H c + inflight (c_loop (l_step a c)))%nat.
Proof.
  intros HJ [Hb1 Hb2] Hnq Hga.
  pose proof (J_lstep c a HJ (good_honest c a Hga)) as HJ'.
  destruct HJ as [Hca Hri Hpg Hth Hmu Hl]. pose proof Hca as [Hcc Hck].
  unfold quiescent, bounded, pot, reqpot in *. revert HJ'.
  unfold l_step. destruct (c_loop c) as [| |ph|p|from to|from to|k from to|k hs|k hs nh|k hs|oto lst|] eqn:Elp.
  - (* LIdle *) destruct (c_trig c) eqn:Etr; [|exfalso; apply Hnq; split; reflexivity].
    intros _. cbn. rewrite ?Etr. split; [lia|]. split; [split; assumption|]. split; [intros [E _]; discriminate E|cbn; lia].
  - (* LSync *) intros _. cbn. split; [lia|]. split; [split; assumption|]. split; [intros [E _]; discriminate E|cbn; lia].
  - (* LSync1 *) intros _. cbn. split; [lia|]. split; [split; assumption|]. split; [intros [E _]; discriminate E|cbn; lia].
  - (* LSync2 *) destruct Hl as (A & B & C & K & D).
    destruct (N.leb_spec (h_height p) (h_height (c_cache c))) as [Hle|Hgt].
    + destruct D as [[D1 _]|[_ D2]]; [specialize (B p D1); lia|].
      destruct (remove_upto_spec (h_height (c_cache c)) _ Hri) as (rs' & Eu & _ & Hm). rewrite Eu.
      pose proof (remove_upto_len _ _ _ Eu) as Hlen.
      intros _. cbn. split; [lia|]. split; [split; [assumption|intros y Hy; apply Hb2; apply Hm in Hy; apply Hy]|].
      split; [|cbn; lia]. intros [_ Etf].
      destruct (ss_err (c_state c)) as [e|] eqn:Ee; [exfalso|reflexivity].
      assert (Hne : ranges_all (c_pend c) <> []) by (apply K; discriminate). specialize (D2 Hne). congruence.
    + intros _. cbn. split; [lia|]. split; [split; assumption|]. split; [intros [E _]; discriminate E|cbn; lia].
  - (* LFirst *)
    destruct (ranges_first_spec _ Hri) as (_ & Eall & _ & _).
    destruct (ranges_first (c_pend c)) as [|r t] eqn:Ef; intros _; cbn.
    + rewrite <- Eall. cbn [ranges_all flat_map length].
      split; [lia|]. split; [split; [assumption|intros y []]|]. split; [intros [E _]; discriminate E|cbn; lia].
    + assert (El : length (ranges_all (r :: t)) = length (ranges_all (c_pend c))) by (rewrite Eall; reflexivity).
      split; [lia|]. split; [split; [assumption|]|split; [intros [E _]; discriminate E|cbn; lia]].
      intros y Hy. apply Hb2. rewrite <- Eall. exact Hy.
  - (* LGet *) pose proof (step_get _ _ _ _ _ _ _ Hca Hri Hpg Hl) as Hs.
    destruct (c_pend c) as [|r t] eqn:EP.
    + intros _. cbn. rewrite EP. cbn [ranges_all flat_map length]. split; [lia|]. split; [split; [assumption|intros y []]|]. split; [intros [E _]; discriminate E|cbn; lia].
    + destruct (range_get to r) as [[|h0 g]|]; [| |destruct Hs].
      * intros _. cbn. rewrite EP. split; [lia|]. split; [split; assumption|]. split; [intros [E _]; discriminate E|cbn; lia].
      * destruct (wrap64 (h_height from + 1) =? h_height h0); intros _; cbn; rewrite EP;
          (split; [lia|]; split; [split; assumption|]; split; [intros [E _]; discriminate E|cbn; lia]).
  - (* LReq *)
    unfold good_ans, next_req in Hga. rewrite Elp in Hga.
    destruct (N.ltb_spec (h_height from) to) as [Hlt|Hge].
    + destruct k as [cached oto|]; [|destruct Hl as (_ & _ & _ & D & _); lia].
      destruct Hl as (A & B & -> & C). destruct Hga as (n & Hn & ->).
      cbn [crun]. rewrite Hch, (wrap_succ _ Hck), N.eqb_refl.
      intros _. cbn. split; [lia|]. split; [split; assumption|]. split; [intros [E _]; discriminate E|cbn; lia].
    + unfold after_req. destruct k as [cached oto|].
      * intros _. cbn. split; [lia|]. split; [split; assumption|]. split; [intros [E _]; discriminate E|cbn; lia].
      * unfold l_finish. intros _. cbn. split; [lia|]. split; [split; assumption|]. split; [intros _; reflexivity|cbn; lia].
  - (* LApp0 *) destruct (step_app0 _ _ _ _ _ _ _ Hca Hri Hpg Hl) as [Es Hs]. rewrite Es.
    intros _. cbn. split; [lia|]. split; [split; assumption|]. split; [intros [E _]; discriminate E|cbn; lia].
  - (* LApp1 *) destruct (step_app1 _ _ _ _ _ _ _ _ Hca Hri Hpg Hl) as [Hg Hs].
    intros _. cbn. split; [lia|]. split; [|split; [intros [E _]; discriminate E|cbn; lia]]. split; [|assumption].
    (* the new cache is a chunk's / the cached run's last header: below a pending header or pending itself *)
    destruct k as [[cached oto|] to|oto]; cbn [Jl'] in Hl; [|destruct Hl|].
    + destruct Hl as (_ & _ & ((rest & t & Hf) & _ & _ & _ & (a0 & l0 & Ea & Ha0)) & (n & -> & Hn) & ->).
      rewrite crun_last, Hch.
      assert (Hin : In a0 (ranges_all (c_pend c))) by (rewrite (fsplit_all _ _ _ _ _ Hf), Ea; left; reflexivity).
      specialize (Hb2 a0 Hin). lia.
    + destruct Hl as (_ & _ & (rest & t & Hf) & _ & _ & _ & ->).
      destruct (fsplit_hs _ _ _ _ _ Hri Hf) as (_ & _ & Hin). apply Hb2.
      rewrite (fsplit_all _ _ _ _ _ Hf). apply in_or_app. left. exact Hin.
  - (* LApp2 *) pose proof (step_app2 _ _ _ _ _ _ _ Hca Hri Hpg Hl) as Hs.
    destruct k as [[cached oto|] to|oto]; cbn [Jl'] in Hl; [|destruct Hl|].
    + destruct Hl as (_ & _ & _ & (n & _ & Hn & _)). destruct Hs as ([_ Hs] & _).
      intros _. cbn. rewrite Hs. split; [lia|]. split; [split; assumption|]. split; [intros [E _]; discriminate E|cbn; lia].
    + destruct Hl as ((rest & t & Hf & _ & _ & _ & Hle & _) & _ & (a0 & l0 & Ea & Ha0)).
      destruct Hs as ([_ Hs] & _).
      destruct (fsplit_hs _ _ _ _ _ Hri Hf) as (_ & Hmax & _).
      assert (h_height a0 <= h_height (last hs hdr_nil)) by (apply Hmax; rewrite Ea; left; reflexivity).
      intros _. cbn. rewrite Hs. split; [lia|]. split; [split; assumption|]. split; [intros [E _]; discriminate E|cbn; lia].
  - (* LRem *) pose proof (step_rem _ _ _ _ _ _ _ Hca Hri Hpg Hl) as Hs.
    destruct (c_pend c) as [|r t] eqn:EP; [destruct Hs|].
    destruct (range_remove oto r) as [r'|]; [|destruct Hs]. destruct Hs as (_ & _ & _ & Hlen & Hsub & _).
    intros _. cbn.
    split; [lia|]. split; [split; [assumption|]|split; [intros [E _]; discriminate E|cbn; lia]].
    intros y Hy. apply Hb2. apply Hsub. exact Hy.
  - destruct Hl.
Qed.


(** the newest verified head never gets lost by the loop *)
Definition lower (H : N) (c : cfg) : Prop :=
  H <= h_height (c_cache c) \/ exists y, In y (ranges_all (c_pend c)) /\ H <= h_height y.

Lemma lstep_lower H c a : J c -> lower H c -> lower H (l_step a c).
Proof.
  intros [Hca Hri Hpg Hth Hmu Hl] L. unfold lower in *.
  unfold l_step. destruct (c_loop c) as [| |ph|p|from to|from to|k from to|k hs|k hs nh|k hs|oto lst|] eqn:Elp.
  - destruct (c_trig c); exact L.
  - exact L.
  - exact L.
  - destruct Hl as (A & B & C & K & D).
    destruct (N.leb_spec (h_height p) (h_height (c_cache c))); [|exact L].
    destruct (remove_upto_spec (h_height (c_cache c)) _ Hri) as (rs' & -> & _ & Hm). cbn.
    destruct L as [L|(y & Hy & Hle)]; [left; exact L|right]. exists y. split; [apply Hm; split; [exact Hy|apply B; exact Hy]|exact Hle].
  - destruct (ranges_first_spec _ Hri) as (_ & Eall & _ & _).
    assert (L' : H <= h_height (c_cache c) \/ exists y, In y (ranges_all (ranges_first (c_pend c))) /\ H <= h_height y)
      by (rewrite Eall; exact L).
    destruct (ranges_first (c_pend c)); exact L'.
  - destruct (c_pend c) as [|r t] eqn:EP; [cbn; rewrite EP; exact L|].
    destruct (range_get to r) as [[|h0 g]|]; try (cbn; rewrite EP; exact L).
    destruct (_ =? _); cbn; rewrite EP; exact L.
  - destruct (_ <? _).
    + destruct a as [|[|x l]]; try exact L. destruct (_ =? _); exact L.
    + destruct k; exact L.
  - destruct (shim_check (c_cache c) hs); try exact L. destruct k; exact L.
  - (* cache := nh, which is above the old cache *)
    destruct (step_app1 _ _ _ _ _ _ _ _ Hca Hri Hpg Hl) as [_ Hs]. cbn.
    destruct L as [L|L]; [left|right; exact L].
    destruct k as [[cached oto|] to|oto]; cbn [Jl'] in Hl; [|destruct Hl|].
    + destruct Hl as (_ & _ & _ & (n & -> & _) & ->). rewrite crun_last, Hch. lia.
    + destruct Hl as (_ & _ & (rest & t & Hf) & _ & _ & (a0 & l0 & Ea & Ha0) & ->).
      destruct (fsplit_hs _ _ _ _ _ Hri Hf) as (_ & Hmax & _).
      assert (h_height a0 <= h_height (last hs hdr_nil)) by (apply Hmax; rewrite Ea; left; reflexivity). lia.
  - destruct k; exact L.
  - pose proof (step_rem _ _ _ _ _ _ _ Hca Hri Hpg Hl) as Hs.
    destruct (c_pend c) as [|r t] eqn:EP; [destruct Hs|].
    destruct (range_remove oto r) as [r'|]; [|destruct Hs]. destruct Hs as (_ & _ & _ & _ & _ & Hsplit).
    cbn. destruct L as [L|(y & Hy & Hle)]; [left; exact L|].
    destruct (Hsplit y Hy) as [Hy'|Hy']; [right; exists y; split; assumption|left; lia].
  - exact L.
Qed.


(** *** running the loop to quiescence against an honest getter *)
Definition honest_getter (g : N -> N -> ganswer) : Prop :=
  forall f to, f < to -> exists n, N.of_nat (S n) <= req_size f to /\ g f to = GList (crun ch (f + 1) (S n)).

Lemma auto_good g c : honest_getter g -> good_ans c (match next_req c with Some (f, to) => g f to | None => GErr end).
Proof.
  intros Hg. unfold good_ans. destruct (next_req c) as [[f to]|] eqn:E; [|exact I].
  apply Hg. unfold next_req in E. destruct (c_loop c); try discriminate.
  destruct (N.ltb_spec (h_height from) to0); [|discriminate]. injection E as <- <-. assumption.
Qed.

Lemma quiescent_dec c : {quiescent c} + {~ quiescent c}.
Proof.
  unfold quiescent. destruct (c_loop c); try (right; intros [E _]; discriminate E).
  destruct (c_trig c); [right; intros [_ E]; discriminate E|left; split; reflexivity].
Qed.

Lemma iter_quiescent g n c : quiescent c -> l_iter g n c = c.
Proof.
  intros [E1 E2]. induction n as [|n IH]; [reflexivity|]. cbn [l_iter].
  replace (l_auto g c) with c; [exact IH|].
  unfold l_auto, l_step. rewrite E1, E2. reflexivity.
Qed.

Theorem drain_reaches g H : forall c,
  J c -> bounded H c -> honest_getter g ->
  exists n, (n <= pot H c)%nat /\
    let c' := l_iter g n c in
    quiescent c' /\ J c' /\ bounded H c' /\ (lower H c -> lower H c') /\
    (quiescent c \/ ss_err (c_state c') = None) /\
    (reqpot H c' + inflight (c_loop c) <= reqpot H c)%nat.
Proof.
  intros c. remember (pot H c) as m eqn:Em. revert c Em.
  induction m as [m IH] using lt_wf_ind. intros c Em HJ Hb Hg.
  destruct (quiescent_dec c) as [Hq|Hnq].
  - exists 0%nat. split; [lia|]. cbn. split; [exact Hq|]. split; [exact HJ|]. split; [exact Hb|]. split; [auto|]. split; [left; exact Hq|].
    destruct Hq as [E _]. rewrite E. cbn. lia.
  - set (a := match next_req c with Some (f, to) => g f to | None => GErr end).
    pose proof (auto_good g c Hg) as Hga. fold a in Hga.
    destruct (lstep_progress H c a HJ Hb Hnq Hga) as (Hpot & Hb' & Herr & Hreq).
    pose proof (J_lstep c a HJ (good_honest c a Hga)) as HJ'.
    destruct (IH (pot H (l_step a c)) ltac:(lia) (l_step a c) eq_refl HJ' Hb' Hg) as (n & Hn & Hq' & HJ'' & Hb'' & Hlo & Hd & Hr).
    exists (S n). split; [lia|]. cbn [l_iter]. unfold l_auto. fold a.
    split; [exact Hq'|]. split; [exact HJ''|]. split; [exact Hb''|]. split; [|split].
    + intros L. apply Hlo. apply lstep_lower; assumption.
    + right. destruct Hd as [Hq1|He]; [|exact He]. rewrite (iter_quiescent g n _ Hq1). apply Herr. exact Hq1.
    + cbn zeta in Hr. lia.
Qed.

(** what quiescence means *)
Definition newest_height (c : cfg) : N := N.max (h_height (local_head c)) (h_height (c_cache c)).

Lemma newest_spec c : J c -> bounded (newest_height c) c /\ lower (newest_height c) c.
Proof.
  intros [Hca Hri Hpg Hth Hmu Hl]. unfold newest_height, bounded, lower.
  destruct (local_head_spec c Hri) as (Hc & Hmax & Hd & _).
  split; [split; [lia|intros y Hy; specialize (Hmax y Hy); lia]|].
  destruct Hd as [E|[Hin Hlt]]; [left; rewrite E; lia|].
  right. exists (local_head c). split; [exact Hin|lia].
Qed.

Definition reached (H : N) (c' : cfg) : Prop :=
  ranges_all (c_pend c') = [] /\ rs_head (c_store c') = H /\ h_height (c_cache c') = H /\
  ss_err (c_state c') = None /\ state_finished c' = true /\ sync_wait_returns c' = true /\
  store_ok ch (c_store c').

Lemma quiescent_reached H c' :
  J c' -> quiescent c' -> bounded H c' -> lower H c' -> ss_err (c_state c') = None -> reached H c'.
Proof.
  intros [Hca Hri Hpg Hth Hmu Hl] [E1 E2] [Hb1 Hb2] Hlo He. rewrite E1 in Hl. cbn [Jl'] in Hl.
  destruct Hl as ([A1 A2] & B & C & D & K).
  assert (EA : ranges_all (c_pend c') = []).
  { destruct (ranges_all (c_pend c')) as [|y l] eqn:EA; [reflexivity|exfalso].
    destruct D as [D|D]; [discriminate|congruence|congruence]. }
  assert (EH : h_height (c_cache c') = H).
  { destruct Hlo as [Hlo|(y & Hy & _)]; [lia|rewrite EA in Hy; destruct Hy]. }
  unfold reached. split; [exact EA|]. split; [congruence|]. split; [exact EH|]. split; [exact He|].
  assert (Hfin : state_finished c' = true).
  { unfold state_finished, state_height. apply N.leb_le. apply C. exact He. }
  split; [exact Hfin|]. split; [unfold sync_wait_returns; rewrite Hfin; reflexivity|exact A1].
Qed.


(** *** the initial configuration *)
Lemma J_init tail k :
  tail + N.of_nat k + 1 < two64 -> J (init_cfg tail (crun ch tail (S k))).
Proof.
  intros Hb. unfold init_cfg. rewrite crun_last.
  constructor; cbn [c_cache c_pend c_thr c_mu c_store c_state c_trig c_loop].
  - split; [unfold is_ch; rewrite Hch; reflexivity|unfold hok; rewrite Hch; exact Hb].
  - exact I.
  - intros x [].
  - constructor.
  - reflexivity.
  - pose proof (Hch (tail + N.of_nat k)) as Hh.
    cbn [Jl' ranges_all flat_map ss_err ss_to].
    split; [|split; [intros y []|split; [intros _; lia|split; [intros Hc; contradiction|intros Hc; contradiction]]]].
    split; [|reflexivity]. unfold store_ok, store_ok2. cbn [rs_tail rs_head rs_log]. rewrite Hh.
    split; [lia|]. split.
    + intros n. rewrite rs_has_rev, (crun_has ch Hch). lia.
    + intros x Hx. apply in_rev in Hx. eapply crun_is_ch; [exact Hch|exact Hx].
Qed.

(** *** honest histories *)
Fixpoint asc_from (b : N) (l : list hdr) : Prop :=
  match l with
  | [] => True
  | x :: r => b < h_height x /\ asc_from (h_height x) r
  end.

Lemma asc_from_weaken b b' l : b' <= b -> asc_from b l -> asc_from b' l.
Proof. destruct l as [|x r]; [auto|]. cbn. intros Hle [H1 H2]. split; [lia|exact H2]. Qed.

Lemma pick_height ph sh :
  h_height (pick_head ph sh) = match ph with Some p => N.max (h_height sh) (h_height p) | None => h_height sh end.
Proof. unfold pick_head. destruct ph as [p|]; [|reflexivity]. destruct (N.ltb_spec (h_height sh) (h_height p)); lia. Qed.

Lemma local_head_slh x c :
  J c -> good x -> h_height (local_head c) < h_height x -> h_height (local_head (slh x c)) <= h_height x.
Proof.
  intros HJ [Hxc Hxk] Hlt. pose proof HJ as [[Hcc Hck] Hri Hpg Hth Hmu Hl].
  destruct (slh_cases x c Hck) as [[Hh E]|[[Hh [E|E]]|[[Hh E]|[Hh E]]]]; rewrite E; clear E.
  - unfold local_head in *. cbn. lia.
  - lia.
  - unfold local_head in *. cbn. lia.
  - unfold local_head in *. cbn. rewrite pick_height in *. destruct (ranges_head (c_pend c)); lia.
  - assert (Hgt : forall y, In y (ranges_all (c_pend c)) -> h_height y < h_height x).
    { intros y Hy. destruct (local_head_spec c Hri) as (_ & Hm & _). specialize (Hm y Hy). lia. }
    unfold local_head. cbn. rewrite pick_height.
    pose proof (rinv_head _ (rinv_add x _ Hri Hxk)) as Hhd.
    destruct (ranges_head (ranges_add x (c_pend c))) as [m|]; [|lia].
    destruct Hhd as [Hin _]. rewrite pall_add in Hin by assumption. apply in_app_or in Hin.
    destruct Hin as [Hin|[<-|[]]]; [specialize (Hgt m Hin); lia|lia].
Qed.

Lemma J_slh_all w : forall c,
  J c -> Forall good w -> asc_from (h_height (local_head c)) w -> J (slh_all w c).
Proof.
  induction w as [|x w IH]; intros c HJ Hg Ha; [exact HJ|].
  inversion Hg as [|? ? Hx Hw]; subst. destruct Ha as [Hlt Ha].
  change (slh_all (x :: w) c) with (slh_all w (slh x c)).
  apply IH; [apply J_slh; assumption|exact Hw|].
  eapply asc_from_weaken; [|exact Ha]. apply local_head_slh; assumption.
Qed.

(** what the drivers' bifurcation oracle may promote in the honest world *)
Definition bif_honest (t x : hdr) (b : bifres) : Prop :=
  let '(Bif pr ok) := b in Forall good pr /\ asc_from (h_height t) (pr ++ if ok then [x] else []).

Definition honest_ev (c : cfg) (e : hev) : Prop :=
  match e with
  | HGossip x now b =>
    good x /\
    match Verify now drift tv (local_head c) x with
    | Some e => if ve_soft e then bif_honest (local_head c) x b else True
    | None => True
    end
  | HHead a => match a with Some x => good x | None => True end
  | HStep a => honest_ans c a
  end.

Fixpoint honest_run (i : nat) (c : cfg) (es : list hev) : Prop :=
  match es with
  | [] => True
  | e :: r => honest_ev c e /\ honest_run (next_idx i e) (run drift tv c (compile1 i e)) r
  end.

Lemma l_step_thr a c : c_thr (l_step a c) = c_thr c.
Proof.
  unfold l_step, l_finish, after_req, after_app.
  repeat match goal with
         | |- context [match ?x with _ => _ end] => destruct x
         end; reflexivity.
Qed.

Lemma J_done c w res :
  J c -> Forall good w -> asc_from (h_height (local_head c)) w -> J (done_with c w res).
Proof.
  intros HJ Hg Ha. pose proof (J_slh_all w c HJ Hg Ha) as HJ'.
  destruct (slh_all_thr w c) as (E1 & E2 & _).
  apply (J_ext (slh_all w c)); try reflexivity; [exact HJ'|..].
  - unfold done_with. cbn. rewrite E2. apply (j_mu c HJ).
  - unfold done_with. cbn. apply Forall_app. split; [apply (j_thr c HJ)|constructor; [exists res; reflexivity|constructor]].
Qed.

Lemma J_event i c e :
  J c -> i = length (c_thr c) -> honest_ev c e ->
  J (run drift tv c (compile1 i e)) /\ length (c_thr (run drift tv c (compile1 i e))) = next_idx i e.
Proof.
  intros HJ -> He. destruct e as [x now b|a|a]; cbn [honest_ev next_idx] in *.
  - rewrite (gossip_exec drift tv c x now b (j_mu c HJ)).
    split; [|unfold done_with; cbn; rewrite app_length; cbn; lia].
    destruct He as [Hx Hb]. apply J_done; [exact HJ| |]; unfold gwork, vwork;
      destruct (Verify now drift tv (local_head c) x) as [e|] eqn:Ev.
    + destruct (ve_soft e); [|constructor]. destruct b as [pr ok]. destruct Hb as [Hp _]. cbn [fst].
      apply Forall_app. split; [exact Hp|]. destruct ok; constructor; [exact Hx|constructor].
    + constructor; [exact Hx|constructor].
    + destruct (ve_soft e); [|exact I]. destruct b as [pr ok]. destruct Hb as [_ Ha]. exact Ha.
    + cbn. split; [|exact I]. apply (accept_iff now drift tv) in Ev. destruct Ev as [(_ & _ & _ & Hlt & _) _]. exact Hlt.
  - rewrite (head_exec drift tv c a).
    split; [|unfold done_with; cbn; rewrite app_length; cbn; lia].
    assert (HJd : J (done_with c (fst (hwork c a)) (snd (hwork c a)))).
    { apply J_done; [exact HJ| |]; unfold hwork; destruct a as [x|]; try constructor;
        destruct (N.leb_spec (h_height x) (h_height (local_head c))); try constructor; try exact He; cbn; auto. }
    apply (J_ext _ _ HJd); try reflexivity.
    + cbn. apply (j_mu c HJ).
    + apply (j_thr _ HJd).
  - cbn [compile1 run fold_left step]. split; [apply J_lstep; assumption|rewrite l_step_thr; reflexivity].
Qed.

Lemma J_hist es : forall i c,
  J c -> i = length (c_thr c) -> honest_run i c es -> J (run drift tv c (compile i es)).
Proof.
  induction es as [|e r IH]; intros i c HJ Hi Hr; [exact HJ|].
  destruct Hr as [He Hr]. cbn [compile]. rewrite run_app.
  destruct (J_event i c e HJ Hi He) as [HJ' Hl]. apply IH; [exact HJ'|symmetry; exact Hl|exact Hr].
Qed.


(** *** the statements of C07 *)

(** idle, no trigger, and the last attempt failed: the loop waits for the next head *)
Definition waiting_after_error (c : cfg) : Prop := quiescent c /\ ss_err (c_state c) <> None.

Theorem reaches_target tail k es g :
  tail + N.of_nat k + 1 < two64 ->
  let c0 := init_cfg tail (crun ch tail (S k)) in
  honest_run 0 c0 es -> honest_getter g ->
  let c := run drift tv c0 (compile 0 es) in
  let H := newest_height c in
  exists n, (n <= pot H c)%nat /\
    let c' := l_iter g n c in
    quiescent c' /\ c_loop c' <> LPanic /\
    (length (c_reqs c') <= length (c_reqs c) + N.to_nat (H - rs_head (c_store c)))%nat /\
    (waiting_after_error c \/ reached H c').
Proof.
  intros Hb c0 Hr Hg c H.
  assert (HJ : J c) by (apply J_hist; [apply J_init; exact Hb|reflexivity|exact Hr]).
  destruct (newest_spec c HJ) as [Hbd Hlo]. fold H in Hbd, Hlo.
  destruct (drain_reaches g H c HJ Hbd Hg) as (n & Hn & Hq & HJ' & Hbd' & Hlo' & Hd & Hrq).
  exists n. split; [exact Hn|]. cbn zeta. split; [exact Hq|]. split; [destruct Hq as [E _]; rewrite E; discriminate|].
  split; [unfold reqpot in Hrq; cbn zeta in Hrq; lia|].
  destruct Hd as [Hqc|He].
  - rewrite (iter_quiescent g n c Hqc) in *.
    destruct (ss_err (c_state c)) as [e|] eqn:Ee.
    + left. split; [exact Hqc|rewrite Ee; discriminate].
    + right. apply quiescent_reached; auto.
  - right. apply quiescent_reached; auto.
Qed.

(** a head learned above the subjective head leaves no "waiting after error" state *)
Lemma learn_wakes x c :
  J c -> good x -> h_height (local_head c) < h_height x -> ~ waiting_after_error (slh x c).
Proof.
  intros HJ [Hxc Hxk] Hlt [[E1 E2] E3]. pose proof HJ as [[Hcc Hck] Hri Hpg Hth Hmu Hl].
  destruct (slh_cases x c Hck) as [[Hh E]|[[Hh [E|E]]|[[Hh E]|[Hh E]]]]; rewrite E in *; clear E; cbn in E1, E2, E3;
    try discriminate E2.
  all: rewrite E1 in Hl; cbn [Jl'] in Hl; destruct Hl as (A & B & C & D & K);
    specialize (K E3); destruct (local_head_spec c Hri) as (_ & Hm & _);
    (destruct (ranges_all (c_pend c)) as [|y0 l0] eqn:Ey; [contradiction|]);
    specialize (B y0 (or_introl eq_refl)); specialize (Hm y0 (or_introl eq_refl)); lia.
Qed.

Lemma slh_newest x c :
  J c -> good x -> h_height (local_head c) < h_height x -> h_height x <= newest_height (slh x c).
Proof.
  intros HJ [Hxc Hxk] Hlt. pose proof HJ as [[Hcc Hck] Hri Hpg Hth Hmu Hl]. unfold newest_height.
  destruct (slh_cases x c Hck) as [[Hh E]|[[Hh [E|E]]|[[Hh E]|[Hh E]]]]; rewrite E; clear E; cbn; try lia.
  assert (Hgt : forall y, In y (ranges_all (c_pend c)) -> h_height y < h_height x).
  { intros y Hy. destruct (local_head_spec c Hri) as (_ & Hm & _). specialize (Hm y Hy). lia. }
  unfold local_head. cbn. rewrite pick_height.
  pose proof (rinv_head _ (rinv_add x _ Hri Hxk)) as Hhd.
  destruct (ranges_head (ranges_add x (c_pend c))) as [m|].
  - destruct Hhd as [_ Hmax]. assert (Hx : In x (ranges_all (ranges_add x (c_pend c)))) by (rewrite pall_add by assumption; apply in_or_app; right; left; reflexivity).
    specialize (Hmax x Hx). lia.
  - rewrite pall_add in Hhd by assumption. destruct (ranges_all (c_pend c)); discriminate.
Qed.

(** after any honest history (in particular after any run of getter errors),
    the next head accepted by verify() or adopted by Head() is reached *)
Theorem next_head_resumes tail k es g x (e : hev) :
  tail + N.of_nat k + 1 < two64 ->
  let c0 := init_cfg tail (crun ch tail (S k)) in
  honest_run 0 c0 es -> honest_getter g ->
  let c1 := run drift tv c0 (compile 0 es) in
  good x -> h_height (local_head c1) < h_height x ->
  (e = HHead (Some x) \/ exists now b, e = HGossip x now b /\ Verify now drift tv (local_head c1) x = None) ->
  let c := run drift tv c1 (compile1 (length (c_thr c1)) e) in
  let H := newest_height c in
  h_height x <= H /\
  exists n, (n <= pot H c)%nat /\ let c' := l_iter g n c in quiescent c' /\ reached H c'.
Proof.
  intros Hb c0 Hr Hg c1 Hx Hlt He c H.
  assert (HJ1 : J c1) by (apply J_hist; [apply J_init; exact Hb|reflexivity|exact Hr]).
  assert (Hc : exists res, c = done_with c1 [x] res <| c_mu := c_mu c1 |>).
  { unfold c. destruct He as [->|(now & b & -> & Ev)].
    - rewrite head_exec. unfold hwork. destruct (N.leb_spec (h_height x) (h_height (local_head c1))); [lia|]. eexists; reflexivity.
    - rewrite (gossip_exec drift tv c1 x now b (j_mu c1 HJ1)). unfold gwork, vwork. rewrite Ev. cbn [fst snd].
      exists true. unfold done_with. apply cfg_ext; cbn; try reflexivity.
      destruct (slh_thr x c1) as (_ & E2 & _). exact E2. }
  destruct Hc as (res & Ec).
  assert (HJs : J (slh x c1)) by (apply J_slh; assumption).
  assert (HJ : J c).
  { rewrite Ec. apply (J_ext (slh x c1)); try reflexivity; [exact HJs| |].
    - cbn. apply (j_mu c1 HJ1).
    - cbn. apply Forall_app. split; [apply (j_thr c1 HJ1)|constructor; [exists res; reflexivity|constructor]]. }
  assert (Hsame : forall P : cfg -> Prop, (forall a b, c_store a = c_store b -> c_cache a = c_cache b -> c_pend a = c_pend b ->
            c_state a = c_state b -> c_trig a = c_trig b -> c_loop a = c_loop b -> P a -> P b) -> P (slh x c1) -> P c).
  { intros P HP Hs. rewrite Ec. eapply HP; [| | | | | |exact Hs]; reflexivity. }
  assert (HH : h_height x <= H).
  { unfold H. apply (Hsame (fun c => h_height x <= newest_height c)).
    - intros a b _ E2 E3 _ _ _. unfold newest_height, local_head. rewrite E2, E3. auto.
    - apply slh_newest; assumption. }
  split; [exact HH|].
  destruct (newest_spec c HJ) as [Hbd Hlo]. fold H in Hbd, Hlo.
  destruct (drain_reaches g H c HJ Hbd Hg) as (n & Hn & Hq & HJ' & Hbd' & Hlo' & Hd & Hrq).
  exists n. split; [exact Hn|]. cbn zeta. split; [exact Hq|].
  destruct Hd as [Hqc|Herr]; [|apply quiescent_reached; auto].
  rewrite (iter_quiescent g n c Hqc) in *.
  destruct (ss_err (c_state c)) as [er|] eqn:Ee; [exfalso|apply quiescent_reached; auto].
  apply (learn_wakes x c1 HJ1 Hx Hlt).
  apply (Hsame (fun c => waiting_after_error c -> waiting_after_error (slh x c1))); [| |split; [exact Hqc|rewrite Ee; discriminate]].
  - intros a b _ _ _ E4 E5 E6 Hab [[Q1 Q2] Q3]. apply Hab. unfold waiting_after_error, quiescent. rewrite E4, E5, E6. auto.
  - auto.
Qed.

End honest.

Section honest2.
Variables (drift : Z) (tv : hdr -> hdr -> tvres) (ch : N -> hdr).
Hypothesis Hch : forall n, h_height (ch n) = n.

Lemma reachable_J tail k es :
  tail + N.of_nat k + 1 < two64 ->
  honest_run drift tv ch 0 (init_cfg tail (crun ch tail (S k))) es ->
  J ch (run drift tv (init_cfg tail (crun ch tail (S k))) (compile 0 es)).
Proof. intros Hb Hr. apply (J_hist drift tv ch Hch); [apply (J_init ch Hch); exact Hb|reflexivity|exact Hr]. Qed.

Lemma gapped_pending tail k es g :
  tail + N.of_nat k + 1 < two64 ->
  let c0 := init_cfg tail (crun ch tail (S k)) in
  honest_run drift tv ch 0 c0 es -> honest_getter ch g ->
  let c := run drift tv c0 (compile 0 es) in
  (2 <= length (ranges_first (c_pend c)))%nat -> ~ waiting_after_error c ->
  exists n, let c' := l_iter g n c in quiescent c' /\ reached ch (newest_height c) c'.
Proof.
  intros Hb c0 Hr Hg c _ Hw.
  destruct (reaches_target drift tv ch Hch tail k es g Hb Hr Hg) as (n & _ & Hq & _ & _ & [Hx|Hx]); [contradiction|].
  exists n. split; assumption.
Qed.

Lemma no_lost_trigger tail k es :
  tail + N.of_nat k + 1 < two64 ->
  let c0 := init_cfg tail (crun ch tail (S k)) in
  honest_run drift tv ch 0 c0 es ->
  let c := run drift tv c0 (compile 0 es) in
  c_loop c = LIdle -> ranges_all (c_pend c) <> [] -> c_trig c = true \/ ss_err (c_state c) <> None.
Proof.
  intros Hb c0 Hr c El Hne. destruct (reachable_J tail k es Hb Hr) as [_ _ _ _ _ Hl]. fold c0 c in Hl.
  rewrite El in Hl. cbn in Hl. destruct Hl as (_ & _ & _ & D & _). apply D. exact Hne.
Qed.

Lemma no_slice_panic tail k es :
  tail + N.of_nat k + 1 < two64 ->
  let c0 := init_cfg tail (crun ch tail (S k)) in
  honest_run drift tv ch 0 c0 es ->
  c_loop (run drift tv c0 (compile 0 es)) <> LPanic.
Proof.
  intros Hb c0 Hr E. destruct (reachable_J tail k es Hb Hr) as [_ _ _ _ _ Hl]. fold c0 in Hl. rewrite E in Hl. exact Hl.
Qed.

End honest2.

(** ** facts that need no invariant *)

(** an answer the loop rejects (error, empty, wrong first height) aborts the
    attempt and touches nothing but State.Error and the program counter *)
Lemma error_aborts c k from to a e :
  c_loop c = LReq k from to -> h_height from < to ->
  ((a = GErr /\ e = SEGetter) \/ (a = GList [] /\ e = SEEmpty) \/
   (exists x l, a = GList (x :: l) /\ h_height x <> wrap64 (h_height from + 1) /\ e = SEFirst)) ->
  let c' := l_step a c in
  c_store c' = c_store c /\ c_cache c' = c_cache c /\ c_pend c' = c_pend c /\ c_trig c' = c_trig c /\
  c_loop c' = LIdle /\ ss_err (c_state c') = Some e /\
  ss_id (c_state c') = ss_id (c_state c) /\ ss_from (c_state c') = ss_from (c_state c) /\ ss_to (c_state c') = ss_to (c_state c).
Proof.
  intros El Hlt Ha. unfold l_step. rewrite El.
  destruct (N.ltb_spec (h_height from) to); [|lia].
  destruct Ha as [[-> ->]|[[-> ->]|(x & l & -> & Hx & ->)]]; unfold l_finish; cbn; try (repeat split; reflexivity).
  destruct (N.eqb_spec (h_height x) (wrap64 (h_height from + 1))); [contradiction|]. cbn. repeat split; reflexivity.
Qed.

(** nothing stored is ever lost: every step only adds to the store *)
Lemma store_grows drift tv c e : exists l, rs_log (c_store (step drift tv c e)) = l ++ rs_log (c_store c).
Proof.
  assert (Happ : forall hs s, exists l, rs_log (rs_append hs s) = l ++ rs_log s) by (intros; eexists; reflexivity).
  destruct e as [h now b|a|a|i]; cbn [step]; try (exists []; reflexivity).
  - unfold l_step, l_finish, after_req, after_app.
    repeat match goal with
           | |- context [match ?x with _ => _ end] => destruct x
           end; cbn; try (exists []; reflexivity); apply Happ.
  - unfold t_step. destruct (nth_error (c_thr c) i) as [t|]; [|exists []; reflexivity].
    unfold t_body, enter, t_next, verdict, set_thr.
    repeat match goal with
           | |- context [match ?x with _ => _ end] => destruct x
           end; cbn; try (exists []; reflexivity); apply Happ.
Qed.

(** ** the slice expressions of Get / Remove / RemoveUpTo are never out of range:
    no step of any goroutine, from any configuration, makes the loop panic *)
Definition wch (n : N) : hdr := Hdr false 1 n (Z.of_N n) n (n - 1) true.

Lemma no_panic_step drift tv c e : c_loop c <> LPanic -> c_loop (step drift tv c e) <> LPanic.
Proof.
  intros Hn. destruct e as [h now b|a|a|i]; cbn [step]; try exact Hn.
  - unfold l_step, l_finish, after_req, after_app.
    destruct (c_loop c) as [| |ph|p|from to|from to|k from to|k hs|k hs nh|k hs|oto lst|] eqn:Elp; try contradiction.
    + destruct (c_trig c); cbn; [discriminate|rewrite Elp; discriminate].
    + cbn; discriminate.
    + cbn; discriminate.
    + destruct (_ <=? _); [|cbn; discriminate].
      destruct (remove_upto_total (h_height (c_cache c)) (c_pend c)) as (rs & ->). cbn. discriminate.
    + destruct (ranges_first (c_pend c)); cbn; discriminate.
    + destruct (c_pend c) as [|r t]; [cbn; discriminate|].
      destruct (range_get_total to r) as (g & ->). destruct g as [|h0 g']; [cbn; discriminate|].
      destruct (_ =? _); cbn; discriminate.
    + destruct (_ <? _).
      * destruct a as [|[|x l]]; cbn; try discriminate. destruct (_ =? _); cbn; discriminate.
      * destruct k; cbn; discriminate.
    + destruct (shim_check (c_cache c) hs); try (cbn; discriminate). destruct k; cbn; discriminate.
    + cbn; discriminate.
    + destruct k; cbn; discriminate.
    + destruct (c_pend c) as [|r t]; [cbn; discriminate|].
      destruct (range_remove_total oto r) as (r' & ->). cbn. discriminate.
  - unfold t_step. destruct (nth_error (c_thr c) i) as [t|]; [|exact Hn].
    replace (c_loop (t_body drift tv i t c)) with (c_loop c); [exact Hn|].
    unfold t_body, enter, t_next, verdict, set_thr.
    repeat match goal with
           | |- context [match ?x with _ => _ end] => destruct x
           end; reflexivity.
Qed.

Lemma no_panic_run drift tv es : forall c, c_loop c <> LPanic -> c_loop (run drift tv c es) <> LPanic.
Proof.
  induction es as [|e es IH]; intros c Hn; [exact Hn|]. cbn [run fold_left]. apply IH. apply no_panic_step. exact Hn.
Qed.


(** since /repo dd38a4c localHead is the higher of pending head and store head:
    in EVERY configuration the subjective head is at or above the shim's store head *)
Lemma local_head_ge_cache (c : cfg) : h_height (c_cache c) <= h_height (local_head c).
Proof. unfold local_head. rewrite pick_height. destruct (ranges_head (c_pend c)); lia. Qed.
