(** Proofs about Model/Syncer.v, part 3 (C07, interleaved learner calls):

    1. the machine as of /repo 40dc6a8 ([astep]: an Append is one step) runs
       inside the finer machine ([step]): [arun_run];
    2. for EVERY schedule of the finer machine and arbitrary well-formed inputs:
       a measure that every enabled step strictly decreases ([step_decreases]);
       when no step is enabled the Syncer is quiescent ([stuck_quiet]);
    3. for every schedule of [astep]: the shim's head is the newest header ever
       handed to the Store, never moves back, and at quiescence is the Store's
       head ([top_*]);
    4. in the honest world (true chain headers, a getter that answers with
       non-empty prefixes of what was asked) no sync attempt fails
       ([H_astep]);
    5. together: [reaches_target_interleaved]. *)
From Coq Require Import List Lia.
From RecordUpdate Require Import RecordSet.
From GH Require Import Base.Prelude Model.Verify Model.Ranges Model.Syncer Proofs.VerifyP Proofs.RangesP Proofs.SyncerP Proofs.SyncerInvP.
Import RecordSetNotations.

Local Arguments ranges_all : simpl never.
Local Arguments Nat.mul : simpl never.
Local Arguments Nat.add : simpl never.
Local Arguments Nat.sub : simpl never.
Local Arguments N.to_nat : simpl never.

(** * enabled steps

    The sync loop can move unless it is idle without a trigger token (a range
    request is always answered: the answer is the event's argument); a learner
    call can move unless it has returned or waits for incomingMu. *)
Definition l_enabled (c : cfg) : Prop :=
  match c_loop c with LIdle => c_trig c = true | LPanic => False | _ => True end.

Definition t_enabled (i : nat) (c : cfg) : Prop :=
  match nth_error (c_thr c) i with
  | None | Some (TDone _) => False
  | Some (TWait _ _ _) => c_mu c = false
  | Some _ => True
  end.

Definition enabled (c : cfg) (e : event) : Prop :=
  match e with ET i => t_enabled i c | EL _ => l_enabled c | _ => False end.

(** * 1. [astep] inside [step] *)
Section fine.
Variables (drift : Z) (tv : hdr -> hdr -> tvres).

Notation step := (step drift tv).
Notation run := (run drift tv).
Notation astep := (astep drift tv).
Notation arun := (arun drift tv).
Notation t_step := (t_step drift tv).
Notation t_astep := (t_astep drift tv).

Fixpoint en_run (c : cfg) (es : list event) : Prop :=
  match es with
  | [] => True
  | e :: r => enabled c e /\ en_run (step c e) r
  end.

Lemma l_astep_fine a c :
  exists n, (n <= 2)%nat /\ l_astep a c = run c (EL a :: repeat (EL GErr) n) /\ en_run (l_step a c) (repeat (EL GErr) n).
Proof.
  unfold l_astep. destruct (c_loop c) as [| |ph|p|from to|from to|k from to|k hs|k hs nh|k hs|oto lst|] eqn:Elp;
    try (exists 0%nat; split; [lia|split; [reflexivity|exact I]]).
  unfold shim_apply. destruct (shim_check (c_cache c) hs) as [| |nh|] eqn:Es.
  - exists 0%nat. split; [lia|]. split; [|exact I]. cbn [repeat run fold_left Syncer.run Syncer.step]. unfold l_step. rewrite Elp, Es. reflexivity.
  - exists 1%nat. split; [lia|]. split.
    + cbn [repeat fold_left Syncer.run Syncer.step]. unfold l_step at 2. rewrite Elp, Es.
      unfold l_step. cbn. unfold after_app. destruct k; apply cfg_ext; reflexivity.
    + cbn [repeat en_run]. split; [|exact I]. unfold enabled, l_enabled, l_step. rewrite Elp, Es. cbn. exact I.
  - exists 2%nat. split; [lia|]. split.
    + cbn [repeat fold_left Syncer.run Syncer.step]. unfold l_step at 3. rewrite Elp, Es.
      unfold l_step at 2. cbn. unfold l_step. cbn. unfold after_app. destruct k; apply cfg_ext; reflexivity.
    + assert (E1 : l_step a c = c <| c_loop := LApp1 k hs nh |>) by (unfold l_step; rewrite Elp, Es; reflexivity).
      rewrite E1. cbn [repeat en_run]. split; [unfold enabled, l_enabled; cbn; exact I|].
      split; [|exact I]. cbn [Syncer.step]. unfold l_step. cbn. unfold enabled, l_enabled. cbn. exact I.
  - exists 0%nat. split; [lia|]. split; [|exact I]. cbn [repeat fold_left Syncer.run Syncer.step]. unfold l_step. rewrite Elp, Es. reflexivity.
Qed.

Lemma t_step_at i t c : nth_error (c_thr c) i = Some t -> t_step i c = t_body drift tv i t c.
Proof. intros H. unfold Syncer.t_step. rewrite H. reflexivity. Qed.

Lemma en_thr i c t : nth_error (c_thr c) i = Some t -> (match t with TDone _ | TWait _ _ _ => False | _ => True end) -> enabled c (ET i).
Proof. intros H Ht. unfold enabled, t_enabled. rewrite H. destruct t; try exact I; destruct Ht. Qed.

Lemma t_astep_fine i c :
  exists n, (n <= 2)%nat /\ t_astep i c = run c (ET i :: repeat (ET i) n) /\ en_run (t_step i c) (repeat (ET i) n).
Proof.
  unfold Syncer.t_astep. destruct (nth_error (c_thr c) i) as [t|] eqn:En; [|exists 0%nat; split; [lia|split; [reflexivity|exact I]]].
  assert (Hi : (i < length (c_thr c))%nat) by (apply nth_error_Some; congruence).
  destruct t as [h now b|h now b ph|a|a ph|sbj a|mu res x st rest|r]; try (exists 0%nat; split; [lia|split; [reflexivity|exact I]]).
  destruct st as [|nh| | | |]; try (exists 0%nat; split; [lia|split; [reflexivity|exact I]]).
  unfold shim_apply. destruct (shim_check (c_cache c) [x]) as [| |nh|] eqn:Es.
  - exists 0%nat. split; [lia|]. split; [|exact I]. cbn [repeat fold_left Syncer.run Syncer.step]. rewrite (t_step_at _ _ _ En). cbn [t_body]. rewrite Es. reflexivity.
  - exists 1%nat. split; [lia|]. split.
    + change (run c (ET i :: repeat (ET i) 1)) with (tsteps drift tv i 2 c).
      rewrite tsteps_S, (tstep_at drift tv i _ c En). cbn [t_body]. rewrite Es.
      rewrite tsteps_S. erewrite tstep_at by (apply set_thr_nth; exact Hi). cbn [t_body].
      unfold tsteps, set_thr. cbn [repeat fold_left Syncer.run]. apply cfg_ext; cbn; rewrite ?upd_upd; reflexivity.
    + cbn [repeat en_run]. split; [|exact I]. rewrite (t_step_at _ _ _ En). cbn [t_body]. rewrite Es.
      eapply en_thr; [apply set_thr_nth; exact Hi|exact I].
  - exists 2%nat. split; [lia|]. split.
    + change (run c (ET i :: repeat (ET i) 2)) with (tsteps drift tv i 3 c).
      rewrite tsteps_S, (tstep_at drift tv i _ c En). cbn [t_body]. rewrite Es.
      rewrite tsteps_S. erewrite tstep_at by (apply set_thr_nth; exact Hi). cbn [t_body].
      rewrite tsteps_S. erewrite tstep_at by (apply set_thr_nth; cbn; rewrite ?upd_length; exact Hi). cbn [t_body].
      unfold tsteps, set_thr. cbn [repeat fold_left Syncer.run]. apply cfg_ext; cbn; rewrite ?upd_upd; reflexivity.
    + cbn [repeat en_run]. rewrite (t_step_at _ _ _ En). cbn [t_body]. rewrite Es.
      split; [eapply en_thr; [apply set_thr_nth; exact Hi|exact I]|]. split; [|exact I].
      cbn [Syncer.step]. erewrite t_step_at by (apply set_thr_nth; exact Hi). cbn [t_body].
      eapply en_thr; [apply set_thr_nth; cbn; rewrite ?upd_length; exact Hi|exact I].
  - exists 0%nat. split; [lia|]. split; [|exact I]. cbn [repeat fold_left Syncer.run Syncer.step]. rewrite (t_step_at _ _ _ En). cbn [t_body]. rewrite Es. reflexivity.
Qed.

(** one step of the machine as of 40dc6a8 = one to three steps of the finer machine, by the same goroutine,
    each of them enabled if the first is *)
Definition again (e : event) (n : nat) : list event :=
  match e with EL _ => repeat (EL GErr) n | ET i => repeat (ET i) n | _ => [] end.

Lemma astep_fine c e :
  exists n, (n <= 2)%nat /\ astep c e = run c (e :: again e n) /\ en_run (step c e) (again e n).
Proof.
  destruct e as [h now b|a|a|i].
  - exists 0%nat. split; [lia|split; [reflexivity|exact I]].
  - exists 0%nat. split; [lia|split; [reflexivity|exact I]].
  - exact (l_astep_fine a c).
  - exact (t_astep_fine i c).
Qed.

Lemma run_app c es es' : run c (es ++ es') = run (run c es) es'.
Proof. unfold Syncer.run. apply fold_left_app. Qed.

Theorem arun_run es : forall c, exists es',
  arun c es = run c es' /\ (forall W : event -> Prop, W (EL GErr) -> (forall i, W (ET i)) -> Forall W es -> Forall W es').
Proof.
  induction es as [|e es IH]; intros c.
  - exists []. split; [reflexivity|]. intros; constructor.
  - destruct (astep_fine c e) as (n & _ & E & _). destruct (IH (astep c e)) as (es' & E' & HW).
    eexists (_ ++ es'). split.
    + cbn [Syncer.arun fold_left]. fold (arun (astep c e) es). rewrite E', E, <- run_app. reflexivity.
    + intros W W1 W2 HF. inversion HF as [|? ? He Hr]; subst. apply Forall_app. split; [|apply HW; assumption].
      constructor; [exact He|]. unfold again. destruct e; try constructor; apply Forall_forall; intros y Hy; apply repeat_spec in Hy; subst; auto.
Qed.
End fine.

(** * 2. every schedule of the finer machine runs into quiescence

    [mu] bounds the number of enabled steps that are left, whatever the
    schedule: a learner call's remaining steps plus, per header it may still
    hand to setLocalHead, the price of one more pending entry ([Bc]: one
    iteration of processHeaders) and of one more trigger ([Ac]: one whole sync
    attempt); the loop's remaining steps in the current attempt ([rem]).
    [D] bounds the heights in play, [E] the pending entries present or still
    to come. *)
Section term.
Variables (drift : Z) (tv : hdr -> hdr -> tvres) (tail : N).
Variables (D E : nat).

Notation step := (step drift tv).
Notation run := (run drift tv).
Notation t_step := (t_step drift tv).
Notation Inv := (Inv tail).
Notation wf_event := (wf_event tail).

Definition hn (y : hdr) : nat := N.to_nat (h_height y).
Definition rq (d : nat) : nat := 4 * d + 1.
Definition dist (to from : N) : nat := N.to_nat (to - from).
Definition Bc : nat := rq D + 8.
Definition Fc : nat := rq D + 4.
Definition Ac : nat := 5 + E * Bc + Fc.
Definition item : nat := 7 + Bc + Ac.
Definition npend (c : cfg) : nat := length (ranges_all (c_pend c)).
Definition gapb (n : nat) : nat := (n - 1) * Bc + Fc.
Definition base (n : nat) (k : rk) : nat := match k with KFin => 0 | KGap _ _ => gapb n + 6 end.

Definition rem (c : cfg) : nat :=
  let n := npend c in
  match c_loop c with
  | LIdle | LPanic => 0
  | LSync => 4 + n * Bc + Fc
  | LSync1 _ => 3 + n * Bc + Fc
  | LSync2 _ => 2 + n * Bc + Fc
  | LFirst _ _ => 1 + n * Bc + Fc
  | LGet _ _ => n * Bc + Fc
  | LReq k from to => base n k + rq (dist to (h_height from))
  | LApp0 (AKReq k to) hs => base n k + rq (dist to (h_height (last hs hdr_nil))) + 3
  | LApp1 (AKReq k to) hs _ => base n k + rq (dist to (h_height (last hs hdr_nil))) + 2
  | LApp2 (AKReq k to) hs => base n k + rq (dist to (h_height (last hs hdr_nil))) + 1
  | LApp0 (AKCached _) _ => gapb n + 5
  | LApp1 (AKCached _) _ _ => gapb n + 4
  | LApp2 (AKCached _) _ => gapb n + 3
  | LRem _ _ => gapb n + 2
  end.

Definition slw (st : slst) : nat :=
  match st with
  | SL0 => 6 + Bc + Ac | SL1 _ => 5 + Bc + Ac | SL2 => 4 + Bc + Ac | SL3 => 3 + Bc + Ac | SL4 => 2 + Bc + Ac
  | SL5 => 1 + Ac
  end.

Definition tw (t : tpc) : nat :=
  match t with
  | TDone _ => 0
  | TRun _ _ _ st rest => slw st + length rest * item
  | THd1 _ _ => 1 + item
  | THd0c _ _ => 2 + item
  | THd0 _ => 3 + item
  | TVer _ _ (Bif pr _) _ => 1 + (length pr + 1) * item
  | TWait _ _ (Bif pr _) => 2 + (length pr + 1) * item
  end.

(** headers a learner call may still add to pending *)
Definition wk (t : tpc) : nat :=
  match t with
  | TDone _ => 0
  | TRun _ _ _ st rest => (match st with SL5 => 0 | _ => 1 end) + length rest
  | THd0 _ | THd0c _ _ | THd1 _ _ => 1
  | TVer _ _ (Bif pr _) _ | TWait _ _ (Bif pr _) => length pr + 1
  end.

Definition sum (f : tpc -> nat) (T : list tpc) : nat := list_sum (map f T).
Local Arguments sum : simpl never.

Definition mu (c : cfg) : nat := sum tw (c_thr c) + (if c_trig c then Ac else 0) + rem c.

Lemma sum_upd f i t t' T :
  nth_error T i = Some t -> (sum f (upd_nth i t' T) + f t = sum f T + f t')%nat.
Proof.
  unfold sum, list_sum. revert i. induction T as [|a T IH]; intros [|i] H; try discriminate.
  - injection H as <-. cbn [upd_nth map fold_right]. lia.
  - cbn [upd_nth map fold_right]. specialize (IH i H). lia.
Qed.

Lemma sum_app f T t : sum f (T ++ [t]) = (sum f T + f t)%nat.
Proof. unfold sum. rewrite map_app, list_sum_app. cbn. lia. Qed.

(** candidates a learner call has not decided on yet *)
Definition cands (t : tpc) : list hdr :=
  match t with
  | TWait h _ (Bif pr _) | TVer h _ (Bif pr _) _ => h :: pr
  | THd0 (Some a) | THd0c (Some a) _ | THd1 _ (Some a) => [a]
  | _ => []
  end.

Definition rk_tos (k : rk) : list N := match k with KGap _ oto => [oto] | KFin => [] end.
Definition lto (pc : lpc) : list N :=
  match pc with
  | LFirst _ to | LGet _ to => [to]
  | LReq k _ to => to :: rk_tos k
  | LApp0 k _ | LApp1 k _ _ | LApp2 k _ => match k with AKReq k' to => to :: rk_tos k' | AKCached oto => [oto] end
  | LRem oto _ => [oto]
  | _ => []
  end.

(** the bounds [D], [E] *)
Record bnd (c : cfg) : Prop := MkBnd {
  b_all : forall y, In y (all_hdrs c) -> (hn y <= D)%nat;
  b_cand : forall y, In y (flat_map cands (c_thr c)) -> (hn y <= D)%nat;
  b_to : forall t, In t (lto (c_loop c)) -> (N.to_nat t <= D)%nat;
  b_E : (npend c + sum wk (c_thr c) <= E)%nat
}.

(** structure the measure relies on, kept by every step *)
Definition holds (t : tpc) : Prop :=
  match t with TVer _ _ _ _ => True | TRun true _ _ _ _ => True | _ => False end.

Definition fst_ok (oto : N) (P : ranges) : Prop :=
  exists r t a l, P = r :: t /\ r_hdrs r = a :: l /\ h_height a <= oto.

Definition rk_oto (k : rk) : option N := match k with KGap _ oto => Some oto | KFin => None end.
Definition loop_oto (pc : lpc) : option N :=
  match pc with
  | LReq k _ _ => rk_oto k
  | LApp0 k _ | LApp1 k _ _ | LApp2 k _ => match k with AKReq k' _ => rk_oto k' | AKCached oto => Some oto end
  | LRem oto _ => Some oto
  | _ => None
  end.

Record Sinv (c : cfg) : Prop := MkSinv {
  s_pos : forall y, In y (ranges_all (c_pend c)) -> 1 <= h_height y;
  s_sl4 : forall i mu res x st rest, nth_error (c_thr c) i = Some (TRun mu res x st rest) -> (st = SL4 \/ st = SL5) -> 1 <= h_height x;
  s_fst : forall oto, loop_oto (c_loop c) = Some oto -> fst_ok oto (c_pend c);
  s_mu : c_mu c = true -> exists i t, nth_error (c_thr c) i = Some t /\ holds t
}.

(** *** arithmetic of the constants *)
Lemma gapb_S n : (1 <= n)%nat -> (gapb n + Bc = n * Bc + Fc)%nat.
Proof. intros H. unfold gapb. destruct n as [|m]; [lia|]. replace (S m - 1)%nat with m by lia. lia. Qed.

Lemma gapb_mono n n' : (n' <= n)%nat -> (gapb n' <= gapb n)%nat.
Proof. intros H. unfold gapb. apply Nat.add_le_mono_r. apply Nat.mul_le_mono_r. lia. Qed.

Lemma gapb_pred n n' : (n' + 1 <= n)%nat -> (n' * Bc + Fc <= gapb n)%nat.
Proof. intros H. unfold gapb. apply Nat.add_le_mono_r. apply Nat.mul_le_mono_r. lia. Qed.

Lemma mulB_mono n n' : (n' <= n)%nat -> (n' * Bc <= n * Bc)%nat.
Proof. intros H. apply Nat.mul_le_mono_r. exact H. Qed.

Lemma gapb_le n : (gapb n <= n * Bc + Fc)%nat.
Proof. unfold gapb. apply Nat.add_le_mono_r. apply Nat.mul_le_mono_r. lia. Qed.

Lemma gapb_add n : (gapb (n + 1) <= gapb n + Bc)%nat.
Proof. unfold gapb. destruct n as [|m]; cbn; [lia|]. replace (S m + 1 - 1)%nat with (S m) by lia. replace (S m - 1)%nat with m by lia. lia. Qed.

Lemma rq_mono d d' : (d' <= d)%nat -> (rq d' <= rq d)%nat.
Proof. unfold rq. lia. Qed.

Lemma dist_le to from : (dist to from <= N.to_nat to)%nat.
Proof. unfold dist. lia. Qed.

Lemma Bc_val : Bc = (rq D + 8)%nat. Proof. reflexivity. Qed.
Lemma Fc_val : Fc = (rq D + 4)%nat. Proof. reflexivity. Qed.
Lemma rq_pos d : (1 <= rq d)%nat. Proof. unfold rq. lia. Qed.

Lemma npend_first c : length (ranges_all (ranges_first (c_pend c))) = npend c.
Proof. unfold npend. rewrite ranges_first_all. reflexivity. Qed.

Lemma l_step_thr' a c : c_thr (l_step a c) = c_thr c.
Proof. apply l_step_thr. Qed.

(** *** the sync loop's steps *)
Lemma first_nonempty_npend c r t h0 g to :
  c_pend c = r :: t -> range_get to r = Some (h0 :: g) -> (1 <= npend c)%nat.
Proof.
  intros EP Eg. unfold npend. rewrite EP. unfold ranges_all. cbn [flat_map]. rewrite app_length.
  assert (Hin : In h0 (r_hdrs r)) by (apply (range_get_sub to r (h0 :: g) h0 Eg); left; reflexivity).
  destruct (r_hdrs r); [destruct Hin|cbn; lia].
Qed.

Lemma sub64_one a : 1 <= a -> sub64 a 1 = a - 1.
Proof. intros H. unfold sub64. destruct (N.leb_spec 1 a); [reflexivity|lia]. Qed.

Ltac nrm c := unfold npend; cbn; fold (npend c).

Lemma l_dec a c :
  Inv c -> Sinv c -> bnd c -> wf_event (EL a) -> l_enabled c -> (mu (l_step a c) < mu c)%nat.
Proof.
  intros HI HS HB Hw Hen. unfold mu. rewrite l_step_thr'.
  pose proof (b_E c HB) as HE. pose proof (i_rinv _ c HI) as Hri.
  pose proof Bc_val as HBv. pose proof Fc_val as HFv. pose proof (rq_pos D) as HrD.
  assert (HnE : (npend c * Bc <= E * Bc)%nat) by (apply mulB_mono; lia).
  pose proof (gapb_le (npend c)) as Hgl.
  unfold l_enabled in Hen. unfold l_step, rem.
  destruct (c_loop c) as [| |ph|p|from to|from to|k from to|k hs|k hs nh|k hs|oto lst|] eqn:Elp.
  - (* LIdle *) rewrite Hen. nrm c. unfold Ac. fold (npend c). lia.
  - nrm c. lia.
  - nrm c. lia.
  - (* LSync2 *) destruct (_ <=? _).
    + destruct (ranges_remove_upto _ _) as [rs|]; nrm c; lia.
    + nrm c. lia.
  - (* LFirst *)
    assert (Hto : (N.to_nat to <= D)%nat) by (apply (b_to c HB); rewrite Elp; left; reflexivity).
    pose proof (dist_le to (h_height from)) as Hd. pose proof (rq_mono D _ (Nat.le_trans _ _ _ Hd Hto)) as Hr.
    pose proof (npend_first c) as Hnf.
    destruct (ranges_first (c_pend c)) as [|r t] eqn:Ef; cbn; [lia|]. unfold npend at 1. cbn [c_pend]. cbn. rewrite Hnf. lia.
  - (* LGet *)
    assert (Hto : (N.to_nat to <= D)%nat) by (apply (b_to c HB); rewrite Elp; left; reflexivity).
    pose proof (dist_le to (h_height from)) as Hd. pose proof (rq_mono D _ (Nat.le_trans _ _ _ Hd Hto)) as Hr.
    destruct (c_pend c) as [|r t] eqn:EP; [nrm c; lia|].
    destruct (range_get to r) as [[|h0 g]|] eqn:Eg; [nrm c; lia| |nrm c; lia].
    pose proof (first_nonempty_npend c r t h0 g to EP Eg) as Hn1. pose proof (gapb_S _ Hn1) as Hg.
    assert (Hin : In h0 (ranges_all (c_pend c))).
    { rewrite EP. unfold ranges_all. cbn [flat_map]. apply in_or_app. left. apply (range_get_sub to r (h0 :: g) h0 Eg). left. reflexivity. }
    destruct (wrap64 (h_height from + 1) =? h_height h0); nrm c; [lia|].
    assert (Hh0 : (hn h0 <= D)%nat).
    { apply (b_all c HB). unfold all_hdrs. apply in_or_app. right. right. apply in_or_app. left. exact Hin. }
    pose proof (s_pos c HS h0 Hin) as Hp1. rewrite (sub64_one _ Hp1).
    assert (Hd' : (dist (h_height h0 - 1) (h_height from) <= D)%nat) by (unfold dist, hn in *; lia).
    pose proof (rq_mono D _ Hd') as Hr'. lia.
  - (* LReq *)
    destruct (N.ltb_spec (h_height from) to) as [Hlt|Hge].
    + assert (Hb1 : (1 <= base (npend c) k + rq (dist to (h_height from)))%nat) by (pose proof (rq_pos (dist to (h_height from))); lia).
      destruct a as [|[|x l]]; try (unfold l_finish; nrm c; lia).
      destruct (N.eqb_spec (h_height x) (wrap64 (h_height from + 1))) as [Ex|Nx]; [|unfold l_finish; nrm c; lia].
      nrm c.
      destruct Hw as [Hk Hc].
      assert (Hpf : hok from).
      { apply (loop_P tail c from HI). rewrite Elp. left. reflexivity. }
      rewrite (wrap_succ _ Hpf) in Ex.
      pose proof (consec_bounds x l Hc (last (x :: l) hdr_nil)) as Hlb.
      assert (Hl : In (last (x :: l) hdr_nil) (x :: l)) by (apply in_last; discriminate).
      specialize (Hlb Hl). destruct Hlb as [Hlb _].
      assert (Hd : (dist to (h_height (last (x :: l) hdr_nil)) + 1 <= dist to (h_height from))%nat) by (unfold dist; lia).
      change (match l with [] => x | _ :: _ => last l hdr_nil end) with (last (x :: l) hdr_nil). unfold rq. lia.
    + unfold after_req. destruct k as [cached oto|]; [nrm c; cbn [base]; pose proof (rq_pos (dist to (h_height from))); lia|].
      unfold l_finish. nrm c. pose proof (rq_pos (dist to (h_height from))). lia.
  - (* LApp0 *)
    destruct (shim_check (c_cache c) hs); unfold after_app, l_finish; destruct k as [k' to|oto]; nrm c; unfold last_hdr; lia.
  - destruct k as [k' to|oto]; nrm c; lia.
  - unfold after_app; destruct k as [k' to|oto]; nrm c; unfold last_hdr; lia.
  - (* LRem *)
    destruct (s_fst c HS oto) as (r & t & a0 & l0 & EP & Er & Ha0); [rewrite Elp; reflexivity|].
    rewrite EP.
    assert (Hok : range_ok r).
    { rewrite EP in Hri. cbn [rinv] in Hri. rewrite Er in Hri. cbn [ne_inv] in Hri. destruct Hri as [Hok _]. exact Hok. }
    destruct (get_remove_spec r a0 l0 Er Hok oto) as (g & r' & _ & Erm & Esp & Hle & Hgt & _).
    rewrite Erm. nrm c.
    assert (Hg : g <> []).
    { intros ->. cbn in Esp. rewrite Er in Esp. assert (Hin : In a0 (r_hdrs r')) by (rewrite <- Esp; left; reflexivity). specialize (Hgt a0 Hin). lia. }
    assert (Hlen : (length (ranges_all (r' :: t)) + 1 <= npend c)%nat).
    { unfold npend. rewrite EP. unfold ranges_all. cbn [flat_map]. rewrite !app_length, Esp, app_length. destruct g; [contradiction|nrm c; lia]. }
    unfold npend at 1. cbn [c_pend]. cbn.
    fold (npend c). pose proof (gapb_pred (npend c) _ Hlen). lia.
  - destruct Hen.
Qed.

(** *** learner calls' steps *)
Lemma add_len x P : rinv P -> (length (ranges_all (ranges_add x P)) <= length (ranges_all P) + 1)%nat.
Proof.
  intros H. rewrite (ranges_add_all x P H). destruct (ranges_head P) as [m|]; [destruct (_ <=? _)|]; rewrite ?app_length; cbn; lia.
Qed.

Lemma rem_grow c c' :
  c_loop c' = c_loop c -> (npend c' <= npend c + 1)%nat -> (rem c' <= rem c + Bc)%nat.
Proof.
  intros El Hn. unfold rem. rewrite El.
  assert (H1 : (npend c' * Bc <= npend c * Bc + Bc)%nat).
  { replace (npend c * Bc + Bc)%nat with ((npend c + 1) * Bc)%nat by lia. apply mulB_mono. exact Hn. }
  assert (H2 : (gapb (npend c') <= gapb (npend c) + Bc)%nat).
  { eapply Nat.le_trans; [apply gapb_mono; exact Hn|apply gapb_add]. }
  destruct (c_loop c) as [| |ph|p|from to|from to|k from to|k hs|k hs nh|k hs|oto lst|]; try lia;
    try (destruct k as [[cached oto|] to|oto]; cbn [base]; lia).
  destruct k as [cached oto|]; cbn [base]; lia.
Qed.

Lemma rem_same c c' : c_loop c' = c_loop c -> npend c' = npend c -> rem c' = rem c.
Proof. intros El Hn. unfold rem. rewrite El, Hn. reflexivity. Qed.

Lemma rem_ext c c' : c_loop c' = c_loop c -> c_pend c' = c_pend c -> rem c' = rem c.
Proof. intros El Ep. apply rem_same; [exact El|unfold npend; rewrite Ep; reflexivity]. Qed.

Ltac remx c :=
  repeat match goal with
         | |- context [rem ?c'] => lazymatch c' with c => fail | _ => rewrite (rem_ext c c') by reflexivity end
         end.

Lemma item_val : item = (7 + Bc + Ac)%nat. Proof. reflexivity. Qed.

Lemma verdict_tw now b t x pr ok : b = Bif pr ok -> (tw (verdict drift tv now b t x) <= (length pr + 1) * item)%nat.
Proof.
  intros ->. unfold verdict. pose proof item_val as Hi.
  destruct (Verify now drift tv t x) as [e|].
  - destruct (ve_soft e); [|cbn; lia].
    destruct (pr ++ (if ok then [x] else [])) as [|y r] eqn:Ew; [cbn; lia|].
    cbn [tw slw].
    assert (Hl : (length (y :: r) <= length pr + 1)%nat) by (rewrite <- Ew, app_length; destruct ok; cbn; lia).
    cbn [length] in Hl.
    assert (Hm : (length r * item + item <= (length pr + 1) * item)%nat).
    { replace (length r * item + item)%nat with ((length r + 1) * item)%nat by lia. apply Nat.mul_le_mono_r. lia. }
    lia.
  - cbn. lia.
Qed.

Lemma t_dec i c : Inv c -> t_enabled i c -> (mu (t_step i c) < mu c)%nat.
Proof.
  intros HI Hen. unfold t_enabled in Hen. unfold Syncer.t_step.
  destruct (nth_error (c_thr c) i) as [t|] eqn:En; [|destruct Hen].
  pose proof (i_rinv _ c HI) as Hri. pose proof item_val as Hiv.
  assert (Hsum : forall t', (sum tw (upd_nth i t' (c_thr c)) + tw t = sum tw (c_thr c) + tw t')%nat) by (intros t'; apply sum_upd; exact En).
  unfold mu.
  destruct t as [h now b|h now b ph|a|a ph|sbj a|m res x st rest|r]; cbn [t_body].
  - (* TWait *) rewrite Hen. destruct b as [pr ok]. specialize (Hsum (TVer h now (Bif pr ok) (ranges_head (c_pend c)))).
    unfold set_thr. cbn. remx c.
    cbn [tw] in Hsum. lia.
  - (* TVer *) destruct b as [pr ok].
    pose proof (verdict_tw now (Bif pr ok) (pick_head ph (c_cache c)) h pr ok eq_refl) as Hv.
    remember (verdict drift tv now (Bif pr ok) (pick_head ph (c_cache c)) h) as v eqn:Ev. clear Ev.
    specialize (Hsum v). cbn [tw] in Hsum.
    unfold enter. destruct v; unfold set_thr; cbn;
      remx c; lia.
  - specialize (Hsum (THd0c a (ranges_head (c_pend c)))). unfold set_thr. cbn. remx c. cbn [tw] in Hsum. lia.
  - specialize (Hsum (THd1 (pick_head ph (c_cache c)) a)). unfold set_thr. cbn. remx c. cbn [tw] in Hsum. lia.
  - (* THd1 *) destruct a as [x|].
    + destruct (_ <=? _).
      * specialize (Hsum (TDone false)). unfold set_thr. cbn. remx c. cbn [tw] in Hsum. lia.
      * specialize (Hsum (TRun false true x SL0 [])). unfold set_thr. cbn. remx c. cbn [tw slw length] in Hsum. lia.
    + specialize (Hsum (TDone false)). unfold set_thr. cbn. remx c. cbn [tw] in Hsum. lia.
  - (* TRun *)
    assert (Hnext : forall c0, c_thr c0 = c_thr c -> c_loop c0 = c_loop c ->
              (sum tw (c_thr (t_next i m res rest c0)) + tw (TRun m res x st rest) + item <= sum tw (c_thr c) + slw st + length rest * item + item /\
               sum tw (c_thr (t_next i m res rest c0)) + slw st + length rest * item <= sum tw (c_thr c) + (length rest * item))%nat
              /\ c_trig (t_next i m res rest c0) = c_trig c0 /\ c_loop (t_next i m res rest c0) = c_loop c /\ c_pend (t_next i m res rest c0) = c_pend c0).
    { intros c0 Et El. unfold t_next. destruct rest as [|y r0].
      - pose proof (Hsum (TDone res)) as H1. cbn [tw] in H1. destruct m; unfold set_thr; cbn; rewrite Et; cbn [length tw slw] in *; repeat split; try lia; try exact El.
      - pose proof (Hsum (TRun m res y SL0 r0)) as H1. cbn [tw slw length] in H1. unfold set_thr; cbn; rewrite Et; cbn [length tw slw] in *. repeat split; try lia; try exact El. }
    destruct st as [|nh| | | |].
    + destruct (shim_check (c_cache c) [x]) as [| |nh|].
      * specialize (Hsum (TRun m res x SL3 rest)). unfold set_thr. cbn. remx c. cbn [tw slw] in Hsum. lia.
      * specialize (Hsum (TRun m res x SL2 rest)). unfold set_thr. cbn. remx c. cbn [tw slw] in Hsum. lia.
      * specialize (Hsum (TRun m res x (SL1 nh) rest)). unfold set_thr. cbn. remx c. cbn [tw slw] in Hsum. lia.
      * specialize (Hsum (TRun m res x SL3 rest)). unfold set_thr. cbn. remx c. cbn [tw slw] in Hsum. lia.
    + specialize (Hsum (TRun m res x SL2 rest)). unfold set_thr. cbn. remx c. cbn [tw slw] in Hsum. lia.
    + specialize (Hsum (TRun m res x SL3 rest)). unfold set_thr. cbn. remx c. cbn [tw slw] in Hsum. lia.
    + (* SL3 *) destruct (_ <=? _).
      * destruct (Hnext c eq_refl eq_refl) as ((_ & H2) & Htr & Hl & Hp). rewrite Htr.
        rewrite (rem_ext c (t_next i m res rest c)) by (try exact Hl; rewrite Hp; reflexivity).
        cbn [slw] in H2. lia.
      * specialize (Hsum (TRun m res x SL4 rest)). unfold set_thr. cbn. remx c. cbn [tw slw] in Hsum. lia.
    + (* SL4: pending.Add *)
      specialize (Hsum (TRun m res x SL5 rest)). cbn [tw slw] in Hsum.
      pose proof (add_len x (c_pend c) Hri) as Hal.
      assert (Hg : (rem (set_thr i (TRun m res x SL5 rest) (c <| c_pend ::= ranges_add x |>)) <= rem c + Bc)%nat).
      { apply rem_grow; [reflexivity|]. unfold npend, set_thr. cbn. exact Hal. }
      unfold set_thr in *. cbn. cbn in Hg. lia.
    + (* SL5: wantSync *)
      match goal with |- context [t_next i m res rest ?c1] =>
        destruct (Hnext c1 eq_refl eq_refl) as ((_ & H2) & Htr & Hl & Hp); rewrite Htr;
        rewrite (rem_ext c (t_next i m res rest c1)) by (try exact Hl; rewrite Hp; reflexivity) end.
      cbn. cbn [slw] in H2. destruct (c_trig c); lia.
  - destruct Hen.
Qed.

(** *** the bounds are kept while no new call is spawned and the getter's answers stay within [D] *)
Definition ans_ok (e : event) : Prop :=
  match e with EL (GList hs) => forall y, In y hs -> (hn y <= D)%nat | _ => True end.

Lemma range_remove_len e r r' : range_remove e r = Some r' -> (length (r_hdrs r') <= length (r_hdrs r))%nat.
Proof.
  unfold range_remove. destruct (_ <=? _); [|discriminate]. intros [= <-]. cbn. rewrite skipn_length. lia.
Qed.

Lemma l_step_npend a c : (npend (l_step a c) <= npend c)%nat.
Proof.
  unfold l_step, l_finish, after_req, after_app.
  destruct (c_loop c) as [| |ph|p|from to|from to|k from to|k hs|k hs nh|k hs|oto lst|] eqn:Elp; unfold npend.
  - destruct (c_trig c); cbn; lia.
  - cbn; lia.
  - cbn; lia.
  - destruct (_ <=? _); [|cbn; lia]. destruct (ranges_remove_upto _ _) as [rs|] eqn:Er; cbn; [|lia]. apply (remove_upto_len _ _ _ Er).
  - pose proof (npend_first c) as H. unfold npend in H. destruct (ranges_first (c_pend c)) eqn:Ef; cbn; rewrite ?Ef in H; cbn in H; lia.
  - destruct (c_pend c) as [|r t] eqn:EP; [cbn; rewrite EP; lia|]. destruct (range_get to r) as [[|h0 g]|]; try (cbn; rewrite EP; lia). destruct (_ =? _); cbn; rewrite EP; lia.
  - destruct (_ <? _).
    + destruct a as [|[|x l]]; try (cbn; lia). destruct (_ =? _); cbn; lia.
    + destruct k; cbn; lia.
  - destruct (shim_check _ _); destruct k; cbn; lia.
  - cbn; lia.
  - destruct k; cbn; lia.
  - destruct (c_pend c) as [|r t] eqn:EP; [cbn; rewrite EP; cbn; lia|]. destruct (range_remove oto r) as [r'|] eqn:Er; cbn; rewrite ?EP; [|lia].
    unfold ranges_all. cbn [flat_map]. rewrite !app_length. pose proof (range_remove_len _ _ _ Er). lia.
  - cbn; lia.
Qed.

Ltac oldto := let q := fresh "q" in let Hq := fresh "Hq" in (intros q Hq; cbn in Hq; try tauto; match goal with Hold : forall _, In _ _ -> _ |- _ => apply Hold; cbn; tauto end).

Lemma bnd_l a c : Inv c -> Sinv c -> bnd c -> ans_ok (EL a) -> bnd (l_step a c).
Proof.
  intros HI HS HB Ha. constructor.
  - intros y Hy. destruct (flow_l drift tv a c y (i_pc _ c HI) Hy) as [H|H]; [apply (b_all c HB); exact H|].
    unfold enters in H. destruct (c_loop c); try destruct H. destruct a as [|[|x l]]; try destruct H.
    destruct (_ && _); [|destruct H]. apply Ha. exact H.
  - rewrite l_step_thr'. apply (b_cand c HB).
  - assert (Hold : forall q0, In q0 (lto (c_loop c)) -> (N.to_nat q0 <= D)%nat) by (apply (b_to c HB)).
    unfold l_step, l_finish, after_req, after_app.
    destruct (c_loop c) as [| |ph|p|from to|from to|k from to|k hs|k hs nh|k hs|oto lst|] eqn:Elp.
    + destruct (c_trig c); cbn; [intros q0 []|rewrite Elp; intros q0 []].
    + cbn. intros q0 [].
    + cbn. intros q0 [].
    + destruct (_ <=? _).
      * destruct (ranges_remove_upto _ _); cbn; intros q0 [].
      * cbn. intros q0 [<-|[]]. apply (b_all c HB p). unfold all_hdrs. rewrite Elp. apply in_or_app. right. right. apply in_or_app. right. apply in_or_app. left. left. reflexivity.
    + destruct (ranges_first (c_pend c)); cbn; oldto.
    + destruct (c_pend c) as [|r t] eqn:EP; [cbn; oldto|].
      destruct (range_get to r) as [[|h0 g]|] eqn:Eg; try (cbn; oldto).
      destruct (_ =? _); cbn; [oldto|].
      assert (Hin : In h0 (ranges_all (c_pend c))).
      { rewrite EP. unfold ranges_all. cbn [flat_map]. apply in_or_app. left. apply (range_get_sub to r (h0 :: g) h0 Eg). left. reflexivity. }
      assert (Hh0 : (hn h0 <= D)%nat).
      { apply (b_all c HB). unfold all_hdrs. apply in_or_app. right. right. apply in_or_app. left. exact Hin. }
      pose proof (s_pos c HS h0 Hin) as Hp1. rewrite (sub64_one _ Hp1).
      intros q0 [<-|[<-|[]]]; [unfold hn in Hh0; lia|apply Hold; cbn; tauto].
    + destruct (_ <? _).
      * destruct a as [|[|x l]]; try (cbn; oldto). destruct (_ =? _); cbn; oldto.
      * destruct k as [cached oto|]; cbn; oldto.
    + destruct (shim_check _ _); destruct k as [k' to|oto]; cbn; oldto.
    + cbn. oldto.
    + destruct k as [k' to|oto]; cbn; oldto.
    + destruct (c_pend c) as [|r t]; [cbn; oldto|].
      destruct (range_remove oto r); cbn; oldto.
    + cbn. rewrite Elp. intros q0 [].
  - rewrite l_step_thr'. pose proof (l_step_npend a c). pose proof (b_E c HB). lia.
Qed.

(** the same for any downward-closed property of the loop's target heights *)
Lemma lto_l (Q : N -> Prop) a c :
  Sinv c -> (forall y, In y (all_hdrs c) -> Q (h_height y)) -> (forall n, 1 <= n -> Q n -> Q (n - 1)) ->
  (forall t, In t (lto (c_loop c)) -> Q t) -> forall t, In t (lto (c_loop (l_step a c))) -> Q t.
Proof.
  intros HS Hall Hdown Hold.
  unfold l_step, l_finish, after_req, after_app.
  destruct (c_loop c) as [| |ph|p|from to|from to|k from to|k hs|k hs nh|k hs|oto lst|] eqn:Elp.
  + destruct (c_trig c); cbn; [intros q0 []|rewrite Elp; intros q0 []].
  + cbn. intros q0 [].
  + cbn. intros q0 [].
  + destruct (_ <=? _).
    * destruct (ranges_remove_upto _ _); cbn; intros q0 [].
    * cbn. intros q0 [<-|[]]. apply (Hall p). unfold all_hdrs. rewrite Elp. apply in_or_app. right. right. apply in_or_app. right. apply in_or_app. left. left. reflexivity.
  + destruct (ranges_first (c_pend c)); cbn; oldto.
  + destruct (c_pend c) as [|r t] eqn:EP; [cbn; oldto|].
    destruct (range_get to r) as [[|h0 g]|] eqn:Eg; try (cbn; oldto).
    destruct (_ =? _); cbn; [oldto|].
    assert (Hin : In h0 (ranges_all (c_pend c))).
    { rewrite EP. unfold ranges_all. cbn [flat_map]. apply in_or_app. left. apply (range_get_sub to r (h0 :: g) h0 Eg). left. reflexivity. }
    assert (Hh0 : Q (h_height h0)).
    { apply Hall. unfold all_hdrs. apply in_or_app. right. right. apply in_or_app. left. exact Hin. }
    pose proof (s_pos c HS h0 Hin) as Hp1. rewrite (sub64_one _ Hp1).
    intros q0 [<-|[<-|[]]]; [apply Hdown; assumption|apply Hold; cbn; tauto].
  + destruct (_ <? _).
    * destruct a as [|[|x l]]; try (cbn; oldto). destruct (_ =? _); cbn; oldto.
    * destruct k as [cached oto|]; cbn; oldto.
  + destruct (shim_check _ _); destruct k as [k' to|oto]; cbn; oldto.
  + cbn. oldto.
  + destruct k as [k' to|oto]; cbn; oldto.
  + destruct (c_pend c) as [|r t]; [cbn; oldto|].
    destruct (range_remove oto r); cbn; oldto.
  + cbn. rewrite Elp. intros q0 [].
Qed.

Lemma verdict_wk now t x pr ok : (wk (verdict drift tv now (Bif pr ok) t x) <= length pr + 1)%nat /\ cands (verdict drift tv now (Bif pr ok) t x) = [].
Proof.
  unfold verdict. destruct (Verify now drift tv t x) as [e|]; [|cbn; split; [lia|reflexivity]].
  destruct (ve_soft e); [|cbn; split; [lia|reflexivity]].
  destruct (pr ++ (if ok then [x] else [])) as [|y r] eqn:Ew; [cbn; split; [lia|reflexivity]|].
  cbn [wk cands]. split; [|reflexivity].
  assert (Hl : (length (y :: r) <= length pr + 1)%nat) by (rewrite <- Ew, app_length; destruct ok; cbn; lia).
  cbn [length] in Hl. lia.
Qed.

Lemma vwork_sub t x now pr ok y : In y (fst (vwork drift tv t x now (Bif pr ok))) -> In y (x :: pr).
Proof.
  unfold vwork. destruct (Verify now drift tv t x) as [e|]; [|cbn; tauto].
  destruct (ve_soft e); [|cbn; tauto]. cbn [fst]. intros H. apply in_app_or in H. destruct H as [H|H]; [right; exact H|].
  destruct ok; [destruct H as [<-|[]]; left; reflexivity|destruct H].
Qed.

Lemma nth_upd_id {A} (l : list A) i a : nth_error l i = Some a -> upd_nth i a l = l.
Proof. revert i. induction l as [|x l IH]; intros [|i] H; try discriminate; cbn in *; [congruence|rewrite (IH i H); reflexivity]. Qed.

Lemma enter_frame i v c : c_thr (enter i v c) = upd_nth i v (c_thr c) /\ c_loop (enter i v c) = c_loop c /\ c_pend (enter i v c) = c_pend c.
Proof. unfold enter, set_thr. destruct v; cbn; repeat split; reflexivity. Qed.

(** one step of learner call [i]: what it does to the thread list, pending and the work still to come *)
Lemma t_shape i c t :
  rinv (c_pend c) -> nth_error (c_thr c) i = Some t ->
  exists t', c_thr (t_step i c) = upd_nth i t' (c_thr c) /\ c_loop (t_step i c) = c_loop c /\
    incl (cands t') (cands t) /\ (npend (t_step i c) + wk t' <= npend c + wk t)%nat.
Proof.
  intros Hri En. unfold Syncer.t_step. rewrite En.
  destruct t as [h now b|h now b ph|a|a ph|sbj a|m res x st rest|r]; cbn [t_body].
  - destruct (c_mu c); [exists (TWait h now b); rewrite (nth_upd_id _ _ _ En); repeat split; [apply incl_refl|lia]|].
    exists (TVer h now b (ranges_head (c_pend c))). unfold set_thr, npend. cbn. destruct b. repeat split; [apply incl_refl|lia].
  - destruct b as [pr ok]. destruct (verdict_wk now (pick_head ph (c_cache c)) h pr ok) as [Hw Hc].
    exists (verdict drift tv now (Bif pr ok) (pick_head ph (c_cache c)) h).
    destruct (enter_frame i (verdict drift tv now (Bif pr ok) (pick_head ph (c_cache c)) h) c) as (E1 & E2 & E3).
    unfold npend. rewrite E3. repeat split; [exact E1|exact E2|rewrite Hc; intros y []|cbn [wk]; lia].
  - exists (THd0c a (ranges_head (c_pend c))). unfold set_thr, npend. cbn. repeat split; [destruct a; apply incl_refl|lia].
  - exists (THd1 (pick_head ph (c_cache c)) a). unfold set_thr, npend. cbn. repeat split; [destruct a; apply incl_refl|lia].
  - destruct a as [x|].
    + destruct (_ <=? _).
      * exists (TDone false). unfold set_thr, npend. cbn. repeat split; [intros y []|lia].
      * exists (TRun false true x SL0 []). unfold set_thr, npend. cbn. repeat split; [intros y []|lia].
    + exists (TDone false). unfold set_thr, npend. cbn. repeat split; [intros y []|lia].
  - assert (Hnext : forall c0, c_thr c0 = c_thr c -> c_loop c0 = c_loop c ->
              exists t', c_thr (t_next i m res rest c0) = upd_nth i t' (c_thr c) /\ c_loop (t_next i m res rest c0) = c_loop c /\
                cands t' = [] /\ wk t' = length rest /\ c_pend (t_next i m res rest c0) = c_pend c0).
    { intros c0 Et El. unfold t_next. destruct rest as [|y r0].
      - exists (TDone res). destruct m; unfold set_thr; cbn; rewrite Et; repeat split; exact El.
      - exists (TRun m res y SL0 r0). unfold set_thr; cbn; rewrite Et. repeat split; exact El. }
    destruct st as [|nh| | | |].
    + destruct (shim_check (c_cache c) [x]) as [| |nh|]; eexists; unfold set_thr, npend; cbn; (repeat split; [intros y []|cbn; lia]).
    + eexists; unfold set_thr, npend; cbn; (repeat split; [intros y []|cbn; lia]).
    + eexists; unfold set_thr, npend; cbn; (repeat split; [intros y []|cbn; lia]).
    + destruct (_ <=? _).
      * destruct (Hnext c eq_refl eq_refl) as (t' & E1 & E2 & E3 & E4 & E5). exists t'. unfold npend. rewrite E5, E3, E4. cbn.
        repeat split; [exact E1|exact E2|intros y []|lia].
      * eexists; unfold set_thr, npend; cbn; (repeat split; [intros y []|cbn; lia]).
    + eexists; unfold set_thr, npend; cbn. pose proof (add_len x (c_pend c) Hri). (repeat split; [intros y []|cbn; lia]).
    + match goal with |- context [t_next i m res rest ?c1] => destruct (Hnext c1 eq_refl eq_refl) as (t' & E1 & E2 & E3 & E4 & E5) end.
      exists t'. unfold npend. rewrite E5, E3, E4. cbn. repeat split; [exact E1|exact E2|intros y []|lia].
  - exists (TDone r). rewrite (nth_upd_id _ _ _ En). unfold npend. repeat split; [apply incl_refl|lia].
Qed.

Lemma bnd_t i c : Inv c -> bnd c -> bnd (t_step i c).
Proof.
  intros HI HB. destruct (nth_error (c_thr c) i) as [t|] eqn:En.
  2:{ unfold Syncer.t_step. rewrite En. exact HB. }
  destruct (t_shape i c t (i_rinv _ c HI) En) as (t' & Et & El & Hc & Hn).
  constructor.
  - intros y Hy. destruct (flow_t drift tv i c y Hy) as [H|H]; [apply (b_all c HB); exact H|].
    apply (b_cand c HB). apply in_flat_map. exists t. split; [eapply nth_error_In; exact En|].
    unfold enters in H. rewrite En in H.
    destruct t as [h now b|h now b ph|a|a ph|sbj a|m res x st rest|r]; try destruct H.
    + destruct b as [pr ok]. cbn [cands]. apply (vwork_sub _ _ _ _ _ _ H).
    + destruct a as [x|]; [|destruct H]. destruct (_ <=? _); [destruct H|]. destruct H as [<-|[]]. left. reflexivity.
  - intros y Hy. rewrite Et in Hy. apply flat_upd_g in Hy. destruct Hy as [Hy|Hy]; [|apply (b_cand c HB); exact Hy].
    apply (b_cand c HB). apply in_flat_map. exists t. split; [eapply nth_error_In; exact En|apply Hc; exact Hy].
  - rewrite El. apply (b_to c HB).
  - rewrite Et. pose proof (sum_upd wk i t t' (c_thr c) En). pose proof (b_E c HB). lia.
Qed.

(** *** the structural invariant *)
Lemma fst_ok_add x oto P : fst_ok oto P -> fst_ok oto (ranges_add x P).
Proof.
  intros (r & t & a & l & -> & Er & Ha).
  destruct (ranges_add_first x r t) as (r' & t' & Eq1 & _ & ext & Ee & _).
  exists r', t', a, (l ++ ext). split; [exact Eq1|]. split; [rewrite Ee, Er; reflexivity|exact Ha].
Qed.

Lemma l_step_mu a c : c_mu (l_step a c) = c_mu c.
Proof.
  unfold l_step, l_finish, after_req, after_app.
  repeat match goal with |- context [match ?x with _ => _ end] => destruct x end; reflexivity.
Qed.

Lemma l_step_pend_sub a c y : In y (ranges_all (c_pend (l_step a c))) -> In y (ranges_all (c_pend c)).
Proof.
  unfold l_step, l_finish, after_req, after_app.
  destruct (c_loop c) as [| |ph|p|from to|from to|k from to|k hs|k hs nh|k hs|oto lst|] eqn:Elp.
  - destruct (c_trig c); cbn; tauto.
  - cbn; tauto.
  - cbn; tauto.
  - destruct (_ <=? _); [|cbn; tauto]. destruct (ranges_remove_upto _ _) as [rs|] eqn:Er; cbn; [|tauto]. apply (remove_upto_sub _ _ _ _ Er).
  - pose proof (ranges_first_all (c_pend c)) as H. destruct (ranges_first (c_pend c)) eqn:Ef; cbn; rewrite <- H; tauto.
  - destruct (c_pend c) as [|r t] eqn:EP; [cbn; rewrite EP; tauto|]. destruct (range_get to r) as [[|h0 g]|]; try (cbn; rewrite EP; tauto). destruct (_ =? _); cbn; rewrite EP; tauto.
  - destruct (_ <? _).
    + destruct a as [|[|x l]]; try (cbn; tauto). destruct (_ =? _); cbn; tauto.
    + destruct k; cbn; tauto.
  - destruct (shim_check _ _); destruct k; cbn; tauto.
  - cbn; tauto.
  - destruct k; cbn; tauto.
  - destruct (c_pend c) as [|r t] eqn:EP; [cbn; rewrite EP; tauto|]. destruct (range_remove oto r) as [r'|] eqn:Er; cbn; rewrite ?EP; [|tauto].
    unfold ranges_all. cbn [flat_map]. intros H. apply in_app_or in H. apply in_or_app. destruct H as [H|H]; [left; apply (range_remove_sub _ _ _ _ Er H)|right; exact H].
  - cbn; tauto.
Qed.

Lemma get_first_ok to r t h0 g :
  rinv (r :: t) -> range_get to r = Some (h0 :: g) -> fst_ok to (r :: t).
Proof.
  intros Hri Eg.
  assert (Hin : In h0 (r_hdrs r)) by (apply (range_get_sub to r (h0 :: g) h0 Eg); left; reflexivity).
  destruct (r_hdrs r) as [|a l] eqn:Er; [destruct Hin|].
  assert (Hok : range_ok r).
  { cbn [rinv] in Hri. rewrite Er in Hri. cbn [ne_inv] in Hri. destruct Hri as [Hok _]. exact Hok. }
  destruct (get_remove_spec r a l Er Hok to) as (g' & r' & Eg' & _ & Esp & Hle & _).
  rewrite Eg in Eg'. injection Eg' as <-.
  exists r, t, a, l. split; [reflexivity|]. split; [exact Er|].
  rewrite Er in Esp. cbn in Esp. injection Esp as -> _. apply Hle. left. reflexivity.
Qed.

Lemma Sinv_l a c : Inv c -> Sinv c -> Sinv (l_step a c).
Proof.
  intros HI HS. pose proof (i_rinv _ c HI) as Hri. constructor.
  - intros y Hy. apply (s_pos c HS). apply (l_step_pend_sub a c y Hy).
  - rewrite l_step_thr'. apply (s_sl4 c HS).
  - pose proof (s_fst c HS) as Hold.
    unfold l_step, l_finish, after_req, after_app.
    destruct (c_loop c) as [| |ph|p|from to|from to|k from to|k hs|k hs nh|k hs|oto lst|] eqn:Elp.
    + destruct (c_trig c); cbn; [discriminate|rewrite Elp; discriminate].
    + cbn; discriminate.
    + cbn; discriminate.
    + destruct (_ <=? _); [destruct (ranges_remove_upto _ _)|]; cbn; discriminate.
    + destruct (ranges_first (c_pend c)); cbn; discriminate.
    + destruct (c_pend c) as [|r t] eqn:EP; [cbn; discriminate|].
      destruct (range_get to r) as [[|h0 g]|] eqn:Eg; try (cbn; discriminate).
      pose proof (get_first_ok to r t h0 g Hri Eg) as Hf.
      destruct (_ =? _); cbn; rewrite EP; intros oto [= <-]; exact Hf.
    + destruct (_ <? _).
      * destruct a as [|[|x l]]; try (cbn; discriminate). destruct (_ =? _); cbn; [|discriminate]. intros oto Ho. apply Hold. cbn. exact Ho.
      * destruct k as [cached oto'|]; cbn; [|discriminate]. intros oto Ho. apply Hold. cbn. exact Ho.
    + destruct (shim_check _ _); destruct k as [k' to|oto']; cbn; try discriminate; intros oto Ho; apply Hold; cbn; exact Ho.
    + cbn. intros oto Ho. apply Hold. cbn. exact Ho.
    + destruct k as [k' to|oto']; cbn; intros oto Ho; apply Hold; cbn; exact Ho.
    + destruct (c_pend c) as [|r t]; [cbn; discriminate|]. destruct (range_remove oto r); cbn; discriminate.
    + cbn. rewrite Elp. discriminate.
  - rewrite l_step_mu, l_step_thr'. apply (s_mu c HS).
Qed.

Definition low_ok (t : tpc) : Prop :=
  match t with TRun _ _ x SL4 _ | TRun _ _ x SL5 _ => 1 <= h_height x | _ => True end.

Ltac five := split; [|split; [|split; [|split]]].
Ltac nothold Hm := right; split; [exact Hm|intros []].

Lemma t_full i c t :
  nth_error (c_thr c) i = Some t -> low_ok t ->
  exists t', c_thr (t_step i c) = upd_nth i t' (c_thr c) /\ c_loop (t_step i c) = c_loop c /\
    (c_pend (t_step i c) = c_pend c \/ exists m res x rest, t = TRun m res x SL4 rest /\ c_pend (t_step i c) = ranges_add x (c_pend c)) /\
    low_ok t' /\
    (c_mu (t_step i c) = true -> holds t' \/ (c_mu c = true /\ ~ holds t)).
Proof.
  intros En Hlow. unfold Syncer.t_step. rewrite En.
  destruct t as [h now b|h now b ph|a|a ph|sbj a|m res x st rest|r]; cbn [t_body].
  - destruct (c_mu c) eqn:Em.
    + exists (TWait h now b). rewrite (nth_upd_id _ _ _ En). five; [reflexivity|reflexivity|left; reflexivity|exact I|]. intros _. right. split; [reflexivity|intros []].
    + exists (TVer h now b (ranges_head (c_pend c))). unfold set_thr. cbn. five; [reflexivity|reflexivity|left; reflexivity|exact I|]. intros _. left. exact I.
  - destruct (enter_frame i (verdict drift tv now b (pick_head ph (c_cache c)) h) c) as (E1 & E2 & E3).
    exists (verdict drift tv now b (pick_head ph (c_cache c)) h). five; [exact E1|exact E2|left; exact E3| |].
    + destruct (verdict_shape drift tv now b (pick_head ph (c_cache c)) h) as [->|(res & w & r & ->)]; exact I.
    + destruct (verdict_shape drift tv now b (pick_head ph (c_cache c)) h) as [Ev|(res & w & r & Ev)]; rewrite Ev.
      * unfold enter, set_thr. cbn. discriminate.
      * intros _. left. exact I.
  - exists (THd0c a (ranges_head (c_pend c))). unfold set_thr. cbn. five; [reflexivity|reflexivity|left; reflexivity|exact I|]. intros Hm. nothold Hm.
  - exists (THd1 (pick_head ph (c_cache c)) a). unfold set_thr. cbn. five; [reflexivity|reflexivity|left; reflexivity|exact I|]. intros Hm. nothold Hm.
  - destruct a as [x|]; [destruct (_ <=? _)|]; eexists; unfold set_thr; cbn; (five; [reflexivity|reflexivity|left; reflexivity|exact I|]); intros Hm; nothold Hm.
  - assert (Hnext : forall c0, c_thr c0 = c_thr c -> c_loop c0 = c_loop c -> c_mu c0 = c_mu c ->
              exists t', c_thr (t_next i m res rest c0) = upd_nth i t' (c_thr c) /\ c_loop (t_next i m res rest c0) = c_loop c /\
                c_pend (t_next i m res rest c0) = c_pend c0 /\ low_ok t' /\
                (c_mu (t_next i m res rest c0) = true -> holds t' \/ (c_mu c = true /\ ~ holds (TRun m res x st rest)))).
    { intros c0 Et El Em. unfold t_next. destruct rest as [|y r0].
      - exists (TDone res). destruct m; unfold set_thr; cbn; rewrite Et; (five; [reflexivity|exact El|reflexivity|exact I|]); [discriminate|].
        rewrite Em. intros Hm. nothold Hm.
      - exists (TRun m res y SL0 r0). unfold set_thr; cbn; rewrite Et. (five; [reflexivity|exact El|reflexivity|exact I|]). rewrite Em.
        destruct m; [intros _; left; exact I|intros Hm; nothold Hm]. }
    assert (Hm5 : forall st', c_mu c = true -> holds (TRun m res x st' rest) \/ (c_mu c = true /\ ~ holds (TRun m res x st rest))).
    { intros st' Hm. destruct m; [left; exact I|nothold Hm]. }
    destruct st as [|nh| | | |].
    + destruct (shim_check (c_cache c) [x]) as [| |nh|]; (eexists; unfold set_thr; cbn; (five; [reflexivity|reflexivity|left; reflexivity|exact I|apply Hm5])).
    + eexists; unfold set_thr; cbn; (five; [reflexivity|reflexivity|left; reflexivity|exact I|apply Hm5]).
    + eexists; unfold set_thr; cbn; (five; [reflexivity|reflexivity|left; reflexivity|exact I|apply Hm5]).
    + destruct (N.leb_spec (h_height x) (h_height (c_cache c))) as [Hle|Hgt].
      * destruct (Hnext c eq_refl eq_refl eq_refl) as (t' & E1 & E2 & E3 & E4 & E5). exists t'. five; [exact E1|exact E2|left; exact E3|exact E4|exact E5].
      * eexists; unfold set_thr; cbn; (five; [reflexivity|reflexivity|left; reflexivity|cbn; lia|apply Hm5]).
    + eexists; unfold set_thr; cbn; (five; [reflexivity|reflexivity|right; eexists _, _, _, _; split; reflexivity|exact Hlow|apply Hm5]).
    + match goal with |- context [t_next i m res rest ?c1] => destruct (Hnext c1 eq_refl eq_refl eq_refl) as (t' & E1 & E2 & E3 & E4 & E5) end.
      exists t'. five; [exact E1|exact E2|left; exact E3|exact E4|exact E5].
  - exists (TDone r). rewrite (nth_upd_id _ _ _ En). five; [reflexivity|reflexivity|left; reflexivity|exact I|]. intros Hm. nothold Hm.
Qed.

Lemma Sinv_t i c : Inv c -> Sinv c -> Sinv (t_step i c).
Proof.
  intros HI HS. destruct (nth_error (c_thr c) i) as [t|] eqn:En.
  2:{ unfold Syncer.t_step. rewrite En. exact HS. }
  assert (Hlow : low_ok t).
  { destruct t as [| | | | |m res x st rest|]; try exact I. destruct st; try exact I; apply (s_sl4 c HS i m res x _ rest En); auto. }
  destruct (t_full i c t En Hlow) as (t' & Et & El & Hp & Hl' & Hm).
  assert (Hi : (i < length (c_thr c))%nat) by (apply nth_error_Some; congruence).
  constructor.
  - intros y Hy. destruct Hp as [Hp|(m & res & x & rest & -> & Hp)]; rewrite Hp in Hy; [apply (s_pos c HS); exact Hy|].
    apply ranges_add_sub in Hy. destruct Hy as [->|Hy]; [exact Hlow|apply (s_pos c HS); exact Hy].
  - intros j m res x st rest Hj Hst. rewrite Et in Hj. destruct (Nat.eq_dec j i) as [->|Hne].
    + rewrite (nth_upd_same _ _ _ Hi) in Hj. injection Hj as ->. destruct Hst as [->| ->]; exact Hl'.
    + rewrite (nth_upd_other _ _ _ _ Hne) in Hj. apply (s_sl4 c HS j m res x st rest Hj Hst).
  - rewrite El. intros oto Ho. pose proof (s_fst c HS oto Ho) as Hf.
    destruct Hp as [Hp|(m & res & x & rest & _ & Hp)]; rewrite Hp; [exact Hf|apply fst_ok_add; exact Hf].
  - intros Hmu. rewrite Et. destruct (Hm Hmu) as [Hh|[Hmc Hnh]].
    + exists i, t'. split; [apply nth_upd_same; exact Hi|exact Hh].
    + destruct (s_mu c HS Hmc) as (j & tj & Hj & Hhj). exists j, tj. split; [|exact Hhj].
      rewrite nth_upd_other; [exact Hj|]. intros ->. rewrite En in Hj. injection Hj as <-. exact (Hnh Hhj).
Qed.

Lemma Sinv_spawn c t : Sinv c -> low_ok t -> ~ holds t -> Sinv (c <| c_thr ::= fun l => l ++ [t] |>).
Proof.
  intros HS Hl Hh. constructor; cbn.
  - apply (s_pos c HS).
  - intros i m res x st rest Hi Hst. destruct (Nat.lt_ge_cases i (length (c_thr c))) as [Hlt|Hge].
    + rewrite nth_error_app1 in Hi by exact Hlt. apply (s_sl4 c HS i m res x st rest Hi Hst).
    + rewrite nth_error_app2 in Hi by exact Hge. destruct (i - length (c_thr c))%nat as [|k]; [|destruct k; discriminate].
      injection Hi as ->. destruct Hst as [->| ->]; exact Hl.
  - apply (s_fst c HS).
  - intros Hm. destruct (s_mu c HS Hm) as (j & tj & Hj & Hhj). exists j, tj. split; [|exact Hhj].
    rewrite nth_error_app1; [exact Hj|apply nth_error_Some; congruence].
Qed.

Theorem Sinv_step c e : Inv c -> Sinv c -> Sinv (step c e).
Proof.
  intros HI HS. destruct e as [h now b|a|a|i]; cbn [Syncer.step].
  - apply Sinv_spawn; [exact HS|exact I|intros []].
  - apply Sinv_spawn; [exact HS|exact I|intros []].
  - apply Sinv_l; assumption.
  - apply Sinv_t; assumption.
Qed.

(** *** every enabled step strictly decreases [mu] *)
Theorem step_decreases c e :
  Inv c -> Sinv c -> bnd c -> wf_event e -> ans_ok e -> enabled c e ->
  (mu (step c e) < mu c)%nat /\ bnd (step c e).
Proof.
  intros HI HS HB Hw Ha Hen. destruct e as [h now b|a|a|i]; try destruct Hen; cbn [Syncer.step].
  - split; [apply l_dec; assumption|apply bnd_l; assumption].
  - split; [apply t_dec; assumption|apply bnd_t; assumption].
Qed.

(** a run in which every step is enabled when it is taken *)
Fixpoint good_run (c : cfg) (es : list event) : Prop :=
  match es with
  | [] => True
  | e :: r => enabled c e /\ wf_event e /\ ans_ok e /\ good_run (step c e) r
  end.

Theorem good_run_bound es : forall c,
  Inv c -> Sinv c -> bnd c -> good_run c es ->
  (length es + mu (run c es) <= mu c)%nat /\ Inv (run c es) /\ Sinv (run c es) /\ bnd (run c es).
Proof.
  induction es as [|e es IH]; intros c HI HS HB Hg; [split; [unfold Syncer.run; cbn [length fold_left]; lia|split; [exact HI|split; [exact HS|exact HB]]]|].
  destruct Hg as (Hen & Hw & Ha & Hg). destruct (step_decreases c e HI HS HB Hw Ha Hen) as [Hd HB'].
  pose proof (Inv_step drift tv tail c e HI Hw) as HI'. pose proof (Sinv_step c e HI HS) as HS'.
  destruct (IH (step c e) HI' HS' HB' Hg) as (H1 & H2 & H3 & H4).
  assert (Er : run c (e :: es) = run (step c e) es) by reflexivity. rewrite Er. cbn [length].
  split; [lia|split; [exact H2|split; [exact H3|exact H4]]].
Qed.

(** when nothing can move, the Syncer is quiescent *)
Theorem stuck_quiet c :
  Sinv c -> c_loop c <> LPanic -> ~ l_enabled c -> (forall i, ~ t_enabled i c) -> all_quiet c.
Proof.
  intros HS Hnp Hl Ht. unfold l_enabled in Hl.
  assert (Hthr : Forall (fun t => exists r, t = TDone r) (c_thr c)).
  { apply Forall_forall. intros t Hin. destruct (In_nth_error _ _ Hin) as [i Hi].
    specialize (Ht i) as Hti. unfold t_enabled in Hti. rewrite Hi in Hti.
    destruct t as [h now b|h now b ph|a|a ph|sbj a|m res x st rest|r]; try (exfalso; apply Hti; exact I); [|exists r; reflexivity].
    (* a call waiting for incomingMu: whoever holds it can move *)
    destruct (c_mu c) eqn:Em; [|exfalso; apply Hti; reflexivity].
    destruct (s_mu c HS Em) as (j & tj & Hj & Hh). exfalso. apply (Ht j). unfold t_enabled. rewrite Hj.
    destruct tj as [| | | | |m res x st rest|]; try destruct Hh; exact I. }
  destruct (c_loop c) eqn:El; try (exfalso; apply Hl; exact I); [|contradiction].
  split; [exact El|]. split; [|exact Hthr]. destruct (c_trig c); [exfalso; apply Hl; reflexivity|reflexivity].
Qed.

End term.

(** * 3. the machine as of 40dc6a8 (an Append is one step), every schedule, arbitrary inputs *)
Section atomic.
Variables (drift : Z) (tv : hdr -> hdr -> tvres) (tail : N).

Notation step := (step drift tv).
Notation run := (run drift tv).
Notation astep := (astep drift tv).
Notation arun := (arun drift tv).
Notation t_step := (t_step drift tv).
Notation t_astep := (t_astep drift tv).
Notation Inv := (Inv tail).
Notation wf_event := (wf_event tail).

Lemma again_wf e n : Forall wf_event (again e n).
Proof. unfold again. destruct e; try constructor; apply Forall_forall; intros y Hy; apply repeat_spec in Hy; subst; exact I. Qed.

Lemma run_keeps (Q : cfg -> Prop) :
  (forall c e, Inv c -> wf_event e -> Q c -> Q (step c e)) ->
  forall es c, Inv c -> Forall wf_event es -> Q c -> Q (run c es).
Proof.
  intros HQ. induction es as [|e es IH]; intros c HI Hw Hq; [exact Hq|].
  inversion Hw; subst. cbn [Syncer.run fold_left]. apply IH; [apply Inv_step; assumption|assumption|apply HQ; assumption].
Qed.

Lemma astep_keeps (Q : cfg -> Prop) :
  (forall c e, Inv c -> wf_event e -> Q c -> Q (step c e)) ->
  forall c e, Inv c -> wf_event e -> Q c -> Q (astep c e).
Proof.
  intros HQ c e HI Hw Hq. destruct (astep_fine drift tv c e) as (n & _ & -> & _).
  apply (run_keeps Q HQ); [exact HI|constructor; [exact Hw|apply again_wf]|exact Hq].
Qed.

Lemma Inv_astep c e : Inv c -> wf_event e -> Inv (astep c e).
Proof. intros HI Hw. apply (astep_keeps Inv); auto. intros c0 e0 H0 Hw0 _. apply Inv_step; assumption. Qed.

Lemma Sinv_astep c e : Inv c -> wf_event e -> Sinv c -> Sinv (astep c e).
Proof. intros HI Hw HS. apply (astep_keeps Sinv); auto. intros c0 e0 H0 _ HS0. apply (Sinv_step drift tv tail); assumption. Qed.

Lemma q_astep c e : Inv c -> wf_event e -> qpc c -> qpc (astep c e).
Proof. intros HI Hw HQ. apply (astep_keeps qpc); auto. intros c0 e0 H0 _ HQ0. apply (q_step drift tv tail); assumption. Qed.

(** *** the program counters inside an Append are never observed *)
Definition tpc_at (t : tpc) : Prop :=
  match t with TRun _ _ _ (SL1 _) _ | TRun _ _ _ SL2 _ => False | _ => True end.
Definition apc (c : cfg) : Prop :=
  (match c_loop c with LApp1 _ _ _ | LApp2 _ _ => False | _ => True end) /\ Forall tpc_at (c_thr c).

Lemma shim_apply_frame hs c c' :
  shim_apply hs c = Some c' ->
  c_pend c' = c_pend c /\ c_thr c' = c_thr c /\ c_loop c' = c_loop c /\ c_trig c' = c_trig c /\ c_mu c' = c_mu c /\ c_state c' = c_state c.
Proof.
  unfold shim_apply. destruct (shim_check (c_cache c) hs); intros [= <-]; cbn; repeat split; reflexivity.
Qed.

Lemma Forall_upd {A} (Q : A -> Prop) i a (l : list A) : Forall Q l -> Q a -> Forall Q (upd_nth i a l).
Proof.
  intros H Ha. revert i. induction H as [|x l Hx Hl IH]; intros [|i]; cbn; try constructor; auto.
Qed.

Lemma t_step_loop i c : c_loop (t_step i c) = c_loop c.
Proof.
  unfold Syncer.t_step. destruct (nth_error (c_thr c) i) as [t|]; [|reflexivity].
  destruct t as [h now b|h now b ph|a|a ph|sbj a|m res x st rest|r]; cbn [t_body]; try reflexivity.
  - destruct (c_mu c); reflexivity.
  - apply (enter_frame i _ c).
  - destruct a as [x|]; [destruct (_ <=? _)|]; reflexivity.
  - unfold t_next. destruct st as [|nh| | | |]; try reflexivity.
    + destruct (shim_check _ _); reflexivity.
    + destruct (_ <=? _); [|reflexivity]. destruct rest; [destruct m|]; reflexivity.
    + destruct rest; [destruct m|]; reflexivity.
Qed.

Lemma t_astep_shape i c t :
  nth_error (c_thr c) i = Some t -> tpc_at t ->
  exists t', c_thr (t_astep i c) = upd_nth i t' (c_thr c) /\ tpc_at t' /\ c_loop (t_astep i c) = c_loop c.
Proof.
  intros En Hat. unfold Syncer.t_astep. rewrite En.
  destruct t as [h now b|h now b ph|a|a ph|sbj a|m res x st rest|r].
  - unfold Syncer.t_step. rewrite En. cbn [t_body]. destruct (c_mu c); [exists (TWait h now b); rewrite (nth_upd_id _ _ _ En); auto|].
    eexists. unfold set_thr. cbn. split; [reflexivity|split; [exact I|reflexivity]].
  - unfold Syncer.t_step. rewrite En. cbn [t_body].
    destruct (enter_frame i (verdict drift tv now b (pick_head ph (c_cache c)) h) c) as (E1 & E2 & _).
    eexists. split; [exact E1|split; [|exact E2]].
    destruct (verdict_shape drift tv now b (pick_head ph (c_cache c)) h) as [->|(res & w & r & ->)]; exact I.
  - unfold Syncer.t_step. rewrite En. cbn [t_body]. eexists. unfold set_thr. cbn. split; [reflexivity|split; [exact I|reflexivity]].
  - unfold Syncer.t_step. rewrite En. cbn [t_body]. eexists. unfold set_thr. cbn. split; [reflexivity|split; [exact I|reflexivity]].
  - unfold Syncer.t_step. rewrite En. cbn [t_body]. destruct a as [x|]; [destruct (_ <=? _)|]; eexists; unfold set_thr; cbn; (split; [reflexivity|split; [exact I|reflexivity]]).
  - destruct st as [|nh| | | |]; try destruct Hat.
    + destruct (shim_apply [x] c) as [c'|] eqn:Es.
      * destruct (shim_apply_frame [x] c c' Es) as (_ & Eth & El & _). eexists. unfold set_thr. cbn. rewrite Eth, El. split; [reflexivity|split; [exact I|reflexivity]].
      * eexists. unfold set_thr. cbn. split; [reflexivity|split; [exact I|reflexivity]].
    + unfold Syncer.t_step. rewrite En. cbn [t_body]. destruct (_ <=? _).
      * unfold t_next. destruct rest as [|y r0]; [destruct m|]; eexists; unfold set_thr; cbn; (split; [reflexivity|split; [exact I|reflexivity]]).
      * eexists. unfold set_thr. cbn. split; [reflexivity|split; [exact I|reflexivity]].
    + unfold Syncer.t_step. rewrite En. cbn [t_body]. eexists. unfold set_thr. cbn. split; [reflexivity|split; [exact I|reflexivity]].
    + unfold Syncer.t_step. rewrite En. cbn [t_body]. unfold t_next. destruct rest as [|y r0]; [destruct m|]; eexists; unfold set_thr; cbn; (split; [reflexivity|split; [exact I|reflexivity]]).
  - unfold Syncer.t_step. rewrite En. cbn [t_body]. exists (TDone r). rewrite (nth_upd_id _ _ _ En). auto.
Qed.

Lemma l_step_app12 a c :
  (match c_loop c with LApp0 _ _ | LApp1 _ _ _ | LApp2 _ _ => False | _ => True end) ->
  match c_loop (l_step a c) with LApp1 _ _ _ | LApp2 _ _ => False | _ => True end.
Proof.
  intros H. unfold l_step, l_finish, after_req.
  destruct (c_loop c) as [| |ph|p|from to|from to|k from to|k hs|k hs nh|k hs|oto lst|] eqn:Elp; try destruct H;
    repeat match goal with |- context [match ?x with _ => _ end] => lazymatch x with c_loop _ => fail | _ => destruct x end end; cbn; rewrite ?Elp; exact I.
Qed.

Lemma apc_astep c e : apc c -> apc (astep c e).
Proof.
  intros [Hl Ht]. destruct e as [h now b|a|a|i]; cbn [Syncer.astep Syncer.step].
  - split; [exact Hl|]. cbn. apply Forall_app. split; [exact Ht|constructor; [exact I|constructor]].
  - split; [exact Hl|]. cbn. apply Forall_app. split; [exact Ht|constructor; [exact I|constructor]].
  - unfold l_astep. destruct (c_loop c) as [| |ph|p|from to|from to|k from to|k0 hs0|k0 hs0 nh|k0 hs0|oto lst|] eqn:Elp; try destruct Hl.
    8:{ destruct (shim_apply hs0 c) as [c'|] eqn:Es.
        - destruct (shim_apply_frame hs0 c c' Es) as (_ & Eth & _). unfold apc, after_app. destruct k0; cbn; rewrite Eth; (split; [exact I|exact Ht]).
        - unfold apc, l_finish. cbn. split; [exact I|exact Ht]. }
    all: split; [apply l_step_app12; rewrite Elp; exact I|rewrite l_step_thr; exact Ht].
  - destruct (nth_error (c_thr c) i) as [t|] eqn:En.
    + assert (Hat : tpc_at t) by (apply (proj1 (Forall_forall _ _) Ht); eapply nth_error_In; exact En).
      destruct (t_astep_shape i c t En Hat) as (t' & Et & Hat' & El). split; [rewrite El; exact Hl|]. rewrite Et. apply Forall_upd; assumption.
    + unfold Syncer.t_astep, Syncer.t_step. rewrite En. split; assumption.
Qed.

(** *** the shim's head is the highest header ever handed to the Store, and never moves back *)
Definition Top (c : cfg) : Prop := forall y, In y (rs_log (c_store c)) -> h_height y <= h_height (c_cache c).

Lemma shim_walk_ge : forall hs c nh,
  shim_walk c hs = Some nh -> (forall y, In y (c :: hs) -> hok y) -> h_height c <= h_height nh.
Proof.
  induction hs as [|a r IH]; intros c nh Hw Hk.
  - cbn in Hw. injection Hw as <-. lia.
  - rewrite shim_walk_cons in Hw. destruct (_ && _).
    + apply (IH c nh Hw). intros y [<-|Hy]; apply Hk; [left; reflexivity|right; right; exact Hy].
    + destruct (N.eqb_spec (h_height a) (wrap64 (h_height c + 1))) as [Ea|]; [|discriminate].
      rewrite (wrap_succ _ (Hk c (or_introl eq_refl))) in Ea.
      assert (h_height a <= h_height nh) by (apply (IH a nh Hw); intros y Hy; apply Hk; right; exact Hy). lia.
Qed.

Lemma drop_below_nil_all c hs : drop_below c hs = [] -> forall y, In y hs -> h_height y < h_height c.
Proof.
  induction hs as [|a r IH]; intros Hd y Hy; [destruct Hy|].
  cbn in Hd. destruct (N.ltb_spec (h_height a) (h_height c)) as [Hlt|]; [|discriminate].
  destruct Hy as [<-|Hy]; [exact Hlt|apply IH; assumption].
Qed.

Lemma consec_le_last a l y : consec (a :: l) -> In y (a :: l) -> h_height y <= h_height (last (a :: l) hdr_nil).
Proof. intros Hc Hy. rewrite (last_indep l a hdr_nil a). apply (consec_bounds a l Hc y Hy). Qed.

Lemma shim_apply_top hs c c' :
  (forall y, In y (c_cache c :: hs) -> hok y) -> consec hs -> Top c -> shim_apply hs c = Some c' ->
  Top c' /\ h_height (c_cache c) <= h_height (c_cache c') /\ (forall y, In y hs -> h_height y <= h_height (c_cache c')).
Proof.
  intros Hk Hc HT. unfold shim_apply. destruct (shim_check (c_cache c) hs) as [| |nh|] eqn:Es; intros [= <-].
  - split; [exact HT|]. split; [lia|]. unfold shim_check in Es. destruct hs; [intros y []|].
    destruct (drop_below _ _); [discriminate|destruct (shim_walk _ _); discriminate].
  - destruct (shim_skip_inv _ _ Es) as [_ Hd]. pose proof (drop_below_nil_all _ _ Hd) as Hlt.
    split; [|split; [cbn; lia|intros y Hy; cbn; specialize (Hlt y Hy); lia]].
    intros y Hy. cbn in Hy. apply rs_append_log in Hy. cbn. destruct Hy as [Hy|Hy]; [specialize (Hlt y Hy); lia|apply HT; exact Hy].
  - destruct (shim_ok_inv _ _ _ Es) as [Hdn Hw].
    assert (Hk' : forall y, In y (c_cache c :: drop_below (c_cache c) hs) -> hok y).
    { intros y [<-|Hy]; [apply Hk; left; reflexivity|apply Hk; right; apply (drop_below_incl _ _ _ Hy)]. }
    pose proof (shim_walk_ge _ _ _ Hw Hk') as Hge.
    pose proof (shim_walk_height _ _ _ Hw) as Hh.
    assert (Hl : h_height nh = h_height (last hs hdr_nil)).
    { rewrite Hh. rewrite <- (drop_below_last (c_cache c) hs hdr_nil Hdn).
      destruct (drop_below (c_cache c) hs) as [|b r]; [contradiction|]. rewrite (last_indep r b (c_cache c) hdr_nil). reflexivity. }
    assert (Hall : forall y, In y hs -> h_height y <= h_height nh).
    { intros y Hy. rewrite Hl. destruct hs as [|a l]; [destruct Hy|]. apply consec_le_last; assumption. }
    split; [|split; [cbn; exact Hge|cbn; exact Hall]].
    intros y Hy. cbn in Hy. apply rs_append_log in Hy. cbn. destruct Hy as [Hy|Hy]; [apply Hall; exact Hy|specialize (HT y Hy); lia].
Qed.

(** *** what the loop knows about its target and the cached run it took out of pending *)
Definition hc (c : cfg) : N := h_height (c_cache c).

Definition tgt (c : cfg) (to : N) : Prop :=
  (exists p, In p (ranges_all (c_pend c)) /\ h_height p = to) \/ to <= hc c.

Definition cinv (c : cfg) (hs : list hdr) (oto : N) : Prop :=
  match c_pend c with
  | r :: _ => forall y, In y (r_hdrs r) -> h_height y <= oto -> In y hs \/ h_height y <= hc c
  | [] => True
  end.

Definition rk_inv (c : cfg) (k : rk) (to : N) : Prop :=
  match k with
  | KGap cached oto => tgt c oto /\ cinv c cached oto /\ h_height (hd hdr_nil cached) <= to + 1
  | KFin => True
  end.

Definition Linv (c : cfg) : Prop :=
  match c_loop c with
  | LSync1 (Some p) | LSync2 p => In p (ranges_all (c_pend c)) \/ h_height p <= hc c
  | LFirst from to | LGet from to => tgt c to /\ h_height from <= hc c
  | LReq k from to => rk_inv c k to /\ h_height from <= hc c
  | LApp0 (AKReq k to) hs => rk_inv c k to /\ h_height (hd hdr_nil hs) <= hc c + 1
  | LApp0 (AKCached oto) hs => tgt c oto /\ cinv c hs oto /\ h_height (hd hdr_nil hs) <= hc c + 1
  | LRem oto lst => tgt c oto /\ cinv c [] oto /\ h_height lst <= hc c
  | _ => True
  end.

(** nothing pending is dropped unless the shim's head has reached it; the shim's head never moves back *)
Definition keeps (c c' : cfg) : Prop :=
  hc c <= hc c' /\ forall y, In y (ranges_all (c_pend c)) -> In y (ranges_all (c_pend c')) \/ h_height y <= hc c'.

Lemma keeps_refl c : keeps c c.
Proof. split; [lia|intros y Hy; left; exact Hy]. Qed.

Lemma tgt_mono c c' to : keeps c c' -> tgt c to -> tgt c' to.
Proof.
  intros [Hh Hk] [(p & Hp & Ep)|Hle]; [|right; lia].
  destruct (Hk p Hp) as [H|H]; [left; exists p; split; assumption|right; lia].
Qed.

Lemma cinv_hc c c' hs oto : c_pend c' = c_pend c -> hc c <= hc c' -> cinv c hs oto -> cinv c' hs oto.
Proof.
  intros Ep Hh. unfold cinv. rewrite Ep. destruct (c_pend c) as [|r t]; [auto|].
  intros H y Hy Hle. destruct (H y Hy Hle) as [Hi|Hi]; [left; exact Hi|right; lia].
Qed.

Lemma rk_inv_hc c c' k to : c_pend c' = c_pend c -> hc c <= hc c' -> rk_inv c k to -> rk_inv c' k to.
Proof.
  intros Ep Hh. destruct k as [cached oto|]; [|auto]. intros (H1 & H2 & H3).
  split; [|split; [apply (cinv_hc c c'); assumption|exact H3]].
  apply (tgt_mono c c'); [|exact H1]. split; [exact Hh|]. rewrite Ep. intros y Hy; left; exact Hy.
Qed.

Lemma l_step_sc a c :
  (match c_loop c with LApp1 _ _ _ | LApp2 _ _ => False | _ => True end) ->
  c_store (l_step a c) = c_store c /\ c_cache (l_step a c) = c_cache c.
Proof.
  intros H. unfold l_step, l_finish, after_req, after_app.
  destruct (c_loop c) as [| |ph|p|from to|from to|k from to|k hs|k hs nh|k hs|oto lst|] eqn:Elp; try destruct H;
    repeat match goal with |- context [match ?x with _ => _ end] => destruct x end; cbn; split; reflexivity.
Qed.

Lemma first_range_ok r t a l : rinv (r :: t) -> r_hdrs r = a :: l -> range_ok r.
Proof. intros Hri Er. cbn [rinv] in Hri. rewrite Er in Hri. cbn [ne_inv] in Hri. destruct Hri as [Hok _]. exact Hok. Qed.

Lemma remove_split e r r' t :
  rinv (r :: t) -> range_remove e r = Some r' ->
  forall y, In y (r_hdrs r) -> In y (r_hdrs r') \/ h_height y <= e.
Proof.
  intros Hri Er y Hy. destruct (r_hdrs r) as [|a l] eqn:Eh; [destruct Hy|].
  destruct (get_remove_spec r a l Eh (first_range_ok r t a l Hri Eh) e) as (g & r2 & _ & Er2 & Esp & Hle & _).
  rewrite Er in Er2. injection Er2 as <-. rewrite <- Eh, Esp in Hy. apply in_app_or in Hy.
  destruct Hy as [Hy|Hy]; [right; apply Hle; exact Hy|left; exact Hy].
Qed.

Lemma get_all_le to r t hs :
  rinv (r :: t) -> range_get to r = Some hs -> forall y, In y (r_hdrs r) -> h_height y <= to -> In y hs.
Proof.
  intros Hri Eg y Hy Hle. destruct (r_hdrs r) as [|a l] eqn:Eh; [destruct Hy|].
  destruct (get_remove_spec r a l Eh (first_range_ok r t a l Hri Eh) to) as (g & r2 & Eg2 & _ & Esp & _ & Hgt & _).
  rewrite Eg in Eg2. injection Eg2 as <-. rewrite <- Eh, Esp in Hy. apply in_app_or in Hy.
  destruct Hy as [Hy|Hy]; [exact Hy|specialize (Hgt y Hy); lia].
Qed.

Lemma Linv_l a c :
  Inv c -> apc c -> Top c -> Linv c -> wf_event (EL a) ->
  Linv (l_astep a c) /\ keeps c (l_astep a c) /\ Top (l_astep a c).
Proof.
  intros HI [Hap _] HT HL Hw. pose proof (i_rinv _ c HI) as Hri. pose proof (i_pc _ c HI) as Hpc.
  assert (Hck : hok (c_cache c)) by (apply (cache_P tail c HI)).
  unfold l_astep.
  destruct (c_loop c) as [| |ph|p|from to|from to|k from to|k hs|k hs nh|k hs|oto lst|] eqn:Elp; try destruct Hap.
  8:{ (* LApp0: the Append *)
    destruct Hpc as [[Hne Hcs] Hak].
    assert (Hk : forall y, In y (c_cache c :: hs) -> hok y).
    { intros y [<-|Hy]; [exact Hck|]. apply (loop_P tail c y HI). rewrite Elp. cbn. apply in_or_app. left. exact Hy. }
    destruct (shim_apply hs c) as [c1|] eqn:Es.
    - destruct (shim_apply_top hs c c1 Hk Hcs HT Es) as (HT1 & Hh & Hall).
      destruct (shim_apply_frame hs c c1 Es) as (Ep & _).
      assert (Hkp : keeps c c1) by (split; [exact Hh|rewrite Ep; intros y Hy; left; exact Hy]).
      assert (Hlast : h_height (last hs hdr_nil) <= hc c1) by (apply Hall; apply in_last; exact Hne).
      unfold Linv in HL. rewrite Elp in HL. unfold after_app, last_hdr.
      destruct k as [k' to|oto].
      + destruct HL as [Hrk _]. split; [|split].
        * unfold Linv. cbn. split; [|exact Hlast]. apply (rk_inv_hc c); [cbn; exact Ep|cbn; exact Hh|exact Hrk].
        * split; [cbn; exact Hh|cbn; rewrite Ep; intros y Hy; left; exact Hy].
        * intros y Hy. cbn in Hy. cbn. apply HT1. exact Hy.
      + destruct HL as (Htg & Hci & _). split; [|split].
        * unfold Linv. cbn. split; [apply (tgt_mono c); [|exact Htg]; split; [cbn; exact Hh|cbn; rewrite Ep; intros y Hy; left; exact Hy]|]. split; [|exact Hlast].
          unfold cinv in *. cbn. rewrite Ep. destruct (c_pend c) as [|r t]; [exact I|]. intros y Hy Hle.
          right. destruct (Hci y Hy Hle) as [Hi|Hi]; [apply Hall; exact Hi|unfold hc in *; cbn; lia].
        * split; [cbn; exact Hh|cbn; rewrite Ep; intros y Hy; left; exact Hy].
        * intros y Hy. cbn in Hy. cbn. apply HT1. exact Hy.
    - unfold l_finish. split; [unfold Linv; cbn; exact I|]. split; [split; [unfold hc; cbn; lia|cbn; intros y Hy; left; exact Hy]|exact HT]. }
  (* the other program counters leave store and shim head alone *)
  all: destruct (l_step_sc a c) as [Est Eca]; [rewrite Elp; exact I|].
  all: assert (Hhc : hc (l_step a c) = hc c) by (unfold hc; rewrite Eca; reflexivity).
  all: assert (HT' : Top (l_step a c)) by (unfold Top; rewrite Est, Eca; exact HT).
  all: split; [|split; [|exact HT']].
  all: unfold Linv in HL; rewrite Elp in HL.
  all: unfold keeps; try rewrite Hhc.
  all: try (unfold l_step; rewrite Elp).
  - (* LIdle *) destruct (c_trig c); unfold Linv; cbn; rewrite ?Elp; exact I.
  - destruct (c_trig c); cbn; (split; [lia|intros y Hy; left; exact Hy]).
  - (* LSync *) unfold Linv. cbn. destruct (ranges_head (c_pend c)) as [p|] eqn:Eh; [left; apply head_in_pending; exact Eh|exact I].
  - cbn. split; [lia|intros y Hy; left; exact Hy].
  - (* LSync1 *) unfold Linv. cbn. unfold pick_head. destruct ph as [p|]; [destruct (_ <? _); [exact HL|right; unfold hc; cbn; lia]|right; unfold hc; cbn; lia].
  - cbn. split; [lia|intros y Hy; left; exact Hy].
  - (* LSync2 *) destruct (N.leb_spec (h_height p) (h_height (c_cache c))) as [Hle|Hgt].
    + destruct (ranges_remove_upto _ _); unfold Linv; cbn; exact I.
    + unfold Linv. cbn. split; [|unfold hc; cbn; lia]. destruct HL as [HL|HL]; [left; exists p; split; [exact HL|reflexivity]|unfold hc in *; cbn; lia].
  - destruct (N.leb_spec (h_height p) (h_height (c_cache c))) as [Hle|Hgt]; [|cbn; split; [lia|intros y Hy; left; exact Hy]].
    destruct (remove_upto_spec (h_height (c_cache c)) _ Hri) as (rs' & Eu & _ & Hm). rewrite Eu. cbn. split; [lia|].
    intros y Hy. destruct (N.lt_ge_cases (h_height (c_cache c)) (h_height y)) as [Hlt|Hge]; [left; apply Hm; split; assumption|right; unfold hc; cbn; lia].
  - (* LFirst *) destruct HL as [Htg Hfr].
    assert (Hsame : ranges_all (ranges_first (c_pend c)) = ranges_all (c_pend c)) by apply ranges_first_all.
    assert (Htg' : forall c', ranges_all (c_pend c') = ranges_all (c_pend c) -> hc c' = hc c -> tgt c' to).
    { intros c' E1 E2. unfold tgt. rewrite E1, E2. exact Htg. }
    destruct (ranges_first (c_pend c)) eqn:Ef; unfold Linv; cbn.
    + split; [exact I|exact Hfr].
    + split; [apply Htg'; [cbn; rewrite <- Hsame; reflexivity|reflexivity]|exact Hfr].
  - pose proof (ranges_first_all (c_pend c)) as Hsame.
    destruct (ranges_first (c_pend c)) eqn:Ef; cbn; (split; [lia|intros y Hy; left; rewrite Hsame; exact Hy]).
  - (* LGet *) destruct HL as [Htg Hfr].
    destruct (c_pend c) as [|r t] eqn:EP; [unfold Linv; cbn; split; [exact I|exact Hfr]|].
    destruct (range_get to r) as [[|h0 g]|] eqn:Eg; [unfold Linv; cbn; split; [exact I|exact Hfr]| |unfold Linv; cbn; exact I].
    assert (Hci : forall c', c_pend c' = r :: t -> hc c' = hc c -> cinv c' (h0 :: g) to).
    { intros c' E1 E2. unfold cinv. rewrite E1. intros y Hy Hle. left. apply (get_all_le to r t (h0 :: g) Hri Eg y Hy Hle). }
    assert (Htg' : forall c', c_pend c' = r :: t -> hc c' = hc c -> tgt c' to).
    { intros c' E1 E2. unfold tgt. rewrite E1, E2. unfold tgt in Htg. rewrite EP in Htg. exact Htg. }
    assert (Hpf : hok from) by (apply (loop_P tail c from HI); rewrite Elp; left; reflexivity).
    destruct (N.eqb_spec (wrap64 (h_height from + 1)) (h_height h0)) as [Eq|Nq]; unfold Linv; cbn.
    + split; [apply Htg'; [cbn; exact EP|reflexivity]|]. split; [apply Hci; [cbn; exact EP|reflexivity]|].
      rewrite (wrap_succ _ Hpf) in Eq. unfold hc in *. cbn. lia.
    + split; [|exact Hfr]. split; [apply Htg'; [cbn; exact EP|reflexivity]|]. split; [apply Hci; [cbn; exact EP|reflexivity]|].
      unfold sub64. destruct (N.leb_spec 1 (h_height h0)); [lia|unfold two64; lia].
  - destruct (c_pend c) as [|r t] eqn:EP; [cbn; rewrite EP; split; [lia|intros y Hy; left; exact Hy]|].
    destruct (range_get to r) as [[|h0 g]|]; try (cbn; rewrite EP; split; [lia|intros y Hy; left; exact Hy]).
    destruct (_ =? _); cbn; rewrite EP; (split; [lia|intros y Hy; left; exact Hy]).
  - (* LReq *) destruct HL as [Hrk Hfr].
    assert (Hpf : hok from) by (apply (loop_P tail c from HI); rewrite Elp; left; reflexivity).
    destruct (N.ltb_spec (h_height from) to) as [Hlt|Hge].
    + destruct a as [|[|x l]]; try (unfold l_finish, Linv; cbn; exact I).
      destruct (N.eqb_spec (h_height x) (wrap64 (h_height from + 1))) as [Ex|Nx]; [|unfold l_finish, Linv; cbn; exact I].
      unfold Linv. cbn. rewrite (wrap_succ _ Hpf) in Ex. split; [|unfold hc in *; cbn; lia].
      apply (rk_inv_hc c); [reflexivity|unfold hc; cbn; lia|exact Hrk].
    + unfold after_req. destruct k as [cached oto|]; [|unfold l_finish, Linv; cbn; exact I].
      destruct Hrk as (H1 & H2 & H3). unfold Linv. cbn. split; [exact H1|]. split; [exact H2|]. unfold hc in *. cbn. lia.
  - destruct (_ <? _).
    + destruct a as [|[|x l]]; try (unfold l_finish; cbn; split; [lia|intros y Hy; left; exact Hy]).
      destruct (_ =? _); [cbn|unfold l_finish; cbn]; (split; [lia|intros y Hy; left; exact Hy]).
    + unfold after_req. destruct k; [cbn|unfold l_finish; cbn]; (split; [lia|intros y Hy; left; exact Hy]).
  - (* LRem *) destruct HL as (Htg & Hci & Hls).
    destruct (c_pend c) as [|r t] eqn:EP.
    + unfold Linv. cbn. split; [|exact Hls]. unfold tgt in *. cbn. rewrite EP in *. exact Htg.
    + destruct (range_remove oto r) as [r'|] eqn:Er; [|unfold Linv; cbn; exact I].
      unfold Linv. cbn. split; [|exact Hls].
      destruct Htg as [(p0 & Hp & Ep)|Hle]; [|right; exact Hle].
      rewrite EP in Hp. unfold ranges_all in Hp. cbn [flat_map] in Hp. apply in_app_or in Hp. destruct Hp as [Hp|Hp].
      * destruct (remove_split oto r r' t Hri Er p0 Hp) as [Hin|Hle].
        -- left. exists p0. split; [cbn; unfold ranges_all; cbn [flat_map]; apply in_or_app; left; exact Hin|exact Ep].
        -- right. unfold cinv in Hci. rewrite EP in Hci. destruct (Hci p0 Hp Hle) as [[]|H]. unfold hc in *. cbn. lia.
      * left. exists p0. split; [cbn; unfold ranges_all; cbn [flat_map]; apply in_or_app; right; exact Hp|exact Ep].
  - destruct HL as (Htg & Hci & Hls).
    destruct (c_pend c) as [|r t] eqn:EP; [cbn; rewrite EP; split; [lia|intros y Hy; left; exact Hy]|].
    destruct (range_remove oto r) as [r'|] eqn:Er; [|cbn; rewrite EP; split; [lia|intros y Hy; left; exact Hy]].
    cbn. split; [lia|]. intros y Hy. unfold ranges_all in Hy. cbn [flat_map] in Hy. apply in_app_or in Hy. destruct Hy as [Hy|Hy].
    + destruct (remove_split oto r r' t Hri Er y Hy) as [Hin|Hle].
      * left. unfold ranges_all. cbn [flat_map]. apply in_or_app. left. exact Hin.
      * right. unfold cinv in Hci. rewrite EP in Hci. destruct (Hci y Hy Hle) as [[]|H]. exact H.
    + left. unfold ranges_all. cbn [flat_map]. apply in_or_app. right. exact Hy.
  - unfold Linv. cbn. rewrite Elp. exact I.
  - cbn. split; [lia|intros y Hy; left; exact Hy].
Qed.

(** *** learner calls and the loop's invariant *)
Lemma Linv_hc c c' :
  c_loop c' = c_loop c -> c_pend c' = c_pend c -> hc c <= hc c' -> Linv c -> Linv c'.
Proof.
  intros El Ep Hh. unfold Linv. rewrite El.
  assert (Hk : keeps c c') by (split; [exact Hh|rewrite Ep; intros y Hy; left; exact Hy]).
  destruct (c_loop c) as [| |ph|p|from to|from to|k from to|k hs|k hs nh|k hs|oto lst|]; try exact (fun H => H).
  - destruct ph as [p|]; [|auto]. rewrite Ep. intros [H|H]; [left; exact H|right; lia].
  - rewrite Ep. intros [H|H]; [left; exact H|right; lia].
  - intros [H1 H2]. split; [apply (tgt_mono c c' to Hk H1)|lia].
  - intros [H1 H2]. split; [apply (tgt_mono c c' to Hk H1)|lia].
  - intros [H1 H2]. split; [apply (rk_inv_hc c c'); assumption|lia].
  - destruct k as [k' to|oto].
    + intros [H1 H2]. split; [apply (rk_inv_hc c c'); assumption|lia].
    + intros (H1 & H2 & H3). split; [apply (tgt_mono c c' oto Hk H1)|]. split; [apply (cinv_hc c c'); assumption|lia].
  - intros (H1 & H2 & H3). split; [apply (tgt_mono c c' oto Hk H1)|]. split; [apply (cinv_hc c c'); assumption|lia].
Qed.

Lemma add_super x P y : rinv P -> In y (ranges_all P) -> In y (ranges_all (ranges_add x P)).
Proof.
  intros Hri Hy. rewrite (ranges_add_all x P Hri). destruct (ranges_head P) as [m|]; [destruct (_ <=? _)|]; try exact Hy; apply in_or_app; left; exact Hy.
Qed.

Lemma add_first x r t :
  rinv (r :: t) ->
  exists r' t', ranges_add x (r :: t) = r' :: t' /\
    (r_hdrs r' = r_hdrs r \/ (r_hdrs r' = r_hdrs r ++ [x] /\ forall p, In p (ranges_all (r :: t)) -> h_height p < h_height x)).
Proof.
  intros Hri. pose proof (rinv_head (r :: t) Hri) as Hh. unfold ranges_add.
  destruct (ranges_head (r :: t)) as [m|].
  - destruct Hh as [_ Hmax]. destruct (N.leb_spec (h_height x) (h_height m)) as [Hle|Hgt].
    + exists r, t. split; [reflexivity|left; reflexivity].
    + destruct (h_height x =? wrap64 (h_height m + 1)).
      * destruct t as [|y t'].
        -- cbn. eexists _, _. split; [reflexivity|]. right. cbn. split; [reflexivity|]. intros p Hp. specialize (Hmax p Hp). lia.
        -- cbn [append_last]. eexists _, _. split; [reflexivity|left; reflexivity].
      * cbn [app]. eexists _, _. split; [reflexivity|left; reflexivity].
  - cbn [app]. eexists _, _. split; [reflexivity|left; reflexivity].
Qed.

Lemma cinv_add c c' x hs oto :
  rinv (c_pend c) -> c_pend c' = ranges_add x (c_pend c) -> hc c' = hc c -> tgt c oto -> cinv c hs oto -> cinv c' hs oto.
Proof.
  intros Hri Ep Hh Htg Hci. unfold cinv in *. rewrite Ep, Hh.
  destruct (c_pend c) as [|r t] eqn:EP.
  - unfold ranges_add, ranges_head, new_range. cbn. intros y [<-|[]] Hle. right. destruct Htg as [(p & Hp & _)|H]; [rewrite EP in Hp; destruct Hp|lia].
  - destruct (add_first x r t Hri) as (r' & t' & -> & [Er|[Er Hgt]]); rewrite Er; [exact Hci|].
    intros y Hy Hle. apply in_app_or in Hy. destruct Hy as [Hy|[<-|[]]]; [apply Hci; assumption|].
    right. destruct Htg as [(p & Hp & Epo)|H]; [rewrite EP in Hp; specialize (Hgt p Hp); lia|lia].
Qed.

Lemma tgt_add c c' x to :
  rinv (c_pend c) -> c_pend c' = ranges_add x (c_pend c) -> hc c' = hc c -> tgt c to -> tgt c' to.
Proof.
  intros Hri Ep Hh [(p & Hp & Epo)|H]; [left; exists p; split; [rewrite Ep; apply add_super; assumption|exact Epo]|right; lia].
Qed.

Lemma Linv_add c c' x :
  rinv (c_pend c) -> c_loop c' = c_loop c -> c_pend c' = ranges_add x (c_pend c) -> hc c' = hc c -> Linv c -> Linv c'.
Proof.
  intros Hri El Ep Hh. unfold Linv. rewrite El.
  destruct (c_loop c) as [| |ph|p|from to|from to|k from to|k hs|k hs nh|k hs|oto lst|]; try exact (fun H => H).
  - destruct ph as [p|]; [|auto]. intros [H|H]; [left; rewrite Ep; apply add_super; assumption|right; lia].
  - intros [H|H]; [left; rewrite Ep; apply add_super; assumption|right; lia].
  - intros [H1 H2]. split; [apply (tgt_add c c' x); assumption|lia].
  - intros [H1 H2]. split; [apply (tgt_add c c' x); assumption|lia].
  - intros [H1 H2]. split; [|lia]. destruct k as [cached oto|]; [|exact I]. destruct H1 as (A & B & C).
    split; [apply (tgt_add c c' x); assumption|split; [apply (cinv_add c c' x); assumption|exact C]].
  - destruct k as [k' to|oto].
    + intros [H1 H2]. split; [|lia]. destruct k' as [cached oto|]; [|exact I]. destruct H1 as (A & B & C).
      split; [apply (tgt_add c c' x); assumption|split; [apply (cinv_add c c' x); assumption|exact C]].
    + intros (A & B & C). split; [apply (tgt_add c c' x); assumption|split; [apply (cinv_add c c' x); assumption|lia]].
  - intros (A & B & C). split; [apply (tgt_add c c' x); assumption|split; [apply (cinv_add c c' x); assumption|lia]].
Qed.

Lemma t_step_sc i c t :
  nth_error (c_thr c) i = Some t -> tpc_at t ->
  c_store (t_step i c) = c_store c /\ c_cache (t_step i c) = c_cache c.
Proof.
  intros En Hat. unfold Syncer.t_step. rewrite En.
  destruct t as [h now b|h now b ph|a|a ph|sbj a|m res x st rest|r]; cbn [t_body]; try (split; reflexivity).
  - destruct (c_mu c); split; reflexivity.
  - unfold enter. destruct (verdict _ _ _ _ _ _); split; reflexivity.
  - destruct a as [x|]; [destruct (_ <=? _)|]; split; reflexivity.
  - unfold t_next. destruct st as [|nh| | | |]; try destruct Hat; try (split; reflexivity).
    + destruct (shim_check _ _); split; reflexivity.
    + destruct (_ <=? _); [|split; reflexivity]. destruct rest; [destruct m|]; split; reflexivity.
    + destruct rest; [destruct m|]; split; reflexivity.
Qed.

Lemma set_thr_frame i t c :
  c_store (set_thr i t c) = c_store c /\ c_cache (set_thr i t c) = c_cache c /\ c_pend (set_thr i t c) = c_pend c /\ c_loop (set_thr i t c) = c_loop c.
Proof. unfold set_thr. cbn. repeat split; reflexivity. Qed.

Lemma Linv_t i c :
  Inv c -> Sinv c -> apc c -> Top c -> Linv c ->
  Linv (t_astep i c) /\ keeps c (t_astep i c) /\ Top (t_astep i c).
Proof.
  intros HI HS [_ Hap] HT HL. pose proof (i_rinv _ c HI) as Hri.
  destruct (nth_error (c_thr c) i) as [t|] eqn:En.
  2:{ unfold Syncer.t_astep, Syncer.t_step. rewrite En. split; [exact HL|split; [apply keeps_refl|exact HT]]. }
  assert (Hat : tpc_at t) by (apply (proj1 (Forall_forall _ _) Hap); eapply nth_error_In; exact En).
  assert (Hsl0 : (exists m res x rest, t = TRun m res x SL0 rest) \/ t_astep i c = t_step i c).
  { unfold Syncer.t_astep. rewrite En. destruct t as [| | | | |m res x st rest|]; try (right; reflexivity).
    destruct st; try (right; reflexivity). left. eexists _, _, _, _. reflexivity. }
  destruct Hsl0 as [(m & res & x & rest & ->)|Eeq].
  - (* setLocalHead's Append *)
    unfold Syncer.t_astep. rewrite En.
    assert (Hk : forall y, In y (c_cache c :: [x]) -> hok y).
    { intros y [<-|[<-|[]]]; [apply (cache_P tail c HI)|]. apply (thr_P tail c i _ x HI En). cbn. left. reflexivity. }
    destruct (shim_apply [x] c) as [c1|] eqn:Es.
    + destruct (shim_apply_top [x] c c1 Hk I HT Es) as (HT1 & Hh & _).
      destruct (shim_apply_frame [x] c c1 Es) as (Ep & _ & El & _).
      destruct (set_thr_frame i (TRun m res x SL3 rest) c1) as (E1 & E2 & E3 & E4).
      split; [|split].
      * apply (Linv_hc c); [rewrite E4; exact El|rewrite E3; exact Ep|unfold hc; rewrite E2; exact Hh|exact HL].
      * split; [unfold hc; rewrite E2; exact Hh|rewrite E3, Ep; intros y Hy; left; exact Hy].
      * unfold Top. rewrite E1, E2. exact HT1.
    + destruct (set_thr_frame i (TRun m res x SL3 rest) c) as (E1 & E2 & E3 & E4).
      split; [|split].
      * apply (Linv_hc c); [exact E4|exact E3|unfold hc; rewrite E2; lia|exact HL].
      * split; [unfold hc; rewrite E2; lia|rewrite E3; intros y Hy; left; exact Hy].
      * unfold Top. rewrite E1, E2. exact HT.
  - rewrite Eeq.
    assert (Hlow : low_ok t).
    { destruct t as [| | | | |m res x st rest|]; try exact I. destruct st; try exact I; apply (s_sl4 c HS i m res x _ rest En); auto. }
    destruct (t_full drift tv i c t En Hlow) as (t' & _ & El & Hp & _).
    destruct (t_step_sc i c t En Hat) as [Est Eca].
    assert (Hh : hc (t_step i c) = hc c) by (unfold hc; rewrite Eca; reflexivity).
    split; [|split; [|unfold Top; rewrite Est, Eca; exact HT]].
    + destruct Hp as [Hp|(m & res & x & rest & _ & Hp)].
      * apply (Linv_hc c); [exact El|exact Hp|lia|exact HL].
      * apply (Linv_add c _ x); assumption.
    + split; [lia|]. destruct Hp as [Hp|(m & res & x & rest & _ & Hp)]; rewrite Hp; intros y Hy; left; [exact Hy|apply add_super; assumption].
Qed.

(** *** Syncer.Head() never moves back *)
Definition Lh (c : cfg) : N := h_height (local_head c).

Lemma Lh_val c : Lh c = match ranges_head (c_pend c) with Some p => N.max (hc c) (h_height p) | None => hc c end.
Proof. unfold Lh, local_head, hc. apply pick_height. Qed.

Lemma Lh_ge_hc c : hc c <= Lh c.
Proof. rewrite Lh_val. destruct (ranges_head (c_pend c)); lia. Qed.

Lemma Lh_ge_pend c y : rinv (c_pend c) -> In y (ranges_all (c_pend c)) -> h_height y <= Lh c.
Proof.
  intros Hri Hy. rewrite Lh_val. pose proof (rinv_head _ Hri) as Hh.
  destruct (ranges_head (c_pend c)) as [m|]; [destruct Hh as [_ Hmax]; specialize (Hmax y Hy); lia|rewrite Hh in Hy; destruct Hy].
Qed.

Lemma Lh_mono c c' : rinv (c_pend c) -> rinv (c_pend c') -> keeps c c' -> Lh c <= Lh c'.
Proof.
  intros Hri Hri' [Hh Hk]. rewrite (Lh_val c). pose proof (Lh_ge_hc c') as Hg. pose proof (rinv_head _ Hri) as Hhd.
  destruct (ranges_head (c_pend c)) as [m|]; [|lia]. destruct Hhd as [Hin _].
  destruct (Hk m Hin) as [Hin'|Hle]; [pose proof (Lh_ge_pend c' m Hri' Hin'); lia|lia].
Qed.

Lemma add_Lh x c c' :
  rinv (c_pend c) -> hok x -> c_pend c' = ranges_add x (c_pend c) -> hc c' = hc c -> h_height x <= Lh c'.
Proof.
  intros Hri Hx Ep Hh.
  assert (Hri' : rinv (c_pend c')) by (rewrite Ep; apply rinv_add; assumption).
  pose proof (ranges_add_all x (c_pend c) Hri) as Ha. pose proof (rinv_head _ Hri) as Hhd.
  destruct (ranges_head (c_pend c)) as [m|] eqn:Em.
  - destruct Hhd as [Hin _]. destruct (N.leb_spec (h_height x) (h_height m)) as [Hle|Hgt].
    + assert (Hin' : In m (ranges_all (c_pend c'))) by (rewrite Ep, Ha; exact Hin).
      pose proof (Lh_ge_pend c' m Hri' Hin'). lia.
    + apply (Lh_ge_pend c' x Hri'). rewrite Ep, Ha. apply in_or_app. right. left. reflexivity.
  - apply (Lh_ge_pend c' x Hri'). rewrite Ep, Ha. apply in_or_app. right. left. reflexivity.
Qed.

(** *** the invariant of the machine as of 40dc6a8 *)
Definition sl5inv (c : cfg) : Prop :=
  forall i m res x rest, nth_error (c_thr c) i = Some (TRun m res x SL5 rest) -> h_height x <= Lh c.

Record Ainv (c : cfg) : Prop := MkAinv {
  a_inv : Inv c;
  a_s : Sinv c;
  a_q : qpc c;
  a_apc : apc c;
  a_top : Top c;
  a_l : Linv c;
  a_sl5 : sl5inv c
}.

Lemma t_sl5_from i c m res x rest :
  nth_error (c_thr (t_step i c)) i = Some (TRun m res x SL5 rest) ->
  (forall t, nth_error (c_thr c) i = Some t -> tpc_at t) ->
  nth_error (c_thr c) i = Some (TRun m res x SL4 rest) /\ c_pend (t_step i c) = ranges_add x (c_pend c) /\ c_cache (t_step i c) = c_cache c.
Proof.
  intros H Hat. unfold Syncer.t_step in *. destruct (nth_error (c_thr c) i) as [t|] eqn:En; [|rewrite En in H; discriminate].
  assert (Hi : (i < length (c_thr c))%nat) by (apply nth_error_Some; congruence).
  specialize (Hat t eq_refl).
  destruct t as [h now b|h now b ph|a|a ph|sbj a|m0 res0 x0 st rest0|r]; cbn [t_body] in H.
  - destruct (c_mu c); [rewrite En in H; discriminate|]. unfold set_thr in H. cbn in H. rewrite (nth_upd_same _ _ _ Hi) in H. discriminate.
  - destruct (enter_frame i (verdict drift tv now b (pick_head ph (c_cache c)) h) c) as (E1 & _). rewrite E1, (nth_upd_same _ _ _ Hi) in H.
    destruct (verdict_shape drift tv now b (pick_head ph (c_cache c)) h) as [Ev|(r1 & w & r2 & Ev)]; rewrite Ev in H; discriminate.
  - unfold set_thr in H. cbn in H. rewrite (nth_upd_same _ _ _ Hi) in H. discriminate.
  - unfold set_thr in H. cbn in H. rewrite (nth_upd_same _ _ _ Hi) in H. discriminate.
  - destruct a as [y|]; [destruct (_ <=? _)|]; unfold set_thr in H; cbn in H; rewrite (nth_upd_same _ _ _ Hi) in H; discriminate.
  - destruct st as [|nh| | | |]; try destruct Hat.
    + destruct (shim_check _ _); unfold set_thr in H; cbn in H; rewrite (nth_upd_same _ _ _ Hi) in H; discriminate.
    + destruct (_ <=? _).
      * unfold t_next in H. destruct rest0; [destruct m0|]; unfold set_thr in H; cbn in H; rewrite (nth_upd_same _ _ _ Hi) in H; discriminate.
      * unfold set_thr in H. cbn in H. rewrite (nth_upd_same _ _ _ Hi) in H. discriminate.
    + unfold set_thr in H. cbn in H. rewrite (nth_upd_same _ _ _ Hi) in H. injection H as -> -> -> ->. repeat split; reflexivity.
    + unfold t_next in H. destruct rest0; [destruct m0|]; unfold set_thr in H; cbn in H; rewrite (nth_upd_same _ _ _ Hi) in H; discriminate.
  - rewrite En in H. discriminate.
Qed.

(** headers a learner call has adopted and not yet passed through setLocalHead *)
Definition twork (t : tpc) : list hdr := match t with TRun _ _ x _ rest => x :: rest | _ => [] end.

Lemma t_twork i c t :
  nth_error (c_thr c) i = Some t -> tpc_at t ->
  exists t', c_thr (t_astep i c) = upd_nth i t' (c_thr c) /\
    forall y, In y (twork t) -> In y (twork t') \/
      exists m res st rest, t = TRun m res y st rest /\ ((st = SL3 /\ h_height y <= hc c) \/ st = SL5).
Proof.
  intros En Hat.
  destruct t as [h now b|h now b ph|a|a ph|sbj a|m res x st rest|r].
  1-5,7: (destruct (t_astep_shape i c _ En Hat) as (t' & Et & _); exists t'; split; [exact Et|intros y []]).
  unfold Syncer.t_astep. rewrite En. destruct st as [|nh| | | |]; try destruct Hat.
  - destruct (shim_apply [x] c) as [c1|] eqn:Es.
    + destruct (shim_apply_frame [x] c c1 Es) as (_ & Eth & _). eexists. unfold set_thr. cbn. rewrite Eth. split; [reflexivity|]. intros y Hy. left. exact Hy.
    + eexists. unfold set_thr. cbn. split; [reflexivity|]. intros y Hy. left. exact Hy.
  - unfold Syncer.t_step. rewrite En. cbn [t_body]. destruct (N.leb_spec (h_height x) (h_height (c_cache c))) as [Hle|Hgt].
    + unfold t_next. destruct rest as [|y0 r0]; [destruct m|]; eexists; unfold set_thr; cbn; (split; [reflexivity|]);
        (intros y [<-|Hy]; [right; eexists _, _, _, _; split; [reflexivity|left; split; [reflexivity|exact Hle]]|first [exfalso; exact Hy|left; exact Hy]]).
    + eexists. unfold set_thr. cbn. split; [reflexivity|]. intros y Hy. left. exact Hy.
  - unfold Syncer.t_step. rewrite En. cbn [t_body]. eexists. unfold set_thr. cbn. split; [reflexivity|]. intros y Hy. left. exact Hy.
  - unfold Syncer.t_step. rewrite En. cbn [t_body]. unfold t_next. destruct rest as [|y0 r0]; [destruct m|]; eexists; unfold set_thr; cbn; (split; [reflexivity|]);
      (intros y [<-|Hy]; [right; eexists _, _, _, _; split; [reflexivity|right; reflexivity]|first [exfalso; exact Hy|left; exact Hy]]).
Qed.

Definition covered (n : N) (c : cfg) : Prop :=
  n <= Lh c \/ exists y, In y (flat_map twork (c_thr c)) /\ n <= h_height y.

Lemma Linv_same c c' : c_loop c' = c_loop c -> c_pend c' = c_pend c -> c_cache c' = c_cache c -> Linv c -> Linv c'.
Proof. intros El Ep Ec. apply Linv_hc; [exact El|exact Ep|unfold hc; rewrite Ec; lia]. Qed.

Lemma l_astep_thr a c : c_thr (l_astep a c) = c_thr c.
Proof.
  unfold l_astep. destruct (c_loop c) as [| |ph|p|from to|from to|k from to|k hs|k hs nh|k hs|oto lst|] eqn:Elp; try apply l_step_thr.
  destruct (shim_apply hs c) as [c1|] eqn:Es.
  - destruct (shim_apply_frame hs c c1 Es) as (_ & Eth & _). unfold after_app. destruct k; cbn; exact Eth.
  - reflexivity.
Qed.

Theorem Ainv_astep c e :
  Ainv c -> wf_event e -> Ainv (astep c e) /\ keeps c (astep c e) /\ forall n, covered n c -> covered n (astep c e).
Proof.
  intros [HI HS HQ Hap HT HL H5] Hw.
  pose proof (Inv_astep c e HI Hw) as HI'. pose proof (i_rinv _ c HI) as Hri. pose proof (i_rinv _ _ HI') as Hri'.
  assert (Hmain : Linv (astep c e) /\ keeps c (astep c e) /\ Top (astep c e)).
  { destruct e as [h now b|a|a|i]; cbn [Syncer.astep Syncer.step].
    - split; [apply (Linv_same c); try reflexivity; exact HL|split; [split; [unfold hc; cbn; lia|cbn; intros y Hy; left; exact Hy]|exact HT]].
    - split; [apply (Linv_same c); try reflexivity; exact HL|split; [split; [unfold hc; cbn; lia|cbn; intros y Hy; left; exact Hy]|exact HT]].
    - apply Linv_l; assumption.
    - apply Linv_t; assumption. }
  destruct Hmain as (HL' & Hk & HT').
  pose proof (Lh_mono c (astep c e) Hri Hri' Hk) as Hmono.
  assert (Hatall : forall j t, nth_error (c_thr c) j = Some t -> tpc_at t).
  { intros j t Hj. destruct Hap as [_ Hf]. apply (proj1 (Forall_forall _ _) Hf). eapply nth_error_In. exact Hj. }
  assert (H5' : sl5inv (astep c e)).
  { intros j m res x rest Hj. destruct e as [h now b|a|a|i]; cbn [Syncer.astep Syncer.step] in *.
    - cbn in Hj. destruct (Nat.lt_ge_cases j (length (c_thr c))) as [Hlt|Hge].
      + rewrite nth_error_app1 in Hj by exact Hlt. specialize (H5 j m res x rest Hj). lia.
      + rewrite nth_error_app2 in Hj by exact Hge. destruct (j - length (c_thr c))%nat as [|k]; [discriminate|destruct k; discriminate].
    - cbn in Hj. destruct (Nat.lt_ge_cases j (length (c_thr c))) as [Hlt|Hge].
      + rewrite nth_error_app1 in Hj by exact Hlt. specialize (H5 j m res x rest Hj). lia.
      + rewrite nth_error_app2 in Hj by exact Hge. destruct (j - length (c_thr c))%nat as [|k]; [discriminate|destruct k; discriminate].
    - rewrite l_astep_thr in Hj. specialize (H5 j m res x rest Hj). lia.
    - destruct (nth_error (c_thr c) i) as [t|] eqn:En.
      2:{ assert (Ec : t_astep i c = c) by (unfold Syncer.t_astep; rewrite En; unfold Syncer.t_step; rewrite En; reflexivity).
          rewrite Ec in *. apply (H5 j m res x rest Hj). }
      destruct (t_astep_shape i c t En (Hatall i t En)) as (t' & Et & _ & _).
      destruct (Nat.eq_dec j i) as [->|Hne].
      + assert (Hsame : t_astep i c = t_step i c).
        { unfold Syncer.t_astep. rewrite En. destruct t as [| | | | |m0 r0 x0 st0 rest0|]; try reflexivity. destruct st0; try reflexivity.
          exfalso. unfold Syncer.t_astep in Hj. rewrite En in Hj.
          assert (Hi : (i < length (c_thr c))%nat) by (apply nth_error_Some; congruence).
          destruct (shim_apply [x0] c) as [c1|] eqn:Es.
          - destruct (shim_apply_frame [x0] c c1 Es) as (_ & Eth & _). unfold set_thr in Hj. cbn in Hj. rewrite Eth, (nth_upd_same _ _ _ Hi) in Hj. discriminate.
          - unfold set_thr in Hj. cbn in Hj. rewrite (nth_upd_same _ _ _ Hi) in Hj. discriminate. }
        rewrite Hsame in *.
        destruct (t_sl5_from i c m res x rest Hj (fun t0 H0 => Hatall i t0 H0)) as (E4 & Ep & Ec).
        apply (add_Lh x c); [exact Hri| |exact Ep|unfold hc; rewrite Ec; reflexivity].
        destruct (thr_P tail c i _ x HI E4) as [_ Hx]; [cbn; left; reflexivity|exact Hx].
      + rewrite Et, (nth_upd_other _ _ _ _ Hne) in Hj. specialize (H5 j m res x rest Hj). lia. }
  split; [constructor; try assumption|split; [exact Hk|]].
  - apply Sinv_astep; assumption.
  - apply q_astep; assumption.
  - apply apc_astep; assumption.
  - (* covered *)
    intros n [Hn|(y & Hy & Hn)]; [left; lia|].
    destruct e as [h now b|a|a|i]; cbn [Syncer.astep Syncer.step] in *.
    + right. exists y. split; [cbn; rewrite flat_map_app; apply in_or_app; left; exact Hy|exact Hn].
    + right. exists y. split; [cbn; rewrite flat_map_app; apply in_or_app; left; exact Hy|exact Hn].
    + right. exists y. split; [rewrite l_astep_thr; exact Hy|exact Hn].
    + apply in_flat_map in Hy. destruct Hy as (tj & Htj & Hy). destruct (In_nth_error _ _ Htj) as [j Hj].
      destruct (nth_error (c_thr c) i) as [t|] eqn:En.
      2:{ assert (Ec : t_astep i c = c) by (unfold Syncer.t_astep; rewrite En; unfold Syncer.t_step; rewrite En; reflexivity).
          rewrite Ec. right. exists y. split; [|exact Hn]. apply in_flat_map. exists tj. split; assumption. }
      destruct (t_twork i c t En (Hatall i t En)) as (t' & Et & Htw).
      assert (Hi : (i < length (c_thr c))%nat) by (apply nth_error_Some; congruence).
      destruct (Nat.eq_dec j i) as [->|Hne].
      * rewrite En in Hj. injection Hj as <-. destruct (Htw y Hy) as [Hin|(m & res & st & rest & -> & [[-> Hle]| ->])].
        -- right. exists y. split; [|exact Hn]. rewrite Et. apply flat_upd_new; assumption.
        -- left. pose proof (Lh_ge_hc c). lia.
        -- left. specialize (H5 i m res y rest En). lia.
      * right. exists y. split; [|exact Hn]. rewrite Et. apply in_flat_map. exists tj. split; [|exact Hy].
        eapply nth_error_In. rewrite nth_upd_other; [exact Hj|exact Hne].
Qed.

(** *** Syncer.State().ToHeight is a head that was learned *)
Definition Tinv (c : cfg) : Prop := ss_to (c_state c) <= Lh c.

Lemma l_step_to a c :
  ss_to (c_state (l_step a c)) = ss_to (c_state c) \/
  exists p, c_loop c = LSync2 p /\ ss_to (c_state (l_step a c)) = h_height p /\ c_pend (l_step a c) = c_pend c /\ c_cache (l_step a c) = c_cache c.
Proof.
  unfold l_step, l_finish, after_req, after_app.
  destruct (c_loop c) as [| |ph|p|from to|from to|k from to|k hs|k hs nh|k hs|oto lst|] eqn:Elp.
  4:{ destruct (_ <=? _); [destruct (ranges_remove_upto _ _); left; reflexivity|]. right. exists p. cbn. repeat split; reflexivity. }
  all: left; repeat match goal with |- context [match ?x with _ => _ end] => destruct x end; reflexivity.
Qed.

Lemma Tinv_astep c e : Ainv c -> wf_event e -> Tinv c -> Tinv (astep c e).
Proof.
  intros HA Hw HT. destruct (Ainv_astep c e HA Hw) as (HA' & Hk & _).
  pose proof (Lh_mono c (astep c e) (i_rinv _ c (a_inv c HA)) (i_rinv _ _ (a_inv _ HA')) Hk) as Hm.
  unfold Tinv in *.
  assert (Hcase : ss_to (c_state (astep c e)) = ss_to (c_state c) \/
                  exists p, c_loop c = LSync2 p /\ ss_to (c_state (astep c e)) = h_height p).
  { destruct e as [h now b|a|a|i]; cbn [Syncer.astep Syncer.step]; try (left; reflexivity).
    - unfold l_astep. destruct (c_loop c) as [| |ph|p|from to|from to|k from to|k hs|k hs nh|k hs|oto lst|] eqn:Elp.
      8:{ left. destruct (shim_apply hs c) as [c1|] eqn:Es; [|reflexivity].
          destruct (shim_apply_frame hs c c1 Es) as (_ & _ & _ & _ & _ & Est). unfold after_app. destruct k; cbn; rewrite Est; reflexivity. }
      all: destruct (l_step_to a c) as [H|(p0 & E0 & H & _)]; [left; exact H|right; exists p0; split; [rewrite Elp in E0; exact E0|exact H]].
    - left. destruct (nth_error (c_thr c) i) as [t|] eqn:En.
      + destruct (astep_fine drift tv c (ET i)) as (n & _ & E & _). cbn [Syncer.astep] in E. rewrite E. clear E.
        assert (Hr : forall es, Forall (fun e => exists j, e = ET j) es -> forall c0, c_state (run c0 es) = c_state c0).
        { induction es as [|e0 es IH]; intros Hf c0; [reflexivity|]. inversion Hf as [|? ? [j ->] Hf']; subst.
          cbn [Syncer.run fold_left Syncer.step]. fold (run (t_step j c0) es). rewrite (IH Hf').
          unfold Syncer.t_step. destruct (nth_error (c_thr c0) j) as [t0|]; [|reflexivity].
          unfold t_body, enter, t_next, set_thr. repeat match goal with |- context [match ?x with _ => _ end] => destruct x end; reflexivity. }
        rewrite Hr; [reflexivity|]. constructor; [exists i; reflexivity|]. apply Forall_forall. intros y Hy. apply repeat_spec in Hy. exists i. exact Hy.
      + unfold Syncer.t_astep, Syncer.t_step. rewrite En. reflexivity. }
  destruct Hcase as [E|(p & Elp & E)]; rewrite E; [lia|].
  pose proof (a_l c HA) as HL. unfold Linv in HL. rewrite Elp in HL.
  destruct HL as [Hin|Hle]; [pose proof (Lh_ge_pend c p (i_rinv _ c (a_inv c HA)) Hin); lia|pose proof (Lh_ge_hc c); lia].
Qed.

(** *** from the start, along every schedule *)
Lemma Ainv_init a l :
  consec (a :: l) -> Forall hok (a :: l) -> h_height a = tail ->
  Ainv (init_cfg tail (a :: l)) /\ Tinv (init_cfg tail (a :: l)).
Proof.
  intros Hc Hk Ha. pose proof (Inv_init tail a l Hc Hk Ha) as HI. split; [constructor|].
  - exact HI.
  - constructor; unfold init_cfg; cbn.
    + intros y [].
    + intros i m res x st rest Hi. destruct i; discriminate.
    + discriminate.
    + discriminate.
  - unfold qpc, init_cfg. cbn. intros Hne. contradiction.
  - unfold apc, init_cfg. cbn. split; [exact I|constructor].
  - unfold Top, init_cfg. cbn [c_store c_cache rs_log]. intros y Hy. apply in_rev in Hy. rewrite (last_indep l a hdr_nil a). apply (consec_bounds a l Hc y Hy).
  - unfold Linv, init_cfg. cbn. exact I.
  - intros i m res x rest Hi. unfold init_cfg in Hi. cbn in Hi. destruct i; discriminate.
  - unfold Tinv, init_cfg. cbn. lia.
Qed.

Theorem Ainv_arun es : forall c,
  Ainv c -> Tinv c -> Forall wf_event es ->
  Ainv (arun c es) /\ Tinv (arun c es) /\ Lh c <= Lh (arun c es) /\ forall n, covered n c -> covered n (arun c es).
Proof.
  induction es as [|e es IH]; intros c HA HT Hw; [split; [exact HA|split; [exact HT|split; [cbn; lia|auto]]]|].
  inversion Hw as [|? ? He Hr]; subst.
  destruct (Ainv_astep c e HA He) as (HA' & Hk & Hcov). pose proof (Tinv_astep c e HA He HT) as HT'.
  destruct (IH (astep c e) HA' HT' Hr) as (H1 & H2 & H3 & H4).
  pose proof (Lh_mono c (astep c e) (i_rinv _ c (a_inv c HA)) (i_rinv _ _ (a_inv _ HA')) Hk) as Hm.
  cbn [Syncer.arun fold_left]. fold (arun (astep c e) es). split; [exact H1|split; [exact H2|split; [lia|]]].
  intros n Hn. apply H4. apply Hcov. exact Hn.
Qed.

(** at quiescence the shim's head is the Store's head *)
Theorem quiet_shim_is_store c : Ainv c -> all_quiet c -> hc c = rs_head (c_store c).
Proof.
  intros HA (El & _ & Hth). pose proof (a_inv c HA) as HI.
  assert (Hres : reserved c = []).
  { unfold reserved. rewrite El. cbn. clear -Hth. induction Hth as [|t T (r & ->) HT IH]; [reflexivity|]. cbn. exact IH. }
  destruct (store_contiguous tail c HI) as (_ & H1 & _ & _ & Hx & _).
  pose proof (i_cache tail c HI) as Hin. apply in_hts in Hin. rewrite El in Hin. cbn in Hin.
  assert (Hle : hc c <= rs_head (c_store c)).
  { destruct Hin as [Hin|[[]|Hin]]; [apply (Hx Hres) in Hin; unfold hc; lia|].
    unfold reserved in Hres. rewrite El in Hres. cbn in Hres. rewrite Hres in Hin. destruct Hin. }
  assert (Hge : rs_head (c_store c) <= hc c).
  { pose proof (i_head tail c HI) as (H0 & _ & _). rewrite (i_tail tail c HI) in H0.
    assert (Hh : rs_has (rs_head (c_store c)) (rs_log (c_store c)) = true) by (apply H1; lia).
    apply rs_has_in in Hh. destruct Hh as (y & Hy & Ey). pose proof (a_top c HA y Hy). unfold hc. lia. }
  lia.
Qed.

End atomic.

(** * 4. the honest world: true chain headers, a getter that serves non-empty prefixes of what is asked *)
Section live.
Variables (drift : Z) (tv : hdr -> hdr -> tvres) (tail : N) (ch : N -> hdr).
Hypothesis Hch : forall n, h_height (ch n) = n.

Notation step := (step drift tv).
Notation run := (run drift tv).
Notation astep := (astep drift tv).
Notation arun := (arun drift tv).
Notation t_step := (t_step drift tv).
Notation t_astep := (t_astep drift tv).
Notation Inv := (Inv tail).
Notation wf_event := (wf_event tail).
Notation Ainv := (Ainv tail).
Notation gd := (good ch).

(** every header in play is a header of the true chain *)
Definition Hgood (c : cfg) : Prop :=
  (forall y, In y (all_hdrs c) -> gd y) /\ (forall y, In y (flat_map cands (c_thr c)) -> gd y).

Definition hev1 (e : event) : Prop :=
  match e with
  | EGossip x _ (Bif pr _) => gd x /\ forall p, In p pr -> gd p
  | EHead (Some x) => gd x
  | EL (GList hs) => forall y, In y hs -> gd y
  | _ => True
  end.

Lemma Hgood_step c e : Inv c -> Hgood c -> hev1 e -> Hgood (step c e).
Proof.
  intros HI [Ha Hc] He. split.
  - intros y Hy. destruct (flow drift tv c e y (i_pc _ c HI) Hy) as [H|H]; [apply Ha; exact H|].
    destruct e as [h now b|a|a|i]; cbn [enters] in H; try destruct H.
    + destruct (c_loop c); try destruct H. destruct a as [|[|x l]]; try destruct H. destruct (_ && _); [|destruct H]. apply He. exact H.
    + destruct (nth_error (c_thr c) i) as [t|] eqn:En; [|destruct H].
      apply Hc. apply in_flat_map. exists t. split; [eapply nth_error_In; exact En|].
      destruct t as [h now b|h now b ph|a|a ph|sbj a|m res x st rest|r]; try destruct H.
      * destruct b as [pr ok]. cbn [cands]. apply (vwork_sub drift tv _ _ _ _ _ _ H).
      * destruct a as [x|]; [|destruct H]. destruct (_ <=? _); [destruct H|]. destruct H as [<-|[]]. left. reflexivity.
  - destruct e as [h now b|a|a|i]; cbn [Syncer.step].
    + cbn. intros y Hy. rewrite flat_map_app in Hy. apply in_app_or in Hy. destruct Hy as [Hy|Hy]; [apply Hc; exact Hy|].
      cbn in Hy. rewrite app_nil_r in Hy. destruct b as [pr ok]. destruct He as [Hx Hp]. destruct Hy as [<-|Hy]; [exact Hx|apply Hp; exact Hy].
    + cbn. intros y Hy. rewrite flat_map_app in Hy. apply in_app_or in Hy. destruct Hy as [Hy|Hy]; [apply Hc; exact Hy|].
      cbn in Hy. rewrite app_nil_r in Hy. destruct a as [x|]; [|destruct Hy]. destruct Hy as [<-|[]]. exact He.
    + rewrite l_step_thr. exact Hc.
    + destruct (nth_error (c_thr c) i) as [t|] eqn:En.
      * destruct (t_shape drift tv i c t (i_rinv _ c HI) En) as (t' & Et & _ & Hi & _). rewrite Et.
        intros y Hy. apply flat_upd_g in Hy. destruct Hy as [Hy|Hy]; [|apply Hc; exact Hy].
        apply Hc. apply in_flat_map. exists t. split; [eapply nth_error_In; exact En|apply Hi; exact Hy].
      * unfold Syncer.t_step. rewrite En. exact Hc.
Qed.

Lemma Hgood_astep c e : Inv c -> wf_event e -> Hgood c -> hev1 e -> Hgood (astep c e).
Proof.
  intros HI Hw Hg He. destruct (astep_fine drift tv c e) as (n & _ & -> & _).
  cbn [Syncer.run fold_left]. fold (run (step c e) (again e n)).
  pose proof (Hgood_step c e HI Hg He) as Hg1. pose proof (Inv_step drift tv tail c e HI Hw) as HI1.
  revert Hg1 HI1. generalize (step c e). 
  assert (Hag : Forall (fun e0 => wf_event e0 /\ hev1 e0) (again e n)).
  { unfold again. destruct e; try constructor; apply Forall_forall; intros y Hy; apply repeat_spec in Hy; subst; split; exact I. }
  induction Hag as [|e0 es [Hw0 He0] Hes IH]; intros c0 Hg0 HI0; [exact Hg0|].
  cbn [Syncer.run fold_left]. apply IH; [apply Hgood_step; assumption|apply Inv_step; assumption].
Qed.

(** the shim accepts a run of chain headers that starts at most one above its (chain) head *)
Lemma chain_eq x y : gd x -> gd y -> h_height x = h_height y -> x = y.
Proof. intros [Hx _] [Hy _] E. unfold is_ch in *. rewrite Hx, Hy, E. reflexivity. Qed.

Lemma walk_chain : forall r c,
  gd c -> (forall y, In y r -> gd y) -> consec r ->
  (r = [] \/ h_height (hd hdr_nil r) = h_height c \/ h_height (hd hdr_nil r) = h_height c + 1) ->
  exists nh, shim_walk c r = Some nh.
Proof.
  induction r as [|b r IH]; intros c Hc Hg Hcs Hd; [exists c; reflexivity|].
  rewrite shim_walk_cons. destruct Hd as [Hd|[Hd|Hd]]; [discriminate| |]; cbn [hd] in Hd.
  - assert (Eb : b = c) by (apply chain_eq; [apply Hg; left; reflexivity|exact Hc|exact Hd]). subst b.
    rewrite !N.eqb_refl. cbn [andb]. apply IH; [exact Hc|intros y Hy; apply Hg; right; exact Hy|apply (consec_tail _ _ Hcs)|].
    destruct r as [|b' r']; [left; reflexivity|right; right]. cbn [hd]. destruct Hcs as [Hb _]. exact Hb.
  - destruct (N.eqb_spec (h_height b) (h_height c)) as [E|_]; [lia|]. cbn [andb].
    destruct Hc as [_ Hck]. rewrite (wrap_succ _ Hck). destruct (N.eqb_spec (h_height b) (h_height c + 1)) as [_|N0]; [|contradiction].
    apply IH; [apply Hg; left; reflexivity|intros y Hy; apply Hg; right; exact Hy|apply (consec_tail _ _ Hcs)|].
    destruct r as [|b' r']; [left; reflexivity|right; right]. cbn [hd]. destruct Hcs as [Hb _]. exact Hb.
Qed.

Lemma drop_below_hd c hs :
  consec hs -> drop_below c hs <> [] ->
  h_height c <= h_height (hd hdr_nil (drop_below c hs)) /\
  (h_height (hd hdr_nil (drop_below c hs)) = h_height (hd hdr_nil hs) \/ h_height (hd hdr_nil (drop_below c hs)) = h_height c) /\
  consec (drop_below c hs).
Proof.
  induction hs as [|a r IH]; intros Hc Hne; [contradiction|].
  cbn [drop_below] in *. destruct (N.ltb_spec (h_height a) (h_height c)) as [Hlt|Hge].
  - destruct (IH (consec_tail _ _ Hc) Hne) as (H1 & H2 & H3). split; [exact H1|]. split; [|exact H3].
    destruct H2 as [H2|H2]; [|right; exact H2]. right. destruct r as [|b r']; [contradiction|]. cbn [hd] in *. destruct Hc as [Hb _]. lia.
  - cbn [hd]. split; [exact Hge|]. split; [left; reflexivity|exact Hc].
Qed.

Lemma honest_shim c hs :
  gd c -> (forall y, In y hs -> gd y) -> consec hs -> hs <> [] -> h_height (hd hdr_nil hs) <= h_height c + 1 ->
  shim_check c hs <> ShimNonAdj.
Proof.
  intros Hc Hg Hcs Hne Hd. unfold shim_check. destruct hs as [|a l]; [contradiction|].
  destruct (drop_below c (a :: l)) as [|b r] eqn:Ed; [discriminate|].
  assert (Hdn : drop_below c (a :: l) <> []) by (rewrite Ed; discriminate).
  destruct (drop_below_hd c (a :: l) Hcs Hdn) as (H1 & H2 & H3). rewrite Ed in H1, H2, H3. cbn [hd] in *.
  destruct (walk_chain (b :: r) c Hc) as (nh & ->); [|exact H3| |discriminate].
  - intros y Hy. apply Hg. apply (drop_below_incl c (a :: l)). rewrite Ed. exact Hy.
  - right. cbn [hd]. destruct H2 as [H2|H2]; lia.
Qed.

(** *** with an honest getter no sync attempt fails *)
Definition gans (c : cfg) (a : ganswer) : Prop :=
  match next_req c with
  | Some (f, to) => exists n, N.of_nat (S n) <= req_size f to /\ a = GList (crun ch (f + 1) (S n)) /\ Forall hok (crun ch (f + 1) (S n))
  | None => True
  end.

Lemma l_step_err a c :
  (match c_loop c with LReq _ _ _ | LApp0 _ _ => False | _ => True end) ->
  ss_err (c_state (l_step a c)) = ss_err (c_state c).
Proof.
  intros H. unfold l_step, l_finish, after_req, after_app.
  destruct (c_loop c) as [| |ph|p|from to|from to|k from to|k hs|k hs nh|k hs|oto lst|] eqn:Elp; try destruct H;
    repeat match goal with |- context [match ?x with _ => _ end] => destruct x end; reflexivity.
Qed.

(** what the sync loop's next step consumes while the getter is honest: the answer to the outstanding request, if any *)
Definition dans (c : cfg) (a : ganswer) : Prop :=
  match next_req c with Some _ => gans c a | None => a = GErr end.

Lemma dans_wf c a : dans c a -> wf_event (EL a) /\ hev1 (EL a).
Proof.
  unfold dans, gans. destruct (next_req c) as [[f to]|]; [|intros ->; split; exact I].
  intros (n & _ & -> & Hk). split.
  - split; [exact Hk|apply (crun_consec ch Hch)].
  - intros y Hy. split; [apply (crun_is_ch ch Hch _ _ _ Hy)|apply (proj1 (Forall_forall _ _) Hk); exact Hy].
Qed.

Lemma dans_ok D E c a : bnd D E c -> dans c a -> ans_ok D (EL a).
Proof.
  intros HB. unfold dans, gans, next_req.
  destruct (c_loop c) as [| |ph|p|from to|from to|k from to|k hs|k hs nh|k hs|oto lst|] eqn:Elp; try (intros ->; exact I).
  destruct (N.ltb_spec (h_height from) to) as [Hlt|Hge]; [|intros ->; exact I].
  intros (n & Hn & -> & _). cbn [ans_ok]. intros y Hy.
  destruct (proj1 (crun_in ch _ _ y) Hy) as (i & Hi & ->). unfold hn. rewrite Hch.
  assert (Hto : (N.to_nat to <= D)%nat) by (apply (b_to D E c HB); rewrite Elp; left; reflexivity).
  unfold req_size in Hn. assert (N.of_nat (S n) <= sub64 to (h_height from)) by lia.
  unfold sub64 in H. destruct (N.leb_spec (h_height from) to); lia.
Qed.

Lemma l_noerr a c :
  Ainv c -> Hgood c -> dans c a ->
  ss_err (c_state (l_astep a c)) = None \/ ss_err (c_state (l_astep a c)) = ss_err (c_state c).
Proof.
  intros HA [Hg _] Hd. pose proof (a_inv _ c HA) as HI. pose proof (a_l _ c HA) as HL. pose proof (i_pc _ c HI) as Hpc.
  unfold l_astep. destruct (c_loop c) as [| |ph|p|from to|from to|k from to|k hs|k hs nh|k hs|oto lst|] eqn:Elp.
  7:{ (* LReq *) unfold dans, gans, next_req in Hd. rewrite Elp in Hd. unfold l_step. rewrite Elp.
      destruct (N.ltb_spec (h_height from) to) as [Hlt|Hge].
      - destruct Hd as (n & _ & -> & _). cbn [crun]. rewrite Hch.
        assert (Hpf : hok from) by (apply (loop_P tail c from HI); rewrite Elp; left; reflexivity).
        rewrite (wrap_succ _ Hpf), N.eqb_refl. right. reflexivity.
      - unfold after_req, l_finish. destruct k; [right; reflexivity|left; reflexivity]. }
  7:{ (* LApp0 *) destruct Hpc as [[Hne Hcs] _].
      assert (Hhd : h_height (hd hdr_nil hs) <= h_height (c_cache c) + 1).
      { unfold Linv in HL. rewrite Elp in HL. destruct k as [k' to|oto]; [destruct HL as [_ H]|destruct HL as (_ & _ & H)]; exact H. }
      assert (Hgc : gd (c_cache c)) by (apply Hg; unfold all_hdrs; apply in_or_app; right; left; reflexivity).
      assert (Hgh : forall y, In y hs -> gd y).
      { intros y Hy. apply Hg. unfold all_hdrs. rewrite Elp. apply in_or_app. right. right. apply in_or_app. right. apply in_or_app. left. cbn. apply in_or_app. left. exact Hy. }
      pose proof (honest_shim (c_cache c) hs Hgc Hgh Hcs Hne Hhd) as Hns.
      unfold shim_apply. destruct (shim_check (c_cache c) hs); try contradiction; unfold after_app; destruct k; right; reflexivity. }
  all: right; apply l_step_err; rewrite Elp; exact I.
Qed.

(** *** the bounds of a configuration *)
Definition Dof (c : cfg) : nat :=
  list_max (map hn (all_hdrs c ++ flat_map cands (c_thr c)) ++ map N.to_nat (lto (c_loop c))).
Definition Eof (c : cfg) : nat := (npend c + sum wk (c_thr c))%nat.

Lemma list_max_ge l k : In k l -> (k <= list_max l)%nat.
Proof. intros H. pose proof (proj1 (list_max_le l (list_max l)) (Nat.le_refl _)) as Hf. apply (proj1 (Forall_forall _ _) Hf). exact H. Qed.

Lemma bnd_of c : bnd (Dof c) (Eof c) c.
Proof.
  constructor.
  - intros y Hy. apply list_max_ge. apply in_or_app. left. apply in_map. apply in_or_app. left. exact Hy.
  - intros y Hy. apply list_max_ge. apply in_or_app. left. apply in_map. apply in_or_app. right. exact Hy.
  - intros t Ht. apply list_max_ge. apply in_or_app. right. apply in_map. exact Ht.
  - unfold Eof. lia.
Qed.

(** the loop's target heights are heights of headers: below the uint64 maximum *)
Definition to_ok (c : cfg) : Prop := forall t, In t (lto (c_loop c)) -> t + 1 < two64.

Lemma to_ok_step c e : Inv c -> Sinv c /\ to_ok c -> Sinv (step c e) /\ to_ok (step c e).
Proof.
  intros HI [HS HT]. split; [apply (Sinv_step drift tv tail); assumption|].
  destruct e as [h now b|a|a|i]; cbn [Syncer.step]; try exact HT.
  - unfold to_ok. apply (lto_l tv (fun t => t + 1 < two64) a c HS); [| |exact HT].
    + intros y Hy. destruct (i_P _ c HI y Hy) as [_ Hk]. exact Hk.
    + intros n H1 Hn. lia.
  - unfold to_ok. rewrite (t_step_loop drift tv i c). exact HT.
Qed.

Lemma to_ok_astep c e : Inv c -> wf_event e -> Sinv c -> to_ok c -> to_ok (astep c e).
Proof.
  intros HI Hw HS HT.
  apply (astep_keeps drift tv tail (fun c0 => Sinv c0 /\ to_ok c0)); [|exact HI|exact Hw|split; assumption].
  intros c0 e0 H0 _ Hq. apply to_ok_step; assumption.
Qed.

(** *** everything the drain relies on *)
Record Live (c : cfg) : Prop := MkLive {
  lv_a : Ainv c;
  lv_t : Tinv c;
  lv_g : Hgood c;
  lv_np : c_loop c <> LPanic;
  lv_to : to_ok c
}.

Lemma nopanic_astep c e : c_loop c <> LPanic -> c_loop (astep c e) <> LPanic.
Proof. intros H. destruct (astep_fine drift tv c e) as (n & _ & -> & _). apply no_panic_run. exact H. Qed.

Lemma Live_astep c e : Live c -> wf_event e -> hev1 e -> Live (astep c e).
Proof.
  intros [HA HT Hg Hn Hto] Hw He. constructor.
  - apply (Ainv_astep drift tv tail c e HA Hw).
  - apply (Tinv_astep drift tv tail); assumption.
  - apply Hgood_astep; [apply (a_inv _ c HA)|assumption|assumption|assumption].
  - apply nopanic_astep. exact Hn.
  - apply to_ok_astep; [apply (a_inv _ c HA)|exact Hw|apply (a_s _ c HA)|exact Hto].
Qed.

Lemma Live_init a l :
  consec (a :: l) -> Forall gd (a :: l) -> h_height a = tail -> Live (init_cfg tail (a :: l)).
Proof.
  intros Hc Hg Ha.
  assert (Hk : Forall hok (a :: l)) by (apply Forall_forall; intros y Hy; apply (proj1 (Forall_forall _ _) Hg y Hy)).
  destruct (Ainv_init tail a l Hc Hk Ha) as [HA HT]. constructor; try assumption.
  - split.
    + intros y Hy. unfold all_hdrs, init_cfg in Hy. cbn [c_store c_cache c_pend c_loop c_thr rs_log ranges_all loop_hdrs flat_map app] in Hy.
      apply (proj1 (Forall_forall _ _) Hg). apply in_app_or in Hy. destruct Hy as [Hy|[<-|[]]]; [apply in_rev; exact Hy|].
      rewrite (last_indep l a hdr_nil a). apply last_in.
    + intros y [].
  - discriminate.
  - intros t [].
Qed.

Theorem Live_arun es : forall c, Live c -> Forall (fun e => wf_event e /\ hev1 e) es -> Live (arun c es).
Proof.
  induction es as [|e es IH]; intros c HL Hf; [exact HL|]. inversion Hf as [|? ? [Hw He] Hr]; subst.
  cbn [Syncer.arun fold_left]. apply IH; [apply Live_astep; assumption|exact Hr].
Qed.

(** *** one step of the drain *)
Definition dstep (c : cfg) (e : event) : Prop :=
  match e with EL a => dans c a | ET _ => True | _ => False end.

Lemma dstep_wf c e : dstep c e -> wf_event e /\ hev1 e.
Proof. destruct e as [h now b|a|a|i]; cbn; try tauto. apply dans_wf. Qed.

Lemma en_good (D : nat) e n c1 : en_run drift tv c1 (again e n) -> good_run drift tv tail D c1 (again e n).
Proof.
  unfold again. destruct e as [h now b|a0|a0|i]; try (intros _; exact I).
  - revert c1. induction n as [|n IH]; intros c1 Hen; [exact I|]. cbn [repeat en_run good_run] in *. destruct Hen as [H1 H2].
    split; [exact H1|]. split; [exact I|]. split; [exact I|]. apply IH. exact H2.
  - revert c1. induction n as [|n IH]; intros c1 Hen; [exact I|]. cbn [repeat en_run good_run] in *. destruct Hen as [H1 H2].
    split; [exact H1|]. split; [exact I|]. split; [exact I|]. apply IH. exact H2.
Qed.

Lemma t_run_state es : Forall (fun e => exists j, e = ET j) es -> forall c0, c_state (run c0 es) = c_state c0.
Proof.
  induction es as [|e0 es IH]; intros Hf c0; [reflexivity|]. inversion Hf as [|? ? [j ->] Hf']; subst.
  cbn [Syncer.run fold_left Syncer.step]. fold (run (t_step j c0) es). rewrite (IH Hf').
  unfold Syncer.t_step. destruct (nth_error (c_thr c0) j) as [t0|]; [|reflexivity].
  unfold t_body, enter, t_next, set_thr. repeat match goal with |- context [match ?x with _ => _ end] => destruct x end; reflexivity.
Qed.

Lemma drain_step D E c e :
  Live c -> bnd D E c -> enabled c e -> dstep c e ->
  (mu D E (astep c e) < mu D E c)%nat /\ bnd D E (astep c e) /\ Live (astep c e) /\
  (ss_err (c_state (astep c e)) = None \/ ss_err (c_state (astep c e)) = ss_err (c_state c)).
Proof.
  intros HL HB Hen Hd. destruct (dstep_wf c e Hd) as [Hw He]. pose proof (lv_a c HL) as HA.
  split; [|split; [|split; [apply Live_astep; assumption|]]].
  - destruct (astep_fine drift tv c e) as (n & _ & -> & Hn).
    assert (Hg : good_run drift tv tail D c (e :: again e n)).
    { cbn [good_run]. split; [exact Hen|]. split; [exact Hw|]. split; [|apply (en_good D); exact Hn].
      destruct e as [h now b|a0|a0|i]; try exact I. apply (dans_ok D E c a0 HB Hd). }
    destruct (good_run_bound drift tv tail D E _ c (a_inv _ c HA) (a_s _ c HA) HB Hg) as (Hb & _). cbn [length] in Hb. lia.
  - destruct (astep_fine drift tv c e) as (n & _ & -> & Hn).
    assert (Hg : good_run drift tv tail D c (e :: again e n)).
    { cbn [good_run]. split; [exact Hen|]. split; [exact Hw|]. split; [|apply (en_good D); exact Hn].
      destruct e as [h now b|a0|a0|i]; try exact I. apply (dans_ok D E c a0 HB Hd). }
    apply (good_run_bound drift tv tail D E _ c (a_inv _ c HA) (a_s _ c HA) HB Hg).
  - destruct e as [h now b|a0|a0|i]; try destruct Hd.
    + apply l_noerr; [exact HA|apply (lv_g c HL)|exact Hd].
    + right. destruct (astep_fine drift tv c (ET i)) as (n & _ & -> & _). rewrite t_run_state; [reflexivity|].
      constructor; [exists i; reflexivity|]. apply Forall_forall. intros y Hy. apply repeat_spec in Hy. exists i. exact Hy.
Qed.

(** *** the drain: nothing new is learned, the getter answers every request with a prefix, every step taken is enabled *)
Fixpoint drain (c : cfg) (ds : list event) : Prop :=
  match ds with
  | [] => True
  | e :: r => enabled c e /\ dstep c e /\ drain (astep c e) r
  end.

Definition stuck (c : cfg) : Prop := ~ l_enabled c /\ forall i, ~ t_enabled i c.

Theorem drain_bound D E ds : forall c,
  Live c -> bnd D E c -> drain c ds ->
  (length ds + mu D E (arun c ds) <= mu D E c)%nat /\ bnd D E (arun c ds) /\ Live (arun c ds) /\
  (ss_err (c_state (arun c ds)) = None \/ ss_err (c_state (arun c ds)) = ss_err (c_state c)).
Proof.
  induction ds as [|e ds IH]; intros c HL HB Hd.
  - cbn. split; [lia|]. split; [exact HB|]. split; [exact HL|right; reflexivity].
  - destruct Hd as (Hen & Hs & Hd). destruct (drain_step D E c e HL HB Hen Hs) as (H1 & H2 & H3 & H4).
    destruct (IH (astep c e) H3 H2 Hd) as (I1 & I2 & I3 & I4).
    cbn [Syncer.arun fold_left length]. fold (arun (astep c e) ds).
    split; [lia|]. split; [exact I2|]. split; [exact I3|].
    destruct I4 as [I4|I4]; [left; exact I4|]. destruct H4 as [H4|H4]; [left; congruence|right; congruence].
Qed.

(** what quiescence means in the honest world *)
Theorem quiet_reached c0 c' :
  Live c' -> all_quiet c' -> ss_err (c_state c') = None ->
  Lh c0 <= Lh c' -> (forall n, covered n c0 -> covered n c') ->
  reached ch (Lh c') c' /\ h_height (local_head c0) <= Lh c' /\
  forall y, In y (flat_map twork (c_thr c0)) -> h_height y <= Lh c'.
Proof.
  intros [HA HT [Hg _] Hnp _] Hq He Hm Hcov. pose proof (a_inv _ c' HA) as HI.
  destruct (quiet_nothing_pending c' (a_q _ c' HA) Hq He) as [Ep El].
  pose proof (quiet_shim_is_store tail c' HA Hq) as Hs.
  assert (ELh : Lh c' = hc c') by (unfold Lh, hc; rewrite El; reflexivity).
  destruct Hq as (Elp & Etr & Hth).
  assert (Hres : reserved c' = []).
  { unfold reserved. rewrite Elp. cbn. clear -Hth. induction Hth as [|t T (r & ->) HT' IH]; [reflexivity|]. cbn. exact IH. }
  split; [|split; [exact Hm|]].
  - unfold reached. split; [exact Ep|]. split; [rewrite ELh; symmetry; exact Hs|]. split; [rewrite ELh; reflexivity|]. split; [exact He|].
    assert (Hfin : state_finished c' = true).
    { unfold state_finished, state_height. apply N.leb_le. unfold Tinv in HT. rewrite ELh in HT. exact HT. }
    split; [exact Hfin|]. split; [unfold sync_wait_returns; rewrite Hfin; reflexivity|].
    destruct (store_contiguous tail c' HI) as (Et & _ & _ & _ & Hx & _).
    pose proof (i_head tail c' HI) as (H0 & _ & _).
    unfold store_ok, store_ok2. split; [exact H0|]. split.
    + intros n. rewrite (Hx Hres n), Et. split; [intros H; left; exact H|intros [H|H]; [exact H|lia]].
    + intros x Hx'. apply Hg. unfold all_hdrs. apply in_or_app. left. exact Hx'.
  - intros y Hy. destruct (Hcov (h_height y)) as [H|(z & Hz & _)]; [right; exists y; split; [exact Hy|lia]|exact H|].
    exfalso. apply in_flat_map in Hz. destruct Hz as (t & Ht & Hz).
    destruct (proj1 (Forall_forall _ _) Hth t Ht) as (r & ->). destruct Hz.
Qed.

Lemma stuck_all_quiet c : Live c -> stuck c -> all_quiet c.
Proof.
  intros [HA _ _ Hnp _] [Hl Ht]. apply (stuck_quiet c (a_s _ c HA) Hnp Hl Ht).
Qed.

(** **** C07_reaches_target, interleaved learner calls *)
Theorem reaches_target_interleaved (a : hdr) (l : list hdr) (es ds : list event) :
  consec (a :: l) -> Forall gd (a :: l) -> h_height a = tail ->
  Forall (fun e => wf_event e /\ hev1 e) es ->
  let c0 := arun (init_cfg tail (a :: l)) es in
  drain c0 ds ->
  let c' := arun c0 ds in
  let D := Dof c0 in let E := Eof c0 in
  (length ds + mu D E c' <= mu D E c0)%nat /\
  (ss_err (c_state c') = None \/ ss_err (c_state c') = ss_err (c_state c0)) /\
  (stuck c' ->
     all_quiet c' /\
     (ss_err (c_state c') = None ->
        reached ch (Lh c') c' /\ h_height (local_head c0) <= Lh c' /\
        forall y, In y (flat_map twork (c_thr c0)) -> h_height y <= Lh c')).
Proof.
  intros Hc Hg Ha Hes c0 Hd c' D E.
  pose proof (Live_arun es _ (Live_init a l Hc Hg Ha) Hes) as HL0. fold c0 in HL0.
  destruct (drain_bound D E ds c0 HL0 (bnd_of c0) Hd) as (Hb & _ & HL' & Herr). fold c' in Hb, HL', Herr.
  split; [exact Hb|]. split; [exact Herr|]. intros Hst.
  pose proof (stuck_all_quiet c' HL' Hst) as Hq. split; [exact Hq|]. intros He.
  assert (Hw : Forall wf_event ds).
  { clear -Hd Hch. revert Hd. generalize c0. induction ds as [|e r IH]; intros c1 Hd; [constructor|].
    destruct Hd as (_ & Hs & Hd). constructor; [apply (dstep_wf c1 e Hs)|apply (IH _ Hd)]. }
  destruct (Ainv_arun drift tv tail ds c0 (lv_a c0 HL0) (lv_t c0 HL0) Hw) as (_ & _ & Hm & Hcov). fold c' in Hm, Hcov.
  apply (quiet_reached c0 c' HL' Hq He Hm Hcov).
Qed.

(** *** run to quiescence: any scheduler that keeps picking an enabled step *)
Definition l_enabledb (c : cfg) : bool :=
  match c_loop c with LIdle => c_trig c | LPanic => false | _ => true end.
Definition t_stuckb (m : bool) (t : tpc) : bool :=
  match t with TDone _ => true | TWait _ _ _ => m | _ => false end.
Definition stuckb (c : cfg) : bool := negb (l_enabledb c) && forallb (t_stuckb (c_mu c)) (c_thr c).

Lemma stuckb_spec c : stuckb c = true <-> stuck c.
Proof.
  unfold stuckb, stuck. rewrite Bool.andb_true_iff, Bool.negb_true_iff, forallb_forall. split.
  - intros [Hl Ht]. split.
    + unfold l_enabled, l_enabledb in *. destruct (c_loop c); try discriminate; [rewrite Hl; discriminate|intros []].
    + intros i Hi. unfold t_enabled in Hi. destruct (nth_error (c_thr c) i) as [t|] eqn:En; [|exact Hi].
      specialize (Ht t (nth_error_In _ _ En)). destruct t; cbn in Ht; try discriminate; [congruence|exact Hi].
  - intros [Hl Ht]. split.
    + unfold l_enabled, l_enabledb in *. destruct (c_loop c); try (exfalso; apply Hl; exact I); [destruct (c_trig c); [exfalso; apply Hl; reflexivity|reflexivity]|reflexivity].
    + intros t Hin. destruct (In_nth_error _ _ Hin) as [i Hi]. specialize (Ht i). unfold t_enabled in Ht. rewrite Hi in Ht.
      destruct t; cbn; try (exfalso; apply Ht; exact I); [|reflexivity]. destruct (c_mu c); [reflexivity|exfalso; apply Ht; reflexivity].
Qed.

(** the scheduler: whenever something can move, it picks a step that can - a learner call's, or the loop's with the
    honest getter's answer to the outstanding request.  (Nothing else is assumed: no priorities, no fairness between
    goroutines - every enabled step makes progress.) *)
Definition sched_ok (sched : cfg -> event) : Prop :=
  forall c, Live c -> ~ stuck c -> enabled c (sched c) /\ dstep c (sched c).

Fixpoint drive (sched : cfg -> event) (n : nat) (c : cfg) : cfg :=
  match n with
  | O => c
  | S k => if stuckb c then c else drive sched k (astep c (sched c))
  end.

Lemma drive_spec sched D E : sched_ok sched -> forall n c,
  Live c -> bnd D E c -> (mu D E c <= n)%nat ->
  stuck (drive sched n c) /\ exists ds, drive sched n c = arun c ds /\ drain c ds /\ (length ds <= n)%nat.
Proof.
  intros Hs. induction n as [|k IH]; intros c HL HB Hm.
  - cbn [drive]. split; [|exists []; split; [reflexivity|split; [exact I|cbn; lia]]].
    destruct (stuckb c) eqn:Eb; [apply stuckb_spec; exact Eb|exfalso].
    assert (Hns : ~ stuck c) by (intros H; apply stuckb_spec in H; congruence).
    destruct (Hs c HL Hns) as [Hen Hd]. destruct (drain_step D E c _ HL HB Hen Hd) as (H1 & _). lia.
  - cbn [drive]. destruct (stuckb c) eqn:Eb.
    + split; [apply stuckb_spec; exact Eb|exists []; split; [reflexivity|split; [exact I|cbn; lia]]].
    + assert (Hns : ~ stuck c) by (intros H; apply stuckb_spec in H; congruence).
      destruct (Hs c HL Hns) as [Hen Hd]. destruct (drain_step D E c _ HL HB Hen Hd) as (H1 & H2 & H3 & _).
      destruct (IH (astep c (sched c)) H3 H2 ltac:(lia)) as (Hst & ds & Eds & Hdr & Hlen).
      split; [exact Hst|]. exists (sched c :: ds). split; [exact Eds|]. split; [cbn [drain]; split; [exact Hen|split; [exact Hd|exact Hdr]]|cbn [length]; lia].
Qed.

(** such schedulers exist: e.g. the first learner call that can move, else the loop (served one header per request) *)
Fixpoint find_en (m : bool) (T : list tpc) (i : nat) : option nat :=
  match T with
  | [] => None
  | t :: r => if t_stuckb m t then find_en m r (S i) else Some i
  end.

Definition first_sched (c : cfg) : event :=
  match find_en (c_mu c) (c_thr c) 0 with
  | Some i => ET i
  | None => EL (match next_req c with Some (f, _) => GList [ch (f + 1)] | None => GErr end)
  end.

Lemma find_en_spec m : forall T i0,
  match find_en m T i0 with
  | Some i => exists t, (i0 <= i)%nat /\ nth_error T (i - i0) = Some t /\ t_stuckb m t = false
  | None => forallb (t_stuckb m) T = true
  end.
Proof.
  induction T as [|t r IH]; intros i0; [reflexivity|]. cbn [find_en forallb].
  destruct (t_stuckb m t) eqn:Et.
  - specialize (IH (S i0)). destruct (find_en m r (S i0)) as [i|]; [|exact IH].
    destruct IH as (t' & Hle & Hn & Hs). exists t'. split; [lia|]. split; [|exact Hs].
    replace (i - i0)%nat with (S (i - S i0)) by lia. exact Hn.
  - exists t. split; [lia|]. split; [replace (i0 - i0)%nat with 0%nat by lia; reflexivity|exact Et].
Qed.

Lemma first_sched_ok : sched_ok first_sched.
Proof.
  intros c HL Hns. unfold first_sched. pose proof (find_en_spec (c_mu c) (c_thr c) 0) as Hf.
  destruct (find_en (c_mu c) (c_thr c) 0) as [i|].
  - destruct Hf as (t & _ & Hn & Hs). rewrite Nat.sub_0_r in Hn. split; [|exact I].
    unfold enabled, t_enabled. rewrite Hn. destruct t; cbn in Hs; try discriminate; try exact I. exact Hs.
  - assert (Hle : l_enabled c).
    { destruct (l_enabledb c) eqn:El.
      - unfold l_enabled, l_enabledb in *. destruct (c_loop c); try exact I; [exact El|discriminate].
      - exfalso. apply Hns. apply stuckb_spec. unfold stuckb. rewrite El, Hf. reflexivity. }
    split; [exact Hle|]. unfold dstep, dans, gans, next_req.
    destruct (c_loop c) as [| |ph|p|from to|from to|k from to|k hs|k hs nh|k hs|oto lst|] eqn:Elp; try reflexivity.
    destruct (N.ltb_spec (h_height from) to) as [Hlt|Hge]; [|reflexivity].
    exists 0%nat. assert (Hto : to + 1 < two64) by (apply (lv_to c HL); rewrite Elp; left; reflexivity).
    split; [|split; [reflexivity|]].
    + unfold req_size, max_req, sub64. destruct (N.leb_spec (h_height from) to); lia.
    + cbn [crun]. constructor; [|constructor]. unfold hok. rewrite Hch. lia.
Qed.

Theorem reaches_target_fair (a : hdr) (l : list hdr) (es : list event) (sched : cfg -> event) :
  consec (a :: l) -> Forall gd (a :: l) -> h_height a = tail ->
  Forall (fun e => wf_event e /\ hev1 e) es -> sched_ok sched ->
  let c0 := arun (init_cfg tail (a :: l)) es in
  let c' := drive sched (mu (Dof c0) (Eof c0) c0) c0 in
  all_quiet c' /\
  (ss_err (c_state c') = None \/ ss_err (c_state c') = ss_err (c_state c0)) /\
  (ss_err (c_state c') = None ->
     reached ch (Lh c') c' /\ h_height (local_head c0) <= Lh c' /\
     forall y, In y (flat_map twork (c_thr c0)) -> h_height y <= Lh c').
Proof.
  intros Hc Hg Ha Hes Hs c0 c'.
  pose proof (Live_arun es _ (Live_init a l Hc Hg Ha) Hes) as HL0. fold c0 in HL0.
  destruct (drive_spec sched (Dof c0) (Eof c0) Hs _ c0 HL0 (bnd_of c0) (Nat.le_refl _)) as (Hst & ds & Eds & Hdr & _). fold c' in Hst, Eds.
  destruct (reaches_target_interleaved a l es ds Hc Hg Ha Hes Hdr) as (_ & Herr & Hfin). fold c0 in Herr, Hfin. rewrite <- Eds in Herr, Hfin.
  destruct (Hfin Hst) as [Hq Hr]. split; [exact Hq|]. split; [exact Herr|exact Hr].
Qed.

End live.

(** * 5. Store writes that fail (/repo f604e5b: nothing has changed when they do) *)
Section fail.
Variables (drift : Z) (tv : hdr -> hdr -> tvres) (tail : N).

Notation astep := (astep drift tv).
Notation xstep := (xstep drift tv).
Notation xrun := (xrun drift tv).
Notation Inv := (Inv tail).
Notation wf_event := (wf_event tail).
Notation Ainv := (Ainv tail).

Lemma l_fail_frame c :
  c_store (l_fail c) = c_store c /\ c_cache (l_fail c) = c_cache c /\ c_pend (l_fail c) = c_pend c /\
  c_thr (l_fail c) = c_thr c /\ c_trig (l_fail c) = c_trig c /\ c_mu (l_fail c) = c_mu c /\
  ss_to (c_state (l_fail c)) = ss_to (c_state c) /\
  ((c_loop (l_fail c) = c_loop c /\ c_state (l_fail c) = c_state c) \/
   (exists k hs, c_loop c = LApp0 k hs /\ c_loop (l_fail c) = LIdle /\ ss_err (c_state (l_fail c)) = Some SEStore)).
Proof.
  unfold l_fail. destruct (c_loop c) as [| |ph|p|from to|from to|k from to|k hs|k hs nh|k hs|oto lst|] eqn:Elp;
    try (repeat split; try reflexivity; left; split; [exact Elp|reflexivity] || (left; split; reflexivity)).
  all: try (repeat (split; [reflexivity|]); left; rewrite Elp; split; reflexivity).
  unfold l_finish. cbn. repeat (split; [reflexivity|]). right. exists k, hs. repeat split; reflexivity.
Qed.

Lemma Inv_l_fail c : Inv c -> Inv (l_fail c).
Proof.
  intros HI. destruct (l_fail_frame c) as (Es & Ec & Ep & Et & _ & _ & _ & [[El _]|(k & hs & El0 & El & _)]).
  - (* nothing happened *)
    assert (E : l_fail c = c) by (unfold l_fail in *; destruct (c_loop c); try reflexivity; unfold l_finish in El; cbn in El; discriminate).
    rewrite E. exact HI.
  - assert (Hsub : forall y, In y (all_hdrs (l_fail c)) -> In y (all_hdrs c)).
    { intros y. unfold all_hdrs. rewrite Es, Ec, Ep, Et, El, El0. cbn [loop_hdrs app]. intros H.
      apply in_app_or in H. apply in_or_app. destruct H as [H|H]; [left; exact H|right].
      destruct H as [H|H]; [left; exact H|right]. apply in_app_or in H. apply in_or_app. destruct H as [H|H]; [left; exact H|right].
      apply in_or_app. right. exact H. }
    destruct (frame_hts tail c (l_fail c) Es Et Ec) as [Hcl Hca]; [rewrite El, El0; reflexivity|exact HI|].
    constructor.
    + intros y Hy. apply (i_P _ c HI). apply Hsub. exact Hy.
    + rewrite Ep. apply (i_rinv _ c HI).
    + rewrite El. exact I.
    + rewrite Es. apply (i_tail _ c HI).
    + rewrite Es. apply (i_head _ c HI).
    + exact Hcl.
    + exact Hca.
    + rewrite Et. apply (i_thr _ c HI).
Qed.

Lemma t_fail_cases i c :
  t_fail i c = c \/
  exists m res x rest, nth_error (c_thr c) i = Some (TRun m res x SL0 rest) /\ t_fail i c = set_thr i (TRun m res x SL3 rest) c.
Proof.
  unfold t_fail. destruct (nth_error (c_thr c) i) as [t|] eqn:En; [|left; reflexivity].
  destruct t as [| | | | |m res x st rest|]; try (left; reflexivity). destruct st; try (left; reflexivity).
  right. exists m, res, x, rest. split; reflexivity.
Qed.

Lemma Inv_t_fail i c : Inv c -> Inv (t_fail i c).
Proof.
  intros HI. destruct (t_fail_cases i c) as [->|(m & res & x & rest & En & ->)]; [exact HI|].
  destruct (set_thr_frame i (TRun m res x SL3 rest) c) as (Es & Ec & Ep & El).
  destruct (frame_thr tail c (set_thr i (TRun m res x SL3 rest) c) i _ (TRun m res x SL3 rest) En eq_refl eq_refl Es El Ec eq_refl HI) as (Hpc & Hcl & Hca).
  constructor.
  - intros y Hy. apply (i_P _ c HI). unfold all_hdrs in *. rewrite Es, Ec, Ep, El in Hy.
    apply in_app_or in Hy. apply in_or_app. destruct Hy as [Hy|Hy]; [left; exact Hy|right].
    destruct Hy as [Hy|Hy]; [left; exact Hy|right]. apply in_app_or in Hy. apply in_or_app. destruct Hy as [Hy|Hy]; [left; exact Hy|right].
    apply in_app_or in Hy. apply in_or_app. destruct Hy as [Hy|Hy]; [left; exact Hy|right].
    unfold set_thr in Hy. cbn in Hy. apply flat_upd_g in Hy. destruct Hy as [Hy|Hy]; [|exact Hy].
    apply in_flat_map. exists (TRun m res x SL0 rest). split; [eapply nth_error_In; exact En|exact Hy].
  - rewrite Ep. apply (i_rinv _ c HI).
  - exact Hpc.
  - rewrite Es. apply (i_tail _ c HI).
  - rewrite Es. apply (i_head _ c HI).
  - exact Hcl.
  - exact Hca.
  - unfold set_thr. cbn. apply thr_wf_upd; [apply (i_thr _ c HI)|exact I].
Qed.

Lemma Lh_same c c' : c_pend c' = c_pend c -> c_cache c' = c_cache c -> Lh c' = Lh c.
Proof. intros Ep Ec. unfold Lh, local_head. rewrite Ep, Ec. reflexivity. Qed.

Lemma Ainv_l_fail c : Ainv c -> Tinv c -> Ainv (l_fail c) /\ Tinv (l_fail c) /\ Lh (l_fail c) = Lh c /\ (forall n, covered n c -> covered n (l_fail c)).
Proof.
  intros [HI HS HQ [Hap1 Hap2] HT HL H5] HTi.
  destruct (l_fail_frame c) as (Es & Ec & Ep & Et & Etr & Emu & Eto & Hcase).
  pose proof (Lh_same c (l_fail c) Ep Ec) as ELh.
  split; [|split; [unfold Tinv; rewrite Eto, ELh; exact HTi|split; [exact ELh|]]].
  - constructor.
    + apply Inv_l_fail; exact HI.
    + constructor.
      * rewrite Ep. apply (s_pos c HS).
      * rewrite Et. apply (s_sl4 c HS).
      * destruct Hcase as [[El _]|(k & hs & _ & El & _)]; rewrite El, Ep; [apply (s_fst c HS)|cbn; discriminate].
      * rewrite Emu, Et. apply (s_mu c HS).
    + destruct Hcase as [[El Est]|(k & hs & _ & El & Eerr)].
      * apply (q_mono c); [exact El|exact Est|intros [H|H]; [left; rewrite Etr; exact H|right; rewrite Et; exact H]|rewrite Ep; intros p Hp; left; exact Hp|rewrite Ep; auto|exact HQ].
      * unfold qpc. rewrite El. intros _. right. rewrite Eerr. discriminate.
    + split; [|rewrite Et; exact Hap2]. destruct Hcase as [[El _]|(k & hs & _ & El & _)]; rewrite El; [exact Hap1|exact I].
    + unfold Top. rewrite Es, Ec. exact HT.
    + destruct Hcase as [[El _]|(k & hs & _ & El & _)]; [apply (Linv_same c); assumption|unfold Linv; rewrite El; exact I].
    + intros i m res x rest Hi. rewrite Et in Hi. rewrite ELh. apply (H5 i m res x rest Hi).
  - intros n [Hn|(y & Hy & Hn)]; [left; rewrite ELh; exact Hn|right; exists y; rewrite Et; split; assumption].
Qed.

Lemma Ainv_t_fail i c : Ainv c -> Tinv c -> Ainv (t_fail i c) /\ Tinv (t_fail i c) /\ Lh (t_fail i c) = Lh c /\ (forall n, covered n c -> covered n (t_fail i c)).
Proof.
  intros HA HTi. destruct (t_fail_cases i c) as [->|(m & res & x & rest & En & ->)]; [split; [exact HA|split; [exact HTi|split; [reflexivity|auto]]]|].
  destruct HA as [HI HS HQ [Hap1 Hap2] HT HL H5].
  set (c' := set_thr i (TRun m res x SL3 rest) c).
  destruct (set_thr_frame i (TRun m res x SL3 rest) c) as (Es & Ec & Ep & El). fold c' in Es, Ec, Ep, El.
  assert (Et : c_thr c' = upd_nth i (TRun m res x SL3 rest) (c_thr c)) by reflexivity.
  assert (Hi : (i < length (c_thr c))%nat) by (apply nth_error_Some; congruence).
  pose proof (Lh_same c c' Ep Ec) as ELh.
  split; [|split; [unfold Tinv; rewrite ELh; exact HTi|split; [exact ELh|]]].
  - constructor.
    + pose proof (Inv_t_fail i c HI) as H. unfold t_fail in H. rewrite En in H. exact H.
    + constructor.
      * rewrite Ep. apply (s_pos c HS).
      * intros j m0 res0 x0 st0 rest0 Hj Hst. rewrite Et in Hj. destruct (Nat.eq_dec j i) as [->|Hne].
        -- rewrite (nth_upd_same _ _ _ Hi) in Hj. injection Hj as _ _ _ <- _. destruct Hst; discriminate.
        -- rewrite (nth_upd_other _ _ _ _ Hne) in Hj. apply (s_sl4 c HS j m0 res0 x0 st0 rest0 Hj Hst).
      * rewrite El, Ep. apply (s_fst c HS).
      * intros Hm. destruct (s_mu c HS Hm) as (j & tj & Hj & Hh). destruct (Nat.eq_dec j i) as [->|Hne].
        -- rewrite En in Hj. injection Hj as <-. exists i, (TRun m res x SL3 rest). split; [rewrite Et; apply nth_upd_same; exact Hi|exact Hh].
        -- exists j, tj. split; [rewrite Et, nth_upd_other; [exact Hj|exact Hne]|exact Hh].
    + apply (q_mono c); [exact El|reflexivity| |rewrite Ep; intros p Hp; left; exact Hp|rewrite Ep; auto|exact HQ].
      intros [H|(j & m0 & res0 & x0 & rest0 & Hj)]; [left; exact H|right].
      exists j, m0, res0, x0, rest0. rewrite Et. destruct (Nat.eq_dec j i) as [->|Hne]; [rewrite En in Hj; discriminate|rewrite nth_upd_other; assumption].
    + split; [rewrite El; exact Hap1|rewrite Et; apply Forall_upd; [exact Hap2|exact I]].
    + unfold Top. rewrite Es, Ec. exact HT.
    + apply (Linv_same c); assumption.
    + intros j m0 res0 x0 rest0 Hj. rewrite Et in Hj. destruct (Nat.eq_dec j i) as [->|Hne].
      * rewrite (nth_upd_same _ _ _ Hi) in Hj. discriminate.
      * rewrite (nth_upd_other _ _ _ _ Hne) in Hj. rewrite ELh. apply (H5 j m0 res0 x0 rest0 Hj).
  - intros n [Hn|(y & Hy & Hn)]; [left; rewrite ELh; exact Hn|right; exists y; split; [|exact Hn]].
    apply in_flat_map in Hy. destruct Hy as (tj & Htj & Hy). destruct (In_nth_error _ _ Htj) as [j Hj].
    rewrite Et. destruct (Nat.eq_dec j i) as [->|Hne].
    + rewrite En in Hj. injection Hj as <-. apply flat_upd_new; [exact Hi|exact Hy].
    + apply in_flat_map. exists tj. split; [eapply nth_error_In; rewrite nth_upd_other; [exact Hj|exact Hne]|exact Hy].
Qed.

Definition wf_x (x : xevent) : Prop := match x with XE e => wf_event e | _ => True end.

Theorem Ainv_xrun xs : forall c,
  Ainv c -> Tinv c -> Forall wf_x xs ->
  Ainv (xrun c xs) /\ Tinv (xrun c xs) /\ Lh c <= Lh (xrun c xs) /\ forall n, covered n c -> covered n (xrun c xs).
Proof.
  induction xs as [|x xs IH]; intros c HA HT Hw; [split; [exact HA|split; [exact HT|split; [cbn; lia|auto]]]|].
  inversion Hw as [|? ? Hx Hr]; subst.
  assert (Hone : Ainv (xstep c x) /\ Tinv (xstep c x) /\ Lh c <= Lh (xstep c x) /\ forall n, covered n c -> covered n (xstep c x)).
  { destruct x as [e| |i]; cbn [Syncer.xstep].
    - destruct (Ainv_astep drift tv tail c e HA Hx) as (HA' & Hk & Hcov). split; [exact HA'|]. split; [apply (Tinv_astep drift tv tail); assumption|].
      split; [apply (Lh_mono c _ (i_rinv _ c (a_inv _ c HA)) (i_rinv _ _ (a_inv _ _ HA')) Hk)|exact Hcov].
    - destruct (Ainv_l_fail c HA HT) as (H1 & H2 & H3 & H4). split; [exact H1|split; [exact H2|split; [rewrite H3; lia|exact H4]]].
    - destruct (Ainv_t_fail i c HA HT) as (H1 & H2 & H3 & H4). split; [exact H1|split; [exact H2|split; [rewrite H3; lia|exact H4]]]. }
  destruct Hone as (H1 & H2 & H3 & H4). destruct (IH (xstep c x) H1 H2 Hr) as (I1 & I2 & I3 & I4).
  cbn [Syncer.xrun fold_left]. fold (xrun (xstep c x) xs). split; [exact I1|split; [exact I2|split; [lia|]]].
  intros n Hn. apply I4. apply H4. exact Hn.
Qed.

(** from the start, every schedule, arbitrary inputs, store writes failing at will *)
Theorem xrun_safe (a : hdr) (l : list hdr) (xs : list xevent) :
  consec (a :: l) -> Forall hok (a :: l) -> h_height a = tail -> Forall wf_x xs ->
  let c := xrun (init_cfg tail (a :: l)) xs in
  Ainv c /\
  (let s := c_store c in
   rs_tail s = tail /\
   (forall n, tail <= n <= rs_head s -> rs_has n (rs_log s) = true) /\
   (forall n, rs_has n (rs_log s) = true <-> tail <= n <= rs_head s)) /\
  (forall y, In y (rs_log (c_store c)) -> h_height y <= h_height (c_cache c)) /\
  h_height (local_head (init_cfg tail (a :: l))) <= h_height (local_head c) /\
  (all_quiet c -> h_height (c_cache c) = rs_head (c_store c) /\
                  (ss_err (c_state c) = None -> ranges_all (c_pend c) = [] /\ local_head c = c_cache c)).
Proof.
  intros Hc Hk Ha Hw c. destruct (Ainv_init tail a l Hc Hk Ha) as [HA0 HT0].
  destruct (Ainv_xrun xs _ HA0 HT0 Hw) as (HA & _ & Hm & _). fold c in HA, Hm.
  pose proof (a_inv _ c HA) as HI.
  split; [exact HA|]. split; [|split; [exact (a_top _ c HA)|split; [exact Hm|]]].
  - destruct (store_contiguous tail c HI) as (E1 & E2 & _ & _ & E5 & _). split; [exact E1|]. split; [exact E2|].
    apply E5. unfold reserved. destruct (a_apc _ c HA) as [Hl Ht].
    assert (Hlr : lres (c_loop c) = []) by (destruct (c_loop c); try reflexivity; destruct Hl).
    rewrite Hlr. cbn [app]. clear -Ht. induction Ht as [|t T Ht HT IH]; [reflexivity|]. cbn [flat_map]. rewrite IH.
    destruct t as [| | | | |m res x st rest|]; try reflexivity. destruct st; try reflexivity; destruct Ht.
  - intros Hq. split; [apply (quiet_shim_is_store tail c HA Hq)|]. intros He. apply (quiet_nothing_pending c (a_q _ c HA) Hq He).
Qed.

End fail.

(** * 6. C07 after store writes that failed *)
Section livefail.
Variables (drift : Z) (tv : hdr -> hdr -> tvres) (tail : N) (ch : N -> hdr).
Hypothesis Hch : forall n, h_height (ch n) = n.

Notation arun := (arun drift tv).
Notation xstep := (xstep drift tv).
Notation xrun := (xrun drift tv).
Notation Live := (Live tail ch).

Definition hevx (x : xevent) : Prop := match x with XE e => hev1 ch e | _ => True end.

Lemma Live_xstep c x : Live c -> wf_x tail x -> hevx x -> Live (xstep c x).
Proof.
  intros HL Hw He. destruct x as [e| |i]; cbn [Syncer.xstep].
  - apply (Live_astep drift tv tail ch); assumption.
  - destruct HL as [HA HT [Hg1 Hg2] Hnp Hto].
    destruct (Ainv_l_fail tail c HA HT) as (HA' & HT' & _ & _).
    destruct (l_fail_frame c) as (Es & Ec & Ep & Et & _ & _ & _ & Hcase).
    assert (Hl : c_loop (l_fail c) = c_loop c \/ c_loop (l_fail c) = LIdle) by (destruct Hcase as [[H _]|(k & hs & _ & H & _)]; auto).
    constructor; [exact HA'|exact HT'| | |].
    + split; [|rewrite Et; exact Hg2]. intros y Hy. apply Hg1. unfold all_hdrs in *. rewrite Es, Ec, Ep, Et in Hy.
      destruct Hl as [El|El]; rewrite El in Hy; [exact Hy|]. cbn [loop_hdrs app] in Hy.
      apply in_app_or in Hy. apply in_or_app. destruct Hy as [Hy|Hy]; [left; exact Hy|right].
      destruct Hy as [Hy|Hy]; [left; exact Hy|right]. apply in_app_or in Hy. apply in_or_app. destruct Hy as [Hy|Hy]; [left; exact Hy|right].
      apply in_or_app. right. exact Hy.
    + destruct Hl as [El|El]; rewrite El; [exact Hnp|discriminate].
    + unfold to_ok. destruct Hl as [El|El]; rewrite El; [exact Hto|intros t []].
  - destruct HL as [HA HT [Hg1 Hg2] Hnp Hto].
    destruct (Ainv_t_fail tail i c HA HT) as (HA' & HT' & _ & _).
    destruct (t_fail_cases i c) as [E|(m & res & x & rest & En & E)]; rewrite E in *; [constructor; try assumption; split; assumption|].
    destruct (set_thr_frame i (TRun m res x SL3 rest) c) as (Es & Ec & Ep & El).
    constructor; [exact HA'|exact HT'| | |].
    + split.
      * intros y Hy. apply Hg1. unfold all_hdrs in *. rewrite Es, Ec, Ep, El in Hy.
        apply in_app_or in Hy. apply in_or_app. destruct Hy as [Hy|Hy]; [left; exact Hy|right].
        destruct Hy as [Hy|Hy]; [left; exact Hy|right]. apply in_app_or in Hy. apply in_or_app. destruct Hy as [Hy|Hy]; [left; exact Hy|right].
        apply in_app_or in Hy. apply in_or_app. destruct Hy as [Hy|Hy]; [left; exact Hy|right].
        unfold set_thr in Hy. cbn in Hy. apply flat_upd_g in Hy. destruct Hy as [Hy|Hy]; [|exact Hy].
        apply in_flat_map. exists (TRun m res x SL0 rest). split; [eapply nth_error_In; exact En|exact Hy].
      * intros y Hy. unfold set_thr in Hy. cbn in Hy. apply flat_upd_g in Hy. destruct Hy as [[]|Hy]. apply Hg2. exact Hy.
    + rewrite El. exact Hnp.
    + unfold to_ok. rewrite El. exact Hto.
Qed.

Theorem Live_xrun xs : forall c, Live c -> Forall (fun x => wf_x tail x /\ hevx x) xs -> Live (xrun c xs).
Proof.
  induction xs as [|x xs IH]; intros c HL Hf; [exact HL|]. inversion Hf as [|? ? [Hw He] Hr]; subst.
  cbn [Syncer.xrun fold_left]. apply IH; [apply Live_xstep; assumption|exact Hr].
Qed.

(** C07 for interleaved learner calls, after a history in which store writes failed at will *)
Theorem reaches_target_after_write_failures (a : hdr) (l : list hdr) (xs : list xevent) (ds : list event) :
  consec (a :: l) -> Forall (good ch) (a :: l) -> h_height a = tail ->
  Forall (fun x => wf_x tail x /\ hevx x) xs ->
  let c0 := xrun (init_cfg tail (a :: l)) xs in
  drain drift tv ch c0 ds ->
  let c' := arun c0 ds in
  let D := Dof c0 in let E := Eof c0 in
  (length ds + mu D E c' <= mu D E c0)%nat /\
  (ss_err (c_state c') = None \/ ss_err (c_state c') = ss_err (c_state c0)) /\
  (stuck c' ->
     all_quiet c' /\
     (ss_err (c_state c') = None ->
        reached ch (Lh c') c' /\ h_height (local_head c0) <= Lh c' /\
        forall y, In y (flat_map twork (c_thr c0)) -> h_height y <= Lh c')).
Proof.
  intros Hc Hg Ha Hxs c0 Hd c' D E.
  pose proof (Live_xrun xs _ (Live_init tail ch a l Hc Hg Ha) Hxs) as HL0. fold c0 in HL0.
  destruct (drain_bound drift tv tail ch Hch D E ds c0 HL0 (bnd_of c0) Hd) as (Hb & _ & HL' & Herr). fold c' in Hb, HL', Herr.
  split; [exact Hb|]. split; [exact Herr|]. intros Hst.
  pose proof (stuck_all_quiet tail ch c' HL' Hst) as Hq. split; [exact Hq|]. intros He.
  assert (Hw : Forall (wf_event tail) ds).
  { clear -Hd Hch. revert Hd. generalize c0. induction ds as [|e r IH]; intros c1 Hd; [constructor|].
    destruct Hd as (_ & Hs & Hd). constructor; [apply (dstep_wf tv tail ch Hch c1 e Hs)|apply (IH _ Hd)]. }
  destruct (Ainv_arun drift tv tail ds c0 (lv_a _ _ c0 HL0) (lv_t _ _ c0 HL0) Hw) as (_ & _ & Hm & Hcov). fold c' in Hm, Hcov.
  apply (quiet_reached tail ch c0 c' HL' Hq He Hm Hcov).
Qed.

End livefail.
