(** C06, part 2: every history keeps the disk invariant after every single
    write-log entry; what a Store reopened on any log prefix sees. *)
From Coq Require Import NArith List Bool Lia ZifyBool ZifyN ZifyNat.
From stdpp Require Import gmap.
From GH Require Import Base.Prelude Model.Store Model.StoreSpec Model.StoreConc Model.StoreCrash Oracle.StoreCase.
From GH Require Import Proofs.StoreP Proofs.StoreClimbP Proofs.StoreInvP Proofs.StoreAppendP Proofs.StoreDeleteP.
From GH Require Import Proofs.StoreRestartP Proofs.StoreMainP Proofs.StoreConcP Proofs.StoreCrashP.
Import ListNotations.
Open Scope N_scope.

Lemma flush_one_ok s o : snd (flush_one s o) = Ok.
Proof. unfold flush_one. destruct (_ && _); [reflexivity|]. destruct (_ =? _)%nat; reflexivity. Qed.

Lemma in_flush_micro_s4 s hs :
  In (recede_tail (advance_head (ensure_init (pend_add s hs) hs))) (flush_micro s (Some hs)).
Proof.
  unfold flush_micro. cbv zeta. destruct (_ && _); [cbn; tauto|]. destruct (_ =? _)%nat; cbn; tauto.
Qed.

Section chain.
Context {c : N -> hdr} {U : N} {CH : chain_hyps c U}.
Notation inr := (inr U).
Notation minv := (minv c U).
Notation pchain := (pchain c U).
Notation pstored := (pstored c).
Notation pinv := (pinv c U).
Notation inv := (inv c U).
Notation dinv := (dinv (c:=c) (U:=U)).
Notation okst := (okst (c:=c) (U:=U)).

(** Store.Sync as a sequence of writes *)
Lemma sync_steps s sp : inv s sp -> dinv s -> steps dinv s (sync s) /\ dinv (sync s).
Proof.
  intros I D.
  assert (T1 : steps dinv s (sync s)).
  { unfold sync. apply flush_one_steps; auto; cbn [ensure_init].
    - set (s2 := pend_add s []).
      assert (SS : same_state s s2) by (unfold same_state, same_maps, same_dptrs; split_and!; reflexivity).
      pose proof (same_state_inv s s2 sp SS I) as [I2 _].
      rewrite (advance_head_id s2 sp I2), (recede_tail_id s2 sp I2). exact (iv_m _ _ _ _ I2).
    - set (s2 := pend_add s []).
      assert (SS : same_state s s2) by (unfold same_state, same_maps, same_dptrs; split_and!; reflexivity).
      pose proof (same_state_inv s s2 sp SS I) as [I2 _].
      rewrite (advance_head_id s2 sp I2), (recede_tail_id s2 sp I2).
      apply pstored_pchain; [exact (iv_m _ _ _ _ I2)|exact (inv_pstored s2 sp I2)]. }
  split; auto. apply (steps_P dinv dinv_disk_pred s (sync s)); auto.
Qed.

Lemma inv_okst s sp : inv s sp -> dinv s -> okst s.
Proof.
  intros I D. split_and!; auto.
  - exact (iv_m _ _ _ _ (proj1 I)).
  - apply pstored_pchain; [exact (iv_m _ _ _ _ (proj1 I))|exact (inv_pstored s sp (proj1 I))].
Qed.

(** one operation of a history as a sequence of writes *)
Theorem op_steps s sp o : inv s sp -> dinv s -> op_ok U o ->
  steps dinv s (fst (fst (mstep c s o))).
Proof.
  intros I D Hok. unfold mstep. destruct o as [ns|from to nh fails| | |]; cbn [to_op step].
  - cbn in Hok. destruct ns as [|n0 ns'].
    + cbn. apply st_refl.
    + set (ns := n0 :: ns') in *. change (map c ns) with (c n0 :: map c ns'). cbn [append].
      change (c n0 :: map c ns') with (map c ns).
      destruct (flush_one s (Some (map c ns))) as [s' r] eqn:E. cbn [fst].
      replace s' with (fst (flush_one s (Some (map c ns)))) by (rewrite E; reflexivity).
      apply flush_one_steps; auto.
      * rewrite pend_add_ensure_init.
        destruct (flush_micro_facts s sp ns I Hok) as (_ & Fa); [discriminate|].
        apply (Fa _ (in_flush_micro_s4 s (map c ns))).
      * rewrite pend_add_ensure_init.
        destruct (flush_micro_facts s sp ns I Hok) as (_ & Fa); [discriminate|].
        destruct (Fa _ (in_flush_micro_s4 s (map c ns))) as (A & B & _). apply pstored_pchain; auto.
  - destruct (sync_steps s sp I D) as [T1 D1]. unfold delete_range.
    eapply steps_trans; [exact T1|]. apply delete_range_synced_steps.
    apply (inv_okst (sync s) sp); auto. apply sync_inv; auto.
  - cbn [fst]. apply (sync_steps s sp I D).
  - destruct (sync_steps s sp I D) as [T1 D1]. destruct (sync_inv s sp I) as [I4 Hp].
    unfold stop. fold (sync s). destruct (flush_one s None) as [s4 o4] eqn:E.
    assert (s4 = sync s) by (unfold sync; rewrite E; reflexivity). subst s4.
    pose proof (flush_one_ok s None) as Eo. rewrite E in Eo. cbn in Eo. subst o4. cbn [fst].
    eapply steps_trans; [exact T1|]. eapply st_mem; [apply mem_deinit|].
    apply start_steps. apply (dinv_disk_pred (sync s)); auto. apply disk_eq_sym, mem_deinit.
  - destruct (sync_steps s sp I D) as [T1 D1]. destruct (sync_inv s sp I) as [I4 Hp].
    unfold stop. destruct (flush_one s None) as [s4 o4] eqn:E.
    assert (s4 = sync s) by (unfold sync; rewrite E; reflexivity). subst s4.
    pose proof (flush_one_ok s None) as Eo. rewrite E in Eo. cbn in Eo. subst o4. cbn [fst].
    eapply steps_trans; [exact T1|]. eapply st_mem; [apply mem_deinit|]. eapply st_mem; [apply mem_fresh|].
    apply start_steps. apply (dinv_disk_pred (sync s)); auto.
    eapply disk_eq_trans; [apply disk_eq_sym, mem_deinit|apply disk_eq_sym, mem_fresh].
Qed.

(** the disk invariant holds after every single entry of the write log of every history *)
Theorem history_prefixes b ops : Forall (op_ok U) ops ->
  let s := run c (st0 b) ops in
  logged b s /\ prefixes_ok dinv b s /\ dinv s.
Proof.
  intros F.
  assert (G : forall s sp, inv s sp -> logged b s -> prefixes_ok dinv b s -> dinv s ->
              logged b (run c s ops) /\ prefixes_ok dinv b (run c s ops) /\ dinv (run c s ops)).
  { induction F as [|o ops Ho F IH]; intros s sp I L Pre D; cbn; auto.
    pose proof (op_steps s sp o I D Ho) as T.
    destruct (steps_ok dinv b dinv_disk_pred _ _ T L Pre) as [L' Pre'].
    apply (IH _ (spec_op sp o)); auto.
    - apply step_refines; auto.
    - apply (steps_P dinv dinv_disk_pred _ _ T D). }
  apply (G (st0 b) spec0); auto using inv_st0, logged_st0, dinv_st0. apply prefixes_st0, dinv_st0.
Qed.

End chain.

(** ** the image of a log prefix and the Store reopened on it *)
Lemma image_mem b log k :
  pend_h (image b log k) = ∅ /\ pend_i (image b log k) = ∅ /\ headp (image b log k) = None /\
  tailp (image b log k) = None /\ hsh (image b log k) = 0.
Proof.
  unfold image. generalize (firstn k log). intros l.
  assert (G : forall x, pend_h x = ∅ /\ pend_i x = ∅ /\ headp x = None /\ tailp x = None /\ hsh x = 0 ->
              pend_h (fold_left apply_entry l x) = ∅ /\ pend_i (fold_left apply_entry l x) = ∅ /\
              headp (fold_left apply_entry l x) = None /\ tailp (fold_left apply_entry l x) = None /\
              hsh (fold_left apply_entry l x) = 0).
  { induction l as [|w l IH]; intros x Hx; cbn [fold_left]; auto. apply IH.
    unfold apply_entry. destruct (fold_apply1_frame w x) as (-> & -> & -> & -> & -> & _). exact Hx. }
  apply G. cbn. tauto.
Qed.

(** what [start] does on a not-started image *)
Lemma start_fields x : pend_h x = ∅ -> pend_i x = ∅ -> headp x = None -> tailp x = None -> hsh x = 0 ->
  let r := start x in
  pend_h r = ∅ /\ pend_i r = ∅ /\ d_hdr r = d_hdr x /\ d_idx r = d_idx x /\
  headp r = (d_head x ≫= fun id => d_hdr x !! id) /\
  tailp r = (d_tail x ≫= fun id => d_hdr x !! id) /\
  hsh r = match headp r with Some h => h_height h | None => 0 end.
Proof.
  intros E1 E2 E3 E4 E5 r. unfold r, start.
  assert (G : forall y id, pend_i y = ∅ -> get y id = match d_hdr y !! id with Some h => Found h | None => NotFound end).
  { intros y id Hy. unfold get. rewrite Hy, lookup_empty. reflexivity. }
  set (x1 := read_head x).
  assert (A : pend_h x1 = ∅ /\ pend_i x1 = ∅ /\ d_hdr x1 = d_hdr x /\ d_idx x1 = d_idx x /\ d_tail x1 = d_tail x /\
              tailp x1 = None /\ headp x1 = (d_head x ≫= fun id => d_hdr x !! id) /\
              hsh x1 = match headp x1 with Some h => h_height h | None => 0 end).
  { unfold x1, read_head. destruct (d_head x) as [id|]; cbn [mbind option_bind].
    - rewrite (G x id E2). destruct (d_hdr x !! id) as [h|] eqn:Eh; cbn; rewrite ?Eh, ?E3, ?E5; split_and!; auto.
    - rewrite E3. split_and!; auto. }
  destruct A as (A1 & A2 & A3 & A4 & A5 & A6 & A7 & A8).
  unfold read_tail. rewrite A5. destruct (d_tail x) as [id|]; cbn [mbind option_bind].
  - rewrite (G x1 id A2), A3. destruct (d_hdr x !! id) as [h|] eqn:Eh; cbn; rewrite ?A1, ?A2, ?A3, ?A4, ?A7; split_and!; auto; rewrite A8, A7; reflexivity.
  - rewrite A6. split_and!; auto; try (rewrite A8, A7; reflexivity).
Qed.

Section reopen.
Context {c : N -> hdr} {U : N} {CH : chain_hyps c U}.
Notation inr := (inr U).
Notation dinv := (dinv (c:=c) (U:=U)).

Variables (b : N) (log : list wop) (k : nat).
Hypothesis D : dinv (image b log k).
Let img := image b log k.
Let r := reopen b log k.

Lemma reopen_fields :
  pend_h r = ∅ /\ pend_i r = ∅ /\ d_hdr r = d_hdr img /\ d_idx r = d_idx img /\
  headp r = (d_head img ≫= fun id => d_hdr img !! id) /\
  tailp r = (d_tail img ≫= fun id => d_hdr img !! id) /\
  hsh r = match headp r with Some h => h_height h | None => 0 end.
Proof.
  destruct (image_mem b log k) as (E1 & E2 & E3 & E4 & E5). apply start_fields; auto.
Qed.

(** (a) the pointers of the reopened Store, when present, are chain headers found on disk
    under the persisted pointer key *)
Theorem reopen_pointers_resolve :
  (forall h, headp r = Some h -> exists n, inr n /\ h = c n /\ d_head img = Some (h_id (c n)) /\
                                  d_hdr img !! h_id (c n) = Some (c n)) /\
  (forall h, tailp r = Some h -> exists n, inr n /\ h = c n /\ d_tail img = Some (h_id (c n)) /\
                                  d_hdr img !! h_id (c n) = Some (c n)).
Proof.
  destruct reopen_fields as (_ & _ & _ & _ & Eh & Et & _). rewrite Eh, Et. split; intros h Hh.
  - destruct (d_head img) as [id|] eqn:E; [|discriminate]. cbn in Hh.
    destruct (dv_hdr _ D id h Hh) as (n & Hn & -> & -> & _). eauto.
  - destruct (d_tail img) as [id|] eqn:E; [|discriminate]. cbn in Hh.
    destruct (dv_hdr _ D id h Hh) as (n & Hn & -> & -> & _). eauto.
Qed.

Lemma reopen_pchain : pchain c U r.
Proof.
  destruct reopen_pointers_resolve as [A B]. intros h [E|E]; [destruct (A h E) as (n & ? & ? & _)|destruct (B h E) as (n & ? & ? & _)]; eauto.
Qed.

(** (c) every header that is indexed and stored in the image is found by height (and by hash) *)
Theorem reopen_finds_indexed n id h : d_idx img !! n = Some id -> d_hdr img !! id = Some h ->
  h = c n /\ get_by_height r n = Found (c n) /\ get r (h_id (c n)) = Found (c n).
Proof.
  intros Hi Hh. destruct reopen_fields as (P1 & P2 & P3 & P4 & _).
  destruct (dv_idx _ D n id Hi) as [Hn ->]. destruct (dv_hdr _ D _ h Hh) as (m & Hm & -> & Eid & _).
  assert (m = n) by (symmetry; apply (@ch_inj c U CH); auto). subst m.
  assert (G : get r (h_id (c n)) = Found (c n)).
  { unfold get. rewrite P2, lookup_empty. cbn. rewrite P3, Hh. reflexivity. }
  split_and!; auto.
  unfold get_by_height. destruct Hn as [Hn1 Hn2]. destruct (N.eqb_spec n 0); [lia|].
  assert (Hnb : nb r n = Found (c n)).
  { pose proof reopen_pchain as PC. unfold nb.
    destruct (has_height (headp r) n) eqn:E1.
    { destruct (headp r) as [hd|] eqn:Ehd; [|discriminate].
      destruct (PC hd (or_introl Ehd)) as (m & Hm' & ->).
      apply has_height_chain in E1; auto. subst m. reflexivity. }
    destruct (has_height (tailp r) n) eqn:E2.
    { destruct (tailp r) as [tl|] eqn:Etl; [|discriminate].
      destruct (PC tl (or_intror Etl)) as (m & Hm' & ->).
      apply has_height_chain in E2; auto. subst m. reflexivity. }
    rewrite P1, lookup_empty, P4, Hi. exact G. }
  rewrite Hnb. reflexivity.
Qed.

End reopen.
