(** The Store model refines the abstract specification: map invariant,
    lookup lemmas, climb lemmas (part 1 of the refinement proof). *)
From Coq Require Import NArith List Bool Lia ZifyBool ZifyN ZifyNat.
From stdpp Require Import gmap.
From GH Require Import Base.Prelude Model.Store Model.StoreSpec.
Import ListNotations.
Open Scope N_scope.

(** the heights of the universe [1, U] *)
Definition inr (U n : N) : Prop := 1 <= n /\ n <= U.

(** the chain hypotheses every theorem quantifies over *)
Class chain_hyps (c : N -> hdr) (U : N) : Prop := {
  ch_bound : U < two64 - 1;
  ch_height : forall n, inr U n -> h_height (c n) = n;
  ch_inj : forall n m, inr U n -> inr U m -> h_id (c n) = h_id (c m) -> n = m;
  ch_prev : forall n, inr U n -> inr U (n + 1) -> h_prev (c (n + 1)) = h_id (c n);
  ch_prev1 : forall m, inr U m -> h_prev (c 1) <> h_id (c m)
}.

Definition stored (s : st) (n : N) : Prop := is_Some (pend_h s !! n) \/ is_Some (d_idx s !! n).

Lemma stored_dec s n : {stored s n} + {~ stored s n}.
Proof.
  unfold stored. destruct (pend_h s !! n); [left; left; eauto|].
  destruct (d_idx s !! n); [left; right; eauto|].
  right. intros [[? ?]|[? ?]]; discriminate.
Qed.

Lemma seqN_snoc from k : seqN from (S k) = seqN from k ++ [from + N.of_nat k].
Proof.
  revert from. induction k as [|k IH]; intros from.
  - cbn. f_equal. lia.
  - change (seqN from (S (S k))) with (from :: seqN (from + 1) (S k)).
    rewrite IH. cbn. do 2 f_equal. f_equal. lia.
Qed.

Lemma in_seqN from k n : In n (seqN from k) <-> from <= n < from + N.of_nat k.
Proof.
  revert from. induction k as [|k IH]; intros from; cbn [seqN In].
  - lia.
  - rewrite IH. lia.
Qed.

Section chain.
Context {c : N -> hdr} {U : N} {CH : chain_hyps c U}.
Notation inr := (inr U).

Let U_bound := @ch_bound c U CH.
Let c_height := @ch_height c U CH.
Let c_inj := @ch_inj c U CH.
Let c_prev := @ch_prev c U CH.
Let c_prev1 := @ch_prev1 c U CH.

(** ** 1. the map invariant *)
Record minv (s : st) : Prop := {
  mi_ph : forall n h, pend_h s !! n = Some h -> inr n /\ h = c n;
  mi_pi1 : forall id n, pend_i s !! id = Some n -> id = h_id (c n) /\ pend_h s !! n = Some (c n);
  mi_pi2 : forall n h, pend_h s !! n = Some h -> pend_i s !! (h_id (c n)) = Some n;
  mi_di : forall n id, d_idx s !! n = Some id -> inr n /\ id = h_id (c n) /\ d_hdr s !! id = Some (c n);
  mi_dh : forall id h, d_hdr s !! id = Some h -> exists n, h = c n /\ d_idx s !! n = Some id
}.

(** the pointers are chain headers / chain headers of stored heights *)
Definition pchain (s : st) : Prop :=
  forall h, headp s = Some h \/ tailp s = Some h -> exists n, inr n /\ h = c n.
Definition pstored (s : st) : Prop :=
  forall h, headp s = Some h \/ tailp s = Some h -> exists n, h = c n /\ stored s n.

Lemma stored_inr s n : minv s -> stored s n -> inr n.
Proof.
  intros M [[h Hh]|[id Hi]].
  - apply (mi_ph s M) in Hh. tauto.
  - apply (mi_di s M) in Hi. tauto.
Qed.

Lemma pstored_pchain s : minv s -> pstored s -> pchain s.
Proof.
  intros M P h Hh. destruct (P h Hh) as (n & -> & Hs). exists n. split; auto.
  eapply stored_inr; eauto.
Qed.

Lemma minv_st0 b : minv (st0 b).
Proof.
  split; cbn; intros *; rewrite lookup_empty; discriminate.
Qed.

(** ** 2. lookup lemmas *)

Lemma get_stored s n : minv s -> stored s n -> get s (h_id (c n)) = Found (c n).
Proof.
  intros M Hs. unfold get.
  destruct (pend_i s !! h_id (c n)) as [m|] eqn:Hpi; cbn.
  - destruct (mi_pi1 s M _ _ Hpi) as [Hid Hph].
    assert (inr m) by (apply (mi_ph s M) in Hph; tauto).
    assert (n = m) by (apply c_inj; eauto using stored_inr). subst m.
    rewrite Hph. reflexivity.
  - destruct Hs as [[h Hh]|[id Hi]].
    + rewrite (mi_pi2 s M _ _ Hh) in Hpi. discriminate.
    + destruct (mi_di s M _ _ Hi) as (_ & -> & Hd). rewrite Hd. reflexivity.
Qed.

Lemma get_found_inv s id h : minv s -> get s id = Found h ->
  exists n, inr n /\ h = c n /\ id = h_id (c n) /\ stored s n.
Proof.
  intros M. unfold get.
  destruct (pend_i s !! id) as [m|] eqn:Hpi; cbn.
  - destruct (mi_pi1 s M _ _ Hpi) as [Hid Hph]. rewrite Hph. intros [= <-].
    exists m. split_and!; auto; [apply (mi_ph s M) in Hph; tauto|left; eauto].
  - destruct (d_hdr s !! id) as [h'|] eqn:Hd; [|discriminate]. intros [= <-].
    destruct (mi_dh s M _ _ Hd) as (n & -> & Hi).
    destruct (mi_di s M _ _ Hi) as (? & ? & _).
    exists n. split_and!; auto. right; eauto.
Qed.

Lemma get_cases s id : get s id = NotFound \/ exists h, get s id = Found h.
Proof.
  unfold get. destruct (_ ≫= _); [right; eauto|]. destruct (d_hdr s !! id); [right; eauto|left; auto].
Qed.

Lemma get_not_stored s n : minv s -> inr n -> ~ stored s n -> get s (h_id (c n)) = NotFound.
Proof.
  intros M Hn Hs. destruct (get_cases s (h_id (c n))) as [|[h Hg]]; auto.
  destruct (get_found_inv _ _ _ M Hg) as (m & Hm & _ & Hid & Hst).
  apply c_inj in Hid; auto. subst m. contradiction.
Qed.

Lemma has_height_chain n m : inr m -> has_height (Some (c m)) n = true -> m = n.
Proof. cbn. intros Hm. rewrite (c_height m Hm). lia. Qed.

Lemma nb_found_inv s n h : minv s -> pchain s -> nb s n = Found h ->
  inr n /\ h = c n /\ (stored s n \/ headp s = Some (c n) \/ tailp s = Some (c n)).
Proof.
  intros M P. unfold nb.
  destruct (has_height (headp s) n) eqn:Hh.
  { destruct (headp s) as [hd|] eqn:Ehd; [|discriminate]. intros [= <-].
    destruct (P hd (or_introl Ehd)) as (m & Hm & ->).
    apply has_height_chain in Hh; auto. subst m. auto. }
  destruct (has_height (tailp s) n) eqn:Ht.
  { destruct (tailp s) as [tl|] eqn:Etl; [|discriminate]. intros [= <-].
    destruct (P tl (or_intror Etl)) as (m & Hm & ->).
    apply has_height_chain in Ht; auto. subst m. auto. }
  destruct (pend_h s !! n) as [h'|] eqn:Hph.
  { intros [= <-]. destruct (mi_ph s M _ _ Hph). split_and!; auto. left; left; eauto. }
  destruct (d_idx s !! n) as [id|] eqn:Hdi; [|discriminate].
  destruct (mi_di s M _ _ Hdi) as (Hn & -> & _).
  rewrite get_stored; auto; [|right; eauto]. intros [= <-]. split_and!; auto. left; right; eauto.
Qed.

Lemma nb_cases s n : nb s n = NotFound \/ exists h, nb s n = Found h.
Proof.
  unfold nb. destruct (has_height (headp s) n).
  { destruct (headp s); [right; eauto|left; auto]. }
  destruct (has_height (tailp s) n).
  { destruct (tailp s); [right; eauto|left; auto]. }
  destruct (pend_h s !! n); [right; eauto|].
  destruct (d_idx s !! n); [|left; auto]. destruct (get_cases s n0) as [->|[h ->]]; eauto.
Qed.

Lemma nb_stored s n : minv s -> pchain s -> stored s n -> nb s n = Found (c n).
Proof.
  intros M P Hs. destruct (nb_cases s n) as [Hn|[h Hn]].
  - exfalso. revert Hn. unfold nb.
    destruct (has_height (headp s) n) eqn:Hh.
    { destruct (headp s); [discriminate|]. cbn in Hh. discriminate. }
    destruct (has_height (tailp s) n) eqn:Ht.
    { destruct (tailp s); [discriminate|]. cbn in Ht. discriminate. }
    destruct (pend_h s !! n) as [h'|] eqn:Hph; [discriminate|].
    destruct Hs as [[? Hs]|[id Hs]]; [congruence|]. rewrite Hs.
    destruct (mi_di s M _ _ Hs) as (_ & -> & _). rewrite get_stored; auto; [discriminate|]. right; eauto.
  - rewrite Hn. f_equal. apply nb_found_inv in Hn; auto. tauto.
Qed.

Lemma nb_not_stored s n : minv s -> pstored s -> ~ stored s n -> nb s n = NotFound.
Proof.
  intros M P Hs. destruct (nb_cases s n) as [Hn|[h Hn]]; auto.
  exfalso. apply nb_found_inv in Hn; auto using pstored_pchain.
  destruct Hn as (Hn & -> & [?|[Hp|Hp]]); auto.
  - destruct (P _ (or_introl Hp)) as (m & Hm & Hst).
    assert (m = n); [|subst; auto].
    symmetry. apply c_inj; auto; [eapply stored_inr; eauto | congruence].
  - destruct (P _ (or_intror Hp)) as (m & Hm & Hst).
    assert (m = n); [|subst; auto].
    symmetry. apply c_inj; auto; [eapply stored_inr; eauto | congruence].
Qed.


Lemma has_get s id : minv s -> has s id = match get s id with Found _ => true | _ => false end.
Proof.
  intros M. unfold has, get. destruct (pend_i s !! id) as [m|] eqn:Hpi; cbn.
  - destruct (mi_pi1 s M _ _ Hpi) as [_ ->]. reflexivity.
  - destruct (d_hdr s !! id); reflexivity.
Qed.

Lemma gbh_stored s n : minv s -> pchain s -> stored s n -> get_by_height s n = Found (c n).
Proof.
  intros M P Hs. unfold get_by_height. pose proof (stored_inr s n M Hs) as [? ?].
  destruct (N.eqb_spec n 0); [lia|]. rewrite nb_stored; auto.
Qed.

Lemma gbh_not_stored s n : minv s -> pstored s -> ~ stored s n ->
  get_by_height s n = if n =? 0 then Err else if n <=? hsh s then NotFound else Blocks.
Proof.
  intros M P Hs. unfold get_by_height. destruct (n =? 0); auto.
  rewrite nb_not_stored; auto.
Qed.

Lemma walk_down_spec s from : minv s -> forall k acc,
  stored s (from + N.of_nat k) ->
  walk_down s k (c (from + N.of_nat k)) acc =
  if forallb (fun n => if stored_dec s n then true else false) (seqN from k)
  then Found (map c (seqN from (S k)) ++ acc) else NotFound.
Proof.
  intros M. induction k as [|k IH]; intros acc Hs.
  - cbn. do 3 f_equal. lia.
  - cbn [walk_down]. rewrite (seqN_snoc from k), forallb_app. cbn [forallb].
    pose proof (stored_inr _ _ M Hs) as Hn.
    destruct (stored_dec s (from + N.of_nat k)) as [Hk|Hk].
    + replace (from + N.of_nat (S k)) with (from + N.of_nat k + 1) in * by lia.
      pose proof (stored_inr _ _ M Hk) as Hn'.
      rewrite c_prev; auto. rewrite get_stored; auto. rewrite IH; auto.
      rewrite andb_true_r. destruct (forallb _ _); auto.
      rewrite (seqN_snoc from (S k)), map_app, <- app_assoc. cbn [map app].
      replace (from + N.of_nat (S k)) with (from + N.of_nat k + 1) by lia. reflexivity.
    + rewrite andb_false_r.
      destruct (N.eq_dec (from + N.of_nat k) 0) as [Hz|Hz].
      * replace (from + N.of_nat (S k)) with 1 by lia.
        destruct (get_cases s (h_prev (c 1))) as [->|[h Hg]]; auto.
        destruct (get_found_inv _ _ _ M Hg) as (m & Hm & _ & Hid & _).
        exfalso. eapply c_prev1; eauto.
      * replace (from + N.of_nat (S k)) with (from + N.of_nat k + 1) in * by lia.
        assert (inr (from + N.of_nat k)) by (unfold StoreP.inr in *; lia).
        rewrite c_prev; auto. rewrite get_not_stored; auto.
Qed.

End chain.

Arguments minv c U s : clear implicits.
Arguments pchain c U s : clear implicits.
Arguments pstored c s : clear implicits.
