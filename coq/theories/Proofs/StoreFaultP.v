(** Failing datastore writes inside DeleteRange (Model/StoreFault.v): proofs. *)
From Coq Require Import NArith List Bool Lia ZifyBool ZifyN ZifyNat.
From stdpp Require Import gmap.
From GH Require Import Base.Prelude Model.Store Model.StoreFault.
Import ListNotations.
Open Scope N_scope.

(** ** no failing attempt, plain datastore: the functions of Model/Store.v *)
Lemma wtry_nil s a w : wtry [] s a w = (write s w, S a, true).
Proof. reflexivity. Qed.

Lemma sync_f_nil s a : fst (sync_f [] s a) = sync s.
Proof.
  unfold sync_f, sync, flush_one. cbv zeta. rewrite andb_false_r.
  destruct (size _ =? 0)%nat; reflexivity.
Qed.

Lemma delete_single_f_nil s a script nh n log :
  exists a', delete_single_f false [] s a [] script nh n log =
             (let '(s', l, ok) := delete_single s script nh n log in (s', a', [], l, ok)).
Proof.
  unfold delete_single_f, delete_single.
  destruct (match d_idx s !! n with Some id => Some id | None => _ end) as [id|]; [|eauto].
  destruct (run_handlers s script 0 nh n log) as [l ok]. destruct ok; eauto.
Qed.

Lemma delete_seq_f_nil script nh : forall cnt s a n log,
  exists a', delete_seq_f false [] s a [] script nh n cnt log =
             (let '(s', l, act, ok) := delete_seq s script nh n cnt log in (s', a', [], l, act, ok)).
Proof.
  induction cnt as [|cnt IH]; intros s a n log; cbn [delete_seq_f delete_seq]; [eauto|].
  destruct (delete_single_f_nil s a script nh n log) as [a1 E]. rewrite E.
  destruct (delete_single s script nh n log) as [[s1 l1] ok1]. destruct ok1; [|eauto].
  apply IH.
Qed.

Lemma delete_raw_f_nil s a script nh from cnt :
  exists a', delete_raw_f false [] s a script nh from cnt =
             (let '(s', l, act, ok) := delete_seq s script nh from cnt [] in (s', a', l, act, ok)).
Proof.
  unfold delete_raw_f. destruct (delete_seq_f_nil script nh cnt s a from []) as [a1 E]. rewrite E.
  destruct (delete_seq s script nh from cnt []) as [[[s1 l1] act] ok]. eauto.
Qed.

Lemma put_head_ptr_f_nil s a : exists a', put_head_ptr_f [] s a = (put_head_ptr s, a', true).
Proof. unfold put_head_ptr_f, put_head_ptr. destruct (headp s); eauto. Qed.

Lemma set_tail_f_nil s a n : exists a', set_tail_f [] s a n = (fst (set_tail s n), a', snd (set_tail s n)).
Proof.
  unfold set_tail_f, set_tail. destruct (nb s n) as [h| | |]; cbn [fst snd]; eauto.
  rewrite wtry_nil. cbv zeta.
  destruct (match headp (write (set_tailp s (Some h)) [WPutTail (h_id h)]) with None => true | Some hd => h_height hd <? n end).
  - rewrite wtry_nil. apply put_head_ptr_f_nil.
  - apply put_head_ptr_f_nil.
Qed.

Lemma set_head_f_nil s a n : exists a', set_head_f [] s a n = (fst (set_head s n), a', snd (set_head s n)).
Proof.
  unfold set_head_f, set_head, put_tail_ptr. destruct (nb s n) as [h| | |]; cbn [fst snd]; eauto.
  rewrite wtry_nil.
  destruct (tailp (write (set_hsh (set_headp s (Some h)) (h_height h)) [WPutHead (h_id h)])); eauto.
Qed.

Lemma wipe_f_nil s a : exists a', wipe_f [] s a = (wipe s, a', true).
Proof. unfold wipe_f, wipe. rewrite !wtry_nil. eauto. Qed.

Lemma delete_range_synced_f_nil s a script nh from to :
  delete_range_synced_f false [] s a script nh from to = delete_range_synced s script nh from to.
Proof.
  unfold delete_range_synced_f, delete_range_synced.
  destruct (headp s) as [hd|]; [|reflexivity]. destruct (tailp s) as [tl|]; [|reflexivity]. cbv zeta.
  destruct (to <=? from); [reflexivity|]. destruct (_ || _); [reflexivity|].
  destruct (_ && _ && _).
  { destruct (delete_raw_f_nil s a script nh from (N.to_nat (to - from))) as [a1 E]. rewrite E.
    destruct (delete_seq s script nh from (N.to_nat (to - from)) []) as [[[s1 l1] act] ok].
    destruct ok.
    - destruct (wipe_f_nil s1 a1) as [a2 ->]. reflexivity.
    - destruct (set_tail_f_nil s1 a1 act) as [a2 ->]. reflexivity. }
  destruct (_ && _); [reflexivity|]. destruct (_ && _ && _); [reflexivity|]. destruct (_ && _); [reflexivity|].
  destruct (from =? h_height tl).
  { destruct (delete_raw_f_nil s a script nh from (N.to_nat (to - from))) as [a1 E]. rewrite E.
    destruct (delete_seq s script nh from (N.to_nat (to - from)) []) as [[[s1 l1] act] ok].
    destruct (set_tail_f_nil s1 a1 act) as [a2 ->]. destruct (set_tail s1 act) as [s2 tok]. cbn [fst snd].
    destruct tok, ok; reflexivity. }
  destruct (nb s (from - 1)) as [nh'| | |]; try reflexivity.
  rewrite wtry_nil.
  set (s0 := write s [WPutTail (h_id tl); WPutHead (h_id nh')]).
  destruct (delete_raw_f_nil s0 (S a) script nh from (N.to_nat (to - from))) as [a1 E]. rewrite E.
  destruct (delete_seq s0 script nh from (N.to_nat (to - from)) []) as [[[s1 l1] act] ok].
  destruct (from <? act).
  - destruct (set_head_f_nil s1 a1 (from - 1)) as [a2 ->]. destruct (set_head s1 (from - 1)) as [s2 hok]. cbn [fst snd].
    destruct hok, ok; reflexivity.
  - rewrite wtry_nil. destruct ok; reflexivity.
Qed.

Theorem delete_range_f_nofail s script nh from to :
  delete_range_f false [] s script nh from to = delete_range s script nh from to.
Proof.
  unfold delete_range_f, delete_range. pose proof (sync_f_nil s 0) as E.
  destruct (sync_f [] s 0) as [s0 a0]. cbn [fst] in E. subst s0.
  apply delete_range_synced_f_nil.
Qed.

(** ** a failing attempt changes nothing; a succeeding one is the write of the fault-free model *)
Lemma wtry_cases wf s a w : wtry wf s a w = (s, S a, false) \/ wtry wf s a w = (write s w, S a, true).
Proof. unfold wtry. destruct (wfails wf a); auto. Qed.

(** ** plain datastore: a pass that stops (a handler fails, or the delete entry of a header fails) leaves the
    Store exactly as the complete, fault-free pass over the heights below the one it stopped at *)
Lemma delete_seq_f_plain_trunc wf script nh : forall cnt s a n log s' a' wb' log' actual ok,
  delete_seq_f false wf s a [] script nh n cnt log = (s', a', wb', log', actual, ok) ->
  wb' = [] /\ n <= actual <= n + N.of_nat cnt /\ (ok = true -> actual = n + N.of_nat cnt) /\
  exists l, delete_seq s script nh n (N.to_nat (actual - n)) log = (s', l, actual, true).
Proof.
  induction cnt as [|cnt IH]; intros s a n log s' a' wb' log' actual ok E.
  - cbn in E. injection E as <- <- <- <- <- <-. replace (N.to_nat (n - n)) with 0%nat by lia.
    cbn. split_and!; auto; try lia. eauto.
  - cbn [delete_seq_f] in E. unfold delete_single_f in E.
    assert (Stop : forall (x : st) (b : nat) (l1 : list hcall),
              (x, b, @nil w1, l1, n, false) = (s', a', wb', log', actual, ok) ->
              x = s ->
              wb' = [] /\ n <= actual <= n + N.of_nat (S cnt) /\ (ok = true -> actual = n + N.of_nat (S cnt)) /\
              exists l, delete_seq s script nh n (N.to_nat (actual - n)) log = (s', l, actual, true)).
    { intros x b l1 Ex ->. injection Ex as <- <- <- <- <- <-. replace (N.to_nat (n - n)) with 0%nat by lia.
      cbn. split_and!; auto; try lia; try discriminate; eauto. }
    assert (Go : forall s1 a1 l1,
              delete_single s script nh n log = (s1, l1, true) ->
              delete_seq_f false wf s1 a1 [] script nh (n + 1) cnt l1 = (s', a', wb', log', actual, ok) ->
              wb' = [] /\ n <= actual <= n + N.of_nat (S cnt) /\ (ok = true -> actual = n + N.of_nat (S cnt)) /\
              exists l, delete_seq s script nh n (N.to_nat (actual - n)) log = (s', l, actual, true)).
    { intros s1 a1 l1 E1 E2. destruct (IH _ _ _ _ _ _ _ _ _ _ E2) as (W & B & O & l & D).
      split; [auto|]. split; [lia|]. split; [intros Hok; rewrite (O Hok); lia|].
      exists l. replace (N.to_nat (actual - n)) with (S (N.to_nat (actual - (n + 1)))) by lia.
      cbn [delete_seq]. rewrite E1. exact D. }
    destruct (match d_idx s !! n with Some id => Some id | None => _ end) as [id|] eqn:Eo.
    + destruct (run_handlers s script 0 nh n log) as [l1 hok] eqn:Er. destruct hok.
      * destruct (wtry_cases wf s a [WDelH id; WDelI n]) as [Ew|Ew]; rewrite Ew in E.
        -- eapply Stop; eauto.
        -- eapply Go; eauto. unfold delete_single. rewrite Eo, Er. reflexivity.
      * eapply Stop; eauto.
    + eapply Go; eauto. unfold delete_single. rewrite Eo. reflexivity.
Qed.

(** ** context-aware datastore: the pass itself writes nothing (its deletes sit in the write batch) *)
Lemma delete_seq_f_ctx_disk wf script nh : forall cnt s a wb n log s' a' wb' log' actual ok,
  delete_seq_f true wf s a wb script nh n cnt log = (s', a', wb', log', actual, ok) ->
  a' = a /\ wlog s' = wlog s /\ d_hdr s' = d_hdr s /\ d_idx s' = d_idx s /\ d_head s' = d_head s /\ d_tail s' = d_tail s /\
  headp s' = headp s /\ tailp s' = tailp s /\ hsh s' = hsh s.
Proof.
  induction cnt as [|cnt IH]; intros s a wb n log s' a' wb' log' actual ok E.
  - cbn in E. injection E as <- <- <- <- <- <-. split_and!; reflexivity.
  - cbn [delete_seq_f] in E. unfold delete_single_f in E.
    destruct (match d_idx s !! n with Some id => Some id | None => _ end) as [id|].
    + destruct (run_handlers s script 0 nh n log) as [l1 hok]. destruct hok.
      * apply IH in E. cbn in E. exact E.
      * injection E as <- <- <- <- <- <-. split_and!; reflexivity.
    + apply IH in E. exact E.
Qed.

(** the one commit of the pass either applies every buffered delete or none *)
Lemma delete_raw_f_ctx_all_or_nothing wf s a script nh from cnt s2 a2 log actual ok :
  delete_raw_f true wf s a script nh from cnt = (s2, a2, log, actual, ok) ->
  exists s1 wb, wlog s1 = wlog s /\ d_hdr s1 = d_hdr s /\ d_idx s1 = d_idx s /\
    (s2 = s1 \/ (wb <> [] /\ s2 = write s1 wb)).
Proof.
  unfold delete_raw_f. destruct (delete_seq_f true wf s a [] script nh from cnt []) as [[[[[s1 a1] wb] l1] act] ok1] eqn:E.
  apply delete_seq_f_ctx_disk in E. destruct E as (_ & E1 & E2 & E3 & _).
  destruct wb as [|w0 wb]; intros Er.
  - injection Er as <- <- <- <- <-. exists s1, []. auto.
  - destruct (wtry_cases wf s1 a1 (w0 :: wb)) as [Ew|Ew]; rewrite Ew in Er; injection Er as <- <- <- <- <-;
      exists s1, (w0 :: wb); split_and!; auto; try (right; split; [discriminate|reflexivity]).
Qed.
