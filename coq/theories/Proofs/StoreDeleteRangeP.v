(** Step lemma for DeleteRange, part 2: setTail / setHead / wipe and the
    whole operation against [spec_delete]. *)
From Coq Require Import NArith List Bool Lia ZifyBool ZifyN ZifyNat.
From stdpp Require Import gmap.
From GH Require Import Base.Prelude Model.Store Model.StoreSpec Oracle.StoreCase.
From GH Require Import Proofs.StoreP Proofs.StoreClimbP Proofs.StoreInvP Proofs.StoreAppendP Proofs.StoreDeleteP Proofs.StoreRestartP.
Import ListNotations.
Open Scope N_scope.

Lemma set_tail_spec s n h hd : nb s n = Found h -> headp s = Some hd -> (h_height hd <? n) = false ->
  exists s2, set_tail s n = (s2, true) /\ same_maps s s2 /\ headp s2 = Some hd /\ tailp s2 = Some h /\
             hsh s2 = hsh s /\ d_head s2 = Some (h_id hd) /\ d_tail s2 = Some (h_id h).
Proof.
  intros Hnb Hhd Hlt. unfold set_tail. rewrite Hnb. cbv zeta.
  destruct (write_frame (set_tailp s (Some h)) [WPutTail (h_id h)]) as (_ & _ & W3 & _).
  rewrite W3. cbn [headp set_tailp]. rewrite Hhd, Hlt. unfold put_head_ptr.
  rewrite W3. cbn [headp set_tailp]. rewrite Hhd.
  eexists. split; [reflexivity|]. unfold same_maps. split_and!; try reflexivity; auto.
Qed.

Lemma set_head_spec s n h tl : nb s n = Found h -> tailp s = Some tl ->
  exists s2, set_head s n = (s2, true) /\ same_maps s s2 /\ headp s2 = Some h /\ tailp s2 = Some tl /\
             hsh s2 = h_height h /\ d_head s2 = Some (h_id h) /\ d_tail s2 = Some (h_id tl).
Proof.
  intros Hnb Htl. unfold set_head. rewrite Hnb. unfold put_tail_ptr.
  destruct (write_frame (set_hsh (set_headp s (Some h)) (h_height h)) [WPutHead (h_id h)]) as (_ & _ & _ & W4 & _).
  rewrite W4. cbn [tailp set_hsh set_headp]. rewrite Htl.
  eexists. split; [reflexivity|]. unfold same_maps. split_and!; try reflexivity; auto.
Qed.

Lemma wipe_spec s :
  same_maps s (wipe s) /\ headp (wipe s) = None /\ tailp (wipe s) = None /\ hsh (wipe s) = 0 /\
  d_head (wipe s) = None /\ d_tail (wipe s) = None.
Proof. unfold same_maps. split_and!; reflexivity. Qed.

Lemma write_ptrs_spec s w : (forall x, In x w -> match x with WPutHead _ | WPutTail _ | WDelHead | WDelTail => True | _ => False end) ->
  same_maps s (write s w) /\ headp (write s w) = headp s /\ tailp (write s w) = tailp s /\ hsh (write s w) = hsh s.
Proof.
  intros Hw. destruct (write_frame s w) as (W1 & W2 & W3 & W4 & W5 & _).
  destruct (write_disk s w) as (D1 & D2 & _).
  unfold same_maps. split_and!; auto; rewrite ?D1, ?D2; clear -Hw.
  - revert s. induction w as [|x w IH]; intros s; cbn [fold_left]; auto.
    rewrite IH by (intros y Hy; apply Hw; right; auto).
    specialize (Hw x (or_introl eq_refl)). destruct x; try contradiction; reflexivity.
  - revert s. induction w as [|x w IH]; intros s; cbn [fold_left]; auto.
    rewrite IH by (intros y Hy; apply Hw; right; auto).
    specialize (Hw x (or_introl eq_refl)). destruct x; try contradiction; reflexivity.
Qed.

Lemma dseq_facts S nh fails from to : from < to ->
  let D := dseq S nh fails from (N.to_nat (to - from)) in
  let stop := fail_height S nh fails from to in
  snd (fst D) = match stop with Some k => k | None => to end /\
  snd D = match stop with None => true | Some _ => false end /\
  map to_hobs (fst (fst D)) = expected_log S nh fails from to stop /\
  (forall k, stop = Some k -> k ∈ S /\ from <= k < to).
Proof.
  intros Hlt D stop. split_and!.
  - unfold D, stop. rewrite dseq_spec, fail_height_fh. cbn [fst snd].
    destruct (fh _ _ _ _ _); auto. lia.
  - unfold D, stop. rewrite dseq_spec, fail_height_fh. cbn [fst snd]. reflexivity.
  - apply dseq_expected_log; auto.
  - intros k Hk. unfold stop in Hk. rewrite fail_height_fh in Hk. apply fh_some in Hk. split; [tauto|lia].
Qed.

Section chain.
Context {c : N -> hdr} {U : N} {CH : chain_hyps c U}.
Notation inr := (inr U).
Notation minv := (minv c U).
Notation pchain := (pchain c U).
Notation pstored := (pstored c).
Notation pinv := (pinv c U).
Notation inv := (inv c U).

Lemma ptrs_pchain s T H : inr T -> inr H -> headp s = Some (c H) -> tailp s = Some (c T) -> pchain s.
Proof. intros HT HH E1 E2 h [E|E]; rewrite ?E1, ?E2 in E; injection E as <-; eauto. Qed.

Lemma not_in_cut (S : gset N) from cnt n :
  n ∈ S ∖ list_to_set (seqN from cnt) <-> n ∈ S /\ ~ (from <= n < from + N.of_nat cnt).
Proof. rewrite elem_of_difference, elem_of_list_to_set, elem_of_list_In, in_seqN. tauto. Qed.

(** cutting the tail end [T, a): whole-store failure and tail-side deletion *)
Lemma tail_cut_inv s sp T H s1 a :
  pinv s sp -> sHT sp = Some (T, H) -> minv s1 ->
  headp s1 = Some (c H) -> tailp s1 = Some (c T) -> hsh s1 = H ->
  T <= a <= H ->
  (forall m, stored s1 m <-> stored s m /\ ~ (T <= m < a)) ->
  exists s2, set_tail s1 a = (s2, true) /\
    inv s2 (Spec (sS sp ∖ list_to_set (seqN T (N.to_nat (a - T)))) (Some (a, H))).
Proof.
  intros I EHT M1 Hd1 Tl1 Hs1 Ha St1.
  destruct (inv_TH s sp T H I EHT) as (HT & HH & _).
  destruct I as [M HS P]. unfold ptrs_core in P. rewrite EHT in P.
  destruct P as (P1 & P2 & P3 & P4 & P5 & P6 & P7).
  pose proof (@ch_height c U CH) as c_height.
  assert (Sa : stored s1 a) by (apply St1; split; [apply P5; lia|lia]).
  assert (PC1 : pchain s1) by (apply (ptrs_pchain s1 T H); auto).
  destruct (set_tail_spec s1 a (c a) (c H)) as (s2 & E & SM & Q1 & Q2 & Q3 & Q4 & Q5); auto.
  { apply nb_stored; auto. }
  { rewrite c_height by auto. apply N.ltb_ge. lia. }
  exists s2. split; auto.
  assert (St2 : forall m, stored s2 m <-> stored s m /\ ~ (T <= m < a)).
  { intros m. rewrite (same_maps_stored s1 s2 m SM). auto. }
  split; [split|].
  - eapply minv_ext; eauto.
  - intros n. cbn [sS]. rewrite not_in_cut, St2, HS. split; intros [? ?]; split; auto; lia.
  - unfold ptrs_core. cbn [sHT]. rewrite !St2. split_and!; auto; try lia; try tauto.
    + intros n Hn. apply St2. split; [apply P5; lia|lia].
    + intros [Hs Hn]. destruct (N.eq_dec a T) as [->|]; [auto|]. apply Hn. lia.
  - unfold disk_ok. cbn [sHT]. auto.
Qed.

(** cutting the head end [from, a) with progress *)
Lemma head_cut_inv s sp T H s1 from a :
  pinv s sp -> sHT sp = Some (T, H) -> minv s1 ->
  headp s1 = Some (c H) -> tailp s1 = Some (c T) ->
  T < from -> from < a -> a <= H + 1 ->
  (forall m, stored s1 m <-> stored s m /\ ~ (from <= m < a)) ->
  exists s2, set_head s1 (from - 1) = (s2, true) /\
    inv s2 (Spec (sS sp ∖ list_to_set (seqN from (N.to_nat (a - from)))) (Some (T, from - 1))).
Proof.
  intros I EHT M1 Hd1 Tl1 HTf Hfa HaH St1.
  destruct (inv_TH s sp T H I EHT) as (HT & HH & _).
  destruct I as [M HS P]. unfold ptrs_core in P. rewrite EHT in P.
  destruct P as (P1 & P2 & P3 & P4 & P5 & P6 & P7).
  pose proof (@ch_height c U CH) as c_height.
  assert (Sa : stored s1 (from - 1)) by (apply St1; split; [apply P5; lia|lia]).
  assert (PC1 : pchain s1) by (apply (ptrs_pchain s1 T H); auto).
  assert (Hi : inr (from - 1)) by (eapply stored_inr; eauto).
  destruct (set_head_spec s1 (from - 1) (c (from - 1)) (c T)) as (s2 & E & SM & Q1 & Q2 & Q3 & Q4 & Q5); auto.
  { apply nb_stored; auto. }
  exists s2. split; auto.
  assert (St2 : forall m, stored s2 m <-> stored s m /\ ~ (from <= m < a)).
  { intros m. rewrite (same_maps_stored s1 s2 m SM). auto. }
  split; [split|].
  - eapply minv_ext; eauto.
  - intros n. cbn [sS]. rewrite not_in_cut, St2, HS. split; intros [? ?]; split; auto; lia.
  - unfold ptrs_core. cbn [sHT]. rewrite !St2. rewrite c_height in Q3 by auto.
    split_and!; auto; try lia; try tauto;
      try (intros n Hn; apply St2; split; [apply P5; lia|lia]); try (intros [Hs Hn]; apply Hn; lia).
  - unfold disk_ok. cbn [sHT]. auto.
Qed.


Ltac simp := cbv beta iota; cbn [andb orb negb fst snd oob].

(** the deletion proper (after the Sync) against the specification step of the oracle *)
Theorem delete_synced_refines s sp from to nh fails : inv s sp ->
  let '(s', log, out) := delete_range_synced s (script_of fails) nh from to in
  let '(sp', out', log') := spec_step sp (SStep (IDelete from to nh fails) OOk [] None) in
  inv s' sp' /\ oob out = out' /\ map to_hobs log = log' /\
  (valid_delete sp from to = false -> s' = s).
Proof.
  intros [I DK]. pose proof I as [M HS P]. unfold ptrs_core in P.
  pose proof (@ch_height c U CH) as c_height. pose proof (@ch_bound c U CH) as Ub.
  unfold spec_step. cbn [ss_op].
  destruct (sHT sp) as [[T H]|] eqn:EHT.
  2: { destruct P as (P1 & P2 & _). unfold delete_range_synced, valid_delete, spec_delete. rewrite P1, EHT.
       simp. split_and!; auto. split; auto. }
  destruct P as (P1 & P2 & P3 & P4 & P5 & P6 & P7).
  destruct (inv_TH s sp T H I EHT) as (HT & HH & _).
  assert (PS : pstored s) by (eapply inv_pstored; eauto).
  assert (PC : pchain s) by (apply pstored_pchain; auto).
  unfold delete_range_synced. rewrite P1, P2. cbv zeta. rewrite !c_height by auto.
  unfold valid_delete, spec_delete. rewrite EHT. cbv zeta.
  rewrite !(wrap64_small (H + 1)) by (destruct HH; lia).
  destruct (N.leb_spec to from) as [Hle|Hlt]; simp.
  { split_and!; auto. split; auto. }
  destruct (N.ltb_spec H from) as [H1|H1]; simp.
  { split_and!; auto. split; auto. }
  destruct (N.leb_spec to T) as [H2|H2]; simp.
  { split_and!; auto. split; auto. }
  destruct (N.eqb_spec from T) as [uT|uT]; destruct (N.eqb_spec to (H + 1)) as [uH|uH]; simp.
  - (* whole store *)
    subst from to. rewrite (nb_not_stored s (H + 1)) by auto.
    rewrite (bool_decide_eq_false_2 (H + 1 ∈ sS sp)) by (rewrite HS; auto). simp.
    destruct (delete_seq_spec (sS sp) fails nh (N.to_nat (H + 1 - T)) s T [] M PC) as (s1 & E & M1 & SP1 & St1 & _).
    { intros m _. apply HS. }
    destruct (dseq_facts (sS sp) nh fails T (H + 1) Hlt) as (D1 & D2 & D3 & D4). cbn zeta in *.
    rewrite E, D2. rewrite D1 in St1. rewrite D1. cbn [app]. simp.
    destruct SP1 as (Q1 & Q2 & Q3 & Q4 & Q5).
    destruct (fail_height (sS sp) nh fails T (H + 1)) as [k|] eqn:Efh; simp.
    + destruct (D4 k eq_refl) as [Hk1 Hk2].
      destruct (tail_cut_inv s sp T H s1 k I EHT M1) as (s2 & E2 & I2); try congruence; try lia; auto.
      rewrite E2. simp. split_and!; auto. discriminate.
    + split_and!; auto; [|discriminate]. destruct (wipe_spec s1) as (W0 & W1 & W2 & W3 & W4 & W5).
      split; [split|constructor].
      * eapply minv_ext; eauto.
      * intros n. cbn [sS]. rewrite not_in_cut, (same_maps_stored s1 (wipe s1) n W0), St1, HS.
        split; intros [? ?]; split; auto; lia.
      * unfold ptrs_core. cbn [sHT]. auto.
  - (* tail side *)
    subst from. destruct (N.ltb_spec (H + 1) to) as [H3|H3]; simp.
    { split_and!; auto. split; auto. }
    destruct (delete_seq_spec (sS sp) fails nh (N.to_nat (to - T)) s T [] M PC) as (s1 & E & M1 & SP1 & St1 & _).
    { intros m _. apply HS. }
    destruct (dseq_facts (sS sp) nh fails T to Hlt) as (D1 & D2 & D3 & D4). cbn zeta in *.
    rewrite E, D2. rewrite D1 in St1. rewrite D1. cbn [app]. simp.
    destruct SP1 as (Q1 & Q2 & Q3 & Q4 & Q5).
    destruct (fail_height (sS sp) nh fails T to) as [k|] eqn:Efh; simp.
    + destruct (D4 k eq_refl) as [Hk1 Hk2].
      destruct (tail_cut_inv s sp T H s1 k I EHT M1) as (s2 & E2 & I2); try congruence; try lia; auto.
      rewrite E2. simp. destruct (N.ltb_spec H k); [lia|]. split_and!; auto. discriminate.
    + destruct (tail_cut_inv s sp T H s1 to I EHT M1) as (s2 & E2 & I2); try congruence; try lia; auto.
      rewrite E2. simp. destruct (N.ltb_spec H to); [lia|]. split_and!; auto. discriminate.
  - (* head side *)
    subst to. destruct (N.ltb_spec from T) as [H3|H3]; simp.
    { split_and!; auto. split; auto. }
    assert (Sf : stored s (from - 1)) by (apply P5; lia).
    rewrite (nb_stored s (from - 1)) by auto.
    set (s0 := write s [WPutTail (h_id (c T)); WPutHead (h_id (c (from - 1)))]).
    destruct (write_ptrs_spec s [WPutTail (h_id (c T)); WPutHead (h_id (c (from - 1)))]) as (W0 & W1 & W2 & W3).
    { intros x [<-|[<-|[]]]; exact Logic.I. }
    fold s0 in W0, W1, W2, W3.
    assert (M0 : minv s0) by (eapply minv_ext; eauto).
    assert (PC0 : pchain s0) by (apply (ptrs_pchain s0 T H); congruence).
    destruct (delete_seq_spec (sS sp) fails nh (N.to_nat (H + 1 - from)) s0 from [] M0 PC0) as (s1 & E & M1 & SP1 & St1 & Same).
    { intros m _. rewrite (same_maps_stored s s0 m W0). apply HS. }
    destruct (dseq_facts (sS sp) nh fails from (H + 1) Hlt) as (D1 & D2 & D3 & D4). cbn zeta in *.
    rewrite E, D2. rewrite D1 in St1. rewrite D1. cbn [app]. simp.
    destruct SP1 as (Q1 & Q2 & Q3 & Q4 & Q5).
    assert (St1' : forall m, stored s1 m <-> stored s m /\
                   ~ (from <= m < match fail_height (sS sp) nh fails from (H + 1) with Some k => k | None => H + 1 end)).
    { intros m. rewrite St1, (same_maps_stored s s0 m W0). tauto. }
    destruct (fail_height (sS sp) nh fails from (H + 1)) as [k|] eqn:Efh; simp.
    + destruct (D4 k eq_refl) as [Hk1 Hk2].
      destruct (N.ltb_spec from k) as [H4|H4].
      * destruct (head_cut_inv s sp T H s1 from k I EHT M1) as (s2 & E2 & I2); try congruence; try lia; auto.
        rewrite E2. simp. split_and!; auto. discriminate.
      * replace k with from in * by lia.
        assert (s1 = s0) as -> by (apply Same; rewrite D1; reflexivity). simp.
        split_and!; auto; [|discriminate].
        destruct (write_ptrs_spec s0 [WPutHead (h_id (c H))]) as (X0 & X1 & X2 & X3).
        { intros x [<-|[]]; exact Logic.I. }
        set (s3 := write s0 [WPutHead (h_id (c H))]) in *.
        assert (SM3 : same_maps s s3).
        { destruct W0 as (?&?&?&?), X0 as (?&?&?&?). unfold same_maps. split_and!; congruence. }
        split; [split|].
        -- eapply minv_ext; eauto.
        -- intros n. cbn [sS]. rewrite not_in_cut, (same_maps_stored s s3 n SM3), HS.
           split; [tauto|]. intros; split; auto; lia.
        -- unfold ptrs_core. cbn [sHT]. rewrite !(same_maps_stored s s3 _ SM3).
           split_and!; auto; try congruence; intros n Hn; rewrite (same_maps_stored s s3 _ SM3); auto.
        -- unfold disk_ok. cbn [sHT]. intros _. split; reflexivity.
    + destruct (N.ltb_spec from (H + 1)) as [H4|H4]; [|lia].
      destruct (head_cut_inv s sp T H s1 from (H + 1) I EHT M1) as (s2 & E2 & I2); try congruence; try lia; auto.
      rewrite E2. simp. split_and!; auto. discriminate.
  - split_and!; auto. split; auto.
Qed.


(** DeleteRange = Sync, then the deletion proper; the Sync keeps the specification state *)
Theorem delete_refines s sp from to nh fails : inv s sp ->
  let '(s', log, out) := delete_range s (script_of fails) nh from to in
  let '(sp', out', log') := spec_step sp (SStep (IDelete from to nh fails) OOk [] None) in
  inv s' sp' /\ oob out = out' /\ map to_hobs log = log' /\
  (valid_delete sp from to = false -> s' = sync s).
Proof.
  intros I. unfold delete_range. apply delete_synced_refines. apply sync_inv. exact I.
Qed.

End chain.
