(** Proofs about Model/Bifurcate.v (verifyBifurcating / Syncer.verify / incomingNetworkHead). *)
From Coq Require Import ZifyBool ZifyNat ZifyN.
From GH Require Import Base.Prelude Model.Verify Model.Bifurcate Proofs.VerifyP.

Lemma two64_pos : 0 < two64.
Proof. reflexivity. Qed.

Lemma wrap64_small x : x < two64 -> wrap64 x = x.
Proof. intros H. unfold wrap64. apply N.mod_small. exact H. Qed.

Lemma sub64_le a b : b <= a -> sub64 a b = a - b.
Proof. intros H. unfold sub64. destruct (N.leb_spec b a); [reflexivity | lia]. Qed.

(** halving removes exactly one bit *)
Lemma size_half d : d <> 0 -> N.size (d / 2) + 1 = N.size d.
Proof.
  intros Hd. rewrite <- N.div2_div.
  destruct d as [|[p|p|]]; [congruence| | |]; cbn; lia.
Qed.

Lemma size_mono a b : a <= b -> N.size a <= N.size b.
Proof.
  intros H. destruct (N.eq_dec a 0) as [->|Ha]; [cbn; lia|].
  assert (Hb : b <> 0) by lia.
  rewrite (N.size_log2 a Ha), (N.size_log2 b Hb).
  apply -> N.succ_le_mono. apply N.log2_le_mono. exact H.
Qed.

(** a header that Verify accepts, or rejects softly, is strictly higher than the trusted one *)
Lemma verify_none_height now drift tv t u :
  Verify now drift tv t u = None -> h_height t < h_height u.
Proof. intros H. apply accept_iff in H. destruct H as [(_&_&_&Hh&_) _]. exact Hh. Qed.

Lemma verify_soft_height now drift tv t u e :
  Verify now drift tv t u = Some e -> ve_soft e = true -> h_height t < h_height u.
Proof.
  intros H Hs. apply (soft_iff now drift tv t u e H) in Hs.
  destruct Hs as ((_&_&_&Hh&_)&_). exact Hh.
Qed.

Lemma verify_soft_nonadjacent now drift tv t u e :
  Verify now drift tv t u = Some e -> ve_soft e = true ->
  adjacent t u = true -> tv_soft (tv t u) = true.
Proof.
  intros H Hs Ha. apply (soft_iff now drift tv t u e H) in Hs.
  destruct Hs as (_&_&[Hx|Hx]); [congruence | exact Hx].
Qed.

(** a zero (nil) untrusted header always fails hard (ErrZeroHeader) *)
Lemma verify_nil_hard now drift tv t u :
  h_nil u = true -> exists e, Verify now drift tv t u = Some e /\ ve_soft e = false.
Proof.
  intros Hn. unfold Verify, verify_mand.
  destruct (h_nil t); [eexists; split; reflexivity|].
  rewrite Hn. eexists; split; reflexivity.
Qed.

(** the height check of verifyBifurcating let the answer [c] to a request for [ch] through *)
Lemma height_check_passed now drift tv t (c : hdr) (ch : N) :
  negb (h_nil c) && negb (h_height c =? ch) = false ->
  h_height c = ch \/ exists e, Verify now drift tv t c = Some e /\ ve_soft e = false.
Proof.
  intros H. destruct (h_nil c) eqn:Hn.
  - right. apply verify_nil_hard. exact Hn.
  - left. cbn in H. destruct (N.eqb_spec (h_height c) ch); [assumption | discriminate].
Qed.

Lemma last_in {A} (l : list A) (d : A) : l <> [] -> In (last l d) l.
Proof.
  induction l as [|a l IH]; [congruence|]. intros _. destruct l as [|b l]; [left; reflexivity|].
  right. apply IH. discriminate.
Qed.

Section bifurcate.
Variables (now drift : Z) (tv : hdr -> hdr -> tvres) (get : nat -> N -> option hdr).

Notation V := (Verify now drift tv).
Notation bif := (bifurcate now drift tv get).

(** the getter handed [c] out at some request *)
Definition supplied (c : hdr) : Prop := exists i h, get i h = Some c.

(** the run ended at a request that brought no usable answer: an error, or a header of another height *)
Definition is_getter_fail (v : verdict) : bool :=
  match v with Refuse FGetter | Refuse FHeight => true | _ => false end.

(** ** soundness, only-verified-promoted, and the run-relative iff *)
Lemma bif_spec new fuel : forall i subj diff,
  let r := bif fuel i subj new diff in
  chain_verified now drift tv subj (b_promoted r) /\
  Forall supplied (b_promoted r) /\
  (V subj new <> None -> b_verdict r <> OutOfFuel ->
   (b_verdict r = Accept <-> V (last (b_promoted r) subj) new = None)).
Proof.
  induction fuel as [|f IH]; intros i subj diff; cbn [bifurcate].
  - cbn. repeat split; auto; congruence.
  - set (ch := wrap64 (h_height subj + diff / 2)).
    destruct (get i ch) as [c|] eqn:Hg.
    2:{ cbn. repeat split; auto; congruence. }
    destruct (negb (h_nil c) && negb (h_height c =? ch)).
    { cbn. repeat split; auto; congruence. }
    destruct (V subj c) as [e|] eqn:Hv.
    + destruct (ve_soft e).
      * specialize (IH (S i) subj (diff / 2)). cbn in IH |- *. exact IH.
      * cbn. repeat split; auto; congruence.
    + destruct (V c new) as [e|] eqn:Hn.
      * destruct (sub64 (h_height new) (h_height c) <=? 1).
        -- cbn. split; [auto|]. split; [constructor; [exists i, ch; exact Hg | constructor]|].
           intros _ _. rewrite Hn. split; discriminate.
        -- specialize (IH (S i) c (sub64 (h_height new) (h_height c))).
           cbn [bcons b_verdict b_calls b_promoted chain_verified] in IH |- *.
           destruct IH as (Hc & Hs & Hiff).
           split; [split; [exact Hv | exact Hc]|].
           split; [constructor; [exists i, ch; exact Hg | exact Hs]|].
           intros _ Hoof. rewrite last_cons_default. apply Hiff; [congruence | exact Hoof].
      * cbn. split; [auto|]. split; [constructor; [exists i, ch; exact Hg | constructor]|].
        intros _ _. rewrite Hn. split; reflexivity.
Qed.

(** ** getter failures: a failed request is the last one and the candidate is refused *)
Lemma bif_getter_failure new fuel : forall i subj diff k h sid,
  let r := bif fuel i subj new diff in
  nth_error (b_calls r) k = Some (h, sid) -> get (i + k)%nat h = None ->
  b_verdict r = Refuse FGetter /\ length (b_calls r) = S k.
Proof.
  induction fuel as [|f IH]; intros i subj diff k h sid; cbn [bifurcate].
  - cbn. destruct k; discriminate.
  - set (ch := wrap64 (h_height subj + diff / 2)).
    assert (Hone : forall v p, nth_error [(ch, h_id subj)] k = Some (h, sid) ->
              get (i + k)%nat h = None -> get i ch <> None ->
              v = Refuse FGetter /\ length (b_calls (BRun v [(ch, h_id subj)] p)) = S k).
    { intros v p Hn Hk Hg. destruct k as [|k]; [|destruct k; discriminate].
      cbn in Hn. injection Hn as <- <-. rewrite Nat.add_0_r in Hk. contradiction. }
    destruct (get i ch) as [c|] eqn:Hg.
    2:{ cbn. intros Hn Hk. destruct k as [|k]; [auto | destruct k; discriminate]. }
    assert (Hrec : forall p r', nth_error (b_calls (bcons (ch, h_id subj) p r')) k = Some (h, sid) ->
              get (i + k)%nat h = None ->
              (forall k', nth_error (b_calls r') k' = Some (h, sid) -> get (S i + k')%nat h = None ->
                          b_verdict r' = Refuse FGetter /\ length (b_calls r') = S k') ->
              b_verdict (bcons (ch, h_id subj) p r') = Refuse FGetter /\
              length (b_calls (bcons (ch, h_id subj) p r')) = S k).
    { intros p r' Hn Hk Hr. cbn in Hn |- *. destruct k as [|k].
      - cbn in Hn. injection Hn as <- <-. rewrite Nat.add_0_r in Hk. congruence.
      - cbn in Hn. replace (i + S k)%nat with (S i + k)%nat in Hk by lia.
        destruct (Hr k Hn Hk) as [Hv Hl]. split; [exact Hv | rewrite Hl; reflexivity]. }
    destruct (negb (h_nil c) && negb (h_height c =? ch)).
    { intros Hn Hk. apply Hone; auto. congruence. }
    destruct (V subj c) as [e|] eqn:Hv.
    + destruct (ve_soft e).
      * intros Hn Hk. apply Hrec; auto. intros k'. apply IH.
      * intros Hn Hk. apply Hone; auto. congruence.
    + destruct (V c new) as [e|] eqn:Hnw.
      * destruct (sub64 (h_height new) (h_height c) <=? 1).
        -- intros Hn Hk. apply Hone; auto. congruence.
        -- intros Hn Hk. apply Hrec; auto. intros k'. apply IH.
      * intros Hn Hk. apply Hone; auto. congruence.
Qed.

(** wrong-height answers: a request answered with a non-zero header of another height than asked
    is the last one and the candidate is refused for that reason *)
Lemma bif_wrong_height new fuel : forall i subj diff k h sid x,
  let r := bif fuel i subj new diff in
  nth_error (b_calls r) k = Some (h, sid) -> get (i + k)%nat h = Some x ->
  h_nil x = false -> h_height x <> h ->
  b_verdict r = Refuse FHeight /\ length (b_calls r) = S k.
Proof.
  induction fuel as [|f IH]; intros i subj diff k h sid x; cbn [bifurcate].
  - cbn. destruct k; discriminate.
  - set (ch := wrap64 (h_height subj + diff / 2)).
    intros Hn Hk Hnil Hne. revert Hn.
    assert (Hbad : negb (h_nil x) && negb (h_height x =? h) = true).
    { rewrite Hnil. cbn. destruct (N.eqb_spec (h_height x) h); [contradiction | reflexivity]. }
    destruct (get i ch) as [c|] eqn:Hg.
    2:{ cbn. destruct k as [|k]; [|destruct k; discriminate]. cbn. intros [= <- <-].
        rewrite Nat.add_0_r in Hk. congruence. }
    assert (Hone : forall v p, negb (h_nil c) && negb (h_height c =? ch) = false ->
              nth_error (b_calls (BRun v [(ch, h_id subj)] p)) k = Some (h, sid) -> False).
    { intros v p Hok Hn. cbn in Hn. destruct k as [|k]; [|destruct k; discriminate].
      cbn in Hn. injection Hn as <- <-. rewrite Nat.add_0_r in Hk. rewrite Hg in Hk.
      injection Hk as <-. congruence. }
    assert (Hrec : forall p r', negb (h_nil c) && negb (h_height c =? ch) = false ->
              nth_error (b_calls (bcons (ch, h_id subj) p r')) k = Some (h, sid) ->
              (forall k', nth_error (b_calls r') k' = Some (h, sid) -> get (S i + k')%nat h = Some x ->
                          b_verdict r' = Refuse FHeight /\ length (b_calls r') = S k') ->
              b_verdict (bcons (ch, h_id subj) p r') = Refuse FHeight /\
              length (b_calls (bcons (ch, h_id subj) p r')) = S k).
    { intros p r' Hok Hn Hr. cbn in Hn |- *. destruct k as [|k].
      - exfalso. cbn in Hn. injection Hn as <- <-. rewrite Nat.add_0_r in Hk. rewrite Hg in Hk.
        injection Hk as <-. congruence.
      - cbn in Hn. replace (i + S k)%nat with (S i + k)%nat in Hk by lia.
        destruct (Hr k Hn Hk) as [Hv Hl]. split; [exact Hv | rewrite Hl; reflexivity]. }
    destruct (negb (h_nil c) && negb (h_height c =? ch)) eqn:Hchk.
    { cbn. destruct k as [|k]; [auto | destruct k; discriminate]. }
    destruct (V subj c) as [e|] eqn:Hv.
    + destruct (ve_soft e).
      * intros Hn. apply Hrec; auto. intros k' Hn' Hk'. eapply IH; eauto.
      * intros Hn. exfalso. eapply Hone; eauto.
    + destruct (V c new) as [e|] eqn:Hnw.
      * destruct (sub64 (h_height new) (h_height c) <=? 1).
        -- intros Hn. exfalso. eapply Hone; eauto.
        -- intros Hn. apply Hrec; auto. intros k' Hn' Hk'. eapply IH; eauto.
      * intros Hn. exfalso. eapply Hone; eauto.
Qed.

(** a getter that fails from request [budget] on: [budget + 1] iterations always suffice *)
Lemma bif_budget_fuel new budget :
  (forall j h, (budget <= j)%nat -> get j h = None) ->
  forall f i subj diff, (budget < S f + i)%nat -> b_verdict (bif (S f) i subj new diff) <> OutOfFuel.
Proof.
  intros Hb. induction f as [|f IH]; intros i subj diff Hf.
  - cbn [bifurcate]. rewrite (Hb i) by lia. cbn. congruence.
  - remember (S f) as f1. cbn [bifurcate].
    destruct (get i _) as [c|]; [|cbn; congruence].
    destruct (negb (h_nil c) && _); [cbn; congruence|].
    destruct (V subj c) as [e|].
    + destruct (ve_soft e); [|cbn; congruence]. cbn. subst f1. apply IH. lia.
    + destruct (V c new); [|cbn; congruence].
      destruct (_ <=? 1); [cbn; congruence|]. cbn. subst f1. apply IH. lia.
Qed.

(** ** termination with an explicit bound, for every type-level verifier and EVERY getter
    (whatever the heights of its answers): an answer of another height than asked ends the search *)
Section termination.
Variables (new : hdr).
Let n := h_height new.
Hypothesis n_u64 : n < two64.

Ltac exit_case :=
  cbn; split; [congruence |
    match goal with |- context [?a * (N.size ?b + 1)] => generalize (a * (N.size b + 1)) end; intros; lia].

Lemma bif_terminates D0 fuel : forall i subj diff,
  h_height subj <= n -> diff <= n - h_height subj -> n - h_height subj <= D0 ->
  ((n - h_height subj) * (N.size D0 + 1) + N.size diff < N.of_nat fuel) ->
  let r := bif fuel i subj new diff in
  b_verdict r <> OutOfFuel /\
  N.of_nat (length (b_calls r)) <= (n - h_height subj) * (N.size D0 + 1) + N.size diff + 1.
Proof.
  induction fuel as [|f IH]; intros i subj diff Hsn Hd HD Hf;
    [exfalso; eapply N.nlt_0_r; exact Hf|].
  cbn [bifurcate].
  assert (Hch : wrap64 (h_height subj + diff / 2) = h_height subj + diff / 2).
  { apply wrap64_small. assert (diff / 2 <= diff) by (apply N.div_le_upper_bound; lia). lia. }
  rewrite Hch. set (ch := h_height subj + diff / 2).
  assert (Hrange : ch <= n).
  { unfold ch. assert (diff / 2 <= diff) by (apply N.div_le_upper_bound; lia). lia. }
  destruct (get i ch) as [c|] eqn:Hg; [|exit_case].
  destruct (negb (h_nil c) && negb (h_height c =? ch)) eqn:Hchk; [exit_case|].
  apply (height_check_passed now drift tv subj) in Hchk.
  destruct (V subj c) as [e|] eqn:Hv.
  - destruct (ve_soft e) eqn:Hsoft; [|exit_case].
    assert (Hc : h_height c = ch).
    { destruct Hchk as [Hc|(e' & He' & Hs')]; [exact Hc | congruence]. }
    pose proof (verify_soft_height _ _ _ _ _ _ Hv Hsoft) as Hlt.
    assert (Hd2 : diff / 2 <> 0) by (unfold ch in Hc; lia).
    assert (Hdz : diff <> 0) by (intros ->; apply Hd2; reflexivity).
    pose proof (size_half diff Hdz) as Hsz.
    assert (diff / 2 <= diff) by (apply N.div_le_upper_bound; lia).
    destruct (IH (S i) subj (diff / 2)) as [H1 H2]; try lia.
    cbn. split; [exact H1 | lia].
  - assert (Hc : h_height c = ch).
    { destruct Hchk as [Hc|(e' & He' & Hs')]; [exact Hc | congruence]. }
    pose proof (verify_none_height _ _ _ _ _ Hv) as Hlt.
    assert (Hd2 : 1 <= diff / 2) by (unfold ch in Hc; lia).
    destruct (V c new) as [e|]; [|exit_case].
    assert (Hcn : h_height c <= n) by (rewrite Hc; apply Hrange).
    rewrite (sub64_le (h_height new) (h_height c) Hcn). fold n.
    destruct (n - h_height c <=? 1); [exit_case|].
    pose proof (size_mono (n - h_height c) D0 ltac:(lia)) as Hsz.
    destruct (IH (S i) c (n - h_height c)) as [H1 H2]; try lia.
    { unfold ch in Hc. nia. }
    cbn. split; [exact H1|]. unfold ch in Hc. nia.
Qed.

Theorem bif_terminates_bound : forall i subj fuel,
  h_height subj <= n ->
  (fuel_bound (n - h_height subj) <= fuel)%nat ->
  let r := bif fuel i subj new (n - h_height subj) in
  b_verdict r <> OutOfFuel /\ N.of_nat (length (b_calls r)) <= bound (n - h_height subj).
Proof.
  intros i subj fuel Hsn Hf.
  set (D := n - h_height subj) in *.
  assert (HB : D * (N.size D + 1) + N.size D + 1 = bound D) by (unfold bound; lia).
  destruct (bif_terminates D fuel i subj D) as [H1 H2]; try (unfold D; lia).
  { unfold fuel_bound in Hf. fold D. lia. }
  split; [exact H1|]. fold D in H2. lia.
Qed.

End termination.

(** ** Syncer.verify / incomingNetworkHead *)
Notation sverify := (syncer_verify now drift tv get).
Notation incom := (incoming now drift tv get).

Lemma sverify_spec new fuel subj :
  let r := sverify fuel subj new in
  chain_verified now drift tv subj (b_promoted r) /\
  Forall supplied (b_promoted r) /\
  (b_verdict r <> OutOfFuel ->
   (b_verdict r = Accept <-> V (last (b_promoted r) subj) new = None)).
Proof.
  unfold syncer_verify. destruct (V subj new) as [e|] eqn:Hv.
  - destruct (ve_soft e).
    + pose proof (bif_spec new fuel 0%nat subj (sub64 (h_height new) (h_height subj))) as H.
      cbn zeta in H. destruct H as (H1 & H2 & H3). repeat split; auto; apply H3; auto; congruence.
    + cbn. repeat split; auto; congruence.
  - cbn. repeat split; auto.
Qed.

Lemma chain_verified_app t l u :
  chain_verified now drift tv t (l ++ [u]) <->
  chain_verified now drift tv t l /\ V (last l t) u = None.
Proof.
  revert t. induction l as [|a l IH]; intros t.
  - cbn. tauto.
  - change ((a :: l) ++ [u]) with (a :: (l ++ [u])). cbn [chain_verified].
    rewrite IH, last_cons_default. tauto.
Qed.

(** the iff of the property at the level of Syncer.verify: the candidate is accepted
    exactly when the intermediates the search obtained and promoted form, together
    with the candidate, a chain of successful verifications from the subjective head *)
Theorem sverify_accept_iff new fuel subj :
  let r := sverify fuel subj new in
  b_verdict r <> OutOfFuel ->
  (b_verdict r = Accept <->
   chain_verified now drift tv subj (b_promoted r ++ [new])).
Proof.
  intros r Hoof. destruct (sverify_spec new fuel subj) as (Hc & _ & Hiff).
  fold r in Hc, Hiff. rewrite chain_verified_app. specialize (Hiff Hoof). tauto.
Qed.

(** soundness in the existential form: a chain of getter-supplied headers *)
Theorem sverify_sound new fuel subj :
  b_verdict (sverify fuel subj new) = Accept ->
  exists cs, Forall supplied cs /\ chain_verified now drift tv subj (cs ++ [new]).
Proof.
  intros Ha. exists (b_promoted (sverify fuel subj new)).
  destruct (sverify_spec new fuel subj) as (Hc & Hs & Hiff).
  split; [exact Hs|]. apply sverify_accept_iff; [congruence | exact Ha].
Qed.

(** everything handed to setLocalHead by incomingNetworkHead is a verified chain from
    the old subjective head: getter-supplied intermediates, then (only on Accept) the candidate *)
Theorem incoming_only_verified new fuel subj :
  let r := incom fuel subj new in
  chain_verified now drift tv subj (b_promoted r) /\
  Forall (fun c => supplied c \/ (c = new /\ b_verdict r = Accept)) (b_promoted r).
Proof.
  unfold incoming. destruct (sverify_spec new fuel subj) as (Hc & Hs & Hiff).
  assert (Hw : Forall (fun c => supplied c \/ (c = new /\ Accept = Accept)) (b_promoted (sverify fuel subj new))).
  { eapply Forall_impl; [|exact Hs]. cbn. auto. }
  destruct (b_verdict (sverify fuel subj new)) eqn:Hv.
  - cbn. split.
    + apply chain_verified_app. split; [exact Hc|]. apply Hiff; congruence.
    + apply Forall_app. split; [exact Hw|]. constructor; [right; auto | constructor].
  - rewrite Hv. split; [exact Hc|]. eapply Forall_impl; [|exact Hs]. cbn. auto.
  - rewrite Hv. split; [exact Hc|]. eapply Forall_impl; [|exact Hs]. cbn. auto.
Qed.

(** refused when no header the getter supplies (nor the subjective head) verifies the candidate *)
Theorem sverify_refuses_unverifiable new fuel subj :
  V subj new <> None -> (forall c, supplied c -> V c new <> None) ->
  b_verdict (sverify fuel subj new) <> Accept.
Proof.
  intros Hd Hall Ha.
  destruct (sverify_spec new fuel subj) as (_ & Hs & Hiff).
  assert (Hn : V (last (b_promoted (sverify fuel subj new)) subj) new = None) by (apply Hiff; congruence).
  destruct (b_promoted (sverify fuel subj new)) as [|a l] eqn:Hp using rev_ind; [cbn in Hn; auto|].
  rewrite last_last in Hn. apply Forall_app in Hs as [_ Hs]. inversion Hs as [|? ? Hsa _]; subst.
  exact (Hall a Hsa Hn).
Qed.

Theorem sverify_getter_failure new fuel subj k h sid :
  let r := sverify fuel subj new in
  nth_error (b_calls r) k = Some (h, sid) -> get k h = None ->
  b_verdict r = Refuse FGetter /\ length (b_calls r) = S k.
Proof.
  unfold syncer_verify. destruct (V subj new) as [e|]; [|cbn; destruct k; discriminate].
  destruct (ve_soft e); [|cbn; destruct k; discriminate].
  apply (bif_getter_failure new fuel 0%nat).
Qed.

Theorem sverify_wrong_height new fuel subj k h sid x :
  let r := sverify fuel subj new in
  nth_error (b_calls r) k = Some (h, sid) -> get k h = Some x -> h_nil x = false -> h_height x <> h ->
  b_verdict r = Refuse FHeight /\ length (b_calls r) = S k.
Proof.
  unfold syncer_verify. destruct (V subj new) as [e|]; [|cbn; destruct k; discriminate].
  destruct (ve_soft e); [|cbn; destruct k; discriminate].
  apply (bif_wrong_height new fuel 0%nat).
Qed.

(** bifurcation is entered for soft failures only *)
Theorem sverify_direct new fuel subj :
  let r := sverify fuel subj new in
  match V subj new with
  | None => r = BRun Accept [] []
  | Some e => ve_soft e = false -> r = BRun (Refuse (FDirect e)) [] []
  end.
Proof.
  unfold syncer_verify. destruct (V subj new) as [e|]; [|reflexivity].
  intros ->. reflexivity.
Qed.

Theorem sverify_terminates new fuel subj :
  h_height new < two64 ->
  (fuel_bound (h_height new - h_height subj) <= fuel)%nat ->
  let r := sverify fuel subj new in
  b_verdict r <> OutOfFuel /\
  N.of_nat (length (b_calls r)) <= bound (h_height new - h_height subj).
Proof.
  intros Hn Hf. unfold syncer_verify.
  destruct (V subj new) as [e|] eqn:Hv; [|cbn; split; [congruence | lia]].
  destruct (ve_soft e) eqn:Hs; [|cbn; split; [congruence | lia]].
  pose proof (verify_soft_height _ _ _ _ _ _ Hv Hs) as Hlt.
  rewrite sub64_le by lia.
  apply (bif_terminates_bound new Hn); lia.
Qed.

(** whatever the getter answers, every intermediate the search promotes lies strictly below
    the candidate: a refused candidate never becomes the subjective head *)
Lemma bif_promoted_below new fuel : forall i subj diff,
  h_height new < two64 ->
  h_height subj < h_height new -> diff <= h_height new - h_height subj ->
  Forall (fun c => h_height c < h_height new) (b_promoted (bif fuel i subj new diff)).
Proof.
  induction fuel as [|f IH]; intros i subj diff Hn Hsn Hd; [constructor|].
  cbn [bifurcate].
  assert (Hle : diff / 2 <= diff) by (apply N.div_le_upper_bound; lia).
  assert (H2 : 2 * (diff / 2) <= diff) by (apply N.mul_div_le; lia).
  rewrite wrap64_small by lia. set (ch := h_height subj + diff / 2).
  destruct (get i ch) as [c|] eqn:Hg; [|constructor].
  destruct (negb (h_nil c) && negb (h_height c =? ch)) eqn:Hchk; [constructor|].
  apply (height_check_passed now drift tv subj) in Hchk.
  destruct (V subj c) as [e|] eqn:Hv.
  - destruct (ve_soft e); [|constructor]. cbn. apply IH; auto. lia.
  - assert (Hc : h_height c = ch).
    { destruct Hchk as [Hc|(e' & He' & Hs')]; [exact Hc | congruence]. }
    assert (Hcn : h_height c < h_height new) by (unfold ch in Hc; lia).
    pose proof (verify_none_height _ _ _ _ _ Hv) as Hlt.
    destruct (V c new); [|constructor; [exact Hcn | constructor]].
    destruct (_ <=? 1); [constructor; [exact Hcn | constructor]|].
    cbn. constructor; [exact Hcn|]. apply IH; auto.
    rewrite sub64_le by lia. lia.
Qed.

Theorem sverify_promoted_below new fuel subj :
  h_height new < two64 ->
  Forall (fun c => h_height c < h_height new) (b_promoted (sverify fuel subj new)).
Proof.
  intros Hn. unfold syncer_verify. destruct (V subj new) as [e|] eqn:Hv; [|constructor].
  destruct (ve_soft e) eqn:Hs; [|constructor].
  pose proof (verify_soft_height _ _ _ _ _ _ Hv Hs) as Hlt.
  apply bif_promoted_below; auto. rewrite sub64_le by lia. lia.
Qed.

(** incomingNetworkHead = Syncer.verify + setLocalHead(candidate) on success *)
Lemma incoming_unfold new fuel subj :
  let r0 := sverify fuel subj new in
  let r := incom fuel subj new in
  b_verdict r = b_verdict r0 /\ b_calls r = b_calls r0 /\
  b_promoted r = b_promoted r0 ++ (match b_verdict r0 with Accept => [new] | _ => [] end).
Proof.
  unfold incoming. destruct (b_verdict (sverify fuel subj new)) eqn:Hv; cbn; rewrite ?Hv, ?app_nil_r; auto.
Qed.

(** the whole property in one statement, for every getter *)
Theorem incoming_main new fuel subj :
  h_height new < two64 ->
  (fuel_bound (h_height new - h_height subj) <= fuel)%nat ->
  let r := incom fuel subj new in
  (* terminates, with a bounded number of getter requests *)
  (b_verdict r = Accept \/ exists f, b_verdict r = Refuse f) /\
  N.of_nat (length (b_calls r)) <= bound (h_height new - h_height subj) /\
  (* only verified headers are promoted, each a getter answer (or the accepted candidate, last) *)
  chain_verified now drift tv subj (b_promoted r) /\
  (* accepted: the promoted getter answers and the candidate form a verified chain, and the
     candidate is the last header promoted *)
  (b_verdict r = Accept ->
   exists cs, Forall supplied cs /\ b_promoted r = cs ++ [new] /\
              chain_verified now drift tv subj (cs ++ [new])) /\
  (* refused: only getter answers were promoted and the last verified head does not verify the candidate *)
  (b_verdict r <> Accept ->
   Forall supplied (b_promoted r) /\ V (head_after subj r) new <> None).
Proof.
  intros Hn Hf r.
  destruct (incoming_unfold new fuel subj) as (Hv & Hc & Hp). fold r in Hv, Hc, Hp.
  destruct (sverify_terminates new fuel subj Hn Hf) as [Hoof Hb].
  destruct (sverify_spec new fuel subj) as (Hch & Hs & Hiff). specialize (Hiff Hoof).
  pose proof (incoming_only_verified new fuel subj) as [Hall _]. fold r in Hall.
  split; [|split; [|split; [|split]]].
  - rewrite Hv. destruct (b_verdict (sverify fuel subj new)); [auto | eauto | congruence].
  - rewrite Hc. exact Hb.
  - exact Hall.
  - rewrite Hv. intros Ha. exists (b_promoted (sverify fuel subj new)). rewrite Ha in Hp.
    split; [exact Hs|]. split; [exact Hp|]. apply chain_verified_app. split; [exact Hch | apply Hiff; exact Ha].
  - rewrite Hv. intros Hna. unfold head_after. rewrite Hp.
    destruct (b_verdict (sverify fuel subj new)) eqn:E; [congruence | | congruence].
    rewrite app_nil_r. split; [exact Hs|]. intros H. apply Hiff in H. discriminate.
Qed.

(** the head-request path (networkHead's soft branch): same run as incomingNetworkHead; the
    candidate is the answer iff it was accepted, otherwise the old subjective head is kept;
    and (getter answering with the asked heights) a refused candidate is neither the answer
    nor among the promoted headers, i.e. never Syncer.Head() *)
Theorem head_soft_spec new fuel subj :
  let '(r, ans) := head_soft now drift tv get fuel subj new in
  r = incom fuel subj new /\
  (b_verdict r = Accept -> ans = new /\ head_after subj r = new) /\
  (b_verdict r <> Accept -> ans = subj).
Proof.
  unfold head_soft. destruct (incoming_unfold new fuel subj) as (Hv & _ & Hp).
  destruct (sverify_spec new fuel subj) as (Hc & _ & Hiff).
  destruct (b_verdict (incom fuel subj new)) eqn:E.
  - assert (Ha : b_verdict (sverify fuel subj new) = Accept) by congruence.
    assert (Hlt : h_height subj < h_height new).
    { assert (Hl : V (last (b_promoted (sverify fuel subj new)) subj) new = None) by (apply Hiff; congruence).
      apply verify_none_height in Hl.
      assert (Hmono : forall l t, chain_verified now drift tv t l -> h_height t <= h_height (last l t)).
      { induction l as [|a l IHl]; intros t Hcv; [cbn; lia|]. destruct Hcv as [Hva Hcv].
        rewrite last_cons_default. apply verify_none_height in Hva. specialize (IHl a Hcv). lia. }
      specialize (Hmono _ _ Hc). lia. }
    destruct (N.leb_spec (h_height new) (h_height subj)); [lia|].
    split; [reflexivity|]. split; [|congruence]. intros _. split; [reflexivity|].
    unfold head_after. rewrite Hp, Ha. apply last_last.
  - split; [reflexivity|]. split; [congruence | reflexivity].
  - split; [reflexivity|]. split; [congruence | reflexivity].
Qed.

Theorem head_soft_refused_never_head new fuel subj :
  h_height new < two64 ->
  subj <> new ->
  let '(r, ans) := head_soft now drift tv get fuel subj new in
  b_verdict r <> Accept ->
  ans <> new /\ ~ In new (b_promoted r) /\ head_after subj r <> new.
Proof.
  intros Hn Hne. pose proof (head_soft_spec new fuel subj) as Hs.
  destruct (head_soft now drift tv get fuel subj new) as [r ans]. destruct Hs as (-> & _ & Hr).
  intros Hna. rewrite (Hr Hna).
  destruct (incoming_unfold new fuel subj) as (Hv & _ & Hp).
  pose proof (sverify_promoted_below new fuel subj Hn) as Hb.
  assert (Hp' : b_promoted (incom fuel subj new) = b_promoted (sverify fuel subj new)).
  { rewrite Hp. destruct (b_verdict (sverify fuel subj new)) eqn:E; [congruence | apply app_nil_r | apply app_nil_r]. }
  rewrite <- Hp' in Hb. rewrite Forall_forall in Hb.
  assert (Hnin : ~ In new (b_promoted (incom fuel subj new))).
  { intros Hin. specialize (Hb new Hin). lia. }
  split; [exact Hne|]. split; [exact Hnin|].
  unfold head_after. intros Hl.
  destruct (b_promoted (incom fuel subj new)) as [|a l] eqn:Hpl; [cbn in Hl; auto|].
  apply Hnin. rewrite <- Hl. apply last_in. discriminate.
Qed.

(** the store head after a list of promotions is the old one or one of the promoted headers *)
Lemma store_after_in st l : store_after st l = st \/ In (store_after st l) l.
Proof.
  unfold store_after. revert st. induction l as [|a l IH]; intros st; [left; reflexivity|].
  cbn [fold_left]. destruct (IH (store_step st a)) as [H|H].
  - rewrite H. unfold store_step. destruct (_ =? _); [right; left; reflexivity | left; reflexivity].
  - right. right. exact H.
Qed.

End bifurcate.

(** a header at the trusted header's own height always fails hard (nil / chain / known) *)
Lemma verify_same_height_hard now drift tv t u :
  h_height u = h_height t -> exists e, Verify now drift tv t u = Some e /\ ve_soft e = false.
Proof.
  intros Hh. unfold Verify, verify_mand.
  destruct (h_nil t); [eexists; split; reflexivity|].
  destruct (h_nil u); [eexists; split; reflexivity|].
  destruct (negb (h_chain u =? h_chain t)); [eexists; split; reflexivity|].
  destruct (N.leb_spec (h_height u) (h_height t)); [eexists; split; reflexivity | lia].
Qed.

(** ** completeness and the forged candidate, under the honesty hypotheses:
    the getter serves one chain [c] between the two heads, adjacent headers of that
    chain verify, and verification between two of its headers never fails hard *)
Section honest.
Variables (now drift : Z) (tv : hdr -> hdr -> tvres) (get : nat -> N -> option hdr).
Variables (c : N -> hdr) (s : N) (new : hdr).
Notation V := (Verify now drift tv).
Notation bif := (bifurcate now drift tv get).
Notation sverify := (syncer_verify now drift tv get).
Let n := h_height new.
Hypothesis n_u64 : n < two64.
Hypothesis s_lt_n : s < n.
Hypothesis c_height : forall a, h_height (c a) = a.
Hypothesis get_honest : forall i a, s <= a <= n -> get i a = Some (c a).
Hypothesis adjacent_ok : forall a, s <= a -> a + 1 < n -> V (c a) (c (a + 1)) = None.
Hypothesis never_hard : forall a b e, s <= a -> a < b -> b < n -> V (c a) (c b) = Some e -> ve_soft e = true.

Lemma honest_shape fuel : forall i a diff,
  s <= a -> 2 <= diff -> diff <= n - a ->
  let r := bif fuel i (c a) new diff in
  b_verdict r = OutOfFuel \/
  (b_verdict r = Accept /\ exists b, a < b < n /\ V (c b) new = None) \/
  (exists e, b_verdict r = Refuse (FNewHead e) /\ last (b_promoted r) (c a) = c (n - 1) /\
             V (c (n - 1)) new = Some e).
Proof.
  induction fuel as [|f IH]; intros i a diff Ha Hd2 Hdn; [left; reflexivity|].
  cbn [bifurcate]. rewrite c_height.
  assert (Hle : diff / 2 <= diff) by (apply N.div_le_upper_bound; lia).
  assert (H1 : 1 <= diff / 2) by (apply N.div_le_lower_bound; lia).
  assert (Hlt : 2 * (diff / 2) <= diff) by (apply N.mul_div_le; lia).
  rewrite wrap64_small by lia.
  set (b := a + diff / 2).
  assert (Hb : a < b < n) by (unfold b; lia).
  rewrite (get_honest i b) by lia.
  rewrite (c_height b), N.eqb_refl, andb_false_r.
  destruct (V (c a) (c b)) as [e|] eqn:Hv.
  - rewrite (never_hard a b e) by (auto; lia).
    assert (Hd4 : 2 <= diff / 2).
    { destruct (N.eq_dec (diff / 2) 1) as [E|E]; [|lia].
      exfalso. unfold b in Hv. rewrite E, adjacent_ok in Hv by lia. discriminate. }
    specialize (IH (S i) a (diff / 2) Ha Hd4 ltac:(lia)). cbn zeta in IH.
    cbn [bcons b_verdict b_promoted]. exact IH.
  - destruct (V (c b) new) as [e|] eqn:Hn.
    2:{ right; left. cbn. split; [reflexivity|]. exists b. auto. }
    rewrite ?c_height. rewrite (sub64_le (h_height new) b) by (fold n; lia). fold n.
    destruct (N.leb_spec (n - b) 1) as [H|H].
    + right; right. exists e. cbn. replace (n - 1) with b by lia. auto.
    + specialize (IH (S i) b (n - b) ltac:(lia) ltac:(lia) ltac:(lia)). cbn zeta in IH.
      cbn [bcons b_verdict b_promoted]. rewrite last_cons_default.
      destruct IH as [IH|[(IH & b' & Hb' & Hvb)|IH]]; auto.
      right; left. split; [exact IH|]. exists b'. split; [lia | exact Hvb].
Qed.

Lemma honest_no_oof fuel :
  (fuel_bound (n - s) <= fuel)%nat -> b_verdict (sverify fuel (c s) new) <> OutOfFuel.
Proof.
  intros Hf.
  pose proof (sverify_terminates now drift tv get new fuel (c s) n_u64) as H.
  rewrite c_height in H. apply H; auto.
Qed.

(** completeness: a candidate that the last chain header before it verifies (in particular
    the true header of the chain) and that is not rejected hard against the subjective
    head is accepted -- for every type-level verifier, i.e. every trust predicate *)
Theorem honest_complete fuel :
  (fuel_bound (n - s) <= fuel)%nat ->
  (forall e, V (c s) new = Some e -> ve_soft e = true) ->
  V (c (n - 1)) new = None ->
  b_verdict (sverify fuel (c s) new) = Accept.
Proof.
  intros Hf Hsoft Hlast. pose proof (honest_no_oof fuel Hf) as Hoof. revert Hoof.
  unfold syncer_verify. destruct (V (c s) new) as [e|] eqn:Hd; [|reflexivity].
  rewrite (Hsoft e eq_refl). rewrite c_height, (sub64_le (h_height new) s) by (fold n; lia). fold n.
  destruct (N.eq_dec (n - s) 1) as [E|E].
  { replace (n - 1) with s in Hlast by lia. congruence. }
  destruct (honest_shape fuel 0%nat s (n - s)) as [H|[(H&_)|(e'&_&_&H)]]; try lia; congruence.
Qed.

(** a candidate that no chain header below it verifies is refused *)
Theorem honest_refuses_forged fuel :
  (fuel_bound (n - s) <= fuel)%nat ->
  (forall a, s <= a < n -> V (c a) new <> None) ->
  exists f, b_verdict (sverify fuel (c s) new) = Refuse f.
Proof.
  intros Hf Hall. pose proof (honest_no_oof fuel Hf) as Hoof. revert Hoof.
  unfold syncer_verify. destruct (V (c s) new) as [e|] eqn:Hd; [|exfalso; apply (Hall s); [lia | exact Hd]].
  destruct (ve_soft e); [|eexists; reflexivity].
  rewrite c_height, (sub64_le (h_height new) s) by (fold n; lia). fold n.
  destruct (N.eq_dec (n - s) 1) as [E|E].
  - intros _. rewrite E. destruct fuel as [|f]; [unfold fuel_bound, bound in Hf; rewrite E in Hf; cbn in Hf; lia|].
    cbn [bifurcate]. rewrite c_height. change (1 / 2) with 0. rewrite N.add_0_r, wrap64_small by lia.
    rewrite get_honest by lia. rewrite (c_height s), N.eqb_refl, andb_false_r.
    destruct (verify_same_height_hard now drift tv (c s) (c s) eq_refl) as (e' & -> & ->).
    eexists; reflexivity.
  - destruct (honest_shape fuel 0%nat s (n - s)) as [H|[(_&b&Hb&H)|(e'&H&_)]]; try lia.
    + congruence.
    + exfalso. apply (Hall b); [lia | exact H].
    + intros _. eexists; exact H.
Qed.

(** ... and when bifurcation runs (distance >= 2, soft direct failure) the refusal is the
    "new head failed" one, raised after the chain header just below the candidate was
    promoted and the (adjacent) verification of the candidate against it failed *)
Theorem honest_final_adjacent_failure fuel :
  (fuel_bound (n - s) <= fuel)%nat -> 2 <= n - s ->
  (exists e, V (c s) new = Some e /\ ve_soft e = true) ->
  (forall a, s <= a < n -> V (c a) new <> None) ->
  let r := sverify fuel (c s) new in
  exists e, V (c (n - 1)) new = Some e /\ b_verdict r = Refuse (FNewHead e) /\
            head_after (c s) r = c (n - 1).
Proof.
  intros Hf HD (e0 & Hd & Hs) Hall. pose proof (honest_no_oof fuel Hf) as Hoof. revert Hoof.
  unfold syncer_verify, head_after. rewrite Hd, Hs.
  rewrite c_height, (sub64_le (h_height new) s) by (fold n; lia). fold n.
  destruct (honest_shape fuel 0%nat s (n - s)) as [H|[(_&b&Hb&H)|(e'&H&Hl&Hv)]]; try lia.
  - congruence.
  - exfalso. apply (Hall b); [lia | exact H].
  - intros _. exists e'. auto.
Qed.

End honest.

(** ** small concrete instances used by the non-vacuity examples of Props/C15.v *)

(** an honest chain with hash links; the type trusts non-adjacent headers up to [tr] apart *)
Definition ex_c (a : N) : hdr := Hdr false 1 a (Z.of_N a) a (a - 1) true.
Definition ex_tv (tr : N) (t u : hdr) : tvres :=
  if h_height u =? h_height t + 1 then (if h_prev u =? h_id t then TVOk else TVPlain 1)
  else if h_height u - h_height t <=? tr then TVOk else TVPlain 2.
Definition ex_get (i : nat) (h : N) : option hdr := Some (ex_c h).

(** a getter that answers every request with the same far-away header: before fix F30 the loop of
    the code never ended (it span at diff = 0, every answer rejected softly); now the first answer,
    not of the asked height 20, ends the search with the refusal, for every positive amount of fuel *)
Lemma refused_example : forall fuel,
  syncer_verify 1000 0 (ex_tv 3) (fun _ _ => Some (ex_c 500)) (S fuel) (ex_c 10) (ex_c 30)
  = BRun (Refuse FHeight) [(20, 10)] [].
Proof. intros fuel. vm_compute. reflexivity. Qed.

(** ** sequences of deliveries: each one is judged on its own *)
Lemma deliveries_app now drift tv subj l1 l2 :
  deliveries now drift tv subj (l1 ++ l2) =
  deliveries now drift tv subj l1 ++ deliveries now drift tv (head_after_all now drift tv subj l1) l2.
Proof.
  revert subj. induction l1 as [|[[get fuel] new] l1 IH]; intros subj; [reflexivity|].
  cbn [app deliveries head_after_all]. rewrite IH. reflexivity.
Qed.

Theorem delivery_on_its_own now drift tv subj l1 get fuel new l2 :
  nth_error (deliveries now drift tv subj (l1 ++ (get, fuel, new) :: l2)) (length l1) =
  Some (incoming now drift tv get fuel (head_after_all now drift tv subj l1) new).
Proof.
  rewrite deliveries_app.
  assert (Hlen : forall s l, length (deliveries now drift tv s l) = length l).
  { intros s l. revert s. induction l as [|[[g f] n] l IH]; intros s; [reflexivity|]. cbn. rewrite IH. reflexivity. }
  rewrite nth_error_app2; rewrite Hlen; [|apply Nat.le_refl]. rewrite Nat.sub_diag. reflexivity.
Qed.
