(** Main theorems about the Store model: every history keeps the model state
    related to the specification state, hence every read agrees. *)
From Coq Require Import NArith List Bool Lia ZifyBool ZifyN ZifyNat.
From stdpp Require Import gmap.
From GH Require Import Base.Prelude Model.Store Model.StoreSpec Oracle.StoreCase.
From GH Require Import Proofs.StoreP Proofs.StoreClimbP Proofs.StoreInvP Proofs.StoreAppendP.
From GH Require Import Proofs.StoreDeleteP Proofs.StoreDeleteRangeP Proofs.StoreRestartP.
Import ListNotations.
Open Scope N_scope.

(** every observation of the model state equals that of the specification state *)
Definition obs_equal (c : N -> hdr) (U : N) (s : st) (sp : spec) : Prop :=
  headp s = option_map (fun th => c (snd th)) (sHT sp) /\
  tailp s = option_map (fun th => c (fst th)) (sHT sp) /\
  hsh s = spec_height sp /\
  (forall n, get_by_height s n = spec_gbh c sp n) /\
  (forall n, inr U n -> get s (h_id (c n)) = spec_get c sp n) /\
  (forall n, inr U n -> has s (h_id (c n)) = bool_decide (n ∈ sS sp)) /\
  (forall n, has_at s n = spec_has_at sp n) /\
  (forall from to, get_range s from to = spec_range c sp from to).

Section chain.
Context {c : N -> hdr} {U : N} {CH : chain_hyps c U}.

Lemma pinv_obs s sp : pinv c U s sp -> obs_equal c U s sp.
Proof.
  intros I. unfold obs_equal.
  split_and!; intros; eauto using obs_head, obs_tail, obs_height, obs_gbh, obs_get, obs_has, obs_has_at, obs_range.
Qed.

(** ** histories *)
End chain.

(** appended heights must lie in the universe of the chain *)
Definition op_ok (U : N) (o : iop) : Prop :=
  match o with IAppend ns => Forall (inr U) ns | _ => True end.

(** the specification step the oracle pairs with an operation *)
Definition spec_op (sp : spec) (o : iop) : spec := fst (fst (spec_step sp (SStep o OOk [] None))).
Definition spec_out (sp : spec) (o : iop) : oobs := snd (fst (spec_step sp (SStep o OOk [] None))).
Definition spec_log (sp : spec) (o : iop) : list hobs := snd (spec_step sp (SStep o OOk [] None)).

Definition mstep (c : N -> hdr) (s : st) (o : iop) : st * list hcall * outcome := step s (to_op c o).
Definition run (c : N -> hdr) (s : st) (ops : list iop) : st :=
  fold_left (fun s o => fst (fst (mstep c s o))) ops s.
Definition run_spec (sp : spec) (ops : list iop) : spec := fold_left spec_op ops sp.

Lemma run_app c s ops ops' : run c s (ops ++ ops') = run c (run c s ops) ops'.
Proof. apply fold_left_app. Qed.
Lemma run_spec_app sp ops ops' : run_spec sp (ops ++ ops') = run_spec (run_spec sp ops) ops'.
Proof. apply fold_left_app. Qed.

Section chain2.
Context {c : N -> hdr} {U : N} {CH : chain_hyps c U}.
Notation inv := (inv c U).

Theorem step_refines s sp o : inv s sp -> op_ok U o ->
  inv (fst (fst (mstep c s o))) (spec_op sp o) /\
  oob (snd (mstep c s o)) = spec_out sp o /\
  map to_hobs (snd (fst (mstep c s o))) = spec_log sp o.
Proof.
  intros I Hok. unfold mstep, spec_op, spec_out, spec_log. destruct o as [ns|from to nh fails| | |].
  - cbn [to_op step spec_step ss_op fst snd]. cbn in Hok.
    destruct (append_inv s sp ns I Hok) as [I' E].
    destruct (append s (map c ns)) as [s' r]. cbn [fst snd] in *. subst r. auto.
  - pose proof (delete_refines s sp from to nh fails I) as D. cbn [to_op step].
    destruct (delete_range s (script_of fails) nh from to) as [[s' log] out].
    destruct (spec_step sp _) as [[sp' out'] log']. cbn [fst snd]. tauto.
  - cbn. split_and!; auto. apply sync_inv; auto.
  - destruct (restart_refines s sp I) as (s' & E & I'). cbn [to_op]. rewrite E. cbn. auto.
  - destruct (reopen_refines s sp I) as (s' & E & I'). cbn [to_op]. rewrite E. cbn. auto.
Qed.

Theorem run_inv s sp ops : inv s sp -> Forall (op_ok U) ops -> inv (run c s ops) (run_spec sp ops).
Proof.
  intros I F. revert s sp I. induction F as [|o ops Ho F IH]; intros s sp I; cbn; auto.
  apply IH. apply step_refines; auto.
Qed.

Theorem history_inv b ops : Forall (op_ok U) ops -> inv (run c (st0 b) ops) (run_spec spec0 ops).
Proof. intros F. apply run_inv; auto. apply inv_st0. Qed.

End chain2.

(** every read of the model after any history equals the read of the specification *)
Theorem history_refines c U : chain_hyps c U -> forall b ops, Forall (op_ok U) ops ->
  obs_equal c U (run c (st0 b) ops) (run_spec spec0 ops).
Proof. intros CH b ops F. apply pinv_obs. apply (history_inv b ops F). Qed.
