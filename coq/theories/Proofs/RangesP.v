(** Lemmas about Model/Ranges.v: the invariant of the pending ranges (each run
    consecutive with a correct [start], runs ascending and non-adjacent, empty
    runs only in front) is preserved by Add for arbitrary heights, by First and
    by Remove; Get/Remove cannot hit the slice bound unless [end] is exactly one
    above the run's last height. *)
From Coq Require Import List Lia.
From GH Require Import Base.Prelude Model.Ranges.

(** heights are uint64 values below the maximum (so that [h+1] never wraps) *)
Definition hok (h : hdr) : Prop := h_height h + 1 < two64.

Fixpoint consec (l : list hdr) : Prop :=
  match l with
  | a :: ((b :: _) as r) => h_height b = h_height a + 1 /\ consec r
  | _ => True
  end.

Definition range_ok (r : hrange) : Prop :=
  consec (r_hdrs r) /\ Forall hok (r_hdrs r) /\
  match r_hdrs r with h :: _ => r_start r = h_height h | [] => True end.

(** non-empty runs, each ok, first height of each at least [lo], next run at
    least two above the previous run's last height *)
Fixpoint ne_inv (lo : N) (rs : ranges) : Prop :=
  match rs with
  | [] => True
  | r :: t =>
    range_ok r /\
    match r_hdrs r with
    | [] => False
    | a :: _ => lo <= h_height a /\ ne_inv (h_height (last (r_hdrs r) a) + 2) t
    end
  end.

Fixpoint rinv (rs : ranges) : Prop :=
  match rs with
  | [] => True
  | r :: t => match r_hdrs r with [] => rinv t | _ => ne_inv 0 rs end
  end.

(** ** lists *)
Lemma last_opt_app {A} (l : list A) (a : A) : last_opt (l ++ [a]) = Some a.
Proof.
  induction l as [|x l IH]; [reflexivity|].
  cbn [app last_opt]. destruct (l ++ [a]) eqn:E; [destruct l; discriminate|]. exact IH.
Qed.

Lemma last_opt_last {A} (l : list A) (a d : A) : last_opt (a :: l) = Some (last (a :: l) d).
Proof.
  revert a. induction l as [|x l IH]; intros a; [reflexivity|].
  change (last_opt (a :: x :: l)) with (last_opt (x :: l)).
  change (last (a :: x :: l) d) with (last (x :: l) d). apply IH.
Qed.

Lemma last_opt_none {A} (l : list A) : last_opt l = None -> l = [].
Proof. destruct l as [|a l]; [reflexivity|]. rewrite (last_opt_last l a a). discriminate. Qed.

Lemma last_opt_in {A} (l : list A) (a : A) : last_opt l = Some a -> In a l.
Proof.
  induction l as [|x l IH]; [discriminate|].
  destruct l as [|y l]; [intros [= <-]; left; reflexivity|].
  intros H. right. apply IH. exact H.
Qed.

Lemma last_opt_cons_app {A} (l : list A) (x a : A) : last_opt (x :: l ++ [a]) = Some a.
Proof. change (x :: l ++ [a]) with ((x :: l) ++ [a]). apply last_opt_app. Qed.

Lemma last_in {A} (l : list A) (a : A) : In (last (a :: l) a) (a :: l).
Proof. apply last_opt_in. apply last_opt_last. Qed.

Lemma in_skipn' {A} (k : nat) (l : list A) x : In x (skipn k l) -> In x l.
Proof. revert l. induction k as [|k IH]; intros l H; [exact H|]. destruct l; [destruct H|]. right. apply IH. exact H. Qed.

Lemma in_firstn' {A} (k : nat) (l : list A) x : In x (firstn k l) -> In x l.
Proof. revert l. induction k as [|k IH]; intros l H; [destruct H|]. destruct l; [destruct H|]. destruct H as [<-|H]; [left; reflexivity|right; apply IH; exact H]. Qed.

Lemma last_app' {A} (l l' : list A) (d : A) : l' <> [] -> last (l ++ l') d = last l' d.
Proof.
  intros Hne. induction l as [|x l IH]; [reflexivity|].
  cbn [app]. destruct (l ++ l') eqn:E; [destruct l; [contradiction|discriminate]|]. exact IH.
Qed.

(** ** consecutive runs *)
Lemma consec_tail a l : consec (a :: l) -> consec l.
Proof. destruct l; cbn; [auto|]. intros [_ H]; exact H. Qed.

Lemma last_indep {A} (l : list A) (a d d' : A) : last (a :: l) d = last (a :: l) d'.
Proof. revert a. induction l as [|b l IH]; intros a; [reflexivity|]. apply IH. Qed.

Lemma consec_app_one l a x :
  consec (a :: l) -> h_height x = h_height (last (a :: l) a) + 1 -> consec ((a :: l) ++ [x]).
Proof.
  revert a. induction l as [|b l IH]; intros a Hc Hx.
  - cbn in *. split; [exact Hx|exact I].
  - destruct Hc as [Hb Hc]. split; [exact Hb|].
    apply IH; [exact Hc|]. rewrite Hx.
    change (last (a :: b :: l) a) with (last (b :: l) a). rewrite (last_indep l b a b). reflexivity.
Qed.

(** element heights of a consecutive run *)
Lemma consec_bounds a l :
  consec (a :: l) ->
  forall x, In x (a :: l) -> h_height a <= h_height x /\ h_height x <= h_height (last (a :: l) a).
Proof.
  revert a. induction l as [|b l IH]; intros a Hc x Hin.
  - destruct Hin as [<-|[]]. cbn. lia.
  - destruct Hc as [Hb Hc]. change (last (a :: b :: l) a) with (last (b :: l) a).
    rewrite (last_indep l b a b).
    destruct Hin as [<-|Hin].
    + pose proof (IH b Hc b (or_introl eq_refl)). lia.
    + pose proof (IH b Hc x Hin). lia.
Qed.

Lemma consec_last_height a l :
  consec (a :: l) -> h_height (last (a :: l) a) = h_height a + N.of_nat (length l).
Proof.
  revert a. induction l as [|b l IH]; intros a Hc.
  - cbn. lia.
  - destruct Hc as [Hb Hc]. change (last (a :: b :: l) a) with (last (b :: l) a).
    rewrite (last_indep l b a b), (IH b Hc), Hb. cbn [length]. lia.
Qed.

Lemma consec_firstn_skipn a l (k : nat) :
  consec (a :: l) ->
  (forall x, In x (firstn k (a :: l)) -> h_height x < h_height a + N.of_nat k) /\
  (forall x, In x (skipn k (a :: l)) -> h_height a + N.of_nat k <= h_height x) /\
  consec (skipn k (a :: l)).
Proof.
  revert a l. induction k as [|k IH]; intros a l Hc.
  - cbn [firstn skipn]. split; [intros x []|]. split; [|exact Hc].
    intros x Hin. pose proof (consec_bounds a l Hc x Hin). lia.
  - cbn [firstn skipn]. destruct l as [|b l].
    + split; [|split; [intros x Hin; destruct k; destruct Hin | destruct k; exact I]].
      intros x [<-|Hin]; [lia|]. destruct k; destruct Hin.
    + destruct Hc as [Hb Hc]. destruct (IH b l Hc) as (H1 & H2 & H3).
      split; [|split; [|exact H3]].
      * intros x [<-|Hin]; [lia|]. specialize (H1 x Hin). lia.
      * intros x Hin. specialize (H2 x Hin). lia.
Qed.

(** ** rangeAmount, Get, Remove on a non-empty ok run *)
Section amount.
Variables (r : hrange) (a : hdr) (l : list hdr).
Hypothesis Hr : r_hdrs r = a :: l.
Hypothesis Hok : range_ok r.

Let s := h_height a.
Let n := N.of_nat (length (a :: l)).

Lemma run_start : r_start r = s.
Proof. destruct Hok as (_ & _ & H). rewrite Hr in H. exact H. Qed.

Lemma run_last : h_height (last (a :: l) a) = s + n - 1.
Proof.
  destruct Hok as (Hc & _ & _). rewrite Hr in Hc. rewrite (consec_last_height a l Hc).
  subst s n. cbn [length]. lia.
Qed.

Lemma run_nowrap : s + n < two64.
Proof.
  destruct Hok as (_ & Hf & _). rewrite Hr in Hf.
  pose proof (proj1 (Forall_forall _ _) Hf _ (last_in l a)) as H. unfold hok in H.
  rewrite run_last in H. subst n. cbn [length] in *. lia.
Qed.

Lemma amount_cases (e : N) :
  let am := range_amount (r_start r) (len64 (r_hdrs r)) e in
  (e < s -> am = 0) /\
  (s <= e -> e < s + n -> am = e - s + 1) /\
  (s + n <= e -> am = n).
Proof.
  cbn zeta. rewrite run_start. unfold len64. rewrite Hr. fold n. unfold range_amount.
  pose proof run_nowrap as Hw.
  assert (Hwr : wrap64 (s + n) = s + n) by (unfold wrap64; apply N.mod_small; exact Hw).
  rewrite Hwr.
  repeat split; intros.
  - destruct (N.ltb_spec e s); [reflexivity|lia].
  - destruct (N.ltb_spec e s); [lia|]. destruct (N.ltb_spec e (s + n)); [|lia].
    unfold sub64. destruct (N.leb_spec s e); [|lia]. unfold wrap64. apply N.mod_small. lia.
  - destruct (N.ltb_spec e s); [lia|]. destruct (N.ltb_spec e (s + n)); [lia|reflexivity].
Qed.

(** Get/Remove split the run at [end]: what is at or below it, and the rest *)
Lemma get_remove_spec (e : N) :
  exists g r',
    range_get e r = Some g /\ range_remove e r = Some r' /\
    r_hdrs r = g ++ r_hdrs r' /\
    (forall x, In x g -> h_height x <= e) /\
    (forall x, In x (r_hdrs r') -> e < h_height x) /\
    range_ok r'.
Proof.
  unfold range_get, range_remove.
  destruct (amount_cases e) as (C1 & C2 & C4).
  remember (range_amount (r_start r) (len64 (r_hdrs r)) e) as am eqn:Eam. clear Eam.
  assert (Hle : am <= n /\ ((e < s /\ am = 0) \/ (s <= e /\ e < s + n /\ am = e - s + 1) \/ (s + n <= e /\ am = n))).
  { destruct (N.lt_ge_cases e s) as [H|H].
    - rewrite (C1 H). split; [lia|]. left; split; [exact H|reflexivity].
    - destruct (N.lt_ge_cases e (s + n)) as [H'|H'].
      + rewrite (C2 H H'). split; [lia|]. right; left. repeat split; lia.
      + rewrite (C4 H'). split; [lia|]. right; right. split; [exact H'|reflexivity]. }
  destruct Hle as [Hle Hcase].
  unfold len64. rewrite Hr. fold n.
  destruct (N.leb_spec am n) as [_|]; [|lia].
  destruct Hok as (Hc & Hf & Hs). rewrite Hr in Hc, Hf.
  destruct (consec_firstn_skipn a l (N.to_nat am) Hc) as (F1 & F2 & F3).
  rewrite N2Nat.id in F1, F2.
  eexists _, _. split; [reflexivity|]. split; [reflexivity|].
  cbn [r_hdrs].
  split; [symmetry; apply firstn_skipn|].
  split; [|split].
  - intros x Hin. specialize (F1 x Hin). fold s in F1.
    destruct Hcase as [[H1 H2]|[[H1 [H2 H3]]|[H1 H2]]]; rewrite ?H2, ?H3 in F1.
    + rewrite H2 in Hin. destruct Hin.
    + lia.
    + lia.
  - intros x Hin. specialize (F2 x Hin). fold s in F2.
    pose proof (consec_bounds a l Hc x (in_skipn' _ _ _ Hin)) as B.
    pose proof run_last as RL.
    assert (1 <= n) by (subst n; cbn [length]; lia).
    destruct Hcase as [[H1 H2]|[[H1 [H2 H3]]|[H1 H2]]]; rewrite ?H2, ?H3 in F2; lia.
  - unfold range_ok. cbn [r_hdrs r_start]. split; [exact F3|]. split.
    + apply Forall_forall. intros x Hin. apply (proj1 (Forall_forall _ _) Hf). eapply in_skipn'; exact Hin.
    + destruct (skipn (N.to_nat am) (a :: l)); [exact I|reflexivity].
Qed.

End amount.

(** rangeAmount never exceeds the number of headers, whatever start, length and
    end are: Get and Remove never slice out of range *)
Lemma range_amount_le (start len e : N) : range_amount start len e <= len.
Proof.
  unfold range_amount. destruct (N.ltb_spec e start); [lia|].
  destruct (N.ltb_spec e (wrap64 (start + len))) as [Hlt|]; [|lia].
  assert (Hw : wrap64 (start + len) <= start + len) by (unfold wrap64; apply N.mod_le; discriminate).
  assert (Hs : sub64 e start = e - start) by (unfold sub64; destruct (N.leb_spec start e); [reflexivity|lia]).
  rewrite Hs. assert (Hm : wrap64 (e - start + 1) <= e - start + 1) by (unfold wrap64; apply N.mod_le; discriminate). lia.
Qed.

Lemma range_get_total e r : exists g, range_get e r = Some g.
Proof.
  unfold range_get. pose proof (range_amount_le (r_start r) (len64 (r_hdrs r)) e) as H.
  destruct (N.leb_spec (range_amount (r_start r) (len64 (r_hdrs r)) e) (len64 (r_hdrs r))); [eexists; reflexivity|lia].
Qed.

Lemma range_remove_total e r : exists r', range_remove e r = Some r'.
Proof.
  unfold range_remove. pose proof (range_amount_le (r_start r) (len64 (r_hdrs r)) e) as H.
  destruct (N.leb_spec (range_amount (r_start r) (len64 (r_hdrs r)) e) (len64 (r_hdrs r))); [eexists; reflexivity|lia].
Qed.

(** ** all headers held / head *)
Lemma ranges_all_app rs rs' : ranges_all (rs ++ rs') = ranges_all rs ++ ranges_all rs'.
Proof. unfold ranges_all. apply flat_map_app. Qed.

Lemma ne_inv_weaken lo lo' rs : lo' <= lo -> ne_inv lo rs -> ne_inv lo' rs.
Proof.
  destruct rs as [|r t]; [auto|]. cbn. intros Hle [Hok H]. split; [exact Hok|].
  destruct (r_hdrs r); [exact H|]. destruct H as [H1 H2]. split; [lia|exact H2].
Qed.

Lemma ne_inv_lo lo rs : ne_inv lo rs -> forall x, In x (ranges_all rs) -> lo <= h_height x.
Proof.
  revert lo. induction rs as [|r t IH]; intros lo H x Hin; [destruct Hin|].
  cbn in H. destruct H as [Hok H]. destruct (r_hdrs r) as [|a l] eqn:Hr; [destruct H|].
  destruct H as [Hlo Ht]. cbn in Hin. rewrite Hr in Hin. apply in_app_or in Hin.
  destruct Hok as (Hc & _ & _). rewrite Hr in Hc.
  destruct Hin as [Hin|Hin].
  - pose proof (consec_bounds a l Hc x Hin). lia.
  - specialize (IH _ Ht x Hin). pose proof (consec_bounds a l Hc _ (last_in l a)). lia.
Qed.

(** the head of non-empty gapped runs is their maximum *)
Lemma ne_inv_head lo rs :
  ne_inv lo rs -> rs <> [] ->
  exists m, ranges_head rs = Some m /\ In m (ranges_all rs) /\ forall x, In x (ranges_all rs) -> h_height x <= h_height m.
Proof.
  revert lo. induction rs as [|r t IH]; intros lo H Hne; [contradiction|].
  cbn in H. destruct H as [Hok H]. destruct (r_hdrs r) as [|a l] eqn:Hr; [destruct H|].
  destruct H as [Hlo Ht]. destruct Hok as (Hc & _ & _). rewrite Hr in Hc.
  destruct t as [|r' t'].
  - exists (last (a :: l) a). unfold ranges_head, range_head. cbn [last_opt]. rewrite Hr.
    split; [apply last_opt_last|]. cbn. rewrite Hr, app_nil_r. split; [apply last_in|].
    intros x Hin. apply (consec_bounds a l Hc x Hin).
  - destruct (IH _ Ht ltac:(discriminate)) as (m & Hm & Hin & Hmax).
    exists m. split; [|split].
    + unfold ranges_head in *. exact Hm.
    + cbn. apply in_or_app. right. exact Hin.
    + intros x Hx. cbn in Hx. rewrite Hr in Hx. apply in_app_or in Hx. destruct Hx as [Hx|Hx]; [|auto].
      pose proof (ne_inv_lo _ _ Ht m Hin). pose proof (consec_bounds a l Hc x Hx). lia.
Qed.

Lemma rinv_all_empty rs : Forall (fun r => r_hdrs r = []) rs -> ranges_all rs = [] /\ ranges_head rs = None.
Proof.
  induction 1 as [|r t Hr Ht IH]; [split; reflexivity|].
  destruct IH as [IH1 IH2]. split.
  - cbn. rewrite Hr. exact IH1.
  - unfold ranges_head in *. destruct t as [|r' t'].
    + cbn. unfold range_head. rewrite Hr. reflexivity.
    + exact IH2.
Qed.

(** under the invariant: leading empty runs, then non-empty gapped runs *)
Lemma rinv_split rs : rinv rs -> exists es ns, rs = es ++ ns /\ Forall (fun r => r_hdrs r = []) es /\ ne_inv 0 ns.
Proof.
  induction rs as [|r t IH]; intros H.
  - exists [], []. split; [reflexivity|]. split; [constructor|exact I].
  - cbn [rinv] in H. destruct (r_hdrs r) eqn:Hr.
    + destruct (IH H) as (es & ns & -> & Hes & Hns). exists (r :: es), ns.
      split; [reflexivity|]. split; [constructor; assumption|exact Hns].
    + exists [], (r :: t). split; [reflexivity|]. split; [constructor|exact H].
Qed.

Lemma ranges_head_app_ne es ns : ns <> [] -> ranges_head (es ++ ns) = ranges_head ns.
Proof.
  intros Hne. unfold ranges_head. f_equal.
  induction es as [|e es IH]; [reflexivity|].
  cbn [app]. destruct (es ++ ns) eqn:E; [destruct es; [contradiction|discriminate]|]. exact IH.
Qed.

Lemma ranges_head_empties es : Forall (fun r => r_hdrs r = []) es -> ranges_head es = None.
Proof. intros H. apply rinv_all_empty, H. Qed.

Lemma ranges_all_empties es ns : Forall (fun r => r_hdrs r = []) es -> ranges_all (es ++ ns) = ranges_all ns.
Proof. intros H. rewrite ranges_all_app. destruct (rinv_all_empty es H) as [-> _]. reflexivity. Qed.

(** ranges.Head() is the maximum of everything held; None iff nothing is held *)
Lemma rinv_head rs :
  rinv rs ->
  match ranges_head rs with
  | Some m => In m (ranges_all rs) /\ forall x, In x (ranges_all rs) -> h_height x <= h_height m
  | None => ranges_all rs = []
  end.
Proof.
  intros H. destruct (rinv_split rs H) as (es & ns & -> & Hes & Hns).
  destruct ns as [|r t].
  - rewrite app_nil_r. destruct (rinv_all_empty es Hes) as [-> ->]. reflexivity.
  - rewrite ranges_head_app_ne by discriminate. rewrite ranges_all_empties by exact Hes.
    destruct (ne_inv_head 0 (r :: t) Hns ltac:(discriminate)) as (m & -> & Hin & Hmax). split; assumption.
Qed.

(** ** First *)
Lemma ranges_first_spec rs :
  rinv rs ->
  rinv (ranges_first rs) /\ ranges_all (ranges_first rs) = ranges_all rs /\
  ranges_head (ranges_first rs) = ranges_head rs /\
  match ranges_first rs with [] => ranges_all rs = [] | r :: _ => r_hdrs r <> [] /\ ne_inv 0 (ranges_first rs) end.
Proof.
  intros H. destruct (rinv_split rs H) as (es & ns & -> & Hes & Hns).
  assert (E : ranges_first (es ++ ns) = ns).
  { induction Hes as [|e es He Hes IH]; cbn [app ranges_first].
    - destruct ns as [|r t]; [reflexivity|]. cbn in Hns. destruct Hns as [_ Hn]. cbn.
      unfold range_empty. destruct (r_hdrs r); [destruct Hn|reflexivity].
    - unfold range_empty. rewrite He. apply IH. clear -H He. cbn [app rinv] in H. rewrite He in H. exact H. }
  rewrite E. rewrite ranges_all_empties by exact Hes.
  split; [|split; [reflexivity|split]].
  - destruct ns as [|r t]; [exact I|]. cbn [rinv]. pose proof Hns as Hn'. cbn in Hns. destruct Hns as [_ Hn].
    destruct (r_hdrs r); [destruct Hn|exact Hn'].
  - destruct ns as [|r t].
    + rewrite app_nil_r. symmetry. apply (ranges_head_empties es Hes).
    + symmetry. apply ranges_head_app_ne. discriminate.
  - destruct ns as [|r t]; [reflexivity|]. split; [|exact Hns].
    cbn in Hns. destruct Hns as [_ Hn]. destruct (r_hdrs r); [destruct Hn|discriminate].
Qed.

(** ** Add *)
Lemma append_last_spec h rs :
  rs <> [] ->
  exists pre r, rs = pre ++ [r] /\ append_last h rs = pre ++ [HRange (r_hdrs r ++ [h]) (r_start r)].
Proof.
  induction rs as [|x rs IH]; [contradiction|]. intros _.
  destruct rs as [|y rs'].
  - exists [], x. split; reflexivity.
  - destruct (IH ltac:(discriminate)) as (pre & r & E & E'). exists (x :: pre), r.
    split; [cbn; f_equal; exact E|]. cbn [append_last]. cbn [append_last] in E'. rewrite E'. reflexivity.
Qed.

Lemma ne_inv_app lo rs r' :
  ne_inv lo rs -> range_ok r' ->
  (forall a l, r_hdrs r' = a :: l ->
     lo <= h_height a /\ forall m, ranges_head rs = Some m -> h_height m + 2 <= h_height a) ->
  r_hdrs r' <> [] ->
  ne_inv lo (rs ++ [r']).
Proof.
  revert lo. induction rs as [|r t IH]; intros lo H Hok' Hgap Hne'.
  - cbn. split; [exact Hok'|]. destruct (r_hdrs r') as [|a l] eqn:E; [contradiction|].
    destruct (Hgap a l eq_refl) as [H1 _]. split; [exact H1|exact I].
  - cbn [app ne_inv] in *. destruct H as [Hok H]. split; [exact Hok|].
    destruct (r_hdrs r) as [|a l] eqn:Hr; [destruct H|]. destruct H as [Hlo Ht].
    split; [exact Hlo|]. apply IH; auto.
    intros a' l' E. destruct (Hgap a' l' E) as [G1 G2]. split.
    + destruct t as [|r2 t2].
      * apply G2. unfold ranges_head, range_head. cbn [last_opt]. rewrite Hr. apply last_opt_last.
      * destruct (ne_inv_head _ _ Ht ltac:(discriminate)) as (m & Hm & Hin & _).
        pose proof (ne_inv_lo _ _ Ht m Hin).
        assert (ranges_head (r :: r2 :: t2) = Some m) by exact Hm.
        specialize (G2 m H0). lia.
    + intros m Hm. apply G2. destruct t as [|r2 t2]; [discriminate Hm|exact Hm].
Qed.

Lemma ne_inv_snoc_extend lo pre r h :
  ne_inv lo (pre ++ [r]) -> hok h ->
  (forall m, range_head r = Some m -> h_height h = h_height m + 1) ->
  ne_inv lo (pre ++ [HRange (r_hdrs r ++ [h]) (r_start r)]).
Proof.
  revert lo. induction pre as [|p pre IH]; intros lo H Hh Hadj.
  - cbn [app ne_inv] in *. destruct H as [Hok H].
    destruct (r_hdrs r) as [|a l] eqn:Hr; [destruct H|]. destruct H as [Hlo _].
    cbn [r_hdrs]. split.
    + destruct Hok as (Hc & Hf & Hs). rewrite ?Hr in Hc, Hf, Hs. unfold range_ok. cbn [r_hdrs r_start]. rewrite ?Hr.
      split; [|split].
      * apply consec_app_one; [exact Hc|]. apply Hadj. unfold range_head. rewrite Hr. apply last_opt_last.
      * apply Forall_app. split; [exact Hf|constructor; [exact Hh|constructor]].
      * exact Hs.
    + rewrite ?Hr. cbn [app]. split; [exact Hlo|exact I].
  - cbn [app ne_inv] in *. destruct H as [Hok H]. split; [exact Hok|].
    destruct (r_hdrs p) as [|a l] eqn:Hp; [destruct H|]. destruct H as [Hlo Ht]. split; [exact Hlo|].
    apply IH; auto.
Qed.

Lemma ranges_head_snoc pre r : ranges_head (pre ++ [r]) = range_head r.
Proof. unfold ranges_head. rewrite last_opt_app. reflexivity. Qed.

Theorem rinv_add h rs : rinv rs -> hok h -> rinv (ranges_add h rs).
Proof.
  intros H Hh. destruct (rinv_split rs H) as (es & ns & -> & Hes & Hns).
  assert (Hre : forall ns', ne_inv 0 ns' -> ns' <> [] -> rinv (es ++ ns')).
  { intros ns' Hn' Hne. clear -Hes Hn' Hne. induction Hes as [|e es He Hes IH]; cbn [app rinv].
    - destruct ns' as [|r t]; [contradiction|]. cbn [rinv]. pose proof Hn' as Hn. cbn in Hn'. destruct Hn' as [_ Hx].
      destruct (r_hdrs r); [destruct Hx|exact Hn].
    - rewrite He. exact IH. }
  unfold ranges_add.
  destruct ns as [|r0 t0].
  - rewrite app_nil_r. rewrite (ranges_head_empties es Hes).
    change (es ++ [new_range h]) with (es ++ [new_range h]). apply Hre; [|discriminate].
    cbn. split; [|split; [lia|exact I]].
    unfold range_ok, new_range. cbn. repeat split; auto.
  - rewrite ranges_head_app_ne by discriminate.
    destruct (ne_inv_head 0 (r0 :: t0) Hns ltac:(discriminate)) as (m & Hm & Hin & Hmax). rewrite Hm.
    destruct (N.leb_spec (h_height h) (h_height m)) as [Hle|Hgt]; [exact H|].
    destruct (N.eqb_spec (h_height h) (wrap64 (h_height m + 1))) as [Heq|Hneq].
    + (* adjacent: extend the last run *)
      assert (Hadj : h_height h = h_height m + 1).
      { unfold wrap64 in Heq. destruct (N.lt_ge_cases (h_height m + 1) two64) as [Hs|Hs].
        - rewrite N.mod_small in Heq by exact Hs. exact Heq.
        - exfalso. unfold hok in Hh. pose proof (N.mod_upper_bound (h_height m + 1) two64 ltac:(discriminate)). lia. }
      destruct (append_last_spec h (es ++ r0 :: t0)) as (pre & r & E & E'); [destruct es; discriminate|].
      rewrite E'.
      (* pre ++ [r] = es ++ r0 :: t0 : the last run is in the non-empty part *)
      destruct (append_last_spec h (r0 :: t0) ltac:(discriminate)) as (pre' & r' & F & _).
      assert (pre = es ++ pre' /\ r = r') as [-> ->].
      { rewrite F, app_assoc in E. apply app_inj_tail in E. destruct E; split; auto. }
      rewrite <- app_assoc. apply Hre; [|destruct pre'; discriminate].
      rewrite F in Hns, Hm. apply ne_inv_snoc_extend; [exact Hns|exact Hh|].
      intros m' Hm'. rewrite ranges_head_snoc in Hm. rewrite Hm in Hm'. injection Hm' as <-. exact Hadj.
    + (* start a new run *)
      rewrite <- app_assoc. cbn [app].
      change (es ++ r0 :: t0 ++ [new_range h]) with (es ++ (r0 :: t0) ++ [new_range h]).
      apply Hre; [|discriminate].
      apply ne_inv_app; [exact Hns| | |discriminate].
      * unfold range_ok, new_range. cbn. repeat split; auto.
      * intros a l [= <- <-]. split; [lia|]. intros m' Hm'. rewrite Hm in Hm'. injection Hm' as <-.
        assert (h_height h <> h_height m + 1).
        { intros E. apply Hneq. rewrite E. unfold wrap64. symmetry. apply N.mod_small. unfold hok in Hh. lia. }
        lia.
Qed.

(** what Add does to the set of headers held: a header above everything is
    added at the end, anything else is dropped *)
Lemma ranges_add_all h rs :
  rinv rs ->
  ranges_all (ranges_add h rs) =
  match ranges_head rs with
  | Some m => if h_height h <=? h_height m then ranges_all rs else ranges_all rs ++ [h]
  | None => ranges_all rs ++ [h]
  end.
Proof.
  intros H. unfold ranges_add. destruct (ranges_head rs) as [m|] eqn:Hm.
  - destruct (h_height h <=? h_height m); [reflexivity|].
    destruct (h_height h =? wrap64 (h_height m + 1)).
    + destruct rs as [|x rs']; [discriminate Hm|].
      destruct (append_last_spec h (x :: rs') ltac:(discriminate)) as (pre & r & E & ->).
      rewrite E, !ranges_all_app. cbn. rewrite !app_nil_r, app_assoc. reflexivity.
    + rewrite ranges_all_app. cbn. reflexivity.
  - rewrite ranges_all_app. reflexivity.
Qed.

(** Add never touches the first run unless it is also the last one, and then only appends *)
Lemma ranges_add_first h r t :
  exists r' t', ranges_add h (r :: t) = r' :: t' /\ r_start r' = r_start r /\
    exists ext, r_hdrs r' = r_hdrs r ++ ext /\ (ext = [] \/ ext = [h]) /\ (t <> [] -> ext = []).
Proof.
  unfold ranges_add. destruct (ranges_head (r :: t)) as [m|].
  - destruct (h_height h <=? h_height m).
    + exists r, t. split; [reflexivity|]. split; [reflexivity|]. exists []. rewrite app_nil_r. auto.
    + destruct (h_height h =? wrap64 (h_height m + 1)).
      * destruct t as [|y t'].
        -- cbn. eexists _, _. split; [reflexivity|]. split; [reflexivity|]. exists [h]. cbn. split; [reflexivity|]. split; [auto|]. intros Hc; contradiction.
        -- cbn [append_last]. eexists _, _. split; [reflexivity|]. split; [reflexivity|]. exists []. rewrite app_nil_r. auto.
      * cbn [app]. eexists _, _. split; [reflexivity|]. split; [reflexivity|]. exists []. rewrite app_nil_r. auto.
  - cbn [app]. eexists _, _. split; [reflexivity|]. split; [reflexivity|]. exists []. rewrite app_nil_r. auto.
Qed.

(** ** Remove on the first run *)
Lemma rinv_replace_first r r' t :
  rinv (r :: t) -> r_hdrs r <> [] -> range_ok r' ->
  (exists g, r_hdrs r = g ++ r_hdrs r') ->
  rinv (r' :: t).
Proof.
  intros H Hne Hok' [g Hg].
  cbn [rinv] in H. destruct (r_hdrs r) as [|a l] eqn:Hr; [contradiction|].
  cbn [ne_inv] in H. rewrite Hr in H. destruct H as (Hok & _ & Ht).
  cbn [rinv]. destruct (r_hdrs r') as [|a' l'] eqn:Hr'.
  - (* emptied: the rest must still satisfy rinv *)
    destruct t as [|r2 t2]; [exact I|]. cbn [rinv]. pose proof Ht as Ht'. cbn in Ht. destruct Ht as [_ Hx].
    destruct (r_hdrs r2); [destruct Hx|]. eapply ne_inv_weaken; [|exact Ht']. lia.
  - cbn [ne_inv]. rewrite Hr'. split; [exact Hok'|]. split; [lia|].
    assert (E : last (a' :: l') a' = last (a :: l) a).
    { rewrite Hg. clear. destruct g as [|x g].
      - cbn [app]. apply last_indep.
      - rewrite last_app' by discriminate. apply last_indep. }
    rewrite E. exact Ht.
Qed.

(** ** RemoveUpTo *)
Lemma range_remove_empty e r : r_hdrs r = [] -> exists r', range_remove e r = Some r' /\ r_hdrs r' = [].
Proof.
  intros Hr. destruct (range_remove_total e r) as (r' & E). exists r'. split; [exact E|].
  unfold range_remove in E. destruct (_ <=? _); [|discriminate]. injection E as <-. cbn. rewrite Hr.
  destruct (N.to_nat _); reflexivity.
Qed.

Lemma range_remove_above e r a l :
  r_hdrs r = a :: l -> range_ok r -> e < h_height a -> range_remove e r = Some r.
Proof.
  intros Hr Hok Hlt. destruct (amount_cases r a l Hr Hok e) as (C1 & _ & _). cbn zeta in C1.
  pose proof (run_start r a l Hr Hok) as Hst.
  unfold range_remove. rewrite (C1 Hlt). cbn [N.to_nat skipn].
  destruct (N.leb_spec 0 (len64 (r_hdrs r))); [|lia].
  destruct r as [hd st]. cbn in *. subst hd st. reflexivity.
Qed.

Lemma remove_upto_above e : forall lo rs, ne_inv lo rs -> e < lo -> ranges_remove_upto e rs = Some rs.
Proof.
  intros lo rs. revert lo. induction rs as [|r t IH]; intros lo H Hlt; [reflexivity|].
  cbn [ne_inv] in H. destruct H as [Hok H]. destruct (r_hdrs r) as [|a l] eqn:Ea; [destruct H|]. destruct H as [Hlo Ht].
  cbn [ranges_remove_upto]. rewrite (range_remove_above e r a l Ea Hok ltac:(lia)).
  destruct Hok as (Hc & _ & _). rewrite Ea in Hc. pose proof (consec_bounds a l Hc _ (last_in l a)).
  rewrite (IH _ Ht ltac:(lia)). reflexivity.
Qed.

Lemma remove_upto_ne e : forall rs lo,
  ne_inv lo rs ->
  exists rs', ranges_remove_upto e rs = Some rs' /\ rinv rs' /\
    forall x, In x (ranges_all rs') <-> In x (ranges_all rs) /\ e < h_height x.
Proof.
  induction rs as [|r t IH]; intros lo H.
  - exists []. split; [reflexivity|]. split; [exact I|]. intros x. cbn. tauto.
  - pose proof H as Hne. cbn [ne_inv] in H. destruct H as [Hok H]. destruct (r_hdrs r) as [|a l] eqn:Ea; [destruct H|]. destruct H as [Hlo Ht].
    destruct (get_remove_spec r a l Ea Hok e) as (g & r' & _ & Er & Hsp & Hg & Hr' & Hok').
    destruct (IH _ Ht) as (t' & Et & Hrt & Hmt).
    cbn [ranges_remove_upto]. rewrite Er.
    assert (Hmem : forall x, In x (r_hdrs r') <-> In x (r_hdrs r) /\ e < h_height x).
    { intros x. rewrite Hsp. rewrite in_app_iff. split.
      - intros Hx. split; [right; exact Hx|apply Hr'; exact Hx].
      - intros [[Hx|Hx] Hlt]; [specialize (Hg x Hx); lia|exact Hx]. }
    destruct (r_hdrs r') as [|a' l'] eqn:Er'.
    + (* the whole run is at or below e *)
      rewrite Et. exists (r' :: t'). split; [reflexivity|]. split; [cbn [rinv]; rewrite Er'; exact Hrt|].
      intros x. unfold ranges_all. cbn [flat_map]. rewrite !in_app_iff, Er'. fold (ranges_all t') (ranges_all t).
      rewrite (Hmt x). specialize (Hmem x). cbn in Hmem. tauto.
    + (* part of the run survives: everything after it is untouched *)
      assert (Ha' : e < h_height a') by (apply Hr'; left; reflexivity).
      assert (Hin' : In a' (r_hdrs r)) by (apply Hmem; left; reflexivity).
      destruct Hok as (Hc & Hf & Hs). rewrite Ea in Hc, Hin'.
      pose proof (consec_bounds a l Hc a' Hin') as Hb.
      rewrite (remove_upto_above e _ t Ht ltac:(lia)). exists (r' :: t). split; [reflexivity|]. split.
      * apply (rinv_replace_first r r' t).
        -- cbn [rinv]. rewrite Ea. eapply ne_inv_weaken; [|exact Hne]. lia.
        -- rewrite Ea. discriminate.
        -- exact Hok'.
        -- exists g. rewrite Er'. exact Hsp.
      * intros x. unfold ranges_all. cbn [flat_map]. rewrite !in_app_iff, Er'. fold (ranges_all t).
        assert (Hxt : In x (ranges_all t) -> e < h_height x).
        { intros Hx. pose proof (ne_inv_lo _ _ Ht x Hx). lia. }
        specialize (Hmem x). tauto.
Qed.

Theorem remove_upto_spec e rs :
  rinv rs ->
  exists rs', ranges_remove_upto e rs = Some rs' /\ rinv rs' /\
    forall x, In x (ranges_all rs') <-> In x (ranges_all rs) /\ e < h_height x.
Proof.
  intros H. destruct (rinv_split rs H) as (es & ns & -> & Hes & Hns). clear H.
  induction Hes as [|r es Hr Hes IH].
  - cbn [app]. apply (remove_upto_ne e ns 0 Hns).
  - destruct IH as (rs' & E & Hri & Hm). destruct (range_remove_empty e r Hr) as (r' & Er & Hr').
    exists (r' :: rs'). cbn [app ranges_remove_upto]. rewrite Er, E. split; [reflexivity|]. split; [cbn [rinv]; rewrite Hr'; exact Hri|].
    intros x. unfold ranges_all. cbn [flat_map app]. rewrite Hr', Hr. cbn [app]. apply Hm.
Qed.

(** without the invariant: RemoveUpTo never fails and only removes *)
Lemma remove_upto_total e rs : exists rs', ranges_remove_upto e rs = Some rs'.
Proof.
  induction rs as [|r t IH]; [exists []; reflexivity|]. destruct IH as (t' & Et). destruct (range_remove_total e r) as (r' & Er).
  exists (r' :: t'). cbn. rewrite Er, Et. reflexivity.
Qed.

Lemma remove_upto_len e : forall rs rs', ranges_remove_upto e rs = Some rs' -> (length (ranges_all rs') <= length (ranges_all rs))%nat.
Proof.
  induction rs as [|r t IH]; intros rs' E.
  - cbn in E. injection E as <-. cbn. lia.
  - cbn in E. destruct (range_remove e r) as [r'|] eqn:Er; [|discriminate].
    destruct (ranges_remove_upto e t) as [t'|] eqn:Et; [|discriminate]. injection E as <-.
    specialize (IH t' eq_refl). unfold ranges_all in *. cbn [flat_map]. rewrite !app_length.
    assert (length (r_hdrs r') <= length (r_hdrs r))%nat.
    { unfold range_remove in Er. destruct (_ <=? _); [|discriminate]. injection Er as <-. cbn. rewrite skipn_length. lia. }
    lia.
Qed.
